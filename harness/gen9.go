// gen9.go — `harness gen -unit prefix6`: the DHCPv6 prefix-delegation handler, regenerated as Lean
// definitions (namespace CoreDhcp.GenPD, file CoreDhcp/Generated/Prefix6.lean) from the go/ast of
//
//	plugins/prefix/plugin.go   (*Handler).Handle                     ↦ GenPD.handle
//	                           its loop over msg.Options.IAPD()       ↦ GenPD.iapdBody
//	                           the loops of that loop's body          ↦ GenPD.normalizeBody, loop1Body (+ loop1InnerBody),
//	                                                                    loop2Body (+ loop2InnerBody), loop3Body
//	                           samePrefix                             ↦ GenPD.samePrefix
//	                           addPrefix, recordKey                   inlined where they are called
//	                           const leaseDuration                    ↦ GenPD.leaseDuration
//	                           setupPrefix (the argument checks)      ↦ GenPD.setup
//
// Props/GenPrefix6.lean proves them equal to the hand-written model (Model/Prefix.lean: loop1, loop2, loop3,
// PState.handleIAPD, PState.handleMsg, PState.setup), the allocator's choices taken first fit.
// `-src plugin.go` reads the source from another file (negative tests).
//
// Like the other units the translator goes through the functions statement by statement, knows ONLY the
// constructs they use, and fails loudly (source position, exit code 2) on everything else.
//
// DERIVED FROM THE AST
//   - the control flow: `if` (with and without init), early `return`, `continue`; short-circuit `&&` `||` `!`
//     (a dereference in a right operand is made only when Go makes it)
//   - every `for … range` loop: which variables of the enclosing function its body assigns (they are threaded
//     through the recursion as the state σ), which it only reads (parameters), what it does to the element it
//     is at; a loop becomes `forRange <body> σ xs`, structural recursion over the slice
//   - which hints each loop considers (the tests on the satisfied bit, on len(IP), IP.Equal(net.IPv6zero),
//     Mask.Size(), Mask == nil, Prefix == nil), the givenOut bookkeeping, what is appended to the answer and
//     from WHICH value (the element as it is now / the copy the range clause took), how Expire is extended,
//     when Allocate is called with what, what is recorded, the write-back `h.Records[key] = knownLeases`
//     and its condition, the NoPrefixAvail rule, what is added to the response, the returned pair
//   - every time expression operator by operator (Add, Before, time.Until); leaseDuration from its declaration
//   - the helpers addPrefix and recordKey are translated at every call from their own AST (parameters bound to the
//     arguments); samePrefix becomes a definition of its own
//
// FIXED VOCABULARY (the meaning of a recognised Go expression in the model)
//
//	Go                                               Lean
//	-----------------------------------------------  --------------------------------------------------------
//	receiver h (*Handler)                            s : PState (allocator ↦ alloc, Records ↦ recs); every effect is a
//	                                                 new `let sK : PState := { sJ with … }`; the declarations of
//	                                                 Handler and lease are checked field by field
//	req.GetInnerMessage()                            req.inner : Option MsgV; `msg` is nil exactly when `err != nil`
//	                                                 (`if err != nil { …return }` ↦ `match req.inner with | none => …`)
//	msg.Options.ClientID()                           m.client : Option ClientKey (a DUID is its bytes; nil ↦ none)
//	msg.Options.IAPD()                               m.iapds : List IAPDReq
//	iapd.IaId                                        q.iaid
//	iapd.Options.Prefixes()                          q.hints.map parsedPrefix : List (Option GNet), one entry per IAPrefix
//	                                                 option = the value of its field Prefix (*net.IPNet) as the library
//	                                                 parses it (dhcpv6/option_iaprefix.go FromBytes): prefix-length 0
//	                                                 (HintP.empty) ↦ nil; 1..128 (HintP.pfx ip _ len) ↦ &{IP: 16 bytes,
//	                                                 Mask: /len of 128 bits}; > 128 (HintP.nomask ip _) ↦ &{IP: 16 bytes,
//	                                                 Mask: nil} (net.CIDRMask returns nil).  May be called once.
//	*net.IPNet / net.IPNet                           Option GNet / GNet; GNet.ip : Option Addr (none = nil or empty, some =
//	                                                 16 bytes), GNet.mask : Option Nat (none = nil, some n = 16 bytes with
//	                                                 n leading ones); &net.IPNet{} ↦ some (GNet.mk none none)
//	hint.Prefix (read / `hint.Prefix = p`)           the entry itself (the hints ARE the values of their Prefix fields;
//	                                                 the options are distinct objects). A dereference of a pointer not
//	                                                 known to be non-nil on the path is `match p with | none => none |
//	                                                 some n => …`: `none` = the handler panics
//	x == nil / x != nil                              x.isNone / x.isSome; `p != nil && e` ↦ match p with | none => false
//	                                                 | some n => e; `if p == nil || q == nil { return / continue }`
//	                                                 ↦ a match that binds the pointees for what follows
//	len(ip) / ip.Equal(q) / net.IPv6zero             ipLen ip / ipEqual ip q / some ⟨0#64, 0#64⟩
//	bytes.Equal(m1, m2) on masks / m == nil          maskEqual m1 m2 / m.isNone
//	ones, bits := m.Size()                           maskOnes m, maskBits m   (nil ↦ 0, 0; /n of 128 bits ↦ n, 128)
//	lease / l.Prefix / l.Expire                      Lease / blockNet l.pfx (the allocator's blocks: 16-byte IP, 128-bit
//	                                                 mask) / l.expire
//	h.Records[recordKey(client)]  (read)             s.leasesOf c
//	h.Records[recordKey(client)] = ls                { s with recs := s.put c ls }
//	knownLeases[i].Expire = e, knownLeases           the slice read from the map shares its array with the map's entry:
//	  read from the map and not appended to since    after the statement the write is in, `{ s with recs := aliasSync s c
//	                                                 ls }` (nothing for an empty slice, else the entry's new content);
//	                                                 h.Records may not be touched in between; no element write after append
//	bitset.New(uint(len(xs)))                        xs.map (fun x => (x, false)): the bit travels with the element;
//	bs.Test(uint(i)) / bs.Set(uint(i))               the bit of the element the enclosing `for i … range xs` is at / := true
//	xs = append(xs, v), a bitset sized from xs       the bits are dropped first (xs.map (·.1)); the bitset may not be
//	                                                 used afterwards
//	h.allocator.Allocate(n)                          allocFF s.alloc (netHint n) = A6.allocate … at first fit (the IPv6
//	                                                 allocator MODEL; its tie to the source is unit alloc6); both outcomes
//	                                                 are continued separately: `| .error _ =>` (err != nil) `| .ok k =>`
//	time.Now()                                       now   (one instant per message)
//	t.Add(d) / a.Before(b) / time.Until(t)           t + d / decide (a < b) / t - now          (Int, ns)
//	leaseDuration                                    GenPD.leaseDuration, from `const leaseDuration = N * time.Second`
//	&dhcpv6.OptIAPD{IaId: x}                         an IA_PD under construction: (iaid, opts : List ROpt := [])
//	o.Options.Add(&dhcpv6.OptIAPrefix{Preferred-     opts ++ [ROpt.iaprefix p v b], b the Block of a lease's prefix
//	  Lifetime: p, ValidLifetime: v, Prefix: dup(&l.Prefix)})     (dup is checked: a copy into fresh 16-byte arrays)
//	o.Options.Add(&dhcpv6.OptStatusCode{StatusCode:  opts ++ [ROpt.status N], N read from iana/statuscodes.go
//	  dhcpIana.StatusX})
//	len(o.Options.Options)                           opts.length
//	resp.AddOption(o)                                added ++ [GIAPD.mk iaid opts]  (resp ↦ the options this handler adds)
//	return nil, true / return resp, false            some (s, .ret none true) / some (s, .ret (some added) false)
//	verifSeen(h), first statement only               nothing (verification hook, no-op in normal builds)
//	h.Lock(); defer h.Unlock()                       nothing; checked: consecutive statements at the top level of Handle,
//	                                                 each mentioned exactly once, every use of h.Records / h.allocator
//	                                                 after them, no other use of the mutex
//	log.<Level>(…)                                   nothing — only the package's logger, plain levels, arguments free
//	                                                 of side effects
//	a test whose outcome is known on the path        only the live branch (`if err != nil` after `err` was tested;
//	                                                 the error of Allocate in either continuation)
//
// Go names never reach the generated text: renaming a local, reformatting or moving a log statement
// regenerates the same file.
package main

import (
	"fmt"
	"go/ast"
	"go/parser"
	"go/token"
	"os"
	"path/filepath"
	"regexp"
	"strconv"
	"strings"
)

const prefix6Src = "/repo/plugins/prefix/plugin.go"

type p9kind int

const (
	pkNone     p9kind = iota
	pkHandler         // *Handler ↦ PState
	pkReq             // the request ↦ ReqV
	pkResp            // the response ↦ List GIAPD (what this handler adds)
	pkMsg             // *dhcpv6.Message ↦ Option MsgV
	pkErrOf           // the error next to a pointer: err != nil ⇔ pointer == nil
	pkDUID            // dhcpv6.DUID ↦ Option ClientKey
	pkBytes           // d.ToBytes() ↦ ClientKey
	pkKey             // string(bytes) ↦ ClientKey
	pkIAPDs           // []*OptIAPD of the request ↦ List IAPDReq
	pkIAPD            // an IA_PD of the request ↦ IAPDReq
	pkIAPDPtr         // pointer to an IA_PD under construction
	pkIAPDObj         // the IA_PD under construction: s = its options, iaid
	pkHints           // []*OptIAPrefix ↦ List (Option GNet) [× Bool]
	pkHintPtr         // *OptIAPrefix: pointer to a hint object
	pkHintObj         // a hint object = the value of its Prefix field ↦ Option GNet
	pkNetPtr          // *net.IPNet ↦ Option GNet
	pkNet             // net.IPNet ↦ GNet
	pkIP              // net.IP ↦ Option Addr
	pkMask            // net.IPMask ↦ Option Nat
	pkLeases          // []lease ↦ List Lease [× Bool]
	pkLease           // lease ↦ Lease
	pkBitset          // *bitset.BitSet sized from a slice
	pkIndex           // the index variable of a range loop
	pkTime            // time.Time ↦ Int
	pkDur             // time.Duration ↦ Int
	pkNat             // int (lengths, sizes) ↦ Nat
	pkBool            // bool ↦ Bool
	pkErrAlloc        // the error Allocate returned (known on the path)
	pkOpts            // o.Options.Options ↦ List ROpt
	pkROpt            // an option of the reply ↦ ROpt
)

var p9names = map[p9kind]string{pkHandler: "*Handler", pkReq: "request", pkResp: "response", pkMsg: "*dhcpv6.Message",
	pkErrOf: "error", pkDUID: "dhcpv6.DUID", pkBytes: "[]byte of a DUID", pkKey: "map key", pkIAPDs: "[]*dhcpv6.OptIAPD",
	pkIAPD: "*dhcpv6.OptIAPD of the request", pkIAPDPtr: "*dhcpv6.OptIAPD under construction", pkIAPDObj: "dhcpv6.OptIAPD under construction",
	pkHints: "[]*dhcpv6.OptIAPrefix", pkHintPtr: "*dhcpv6.OptIAPrefix", pkHintObj: "dhcpv6.OptIAPrefix", pkNetPtr: "*net.IPNet",
	pkNet: "net.IPNet", pkIP: "net.IP", pkMask: "net.IPMask", pkLeases: "[]lease", pkLease: "lease", pkBitset: "*bitset.BitSet",
	pkIndex: "loop index", pkTime: "time.Time", pkDur: "time.Duration", pkNat: "int", pkBool: "bool", pkErrAlloc: "error of Allocate",
	pkOpts: "dhcpv6.Options", pkROpt: "dhcpv6.Option", pkNone: "value without meaning here"}

// p9val: a Go value as the translator knows it along one path
type p9val struct {
	k       p9kind
	s       string // Lean expression (pointers: of type Option _)
	p       int    // Lean precedence of s
	pointee string // pointers: Lean expression of the pointee when the pointer is known to be non-nil here
	isNil   bool   // pointers / errors: known to be nil here
	blk     string // pkNet / pkNetPtr: the Block when this is a lease's or an allocated prefix
	ref     int    // the variable this value designates (hint object, element, object under construction, the pointer variable itself)
	zipped  bool   // slices: the elements carry the bit of the bitset sized from the slice
	bitset  int    // slices: that bitset's variable
	alias   string // pkLeases: Lean key of the map entry whose array the slice shares
	lost    bool   // pkLeases: it was appended to: whether it still shares the array depends on the capacity
	slice   int    // pkBitset: the slice it was sized from; 0 = no longer parallel to it
	frame   *p9frame
	iaid    string // pkIAPDObj
	escaped bool   // pkIAPDObj: handed to resp.AddOption
	poison  string // the value may not be used: why
	lit     bool   // pkNat: an integer literal
}

type p9st struct {
	scopes []map[string]int
	vals   map[int]p9val
}

func (st *p9st) clone() *p9st {
	n := &p9st{vals: make(map[int]p9val, len(st.vals))}
	for _, sc := range st.scopes {
		m := make(map[string]int, len(sc))
		for k, v := range sc {
			m[k] = v
		}
		n.scopes = append(n.scopes, m)
	}
	for k, v := range st.vals {
		n.vals[k] = v
	}
	return n
}

func (st *p9st) lookup(name string) (int, bool) {
	for i := len(st.scopes) - 1; i >= 0; i-- {
		if id, ok := st.scopes[i][name]; ok {
			return id, true
		}
	}
	return 0, false
}

func (st *p9st) push()           { st.scopes = append(st.scopes, map[string]int{}) }
func (st *p9st) popTo(depth int) { st.scopes = st.scopes[:depth] }

type p9frame struct {
	slice, idx, elem, bit int // variable ids (0 = none)
	modified              bool
	end                   func(*p9st) string
}

type p9track struct {
	water    int
	refs     []int
	seen     map[int]bool
	assigned map[int]bool
	detach   map[int]bool
}

type p9need struct {
	id int
	at ast.Node
}

type p9gen struct {
	*gen
	imports   map[string]string
	funcs     map[string]*ast.FuncDecl
	pkgNames  map[string]bool
	logOK     bool
	consts    map[string]int
	nvar      int
	names     map[string]string
	count     map[string]int
	ctx       string
	trackers  []*p9track
	dry       int
	defs      []string
	frames    []*p9frame
	dirty     map[int]bool
	recvID    int
	respID    int
	skip      map[ast.Stmt]bool // the lock statements, checked beforehand
	loops     map[*ast.RangeStmt]string
	loopDoc   map[string]string
	inline    int
	nPrefixes int
	inHelper  bool
}

var p9pkgs = map[string]string{"time": "time", "net": "net", "bytes": "bytes", "errors": "errors", "fmt": "fmt", "strconv": "strconv", "sync": "sync",
	"bitset": "github.com/bits-and-blooms/bitset", "dhcpv6": "github.com/insomniacslk/dhcp/dhcpv6", "dhcpIana": "github.com/insomniacslk/dhcp/iana",
	"logger": "github.com/coredhcp/coredhcp/logger", "bitmap": "github.com/coredhcp/coredhcp/plugins/allocators/bitmap",
	"allocators": "github.com/coredhcp/coredhcp/plugins/allocators", "handler": "github.com/coredhcp/coredhcp/handler",
	"plugins": "github.com/coredhcp/coredhcp/plugins"}

var p9builtins = set("nil", "true", "false", "len", "make", "copy", "append", "new", "int", "uint", "string", "panic", "_")

var p9ident = regexp.MustCompile(`^[a-z][a-z0-9]*$`)

// which kinds stand for a Lean value that can be bound, passed and threaded
func (v p9val) leanType() string {
	pair := func(t string, z bool) string {
		if z {
			return "List (" + t + " × Bool)"
		}
		if strings.Contains(t, " ") {
			return "List (" + t + ")"
		}
		return "List " + t
	}
	switch v.k {
	case pkHandler:
		return "PState"
	case pkReq:
		return "ReqV"
	case pkResp:
		return "List GIAPD"
	case pkMsg:
		return "Option MsgV"
	case pkDUID:
		return "Option ClientKey"
	case pkBytes, pkKey:
		return "ClientKey"
	case pkIAPDs:
		return "List IAPDReq"
	case pkIAPD:
		return "IAPDReq"
	case pkIAPDObj, pkOpts:
		return "List ROpt"
	case pkHints:
		return pair("Option GNet", v.zipped)
	case pkHintObj, pkNetPtr:
		return "Option GNet"
	case pkNet:
		return "GNet"
	case pkIP:
		return "Option Addr"
	case pkMask:
		return "Option Nat"
	case pkLeases:
		return pair("Lease", v.zipped)
	case pkLease:
		return "Lease"
	case pkTime, pkDur:
		return "Int"
	case pkNat:
		return "Nat"
	case pkBool:
		return "Bool"
	case pkROpt:
		return "ROpt"
	}
	return ""
}

func (v p9val) pointeeType() string {
	switch v.k {
	case pkMsg:
		return "MsgV"
	case pkDUID:
		return "ClientKey"
	case pkHintObj, pkNetPtr:
		return "GNet"
	}
	return ""
}

var p9prefix = map[p9kind]string{pkHandler: "s", pkResp: "a", pkIAPDObj: "o", pkOpts: "o", pkHints: "hs", pkLeases: "ls", pkLease: "l",
	pkHintObj: "p", pkNetPtr: "p", pkNet: "n", pkIAPD: "q", pkBool: "b", pkTime: "x", pkDur: "x", pkNat: "x", pkMsg: "w", pkDUID: "d",
	pkKey: "c", pkBytes: "c", pkReq: "req", pkIP: "u", pkMask: "u", pkIAPDs: "qs", pkROpt: "v"}

var p9pointeePrefix = map[p9kind]string{pkMsg: "m", pkDUID: "c", pkHintObj: "n", pkNetPtr: "n"}

func (g *p9gen) fresh(pos token.Pos, tag, prefix string) string {
	key := g.ctx + "|" + strconv.Itoa(int(pos)) + "|" + tag + "|" + prefix
	if n, ok := g.names[key]; ok {
		return n
	}
	g.count[prefix]++
	n := prefix + strconv.Itoa(g.count[prefix])
	g.names[key] = n
	return n
}

func p9w(v p9val, min int) string {
	if v.p < min {
		return "(" + v.s + ")"
	}
	return v.s
}

func p9atom(s string) p9val { return p9val{s: s, p: pAtom} }

func (g *p9gen) unparen(x ast.Expr) ast.Expr {
	for {
		p, ok := x.(*ast.ParenExpr)
		if !ok {
			return x
		}
		x = p.X
	}
}

func (g *p9gen) newVar(st *p9st, v p9val) int {
	g.nvar++
	st.vals[g.nvar] = v
	return g.nvar
}

// declare: a new Go variable in the innermost scope
func (g *p9gen) declare(st *p9st, id *ast.Ident, v p9val) int {
	if id.Name == "_" {
		return 0
	}
	_, isPkg := g.imports[id.Name]
	g.must(!isPkg && !g.pkgNames[id.Name] && !p9builtins[id.Name] && p9pkgs[id.Name] == "", id,
		"variable name clashes with a package, a package-level name or a builtin the translator recognises by name")
	_, again := st.scopes[len(st.scopes)-1][id.Name]
	g.must(!again, id, "variable declared twice in the same scope")
	n := g.newVar(st, v)
	if v.ref == -1 { // the value designates its own variable
		v.ref = n
		st.vals[n] = v
	}
	st.scopes[len(st.scopes)-1][id.Name] = n
	return n
}

func (g *p9gen) note(id int, write bool) {
	if len(g.trackers) == 0 {
		return
	}
	t := g.trackers[len(g.trackers)-1]
	if id > t.water || id == 0 {
		return
	}
	if !t.seen[id] {
		t.seen[id] = true
		t.refs = append(t.refs, id)
	}
	if write {
		t.assigned[id] = true
	}
}

func (g *p9gen) get(st *p9st, id int) p9val {
	g.note(id, false)
	return st.vals[id]
}

func (g *p9gen) set(st *p9st, id int, v p9val) {
	g.note(id, true)
	for _, f := range g.frames {
		if id == f.elem || id == f.bit {
			f.modified = true
		}
	}
	st.vals[id] = v
}

func (g *p9gen) usable(v p9val, at ast.Node) p9val {
	g.must(v.poison == "", at, "%s", v.poison)
	return v
}

// ---------------------------------------------------------------- expressions

func (g *p9gen) pkgSel(x ast.Expr, pkg string) (string, bool) {
	s, ok := g.unparen(x).(*ast.SelectorExpr)
	if !ok || !isIdent(s.X, pkg) {
		return "", false
	}
	g.must(g.imports[pkg] == p9pkgs[pkg], x, "`%s` is not the package %s here", pkg, p9pkgs[pkg])
	return s.Sel.Name, true
}

// isPkg: the identifier is an imported package (and no local variable hides it).
func (g *p9gen) isPkg(x ast.Expr, st *p9st) bool {
	id, ok := x.(*ast.Ident)
	if !ok {
		return false
	}
	if _, local := st.lookup(id.Name); local {
		return false
	}
	_, ok = g.imports[id.Name]
	return ok
}

func (g *p9gen) method(x ast.Expr) (recv ast.Expr, name string, call *ast.CallExpr, ok bool) {
	c, ok := g.unparen(x).(*ast.CallExpr)
	if !ok {
		return nil, "", nil, false
	}
	s, ok := c.Fun.(*ast.SelectorExpr)
	if !ok || c.Ellipsis.IsValid() {
		return nil, "", nil, false
	}
	return s.X, s.Sel.Name, c, true
}

// deref: the Lean expression of what a pointer points to; where that is not known the statement is translated
// again inside `match p with | none => none | some n => …` (p9need).
func (g *p9gen) deref(v p9val, st *p9st, at ast.Node) string {
	g.must(v.pointeeType() != "", at, "dereference of a %s", p9names[v.k])
	if v.ref > 0 { // the knowledge is the variable's
		cur := g.get(st, v.ref)
		if cur.pointee != "" {
			return cur.pointee
		}
		g.must(!cur.isNil, at, "dereference of a pointer that is nil here")
		g.must(!g.inHelper, at, "dereference of a pointer not known to be non-nil (a helper cannot panic in the translation)")
		panic(&p9need{id: v.ref, at: at})
	}
	g.must(v.pointee != "", at, "dereference of a pointer that is not known to be non-nil and is not held in a variable")
	return v.pointee
}

func (g *p9gen) netOf(pointee string, blk string) p9val {
	return p9val{k: pkNet, s: pointee, p: precOf(pointee), blk: blk}
}

func precOf(s string) int {
	if p9ident.MatchString(s) || strings.HasPrefix(s, "(") && strings.HasSuffix(s, ")") {
		return pAtom
	}
	if !strings.ContainsAny(s, " ") {
		return pAtom
	}
	return pApp
}

var p9emptyNet = "(GNet.mk none none)"

// compositeNet: net.IPNet{} (only the empty literal)
func (g *p9gen) compositeNet(cl *ast.CompositeLit) bool {
	n, ok := g.pkgSel(cl.Type, "net")
	if !ok || n != "IPNet" {
		return false
	}
	g.must(len(cl.Elts) == 0, cl, "only the empty literal net.IPNet{} is in the vocabulary")
	return true
}

func (g *p9gen) args(c *ast.CallExpr, n int) {
	g.must(len(c.Args) == n && !c.Ellipsis.IsValid(), c, "expected %d argument(s)", n)
}

func (g *p9gen) kv(cl *ast.CompositeLit) map[string]ast.Expr {
	m := map[string]ast.Expr{}
	for _, el := range cl.Elts {
		kv, ok := el.(*ast.KeyValueExpr)
		g.must(ok, el, "composite literal element without a field name")
		k, ok := kv.Key.(*ast.Ident)
		g.must(ok && m[k.Name] == nil, kv.Key, "unknown or repeated field in the literal")
		m[k.Name] = kv.Value
	}
	return m
}

func (g *p9gen) expr(x ast.Expr, st *p9st) p9val {
	x = g.unparen(x)
	switch x := x.(type) {
	case *ast.Ident:
		id, ok := st.lookup(x.Name)
		if !ok && x.Name == "leaseDuration" && g.pkgNames["leaseDuration"] {
			return p9val{k: pkDur, s: "leaseDuration", p: pAtom}
		}
		if b, isBool := g.boolLit(x, st); isBool {
			return p9val{k: pkBool, s: b, p: pAtom}
		}
		g.must(ok, x, "unknown identifier")
		return g.usable(g.get(st, id), x)
	case *ast.BasicLit:
		n, err := strconv.ParseUint(x.Value, 0, 31)
		g.must(x.Kind == token.INT && err == nil, x, "unsupported literal")
		return p9val{k: pkNat, s: strconv.FormatUint(n, 10), p: pAtom, lit: true}
	case *ast.StarExpr:
		v := g.expr(x.X, st)
		g.must(v.k == pkNetPtr, x, "dereference of a %s", p9names[v.k])
		return g.netOf(g.deref(v, st, x), v.blk)
	case *ast.UnaryExpr:
		g.must(x.Op == token.AND, x, "unsupported unary operator %s", x.Op)
		if cl, ok := g.unparen(x.X).(*ast.CompositeLit); ok {
			return g.addrOfLit(cl, st)
		}
		v := g.expr(x.X, st)
		g.must(v.k == pkNet, x, "address of a %s", p9names[v.k])
		return p9val{k: pkNetPtr, s: "some " + p9w(v, pAtom), p: pApp, pointee: p9w(v, pAtom), blk: v.blk}
	case *ast.CompositeLit:
		return g.composite(x, st)
	case *ast.IndexExpr:
		return g.index(x, st)
	case *ast.SelectorExpr:
		return g.selector(x, st)
	case *ast.CallExpr:
		return g.call(x, st)
	}
	g.fail(x, "unsupported expression")
	return p9val{}
}

func (g *p9gen) addrOfLit(cl *ast.CompositeLit, st *p9st) p9val {
	g.must(cl.Type != nil, cl, "literal without a type")
	if g.compositeNet(cl) { // &net.IPNet{}
		return p9val{k: pkNetPtr, s: "some " + p9emptyNet, p: pApp, pointee: p9emptyNet}
	}
	n, ok := g.pkgSel(cl.Type, "dhcpv6")
	g.must(ok, cl, "unknown literal")
	f := g.kv(cl)
	switch n {
	case "OptIAPrefix":
		g.must(len(f) == 3 && f["PreferredLifetime"] != nil && f["ValidLifetime"] != nil && f["Prefix"] != nil, cl,
			"the model's IAPrefix has PreferredLifetime, ValidLifetime and Prefix")
		p, v := g.expr(f["PreferredLifetime"], st), g.expr(f["ValidLifetime"], st)
		g.must(p.k == pkDur && v.k == pkDur, cl, "the lifetimes must be durations (%s, %s)", p9names[p.k], p9names[v.k])
		n := g.expr(f["Prefix"], st)
		g.must(n.k == pkNetPtr && n.blk != "", f["Prefix"], "the model's reply carries the prefix of a lease (a block of the allocator): a %s that is none", p9names[n.k])
		return p9val{k: pkROpt, s: "ROpt.iaprefix " + p9w(p, pAtom) + " " + p9w(v, pAtom) + " " + precWrap(n.blk), p: pApp}
	case "OptStatusCode":
		g.must(len(f) == 1 && f["StatusCode"] != nil, cl, "the model's status option has a code only")
		c, ok := g.pkgSel(f["StatusCode"], "dhcpIana")
		g.must(ok, f["StatusCode"], "the status code must be a constant of dhcpIana")
		num, ok := g.consts["iana."+c]
		g.must(ok, f["StatusCode"], "dhcpIana.%s is not an integer constant of iana/statuscodes.go", c)
		return p9val{k: pkROpt, s: "ROpt.status " + strconv.Itoa(num), p: pApp}
	}
	g.fail(cl, "unknown literal (dhcpv6.%s)", n)
	return p9val{}
}

func precWrap(s string) string {
	if precOf(s) < pAtom {
		return "(" + s + ")"
	}
	return s
}

func (g *p9gen) composite(cl *ast.CompositeLit, st *p9st) p9val {
	g.must(cl.Type != nil, cl, "literal without a type")
	if g.compositeNet(cl) {
		return g.netOf(p9emptyNet, "")
	}
	if isIdent(cl.Type, "lease") { // lease{Expire: e, Prefix: allocated}
		f := g.kv(cl)
		g.must(len(f) == 2 && f["Expire"] != nil && f["Prefix"] != nil, cl, "a lease has Expire and Prefix")
		e, n := g.expr(f["Expire"], st), g.expr(f["Prefix"], st)
		g.must(e.k == pkTime, f["Expire"], "Expire given a %s", p9names[e.k])
		g.must(n.k == pkNet && n.blk != "", f["Prefix"], "the model's lease holds a block of the allocator: a %s that is none", p9names[n.k])
		return p9val{k: pkLease, s: "{ expire := " + e.s + ", pfx := " + n.blk + " }", p: pAtom}
	}
	if at, ok := cl.Type.(*ast.ArrayType); ok && at.Len == nil && g.src(at.Elt) == "*dhcpv6.OptIAPrefix" { // []*dhcpv6.OptIAPrefix{{Prefix: p}, …}
		g.must(g.imports["dhcpv6"] == p9pkgs["dhcpv6"], cl, "`dhcpv6` is not the package %s here", p9pkgs["dhcpv6"])
		var elems []string
		for _, el := range cl.Elts {
			var inner *ast.CompositeLit
			switch e := g.unparen(el).(type) {
			case *ast.CompositeLit:
				inner = e
			case *ast.UnaryExpr:
				if c, ok := e.X.(*ast.CompositeLit); ok && e.Op == token.AND {
					inner = c
				}
			}
			g.must(inner != nil && (inner.Type == nil || g.src(inner.Type) == "dhcpv6.OptIAPrefix"), el, "expected {Prefix: …}")
			f := g.kv(inner)
			g.must(len(f) == 1 && f["Prefix"] != nil, el, "a hint made by the handler may only set Prefix")
			p := g.expr(f["Prefix"], st)
			g.must(p.k == pkNetPtr, f["Prefix"], "Prefix given a %s", p9names[p.k])
			elems = append(elems, p.s)
		}
		return p9val{k: pkHints, s: "[" + strings.Join(elems, ", ") + "]", p: pAtom}
	}
	g.fail(cl, "unknown literal")
	return p9val{}
}

// frameOf: the frame of the range loop whose index variable x is (through uint(…)).
func (g *p9gen) frameOf(x ast.Expr, st *p9st) *p9frame {
	x = g.unparen(x)
	if c, ok := x.(*ast.CallExpr); ok && isIdent(c.Fun, "uint") && len(c.Args) == 1 {
		if _, local := st.lookup("uint"); !local {
			x = g.unparen(c.Args[0])
		}
	}
	id, ok := x.(*ast.Ident)
	g.must(ok, x, "expected the index variable of an enclosing range loop")
	vid, ok := st.lookup(id.Name)
	g.must(ok && st.vals[vid].k == pkIndex, x, "expected the index variable of an enclosing range loop")
	return st.vals[vid].frame
}

func (g *p9gen) recvField(x ast.Expr, st *p9st) (string, bool) {
	s, ok := g.unparen(x).(*ast.SelectorExpr)
	if !ok {
		return "", false
	}
	id, ok := s.X.(*ast.Ident)
	if !ok {
		return "", false
	}
	vid, ok := st.lookup(id.Name)
	if !ok || st.vals[vid].k != pkHandler {
		return "", false
	}
	return s.Sel.Name, true
}

func (g *p9gen) index(x *ast.IndexExpr, st *p9st) p9val {
	if f, ok := g.recvField(x.X, st); ok { // h.Records[key]
		g.must(f == "Records", x, "index of a field of the handler that is not Records")
		g.mapTouched(x)
		k := g.expr(x.Index, st)
		g.must(k.k == pkKey, x.Index, "the records are keyed by recordKey(client): a %s", p9names[k.k])
		s := g.get(st, g.recvID)
		return p9val{k: pkLeases, s: s.s + ".leasesOf " + p9w(k, pAtom), p: pApp, alias: k.s}
	}
	id, ok := g.unparen(x.X).(*ast.Ident)
	g.must(ok, x, "unsupported index expression")
	vid, ok := st.lookup(id.Name)
	g.must(ok, id, "unknown identifier")
	fr := g.frameOf(x.Index, st)
	g.must(fr.slice == vid && st.vals[vid].k == pkLeases, x, "a slice may only be indexed by the index variable of an enclosing range loop over it")
	v := g.get(st, fr.elem)
	v.ref = fr.elem
	return v
}

func (g *p9gen) mapTouched(at ast.Node) {
	for id, d := range g.dirty {
		if d {
			g.fail(at, "h.Records is used while an element write through a slice that shares its array is pending (variable %d)", id)
		}
	}
}

func (g *p9gen) selector(x *ast.SelectorExpr, st *p9st) p9val {
	if g.isPkg(x.X, st) {
		if n, ok := g.pkgSel(x, "net"); ok && n == "IPv6zero" {
			return p9val{k: pkIP, s: "some ⟨0#64, 0#64⟩", p: pApp}
		}
		g.fail(x, "unknown package-level name")
	}
	if f, ok := g.recvField(x, st); ok {
		g.fail(x, "field %s of the handler is only in the vocabulary as h.Records[key] and h.allocator.Allocate(…)", f)
	}
	base := g.expr(x.X, st)
	switch {
	case base.k == pkHintPtr && x.Sel.Name == "Prefix":
		o := g.get(st, base.ref)
		return p9val{k: pkNetPtr, s: o.s, p: o.p, pointee: o.pointee, isNil: o.isNil, ref: base.ref}
	case base.k == pkNetPtr && (x.Sel.Name == "IP" || x.Sel.Name == "Mask"):
		base = g.netOf(g.deref(base, st, x), base.blk)
		fallthrough
	case base.k == pkNet && (x.Sel.Name == "IP" || x.Sel.Name == "Mask"):
		if x.Sel.Name == "IP" {
			return p9val{k: pkIP, s: p9w(base, pAtom) + ".ip", p: pAtom}
		}
		return p9val{k: pkMask, s: p9w(base, pAtom) + ".mask", p: pAtom}
	case base.k == pkLease && x.Sel.Name == "Expire":
		return p9val{k: pkTime, s: p9w(base, pAtom) + ".expire", p: pAtom, ref: base.ref}
	case base.k == pkLease && x.Sel.Name == "Prefix":
		b := p9w(base, pAtom) + ".pfx"
		return p9val{k: pkNet, s: "blockNet " + b, p: pApp, blk: b}
	case base.k == pkIAPD && x.Sel.Name == "IaId":
		return p9val{k: pkNat, s: p9w(base, pAtom) + ".iaid", p: pAtom}
	case base.k == pkIAPDPtr && x.Sel.Name == "Options":
		o := g.get(st, base.ref)
		return p9val{k: pkOpts, s: o.s, p: o.p, ref: base.ref}
	case base.k == pkOpts && x.Sel.Name == "Options":
		return base
	}
	g.fail(x, "unknown field access (field %s of a %s)", x.Sel.Name, p9names[base.k])
	return p9val{}
}

func (g *p9gen) call(c *ast.CallExpr, st *p9st) p9val {
	g.must(!c.Ellipsis.IsValid(), c, "unsupported call")
	if id, ok := c.Fun.(*ast.Ident); ok {
		if _, local := st.lookup(id.Name); local {
			g.fail(c, "call of a local variable")
		}
		switch id.Name {
		case "uint":
			g.args(c, 1)
			v := g.expr(c.Args[0], st)
			g.must(v.k == pkNat || v.k == pkIndex, c, "uint of a %s", p9names[v.k])
			return v
		case "len":
			g.args(c, 1)
			v := g.expr(c.Args[0], st)
			switch v.k {
			case pkHints, pkLeases, pkOpts:
				return p9val{k: pkNat, s: p9w(v, pAtom) + ".length", p: pAtom}
			case pkIP:
				return p9val{k: pkNat, s: "ipLen " + p9w(v, pAtom), p: pApp}
			}
			g.fail(c, "len of a %s", p9names[v.k])
		case "string":
			g.args(c, 1)
			v := g.expr(c.Args[0], st)
			g.must(v.k == pkBytes, c, "string of a %s", p9names[v.k])
			v.k = pkKey
			return v
		case "append":
			g.args(c, 2)
			a, b := g.expr(c.Args[0], st), g.expr(c.Args[1], st)
			g.must(a.k == pkLeases && b.k == pkLease && !a.zipped, c, "append of a %s to a %s", p9names[b.k], p9names[a.k])
			return p9val{k: pkLeases, s: p9w(a, pAdd) + " ++ [" + b.s + "]", p: pAdd, lost: a.alias != "" || a.lost}
		case "dup":
			g.must(g.funcs["dup"] != nil, c, "unknown function")
			g.args(c, 1)
			v := g.expr(c.Args[0], st)
			g.must(v.k == pkNetPtr && v.blk != "", c, "dup of something that is not the address of a lease's prefix")
			g.deref(v, st, c)
			v.ref = 0
			return v
		case "samePrefix":
			g.must(g.funcs["samePrefix"] != nil, c, "unknown function")
			g.args(c, 2)
			a, b := g.expr(c.Args[0], st), g.expr(c.Args[1], st)
			g.must(a.k == pkNetPtr && b.k == pkNetPtr, c, "samePrefix of a %s and a %s", p9names[a.k], p9names[b.k])
			return p9val{k: pkBool, s: "samePrefix " + p9w(a, pAtom) + " " + p9w(b, pAtom), p: pApp}
		}
		if f := g.funcs[id.Name]; f != nil && f.Recv == nil {
			return g.inlineExpr(f, c, st)
		}
		g.fail(c, "unknown call")
	}
	sel, ok := c.Fun.(*ast.SelectorExpr)
	g.must(ok, c, "unknown call")
	if g.isPkg(sel.X, st) {
		if n, ok := g.pkgSel(c.Fun, "time"); ok {
			switch n {
			case "Now":
				g.args(c, 0)
				return p9val{k: pkTime, s: "now", p: pAtom}
			case "Until":
				g.args(c, 1)
				t := g.expr(c.Args[0], st)
				g.must(t.k == pkTime, c, "time.Until of a %s", p9names[t.k])
				return p9val{k: pkDur, s: p9w(t, pAdd) + " - now", p: pAdd}
			}
		}
		if n, ok := g.pkgSel(c.Fun, "bytes"); ok && n == "Equal" {
			g.args(c, 2)
			a, b := g.expr(c.Args[0], st), g.expr(c.Args[1], st)
			g.must(a.k == pkMask && b.k == pkMask, c, "bytes.Equal of a %s and a %s (only masks)", p9names[a.k], p9names[b.k])
			return p9val{k: pkBool, s: "maskEqual " + p9w(a, pAtom) + " " + p9w(b, pAtom), p: pApp}
		}
		g.fail(c, "unknown call (not in the vocabulary)")
	}
	// methods
	name := sel.Sel.Name
	if inner, ok := g.unparen(sel.X).(*ast.SelectorExpr); ok && inner.Sel.Name == "Options" { // x.Options.M()
		base := g.expr(inner.X, st)
		switch {
		case base.k == pkMsg && name == "ClientID":
			g.args(c, 0)
			return p9val{k: pkDUID, s: precWrap(g.deref(base, st, c)) + ".client", p: pAtom}
		case base.k == pkMsg && name == "IAPD":
			g.args(c, 0)
			return p9val{k: pkIAPDs, s: precWrap(g.deref(base, st, c)) + ".iapds", p: pAtom}
		case base.k == pkIAPD && name == "Prefixes":
			g.args(c, 0)
			g.nPrefixes++
			return p9val{k: pkHints, s: p9w(base, pAtom) + ".hints.map parsedPrefix", p: pApp}
		}
		g.fail(c, "unknown call (method Options.%s of a %s)", name, p9names[base.k])
	}
	if f, ok := g.recvField(sel.X, st); ok {
		g.fail(c, "h.%s.%s is only in the vocabulary as `x, err := h.allocator.Allocate(…)`", f, name)
	}
	recv := g.expr(sel.X, st)
	switch {
	case recv.k == pkReq && name == "GetInnerMessage":
		g.fail(c, "req.GetInnerMessage() is only in the vocabulary as `msg, err := req.GetInnerMessage()`")
	case recv.k == pkTime && name == "Add":
		g.args(c, 1)
		d := g.expr(c.Args[0], st)
		g.must(d.k == pkDur, c.Args[0], "Add of a %s", p9names[d.k])
		return p9val{k: pkTime, s: p9w(recv, pAdd) + " + " + p9w(d, pAdd+1), p: pAdd}
	case recv.k == pkTime && (name == "Before" || name == "After"):
		g.args(c, 1)
		b := g.expr(c.Args[0], st)
		g.must(b.k == pkTime, c.Args[0], "%s of a %s", name, p9names[b.k])
		op := map[string]string{"Before": "<", "After": ">"}[name]
		return p9val{k: pkBool, s: "decide (" + p9w(recv, pCmp+1) + " " + op + " " + p9w(b, pCmp+1) + ")", p: pApp}
	case recv.k == pkIP && name == "Equal":
		g.args(c, 1)
		b := g.expr(c.Args[0], st)
		g.must(b.k == pkIP, c.Args[0], "Equal of a %s", p9names[b.k])
		return p9val{k: pkBool, s: "ipEqual " + p9w(recv, pAtom) + " " + p9w(b, pAtom), p: pApp}
	case recv.k == pkDUID && name == "ToBytes":
		g.args(c, 0)
		return p9val{k: pkBytes, s: g.deref(recv, st, c), p: pAtom}
	case recv.k == pkBitset && name == "Test":
		g.args(c, 1)
		return g.get(st, g.bitOf(recv, c, st))
	case recv.k == pkMask && name == "Size":
		g.fail(c, "Size() is only in the vocabulary as `ones, bits := m.Size()`")
	}
	g.fail(c, "unknown call (method %s of a %s)", name, p9names[recv.k])
	return p9val{}
}

// bitOf: the variable holding the bit `bs.Test/Set(uint(i))` is about.
func (g *p9gen) bitOf(bs p9val, c *ast.CallExpr, st *p9st) int {
	g.must(bs.slice != 0, c, "the bitset is no longer parallel to the slice it was sized from (the slice was appended to)")
	fr := g.frameOf(c.Args[0], st)
	g.must(fr.slice == bs.slice && fr.bit != 0, c, "a bitset may only be used at the index of an enclosing range loop over the slice it was sized from")
	return fr.bit
}

// inlineExpr: a helper whose body is `return <expr>`, translated at the call with its parameters bound to the arguments.
func (g *p9gen) inlineExpr(f *ast.FuncDecl, c *ast.CallExpr, st *p9st) p9val {
	g.must(g.inline < 3, c, "helper calls nested too deeply")
	g.must(f.Body != nil && len(f.Body.List) == 1, c, "a helper used in an expression must consist of one return statement")
	r, ok := f.Body.List[0].(*ast.ReturnStmt)
	g.must(ok && len(r.Results) == 1, f.Body.List[0], "a helper used in an expression must consist of one return statement with one result")
	inner := g.bindParams(f, c, st)
	g.inline++
	ctx := g.ctx
	g.ctx += "/" + strconv.Itoa(int(c.Pos()))
	v := g.expr(r.Results[0], inner)
	g.ctx = ctx
	g.inline--
	for id, val := range inner.vals { // knowledge gained about the caller's variables
		if _, old := st.vals[id]; old {
			st.vals[id] = val
		}
	}
	return v
}

// bindParams: a state in which only the callee's parameters are in scope, bound to the values of the arguments.
func (g *p9gen) bindParams(f *ast.FuncDecl, c *ast.CallExpr, st *p9st) *p9st {
	var params []*ast.Ident
	for _, p := range f.Type.Params.List {
		g.must(len(p.Names) > 0, p, "unnamed parameter")
		params = append(params, p.Names...)
	}
	g.must(len(params) == len(c.Args), c, "expected %d arguments", len(params))
	var vals []p9val
	for _, a := range c.Args {
		vals = append(vals, g.expr(a, st))
	}
	inner := &p9st{vals: st.vals}
	inner = inner.clone()
	inner.push()
	for i, p := range params {
		v := vals[i]
		g.must(v.leanType() != "" || v.k == pkIAPDPtr || v.k == pkHintPtr, c.Args[i], "a %s cannot be passed to a helper", p9names[v.k])
		g.declare(inner, p, v)
	}
	return inner
}

// ------------------------------------------------------------- conditions

type p9fact struct {
	id    int
	isNil bool
}

type p9cond struct {
	s      string
	p      int
	static int // +1 known true on this path, -1 known false
	tf, ff []p9fact
}

func (g *p9gen) isNilIdent(x ast.Expr, st *p9st) bool {
	id, ok := g.unparen(x).(*ast.Ident)
	if !ok || id.Name != "nil" {
		return false
	}
	_, local := st.lookup("nil")
	return !local
}

func p9not(c p9cond) p9cond {
	n := p9cond{static: -c.static, tf: c.ff, ff: c.tf, p: pNot}
	if c.p >= pAtom {
		n.s = "!" + c.s
	} else {
		n.s = "!(" + c.s + ")"
	}
	return n
}

// flatten: the operands of a chain of one short-circuit operator, left to right
func (g *p9gen) flatten(x ast.Expr, op token.Token) []ast.Expr {
	x = g.unparen(x)
	if b, ok := x.(*ast.BinaryExpr); ok && b.Op == op {
		return append(g.flatten(b.X, op), g.flatten(b.Y, op)...)
	}
	return []ast.Expr{x}
}

// nilTest: x is `p == nil` / `p != nil` (or the same said through the error next to p): the variable that holds
// the knowledge about p, its current value, and whether the test is "is nil".
func (g *p9gen) nilTest(x ast.Expr, st *p9st) (v p9val, isNilTest bool, ok bool) {
	b, isBin := g.unparen(x).(*ast.BinaryExpr)
	if !isBin || (b.Op != token.EQL && b.Op != token.NEQ) {
		return p9val{}, false, false
	}
	var operand ast.Expr
	switch {
	case g.isNilIdent(b.Y, st):
		operand = b.X
	case g.isNilIdent(b.X, st):
		operand = b.Y
	default:
		return p9val{}, false, false
	}
	v = g.expr(operand, st)
	isNilTest = b.Op == token.EQL
	if v.k == pkErrOf { // err != nil ⇔ the pointer next to it is nil
		v = st.vals[v.ref]
		isNilTest = !isNilTest
	}
	return v, isNilTest, true
}

func (g *p9gen) cond(x ast.Expr, st *p9st) p9cond {
	x = g.unparen(x)
	switch x := x.(type) {
	case *ast.UnaryExpr:
		g.must(x.Op == token.NOT, x, "unsupported unary operator %s in a condition", x.Op)
		return p9not(g.cond(x.X, st))
	case *ast.BinaryExpr:
		switch x.Op {
		case token.LAND, token.LOR:
			return g.chain(g.flatten(x, x.Op), x.Op == token.LAND, st)
		case token.EQL, token.NEQ, token.LSS, token.LEQ, token.GTR, token.GEQ:
			if v, isNilTest, ok := g.nilTest(x, st); ok {
				return g.nilCond(v, isNilTest, x)
			}
			a, b := g.expr(x.X, st), g.expr(x.Y, st)
			g.must(a.k == pkNat && b.k == pkNat, x, "comparison of a %s with a %s unsupported", p9names[a.k], p9names[b.k])
			l, r := p9w(a, pCmp+1), p9w(b, pCmp+1)
			switch x.Op {
			case token.EQL:
				return p9cond{s: l + " == " + r, p: pCmp}
			case token.NEQ:
				return p9cond{s: l + " != " + r, p: pCmp}
			}
			return p9cond{s: "decide (" + l + " " + cmpOps[x.Op] + " " + r + ")", p: pApp}
		}
		g.fail(x, "unsupported operator %s in a condition", x.Op)
	}
	v := g.expr(x, st)
	g.must(v.k == pkBool, x, "a %s used as a condition", p9names[v.k])
	return p9cond{s: v.s, p: v.p}
}

func (g *p9gen) nilCond(v p9val, isNilTest bool, at ast.Node) p9cond {
	ref := v.ref
	var c p9cond
	switch v.k {
	case pkErrAlloc:
		g.must(v.isNil || v.pointee != "", at, "the error of Allocate is not known here")
		c.static = -1
		if v.isNil {
			c.static = 1
		}
	case pkMsg, pkDUID, pkNetPtr, pkHintObj:
		switch {
		case v.isNil:
			c.static = 1
		case v.pointee != "":
			c.static = -1
		}
		c.s, c.p = p9w(v, pAtom)+".isNone", pAtom
		if ref > 0 {
			c.tf, c.ff = []p9fact{{ref, true}}, []p9fact{{ref, false}}
		}
	case pkMask:
		c.s, c.p = p9w(v, pAtom)+".isNone", pAtom
	default:
		g.fail(at, "comparison of a %s with nil unsupported", p9names[v.k])
	}
	if !isNilTest {
		if c.static != 0 {
			return p9cond{static: -c.static}
		}
		return p9cond{s: strings.TrimSuffix(c.s, ".isNone") + ".isSome", p: pAtom, tf: c.ff, ff: c.tf}
	}
	return c
}

// chain: a && b && … / a || b || …; `p != nil && rest` (resp. `p == nil || rest`) makes p's pointee known in rest.
func (g *p9gen) chain(ops []ast.Expr, and bool, st *p9st) p9cond {
	var parts []string
	var facts []p9fact
	prec := pAnd
	sep := " && "
	if !and {
		prec, sep = pOr, " || "
	}
	short := 1 // the static value that decides the chain: false for &&, true for ||
	if and {
		short = -1
	}
	cur := st
	for i, o := range ops {
		if v, isNilTest, ok := g.nilTest(o, cur); ok && v.ref > 0 && isNilTest != and && v.pointeeType() != "" &&
			v.pointee == "" && !v.isNil && i+1 < len(ops) && !g.inHelper {
			// p != nil && rest  /  p == nil || rest
			n := g.fresh(o.Pos(), "guard", p9pointeePrefix[v.k])
			inner := cur.clone()
			pv := inner.vals[v.ref]
			pv.pointee = n
			inner.vals[v.ref] = pv
			rest := g.chain(ops[i+1:], and, inner)
			g.get(cur, v.ref)
			dflt := "false"
			if !and {
				dflt = "true"
			}
			var rs string
			switch {
			case rest.static == short:
				rs = dflt
			case rest.static == -short:
				rs = map[bool]string{true: "true", false: "false"}[and]
			default:
				rs = rest.s
			}
			parts = append(parts, "(match "+v.s+" with | none => "+dflt+" | some "+n+" => "+rs+")")
			break
		}
		c := g.cond(o, cur)
		if c.static == short {
			return p9cond{static: short}
		}
		if c.static == -short {
			continue
		}
		if c.p <= prec {
			c.s = "(" + c.s + ")"
		}
		parts = append(parts, c.s)
		if and {
			facts = append(facts, c.tf...)
		} else {
			facts = append(facts, c.ff...)
		}
	}
	if len(parts) == 0 {
		return p9cond{static: -short}
	}
	r := p9cond{s: strings.Join(parts, sep), p: prec}
	if len(parts) == 1 {
		r.p = pAtom
		if !strings.HasPrefix(parts[0], "(") {
			r.p = pCmp
		}
	}
	if and {
		r.tf = facts
	} else {
		r.ff = facts
	}
	return r
}

func (g *p9gen) applyFacts(st *p9st, fs []p9fact) {
	for _, f := range fs {
		v := st.vals[f.id]
		if f.isNil {
			v.isNil = true
		}
		st.vals[f.id] = v
	}
}

func (g *p9gen) attempt(f func()) (nd *p9need) {
	defer func() {
		if r := recover(); r != nil {
			if n, ok := r.(*p9need); ok {
				nd = n
				return
			}
			panic(r)
		}
	}()
	f()
	return nil
}

// hoist: `match p with | none => none | some n => <body>`, p's pointee known as n in body.
func (g *p9gen) hoist(nd *p9need, st *p9st, body func(*p9st) string) string {
	v := g.get(st, nd.id)
	g.must(v.pointeeType() != "", nd.at, "dereference of a %s", p9names[v.k])
	n := g.fresh(nd.at.Pos(), "deref", p9pointeePrefix[v.k])
	in := st.clone()
	pv := in.vals[nd.id]
	pv.pointee = n
	in.vals[nd.id] = pv
	return "match " + v.s + " with\n| none => none\n| some " + n + " =>\n" + indent(body(in))
}

func (g *p9gen) leftmost(x ast.Expr) ast.Expr {
	x = g.unparen(x)
	switch e := x.(type) {
	case *ast.UnaryExpr:
		if e.Op == token.NOT {
			return g.leftmost(e.X)
		}
	case *ast.BinaryExpr:
		if e.Op == token.LAND || e.Op == token.LOR {
			return g.leftmost(e.X)
		}
	}
	return x
}

// ifCF: `if cond { T } else { F }`; a dereference in the condition is made where Go makes it.
func (g *p9gen) ifCF(cond ast.Expr, st *p9st, T, F func(*p9st) string) string {
	trial := st.clone()
	var c p9cond
	nd := g.attempt(func() { c = g.cond(cond, trial) })
	if nd == nil {
		ts, fs := trial, trial.clone()
		g.applyFacts(ts, c.tf)
		g.applyFacts(fs, c.ff)
		switch c.static {
		case 1:
			return T(ts)
		case -1:
			return F(fs)
		}
		return ite(c.s, T(ts), F(fs))
	}
	lm := g.leftmost(cond)
	if nd2 := g.attempt(func() { g.cond(lm, st.clone()) }); nd2 != nil { // the first thing evaluated dereferences
		return g.hoist(nd2, st, func(in *p9st) string { return g.ifCF(cond, in, T, F) })
	}
	switch x := g.unparen(cond).(type) {
	case *ast.UnaryExpr:
		if x.Op == token.NOT {
			return g.ifCF(x.X, st, F, T)
		}
	case *ast.BinaryExpr:
		switch x.Op {
		case token.LOR:
			return g.ifCF(x.X, st, T, func(s *p9st) string { return g.ifCF(x.Y, s, T, F) })
		case token.LAND:
			return g.ifCF(x.X, st, func(s *p9st) string { return g.ifCF(x.Y, s, T, F) }, F)
		}
	}
	g.fail(nd.at, "dereference of a pointer that is not known to be non-nil, in a place the translator cannot guard")
	return ""
}

// ------------------------------------------------------------------ logging

func (g *p9gen) pure(x ast.Expr, st *p9st) {
	x = g.unparen(x)
	switch x := x.(type) {
	case *ast.BasicLit:
	case *ast.Ident:
		_, ok := st.lookup(x.Name)
		g.must(ok || x.Name == "nil" || x.Name == "true" || x.Name == "false", x, "unknown identifier in the arguments of a log call")
	case *ast.SelectorExpr:
		g.must(!g.isPkg(x.X, st), x, "package-level name in the arguments of a log call")
		g.pure(x.X, st)
	case *ast.UnaryExpr:
		g.must(x.Op == token.AND, x, "unsupported operator in the arguments of a log call")
		g.pure(x.X, st)
	case *ast.CallExpr:
		recv, name, c, ok := g.method(x)
		g.must(ok && name == "String" && len(c.Args) == 0, x, "call in the arguments of a log call that is not known to be free of side effects (only x.String())")
		g.pure(recv, st)
	default:
		g.fail(x, "unsupported expression in the arguments of a log call")
	}
}

func (g *p9gen) isLog(s ast.Stmt, st *p9st) bool {
	e, ok := s.(*ast.ExprStmt)
	if !ok {
		return false
	}
	recv, name, c, ok := g.method(e.X)
	if !ok || !isIdent(recv, "log") {
		return false
	}
	if _, local := st.lookup("log"); local {
		return false
	}
	g.must(g.logOK, s, "`log` is not the package-level logger (log = logger.GetLogger(…))")
	g.must(h4logLevels[name], s, "log.%s is not a plain log statement", name)
	for _, a := range c.Args {
		g.pure(a, st)
	}
	return true
}

// ---------------------------------------------------------------- statements

// bind: `let name : T := e`; the variable's new value is the name.
func (g *p9gen) bind(pos token.Pos, tag string, v p9val, lines *[]string) p9val {
	t := v.leanType()
	name := g.fresh(pos, tag, p9prefix[v.k])
	*lines = append(*lines, "let "+name+" : "+t+" := "+v.s)
	v.s, v.p = name, pAtom
	return v
}

// simple: a statement that only evaluates expressions and binds; dereferences that need a test wrap it.
func (g *p9gen) simple(st *p9st, f func(*p9st) []string, k func(*p9st) string) string {
	trial := st.clone()
	var lines []string
	nd := g.attempt(func() { lines = f(trial) })
	if nd != nil {
		return g.hoist(nd, st, func(in *p9st) string { return g.simple(in, f, k) })
	}
	return joinLines(lines, k(trial))
}

func (g *p9gen) terminates(list []ast.Stmt) bool {
	if len(list) == 0 {
		return false
	}
	switch s := list[len(list)-1].(type) {
	case *ast.ReturnStmt:
		return true
	case *ast.BranchStmt:
		return s.Tok == token.CONTINUE && s.Label == nil
	}
	return false
}

func (g *p9gen) block(list []ast.Stmt, st *p9st, k func(*p9st) string) string {
	depth := len(st.scopes)
	st.push()
	return g.stmts(list, st, func(s *p9st) string {
		s.popTo(depth)
		return k(s)
	})
}

func (g *p9gen) stmts(list []ast.Stmt, st *p9st, k func(*p9st) string) string {
	if len(list) == 0 {
		return k(st)
	}
	if g.terminates(list[:1]) && len(list) > 1 {
		g.fail(list[1], "unreachable statement")
	}
	return g.stmt(list[0], st, func(s *p9st) string {
		return g.sync(list[0], s, func(s2 *p9st) string { return g.stmts(list[1:], s2, k) })
	})
}

// sync: element writes through a slice that shares its array with the map's entry reach the map.
func (g *p9gen) sync(at ast.Stmt, st *p9st, k func(*p9st) string) string {
	var lines []string
	for id := 1; id <= g.nvar; id++ {
		if !g.dirty[id] {
			continue
		}
		v, ok := st.vals[id]
		if !ok || len(g.trackers) > 0 && id <= g.trackers[len(g.trackers)-1].water {
			continue // a variable of an enclosing function: synchronised there
		}
		g.must(v.k == pkLeases && v.alias != "" && !v.lost, at, "internal: pending element write through a slice that does not share the map's array")
		g.dirty[id] = false
		ls := v.s
		if v.zipped {
			ls = "(" + p9w(v, pAtom) + ".map (·.1))"
		}
		h := g.get(st, g.recvID)
		nh := h
		nh.s = "{ " + h.s + " with recs := aliasSync " + h.s + " " + precWrap(v.alias) + " " + ls + " }"
		g.set(st, g.recvID, g.bind(at.Pos(), "sync"+strconv.Itoa(len(lines)), nh, &lines))
	}
	return joinLines(lines, k(st))
}

func (g *p9gen) boolLit(x ast.Expr, st *p9st) (string, bool) {
	id, ok := g.unparen(x).(*ast.Ident)
	if !ok || (id.Name != "true" && id.Name != "false") {
		return "", false
	}
	if _, local := st.lookup(id.Name); local {
		return "", false
	}
	return id.Name, true
}

// target: what an assignable expression designates: the variable whose value changes and the new value of it
// for a given right-hand side.
func (g *p9gen) store(lhs ast.Expr, rhs p9val, st *p9st, at ast.Node) (int, p9val) {
	switch l := g.unparen(lhs).(type) {
	case *ast.Ident:
		id, ok := st.lookup(l.Name)
		g.must(ok, l, "assignment to unknown variable")
		old := st.vals[id]
		switch old.k {
		case pkHints:
			g.must(rhs.k == pkHints && !old.zipped, at, "assignment of a %s to a []*dhcpv6.OptIAPrefix (with a bitset sized from it: %v)", p9names[rhs.k], old.zipped)
			return id, rhs
		case pkLeases:
			g.must(rhs.k == pkLeases && !rhs.zipped && !g.dirty[id], at, "unsupported assignment to a []lease")
			return id, rhs
		case pkBool, pkNat, pkTime, pkDur:
			g.must(rhs.k == old.k, at, "variable of type %s assigned a %s", p9names[old.k], p9names[rhs.k])
			rhs.lit = false
			return id, rhs
		}
		g.fail(l, "assignment to a %s unsupported", p9names[old.k])
	case *ast.SelectorExpr:
		base := g.expr(l.X, st)
		switch {
		case base.k == pkHintPtr && l.Sel.Name == "Prefix":
			g.must(rhs.k == pkNetPtr, at, "Prefix assigned a %s", p9names[rhs.k])
			return base.ref, p9val{k: pkHintObj, s: rhs.s, p: rhs.p, pointee: rhs.pointee, isNil: rhs.isNil, ref: base.ref}
		case base.k == pkLease && l.Sel.Name == "Expire" && base.ref != 0:
			g.must(rhs.k == pkTime, at, "Expire assigned a %s", p9names[rhs.k])
			fr := g.frameOfElem(base.ref)
			g.must(fr != nil, l, "internal: element without a loop")
			sl := st.vals[fr.slice]
			g.must(!sl.lost, l, "write to an element of a slice that was appended to: whether the map's entry is written depends on the capacity")
			if sl.alias != "" {
				g.dirty[fr.slice] = true
			}
			nv := base
			nv.s, nv.p = "{ "+base.s+" with expire := "+rhs.s+" }", pAtom
			return base.ref, nv
		}
		g.fail(l, "assignment to field %s of a %s unsupported", l.Sel.Name, p9names[base.k])
	case *ast.IndexExpr:
		f, ok := g.recvField(l.X, st)
		g.must(ok && f == "Records", l, "unsupported assignment target")
		g.mapTouched(l)
		key := g.expr(l.Index, st)
		g.must(key.k == pkKey, l.Index, "the records are keyed by recordKey(client): a %s", p9names[key.k])
		g.must(rhs.k == pkLeases, at, "the map stores []lease: a %s", p9names[rhs.k])
		ls := rhs.s
		if rhs.zipped {
			ls = "(" + p9w(rhs, pAtom) + ".map (·.1))"
		}
		h := g.get(st, g.recvID)
		nh := h
		nh.s, nh.p = "{ "+h.s+" with recs := "+h.s+".put "+p9w(key, pAtom)+" "+precWrap(ls)+" }", pAtom
		if rhs.ref > 0 { // the variable stored now shares its array with the entry
			sv := st.vals[rhs.ref]
			sv.alias, sv.lost = key.s, false
			st.vals[rhs.ref] = sv
		}
		return g.recvID, nh
	}
	g.fail(lhs, "unsupported assignment target")
	return 0, p9val{}
}

func (g *p9gen) frameOfElem(id int) *p9frame {
	for i := len(g.frames) - 1; i >= 0; i-- {
		if g.frames[i].elem == id {
			return g.frames[i]
		}
	}
	return nil
}

// effect: a statement that changes exactly one variable: (variable, new value); ok=false if s is not of that form.
func (g *p9gen) effect(s ast.Stmt, st *p9st) (int, p9val, bool) {
	switch s := s.(type) {
	case *ast.AssignStmt:
		if s.Tok != token.ASSIGN || len(s.Lhs) != 1 || len(s.Rhs) != 1 {
			return 0, p9val{}, false
		}
		if _, _, c, ok := g.method(s.Rhs[0]); ok && c != nil {
			if _, isAlloc := g.allocCall(s.Rhs[0], st); isAlloc {
				return 0, p9val{}, false
			}
		}
		rhs := g.expr(s.Rhs[0], st)
		if id, ok := g.unparen(s.Rhs[0]).(*ast.Ident); ok && rhs.k == pkLeases {
			rhs.ref, _ = st.lookup(id.Name)
		}
		id, nv := g.store(s.Lhs[0], rhs, st, s)
		return id, nv, true
	case *ast.ExprStmt:
		recv, name, c, ok := g.method(s.X)
		if !ok {
			return 0, p9val{}, false
		}
		switch name {
		case "Add": // o.Options.Add(opt)
			sel, ok := g.unparen(recv).(*ast.SelectorExpr)
			if !ok || sel.Sel.Name != "Options" {
				return 0, p9val{}, false
			}
			base := g.expr(sel.X, st)
			g.must(base.k == pkIAPDPtr, s, "Options.Add on a %s", p9names[base.k])
			g.args(c, 1)
			o := g.expr(c.Args[0], st)
			g.must(o.k == pkROpt, c.Args[0], "a %s added to the options of an IA_PD", p9names[o.k])
			obj := g.get(st, base.ref)
			g.must(!obj.escaped, s, "the IA_PD option is changed after it was added to the response")
			obj.s, obj.p = p9w(obj, pAdd)+" ++ ["+o.s+"]", pAdd
			return base.ref, obj, true
		case "AddOption": // resp.AddOption(o)
			r := g.expr(recv, st)
			if r.k != pkResp {
				return 0, p9val{}, false
			}
			g.args(c, 1)
			o := g.expr(c.Args[0], st)
			g.must(o.k == pkIAPDPtr, c.Args[0], "a %s added to the response (the model's reply carries IA_PD options only)", p9names[o.k])
			obj := g.get(st, o.ref)
			obj.escaped = true
			st.vals[o.ref] = obj
			r.s, r.p = p9w(r, pAdd)+" ++ [GIAPD.mk "+obj.iaid+" "+p9w(obj, pAtom)+"]", pAdd
			return g.respID, r, true
		case "Set": // bs.Set(uint(i))
			b := g.expr(recv, st)
			if b.k != pkBitset {
				return 0, p9val{}, false
			}
			g.args(c, 1)
			return g.bitOf(b, c, st), p9val{k: pkBool, s: "true", p: pAtom}, true
		}
	}
	return 0, p9val{}, false
}

// allocCall: x is `h.allocator.Allocate(n)` ↦ the Lean hint.
func (g *p9gen) allocCall(x ast.Expr, st *p9st) (string, bool) {
	recv, name, c, ok := g.method(x)
	if !ok || name != "Allocate" {
		return "", false
	}
	if f, ok := g.recvField(recv, st); !ok || f != "allocator" {
		return "", false
	}
	g.args(c, 1)
	n := g.expr(c.Args[0], st)
	g.must(n.k == pkNet, c.Args[0], "Allocate of a %s", p9names[n.k])
	return "netHint " + p9w(n, pAtom), true
}

func (g *p9gen) stmt(s ast.Stmt, st *p9st, k func(*p9st) string) string {
	if g.skip[s] { // the lock statements, checked beforehand
		return k(st)
	}
	if g.isLog(s, st) {
		return k(st)
	}
	switch s := s.(type) {
	case *ast.ExprStmt:
		if c, ok := s.X.(*ast.CallExpr); ok { // a helper called for its effects: translated here from its own body
			if id, ok := c.Fun.(*ast.Ident); ok {
				if f := g.funcs[id.Name]; f != nil && f.Recv == nil && f.Type.Results == nil {
					if _, local := st.lookup(id.Name); !local {
						return g.inlineStmt(f, c, st, k)
					}
				}
			}
		}
		return g.simple(st, func(t *p9st) []string {
			id, nv, ok := g.effect(s, t)
			g.must(ok, s, "unsupported expression statement")
			var lines []string
			g.set(t, id, g.bind(s.Pos(), "eff", nv, &lines))
			return lines
		}, k)
	case *ast.ReturnStmt:
		g.must(len(g.frames) == 0, s, "return inside a loop unsupported")
		g.must(len(s.Results) == 2, s, "return must have two results")
		b, isBool := g.boolLit(s.Results[1], st)
		g.must(isBool, s.Results[1], "the second result must be true or false")
		h := g.get(st, g.recvID)
		if g.isNilIdent(s.Results[0], st) {
			return "some (" + h.s + ", .ret none " + b + ")"
		}
		r := g.expr(s.Results[0], st)
		g.must(r.k == pkResp, s.Results[0], "the first result must be nil or the response")
		return "some (" + h.s + ", .ret (some " + p9w(r, pAtom) + ") " + b + ")"
	case *ast.BranchStmt:
		g.must(s.Tok == token.CONTINUE && s.Label == nil && len(g.frames) > 0, s, "unsupported branch statement")
		return g.frames[len(g.frames)-1].end(st)
	case *ast.IfStmt:
		return g.ifStmt(s, st, k)
	case *ast.RangeStmt:
		return g.rangeStmt(s, st, k)
	case *ast.AssignStmt:
		return g.assign(s, st, k)
	}
	g.fail(s, "unsupported statement")
	return ""
}

// inlineStmt: a helper without results, translated at the call from its own body.
func (g *p9gen) inlineStmt(f *ast.FuncDecl, c *ast.CallExpr, st *p9st, k func(*p9st) string) string {
	g.must(g.inline < 3, c, "helper calls nested too deeply")
	var inner *p9st
	nd := g.attempt(func() { inner = g.bindParams(f, c, st.clone()) })
	if nd != nil {
		return g.hoist(nd, st, func(in *p9st) string { return g.inlineStmt(f, c, in, k) })
	}
	for _, b := range f.Body.List {
		if r, ok := b.(*ast.ReturnStmt); ok {
			g.fail(r, "return in a helper that is translated at its calls")
		}
	}
	callerScopes := st.clone().scopes
	ctx, frames := g.ctx, g.frames
	g.ctx += "/" + strconv.Itoa(int(c.Pos()))
	g.inline++
	_ = frames
	ast.Inspect(f.Body, func(n ast.Node) bool {
		if b, ok := n.(*ast.BranchStmt); ok {
			g.fail(b, "branch statement in a helper that is translated at its calls")
		}
		return true
	})
	out := g.stmts(f.Body.List, inner, func(s *p9st) string {
		s.scopes = callerScopes
		g.ctx = ctx
		g.inline--
		r := k(s)
		g.inline++
		g.ctx = ctx + "/" + strconv.Itoa(int(c.Pos()))
		return r
	})
	g.ctx = ctx
	g.inline--
	return out
}

// detach: the bits of the bitset sized from a slice are dropped (before the slice is appended to).
func (g *p9gen) detach(id int, st *p9st, at ast.Node, lines *[]string) {
	v := g.get(st, id)
	if !v.zipped {
		return
	}
	bs := st.vals[v.bitset]
	bs.slice = 0
	st.vals[v.bitset] = bs
	nv := v
	nv.zipped, nv.bitset = false, 0
	nv.s, nv.p = p9w(v, pAtom)+".map (·.1)", pApp
	g.set(st, id, g.bind(at.Pos(), "detach", nv, lines))
}

func (g *p9gen) water() int {
	if len(g.trackers) == 0 {
		return 0
	}
	return g.trackers[len(g.trackers)-1].water
}

// appendTarget: s is `xs = append(xs, v)`: the variable xs.
func (g *p9gen) appendTarget(s *ast.AssignStmt, st *p9st) (int, bool) {
	if len(s.Lhs) != 1 || len(s.Rhs) != 1 || s.Tok != token.ASSIGN {
		return 0, false
	}
	c, ok := g.unparen(s.Rhs[0]).(*ast.CallExpr)
	if !ok || !isIdent(c.Fun, "append") || len(c.Args) < 1 {
		return 0, false
	}
	l, ok1 := s.Lhs[0].(*ast.Ident)
	a, ok2 := g.unparen(c.Args[0]).(*ast.Ident)
	g.must(ok1 && ok2 && l.Name == a.Name, s, "append is only in the vocabulary as `xs = append(xs, v)`")
	id, ok := st.lookup(l.Name)
	g.must(ok, l, "unknown identifier")
	return id, true
}

func (g *p9gen) assign(s *ast.AssignStmt, st *p9st, k func(*p9st) string) string {
	define := s.Tok == token.DEFINE
	g.must(define || s.Tok == token.ASSIGN, s, "unsupported assignment operator %s", s.Tok)
	if len(s.Lhs) == 2 && len(s.Rhs) == 1 {
		g.must(define, s, "two-valued assignment must be a declaration (:=)")
		a, ok1 := s.Lhs[0].(*ast.Ident)
		b, ok2 := s.Lhs[1].(*ast.Ident)
		g.must(ok1 && ok2 && (a.Name != b.Name || a.Name == "_"), s, "assignment target must be two different plain variables")
		recv, name, c, isCall := g.method(s.Rhs[0])
		g.must(isCall, s, "unknown two-valued assignment")
		// msg, err := req.GetInnerMessage()
		if name == "GetInnerMessage" {
			r := g.expr(recv, st)
			g.must(r.k == pkReq && len(c.Args) == 0, s, "GetInnerMessage of a %s", p9names[r.k])
			g.must(a.Name != "_" && b.Name != "_", s, "both results of GetInnerMessage must be kept")
			pid := g.declare(st, a, p9val{k: pkMsg, s: p9w(r, pAtom) + ".inner", p: pAtom, ref: -1})
			g.declare(st, b, p9val{k: pkErrOf, ref: pid})
			return k(st)
		}
		// ones, bits := m.Size()
		if name == "Size" {
			return g.simple(st, func(t *p9st) []string {
				m := g.expr(recv, t)
				g.must(m.k == pkMask && len(c.Args) == 0, s, "Size of a %s", p9names[m.k])
				var lines []string
				if a.Name != "_" {
					g.declare(t, a, g.bind(a.Pos(), "def", p9val{k: pkNat, s: "maskOnes " + p9w(m, pAtom), p: pApp}, &lines))
				}
				if b.Name != "_" {
					g.declare(t, b, g.bind(b.Pos(), "def", p9val{k: pkNat, s: "maskBits " + p9w(m, pAtom), p: pApp}, &lines))
				}
				return lines
			}, k)
		}
		// allocated, err := h.allocator.Allocate(n)
		var hint string
		nd := g.attempt(func() { hint, isCall = g.allocCall(s.Rhs[0], st.clone()) })
		if nd != nil {
			return g.hoist(nd, st, func(in *p9st) string { return g.assign(s, in, k) })
		}
		g.must(isCall, s, "unknown two-valued assignment")
		g.must(b.Name != "_", s, "the error of Allocate is discarded: the prefix next to it cannot be used")
		g.allocCall(s.Rhs[0], st) // notes what it reads
		h := g.get(st, g.recvID)
		t := g.fresh(s.Pos(), "alloc", "t")
		lines := []string{"let " + t + " := allocFF " + h.s + ".alloc (" + hint + ")"}
		nh := h
		nh.s = "{ " + h.s + " with alloc := " + t + ".1 }"
		g.set(st, g.recvID, g.bind(s.Pos(), "allocst", nh, &lines))
		blk := g.fresh(s.Pos(), "blk", "k")
		errSt, okSt := st.clone(), st.clone()
		g.declare(errSt, a, p9val{k: pkNet, poison: "use of the prefix Allocate returned on a path where its error is not nil"})
		g.declare(errSt, b, p9val{k: pkErrAlloc, pointee: "err"})
		g.declare(okSt, a, p9val{k: pkNet, s: "blockNet " + blk, p: pApp, blk: blk})
		g.declare(okSt, b, p9val{k: pkErrAlloc, isNil: true})
		return joinLines(lines, "match "+t+".2 with\n| .error _ =>\n"+indent(k(errSt))+"\n| .ok "+blk+" =>\n"+indent(k(okSt)))
	}
	g.must(len(s.Lhs) == 1 && len(s.Rhs) == 1, s, "unsupported assignment shape")
	if !define {
		if id, ok := g.appendTarget(s, st); ok && st.vals[id].zipped { // the bitset sized from the slice goes
			if id <= g.water() {
				if len(g.trackers) > 0 {
					g.trackers[len(g.trackers)-1].detach[id] = true
				}
				g.must(g.dry > 0, s, "internal: a slice of the enclosing function still carries its bitset")
			}
			var lines []string
			g.detach(id, st, s, &lines)
			return joinLines(lines, g.assign(s, st, k))
		}
		return g.simple(st, func(t *p9st) []string {
			id, nv, ok := g.effect(s, t)
			g.must(ok, s, "unsupported assignment")
			var lines []string
			g.set(t, id, g.bind(s.Pos(), "eff", nv, &lines))
			return lines
		}, k)
	}
	l, ok := s.Lhs[0].(*ast.Ident)
	g.must(ok && l.Name != "_", s, "declaration of something that is not a plain variable")
	rhs := g.unparen(s.Rhs[0])
	// o := &dhcpv6.OptIAPD{IaId: x}
	if u, ok := rhs.(*ast.UnaryExpr); ok && u.Op == token.AND {
		if cl, ok := u.X.(*ast.CompositeLit); ok && cl.Type != nil {
			if n, ok := g.pkgSel(cl.Type, "dhcpv6"); ok && n == "OptIAPD" {
				f := g.kv(cl)
				g.must(len(f) == 1 && f["IaId"] != nil, cl, "the model's IA_PD has an IAID and options: only IaId may be given (T1, T2 stay zero)")
				return g.simple(st, func(t *p9st) []string {
					v := g.expr(f["IaId"], t)
					g.must(v.k == pkNat, f["IaId"], "IaId given a %s", p9names[v.k])
					var lines []string
					ia := g.fresh(s.Pos(), "iaid", "i")
					lines = append(lines, "let "+ia+" : Nat := "+v.s)
					obj := g.bind(s.Pos(), "opts", p9val{k: pkIAPDObj, s: "[]", p: pAtom, iaid: ia}, &lines)
					oid := g.newVar(t, obj)
					g.declare(t, l, p9val{k: pkIAPDPtr, ref: oid})
					return lines
				}, k)
			}
		}
	}
	// bs := bitset.New(uint(len(xs)))
	if c, ok := rhs.(*ast.CallExpr); ok {
		if n, ok := g.pkgSel(c.Fun, "bitset"); ok && !g.isLocal("bitset", st) {
			g.must(n == "New" && len(c.Args) == 1, c, "only bitset.New(uint(len(xs))) is in the vocabulary")
			arg := g.unparen(c.Args[0])
			if u, ok := arg.(*ast.CallExpr); ok && isIdent(u.Fun, "uint") && len(u.Args) == 1 {
				arg = g.unparen(u.Args[0])
			}
			ln, ok := arg.(*ast.CallExpr)
			g.must(ok && isIdent(ln.Fun, "len") && len(ln.Args) == 1, c, "only bitset.New(uint(len(xs))) is in the vocabulary")
			xs, ok := g.unparen(ln.Args[0]).(*ast.Ident)
			g.must(ok, c, "only bitset.New(uint(len(xs))) is in the vocabulary")
			sid, ok := st.lookup(xs.Name)
			g.must(ok, xs, "unknown identifier")
			sv := g.get(st, sid)
			g.must((sv.k == pkHints || sv.k == pkLeases) && !sv.zipped, c, "a bitset sized from a %s (or a second one from the same slice) is not in the vocabulary", p9names[sv.k])
			g.must(sid > g.water(), c, "a bitset sized from a slice of the enclosing function")
			bid := g.declare(st, l, p9val{k: pkBitset, slice: sid})
			var lines []string
			nv := sv
			nv.zipped, nv.bitset = true, bid
			nv.s, nv.p = p9w(sv, pAtom)+".map (fun x => (x, false))", pApp
			g.set(st, sid, g.bind(s.Pos(), "zip", nv, &lines))
			return joinLines(lines, k(st))
		}
	}
	return g.simple(st, func(t *p9st) []string {
		v := g.expr(rhs, t)
		var lines []string
		switch v.k {
		case pkTime, pkDur, pkNat, pkBool, pkLease, pkHints, pkLeases:
			v.ref, v.lit = 0, false
			g.declare(t, l, g.bind(l.Pos(), "def", v, &lines))
		case pkDUID, pkMsg, pkNetPtr:
			if v.ref == 0 {
				v.ref = -1
			}
			g.declare(t, l, v)
		case pkKey, pkBytes, pkIAPD, pkNet, pkIP, pkMask, pkHintPtr, pkIAPDPtr:
			g.declare(t, l, v)
		default:
			g.fail(rhs, "a %s cannot be held in a new variable", p9names[v.k])
		}
		return lines
	}, k)
}

func (g *p9gen) isLocal(name string, st *p9st) bool {
	_, ok := st.lookup(name)
	return ok
}

func (g *p9gen) ifStmt(s *ast.IfStmt, st *p9st, k func(*p9st) string) string {
	depth := len(st.scopes)
	rest := func(in *p9st) string {
		in.popTo(depth)
		return k(in)
	}
	if s.Init != nil {
		st.push()
		return g.stmt(s.Init, st, func(in *p9st) string {
			return g.ifBody(s, in, rest)
		})
	}
	st.push()
	return g.ifBody(s, st, rest)
}

func (g *p9gen) ifBody(s *ast.IfStmt, st *p9st, rest func(*p9st) string) string {
	// (a) if p == nil || q == nil { …return / continue }: a match that binds the pointees
	if s.Else == nil && g.terminates(s.Body.List) {
		ops := g.flatten(s.Cond, token.LOR)
		var vals []p9val
		ok := true
		trial := st.clone()
		nd := g.attempt(func() {
			for _, o := range ops {
				v, isNilTest, isTest := g.nilTest(o, trial)
				if !isTest || !isNilTest || v.ref <= 0 || v.pointeeType() == "" || v.pointee != "" || v.isNil {
					ok = false
					return
				}
				for _, w := range vals {
					ok = ok && w.ref != v.ref
				}
				vals = append(vals, v)
			}
		})
		if nd == nil && ok {
			var scrut, some, wild []string
			in, out := st.clone(), st.clone()
			for i, v := range vals {
				g.get(st, v.ref)
				n := g.fresh(ops[i].Pos(), "bind", p9pointeePrefix[v.k])
				pv := in.vals[v.ref]
				pv.pointee = n
				in.vals[v.ref] = pv
				scrut, some, wild = append(scrut, v.s), append(some, "some "+n), append(wild, "_")
			}
			if len(vals) == 1 {
				ov := out.vals[vals[0].ref]
				ov.isNil = true
				out.vals[vals[0].ref] = ov
				return "match " + scrut[0] + " with\n| none =>\n" + indent(g.block(s.Body.List, out, rest)) + "\n| " + some[0] + " =>\n" + indent(rest(in))
			}
			return "match " + strings.Join(scrut, ", ") + " with\n| " + strings.Join(some, ", ") + " =>\n" + indent(rest(in)) +
				"\n| " + strings.Join(wild, ", ") + " =>\n" + indent(g.block(s.Body.List, out, rest))
		}
	}
	// (b) if c { x = e }: let x := if c then e else x
	if s.Else == nil {
		var eff []ast.Stmt
		for _, b := range s.Body.List {
			if !g.isLog(b, st) {
				eff = append(eff, b)
			}
		}
		if len(eff) == 1 {
			var lines []string
			trial := st.clone()
			ok := false
			nd := g.attempt(func() {
				c := g.cond(s.Cond, trial)
				if c.static != 0 {
					return
				}
				if as, isAssign := eff[0].(*ast.AssignStmt); isAssign {
					if _, isAppend := g.appendTarget(as, trial); isAppend {
						return
					}
				}
				inner := trial.clone()
				id, nv, isEff := g.effect(eff[0], inner)
				if !isEff {
					return
				}
				old := g.get(trial, id)
				g.must(old.k == nv.k && old.leanType() == nv.leanType(), eff[0], "internal: the branch changes the type of the variable")
				merged := nv
				merged.pointee, merged.isNil = "", false
				merged.s, merged.p = "if "+c.s+" then "+nv.s+" else "+old.s, 0
				merged.escaped = old.escaped || nv.escaped
				for vid, val := range inner.vals { // flags the effect left on other variables (alias of a stored slice, escape)
					if vid != id {
						if o := trial.vals[vid]; val.k == pkLeases && (o.alias != val.alias || o.lost != val.lost) {
							val.lost = true // the store is conditional: what the slice shares its array with is not known afterwards
						}
						trial.vals[vid] = val
					}
				}
				g.set(trial, id, g.bind(s.Pos(), "merge", merged, &lines))
				ok = true
			})
			if nd == nil && ok {
				return joinLines(lines, rest(trial))
			}
		}
	}
	// (c) the general form: what follows the statement is the continuation of every branch that falls through
	return g.ifCF(s.Cond, st, func(ts *p9st) string { return g.block(s.Body.List, ts, rest) }, func(fs *p9st) string {
		switch b := s.Else.(type) {
		case nil:
			return rest(fs)
		case *ast.BlockStmt:
			return g.block(b.List, fs, rest)
		case *ast.IfStmt:
			return g.ifStmt(b, fs, rest)
		}
		g.fail(s.Else, "unsupported else")
		return ""
	})
}

// ------------------------------------------------------------------ loops

func p9tuple(parts []string) string {
	switch len(parts) {
	case 0:
		return "()"
	case 1:
		return parts[0]
	}
	return "(" + strings.Join(parts, ", ") + ")"
}

func p9tupleType(parts []string) string {
	switch len(parts) {
	case 0:
		return "Unit"
	case 1:
		return parts[0]
	}
	return strings.Join(parts, " × ")
}

// p9proj: component i of an n-tuple (right-nested pairs)
func p9proj(base string, i, n int) string {
	if n == 1 {
		return base
	}
	s := base + strings.Repeat(".2", i)
	if i < n-1 {
		s += ".1"
	}
	return s
}

type p9loop struct {
	sigma, params []int
	detach        []int
	lost          map[int]bool
	modified      bool
	text          string
	sig           string
	args          []string
}

// rangeStmt: `for i, x := range xs { body }` ↦ a definition of its body and `forRange <body> σ xs`.
func (g *p9gen) rangeStmt(r *ast.RangeStmt, st *p9st, k func(*p9st) string) string {
	name, ok := g.loops[r]
	g.must(ok, r, "a loop in a place where the translator expects none (a helper translated at its calls, or more loops than the handler has)")
	g.must(r.Tok == token.DEFINE || r.Key == nil, r, "the loop variables must be declared by the range clause")
	// what is ranged over
	sliceID := 0
	var listVal p9val
	trial := st.clone()
	nd := g.attempt(func() {
		if id, ok := g.unparen(r.X).(*ast.Ident); ok {
			vid, known := trial.lookup(id.Name)
			g.must(known, id, "unknown identifier")
			sliceID = vid
		}
		listVal = g.expr(r.X, trial)
	})
	if nd != nil {
		return g.hoist(nd, st, func(in *p9st) string { return g.rangeStmt(r, in, k) })
	}
	g.expr(r.X, st)
	g.must(listVal.k == pkHints || listVal.k == pkLeases || listVal.k == pkIAPDs, r.X, "range over a %s", p9names[listVal.k])
	g.must(sliceID != 0 || listVal.k == pkIAPDs, r.X, "a slice must be held in a variable to be ranged over")
	for _, fr := range g.frames {
		g.must(sliceID == 0 || fr.slice != sliceID, r, "a loop over a slice inside a loop over the same slice")
	}
	var lines []string
	info := &p9loop{lost: map[int]bool{}}
	// dry runs: which variables of the enclosing function the body assigns / reads, until nothing changes
	for round := 0; ; round++ {
		g.must(round < 6, r, "internal: the analysis of the loop does not settle")
		n := g.runBody(r, name, sliceID, st, info, true)
		changed := false
		for _, id := range n.detach {
			if st.vals[id].zipped {
				g.must(id != sliceID, r, "the slice ranged over is appended to in the loop")
				g.detach(id, st, r, &lines)
				changed = true
			}
		}
		if fmt.Sprint(n.sigma) != fmt.Sprint(info.sigma) || fmt.Sprint(n.params) != fmt.Sprint(info.params) || fmt.Sprint(n.lost) != fmt.Sprint(info.lost) {
			changed = true
		}
		n.lost, info = mergeLost(info.lost, n.lost), n
		if !changed {
			break
		}
	}
	for _, id := range info.sigma {
		g.must(id != sliceID, r, "the slice ranged over is assigned in the loop")
	}
	real := g.runBody(r, name, sliceID, st, info, false)
	if g.dry == 0 {
		g.defs = append(g.defs, real.text)
	}
	// the call
	var sig0 []string
	for _, id := range info.sigma {
		sig0 = append(sig0, g.get(st, id).s)
	}
	res := g.fresh(r.Pos(), "res", "r")
	call := "forRange (" + strings.Join(append([]string{name + "Body", "now"}, real.args...), " ") + ") " + p9tuple(sig0) + " " + p9w(listVal, pAtom)
	var after []string
	for i, id := range info.sigma {
		v := g.get(st, id)
		v.pointee, v.isNil = "", false
		if info.lost[id] {
			v.lost = true
		}
		v.s = p9proj(res+".1", i, len(info.sigma))
		g.set(st, id, g.bind(r.Pos(), "out"+strconv.Itoa(i), v, &after))
	}
	if real.modified && sliceID != 0 {
		v := g.get(st, sliceID)
		v.s = res + ".2"
		g.set(st, sliceID, g.bind(r.Pos(), "outlist", v, &after))
	}
	return joinLines(lines, "match "+call+" with\n| none => none\n| some "+res+" =>\n"+indent(joinLines(after, k(st))))
}

func mergeLost(a, b map[int]bool) map[int]bool {
	m := map[int]bool{}
	for k, v := range a {
		m[k] = m[k] || v
	}
	for k, v := range b {
		m[k] = m[k] || v
	}
	return m
}

func p9withoutBit(t string) string {
	t = strings.TrimPrefix(t, "List ")
	return strings.TrimSuffix(strings.TrimPrefix(t, "("), ")")
}

// runBody: the body of a range loop as a definition `<name>Body now <params> σ e : Option (σ × ε)`.
func (g *p9gen) runBody(r *ast.RangeStmt, name string, sliceID int, outer *p9st, prev *p9loop, dry bool) *p9loop {
	tr := &p9track{water: g.nvar, seen: map[int]bool{}, assigned: map[int]bool{}, detach: map[int]bool{}}
	g.trackers = append(g.trackers, tr)
	savedDirty := map[int]bool{}
	for k, v := range g.dirty {
		savedDirty[k] = v
	}
	savedFrames, savedNvar := g.frames, g.nvar
	if dry {
		g.dry++
	}
	st := outer.clone()
	res := &p9loop{lost: map[int]bool{}}
	var lines, sigT, params []string
	// σ: the variables of the enclosing function the body assigns; nothing is known about their values at the top of the body
	isSigma := map[int]bool{}
	for i, id := range prev.sigma {
		isSigma[id] = true
		v := st.vals[id]
		g.must(v.leanType() != "", r, "the loop assigns a %s of the enclosing function: it cannot be threaded through the recursion", p9names[v.k])
		v.pointee, v.isNil = "", false
		if prev.lost[id] {
			v.lost = true
		}
		sigT = append(sigT, v.leanType())
		v.s, v.p = p9proj("s", i, len(prev.sigma)), pAtom
		st.vals[id] = g.bind(r.Pos(), "in"+strconv.Itoa(i), v, &lines)
	}
	// parameters: the variables it only reads
	for i, id := range prev.params {
		v := st.vals[id]
		if v.leanType() == "" {
			continue // nothing of it reaches the Lean text (what is known about it on this path still holds)
		}
		if v.pointeeType() != "" && v.pointee != "" {
			n := v.pointee
			if !p9ident.MatchString(n) {
				n = g.fresh(r.Pos(), "param"+strconv.Itoa(i), p9pointeePrefix[v.k])
			}
			params = append(params, "("+n+" : "+v.pointeeType()+")")
			res.args = append(res.args, precWrap(v.pointee))
			v.s, v.p, v.pointee = "some "+n, pApp, n
		} else {
			n := v.s
			if !p9ident.MatchString(n) {
				n = g.fresh(r.Pos(), "param"+strconv.Itoa(i), p9prefix[v.k])
			}
			params = append(params, "("+n+" : "+v.leanType()+")")
			res.args = append(res.args, p9w(v, pAtom))
			v.s, v.p = n, pAtom
		}
		st.vals[id] = v
	}
	// the element the loop is at
	fr := &p9frame{slice: sliceID}
	var elemT string
	var listV p9val
	if sliceID != 0 {
		listV = st.vals[sliceID]
	} else {
		listV = p9val{k: pkIAPDs}
	}
	elemKind := map[p9kind]p9kind{pkHints: pkHintObj, pkLeases: pkLease, pkIAPDs: pkIAPD}[listV.k]
	ev := p9val{k: elemKind, s: "e", p: pAtom}
	elemT = ev.leanType()
	if listV.zipped {
		ev.s = "e.1"
		elemT = "(" + elemT + " × Bool)"
	}
	if elemKind == pkHintObj {
		ev.ref = -1
	}
	ev = g.bind(r.Pos(), "elem", ev, &lines)
	fr.elem = g.newVar(st, ev)
	if ev.ref == -1 {
		ev.ref = fr.elem
		st.vals[fr.elem] = ev
	}
	if listV.zipped {
		fr.bit = g.newVar(st, g.bind(r.Pos(), "bit", p9val{k: pkBool, s: "e.2", p: pAtom}, &lines))
	}
	fr.end = func(s *p9st) string {
		var sig []string
		for _, id := range prev.sigma {
			sig = append(sig, g.get(s, id).s)
		}
		e := g.get(s, fr.elem).s
		if fr.bit != 0 {
			e = "(" + e + ", " + g.get(s, fr.bit).s + ")"
		}
		for id, v := range s.vals { // what the body leaves of the flags of the threaded slices
			if isSigma[id] && v.lost {
				res.lost[id] = true
			}
		}
		return "some (" + p9tuple(sig) + ", " + e + ")"
	}
	g.frames = append(g.frames, fr)
	st.push()
	if r.Key != nil {
		key, ok := r.Key.(*ast.Ident)
		g.must(ok, r.Key, "the index of the loop must be a plain variable")
		fr.idx = g.declare(st, key, p9val{k: pkIndex, frame: fr})
	}
	if r.Value != nil {
		val, ok := r.Value.(*ast.Ident)
		g.must(ok, r.Value, "the loop variable must be a plain variable")
		switch elemKind {
		case pkHintObj: // the elements are pointers: the variable points to the element
			g.declare(st, val, p9val{k: pkHintPtr, ref: fr.elem})
		case pkLease: // a copy of the element as it is when the iteration starts
			c := ev
			c.ref = 0
			g.declare(st, val, c)
		case pkIAPD:
			g.declare(st, val, p9val{k: pkIAPD, s: ev.s, p: pAtom})
		}
	}
	body := g.block(r.Body.List, st, fr.end)
	res.modified = fr.modified
	g.frames = savedFrames
	g.trackers = g.trackers[:len(g.trackers)-1]
	for _, id := range tr.refs {
		if tr.assigned[id] {
			res.sigma = append(res.sigma, id)
		} else {
			res.params = append(res.params, id)
		}
	}
	for id := range tr.detach {
		res.detach = append(res.detach, id)
	}
	if dry {
		g.dry--
		g.dirty = savedDirty
		g.nvar = savedNvar
	}
	sigType := p9tupleType(sigT)
	ret := "Option (" + sigType + " × " + elemT + ")"
	if len(sigT) > 1 {
		ret = "Option ((" + sigType + ") × " + elemT + ")"
	}
	sig := name + "Body (now : Int)"
	if len(params) > 0 {
		sig += " " + strings.Join(params, " ")
	}
	sig += " (s : " + sigType + ") (e : " + strings.TrimSuffix(strings.TrimPrefix(elemT, "("), ")") + ") :\n    " + ret
	res.text = def("the body of the "+g.loopDoc[name]+", translated from its go/ast: σ = the variables of the\nenclosing function it assigns, e = the element it is at; `none` = a nil dereference.", sig, joinLines(lines, body))
	return res
}

// ------------------------------------------------------------------ functions

// nameLoops: the loops of Handle get their names from where they are.
func (g *p9gen) nameLoops(f *ast.FuncDecl) {
	g.loops, g.loopDoc = map[*ast.RangeStmt]string{}, map[string]string{}
	direct := func(b *ast.BlockStmt) []*ast.RangeStmt { // the loops of a body that are not inside another loop of it
		var out []*ast.RangeStmt
		ast.Inspect(b, func(n ast.Node) bool {
			if r, ok := n.(*ast.RangeStmt); ok {
				out = append(out, r)
				return false
			}
			if fs, ok := n.(*ast.ForStmt); ok {
				g.fail(fs, "only `for … range` loops are in the vocabulary")
			}
			return true
		})
		return out
	}
	top := direct(f.Body)
	g.must(len(top) == 1, f.Name, "expected exactly one loop at the level of Handle (over the IA_PD options), found %d", len(top))
	g.loops[top[0]], g.loopDoc["iapd"] = "iapd", "loop over the IA_PD options of the message (`Handle`)"
	names := []string{"normalize", "loop1", "loop2", "loop3"}
	docs := []string{"loop that replaces nil prefixes", "first loop over the hints (exact matches)", "second loop over the hints (unspecified hints)",
		"third loop over the hints (new allocations)"}
	inner := direct(top[0].Body)
	g.must(len(inner) == len(names), top[0], "expected %d loops in the body of the loop over the IA_PD options, found %d", len(names), len(inner))
	for i, r := range inner {
		g.loops[r], g.loopDoc[names[i]] = names[i], docs[i]
		for j, rr := range direct(r.Body) {
			n := names[i] + "Inner"
			if j > 0 {
				n += strconv.Itoa(j + 1)
			}
			g.loops[rr], g.loopDoc[n] = n, "loop over the leases inside the "+docs[i]
			g.must(len(direct(rr.Body)) == 0, rr, "loops nested three deep are not in the vocabulary")
		}
	}
}

// checkLock: h.Lock(); defer h.Unlock() — consecutive statements at the top level of Handle, each mentioned once,
// every use of h.Records / h.allocator after them.
func (g *p9gen) checkLock(f *ast.FuncDecl, recv string, list []ast.Stmt) {
	isCall := func(x ast.Expr, m string) bool {
		r, name, c, ok := g.method(x)
		return ok && name == m && len(c.Args) == 0 && isIdent(r, recv)
	}
	at := -1
	for i, s := range list {
		if e, ok := s.(*ast.ExprStmt); ok && isCall(e.X, "Lock") {
			at = i
			break
		}
	}
	g.must(at >= 0, f.Name, "no `%s.Lock()` at the top level of Handle", recv)
	g.must(at+1 < len(list), list[at], "`%s.Lock()` must be immediately followed by `defer %s.Unlock()`", recv, recv)
	d, ok := list[at+1].(*ast.DeferStmt)
	g.must(ok && isCall(d.Call, "Unlock"), list[at], "`%s.Lock()` must be immediately followed by `defer %s.Unlock()`", recv, recv)
	g.skip = map[ast.Stmt]bool{list[at]: true, list[at+1]: true}
	mentions := map[string]int{}
	ast.Inspect(f.Body, func(n ast.Node) bool {
		switch n := n.(type) {
		case *ast.SelectorExpr:
			switch n.Sel.Name {
			case "Lock", "Unlock", "TryLock", "Mutex", "RLock", "RUnlock":
				mentions[n.Sel.Name]++
				g.must(mentions[n.Sel.Name] == 1 && (n.Sel.Name == "Lock" || n.Sel.Name == "Unlock"), n,
					"the mutex is used a second time (want exactly one Lock and one deferred Unlock)")
			case "Records", "allocator":
				g.must(n.Pos() > d.End(), n, "h.%s is used before the lock is taken", n.Sel.Name)
			}
		case *ast.GoStmt:
			g.fail(n, "go statement unsupported")
		case *ast.FuncLit:
			g.fail(n, "function literal unsupported")
		case *ast.DeferStmt:
			g.must(n == d, n, "a second defer statement")
		}
		return true
	})
}

var p9structs = map[string][][2]string{
	"lease":   {{"Prefix", "net.IPNet"}, {"Expire", "time.Time"}},
	"Handler": {{"", "sync.Mutex"}, {"Records", "map[string][]lease"}, {"allocator", "allocators.Allocator"}},
}

func (g *p9gen) checkDecls(file *ast.File) {
	found := map[string]bool{}
	for _, d := range file.Decls {
		gd, ok := d.(*ast.GenDecl)
		if !ok || gd.Tok != token.TYPE {
			continue
		}
		for _, sp := range gd.Specs {
			ts := sp.(*ast.TypeSpec)
			want, ok := p9structs[ts.Name.Name]
			if !ok {
				continue
			}
			stt, ok := ts.Type.(*ast.StructType)
			g.must(ok, ts, "%s is not a struct", ts.Name.Name)
			var fields [][2]string
			for _, f := range stt.Fields.List {
				if len(f.Names) == 0 {
					fields = append(fields, [2]string{"", g.src(f.Type)})
				}
				for _, n := range f.Names {
					fields = append(fields, [2]string{n.Name, g.src(f.Type)})
				}
			}
			g.must(fmt.Sprint(fields) == fmt.Sprint(want), ts, "the fields of %s are not %v", ts.Name.Name, want)
			found[ts.Name.Name] = true
		}
	}
	g.must(found["lease"] && found["Handler"], file.Name, "types lease and Handler not found")
}

// checkDup: dup copies IP and Mask into fresh 16-byte arrays — the identity on the prefixes of leases.
func (g *p9gen) checkDup(f *ast.FuncDecl) {
	norm := func(s string) string { return strings.Join(strings.Fields(s), " ") }
	g.must(f.Recv == nil && f.Body != nil, f.Name, "unsupported function form")
	g.must(norm(g.src(f.Type)) == "func(src *net.IPNet) (dst *net.IPNet)", f.Name, "dup is not func(src *net.IPNet) (dst *net.IPNet)")
	var got []string
	for _, s := range f.Body.List {
		got = append(got, norm(g.src(s)))
	}
	want := []string{"dst = &net.IPNet{ IP: make(net.IP, net.IPv6len), Mask: make(net.IPMask, net.IPv6len), }",
		"copy(dst.IP, src.IP)", "copy(dst.Mask, src.Mask)", "return dst"}
	g.must(fmt.Sprint(got) == fmt.Sprint(want), f.Name, "dup is not the copy into fresh 16-byte arrays the vocabulary takes it for: %q", got)
}

// leaseDuration: const leaseDuration = N * time.Second
func (g *p9gen) leaseDuration(file *ast.File) string {
	for _, d := range file.Decls {
		gd, ok := d.(*ast.GenDecl)
		if !ok || (gd.Tok != token.CONST && gd.Tok != token.VAR) {
			continue
		}
		for _, sp := range gd.Specs {
			v := sp.(*ast.ValueSpec)
			for i, n := range v.Names {
				if n.Name != "leaseDuration" {
					continue
				}
				g.must(gd.Tok == token.CONST && len(v.Values) == len(v.Names), v, "leaseDuration must be a constant with a value")
				b, ok := g.unparen(v.Values[i]).(*ast.BinaryExpr)
				g.must(ok && b.Op == token.MUL, v.Values[i], "expected N * time.Second")
				num, unit := b.X, b.Y
				if _, isLit := g.unparen(num).(*ast.BasicLit); !isLit {
					num, unit = unit, num
				}
				l, ok := g.unparen(num).(*ast.BasicLit)
				g.must(ok && l.Kind == token.INT, v.Values[i], "expected N * time.Second")
				nn, err := strconv.ParseUint(l.Value, 0, 62)
				g.must(err == nil, l, "unsupported literal")
				u, ok := g.pkgSel(unit, "time")
				ns := map[string]string{"Nanosecond": "1", "Microsecond": "1000", "Millisecond": "1000000", "Second": "1000000000",
					"Minute": "60000000000", "Hour": "3600000000000"}[u]
				g.must(ok && ns != "", unit, "expected a unit of package time")
				return def("`const leaseDuration = "+g.src(v.Values[i])+"` (ns)", "leaseDuration : Int", strconv.FormatUint(nn, 10)+" * "+ns)
			}
		}
	}
	g.fail(file.Name, "constant leaseDuration not found")
	return ""
}

// helperBool: samePrefix — a function of two *net.IPNet with result bool: `if <nil tests> { return e }` … `return e`.
func (g *p9gen) helperBool(f *ast.FuncDecl) string {
	g.must(f.Recv == nil && f.Body != nil && f.Type.TypeParams == nil, f.Name, "unsupported function form")
	g.must(f.Type.Results != nil && len(f.Type.Results.List) == 1 && len(f.Type.Results.List[0].Names) == 0 &&
		g.src(f.Type.Results.List[0].Type) == "bool", f.Name, "expected one unnamed result of type bool")
	st := &p9st{vals: map[int]p9val{}}
	st.push()
	sig := f.Name.Name
	n := 0
	for _, p := range f.Type.Params.List {
		g.must(g.src(p.Type) == "*net.IPNet", p.Type, "parameter type must be *net.IPNet")
		for _, id := range p.Names {
			n++
			name := string(rune('a' + n - 1))
			g.declare(st, id, p9val{k: pkNetPtr, s: name, p: pAtom, ref: -1})
			sig += " (" + name + " : Option GNet)"
		}
	}
	g.inHelper = true
	var body func(list []ast.Stmt, st *p9st) string
	body = func(list []ast.Stmt, st *p9st) string {
		g.must(len(list) > 0, f.Name, "control reaches the end of the function without a return")
		switch s := list[0].(type) {
		case *ast.ReturnStmt:
			g.must(len(s.Results) == 1 && len(list) == 1, s, "expected `return <bool>` as the last statement")
			c := g.cond(s.Results[0], st)
			switch c.static {
			case 1:
				return "true"
			case -1:
				return "false"
			}
			return c.s
		case *ast.IfStmt:
			g.must(s.Init == nil && s.Else == nil && len(s.Body.List) == 1, s, "expected `if <condition> { return <bool> }`")
			r, ok := s.Body.List[0].(*ast.ReturnStmt)
			g.must(ok && len(r.Results) == 1, s.Body.List[0], "expected `if <condition> { return <bool> }`")
			// if p == nil || q == nil { return e }: a match that binds the pointees
			ops := g.flatten(s.Cond, token.LOR)
			var vals []p9val
			all := true
			for _, o := range ops {
				v, isNilTest, isTest := g.nilTest(o, st)
				if !isTest || !isNilTest || v.ref <= 0 || v.pointee != "" {
					all = false
					break
				}
				vals = append(vals, v)
			}
			if all {
				var scrut, some, wild []string
				in := st.clone()
				for i, v := range vals {
					nm := g.fresh(ops[i].Pos(), "bind", "n")
					pv := in.vals[v.ref]
					pv.pointee = nm
					in.vals[v.ref] = pv
					scrut, some, wild = append(scrut, v.s), append(some, "some "+nm), append(wild, "_")
				}
				return "match " + strings.Join(scrut, ", ") + " with\n| " + strings.Join(some, ", ") + " => " + body(list[1:], in) +
					"\n| " + strings.Join(wild, ", ") + " => " + body(s.Body.List, st.clone())
			}
			c := g.cond(s.Cond, st)
			g.must(c.static == 0, s, "condition known beforehand in a helper")
			return ite(c.s, body(s.Body.List, st.clone()), body(list[1:], st.clone()))
		}
		g.fail(list[0], "unsupported statement in a helper")
		return ""
	}
	text := body(f.Body.List, st)
	g.inHelper = false
	return def("`"+f.Name.Name+"` (plugins/prefix/plugin.go), translated from its go/ast.", sig+" : Bool", text)
}

// handle: (h *Handler) Handle(req, resp dhcpv6.DHCPv6) (dhcpv6.DHCPv6, bool)
func (g *p9gen) handle(f *ast.FuncDecl) string {
	ft := f.Type
	g.must(f.Recv != nil && len(f.Recv.List) == 1 && len(f.Recv.List[0].Names) == 1 && g.src(f.Recv.List[0].Type) == "*Handler" &&
		ft.TypeParams == nil && f.Body != nil, f.Name, "expected the method (h *Handler) Handle")
	var names []*ast.Ident
	for _, p := range ft.Params.List {
		g.must(g.src(p.Type) == "dhcpv6.DHCPv6", p.Type, "parameter type must be dhcpv6.DHCPv6")
		names = append(names, p.Names...)
	}
	g.must(len(names) == 2 && ft.Results != nil && len(ft.Results.List) == 2 && len(ft.Results.List[0].Names) == 0 &&
		len(ft.Results.List[1].Names) == 0 && g.src(ft.Results.List[0].Type) == "dhcpv6.DHCPv6" && g.src(ft.Results.List[1].Type) == "bool",
		f.Name, "expected func(req, resp dhcpv6.DHCPv6) (dhcpv6.DHCPv6, bool)")
	rid := f.Recv.List[0].Names[0]
	g.must(rid.Name != "_" && names[0].Name != "_" && names[1].Name != "_" && names[0].Name != names[1].Name &&
		rid.Name != names[0].Name && rid.Name != names[1].Name, f.Name, "receiver and parameters must have different names")
	st := &p9st{vals: map[int]p9val{}}
	st.push()
	var lines []string
	g.recvID = g.declare(st, rid, p9val{k: pkHandler, s: g.fresh(f.Pos(), "recv", "s"), p: pAtom})
	g.declare(st, names[0], p9val{k: pkReq, s: "req", p: pAtom})
	g.respID = g.declare(st, names[1], g.bind(f.Pos(), "resp", p9val{k: pkResp, s: "[]", p: pAtom}, &lines))
	list := f.Body.List
	// the verification hook: exactly `verifSeen(h)` as the first statement
	if len(list) > 0 {
		if e, ok := list[0].(*ast.ExprStmt); ok {
			if c, ok := e.X.(*ast.CallExpr); ok && isIdent(c.Fun, "verifSeen") && len(c.Args) == 1 && isIdent(c.Args[0], rid.Name) && !c.Ellipsis.IsValid() {
				list = list[1:]
			}
		}
	}
	g.checkLock(f, rid.Name, list)
	g.nameLoops(f)
	st.push()
	body := g.stmts(list, st, func(*p9st) string {
		g.fail(f.Name, "control reaches the end of the handler without a return")
		return ""
	})
	nPrefixes := 0
	ast.Inspect(f.Body, func(n ast.Node) bool {
		if sel, ok := n.(*ast.SelectorExpr); ok && sel.Sel.Name == "Prefixes" {
			nPrefixes++
		}
		return true
	})
	g.must(nPrefixes <= 1, f.Name, "Prefixes() is called %d times: the hint objects belong to the request, a second call would see what the handler wrote to them", nPrefixes)
	recv := st.vals[g.recvID].s
	return def("`(*Handler).Handle` (plugins/prefix/plugin.go), translated from its go/ast: the new state and the returned pair;\n`none` = a nil dereference.",
		"handle (now : Int) ("+recv+" : PState) (req : ReqV) : Option (PState × Ret)", joinLines(lines, body))
}

const gen9Header = `-- GENERATED by harness gen -unit prefix6 from plugins/prefix/plugin.go — do not edit
-- Regenerated from the Go source on every run; Props/GenPrefix6.lean proves these definitions
-- equal to the hand-written model in Model/Prefix.lean.
import CoreDhcp.Model.Prefix
set_option linter.unusedVariables false
namespace CoreDhcp.GenPD

/-! Fixed vocabulary (not derived from the source; the table is in the header of gen9.go).
The handler ` + "`*Handler`" + ` is the model's ` + "`PState`" + ` (allocator ↦ alloc, Records ↦ recs); ` + "`time.Now()`" + ` is ` + "`now`" + ` (ns, one
instant per message); time.Time and time.Duration are ` + "`Int`" + ` (ns); lengths and mask sizes are ` + "`Nat`" + `.  ` + "`Lease Block HintP IAPDReq`" + `
` + "`ClientKey PState.leasesOf PState.put A6.allocate A6.firstFit`" + ` are the model's.  Log statements, the mutex (checked
for its shape) and the verification hook are nothing. -/

/-- a ` + "`net.IPNet`" + ` (the pointee of a ` + "`*net.IPNet`" + `): ` + "`ip`" + ` = its IP (` + "`none`" + ` = nil or empty, ` + "`some`" + ` = 16 bytes),
` + "`mask`" + ` = its Mask (` + "`none`" + ` = nil, ` + "`some n`" + ` = 16 bytes with n leading ones) -/
structure GNet where
  ip : Option Addr
  mask : Option Nat
deriving DecidableEq, Repr

/-- the field ` + "`Prefix`" + ` of an IAPrefix option as the library parses it (dhcpv6/option_iaprefix.go, FromBytes):
prefix-length 0 ↦ nil; 1..128 ↦ 16-byte IP and ` + "`net.CIDRMask(len, 128)`" + `; above 128 that mask is nil -/
def parsedPrefix : HintP → Option GNet
  | .empty => none
  | .pfx ip _ len => some ⟨some ip, some len⟩
  | .nomask ip _ => some ⟨some ip, none⟩

/-- the ` + "`net.IPNet`" + ` of a block of the allocator (unit alloc6): 16-byte IP, 128-bit mask -/
def blockNet (b : Block) : GNet := ⟨some b.base, some b.len⟩

/-- ` + "`len(ip)`" + ` -/
def ipLen : Option Addr → Nat
  | none => 0
  | some _ => 16

/-- ` + "`a.Equal(b)`" + ` on addresses that are nil / empty or 16 bytes long -/
def ipEqual (a b : Option Addr) : Bool := a == b

/-- ` + "`bytes.Equal(a, b)`" + ` on masks -/
def maskEqual (a b : Option Nat) : Bool := a == b

/-- the first result of ` + "`m.Size()`" + ` -/
def maskOnes : Option Nat → Nat
  | none => 0
  | some n => n

/-- the second result of ` + "`m.Size()`" + ` -/
def maskBits : Option Nat → Nat
  | none => 0
  | some _ => 128

/-- the hint as the allocator sees it (unit alloc6: ` + "`ip`" + ` is ` + "`some`" + ` exactly for a 16-byte IP; ones, bits = Mask.Size()) -/
def netHint (n : GNet) : Hint6 := ⟨n.ip, maskOnes n.mask, maskBits n.mask⟩

/-- ` + "`h.allocator.Allocate(hint)`" + `: the IPv6 allocator MODEL driven by first fit, what the real allocator is (unit
alloc6, ` + "`GEN_a6_allocate_eq`" + `); first fit is always admissible, so the default is never taken
(` + "`Gen9.allocFF_eq`" + ` in Props/GenPrefix6.lean). -/
def allocFF (a : A6) (h : Hint6) : A6 × Except AErr Block :=
  (a.allocate h a.firstFit).getD (a, .error .noaddr)

/-- the element writes made through a slice that was read from ` + "`h.Records[k]`" + ` and not appended to since: the slice
shares its array with the map's entry, so the entry now holds ` + "`ls`" + ` (an empty slice has no element to write) -/
def aliasSync (s : PState) (k : ClientKey) (ls : List Lease) : List (ClientKey × List Lease) :=
  if ls.isEmpty then s.recs else s.put k ls

/-- an option inside an IA_PD of the reply -/
inductive ROpt
  /-- ` + "`&dhcpv6.OptIAPrefix{PreferredLifetime: …, ValidLifetime: …, Prefix: …}`" + ` -/
  | iaprefix (preferred valid : Int) (pfx : Block)
  /-- ` + "`&dhcpv6.OptStatusCode{StatusCode: …}`" + ` -/
  | status (code : Nat)
deriving DecidableEq, Repr

/-- an IA_PD option added to the response: ` + "`&dhcpv6.OptIAPD{IaId: …}`" + ` and what ` + "`Options.Add`" + ` put into it -/
structure GIAPD where
  iaid : Nat
  opts : List ROpt
deriving DecidableEq, Repr

/-- the inner message: ` + "`msg.Options.ClientID()`" + ` (` + "`none`" + ` = nil), ` + "`msg.Options.IAPD()`" + ` -/
structure MsgV where
  client : Option ClientKey
  iapds : List IAPDReq

/-- the request: ` + "`req.GetInnerMessage()`" + ` (` + "`none`" + ` = it returns an error) -/
structure ReqV where
  inner : Option MsgV

/-- what Handle returns: the response (` + "`none`" + ` = nil, ` + "`some l`" + ` = resp with the options l added) and the bool -/
inductive Ret
  | ret (resp : Option (List GIAPD)) (stop : Bool)
deriving DecidableEq, Repr

/-- ` + "`for i, x := range xs { body }`" + `: the body runs once per element, in order, on the state the previous elements
left; it may change the element it is at; ` + "`none`" + ` (a panic) ends everything -/
def forRange {σ ε : Type} (body : σ → ε → Option (σ × ε)) : σ → List ε → Option (σ × List ε)
  | s, [] => some (s, [])
  | s, e :: rest =>
    match body s e with
    | none => none
    | some r =>
      match forRange body r.1 rest with
      | none => none
      | some q => some (q.1, r.2 :: q.2)

`

func runGen9(srcArg, outPath, lib string) {
	die := func(a ...interface{}) {
		fmt.Fprintln(os.Stderr, append([]interface{}{"gen:"}, a...)...)
		os.Exit(2)
	}
	srcPath := prefix6Src
	if srcArg != "" {
		srcPath = srcArg
	}
	g := &p9gen{gen: &gen{fset: token.NewFileSet()}, imports: map[string]string{}, funcs: map[string]*ast.FuncDecl{}, pkgNames: map[string]bool{},
		consts: map[string]int{}, names: map[string]string{}, count: map[string]int{}, dirty: map[int]bool{}}
	(&dunit{gen: g.gen, consts: g.consts}).readConsts(filepath.Join(lib, "iana/statuscodes.go"), "iana")
	file, err := parser.ParseFile(g.fset, srcPath, nil, parser.SkipObjectResolution)
	if err != nil {
		die("parse:", err)
	}
	for _, im := range file.Imports {
		p, _ := strconv.Unquote(im.Path.Value)
		name := filepath.Base(p)
		if im.Name != nil {
			name = im.Name.Name
		}
		g.imports[name] = p
		if want, ok := p9pkgs[name]; ok {
			g.must(p == want, im, "package name %s stands for %s in the vocabulary", name, want)
		}
	}
	for _, d := range file.Decls {
		switch d := d.(type) {
		case *ast.FuncDecl:
			if g.funcs[d.Name.Name] != nil {
				die(srcPath+": function", d.Name.Name, "declared twice")
			}
			g.funcs[d.Name.Name] = d
			g.pkgNames[d.Name.Name] = d.Recv == nil
		case *ast.GenDecl:
			for _, sp := range d.Specs {
				switch sp := sp.(type) {
				case *ast.TypeSpec:
					g.pkgNames[sp.Name.Name] = true
				case *ast.ValueSpec:
					for i, n := range sp.Names {
						g.pkgNames[n.Name] = true
						if n.Name == "log" && d.Tok == token.VAR && len(sp.Values) == len(sp.Names) {
							if c, ok := sp.Values[i].(*ast.CallExpr); ok {
								if fn, ok := g.pkgSel(c.Fun, "logger"); ok && fn == "GetLogger" {
									g.logOK = true
								}
							}
						}
					}
				}
			}
		}
	}
	g.checkDecls(file)
	for _, name := range []string{"Handle", "samePrefix", "recordKey", "addPrefix", "dup", "setupPrefix"} {
		if g.funcs[name] == nil {
			die(srcPath+": function", name, "not found")
		}
	}
	g.checkDup(g.funcs["dup"])
	out := gen9Header
	out += g.leaseDuration(file)
	out += g.helperBool(g.funcs["samePrefix"])
	h := g.handle(g.funcs["Handle"])
	out += strings.Join(g.defs, "") + h
	out += g.setup(g.funcs["setupPrefix"])
	out += "end CoreDhcp.GenPD\n"
	if err := os.WriteFile(outPath, []byte(out), 0o644); err != nil {
		die(err)
	}
	fmt.Printf("gen: wrote %s (%d bytes) from %s\n", outPath, len(out), srcPath)
}

// ------------------------------------------------------------------ setupPrefix

// the error texts of setupPrefix ↦ constructors of the generated type SetupErr
var p9setupErrs = map[string]string{
	"Need both a subnet and an allocation max size": "arity",
	"Invalid pool subnet: %v":                       "cidr",
	"Invalid pool subnet: %v is not an IPv6 prefix": "notV6",
	"Invalid prefix length: %v":                     "size",
	"Could not initialize prefix allocator: %v":     "alloc",
}

type p9sv struct {
	kind    string // args | cidr | size | alloc | err
	lean    string // the Option the call returned
	pointee string // its content where the error next to it is known to be nil
	of      string // err: the Go name of the value it came with
}

// setup: setupPrefix — a chain of `x, err := <library call>` and `if <test> { return nil, <error> }`, then the handler.
//
//	len(args)                                nargs
//	_, p, err := net.ParseCIDR(args[0])      cidr : Option CidrV (none = error); p.IP.To4() != nil ↦ c.v4
//	n, err := strconv.Atoi(args[1])          size : Option Int (none = error)
//	a, err := bitmap.NewBitmapAllocator(*p, n)   A6.new ⟨c.base, c.len, n.toNat⟩ (the allocator MODEL; unit alloc6)
//	if err != nil { return nil, e }          match … with | none / .error _ => .error e | some / .ok x => …
//	return (&Handler{Records: make(map[string][]lease), allocator: a}).Handle, nil     .ok ⟨a, []⟩
//	args[i]                                  only where the tests passed so far imply len(args) > i
func (g *p9gen) setup(f *ast.FuncDecl) string {
	g.must(f.Recv == nil && f.Body != nil && f.Type.TypeParams == nil, f.Name, "unsupported function form")
	ps := f.Type.Params.List
	g.must(len(ps) == 1 && len(ps[0].Names) == 1 && g.src(ps[0].Type) == "...string", f.Name, "expected setupPrefix(args ...string)")
	args := ps[0].Names[0].Name
	vars := map[string]p9sv{args: {kind: "args"}}
	minLen := 0
	fresh := map[string]int{}
	name := func(p string) string { fresh[p]++; return p + strconv.Itoa(fresh[p]) }
	argIdx := func(x ast.Expr, want int) {
		ix, ok := g.unparen(x).(*ast.IndexExpr)
		g.must(ok && isIdent(ix.X, args) && vars[args].kind == "args", x, "expected %s[%d]", args, want)
		l, ok := ix.Index.(*ast.BasicLit)
		g.must(ok && l.Value == strconv.Itoa(want), x, "expected %s[%d] (the vocabulary fixes which argument is parsed how)", args, want)
		g.must(minLen > want, x, "%s[%d] where len(%s) > %d is not established (Go would panic)", args, want, args, want)
	}
	errorValue := func(x ast.Expr) string {
		c, ok := g.unparen(x).(*ast.CallExpr)
		g.must(ok && len(c.Args) >= 1 && !c.Ellipsis.IsValid(), x, "expected fmt.Errorf(…) or errors.New(…)")
		n1, ok1 := g.pkgSel(c.Fun, "fmt")
		n2, ok2 := g.pkgSel(c.Fun, "errors")
		g.must(ok1 && n1 == "Errorf" || ok2 && n2 == "New" && len(c.Args) == 1, x, "expected fmt.Errorf(…) or errors.New(…)")
		l, ok := c.Args[0].(*ast.BasicLit)
		g.must(ok && l.Kind == token.STRING, c.Args[0], "the message must be a string literal")
		text, _ := strconv.Unquote(l.Value)
		ctor, ok := p9setupErrs[text]
		g.must(ok, l, "unknown error text (no SetupErr constructor)")
		for _, a := range c.Args[1:] {
			id, ok := g.unparen(a).(*ast.Ident)
			g.must(ok && vars[id.Name].kind != "", a, "the arguments of an error message must be variables")
		}
		return ".error ." + ctor
	}
	guardBody := func(s *ast.IfStmt) string {
		g.must(s.Init == nil && s.Else == nil && len(s.Body.List) == 1, s, "expected `if <test> { return nil, <error> }`")
		r, ok := s.Body.List[0].(*ast.ReturnStmt)
		g.must(ok && len(r.Results) == 2 && isIdent(r.Results[0], "nil"), s.Body.List[0], "expected `return nil, <error>`")
		return errorValue(r.Results[1])
	}
	// a test that is not about an error: Lean Bool
	var test func(x ast.Expr) string
	test = func(x ast.Expr) string {
		b, ok := g.unparen(x).(*ast.BinaryExpr)
		g.must(ok, x, "unsupported condition")
		if b.Op == token.LOR {
			return test(b.X) + " || " + test(b.Y)
		}
		op, ok := cmpOps[b.Op]
		g.must(ok, x, "unsupported operator %s", b.Op)
		if c, ok := g.unparen(b.X).(*ast.CallExpr); ok && isIdent(c.Fun, "len") { // len(args) < N
			l, isLit := g.unparen(b.Y).(*ast.BasicLit)
			g.must(len(c.Args) == 1 && isIdent(c.Args[0], args) && isLit && l.Kind == token.INT && b.Op == token.LSS, x, "expected len(%s) < N", args)
			n, _ := strconv.Atoi(l.Value)
			minLen = n // established where the test is false
			return "decide (nargs < " + l.Value + ")"
		}
		if isIdent(b.Y, "nil") { // p.IP.To4() != nil
			g.must(b.Op == token.NEQ, x, "unsupported nil test")
			recv, m, c, ok := g.method(b.X)
			g.must(ok && m == "To4" && len(c.Args) == 0, x, "unsupported nil test")
			sel, ok := g.unparen(recv).(*ast.SelectorExpr)
			g.must(ok && sel.Sel.Name == "IP", recv, "unsupported nil test")
			id, ok := sel.X.(*ast.Ident)
			g.must(ok && vars[id.Name].kind == "cidr" && vars[id.Name].pointee != "", sel.X, "the network ParseCIDR returned is used where its error is not known to be nil")
			return vars[id.Name].pointee + ".v4"
		}
		id, ok := g.unparen(b.X).(*ast.Ident)
		l, isLit := g.unparen(b.Y).(*ast.BasicLit)
		g.must(ok && vars[id.Name].kind == "size" && isLit && l.Kind == token.INT, x, "unsupported comparison")
		g.must(vars[id.Name].pointee != "", x, "the number Atoi returned is used where its error is not known to be nil")
		return "decide (" + vars[id.Name].pointee + " " + op + " " + l.Value + ")"
	}
	errOf := func(x ast.Expr) (string, bool) { // x is `err != nil`, err the error of a value not yet tested
		b, ok := g.unparen(x).(*ast.BinaryExpr)
		if !ok || b.Op != token.NEQ || !isIdent(b.Y, "nil") {
			return "", false
		}
		id, ok := b.X.(*ast.Ident)
		if !ok || vars[id.Name].kind != "err" {
			return "", false
		}
		of := vars[id.Name].of
		g.must(vars[of].pointee == "", x, "the error was already tested")
		return of, true
	}
	var rest func(list []ast.Stmt) string
	rest = func(list []ast.Stmt) string {
		g.must(len(list) > 0, f.Name, "control reaches the end of setupPrefix without a return")
		switch s := list[0].(type) {
		case *ast.IfStmt:
			body := guardBody(s)
			ops := g.flatten(s.Cond, token.LOR)
			if of, ok := errOf(ops[0]); ok { // if err != nil [|| more] { return nil, e }
				v := vars[of]
				pre := map[string]string{"cidr": "c", "size": "z", "alloc": "a"}[v.kind]
				v.pointee = name(pre)
				vars[of] = v
				none, some := "none", "some "+v.pointee
				if v.kind == "alloc" {
					none, some = ".error _", ".ok "+v.pointee
				}
				k := ""
				if len(ops) > 1 {
					var ts []string
					for _, o := range ops[1:] {
						ts = append(ts, test(o))
					}
					k = ite(strings.Join(ts, " || "), body, rest(list[1:]))
				} else {
					k = rest(list[1:])
				}
				return "match " + v.lean + " with\n| " + none + " => " + body + "\n| " + some + " =>\n" + indent(k)
			}
			c := test(s.Cond)
			return ite(c, body, rest(list[1:]))
		case *ast.AssignStmt:
			g.must(s.Tok == token.DEFINE && len(s.Rhs) == 1, s, "unsupported assignment")
			c, ok := s.Rhs[0].(*ast.CallExpr)
			g.must(ok && !c.Ellipsis.IsValid(), s, "unsupported assignment")
			ids := make([]string, len(s.Lhs))
			for i, l := range s.Lhs {
				id, ok := l.(*ast.Ident)
				g.must(ok, l, "assignment target must be a plain variable")
				ids[i] = id.Name
			}
			bindTo := func(val, kind, lean string) {
				errName := ids[len(ids)-1]
				g.must(val != "_" && errName != "_", s, "value and error must both be kept")
				vars[val] = p9sv{kind: kind, lean: lean}
				vars[errName] = p9sv{kind: "err", of: val}
			}
			if n, ok := g.pkgSel(c.Fun, "net"); ok && n == "ParseCIDR" {
				g.must(len(ids) == 3 && ids[0] == "_" && len(c.Args) == 1, s, "expected `_, p, err := net.ParseCIDR(%s[0])`", args)
				argIdx(c.Args[0], 0)
				bindTo(ids[1], "cidr", "cidr")
				return rest(list[1:])
			}
			if n, ok := g.pkgSel(c.Fun, "strconv"); ok && n == "Atoi" {
				g.must(len(ids) == 2 && len(c.Args) == 1, s, "expected `n, err := strconv.Atoi(%s[1])`", args)
				argIdx(c.Args[0], 1)
				bindTo(ids[0], "size", "size")
				return rest(list[1:])
			}
			if n, ok := g.pkgSel(c.Fun, "bitmap"); ok && n == "NewBitmapAllocator" {
				g.must(len(ids) == 2 && len(c.Args) == 2, s, "expected `a, err := bitmap.NewBitmapAllocator(*p, n)`")
				st, ok := g.unparen(c.Args[0]).(*ast.StarExpr)
				g.must(ok, c.Args[0], "expected *p, p the network ParseCIDR returned")
				p, ok1 := st.X.(*ast.Ident)
				z, ok2 := g.unparen(c.Args[1]).(*ast.Ident)
				g.must(ok1 && ok2 && vars[p.Name].kind == "cidr" && vars[z.Name].kind == "size", c, "expected bitmap.NewBitmapAllocator(*p, n)")
				g.must(vars[p.Name].pointee != "" && vars[z.Name].pointee != "", c, "a result is used where the error next to it is not known to be nil")
				cp, zp := vars[p.Name].pointee, vars[z.Name].pointee
				bindTo(ids[0], "alloc", "A6.new ⟨"+cp+".base, "+cp+".len, "+zp+".toNat⟩")
				return rest(list[1:])
			}
			g.fail(s, "unknown call in setupPrefix")
		case *ast.ReturnStmt: // return (&Handler{Records: make(map[string][]lease), allocator: a}).Handle, nil
			g.must(len(s.Results) == 2 && isIdent(s.Results[1], "nil") && len(list) == 1, s, "expected `return (&Handler{…}).Handle, nil` as the last statement")
			sel, ok := g.unparen(s.Results[0]).(*ast.SelectorExpr)
			g.must(ok && sel.Sel.Name == "Handle", s.Results[0], "expected (&Handler{…}).Handle")
			u, ok := g.unparen(sel.X).(*ast.UnaryExpr)
			g.must(ok && u.Op == token.AND, sel.X, "expected &Handler{…}")
			cl, ok := u.X.(*ast.CompositeLit)
			g.must(ok && isIdent(cl.Type, "Handler"), u.X, "expected &Handler{…}")
			fl := g.kv(cl)
			g.must(len(fl) == 2 && fl["Records"] != nil && fl["allocator"] != nil, cl, "expected Handler{Records: …, allocator: …}")
			g.must(strings.Join(strings.Fields(g.src(fl["Records"])), "") == "make(map[string][]lease)", fl["Records"], "the handler must start with an empty map of records")
			a, ok := g.unparen(fl["allocator"]).(*ast.Ident)
			g.must(ok && vars[a.Name].kind == "alloc" && vars[a.Name].pointee != "", fl["allocator"], "the allocator must be the one NewBitmapAllocator returned, its error tested")
			return ".ok ⟨" + vars[a.Name].pointee + ", []⟩"
		}
		g.fail(list[0], "unsupported statement in setupPrefix")
		return ""
	}
	body := rest(f.Body.List)
	out := "/-- what `net.ParseCIDR` returns for an argument it accepts: the network's address as 16 bytes, whether it is an IPv4\nnetwork (`IP.To4() != nil`), the ones of its mask -/\nstructure CidrV where\n  v4 : Bool\n  base : Addr\n  len : Nat\nderiving DecidableEq, Repr\n\n"
	out += "/-- the errors of setupPrefix: one constructor per text found in the source -/\ninductive SetupErr\n  | arity | cidr | notV6 | size | alloc\nderiving DecidableEq, Repr\n\n"
	out += def("`setupPrefix` (plugins/prefix/plugin.go), translated from its go/ast: `nargs` = len(args), `cidr` = what\nnet.ParseCIDR(args[0]) returns (`none` = an error), `size` = what strconv.Atoi(args[1]) returns (`none` = an error).",
		"setup (nargs : Nat) (cidr : Option CidrV) (size : Option Int) : Except SetupErr PState", body)
	return out
}
