package main

import (
	"errors"
	"fmt"
	"math/big"
	"net"
	"strings"
	"sync"
	"sync/atomic"
	"time"

	"github.com/coredhcp/coredhcp/plugins/allocators"
	"github.com/coredhcp/coredhcp/plugins/allocators/bitmap"
)

func init() {
	engines["alloc6"] = &engine{gen: genAlloc6, replay: replayAlloc}
	engines["alloc4"] = &engine{gen: genAlloc4, replay: replayAlloc}
}

// ---- execution of one op on the real allocators ----

type allocState struct {
	a allocators.Allocator
	// a call did not come back (a lock left held): the allocator is not used any more
	wedged bool
}

func maskOf(ones, bits int) net.IPMask {
	if bits == 0 {
		return nil
	}
	return net.CIDRMask(ones, bits)
}

func fmtAllocRes(n net.IPNet, err error) string {
	if err == nil {
		ones, bits := n.Mask.Size()
		return fmt.Sprintf("ok %s %d %d", hx(n.IP), ones, bits)
	}
	if errors.Is(err, allocators.ErrNoAddrAvail) {
		return "err noaddr"
	}
	return "err other"
}

func fmtFreeRes(err error) string {
	if err == nil {
		return "ok"
	}
	var df *allocators.ErrDoubleFree
	if errors.As(err, &df) {
		return "err doublefree"
	}
	return "err other"
}

// exec runs one operation; an operation that does not come back within 20 s is reported as HANG (the allocator took a lock
// that nobody will release) and every later operation on that allocator is skipped
func (s *allocState) exec(c *ctx, op string) string {
	if strings.HasPrefix(op, "new") {
		s.wedged = false
	}
	if s.wedged {
		c.emit(op, "SKIP after-hang")
		return "SKIP"
	}
	done := make(chan string, 1)
	go func() { done <- s.exec1(c, op) }()
	select {
	case r := <-done:
		return r
	case <-time.After(20 * time.Second):
		s.wedged = true
		s.a = nil
		c.emit(op, "HANG")
		return "HANG"
	}
}

func (s *allocState) exec1(c *ctx, op string) string {
	c.pre(op)
	f := strings.Fields(op)
	switch f[0] {
	case "new6":
		res := guard(func() string {
			pool := net.IPNet{IP: net.IP(unhx(f[1])), Mask: net.CIDRMask(atoi(f[2]), 128)}
			a, err := bitmap.NewBitmapAllocator(pool, atoi(f[3]))
			if err != nil {
				s.a = nil
				if strings.Contains(err.Error(), "cannot be larger") {
					return "err small"
				}
				if strings.Contains(err.Error(), "not representable") {
					return "err large"
				}
				return "err other"
			}
			s.a = a
			return "ok"
		})
		c.emit(op, res)
		return res
	case "new4":
		res := guard(func() string {
			a, err := bitmap.NewIPv4Allocator(net.IP(unhx(f[1])), net.IP(unhx(f[2])))
			if err != nil {
				s.a = nil
				if strings.Contains(err.Error(), "invalid IPv4") {
					return "err invalid"
				}
				if strings.Contains(err.Error(), "no IPs") {
					return "err empty"
				}
				return "err other"
			}
			s.a = a
			return "ok"
		})
		c.emit(op, res)
		return res
	case "alloc":
		if s.a == nil {
			return ""
		}
		res := guard(func() string {
			hint := net.IPNet{IP: net.IP(unhx(f[1])), Mask: maskOf(atoi(f[2]), atoi(f[3]))}
			return fmtAllocRes(s.a.Allocate(hint))
		})
		c.emit(op, res)
		return res
	case "acap6": // acap6 <base> <poolLen> <page>: a pool too large to trace step by step, filled to the brim
		res := guard(func() string {
			pool := net.IPNet{IP: net.IP(unhx(f[1])), Mask: net.CIDRMask(atoi(f[2]), 128)}
			a, err := bitmap.NewBitmapAllocator(pool, atoi(f[3]))
			if err != nil {
				return "err"
			}
			seen := map[string]bool{}
			bad := "-"
			var mid net.IPNet
			n := 0
			var last error
			for {
				b, err := a.Allocate(net.IPNet{})
				if err != nil {
					last = err
					break
				}
				ones, bits := b.Mask.Size()
				k := b.IP.String()
				switch {
				case seen[k] && bad == "-":
					bad = "dup:" + hx(b.IP)
				case !pool.Contains(b.IP) && bad == "-":
					bad = "outside:" + hx(b.IP)
				case (ones != atoi(f[3]) || bits != 128) && bad == "-":
					bad = fmt.Sprintf("length:%d/%d", ones, bits)
				case !b.IP.Mask(b.Mask).Equal(b.IP) && bad == "-":
					bad = "unaligned:" + hx(b.IP)
				}
				seen[k] = true
				n++
				if n == 70000 {
					mid = b
				}
				if n > 1<<21 {
					bad = "runaway"
					break
				}
			}
			refusal := "other"
			if errors.Is(last, allocators.ErrNoAddrAvail) {
				refusal = "noaddr"
			}
			refill := "-"
			if mid.IP != nil {
				refill = "bad"
				if a.Free(mid) == nil {
					if b, err := a.Allocate(net.IPNet{}); err == nil && b.IP.Equal(mid.IP) {
						if _, err := a.Allocate(net.IPNet{}); errors.Is(err, allocators.ErrNoAddrAvail) {
							refill = "ok"
						}
					}
				}
			}
			return fmt.Sprintf("n=%d bad=%s refusal=%s refill=%s", n, bad, refusal, refill)
		})
		c.emit(op, res)
		return res
	case "ahchurn": // ahchurn <k> <rounds>: k callers at once, each naming ITS OWN free block as a hint, taking it and freeing it, again and again
		if s.a == nil {
			return ""
		}
		k, rounds := atoi(f[1]), atoi(f[2])
		// k blocks that are free and that only their caller names: taken one after the other (neighbours in the bitmap), freed again
		var mine []net.IPNet
		for i := 0; i < k; i++ {
			b, err := s.a.Allocate(net.IPNet{})
			if err != nil {
				break
			}
			mine = append(mine, b)
		}
		setupBad := ""
		for _, b := range mine {
			if err := s.a.Free(b); err != nil {
				setupBad = fmt.Sprintf("free of the block %s just taken failed: %v", fmtAllocRes(b, nil)[3:], err)
			}
		}
		if setupBad != "" {
			c.emit(op, setupBad)
			return setupBad
		}
		if len(mine) < 2 {
			c.emit(op, "full")
			return "full"
		}
		var bad atomic.Value
		fs := make([]func() string, len(mine))
		for i := range fs {
			b := mine[i]
			fs[i] = func() string {
				for r := 0; r < rounds && bad.Load() == nil; r++ {
					got, err := s.a.Allocate(b)
					if err != nil {
						bad.Store(fmt.Sprintf("hint %s names a block that is free, Allocate failed: %v (round %d)", fmtAllocRes(b, nil)[3:], err, r))
						return "done"
					}
					if !got.IP.Equal(b.IP) || got.Mask.String() != b.Mask.String() {
						bad.Store(fmt.Sprintf("hint %s names a block that is free, Allocate returned %s (round %d)", fmtAllocRes(b, nil)[3:], fmtAllocRes(got, nil)[3:], r))
						return "done"
					}
					if err := s.a.Free(b); err != nil {
						bad.Store(fmt.Sprintf("free of the caller's own block %s failed: %v (round %d)", fmtAllocRes(b, nil)[3:], err, r))
						return "done"
					}
				}
				return "done"
			}
		}
		res := "ok"
		for _, st := range together(fs) {
			if st == "HANG" {
				res = "HANG"
			}
		}
		if v := bad.Load(); v != nil {
			res = v.(string)
		}
		c.emit(op, res)
		return res
	case "achurn": // achurn <k> <rounds>: k callers at once, each taking a block (no hint) and freeing its own, again and again
		if s.a == nil {
			return ""
		}
		k, rounds := atoi(f[1]), atoi(f[2])
		var owned sync.Map
		var bad atomic.Value
		fs := make([]func() string, k)
		for i := range fs {
			fs[i] = func() string {
				for r := 0; r < rounds && bad.Load() == nil; r++ {
					b, err := s.a.Allocate(net.IPNet{})
					if err != nil {
						continue // the others hold everything right now
					}
					key := b.String()
					if _, dup := owned.LoadOrStore(key, true); dup {
						bad.Store(fmt.Sprintf("dup %s handed out while another caller holds it", fmtAllocRes(b, nil)[3:]))
						return "done"
					}
					owned.Delete(key)
					if err := s.a.Free(b); err != nil {
						bad.Store(fmt.Sprintf("free of the caller's own block %s failed: %v", fmtAllocRes(b, nil)[3:], err))
						return "done"
					}
				}
				return "done"
			}
		}
		res := "ok"
		for _, st := range together(fs) {
			if st == "HANG" {
				res = "HANG"
			}
		}
		if v := bad.Load(); v != nil {
			res = v.(string)
		}
		c.emit(op, res)
		return res
	case "afrace": // afrace <k> <rounds>: one block handed out, k callers free it at once: exactly one succeeds
		if s.a == nil {
			return ""
		}
		k, rounds := atoi(f[1]), atoi(f[2])
		res := "ok"
		for r := 0; r < rounds && res == "ok"; r++ {
			b, err := s.a.Allocate(net.IPNet{})
			if err != nil {
				res = "full"
				break
			}
			errs := make([]error, k)
			fs := make([]func() string, k)
			for i := range fs {
				i := i
				fs[i] = func() string { errs[i] = s.a.Free(b); return "done" }
			}
			together(fs)
			n := 0
			for _, e := range errs {
				if e == nil {
					n++
				}
			}
			if n != 1 {
				res = fmt.Sprintf("freed %d times round %d: %s", n, r, fmtAllocRes(b, nil)[3:])
			}
		}
		c.emit(op, res)
		return res
	case "arace": // arace <ip|-> <ones> <bits> <k> <rounds>: k callers at once with the same hint, again and again
		if s.a == nil {
			return ""
		}
		hint := net.IPNet{IP: net.IP(unhx(f[1])), Mask: maskOf(atoi(f[2]), atoi(f[3]))}
		k, rounds := atoi(f[4]), atoi(f[5])
		res := "ok"
		for r := 0; r < rounds && res == "ok"; r++ {
			got := make([]net.IPNet, k)
			errs := make([]error, k)
			fs := make([]func() string, k)
			for i := range fs {
				i := i
				fs[i] = func() string { got[i], errs[i] = s.a.Allocate(hint); return "done" }
			}
			for _, st := range together(fs) {
				if st == "HANG" {
					res = "HANG"
				}
			}
			seen := map[string]bool{}
			for i := range got {
				if errs[i] != nil {
					continue
				}
				key := got[i].String()
				if seen[key] {
					res = fmt.Sprintf("dup %s round %d", fmtAllocRes(got[i], nil)[3:], r)
				}
				seen[key] = true
			}
			for key := range seen {
				_, n, _ := net.ParseCIDR(key)
				if err := s.a.Free(*n); err != nil && res == "ok" {
					res = "freefail " + strings.ReplaceAll(key, " ", "")
				}
			}
		}
		c.emit(op, res)
		return res
	case "free":
		if s.a == nil {
			return ""
		}
		res := guard(func() string {
			n := net.IPNet{IP: net.IP(unhx(f[1])), Mask: maskOf(atoi(f[2]), atoi(f[3]))}
			return fmtFreeRes(s.a.Free(n))
		})
		c.emit(op, res)
		return res
	}
	panic("bad op " + op)
}

func replayAlloc(c *ctx, ops []string) {
	s := &allocState{}
	for _, op := range ops {
		s.exec(c, op)
	}
}

// ---- IPv6 generator ----

type pool6cfg struct{ poolLen, page int }

func genAlloc6(c *ctx) {
	small := []pool6cfg{{56, 56}, {56, 57}, {56, 58}, {48, 52}, {60, 66}, {64, 70}, {120, 126}, {0, 6}, {1, 7}, {63, 65}, {64, 64}, {124, 128}, {58, 64}, {72, 79}, {80, 96}, {90, 100}, {96, 104}}
	big_ := []pool6cfg{{48, 64}, {112, 128}, {40, 52}, {64, 74}, {56, 64}}
	bad := []pool6cfg{{64, 56}, {0, 64}, {10, 100}, {64, 128}}
	// one pool with more blocks than any traced history can fill (C05: capacity is exact)
	{
		cfg := []pool6cfg{{47, 64}, {111, 128}, {40, 57}}[c.rng.Intn(3)]
		base := c.pat128()
		k := uint(128 - cfg.poolLen)
		base.Rsh(base, k).Lsh(base, k)
		base.SetBit(base, 125, 1) // not an IPv4-mapped address
		(&allocState{}).exec(c, fmt.Sprintf("acap6 %s %d %d", hx(bigToIP(base)), cfg.poolLen, cfg.page))
	}
	for c.count < c.n {
		var cfg pool6cfg
		r := c.rng.Intn(20)
		switch {
		case r == 0:
			cfg = bad[c.rng.Intn(len(bad))]
		case r < 3 && c.tier == "thorough":
			cfg = big_[c.rng.Intn(len(big_))]
		case r < 3:
			cfg = big_[4:][0]
		default:
			cfg = small[c.rng.Intn(len(small))]
		}
		base := c.pat128()
		k := uint(128 - cfg.poolLen)
		base.Rsh(base, k).Lsh(base, k)
		if cfg.poolLen == 0 {
			base = big.NewInt(0)
		}
		// (IPv4-mapped bases and pools covering ::ffff:0:0/96 are ordinary pools: D18)
		if c.rng.Intn(12) == 0 && cfg.poolLen <= 96 && cfg.page >= 96 {
			// a pool that covers the IPv4-mapped range
			base = new(big.Int).SetBytes(net.ParseIP("::ffff:0:0").To16())
			base.Rsh(base, k).Lsh(base, k)
		}
		c.alloc6History(cfg, base)
	}
}

func (c *ctx) alloc6History(cfg pool6cfg, base *big.Int) {
	s := &allocState{}
	if s.exec(c, fmt.Sprintf("new6 %s %d %d", hx(bigToIP(base)), cfg.poolLen, cfg.page)) != "ok" {
		return
	}
	order := uint(cfg.page - cfg.poolLen)
	nblocks := new(big.Int).Lsh(big.NewInt(1), order)
	unit := new(big.Int).Lsh(big.NewInt(1), uint(128-cfg.page))
	var outst []string // "iphex" of outstanding blocks (as returned)
	var freed []string // blocks that were freed at some point
	steps := 20 + c.rng.Intn(3*int(min64(nblocks.Int64(), 400)))
	allocBias := 5 + c.rng.Intn(5) // out of 10
	randBlock := func() *big.Int {
		var i *big.Int
		switch c.rng.Intn(5) {
		case 0:
			i = big.NewInt(0)
		case 1:
			i = new(big.Int).Sub(nblocks, big.NewInt(1))
		case 2: // word boundary
			i = big.NewInt(int64(64*c.rng.Intn(3) + c.rng.Intn(3) - 1))
		default:
			i = new(big.Int).Rand(c.rng, nblocks)
		}
		if i.Sign() < 0 || i.Cmp(nblocks) >= 0 {
			i = big.NewInt(0)
		}
		return new(big.Int).Add(base, new(big.Int).Mul(i, unit))
	}
	inBlock := func(b *big.Int) *big.Int { // random address inside the block starting at b
		if c.rng.Intn(2) == 0 {
			return b
		}
		return new(big.Int).Add(b, new(big.Int).Rand(c.rng, unit))
	}
	for i := 0; i < steps && c.count < c.n; i++ {
		if c.rng.Intn(10) < allocBias {
			// ---- alloc
			var ip net.IP
			ones, bits := 0, 0
			switch c.rng.Intn(12) {
			case 0, 1, 2: // no hint at all
			case 3: // length-only hint (:: with a length), as the prefix plugin passes it
				ip = net.IPv6zero
				ones, bits = c.hintLen(cfg.page), 128
			case 4, 5, 6: // a block of the pool (free or taken), anywhere inside it
				ip = bigToIP(inBlock(randBlock()))
				ones, bits = c.hintLen(cfg.page), 128
			case 7: // a block we hold
				if len(outst) > 0 {
					ip = net.IP(unhx(outst[c.rng.Intn(len(outst))]))
					ones, bits = cfg.page, 128
				}
			case 8: // a block we freed earlier
				if len(freed) > 0 {
					ip = net.IP(unhx(freed[c.rng.Intn(len(freed))]))
					ones, bits = cfg.page, 128
				}
			case 9: // outside the pool, just below / above / far
				d := new(big.Int).Mul(unit, big.NewInt(int64(1+c.rng.Intn(3))))
				var x *big.Int
				if c.rng.Intn(2) == 0 {
					x = new(big.Int).Sub(base, d)
				} else {
					x = new(big.Int).Add(base, new(big.Int).Mul(nblocks, unit))
					x.Add(x, d).Sub(x, unit)
				}
				if x.Sign() >= 0 && x.Cmp(two128) < 0 {
					ip = bigToIP(x)
				}
				ones, bits = c.hintLen(cfg.page), 128
			case 10: // IPv4 forms and odd masks
				switch c.rng.Intn(4) {
				case 0:
					ip = net.IPv4(10, 0, 0, byte(c.rng.Intn(4))).To4()
					ones, bits = 24, 32
				case 1:
					ip = net.IPv4(10, 0, 0, byte(c.rng.Intn(4)))
					ones, bits = 120, 128
				case 2:
					ip = bigToIP(inBlock(randBlock()))
					ones, bits = 24, 32
				default:
					ip = bigToIP(inBlock(randBlock()))
					ones, bits = 0, 0
				}
			default:
				ip = bigToIP(c.pat128())
				ones, bits = c.hintLen(cfg.page), 128
			}
			res := s.exec(c, fmt.Sprintf("alloc %s %d %d", hx(ip), ones, bits))
			if f := strings.Fields(res); len(f) == 4 && f[0] == "ok" {
				outst = append(outst, f[1])
			}
		} else {
			// ---- free (in the domain of C06: page <= mask length <= 128, 16-byte address)
			var x *big.Int
			ones := cfg.page
			switch c.rng.Intn(10) {
			case 0, 1, 2, 3: // an outstanding block
				if len(outst) > 0 {
					j := c.rng.Intn(len(outst))
					x = new(big.Int).SetBytes(unhx(outst[j]))
				}
			case 4: // sub-prefix of an outstanding block
				if len(outst) > 0 {
					j := c.rng.Intn(len(outst))
					x = inBlock(new(big.Int).SetBytes(unhx(outst[j])))
					ones = cfg.page + c.rng.Intn(128-cfg.page+1)
				}
			case 5: // freed before
				if len(freed) > 0 {
					x = new(big.Int).SetBytes(unhx(freed[c.rng.Intn(len(freed))]))
				}
			case 6: // any block of the pool
				x = inBlock(randBlock())
				if c.rng.Intn(2) == 0 {
					ones = cfg.page + c.rng.Intn(128-cfg.page+1)
				}
			case 7: // k blocks below the base
				kk := int64(1 + c.rng.Intn(int(min64(nblocks.Int64(), 70))+2))
				x = new(big.Int).Sub(base, new(big.Int).Mul(unit, big.NewInt(kk)))
			case 8: // above the end
				kk := int64(c.rng.Intn(int(min64(nblocks.Int64(), 70)) + 2))
				x = new(big.Int).Add(base, new(big.Int).Mul(nblocks, unit))
				x.Add(x, new(big.Int).Mul(unit, big.NewInt(kk)))
			default:
				x = c.pat128()
			}
			if x == nil || x.Sign() < 0 || x.Cmp(two128) >= 0 {
				continue
			}
			ip := bigToIP(x)
			res := s.exec(c, fmt.Sprintf("free %s %d 128", hx(ip), ones))
			if res == "ok" {
				// drop whichever outstanding block contains x
				for j, o := range outst {
					ob := new(big.Int).SetBytes(unhx(o))
					if x.Cmp(ob) >= 0 && x.Cmp(new(big.Int).Add(ob, unit)) < 0 {
						freed = append(freed, o)
						outst = append(outst[:j], outst[j+1:]...)
						break
					}
				}
			}
		}
	}
}

func (c *ctx) hintLen(page int) int {
	switch c.rng.Intn(6) {
	case 0:
		return 0
	case 1:
		return page
	case 2:
		if page < 128 {
			return page + 1 + c.rng.Intn(128-page)
		}
		return 128
	case 3:
		if page > 0 {
			return c.rng.Intn(page)
		}
		return 0
	default:
		return c.rng.Intn(129)
	}
}

func min64(a, b int64) int64 {
	if a < b {
		return a
	}
	return b
}

// ---- IPv4 generator ----

func u32ip(v uint32) net.IP { return net.IP{byte(v >> 24), byte(v >> 16), byte(v >> 8), byte(v)} }

// the whole IPv4 space: too large for the model's list bitset, judged by the Lean monitors alone
func (c *ctx) alloc4FullRange() {
	s := &allocState{}
	if s.exec(c, "new4 00000000 ffffffff") != "ok" {
		return
	}
	s.exec(c, "alloc - 32 32")
	s.exec(c, "alloc ffffffff 32 32")
	s.exec(c, "alloc 80000000 32 32")
	s.exec(c, "alloc - 32 32")
	s.exec(c, "free ffffffff 32 32")
	s.exec(c, "free ffffffff 32 32")
	s.exec(c, "alloc ffffffff 32 32")
	s.a = nil
}

func genAlloc4(c *ctx) {
	c.alloc4FullRange()
	sizes := []uint32{1, 2, 3, 63, 64, 65, 127, 128, 129, 200}
	for c.count < c.n {
		var start, end uint32
		size := sizes[c.rng.Intn(len(sizes))]
		if c.tier == "thorough" && c.rng.Intn(8) == 0 {
			size = []uint32{1 << 12, 1 << 16, 4095, 65537}[c.rng.Intn(4)]
		}
		switch c.rng.Intn(6) {
		case 0: // ends at 255.255.255.255
			end = ^uint32(0)
			start = end - (size - 1)
		case 1: // starts at 0.0.0.0
			start = 0
			end = size - 1
		default:
			start = uint32(c.rng.Int63n(int64(^uint32(0) - size)))
			end = start + size - 1
		}
		s := &allocState{}
		sip, eip := net.IP(u32ip(start)), net.IP(u32ip(end))
		r := c.rng.Intn(20)
		if r == 0 {
			sip, eip = eip, sip // empty unless size 1
		} else if r == 1 {
			sip = net.ParseIP("2001:db8::1")
		} else if r == 2 {
			sip, eip = sip.To16(), eip.To16()
		}
		if s.exec(c, fmt.Sprintf("new4 %s %s", hx(sip), hx(eip))) != "ok" {
			continue
		}
		if r == 0 {
			start, end, size = end, start, 1
		}
		var outst, freed []uint32
		pick := func() uint32 {
			switch c.rng.Intn(5) {
			case 0:
				return start
			case 1:
				return end
			case 2:
				return start + uint32(64*c.rng.Intn(3)+c.rng.Intn(3)-1)%size
			default:
				return start + uint32(c.rng.Int63n(int64(size)))
			}
		}
		form := func(v uint32) net.IP {
			if c.rng.Intn(3) == 0 {
				return u32ip(v).To16()
			}
			return u32ip(v)
		}
		steps := 10 + c.rng.Intn(3*int(min64(int64(size), 300)))
		allocBias := 5 + c.rng.Intn(5)
		for i := 0; i < steps && c.count < c.n; i++ {
			if c.rng.Intn(10) < allocBias {
				var ip net.IP
				switch c.rng.Intn(8) {
				case 0, 1, 2:
				case 3, 4:
					ip = form(pick())
				case 5:
					if len(freed) > 0 {
						ip = form(freed[c.rng.Intn(len(freed))])
					}
				case 6: // outside
					if c.rng.Intn(2) == 0 {
						ip = form(start - uint32(1+c.rng.Intn(3)))
					} else {
						ip = form(end + uint32(1+c.rng.Intn(3)))
					}
				default:
					ip = net.ParseIP("2001:db8::5")
				}
				res := s.exec(c, fmt.Sprintf("alloc %s 32 32", hx(ip)))
				if f := strings.Fields(res); len(f) == 4 && f[0] == "ok" {
					b := unhx(f[1])
					if len(b) == 4 {
						outst = append(outst, uint32(b[0])<<24|uint32(b[1])<<16|uint32(b[2])<<8|uint32(b[3]))
					}
				}
			} else {
				var ip net.IP
				switch c.rng.Intn(8) {
				case 0, 1, 2, 3:
					if len(outst) > 0 {
						ip = form(outst[c.rng.Intn(len(outst))])
					}
				case 4:
					if len(freed) > 0 {
						ip = form(freed[c.rng.Intn(len(freed))])
					}
				case 5:
					ip = form(pick())
				case 6:
					if c.rng.Intn(2) == 0 {
						ip = form(start - uint32(1+c.rng.Intn(70)))
					} else {
						ip = form(end + uint32(1+c.rng.Intn(70)))
					}
				default:
					ip = net.ParseIP("2001:db8::5")
				}
				if ip == nil {
					continue
				}
				res := s.exec(c, fmt.Sprintf("free %s 32 32", hx(ip)))
				if v4 := ip.To4(); res == "ok" && v4 != nil { // (a Free of an IPv6 address that "succeeds" is the driver's to judge)
					v := uint32(v4[0])<<24 | uint32(v4[1])<<16 | uint32(v4[2])<<8 | uint32(v4[3])
					for j, o := range outst {
						if o == v {
							outst = append(outst[:j], outst[j+1:]...)
							freed = append(freed, v)
							break
						}
					}
				}
			}
		}
	}
}
