// gen3.go — `harness gen -unit alloc4`: the IPv4 bitmap allocator, regenerated as Lean
// definitions (namespace CoreDhcp.GenA4, file CoreDhcp/Generated/Alloc4.lean) from the go/ast of
//
//	plugins/allocators/bitmap/bitmap_ipv4.go   toIP, toOffset, Allocate, Free, NewIPv4Allocator
//
// Props/GenAlloc4.lean proves every generated definition equal to the hand-written model
// (Model/Alloc4.lean over Model/Bits.lean).
//
// Like gen.go, the translator goes through the functions statement by statement, knows ONLY the
// constructs these five functions use, and fails loudly (source position, exit code 2) on
// everything else.
//
// Derived from the AST: the conditions (operators, operands, their order), the arithmetic, the
// order of the statements, which bitset method is called with which argument, which value is
// returned next to which error, the integer constants and the panic message.
//
// Fixed vocabulary (header of the generated file, and the tables below):
//   - the state: `*IPv4Allocator` ↦ the model's record `A4` (start ↦ start, end ↦ stop,
//     bitmap ↦ bm); the struct declaration is checked to have exactly these fields (and `l`).
//   - types: uint32 ↦ BitVec 32 (wrapping); uint ↦ Nat (uint is taken to be 64 bits wide; the only
//     uint arithmetic accepted is `x + literal`, and every uint here comes from a uint32, a bitset
//     index or a literal, so nothing wraps); a net.IP parameter or field ↦ Option (BitVec 32),
//     what `ip.To4()` read big-endian is (nil ↦ none); a net.IP built by make(net.IP, net.IPv4len)
//     ↦ BitVec 32 (its four bytes); net.IPNet ↦ IPNet (ip, mask); error ↦ Option Err;
//     *IPv4Allocator ↦ Option A4; multiple results ↦ a tuple.
//   - outcomes: a function body yields `.ret v` or `.panic msg` (type Out); Allocate and Free also
//     yield the new state: `(a, outcome)`.  A call that may panic (`a.toIP(..)`, `a.toOffset(..)`,
//     `binary.BigEndian.Uint32(x.To4())` on a nil slice) is hoisted in front of its statement as
//     a `match` that propagates the panic.
//   - bitset: a.bitmap.Test/Set/Clear(x) ↦ Bits.test/set/clear, NextClear(0) ↦ nextClear0
//     (Bits.nextClear as Go's (index, ok) pair), bitset.New(n) ↦ Bits.new n.
//   - the mutex: `a.l.Lock()` immediately followed by `defer a.l.Unlock()`, at the top level of
//     Allocate/Free, exactly once; it is translated to nothing, but every bitset access must come
//     after it and `a.l` must not be mentioned anywhere else.
//   - error values ↦ constructors of Err (table errIdents / errStrings).
//   - names: receiver ↦ a, parameters ↦ p1 p2 …, named results ↦ r1 r2 …, locals ↦ x1 x2 … in
//     the order of their declaration, hoisted values ↦ t1 t2 …  (Go names never reach the text:
//     renaming a variable regenerates the same file).
package main

import (
	"fmt"
	"go/ast"
	"go/parser"
	"go/token"
	"os"
	"strconv"
	"strings"
)

const alloc4Src = "/repo/plugins/allocators/bitmap/bitmap_ipv4.go"

type t3 int

const (
	uUntyped t3 = iota // untyped integer constant
	uU32               // uint32 ↦ BitVec 32
	uNat               // uint ↦ Nat
	uBool              // Lean Bool
	uProp              // decidable Prop
	uIPopt             // net.IP (parameter, field) ↦ Option (BitVec 32)
	uIP4               // net.IP built by make(net.IP, net.IPv4len) ↦ BitVec 32
	uNet               // net.IPNet ↦ IPNet
	uMask              // net.IPMask ↦ Option (Nat × Nat)
	uErr               // error ↦ Option Err
	uA4                // IPv4Allocator (value) ↦ A4
	uA4ptr             // *IPv4Allocator (result) ↦ Option A4
	uRecv              // the receiver ↦ A4
)

var t3Names = map[t3]string{uUntyped: "untyped constant", uU32: "uint32", uNat: "uint", uBool: "bool", uProp: "bool",
	uIPopt: "net.IP", uIP4: "4-byte net.IP", uNet: "net.IPNet", uMask: "net.IPMask", uErr: "error",
	uA4: "IPv4Allocator", uA4ptr: "*IPv4Allocator", uRecv: "receiver"}
var t3Lean = map[t3]string{uU32: "BitVec 32", uNat: "Nat", uBool: "Bool", uIPopt: "Option (BitVec 32)", uIP4: "BitVec 32",
	uNet: "IPNet", uMask: "Option (Nat × Nat)", uErr: "Option Err", uA4: "A4", uA4ptr: "Option A4", uRecv: "A4"}
var t3Zero = map[t3]string{uU32: "0#32", uNat: "0", uNet: "⟨none, none⟩", uErr: "none"}
var t3Param = map[string]t3{"uint32": uU32, "uint": uNat, "net.IP": uIPopt, "net.IPNet": uNet}
var t3Result = map[string]t3{"uint32": uU32, "uint": uNat, "net.IP": uIP4, "net.IPNet": uNet, "error": uErr, "*IPv4Allocator": uA4ptr}

// the state record: Go field ↦ field of A4
var a4Fields = map[string]string{"start": "start", "end": "stop"}
var a4Struct = [][2]string{{"start", "uint32"}, {"end", "uint32"}, {"bitmap", "*bitset.BitSet"}, {"l", "sync.Mutex"}}

// error values
var errIdents = map[string]string{"errInvalidIP": ".errInvalidIP", "errNotInRange": ".errNotInRange"} // package-level errors.New
var errSelectors = map[string]string{"allocators.ErrNoAddrAvail": ".errNoAddrAvail"}
var errStrings = map[string]string{
	"errors.New|no IPs in the given range to allocate":                         ".errNewEmpty",
	"fmt.Errorf|invalid IPv4 addresses given to create the allocator: [%s,%s]": ".errNewInvalid",
}

const idxPanic = "runtime error: index out of range [3] with length 0" // binary.BigEndian.Uint32(nil)

var reserved3 = map[string]bool{}

func init() {
	for _, w := range strings.Fields(`nil true false uint uint32 make panic len net binary bitset errors fmt allocators sync
		errInvalidIP errNotInRange IPv4Allocator NewIPv4Allocator`) {
		reserved3[w] = true
	}
}

type v3 struct {
	lean string
	t    t3
}

// env3: Go name ↦ variable, and the facts established along the path
// ("locked", "bitmap:<lean name>" = the bitmap field of that A4 value has been assigned).
type env3 struct {
	vars  map[string]v3
	facts map[string]bool
}

func (e env3) bind(name string, v v3) env3 {
	n := env3{vars: map[string]v3{name: v}, facts: e.facts}
	for k, x := range e.vars {
		if k != name {
			n.vars[k] = x
		}
	}
	return n
}

func (e env3) fact(f string) env3 {
	n := env3{vars: e.vars, facts: map[string]bool{f: true}}
	for k := range e.facts {
		n.facts[k] = true
	}
	return n
}

type ex3 struct {
	s   string
	t   t3
	p   int
	lit string
}

// pend3 is a hoisted partial sub-expression: `match scrut with | <panic> => … | <value name> => rest`.
type pend3 struct {
	out   bool // scrutinee is an Out (call of a generated function); else an Option (To4() == nil panics)
	scrut string
	name  string
}

type fspec3 struct {
	name     string
	method   bool // has the *IPv4Allocator receiver
	stateful bool // holds the mutex and may change the bitmap: yields (state, outcome)
}

var alloc4Funcs = []fspec3{{"toIP", true, false}, {"toOffset", true, false}, {"Allocate", true, true},
	{"Free", true, true}, {"NewIPv4Allocator", false, false}}

type sig3 struct {
	lean    string
	params  []t3
	results []t3
}

type a4gen struct {
	*gen
	errVars map[string]bool // package-level `x = errors.New("…")`
	sigs    map[string]sig3 // the pure methods translated so far, callable from the later ones
	// per function
	fn      fspec3
	recv    string
	results []t3
	named   []string // Go names of the named results
	names   map[token.Pos]string
	count   map[string]int
	pend    []pend3
}

func w3(e ex3, min int) string {
	if e.p < min {
		return "(" + e.s + ")"
	}
	return e.s
}

func (g *a4gen) fresh(pos token.Pos, prefix string) string {
	if n, ok := g.names[pos]; ok {
		return n
	}
	g.count[prefix]++
	n := prefix + strconv.Itoa(g.count[prefix])
	g.names[pos] = n
	return n
}

func isIdent(x ast.Expr, name string) bool {
	id, ok := x.(*ast.Ident)
	return ok && id.Name == name
}

// variable looks up an identifier that must be a variable.
func (g *a4gen) variable(x ast.Expr, e env3) (v3, bool) {
	id, ok := x.(*ast.Ident)
	if !ok {
		return v3{}, false
	}
	v, ok := e.vars[id.Name]
	return v, ok
}

// ---------------------------------------------------------------- expressions

func (g *a4gen) literal(n ast.Node, digits string, want t3) ex3 {
	switch want {
	case uU32:
		return ex3{s: digits + "#32", t: uU32, p: pAtom, lit: digits}
	case uNat, uUntyped:
		return ex3{s: digits, t: want, p: pAtom, lit: digits}
	}
	g.fail(n, "integer constant used as %s", t3Names[want])
	return ex3{}
}

func (g *a4gen) pair(n ast.Node, l, r ast.Expr, e env3) (ex3, ex3) {
	a, b := g.expr(l, e, uUntyped), g.expr(r, e, uUntyped)
	g.must(a.t != uUntyped || b.t != uUntyped, n, "constant expression (operation on two constants) unsupported")
	if a.t == uUntyped {
		a = g.expr(l, e, b.t)
	}
	if b.t == uUntyped {
		b = g.expr(r, e, a.t)
	}
	g.must(a.t == b.t, n, "mismatched operand types %s and %s", t3Names[a.t], t3Names[b.t])
	return a, b
}

func natOf(e ex3) string {
	if e.lit != "" {
		return e.lit
	}
	if e.t == uNat {
		return w3(e, pCmp+1)
	}
	return w3(e, pAtom) + ".toNat"
}

// to4 recognises `v.To4()` for a net.IP variable / field and returns its translation.
func (g *a4gen) to4(x ast.Expr, e env3) (string, bool) {
	c, ok := x.(*ast.CallExpr)
	if !ok || len(c.Args) != 0 {
		return "", false
	}
	sel, ok := c.Fun.(*ast.SelectorExpr)
	if !ok || sel.Sel.Name != "To4" {
		return "", false
	}
	v := g.expr(sel.X, e, uUntyped)
	g.must(v.t == uIPopt, x, "To4() of a %s", t3Names[v.t])
	return v.s, true
}

func (g *a4gen) expr(x ast.Expr, e env3, want t3) ex3 {
	switch x := x.(type) {
	case *ast.ParenExpr:
		return g.expr(x.X, e, want)
	case *ast.BasicLit:
		v, err := strconv.ParseUint(x.Value, 0, 32)
		g.must(x.Kind == token.INT && err == nil, x, "unsupported literal")
		return g.literal(x, strconv.FormatUint(v, 10), want)
	case *ast.Ident:
		v, ok := e.vars[x.Name]
		g.must(ok, x, "unknown identifier")
		g.must(v.t != uRecv, x, "the receiver may only be used through its fields and methods")
		return ex3{s: v.lean, t: v.t, p: pAtom}
	case *ast.SelectorExpr:
		if g.src(x) == "net.IPv4len" {
			return g.literal(x, "4", want)
		}
		v, ok := g.variable(x.X, e)
		g.must(ok, x, "unknown field access or selector")
		switch {
		case (v.t == uRecv || v.t == uA4) && a4Fields[x.Sel.Name] != "":
			return ex3{s: v.lean + "." + a4Fields[x.Sel.Name], t: uU32, p: pAtom}
		case v.t == uNet && x.Sel.Name == "IP":
			return ex3{s: v.lean + ".ip", t: uIPopt, p: pAtom}
		}
		g.fail(x, "unknown field access (field %s of a %s)", x.Sel.Name, t3Names[v.t])
	case *ast.UnaryExpr:
		g.must(x.Op == token.NOT, x, "unsupported unary operator %s", x.Op)
		c := g.expr(x.X, e, uUntyped)
		g.must(c.t == uBool || c.t == uProp, x, "! of a %s", t3Names[c.t])
		if c.t == uBool {
			return ex3{s: "!" + w3(c, pAtom), t: uBool, p: pApp}
		}
		return ex3{s: "¬ " + w3(c, pAtom), t: uProp, p: pApp}
	case *ast.BinaryExpr:
		return g.binary(x, e)
	case *ast.CallExpr:
		return g.call(x, e, want)
	case *ast.CompositeLit:
		return g.composite(x, e)
	}
	g.fail(x, "unsupported expression")
	return ex3{}
}

func (g *a4gen) binary(x *ast.BinaryExpr, e env3) ex3 {
	switch x.Op {
	case token.LAND, token.LOR:
		before := len(g.pend)
		a, b := g.expr(x.X, e, uUntyped), g.expr(x.Y, e, uUntyped)
		g.must(len(g.pend) == before, x, "an operand of %s that may panic is unsupported (it would be evaluated unconditionally)", x.Op)
		ok := func(t t3) bool { return t == uBool || t == uProp }
		g.must(ok(a.t) && ok(b.t), x, "operands of %s must be bool", x.Op)
		if a.t == uBool && b.t == uBool {
			op, p := "&&", pAnd
			if x.Op == token.LOR {
				op, p = "||", pOr
			}
			return ex3{s: w3(a, p+1) + " " + op + " " + w3(b, p+1), t: uBool, p: p}
		}
		prop := func(c ex3) ex3 {
			if c.t == uBool {
				return ex3{s: w3(c, pCmp+1) + " = true", t: uProp, p: pCmp}
			}
			return c
		}
		a, b = prop(a), prop(b)
		op, p := "∧", pAnd
		if x.Op == token.LOR {
			op, p = "∨", pOr
		}
		return ex3{s: w3(a, p+1) + " " + op + " " + w3(b, p+1), t: uProp, p: p}
	case token.EQL, token.NEQ, token.LSS, token.LEQ, token.GTR, token.GEQ:
		if isIdent(x.Y, "nil") {
			g.must(x.Op == token.EQL || x.Op == token.NEQ, x, "ordered comparison with nil")
			s, ok := g.to4(x.X, e)
			if !ok {
				v, isVar := g.variable(x.X, e)
				g.must(isVar && v.t == uErr, x, "unrecognised nil test (only `ip.To4()` and error variables)")
				s = v.lean
			}
			return ex3{s: s + " " + cmpOps[x.Op] + " none", t: uProp, p: pCmp}
		}
		a, b := g.pair(x, x.X, x.Y, e)
		g.must(a.t == uU32 || a.t == uNat, x, "comparison of %s unsupported", t3Names[a.t])
		if a.t == uU32 && (x.Op == token.EQL || x.Op == token.NEQ) {
			return ex3{s: w3(a, pCmp+1) + " " + cmpOps[x.Op] + " " + w3(b, pCmp+1), t: uProp, p: pCmp}
		}
		return ex3{s: natOf(a) + " " + cmpOps[x.Op] + " " + natOf(b), t: uProp, p: pCmp}
	case token.ADD, token.SUB:
		a, b := g.pair(x, x.X, x.Y, e)
		switch {
		case a.t == uU32: // wrapping, like Go
		case a.t == uNat && x.Op == token.ADD && (a.lit != "" || b.lit != ""): // see the header: cannot wrap at 2^64
		default:
			g.fail(x, "arithmetic %s on %s unsupported (only uint32 + and -, and uint + literal)", x.Op, t3Names[a.t])
		}
		return ex3{s: w3(a, pAdd) + " " + x.Op.String() + " " + w3(b, pAdd+1), t: a.t, p: pAdd}
	}
	g.fail(x, "unsupported binary operator %s", x.Op)
	return ex3{}
}

// method recognises `<recv>.<m>(…)` (field == "") and `<recv>.<field>.<m>(…)`.
func (g *a4gen) method(c *ast.CallExpr, e env3) (field, m string, ok bool) {
	sel, ok := c.Fun.(*ast.SelectorExpr)
	if !ok {
		return
	}
	if v, isVar := g.variable(sel.X, e); isVar && v.t == uRecv {
		return "", sel.Sel.Name, true
	}
	if in, isSel := sel.X.(*ast.SelectorExpr); isSel {
		if v, isVar := g.variable(in.X, e); isVar && v.t == uRecv {
			return in.Sel.Name, sel.Sel.Name, true
		}
	}
	return "", "", false
}

func (g *a4gen) args(c *ast.CallExpr, e env3, types ...t3) []string {
	g.must(len(c.Args) == len(types) && !c.Ellipsis.IsValid(), c, "expected %d arguments", len(types))
	var out []string
	for i, a := range c.Args {
		v := g.expr(a, e, types[i])
		g.must(v.t == types[i], a, "argument is a %s, want %s", t3Names[v.t], t3Names[types[i]])
		out = append(out, w3(v, pAtom))
	}
	return out
}

// bitmapCall checks a call of a bitset method on the receiver's bitmap and returns its arguments.
func (g *a4gen) bitmapCall(c *ast.CallExpr, e env3, types ...t3) []string {
	g.must(g.fn.stateful, c, "bitset access in a function that does not hold the mutex")
	g.must(e.facts["locked"], c, "bitset access before `%s.l.Lock()`", g.recv)
	return g.args(c, e, types...)
}

// callGenerated hoists the call of an already translated pure method: the result is the name the
// hoisted `match` binds.
func (g *a4gen) callGenerated(c *ast.CallExpr, m string, e env3) (string, sig3) {
	sig, ok := g.sigs[m]
	g.must(ok, c, "call of a method that is not (yet) translated")
	as := g.args(c, e, sig.params...)
	name := g.fresh(c.Pos(), "t")
	recv := e.vars[g.recv].lean
	g.pend = append(g.pend, pend3{out: true, scrut: strings.Join(append([]string{sig.lean, recv}, as...), " "), name: name})
	return name, sig
}

func (g *a4gen) call(c *ast.CallExpr, e env3, want t3) ex3 {
	if field, m, ok := g.method(c, e); ok {
		switch {
		case field == "bitmap" && m == "Test":
			return ex3{s: e.vars[g.recv].lean + ".bm.test " + g.bitmapCall(c, e, uNat)[0], t: uBool, p: pApp}
		case field == "bitmap" && (m == "Set" || m == "Clear"):
			g.fail(c, "%s changes the bitset: only supported as a statement", m)
		case field == "bitmap" && m == "NextClear":
			g.fail(c, "NextClear returns two values: only supported as `x, ok := %s.bitmap.NextClear(0)`", g.recv)
		case field == "" && g.sigs[m].lean != "":
			name, sig := g.callGenerated(c, m, e)
			g.must(len(sig.results) == 1, c, "%s returns %d values: only supported as `x, y := …`", m, len(sig.results))
			return ex3{s: name, t: sig.results[0], p: pAtom}
		}
		g.fail(c, "unknown method or field of the receiver")
	}
	switch fn := g.src(c.Fun); fn {
	case "uint", "uint32":
		g.must(len(c.Args) == 1 && !c.Ellipsis.IsValid(), c, "expected 1 argument")
		to := t3Param[fn]
		a := g.expr(c.Args[0], e, to)
		switch {
		case a.t == to:
			return a
		case a.t == uU32 && to == uNat:
			return ex3{s: w3(a, pAtom) + ".toNat", t: uNat, p: pAtom}
		case a.t == uNat && to == uU32: // truncation modulo 2^32
			return ex3{s: "BitVec.ofNat 32 " + w3(a, pAtom), t: uU32, p: pApp}
		}
		g.fail(c, "conversion from %s to %s unsupported", t3Names[a.t], fn)
	case "binary.BigEndian.Uint32":
		g.must(len(c.Args) == 1 && !c.Ellipsis.IsValid(), c, "expected 1 argument")
		s, ok := g.to4(c.Args[0], e)
		g.must(ok, c, "only binary.BigEndian.Uint32(<net.IP>.To4()) is supported")
		name := g.fresh(c.Pos(), "t")
		g.pend = append(g.pend, pend3{scrut: s, name: name})
		return ex3{s: name, t: uU32, p: pAtom}
	case "make":
		g.must(len(c.Args) == 2 && g.src(c.Args[0]) == "net.IP" && g.expr(c.Args[1], e, uUntyped).lit == "4", c,
			"only make(net.IP, net.IPv4len) is supported")
		return ex3{s: "0#32", t: uIP4, p: pAtom}
	case "net.CIDRMask":
		g.must(len(c.Args) == 2 && !c.Ellipsis.IsValid(), c, "expected 2 arguments")
		a, b := g.expr(c.Args[0], e, uUntyped), g.expr(c.Args[1], e, uUntyped)
		g.must(a.lit != "" && b.lit != "", c, "net.CIDRMask of something that is not a pair of literals")
		return ex3{s: "some (" + a.lit + ", " + b.lit + ")", t: uMask, p: pApp}
	case "bitset.New":
		return ex3{s: "Bits.new " + g.args(c, e, uNat)[0], t: uUntyped, p: pApp} // only as `x.bitmap = bitset.New(n)`
	}
	g.fail(c, "unknown call")
	return ex3{}
}

// composite translates `IPv4Allocator{start: e1, end: e2}`; the bitmap is the nil pointer (nilBits)
// until `x.bitmap = bitset.New(n)`.
func (g *a4gen) composite(x *ast.CompositeLit, e env3) ex3 {
	g.must(x.Type != nil && g.src(x.Type) == "IPv4Allocator", x, "unsupported composite literal")
	seen := map[string]bool{}
	var fields []string
	for _, el := range x.Elts {
		kv, ok := el.(*ast.KeyValueExpr)
		g.must(ok, el, "composite literal element without a key")
		k, ok := kv.Key.(*ast.Ident)
		g.must(ok && a4Fields[k.Name] != "" && !seen[k.Name], kv.Key, "unknown or repeated field in the literal")
		seen[k.Name] = true
		v := g.expr(kv.Value, e, uU32)
		g.must(v.t == uU32, kv.Value, "field %s assigned a %s", k.Name, t3Names[v.t])
		fields = append(fields, a4Fields[k.Name]+" := "+v.s)
	}
	g.must(len(seen) == len(a4Fields), x, "the literal must give start and end")
	return ex3{s: "{ " + strings.Join(fields, ", ") + ", bm := nilBits }", t: uA4, p: pAtom}
}

func (g *a4gen) stringLit(x ast.Expr) (string, bool) {
	l, ok := x.(*ast.BasicLit)
	if !ok || l.Kind != token.STRING {
		return "", false
	}
	s, err := strconv.Unquote(l.Value)
	if err != nil {
		return "", false
	}
	for _, r := range s {
		g.must(r >= ' ' && r < 127 && r != '\\' && r != '"', x, "string literal with a character outside plain ASCII")
	}
	return s, true
}

// errorValue translates an expression of type error.
func (g *a4gen) errorValue(x ast.Expr, e env3) string {
	if isIdent(x, "nil") {
		return "none"
	}
	if v, ok := g.variable(x, e); ok {
		g.must(v.t == uErr, x, "a %s used as an error", t3Names[v.t])
		return v.lean
	}
	if id, ok := x.(*ast.Ident); ok && errIdents[id.Name] != "" {
		g.must(g.errVars[id.Name], x, "error variable is not declared at package level with errors.New")
		return "some " + errIdents[id.Name]
	}
	if c := errSelectors[g.src(x)]; c != "" {
		if _, isSel := x.(*ast.SelectorExpr); isSel {
			return "some " + c
		}
	}
	if u, ok := x.(*ast.UnaryExpr); ok && u.Op == token.AND { // &allocators.ErrDoubleFree{Loc: n}
		cl, ok := u.X.(*ast.CompositeLit)
		g.must(ok && cl.Type != nil && g.src(cl.Type) == "allocators.ErrDoubleFree" && len(cl.Elts) == 1, x, "unknown error value")
		kv, ok := cl.Elts[0].(*ast.KeyValueExpr)
		g.must(ok && isIdent(kv.Key, "Loc"), x, "unknown error value")
		v := g.expr(kv.Value, e, uUntyped)
		g.must(v.t == uNet, kv.Value, "Loc is a %s, want net.IPNet", t3Names[v.t])
		return "some (.errDoubleFree " + w3(v, pAtom) + ")"
	}
	if c, ok := x.(*ast.CallExpr); ok && len(c.Args) >= 1 {
		if s, ok := g.stringLit(c.Args[0]); ok {
			ctor := errStrings[g.src(c.Fun)+"|"+s]
			g.must(ctor != "", x, "unknown error string (no Err constructor)")
			g.must(g.src(c.Fun) == "fmt.Errorf" || len(c.Args) == 1, x, "errors.New takes one argument")
			for _, a := range c.Args[1:] { // only shown in the message
				_, isVar := g.variable(a, e)
				g.must(isVar, a, "argument of the error message must be a plain variable")
			}
			return "some " + ctor
		}
	}
	g.fail(x, "unknown error value")
	return ""
}

// ----------------------------------------------------------------- statements

func (g *a4gen) panicOut(msg string, e env3) string {
	if g.fn.stateful {
		return "(" + e.vars[g.recv].lean + ", .panic " + msg + ")"
	}
	return ".panic " + msg
}

// flush wraps body in the `match`es of the partial sub-expressions of the statement just translated.
func (g *a4gen) flush(body string, e env3) string {
	for i := len(g.pend) - 1; i >= 0; i-- {
		p := g.pend[i]
		if p.out {
			body = "match " + p.scrut + " with\n| .panic m => " + g.panicOut("m", e) + "\n| .ret " + p.name + " =>\n" + indent(body)
		} else {
			body = "match " + p.scrut + " with\n| none => " + g.panicOut(strconv.Quote(idxPanic), e) + "\n| some " + p.name + " =>\n" + indent(body)
		}
	}
	g.pend = nil
	return body
}

func (g *a4gen) isMutexCall(x ast.Expr, e env3, m string) bool {
	c, ok := x.(*ast.CallExpr)
	if !ok || len(c.Args) != 0 {
		return false
	}
	field, name, ok := g.method(c, e)
	return ok && field == "l" && name == m
}

func (g *a4gen) isPanic(s ast.Stmt) (*ast.CallExpr, bool) {
	es, ok := s.(*ast.ExprStmt)
	if !ok {
		return nil, false
	}
	c, ok := es.X.(*ast.CallExpr)
	return c, ok && isIdent(c.Fun, "panic")
}

func (g *a4gen) block(list []ast.Stmt, e env3, depth int, k func(env3) string) string {
	if len(list) == 0 {
		return k(e)
	}
	_, isRet := list[0].(*ast.ReturnStmt)
	_, isPanic := g.isPanic(list[0])
	if (isRet || isPanic) && len(list) > 1 {
		g.fail(list[1], "unreachable statement")
	}
	if es, ok := list[0].(*ast.ExprStmt); ok && g.isMutexCall(es.X, e, "Lock") {
		g.must(g.fn.stateful && depth == 0 && !e.facts["locked"], es, "mutex taken in an unexpected place")
		d, ok := (ast.Stmt)(nil), false
		if len(list) > 1 {
			d, ok = list[1], true
		}
		df, isDefer := d.(*ast.DeferStmt)
		g.must(ok && isDefer && g.isMutexCall(df.Call, e, "Unlock"), es, "`%s.l.Lock()` must be immediately followed by `defer %s.l.Unlock()`", g.recv, g.recv)
		return g.block(list[2:], e.fact("locked"), depth, k)
	}
	return g.stmt(list[0], e, depth, func(e2 env3) string { return g.block(list[1:], e2, depth, k) })
}

// declare introduces a new local (`_` ↦ nothing).
func (g *a4gen) declare(id *ast.Ident, t t3, rhs string, e env3, out *[]string) env3 {
	if id.Name == "_" {
		return e
	}
	_, bound := e.vars[id.Name]
	g.must(!bound, id, "redeclaration or shadowing of a variable unsupported")
	g.must(!reserved3[id.Name], id, "variable name clashes with a name the translator gives a fixed meaning")
	g.must(t3Lean[t] != "" && t != uRecv, id, "a variable cannot hold a %s", t3Names[t])
	name := g.fresh(id.Pos(), "x")
	*out = append(*out, "let "+name+" : "+t3Lean[t]+" := "+rhs)
	return e.bind(id.Name, v3{name, t})
}

func (g *a4gen) assign(s *ast.AssignStmt, e env3) ([]string, env3) {
	var out []string
	define := s.Tok == token.DEFINE
	g.must(define || s.Tok == token.ASSIGN, s, "unsupported assignment operator %s", s.Tok)
	if len(s.Lhs) == 2 && len(s.Rhs) == 1 { // x, y := a.toOffset(ip) | a.bitmap.NextClear(0)
		g.must(define, s, "two-valued assignment must be a declaration (:=)")
		c, ok := s.Rhs[0].(*ast.CallExpr)
		g.must(ok, s.Rhs[0], "two-valued assignment from something that is not a call")
		field, m, ok := g.method(c, e)
		g.must(ok, c, "unknown two-valued call")
		var tmp string
		var types []t3
		switch {
		case field == "bitmap" && m == "NextClear":
			g.must(len(c.Args) == 1 && g.expr(c.Args[0], e, uUntyped).lit == "0", c, "only NextClear(0) is supported")
			g.bitmapCall(c, e, uNat)
			tmp, types = g.fresh(c.Pos(), "t"), []t3{uNat, uBool}
			out = append(out, "let "+tmp+" := nextClear0 "+e.vars[g.recv].lean+".bm")
		case field == "" && g.sigs[m].lean != "":
			var sig sig3
			tmp, sig = g.callGenerated(c, m, e)
			types = sig.results
			g.must(len(types) == 2, c, "%s returns %d values", m, len(types))
		default:
			g.fail(c, "unknown two-valued call")
		}
		for i, l := range s.Lhs {
			id, ok := l.(*ast.Ident)
			g.must(ok, l, "assignment target must be a plain variable")
			e = g.declare(id, types[i], tmp+"."+strconv.Itoa(i+1), e, &out)
		}
		return out, e
	}
	g.must(len(s.Lhs) == 1 && len(s.Rhs) == 1, s, "unsupported assignment shape")
	switch l := s.Lhs[0].(type) {
	case *ast.Ident:
		if define {
			v := g.expr(s.Rhs[0], e, uUntyped)
			g.must(v.t != uUntyped, s.Rhs[0], "untyped constant assigned to a new variable unsupported")
			return out, g.declare(l, v.t, v.s, e, &out)
		}
		old, ok := e.vars[l.Name]
		g.must(ok, l, "assignment to unknown variable")
		g.must(old.t == uNat || old.t == uU32, l, "assignment to a %s unsupported", t3Names[old.t])
		v := g.expr(s.Rhs[0], e, old.t)
		g.must(v.t == old.t, s, "variable of type %s assigned a %s", t3Names[old.t], t3Names[v.t])
		return append(out, "let "+old.lean+" := "+v.s), e
	case *ast.SelectorExpr: // n.Mask = …, n.IP = …, alloc.bitmap = bitset.New(…)
		g.must(!define, s, "field on the left of :=")
		v, ok := g.variable(l.X, e)
		g.must(ok, l, "assignment to a field of something that is not a variable")
		set := func(field, val string) []string {
			return append(out, "let "+v.lean+" := { "+v.lean+" with "+field+" := "+val+" }")
		}
		switch {
		case v.t == uNet && l.Sel.Name == "Mask":
			r := g.expr(s.Rhs[0], e, uUntyped)
			g.must(r.t == uMask, s, "Mask assigned a %s", t3Names[r.t])
			return set("mask", r.s), e
		case v.t == uNet && l.Sel.Name == "IP":
			r := g.expr(s.Rhs[0], e, uUntyped)
			g.must(r.t == uIP4 || r.t == uIPopt, s, "IP assigned a %s", t3Names[r.t])
			if r.t == uIP4 { // To4() of a 4-byte slice is the slice itself
				return set("ip", "some "+w3(r, pAtom)), e
			}
			return set("ip", r.s), e
		case v.t == uA4 && l.Sel.Name == "bitmap":
			c, ok := s.Rhs[0].(*ast.CallExpr)
			g.must(ok && g.src(c.Fun) == "bitset.New", s, "bitmap assigned something that is not bitset.New(n)")
			return set("bm", g.call(c, e, uUntyped).s), e.fact("bitmap:" + v.lean)
		}
		g.fail(l, "assignment to an unknown field (field %s of a %s)", l.Sel.Name, t3Names[v.t])
	}
	g.fail(s.Lhs[0], "unsupported assignment target")
	return nil, e
}

func (g *a4gen) returnStmt(s *ast.ReturnStmt, e env3) string {
	var vals []ex3
	if len(s.Results) == 0 {
		g.must(len(g.named) == len(g.results) && len(g.named) > 0, s, "bare return in a function without named results")
		for _, n := range g.named {
			vals = append(vals, ex3{s: e.vars[n].lean, p: pAtom})
		}
	} else {
		g.must(len(s.Results) == len(g.results), s, "return must have %d results", len(g.results))
		for i, r := range s.Results {
			switch want := g.results[i]; want {
			case uErr:
				v := g.errorValue(r, e)
				vals = append(vals, ex3{s: v, p: map[bool]int{true: pAtom, false: pApp}[v == "none" || !strings.Contains(v, " ")]})
			case uA4ptr:
				if isIdent(r, "nil") {
					vals = append(vals, ex3{s: "none", p: pAtom})
					break
				}
				u, ok := r.(*ast.UnaryExpr)
				g.must(ok && u.Op == token.AND, r, "expected nil or &<allocator variable>")
				v, ok := g.variable(u.X, e)
				g.must(ok && v.t == uA4, r, "expected nil or &<allocator variable>")
				g.must(e.facts["bitmap:"+v.lean], r, "allocator returned with a nil bitmap")
				vals = append(vals, ex3{s: "some " + v.lean, p: pApp})
			default:
				v := g.expr(r, e, want)
				g.must(v.t == want, r, "returned value is a %s, want %s", t3Names[v.t], t3Names[want])
				vals = append(vals, v)
			}
		}
	}
	v := w3(vals[0], pAtom)
	if len(vals) > 1 {
		var ss []string
		for _, x := range vals {
			ss = append(ss, x.s)
		}
		v = "(" + strings.Join(ss, ", ") + ")"
	}
	if g.fn.stateful {
		return "(" + e.vars[g.recv].lean + ", .ret " + v + ")"
	}
	return ".ret " + v
}

func (g *a4gen) stmt(s ast.Stmt, e env3, depth int, k func(env3) string) string {
	g.must(len(g.pend) == 0, s, "internal: pending sub-expressions at a statement boundary")
	// the partial sub-expressions of this statement are set aside while what follows is translated
	lets := func(out []string, e2 env3) string {
		pend := g.pend
		g.pend = nil
		body := strings.Join(append(out, k(e2)), "\n")
		g.pend = pend
		return g.flush(body, e)
	}
	switch s := s.(type) {
	case *ast.IfStmt:
		g.must(s.Init == nil, s, "if with init statement unsupported")
		c := g.expr(s.Cond, e, uUntyped)
		g.must(c.t == uBool || c.t == uProp, s.Cond, "condition is not a bool")
		g.must(len(g.pend) == 0, s.Cond, "a condition that may panic is unsupported")
		// what follows the `if` sees the variables of the enclosing block and the facts of the path
		rest := func(e2 env3) string { return k(env3{vars: e.vars, facts: e2.facts}) }
		var els string
		switch b := s.Else.(type) {
		case nil:
			els = k(e)
		case *ast.BlockStmt:
			els = g.block(b.List, e, depth+1, rest)
		case *ast.IfStmt:
			els = g.stmt(b, e, depth+1, rest)
		default:
			g.fail(s.Else, "unsupported else")
		}
		return "if " + c.s + " then\n" + indent(g.block(s.Body.List, e, depth+1, rest)) + "\nelse\n" + indent(els)
	case *ast.ReturnStmt:
		return g.flush(g.returnStmt(s, e), e)
	case *ast.AssignStmt:
		return lets(g.assign(s, e))
	case *ast.DeclStmt: // var x uint
		d, ok := s.Decl.(*ast.GenDecl)
		g.must(ok && d.Tok == token.VAR && len(d.Specs) == 1, s, "unsupported declaration")
		v := d.Specs[0].(*ast.ValueSpec)
		g.must(len(v.Values) == 0 && v.Type != nil, s, "only `var x T` is supported")
		t := t3Param[g.src(v.Type)]
		g.must(t == uNat || t == uU32, v.Type, "only variables of type uint and uint32 can be declared")
		var out []string
		for _, n := range v.Names {
			e = g.declare(n, t, t3Zero[t], e, &out)
		}
		return lets(out, e)
	case *ast.ExprStmt:
		c, ok := s.X.(*ast.CallExpr)
		g.must(ok, s, "unsupported expression statement")
		if _, isPanic := g.isPanic(s); isPanic {
			g.must(len(c.Args) == 1, c, "expected 1 argument")
			msg, ok := g.stringLit(c.Args[0])
			g.must(ok, c, "panic of something that is not a string literal")
			return g.panicOut(strconv.Quote(msg), e)
		}
		if field, m, ok := g.method(c, e); ok && field == "bitmap" && (m == "Set" || m == "Clear") {
			a := e.vars[g.recv].lean
			arg := g.bitmapCall(c, e, uNat)[0]
			return lets([]string{"let " + a + " := { " + a + " with bm := " + a + ".bm." + strings.ToLower(m) + " " + arg + " }"}, e)
		}
		if g.src(c.Fun) == "binary.BigEndian.PutUint32" { // overwrites the four bytes
			g.must(len(c.Args) == 2 && !c.Ellipsis.IsValid(), c, "expected 2 arguments")
			v, ok := g.variable(c.Args[0], e)
			g.must(ok && v.t == uIP4, c.Args[0], "PutUint32 into something that is not a 4-byte net.IP variable")
			val := g.expr(c.Args[1], e, uU32)
			g.must(val.t == uU32, c.Args[1], "PutUint32 of a %s", t3Names[val.t])
			return lets([]string{"let " + v.lean + " := " + val.s}, e)
		}
		g.fail(s, "unsupported expression statement")
	}
	g.fail(s, "unsupported statement")
	return ""
}

// ------------------------------------------------------------------ functions

func (g *a4gen) function(f *ast.FuncDecl, spec fspec3) string {
	g.fn, g.recv, g.named, g.results = spec, "", nil, nil
	g.names, g.count, g.pend = map[token.Pos]string{}, map[string]int{}, nil
	g.must(f.Type.TypeParams == nil && f.Body != nil, f.Name, "unsupported function form")
	e := env3{vars: map[string]v3{}, facts: map[string]bool{}}
	lean := strings.ToLower(f.Name.Name[:1]) + f.Name.Name[1:]
	sig := "def " + lean
	if spec.method {
		g.must(f.Recv != nil && len(f.Recv.List) == 1 && len(f.Recv.List[0].Names) == 1 && g.src(f.Recv.List[0].Type) == "*IPv4Allocator",
			f.Name, "expected the receiver (x *IPv4Allocator)")
		g.recv = f.Recv.List[0].Names[0].Name
		g.must(!reserved3[g.recv] && g.recv != "_", f.Recv.List[0].Names[0], "receiver name clashes with a name the translator gives a fixed meaning")
		e = e.bind(g.recv, v3{"a", uRecv})
		sig += " (a : A4)"
	} else {
		g.must(f.Recv == nil, f.Name, "unexpected receiver")
	}
	var sg sig3
	for _, p := range f.Type.Params.List {
		t, ok := t3Param[g.src(p.Type)]
		g.must(ok, p.Type, "unsupported parameter type")
		g.must(len(p.Names) > 0, p, "unnamed parameter")
		for _, n := range p.Names {
			_, bound := e.vars[n.Name]
			g.must(!reserved3[n.Name] && !bound && n.Name != "_", n, "parameter name clashes with another name")
			name := g.fresh(n.Pos(), "p")
			e = e.bind(n.Name, v3{name, t})
			sig += " (" + name + " : " + t3Lean[t] + ")"
			sg.params = append(sg.params, t)
		}
	}
	var zero []string
	res := f.Type.Results
	g.must(res != nil && len(res.List) > 0, f.Type, "function without a result")
	for _, r := range res.List {
		t, ok := t3Result[g.src(r.Type)]
		g.must(ok, r.Type, "unsupported result type")
		if len(r.Names) == 0 {
			g.results = append(g.results, t)
		}
		for _, n := range r.Names {
			_, bound := e.vars[n.Name]
			g.must(!reserved3[n.Name] && !bound && n.Name != "_", n, "result name clashes with another name")
			g.must(t3Zero[t] != "", n, "a named result cannot be a %s", t3Names[t])
			name := g.fresh(n.Pos(), "r")
			e = e.bind(n.Name, v3{name, t})
			zero = append(zero, "let "+name+" : "+t3Lean[t]+" := "+t3Zero[t])
			g.results = append(g.results, t)
			g.named = append(g.named, n.Name)
		}
	}
	g.must(len(g.named) == 0 || len(g.named) == len(g.results), f.Type, "mixed named and unnamed results")
	g.must(len(g.results) <= 2, f.Type, "more than two results")
	var rt []string
	for _, t := range g.results {
		rt = append(rt, t3Lean[t])
	}
	out := "Out (" + strings.Join(rt, " × ") + ")"
	if spec.stateful {
		out = "A4 × " + out
	}
	sig += " : " + out + " :="
	// the mutex: Lock + deferred Unlock exactly once in Allocate/Free, never mentioned elsewhere
	mentions := 0
	ast.Inspect(f.Body, func(n ast.Node) bool {
		if sel, ok := n.(*ast.SelectorExpr); ok && sel.Sel.Name == "l" && g.recv != "" && isIdent(sel.X, g.recv) {
			mentions++
		}
		return true
	})
	want := map[bool]int{true: 2, false: 0}[spec.stateful]
	g.must(mentions == want, f.Name, "the mutex is mentioned %d times, want %d (one Lock, one deferred Unlock)", mentions, want)
	body := g.block(f.Body.List, e, 0, func(env3) string {
		g.fail(f.Name, "control reaches the end of the function without a return")
		return ""
	})
	body = strings.Join(append(zero, body), "\n")
	sg.lean, sg.results = lean, g.results
	if spec.method && !spec.stateful {
		g.sigs[f.Name.Name] = sg
	}
	return fmt.Sprintf("/-- `%s` (bitmap_ipv4.go), translated from its go/ast. -/\n%s\n%s\n\n", f.Name.Name, sig, indent(body))
}

// checkDecls checks the package-level declarations the fixed vocabulary relies on: the fields of
// IPv4Allocator and the error variables.
func (g *a4gen) checkDecls(file *ast.File, die func(...interface{})) {
	foundStruct := false
	for _, d := range file.Decls {
		gd, ok := d.(*ast.GenDecl)
		if !ok {
			continue
		}
		for _, sp := range gd.Specs {
			switch sp := sp.(type) {
			case *ast.TypeSpec:
				if sp.Name.Name != "IPv4Allocator" {
					continue
				}
				st, ok := sp.Type.(*ast.StructType)
				g.must(ok, sp, "IPv4Allocator is not a struct")
				var fields [][2]string
				for _, f := range st.Fields.List {
					g.must(len(f.Names) > 0, f, "embedded field in IPv4Allocator")
					for _, n := range f.Names {
						fields = append(fields, [2]string{n.Name, g.src(f.Type)})
					}
				}
				g.must(fmt.Sprint(fields) == fmt.Sprint(a4Struct), sp, "the fields of IPv4Allocator are not %v", a4Struct)
				foundStruct = true
			case *ast.ValueSpec:
				for i, n := range sp.Names {
					if errIdents[n.Name] == "" {
						continue
					}
					g.must(gd.Tok == token.VAR && len(sp.Values) == len(sp.Names), sp, "unexpected declaration of %s", n.Name)
					c, ok := sp.Values[i].(*ast.CallExpr)
					g.must(ok && g.src(c.Fun) == "errors.New" && len(c.Args) == 1, sp, "%s is not an errors.New(…)", n.Name)
					g.errVars[n.Name] = true
				}
			}
		}
	}
	if !foundStruct {
		die("type IPv4Allocator not found")
	}
}

const gen3Header = `-- GENERATED by harness gen -unit alloc4 from plugins/allocators/bitmap/bitmap_ipv4.go — do not edit
-- Regenerated from the Go source on every run; Props/GenAlloc4.lean proves these definitions
-- equal to the hand-written model in Model/Alloc4.lean.
import CoreDhcp.Model.Alloc4
set_option linter.unusedVariables false
namespace CoreDhcp.GenA4

/-! Fixed vocabulary (not derived from the source).  The state ` + "`*IPv4Allocator`" + ` is the model's record
` + "`A4`" + ` (start, stop = ` + "`end`" + `, bm = ` + "`bitmap`" + `); uint32 is ` + "`BitVec 32`" + `, uint is ` + "`Nat`" + `; a net.IP parameter or
field is ` + "`Option (BitVec 32)`" + `: what ` + "`ip.To4()`" + ` read big-endian is (nil ↦ none). -/

/-- a ` + "`net.IPNet`" + `: ` + "`IP.To4()`" + ` and the arguments of the ` + "`net.CIDRMask`" + ` call that made ` + "`Mask`" + ` (nil ↦ none) -/
structure IPNet where
  ip : Option (BitVec 32)
  mask : Option (Nat × Nat)
deriving DecidableEq, Repr

/-- the error values of the file -/
inductive Err
  | errInvalidIP                -- errInvalidIP
  | errNotInRange               -- errNotInRange
  | errNoAddrAvail              -- allocators.ErrNoAddrAvail
  | errDoubleFree (loc : IPNet) -- &allocators.ErrDoubleFree{Loc: loc}
  | errNewInvalid               -- fmt.Errorf("invalid IPv4 addresses given to create the allocator: [%s,%s]", …)
  | errNewEmpty                 -- errors.New("no IPs in the given range to allocate")
deriving DecidableEq, Repr

/-- how a call ends: it returns its results, or it panics -/
inductive Out (α : Type) where
  | ret (v : α)
  | panic (msg : String)
deriving DecidableEq, Repr

/-- the nil ` + "`*bitset.BitSet`" + ` of a composite literal that does not give ` + "`bitmap`" + `; the translator checks that
` + "`bitset.New`" + ` is assigned to the field before the value is returned -/
def nilBits : Bits := ⟨[]⟩

/-- ` + "`NextClear(0)`" + ` as Go returns it: (index, true) or (0, false) -/
def nextClear0 (b : Bits) : Nat × Bool :=
  match b.nextClear with
  | some i => (i, true)
  | none => (0, false)

`

func runGen3(srcPath, outPath string) {
	die := func(a ...interface{}) {
		fmt.Fprintln(os.Stderr, append([]interface{}{"gen:"}, a...)...)
		os.Exit(2)
	}
	if srcPath == "" {
		srcPath = alloc4Src
	}
	g := &a4gen{gen: &gen{fset: token.NewFileSet()}, errVars: map[string]bool{}, sigs: map[string]sig3{}}
	file, err := parser.ParseFile(g.fset, srcPath, nil, parser.SkipObjectResolution)
	if err != nil {
		die("parse:", err)
	}
	g.checkDecls(file, die)
	funcs := map[string]*ast.FuncDecl{}
	for _, d := range file.Decls {
		if f, ok := d.(*ast.FuncDecl); ok {
			if funcs[f.Name.Name] != nil {
				die(srcPath+": function", f.Name.Name, "declared twice")
			}
			funcs[f.Name.Name] = f
		}
	}
	out := gen3Header
	for _, spec := range alloc4Funcs {
		if funcs[spec.name] == nil {
			die(srcPath+": function", spec.name, "not found")
		}
		out += g.function(funcs[spec.name], spec)
	}
	out += "end CoreDhcp.GenA4\n"
	if err := os.WriteFile(outPath, []byte(out), 0o644); err != nil {
		die(err)
	}
	fmt.Printf("gen: wrote %s (%d bytes) from %s\n", outPath, len(out), srcPath)
}
