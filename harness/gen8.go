// gen8.go — `harness gen -unit range4`: the DHCPv4 dynamic-lease handler of the range plugin,
// regenerated as Lean definitions (namespace CoreDhcp.GenRange, file CoreDhcp/Generated/Range4.lean)
// from the go/ast of
//
//	plugins/range/plugin.go   (*PluginState).Handler4                      ↦ GenRange.handler4
//	plugins/range/plugin.go   setupRange: `for _, v := range p.Recordsv4`  ↦ GenRange.remarkBody, remarkLoop
//
// Props/GenRange4.lean proves them equal to the hand-written model (Model/Range.lean:
// `RState.handle` at `choice := s.alloc.firstFit`, and `remark`).
// `-src plugin.go[,storage.go]` reads the sources from other files (negative tests).
//
// Like the other units the translator goes through the function statement by statement, knows ONLY
// the constructs these two pieces of code use, and fails loudly (source position, exit code 2) on
// everything else.
//
// DERIVED FROM THE AST
//   - the control flow: `if` / `else`, early `return`; the statements after an `if` are the
//     continuation of every branch that falls through (so they appear once per path)
//   - the conditions: `!`, `ok`, `err != nil`, `a.Before(b)`, comparisons; which branch is which
//   - the order of the effects (allocate, record, save, map store; field write, save)
//   - WHICH of Add / Unix / Round / time.Unix / int conversions is applied WHERE in every time
//     expression (first lease: no Round; renewal: Round; option 51: Round of the lease time)
//   - which record the map store, the save and the reply take their values from (pointers are
//     followed: `record = &rec`, writes through `record`)
//   - the hint of the Allocate call (`net.IPNet{}` ↦ none, `net.IPNet{IP: e}` ↦ some e)
//   - the returned pair; what the reply carries (yiaddr, option 51) from the assignments to `resp`
//
// FIXED VOCABULARY (the meaning of a recognised Go expression in the model)
//
//	Go                                              Lean
//	----------------------------------------------  ------------------------------------------------------
//	receiver p (*PluginState)                       s : RState  (allocator ↦ alloc, Recordsv4 ↦ recs,
//	                                                leasedb ↦ db, LeaseTime ↦ lease); every effect is
//	                                                `let s := { s with … }`; the struct declarations of
//	                                                PluginState and Record are checked field by field
//	req.ClientHWAddr, req.ClientHWAddr.String()     mac   (String() is injective: keyed by the bytes)
//	x, ok := p.Recordsv4[key]                       let xK : Option Rec := lookupRec s.recs mac; ok ↦ xK.isSome;
//	                                                x is a pointer to the map's entry: its first dereference
//	                                                on a path is `match xK with | none => (s, .panic) | some rK`
//	                                                (a nil dereference panics); map values are never nil
//	p.Recordsv4[key] = &rec                         let s := { s with recs := recsPut s.recs mac r }
//	ptr.expires = e, ptr into the map               let r := { r with expires := e }
//	                                                let s := { s with recs := recsPut s.recs mac r }
//	ptr.hostname = hostname, hostname: hostname,    nothing (the hostname is not observable in the model); only
//	hostname := req.HostName()                      these three forms move it
//	Record{IP: a, expires: e, hostname: h}          let rK : Rec := { ip := a, expires := e }
//	p.allocator.Allocate(net.IPNet{…})              let tK := allocFF s.alloc hint   (the IPv4 allocator MODEL
//	                                                A4.allocate at choice firstFit; its tie to the source is
//	                                                unit alloc4); let s := { s with alloc := tK.1 };
//	                                                match goAlloc tK.2: a panic propagates, else (ip, err);
//	                                                `ip` may be used only where `err == nil` is established
//	ip.IP, ip.IP.To4()                              the allocated address (BitVec 32)
//	a.String() != b.String(), a b net.IP            a ≠ b
//	time.Now()                                      now  (one reading of the clock per call)
//	t.Add(d)                                        t + d
//	t.Unix()                                        unixFloor t
//	t.Round(time.Second), d.Round(time.Second)      roundSec t  (= unixRound t * nsPerSec)
//	time.Unix(x, 0)                                 x * nsPerSec
//	a.Before(b) / a.After(b)                        a < b / a > b     (ns)
//	int(x), int64(x), x a number of seconds         x    (64-bit; no wrap)
//	p.saveIPAddress(req.ClientHWAddr, ptr)          let s := { s with db := dbSave s.db ⟨mac, r.ip, r.expires⟩ }
//	                                                (storage.go is checked: insert or replace into leases4 of
//	                                                mac.String(), IP.String(), expires, hostname; primary key
//	                                                (mac, ip)).  The save is taken to SUCCEED: its error may only
//	                                                be tested as `if err != nil { log… }`, translated to nothing
//	resp.YourIPAddr = a                             let yK : BitVec 32 := a
//	resp.Options.Update(dhcpv4.OptIPAddressLeaseTime(d))   let oK : Nat := secs32 d   (code 51 and wire type Duration
//	                                                are read from the library source)
//	return nil, true / return resp, false           (s, .drop) / (s, .reply yK oK); other pairs have no RReply
//	verifSeen(p), first statement only              nothing (verification hook, no-op in normal builds)
//	p.Lock(); defer p.Unlock()                      nothing; checked: the first statements after the hook, each
//	                                                mentioned exactly once, no other use of the mutex
//	log.<Level>(…)                                  nothing — only the package's logger, plain levels, arguments free
//	                                                of side effects (literals, variables, fields, x.String())
//	for _, v := range p.Recordsv4 { body }          remarkLoop: fold of remarkBody over the records in the order
//	                                                visited (a parameter); `return nil, <error>` ↦ .fail
//
// Go names never reach the generated text: renaming a local, reformatting or moving a log statement
// regenerates the same file.
package main

import (
	"fmt"
	"go/ast"
	"go/parser"
	"go/token"
	"os"
	"path/filepath"
	"strconv"
	"strings"
)

const range4Src = "/repo/plugins/range/plugin.go"
const range4Storage = "/repo/plugins/range/storage.go"

type r8kind int

const (
	rkNone     r8kind = iota
	rkTime            // time.Time ↦ Int (ns)
	rkDur             // time.Duration ↦ Int (ns)
	rkInt             // int / int64 ↦ Int
	rkBool            // Lean Bool
	rkKey             // req.ClientHWAddr.String() ↦ mac
	rkMac             // req.ClientHWAddr ↦ mac
	rkHost            // the hostname: opaque
	rkIPNet           // the net.IPNet Allocate returned
	rkIP              // net.IP ↦ BitVec 32
	rkRecPtr          // *Record
	rkRecVal          // Record (a local struct)
	rkErrAlloc        // the error Allocate returned ↦ Bool (err != nil)
	rkErrSave         // the error saveIPAddress returned: opaque
)

var r8names = map[r8kind]string{rkTime: "time.Time", rkDur: "time.Duration", rkInt: "int", rkBool: "bool", rkKey: "map key",
	rkMac: "net.HardwareAddr", rkHost: "hostname", rkIPNet: "net.IPNet", rkIP: "net.IP", rkRecPtr: "*Record", rkRecVal: "Record",
	rkErrAlloc: "error of Allocate", rkErrSave: "error of saveIPAddress"}
var r8lean = map[r8kind]string{rkTime: "Int", rkDur: "Int", rkInt: "Int", rkBool: "Bool", rkIP: "BitVec 32"}

const r8Mul = 70

type r8val struct {
	k     r8kind
	s     string // Lean text
	p     int    // Lean precedence
	cell  int    // rkRecPtr / rkRecVal: the record it designates
	opt   string // rkRecPtr from a look-up: the Lean name of the Option Rec
	guard string // rkIPNet / rkIP next to an error: the Lean Bool that must be known false
}

type r8cell struct {
	lean string // Lean name of the current value
	key  string // Lean text of the map key it is stored under ("" = not in the map)
}

// r8st: the symbolic state along one path
type r8st struct {
	vars    map[string]r8val
	cells   map[int]r8cell
	facts   map[string]bool // "false:<bool>", "nonnil:<cell>"
	yi, o51 string          // what the response carries
}

func (st *r8st) clone() *r8st {
	n := &r8st{vars: map[string]r8val{}, cells: map[int]r8cell{}, facts: map[string]bool{}, yi: st.yi, o51: st.o51}
	for k, v := range st.vars {
		n.vars[k] = v
	}
	for k, v := range st.cells {
		n.cells[k] = v
	}
	for k, v := range st.facts {
		n.facts[k] = v
	}
	return n
}

// leave: back in the enclosing block — its variables (with their new values), the path's state
func (st *r8st) leave(outer map[string]r8val) *r8st {
	n := st.clone()
	n.vars = map[string]r8val{}
	for k := range outer {
		n.vars[k] = st.vars[k]
	}
	return n
}

type r8pend struct{ scrut, name string }

type r8gen struct {
	*gen
	imports   map[string]string
	pkgNames  map[string]bool // package-level names of the file (vars, funcs, types)
	logVar    *ast.ValueSpec
	loop      bool   // translating the loop body of setupRange (state `a : A4`), else Handler4 (state `s : RState`)
	recv      string // Go name of the *PluginState receiver / the PluginState variable of setupRange
	req, resp string
	names     map[string]string
	count     map[string]int
	pend      []r8pend
	ncell     int
}

var r8pkgs = map[string]string{"time": "time", "net": "net", "fmt": "fmt", "errors": "errors",
	"dhcpv4": "github.com/insomniacslk/dhcp/dhcpv4", "logger": "github.com/coredhcp/coredhcp/logger"}

var r8builtins = set("nil", "true", "false", "len", "make", "copy", "append", "new", "int", "int64", "uint32", "string", "panic", "_")

func (g *r8gen) sv() string {
	if g.loop {
		return "a"
	}
	return "s"
}

func (g *r8gen) allocGet() string {
	if g.loop {
		return "a"
	}
	return "s.alloc"
}

func (g *r8gen) fresh(pos token.Pos, prefix string) string {
	key := prefix + "|" + strconv.Itoa(int(pos))
	if n, ok := g.names[key]; ok {
		return n
	}
	g.count[prefix]++
	n := prefix + strconv.Itoa(g.count[prefix])
	g.names[key] = n
	return n
}

func r8w(v r8val, min int) string {
	if v.p < min {
		return "(" + v.s + ")"
	}
	return v.s
}

func (g *r8gen) unparen(x ast.Expr) ast.Expr {
	for {
		p, ok := x.(*ast.ParenExpr)
		if !ok {
			return x
		}
		x = p.X
	}
}

// pkgSel: x is `pkg.Name`, pkg an imported package of the vocabulary (not shadowed: no local may take such a name).
func (g *r8gen) pkgSel(x ast.Expr, pkg string) (string, bool) {
	s, ok := g.unparen(x).(*ast.SelectorExpr)
	if !ok || !isIdent(s.X, pkg) {
		return "", false
	}
	g.must(g.imports[pkg] == r8pkgs[pkg], x, "`%s` is not the package %s here", pkg, r8pkgs[pkg])
	return s.Sel.Name, true
}

// method: x is the call `recv.Name(args)`.
func (g *r8gen) method(x ast.Expr) (recv ast.Expr, name string, call *ast.CallExpr, ok bool) {
	c, ok := g.unparen(x).(*ast.CallExpr)
	if !ok {
		return nil, "", nil, false
	}
	s, ok := c.Fun.(*ast.SelectorExpr)
	if !ok || c.Ellipsis.IsValid() {
		return nil, "", nil, false
	}
	return s.X, s.Sel.Name, c, true
}

// field: x is `<name>.<Field>` with <name> the given Go identifier.
func (g *r8gen) field(x ast.Expr, name string) (string, bool) {
	s, ok := g.unparen(x).(*ast.SelectorExpr)
	if !ok || name == "" || !isIdent(s.X, name) {
		return "", false
	}
	return s.Sel.Name, true
}

func (g *r8gen) freshName(id *ast.Ident, st *r8st) {
	_, isPkg := g.imports[id.Name]
	_, isLocal := st.vars[id.Name]
	g.must(!isPkg && !isLocal && !g.pkgNames[id.Name] && !r8builtins[id.Name] && r8pkgs[id.Name] == "" &&
		id.Name != g.recv && id.Name != g.req && id.Name != g.resp, id,
		"variable name clashes with a name that already has a meaning (package, package-level name, local, builtin); shadowing is unsupported")
}

// deref: the Lean name of the record a pointer designates; its first dereference on a path is a `match`.
func (g *r8gen) deref(v r8val, st *r8st, at ast.Node) string {
	g.must((v.k == rkRecPtr || v.k == rkRecVal) && v.cell != 0, at, "not a record")
	c := st.cells[v.cell]
	f := "nonnil:" + strconv.Itoa(v.cell)
	if !st.facts[f] {
		g.must(v.opt != "", at, "dereference of a pointer that is not known to be non-nil")
		g.pend = append(g.pend, r8pend{v.opt, c.lean})
		st.facts[f] = true
	}
	return c.lean
}

// useIP: an address may be used only where the error next to it is known to be nil.
func (g *r8gen) useIP(v r8val, st *r8st, at ast.Node) r8val {
	g.must(v.k == rkIP, at, "a %s where an address (net.IP) is needed", r8names[v.k])
	if v.guard != "" {
		g.must(st.facts["false:"+v.guard], at, "use of the address Allocate returned is not dominated by a test that its error is nil")
	}
	return v
}

// ---------------------------------------------------------------- expressions

func (g *r8gen) isTimeSecond(x ast.Expr) bool {
	n, ok := g.pkgSel(x, "time")
	return ok && n == "Second"
}

// key: the map key / hardware address ↦ mac
func (g *r8gen) key(x ast.Expr, st *r8st, want r8kind) string {
	v := g.expr(x, st)
	g.must(v.k == want, x, "a %s where the %s of the request is needed", r8names[v.k], r8names[want])
	return v.s
}

func (g *r8gen) expr(x ast.Expr, st *r8st) r8val {
	x = g.unparen(x)
	switch x := x.(type) {
	case *ast.Ident:
		v, ok := st.vars[x.Name]
		g.must(ok, x, "unknown identifier")
		return v
	case *ast.SelectorExpr:
		if f, ok := g.field(x, g.recv); ok {
			g.must(f == "LeaseTime" && !g.loop, x, "unsupported field of the plugin state here")
			return r8val{k: rkDur, s: "s.lease", p: pAtom}
		}
		if f, ok := g.field(x, g.req); ok {
			g.must(f == "ClientHWAddr", x, "unsupported field of the request")
			return r8val{k: rkMac, s: "mac", p: pAtom}
		}
		base := g.expr(x.X, st)
		switch {
		case (base.k == rkRecPtr || base.k == rkRecVal) && x.Sel.Name == "expires":
			return r8val{k: rkInt, s: g.deref(base, st, x) + ".expires", p: pAtom}
		case (base.k == rkRecPtr || base.k == rkRecVal) && x.Sel.Name == "IP":
			return r8val{k: rkIP, s: g.deref(base, st, x) + ".ip", p: pAtom}
		case (base.k == rkRecPtr || base.k == rkRecVal) && x.Sel.Name == "hostname":
			g.deref(base, st, x)
			return r8val{k: rkHost}
		case base.k == rkIPNet && x.Sel.Name == "IP":
			return r8val{k: rkIP, s: base.s, p: pAtom, guard: base.guard}
		}
		g.fail(x, "unknown field access (field %s of a %s)", x.Sel.Name, r8names[base.k])
	case *ast.UnaryExpr:
		g.must(x.Op == token.AND, x, "unsupported unary operator %s", x.Op)
		v := g.expr(x.X, st)
		g.must(v.k == rkRecVal, x, "address of something that is not a local Record")
		return r8val{k: rkRecPtr, cell: v.cell}
	case *ast.CallExpr:
		g.must(!x.Ellipsis.IsValid(), x, "unsupported call")
		if id, ok := x.Fun.(*ast.Ident); ok && (id.Name == "int" || id.Name == "int64") {
			g.must(len(x.Args) == 1, x, "expected 1 argument")
			v := g.expr(x.Args[0], st)
			g.must(v.k == rkInt, x, "conversion of a %s to %s unsupported (only a number of seconds)", r8names[v.k], id.Name)
			return v
		}
		if n, ok := g.pkgSel(x.Fun, "time"); ok {
			switch n {
			case "Now":
				g.must(len(x.Args) == 0, x, "expected no argument")
				return r8val{k: rkTime, s: "now", p: pAtom}
			case "Unix":
				g.must(len(x.Args) == 2, x, "expected 2 arguments")
				l, isLit := g.unparen(x.Args[1]).(*ast.BasicLit)
				g.must(isLit && l.Kind == token.INT && l.Value == "0", x.Args[1], "only time.Unix(x, 0) is supported")
				v := g.expr(x.Args[0], st)
				g.must(v.k == rkInt, x.Args[0], "time.Unix of a %s", r8names[v.k])
				return r8val{k: rkTime, s: r8w(v, r8Mul) + " * nsPerSec", p: r8Mul}
			}
			g.fail(x, "unknown call (time.%s is not in the vocabulary)", n)
		}
		if recv, name, c, ok := g.method(x); ok {
			if _, isPkg := g.imports[g.src(recv)]; isPkg {
				g.fail(x, "unknown call")
			}
			if g.src(recv) == g.recv || g.src(recv) == g.resp {
				g.fail(x, "unknown call (only as a statement of the vocabulary)")
			}
			v := g.expr(recv, st)
			switch {
			case name == "Add" && v.k == rkTime && len(c.Args) == 1:
				d := g.expr(c.Args[0], st)
				g.must(d.k == rkDur, c.Args[0], "Add of a %s", r8names[d.k])
				return r8val{k: rkTime, s: r8w(v, pAdd) + " + " + r8w(d, pAdd+1), p: pAdd}
			case name == "Unix" && v.k == rkTime && len(c.Args) == 0:
				return r8val{k: rkInt, s: "unixFloor " + r8w(v, pAtom), p: pApp}
			case name == "Round" && (v.k == rkTime || v.k == rkDur) && len(c.Args) == 1:
				g.must(g.isTimeSecond(c.Args[0]), c.Args[0], "only Round(time.Second) is supported")
				return r8val{k: v.k, s: "roundSec " + r8w(v, pAtom), p: pApp}
			case name == "To4" && v.k == rkIP && len(c.Args) == 0 && v.guard != "":
				return v // the allocator's addresses are four bytes long (unit alloc4, toIP)
			case name == "String" && v.k == rkMac && len(c.Args) == 0:
				return r8val{k: rkKey, s: "mac", p: pAtom}
			}
			g.fail(x, "unknown call (method %s of a %s)", name, r8names[v.k])
		}
		g.fail(x, "unknown call")
	}
	g.fail(x, "unsupported expression")
	return r8val{}
}

// scalar: a value a local variable can hold as a Lean `let`.
func (g *r8gen) scalar(x ast.Expr, st *r8st) r8val {
	v := g.expr(x, st)
	g.must(r8lean[v.k] != "", x, "a %s cannot be held in a variable here", r8names[v.k])
	return v
}

// ------------------------------------------------------------- conditions

type r8cond struct {
	s      string
	p      int
	isBool bool
	tf, ff []string // facts when true / when false
}

func (g *r8gen) isNil(x ast.Expr) bool { return isIdent(g.unparen(x), "nil") }

func (g *r8gen) cond(x ast.Expr, st *r8st) r8cond {
	x = g.unparen(x)
	switch x := x.(type) {
	case *ast.UnaryExpr:
		g.must(x.Op == token.NOT, x, "unsupported unary operator %s in a condition", x.Op)
		c := g.cond(x.X, st)
		if c.isBool {
			return r8cond{s: "!" + c.s, p: pApp, isBool: true, tf: c.ff, ff: c.tf}
		}
		return r8cond{s: "¬ (" + c.s + ")", p: pNot, tf: c.ff, ff: c.tf}
	case *ast.Ident:
		v, ok := st.vars[x.Name]
		g.must(ok && v.k == rkBool, x, "not a boolean variable")
		return r8cond{s: v.s, p: pAtom, isBool: true}
	case *ast.BinaryExpr:
		op, ok := cmpOps[x.Op]
		g.must(ok, x, "unsupported operator %s in a condition", x.Op)
		if g.isNil(x.Y) {
			g.must(x.Op == token.EQL || x.Op == token.NEQ, x, "ordered comparison with nil")
			id, isId := g.unparen(x.X).(*ast.Ident)
			g.must(isId, x, "unrecognised nil test (only error variables)")
			v, known := st.vars[id.Name]
			g.must(known, id, "unknown identifier")
			g.must(v.k != rkErrSave, x, "the model takes saveIPAddress to succeed: its error may only be tested as `if err != nil { log… }`")
			g.must(v.k == rkErrAlloc, x, "unrecognised nil test (only error variables)")
			if x.Op == token.NEQ {
				return r8cond{s: v.s, p: pAtom, isBool: true, tf: []string{"true:" + v.s}, ff: []string{"false:" + v.s}}
			}
			return r8cond{s: "!" + v.s, p: pApp, isBool: true, tf: []string{"false:" + v.s}, ff: []string{"true:" + v.s}}
		}
		// a.String() == b.String() on addresses
		if ra, na, ca, ok := g.method(x.X); ok && na == "String" && len(ca.Args) == 0 {
			rb, nb, cb, ok := g.method(x.Y)
			g.must(ok && nb == "String" && len(cb.Args) == 0 && (x.Op == token.EQL || x.Op == token.NEQ), x, "unsupported comparison")
			a, b := g.useIP(g.expr(ra, st), st, ra), g.useIP(g.expr(rb, st), st, rb)
			return r8cond{s: r8w(a, pCmp+1) + " " + op + " " + r8w(b, pCmp+1), p: pCmp}
		}
		a, b := g.expr(x.X, st), g.expr(x.Y, st)
		g.must(a.k == b.k && (a.k == rkInt || a.k == rkDur), x, "comparison of a %s with a %s unsupported", r8names[a.k], r8names[b.k])
		return r8cond{s: r8w(a, pCmp+1) + " " + op + " " + r8w(b, pCmp+1), p: pCmp}
	case *ast.CallExpr:
		recv, name, c, ok := g.method(x)
		g.must(ok && (name == "Before" || name == "After") && len(c.Args) == 1, x, "unknown call in a condition")
		a, b := g.expr(recv, st), g.expr(c.Args[0], st)
		g.must(a.k == rkTime && b.k == rkTime, x, "%s of a %s and a %s", name, r8names[a.k], r8names[b.k])
		op := map[string]string{"Before": "<", "After": ">"}[name]
		return r8cond{s: r8w(a, pCmp+1) + " " + op + " " + r8w(b, pCmp+1), p: pCmp}
	}
	g.fail(x, "unsupported condition")
	return r8cond{}
}

// ------------------------------------------------------------------ logging

// pure: an argument of a log / error-message call that has no side effect.
func (g *r8gen) pure(x ast.Expr, st *r8st) {
	x = g.unparen(x)
	switch x := x.(type) {
	case *ast.BasicLit:
	case *ast.Ident:
		_, ok := st.vars[x.Name]
		g.must(ok || x.Name == "nil" || x.Name == "true" || x.Name == "false", x, "unknown identifier in the arguments of a log call")
	case *ast.SelectorExpr:
		g.expr(x, st) // a field of the vocabulary (dereferences are checked)
	case *ast.CallExpr:
		recv, name, c, ok := g.method(x)
		g.must(ok && name == "String" && len(c.Args) == 0, x, "call in the arguments of a log call that is not known to be free of side effects (only x.String())")
		g.pure(recv, st)
	default:
		g.fail(x, "unsupported expression in the arguments of a log call")
	}
}

// isLog: `log.<Level>(…)` on the package's logger.
func (g *r8gen) isLog(s ast.Stmt, st *r8st) bool {
	e, ok := s.(*ast.ExprStmt)
	if !ok {
		return false
	}
	recv, name, c, ok := g.method(e.X)
	if !ok || !isIdent(recv, "log") {
		return false
	}
	g.must(g.logVar != nil, s, "`log` is not the package-level logger (log = logger.GetLogger(…))")
	g.must(h4logLevels[name], s, "log.%s is not a plain log statement", name)
	for _, a := range c.Args {
		g.pure(a, st)
	}
	return true
}

// errorValue: fmt.Errorf("…", pure…) / errors.New("…")
func (g *r8gen) errorValue(x ast.Expr, st *r8st) {
	c, ok := g.unparen(x).(*ast.CallExpr)
	g.must(ok && !c.Ellipsis.IsValid() && len(c.Args) >= 1, x, "expected fmt.Errorf(…) or errors.New(…)")
	n1, ok1 := g.pkgSel(c.Fun, "fmt")
	n2, ok2 := g.pkgSel(c.Fun, "errors")
	g.must(ok1 && n1 == "Errorf" || ok2 && n2 == "New" && len(c.Args) == 1, x, "expected fmt.Errorf(…) or errors.New(…)")
	l, ok := c.Args[0].(*ast.BasicLit)
	g.must(ok && l.Kind == token.STRING, c.Args[0], "the message must be a string literal")
	for _, a := range c.Args[1:] {
		g.pure(a, st)
	}
}

// ---------------------------------------------------------------- statements

func (g *r8gen) panicOut() string { return "(" + g.sv() + ", .panic)" }

// wrap: the `match`es of the first dereferences of the statement just translated, around its text.
func (g *r8gen) wrap(pend []r8pend, body string) string {
	for i := len(pend) - 1; i >= 0; i-- {
		body = "match " + pend[i].scrut + " with\n| none => " + g.panicOut() + "\n| some " + pend[i].name + " =>\n" + indent(body)
	}
	return body
}

func (g *r8gen) boolLit(x ast.Expr) (string, bool) {
	id, ok := g.unparen(x).(*ast.Ident)
	if !ok || (id.Name != "true" && id.Name != "false") {
		return "", false
	}
	return id.Name, true
}

// mapIndex: x is `<recv>.Recordsv4[key]` ↦ the Lean text of the key.
func (g *r8gen) mapIndex(x ast.Expr, st *r8st) (string, bool) {
	ix, ok := g.unparen(x).(*ast.IndexExpr)
	if !ok {
		return "", false
	}
	if f, ok := g.field(ix.X, g.recv); !ok || f != "Recordsv4" {
		return "", false
	}
	g.must(!g.loop, x, "map access inside the loop over the map unsupported")
	return g.key(ix.Index, st, rkKey), true
}

// allocCall: x is `<recv>.allocator.Allocate(net.IPNet{…})` ↦ the Lean text of the hint.
func (g *r8gen) allocCall(x ast.Expr, st *r8st) (string, bool) {
	recv, name, c, ok := g.method(x)
	if !ok || name != "Allocate" {
		return "", false
	}
	if f, ok := g.field(recv, g.recv); !ok || f != "allocator" {
		return "", false
	}
	g.must(len(c.Args) == 1, c, "expected 1 argument")
	cl, ok := g.unparen(c.Args[0]).(*ast.CompositeLit)
	g.must(ok && cl.Type != nil, c.Args[0], "the hint must be a net.IPNet{…} literal")
	tn, ok := g.pkgSel(cl.Type, "net")
	g.must(ok && tn == "IPNet" && len(cl.Elts) <= 1, c.Args[0], "the hint must be net.IPNet{} or net.IPNet{IP: …}")
	if len(cl.Elts) == 0 {
		return "none", true
	}
	kv, ok := cl.Elts[0].(*ast.KeyValueExpr)
	g.must(ok && isIdent(kv.Key, "IP"), cl.Elts[0], "the hint must be net.IPNet{} or net.IPNet{IP: …}")
	ip := g.useIP(g.expr(kv.Value, st), st, kv.Value)
	return "(some " + ip.s + ")", true
}

// saveCall: x is `<recv>.saveIPAddress(req.ClientHWAddr, ptr)` ↦ the effect on the lease table.
func (g *r8gen) saveCall(x ast.Expr, st *r8st) (string, bool) {
	recv, name, c, ok := g.method(x)
	if !ok || name != "saveIPAddress" || !isIdent(recv, g.recv) {
		return "", false
	}
	g.must(!g.loop && len(c.Args) == 2, c, "expected saveIPAddress(<hardware address>, <record pointer>)")
	mac := g.key(c.Args[0], st, rkMac)
	ptr := g.expr(c.Args[1], st)
	g.must(ptr.k == rkRecPtr, c.Args[1], "the second argument is a %s, want *Record", r8names[ptr.k])
	r := g.deref(ptr, st, c.Args[1])
	return "let s := { s with db := dbSave s.db ⟨" + mac + ", " + r + ".ip, " + r + ".expires⟩ }", true
}

// recordLit: Record{IP: a, expires: e, hostname: h} ↦ `{ ip := a, expires := e }`
func (g *r8gen) recordLit(x ast.Expr, st *r8st) (string, bool) {
	cl, ok := g.unparen(x).(*ast.CompositeLit)
	if !ok || cl.Type == nil || !isIdent(cl.Type, "Record") {
		return "", false
	}
	vals := map[string]string{}
	for _, el := range cl.Elts {
		kv, ok := el.(*ast.KeyValueExpr)
		g.must(ok, el, "composite literal element without a key")
		k, ok := kv.Key.(*ast.Ident)
		g.must(ok && vals[k.Name] == "", kv.Key, "unknown or repeated field in the literal")
		switch k.Name {
		case "IP":
			vals["IP"] = g.useIP(g.expr(kv.Value, st), st, kv.Value).s
		case "expires":
			v := g.expr(kv.Value, st)
			g.must(v.k == rkInt, kv.Value, "expires given a %s", r8names[v.k])
			vals["expires"] = v.s
		case "hostname":
			v := g.expr(kv.Value, st)
			g.must(v.k == rkHost, kv.Value, "hostname given a %s", r8names[v.k])
			vals["hostname"] = "-"
		default:
			g.fail(kv.Key, "unknown field in the literal")
		}
	}
	g.must(vals["IP"] != "" && vals["expires"] != "", x, "the model's record has an address and an expiry: the literal must give IP and expires")
	return "{ ip := " + vals["IP"] + ", expires := " + vals["expires"] + " }", true
}

func (g *r8gen) block(list []ast.Stmt, st *r8st, k func(*r8st) string) string {
	if len(list) == 0 {
		return k(st)
	}
	if _, isRet := list[0].(*ast.ReturnStmt); isRet && len(list) > 1 {
		g.fail(list[1], "unreachable statement after return")
	}
	return g.stmt(list[0], st, func(st2 *r8st) string { return g.block(list[1:], st2, k) })
}

// saveErrCheck: `if err != nil { log… }` on the error of saveIPAddress.
func (g *r8gen) saveErrCheck(s *ast.IfStmt, st *r8st) bool {
	c, ok := g.unparen(s.Cond).(*ast.BinaryExpr)
	if !ok || !g.isNil(c.Y) {
		return false
	}
	id, ok := g.unparen(c.X).(*ast.Ident)
	if !ok || st.vars[id.Name].k != rkErrSave {
		return false
	}
	g.must(c.Op == token.NEQ && s.Init == nil && s.Else == nil, s,
		"the model takes saveIPAddress to succeed: its error may only be tested as `if err != nil { log… }`")
	for _, b := range s.Body.List {
		g.must(g.isLog(b, st), b, "the model takes saveIPAddress to succeed: the branch for its error may only log")
	}
	return true
}

func (g *r8gen) stmt(s ast.Stmt, st *r8st, k func(*r8st) string) string {
	g.must(len(g.pend) == 0, s, "internal: pending dereferences at a statement boundary")
	// done: the statement's lines, then what follows it, inside the matches of its first dereferences
	done := func(lines ...string) string {
		pend := g.pend
		g.pend = nil
		return g.wrap(pend, joinLines(lines, k(st)))
	}
	switch s := s.(type) {
	case *ast.ExprStmt:
		if g.isLog(s, st) {
			return done()
		}
		// resp.Options.Update(dhcpv4.OptIPAddressLeaseTime(d))
		if recv, name, c, ok := g.method(s.X); ok && name == "Update" && len(c.Args) == 1 {
			if f, ok := g.field(recv, g.resp); ok && f == "Options" {
				oc, ok := g.unparen(c.Args[0]).(*ast.CallExpr)
				g.must(ok && len(oc.Args) == 1 && !oc.Ellipsis.IsValid(), c.Args[0], "the model's reply carries option 51 only: expected dhcpv4.OptIPAddressLeaseTime(d)")
				n, ok := g.pkgSel(oc.Fun, "dhcpv4")
				g.must(ok && n == "OptIPAddressLeaseTime", c.Args[0], "the model's reply carries option 51 only: expected dhcpv4.OptIPAddressLeaseTime(d)")
				d := g.expr(oc.Args[0], st)
				g.must(d.k == rkDur, oc.Args[0], "OptIPAddressLeaseTime of a %s", r8names[d.k])
				o := g.fresh(s.Pos(), "o")
				st.o51 = o
				return done("let " + o + " : Nat := secs32 " + r8w(d, pAtom))
			}
		}
		g.fail(s, "unsupported expression statement")
	case *ast.ReturnStmt:
		g.must(len(s.Results) == 2, s, "return must have two results")
		if g.loop {
			g.must(g.isNil(s.Results[0]) && !g.isNil(s.Results[1]), s, "inside the loop only `return nil, <error>` is supported")
			g.errorValue(s.Results[1], st)
			pend := g.pend
			g.pend = nil
			return g.wrap(pend, "(a, .fail)")
		}
		b, isBool := g.boolLit(s.Results[1])
		g.must(isBool, s.Results[1], "the second result must be true or false")
		switch {
		case g.isNil(s.Results[0]) && b == "true":
			return "(s, .drop)"
		case isIdent(g.unparen(s.Results[0]), g.resp) && g.resp != "" && b == "false":
			g.must(st.yi != "" && st.o51 != "", s, "the model's reply carries yiaddr and option 51: this path returns the response without setting both")
			return "(s, .reply " + st.yi + " " + st.o51 + ")"
		}
		g.fail(s, "this pair of results has no counterpart in the model's RReply (only `nil, true` = drop and `resp, false` = reply)")
	case *ast.IfStmt:
		g.must(s.Init == nil, s, "if with init statement unsupported")
		if g.saveErrCheck(s, st) {
			return done()
		}
		c := g.cond(s.Cond, st)
		pend := g.pend
		g.pend = nil
		outer := st.vars
		rest := func(in *r8st) string { return k(in.leave(outer)) }
		thenSt, elseSt := st.clone(), st.clone()
		for _, f := range c.tf {
			thenSt.facts[f] = true
		}
		for _, f := range c.ff {
			elseSt.facts[f] = true
		}
		then := g.block(s.Body.List, thenSt, rest)
		var els string
		switch b := s.Else.(type) {
		case nil:
			els = rest(elseSt)
		case *ast.BlockStmt:
			els = g.block(b.List, elseSt, rest)
		case *ast.IfStmt:
			els = g.stmt(b, elseSt, rest)
		default:
			g.fail(s.Else, "unsupported else")
		}
		return g.wrap(pend, ite(c.s, then, els))
	case *ast.AssignStmt:
		define := s.Tok == token.DEFINE
		g.must(define || s.Tok == token.ASSIGN, s, "unsupported assignment operator %s", s.Tok)
		if len(s.Lhs) == 2 && len(s.Rhs) == 1 {
			g.must(define, s, "two-valued assignment must be a declaration (:=)")
			a, ok1 := s.Lhs[0].(*ast.Ident)
			b, ok2 := s.Lhs[1].(*ast.Ident)
			g.must(ok1 && ok2, s, "assignment target must be a plain variable")
			if key, ok := g.mapIndex(s.Rhs[0], st); ok { // x, ok := p.Recordsv4[key]
				g.must(a.Name != "_" || b.Name != "_", s, "look-up without a result")
				x := g.fresh(s.Pos(), "x")
				if a.Name != "_" {
					g.freshName(a, st)
					g.ncell++
					st.cells[g.ncell] = r8cell{lean: g.fresh(a.Pos(), "r"), key: key}
					st.vars[a.Name] = r8val{k: rkRecPtr, cell: g.ncell, opt: x}
				}
				if b.Name != "_" {
					g.freshName(b, st)
					st.vars[b.Name] = r8val{k: rkBool, s: x + ".isSome", p: pAtom}
				}
				return done("let " + x + " : Option Rec := lookupRec s.recs " + key)
			}
			if hint, ok := g.allocCall(s.Rhs[0], st); ok { // ip, err := p.allocator.Allocate(hint)
				t := g.fresh(s.Pos(), "t")
				ip, er := "_", "_"
				if a.Name != "_" {
					g.freshName(a, st)
					g.must(b.Name != "_", s, "the error of Allocate is discarded: the address next to it cannot be used")
					ip = g.fresh(a.Pos(), "x")
				}
				if b.Name != "_" {
					g.must(b.Name != a.Name, b, "the same name twice")
					g.freshName(b, st)
					er = g.fresh(b.Pos(), "x")
				}
				lines := []string{"let " + t + " := allocFF " + g.allocGet() + " " + hint}
				if g.loop {
					lines = append(lines, "let a := "+t+".1")
				} else {
					lines = append(lines, "let s := { s with alloc := "+t+".1 }")
				}
				if a.Name != "_" {
					st.vars[a.Name] = r8val{k: rkIPNet, s: ip, p: pAtom, guard: er}
				}
				if b.Name != "_" {
					st.vars[b.Name] = r8val{k: rkErrAlloc, s: er, p: pAtom}
				}
				pend := g.pend
				g.pend = nil
				body := joinLines(lines, "match goAlloc "+t+".2 with\n| .panic => "+g.panicOut()+"\n| .ret "+ip+" "+er+" =>\n"+indent(k(st)))
				return g.wrap(pend, body)
			}
			g.fail(s, "unknown two-valued assignment")
		}
		g.must(len(s.Lhs) == 1 && len(s.Rhs) == 1, s, "unsupported assignment shape")
		rhs := g.unparen(s.Rhs[0])
		switch l := s.Lhs[0].(type) {
		case *ast.Ident:
			g.must(l.Name != "_", s, "assignment to the blank identifier unsupported")
			if line, ok := g.saveCall(rhs, st); ok { // err := / err = p.saveIPAddress(mac, ptr)
				if define {
					g.freshName(l, st)
				} else {
					old, known := st.vars[l.Name]
					g.must(known && (old.k == rkErrAlloc || old.k == rkErrSave), l, "the result of saveIPAddress assigned to something that is not an error variable")
				}
				st.vars[l.Name] = r8val{k: rkErrSave}
				return done(line)
			}
			if define {
				g.freshName(l, st)
				if recv, name, c, ok := g.method(rhs); ok && name == "HostName" && isIdent(recv, g.req) && g.req != "" { // hostname := req.HostName()
					g.must(len(c.Args) == 0, c, "expected no argument")
					st.vars[l.Name] = r8val{k: rkHost}
					return done()
				}
				if lit, ok := g.recordLit(rhs, st); ok { // rec := Record{…}
					r := g.fresh(l.Pos(), "r")
					g.ncell++
					st.cells[g.ncell] = r8cell{lean: r}
					st.facts["nonnil:"+strconv.Itoa(g.ncell)] = true
					st.vars[l.Name] = r8val{k: rkRecVal, cell: g.ncell}
					return done("let " + r + " : Rec := " + lit)
				}
				v := g.expr(rhs, st)
				if v.k == rkKey { // key := req.ClientHWAddr.String()
					st.vars[l.Name] = v
					return done()
				}
				g.must(r8lean[v.k] != "", rhs, "a %s cannot be held in a new variable here", r8names[v.k])
				x := g.fresh(l.Pos(), "x")
				st.vars[l.Name] = r8val{k: v.k, s: x, p: pAtom, guard: v.guard}
				return done("let " + x + " : " + r8lean[v.k] + " := " + v.s)
			}
			old, known := st.vars[l.Name]
			g.must(known, l, "assignment to unknown variable")
			if old.k == rkRecPtr { // record = &rec
				v := g.expr(rhs, st)
				g.must(v.k == rkRecPtr && v.opt == "" && st.facts["nonnil:"+strconv.Itoa(v.cell)], rhs, "a record pointer may only be re-pointed to a local Record (&rec)")
				st.vars[l.Name] = v
				return done()
			}
			g.must(r8lean[old.k] != "" && old.k != rkBool, l, "assignment to a %s unsupported", r8names[old.k])
			v := g.expr(rhs, st)
			g.must(v.k == old.k, s, "variable of type %s assigned a %s", r8names[old.k], r8names[v.k])
			old.guard = v.guard
			st.vars[l.Name] = old
			return done("let " + old.s + " : " + r8lean[v.k] + " := " + v.s)
		case *ast.IndexExpr: // p.Recordsv4[key] = &rec
			g.must(!define, s, "map element on the left of :=")
			key, ok := g.mapIndex(l, st)
			g.must(ok, l, "unsupported assignment target")
			v := g.expr(rhs, st)
			g.must(v.k == rkRecPtr, rhs, "the map stores record pointers: a %s", r8names[v.k])
			r := g.deref(v, st, rhs)
			for id, c := range st.cells { // the entry the key had is no longer in the map
				if c.key == key {
					c.key = ""
					st.cells[id] = c
				}
			}
			st.cells[v.cell] = r8cell{lean: r, key: key}
			return done("let s := { s with recs := recsPut s.recs " + key + " " + r + " }")
		case *ast.SelectorExpr:
			g.must(!define, s, "field on the left of :=")
			if f, ok := g.field(l, g.resp); ok { // resp.YourIPAddr = a
				g.must(f == "YourIPAddr", l, "the model's reply carries yiaddr and option 51 only: assignment to resp.%s", f)
				v := g.useIP(g.expr(rhs, st), st, rhs)
				y := g.fresh(s.Pos(), "y")
				st.yi = y
				return done("let " + y + " : BitVec 32 := " + v.s)
			}
			base := g.expr(l.X, st)
			g.must(base.k == rkRecPtr || base.k == rkRecVal, l, "assignment to a field of a %s unsupported", r8names[base.k])
			g.must(!g.loop, l, "write to a record inside the loop over the map unsupported")
			r := g.deref(base, st, l)
			var field string
			var v r8val
			switch l.Sel.Name {
			case "hostname":
				h := g.expr(rhs, st)
				g.must(h.k == rkHost, rhs, "hostname assigned a %s", r8names[h.k])
				return done()
			case "expires":
				v = g.expr(rhs, st)
				g.must(v.k == rkInt, rhs, "expires assigned a %s", r8names[v.k])
				field = "expires"
			case "IP":
				v = g.useIP(g.expr(rhs, st), st, rhs)
				field = "ip"
			default:
				g.fail(l, "assignment to an unknown field of Record")
			}
			lines := []string{"let " + r + " : Rec := { " + r + " with " + field + " := " + v.s + " }"}
			if key := st.cells[base.cell].key; key != "" { // the record is the map's entry: the map changes with it
				lines = append(lines, "let s := { s with recs := recsPut s.recs "+key+" "+r+" }")
			}
			return done(lines...)
		}
		g.fail(s.Lhs[0], "unsupported assignment target")
	}
	g.fail(s, "unsupported statement")
	return ""
}

// ------------------------------------------------------------------ functions

func (g *r8gen) reset() {
	g.names, g.count, g.pend, g.ncell = map[string]string{}, map[string]int{}, nil, 0
	g.recv, g.req, g.resp = "", "", ""
}

func r8new() *r8st {
	return &r8st{vars: map[string]r8val{}, cells: map[int]r8cell{}, facts: map[string]bool{}}
}

// handler4: (p *PluginState) Handler4(req, resp *dhcpv4.DHCPv4) (*dhcpv4.DHCPv4, bool)
func (g *r8gen) handler4(f *ast.FuncDecl) string {
	g.reset()
	g.loop = false
	ft := f.Type
	g.must(f.Recv != nil && len(f.Recv.List) == 1 && len(f.Recv.List[0].Names) == 1 && g.src(f.Recv.List[0].Type) == "*PluginState" &&
		ft.TypeParams == nil && f.Body != nil, f.Name, "expected the method (p *PluginState) Handler4")
	var names []*ast.Ident
	for _, p := range ft.Params.List {
		g.must(g.src(p.Type) == "*dhcpv4.DHCPv4", p.Type, "parameter type must be *dhcpv4.DHCPv4")
		names = append(names, p.Names...)
	}
	g.must(len(names) == 2 && ft.Results != nil && len(ft.Results.List) == 2 && len(ft.Results.List[0].Names) == 0 &&
		len(ft.Results.List[1].Names) == 0 && g.src(ft.Results.List[0].Type) == "*dhcpv4.DHCPv4" && g.src(ft.Results.List[1].Type) == "bool",
		f.Name, "expected func(req, resp *dhcpv4.DHCPv4) (*dhcpv4.DHCPv4, bool)")
	g.must(g.imports["dhcpv4"] == r8pkgs["dhcpv4"], f.Name, "the file does not import %s as dhcpv4", r8pkgs["dhcpv4"])
	st := r8new()
	rid := f.Recv.List[0].Names[0]
	for _, id := range append([]*ast.Ident{rid}, names...) {
		g.must(id.Name != "_", id, "unnamed receiver or parameter")
		g.freshName(id, st)
	}
	g.must(names[0].Name != names[1].Name && rid.Name != names[0].Name && rid.Name != names[1].Name, f.Name, "receiver and parameters must have different names")
	g.recv, g.req, g.resp = rid.Name, names[0].Name, names[1].Name
	list := f.Body.List
	// the verification hook: exactly `verifSeen(p)` as the first statement
	if len(list) > 0 {
		if e, ok := list[0].(*ast.ExprStmt); ok {
			if c, ok := e.X.(*ast.CallExpr); ok && isIdent(c.Fun, "verifSeen") && len(c.Args) == 1 && isIdent(c.Args[0], g.recv) && !c.Ellipsis.IsValid() {
				list = list[1:]
			}
		}
	}
	// the mutex: p.Lock() then defer p.Unlock(), mentioned exactly once each, nothing else of it
	isCall := func(x ast.Expr, m string) bool {
		recv, name, c, ok := g.method(x)
		return ok && name == m && len(c.Args) == 0 && isIdent(recv, g.recv)
	}
	g.must(len(list) >= 2, f.Name, "the handler must start with `%s.Lock()` and `defer %s.Unlock()`", g.recv, g.recv)
	e, ok := list[0].(*ast.ExprStmt)
	g.must(ok && isCall(e.X, "Lock"), list[0], "expected `%s.Lock()` as the first statement (after the verification hook)", g.recv)
	d, ok := list[1].(*ast.DeferStmt)
	g.must(ok && isCall(d.Call, "Unlock"), list[1], "`%s.Lock()` must be immediately followed by `defer %s.Unlock()`", g.recv, g.recv)
	mentions := map[string]int{}
	ast.Inspect(f.Body, func(n ast.Node) bool {
		if sel, ok := n.(*ast.SelectorExpr); ok && isIdent(sel.X, g.recv) {
			switch sel.Sel.Name {
			case "Lock", "Unlock", "TryLock", "Mutex":
				mentions[sel.Sel.Name]++
				if mentions[sel.Sel.Name] > 1 || sel.Sel.Name == "TryLock" || sel.Sel.Name == "Mutex" {
					g.fail(sel, "the mutex is used a second time (want exactly one Lock and one deferred Unlock)")
				}
			}
		}
		return true
	})
	body := g.block(list[2:], st, func(*r8st) string {
		g.fail(f.Name, "control reaches the end of the handler without a return")
		return ""
	})
	return def("`(*PluginState).Handler4` (plugins/range/plugin.go), translated from its go/ast.\nModel: `RState.handle s mac now s.alloc.firstFit`.",
		"handler4 (s : RState) (mac : Mac) (now : Int) : RState × RReply", body)
}

// remark: the loop `for _, v := range p.Recordsv4 { … }` of setupRange
func (g *r8gen) remark(f *ast.FuncDecl) string {
	g.reset()
	g.loop = true
	g.must(f.Recv == nil && f.Body != nil, f.Name, "unsupported function form")
	// the PluginState variable
	state := ""
	for _, s := range f.Body.List {
		ds, ok := s.(*ast.DeclStmt)
		if !ok {
			continue
		}
		gd, ok := ds.Decl.(*ast.GenDecl)
		if !ok || gd.Tok != token.VAR {
			continue
		}
		for _, sp := range gd.Specs {
			v := sp.(*ast.ValueSpec)
			if v.Type != nil && g.src(v.Type) == "PluginState" && len(v.Values) == 0 {
				g.must(state == "" && len(v.Names) == 1, v, "more than one PluginState variable")
				state = v.Names[0].Name
			}
		}
	}
	g.must(state != "" && state != "_", f.Name, "no `var p PluginState` at the top level of setupRange")
	var loops []*ast.RangeStmt
	ast.Inspect(f.Body, func(n ast.Node) bool {
		if r, ok := n.(*ast.RangeStmt); ok {
			if fl, ok := g.field(r.X, state); ok && fl == "Recordsv4" {
				loops = append(loops, r)
			}
		}
		return true
	})
	g.must(len(loops) == 1, f.Name, "expected exactly one loop over %s.Recordsv4 in setupRange, found %d", state, len(loops))
	r := loops[0]
	top := false
	for _, s := range f.Body.List {
		top = top || s == ast.Stmt(r)
	}
	g.must(top, r, "the loop over the records must be at the top level of setupRange")
	v, ok := r.Value.(*ast.Ident)
	g.must(ok && r.Tok == token.DEFINE && (r.Key == nil || isIdent(r.Key, "_")) && v.Name != "_", r, "expected `for _, v := range %s.Recordsv4 { … }`", state)
	g.recv = state
	st := r8new()
	g.freshName(v, st)
	g.ncell++
	st.cells[g.ncell] = r8cell{lean: "v"}
	st.facts["nonnil:"+strconv.Itoa(g.ncell)] = true // map values are never nil
	st.vars[v.Name] = r8val{k: rkRecPtr, cell: g.ncell}
	ast.Inspect(r.Body, func(n ast.Node) bool {
		if b, ok := n.(*ast.BranchStmt); ok {
			g.fail(b, "break / continue / goto in the loop unsupported")
		}
		return true
	})
	body := g.block(r.Body.List, st, func(*r8st) string { return "(a, .next)" })
	out := def("the body of the loop `for _, v := range p.Recordsv4` of `setupRange` (plugins/range/plugin.go), translated from its\ngo/ast: `.next` = the loop goes on, `.fail` = setupRange returns an error.",
		"remarkBody (a : A4) (v : Rec) : A4 × LoopOut", body)
	out += "/-- the loop itself, over the records in the order it visits them (Go's map iteration order: a parameter).\nModel: `remark`. -/\n" +
		"def remarkLoop (a : A4) : List (Mac × Rec) → A4 × LoopOut\n  | [] => (a, .next)\n  | (_, v) :: rest =>\n    match remarkBody a v with\n    | (a', .next) => remarkLoop a' rest\n    | out => out\n\n"
	return out
}

// ------------------------------------------------- declarations the vocabulary relies on

var r8structs = map[string][][2]string{
	"Record":      {{"IP", "net.IP"}, {"expires", "int"}, {"hostname", "string"}},
	"PluginState": {{"", "sync.Mutex"}, {"Recordsv4", "map[string]*Record"}, {"LeaseTime", "time.Duration"}, {"leasedb", "*sql.DB"}, {"allocator", "allocators.Allocator"}},
}

func (g *r8gen) checkDecls(file *ast.File) {
	found := map[string]bool{}
	for _, d := range file.Decls {
		gd, ok := d.(*ast.GenDecl)
		if !ok || gd.Tok != token.TYPE {
			continue
		}
		for _, sp := range gd.Specs {
			ts := sp.(*ast.TypeSpec)
			want, ok := r8structs[ts.Name.Name]
			if !ok {
				continue
			}
			stt, ok := ts.Type.(*ast.StructType)
			g.must(ok, ts, "%s is not a struct", ts.Name.Name)
			var fields [][2]string
			for _, f := range stt.Fields.List {
				if len(f.Names) == 0 {
					fields = append(fields, [2]string{"", g.src(f.Type)})
				}
				for _, n := range f.Names {
					fields = append(fields, [2]string{n.Name, g.src(f.Type)})
				}
			}
			g.must(fmt.Sprint(fields) == fmt.Sprint(want), ts, "the fields of %s are not %v", ts.Name.Name, want)
			found[ts.Name.Name] = true
		}
	}
	g.must(found["Record"] && found["PluginState"], file.Name, "types Record and PluginState not found")
}

const r8insert = "insert or replace into leases4(mac, ip, expiry, hostname) values (?, ?, ?, ?)"
const r8pkey = "primary key (mac, ip)"

// checkStorage: saveIPAddress is the `insert or replace` of (mac.String(), IP.String(), expires, hostname)
// into the table whose primary key is (mac, ip) — what `dbSave` stands for.
func (g *r8gen) checkStorage(path string) {
	file, err := parser.ParseFile(g.fset, path, nil, parser.SkipObjectResolution)
	if err != nil {
		fmt.Fprintln(os.Stderr, "gen: parse:", err)
		os.Exit(2)
	}
	var save *ast.FuncDecl
	creates := 0
	for _, d := range file.Decls {
		f, ok := d.(*ast.FuncDecl)
		if !ok || f.Body == nil {
			continue
		}
		if f.Name.Name == "saveIPAddress" && f.Recv != nil {
			g.must(save == nil, f.Name, "saveIPAddress declared twice")
			save = f
		}
		ast.Inspect(f.Body, func(n ast.Node) bool {
			if l, ok := n.(*ast.BasicLit); ok && l.Kind == token.STRING && strings.Contains(l.Value, "create table") {
				s, _ := strconv.Unquote(l.Value)
				g.must(strings.Contains(s, "leases4") && strings.Contains(s, r8pkey), l, "the lease table is not created with `%s`", r8pkey)
				creates++
			}
			return true
		})
	}
	g.must(creates == 1, file.Name, "expected exactly one `create table` statement in %s, found %d", path, creates)
	g.must(save != nil && len(save.Recv.List) == 1 && len(save.Recv.List[0].Names) == 1 && g.src(save.Recv.List[0].Type) == "*PluginState",
		file.Name, "method (p *PluginState) saveIPAddress not found in %s", path)
	var ps []string
	for _, p := range save.Type.Params.List {
		g.must(len(p.Names) > 0, p, "unnamed parameter")
		for _, n := range p.Names {
			ps = append(ps, n.Name+" "+g.src(p.Type))
		}
	}
	g.must(len(ps) == 2 && strings.HasSuffix(ps[0], " net.HardwareAddr") && strings.HasSuffix(ps[1], " *Record"), save.Name,
		"expected saveIPAddress(mac net.HardwareAddr, record *Record)")
	mac, rec := strings.Fields(ps[0])[0], strings.Fields(ps[1])[0]
	prepares, execs := 0, 0
	ast.Inspect(save.Body, func(n ast.Node) bool {
		_, name, c, ok := g.method(exprOf(n))
		if !ok {
			return true
		}
		switch name {
		case "Prepare", "Exec", "Query", "QueryRow", "ExecContext", "PrepareContext":
			if name == "Prepare" {
				prepares++
				g.must(len(c.Args) == 1, c, "expected Prepare(<statement>)")
				l, ok := c.Args[0].(*ast.BasicLit)
				g.must(ok && l.Kind == token.STRING, c.Args[0], "the statement must be a string literal")
				s, _ := strconv.Unquote(l.Value)
				g.must(s == r8insert, l, "saveIPAddress does not prepare `%s`", r8insert)
			} else if name == "Exec" {
				execs++
				var as []string
				for _, a := range c.Args {
					as = append(as, g.src(a))
				}
				want := []string{mac + ".String()", rec + ".IP.String()", rec + ".expires", rec + ".hostname"}
				g.must(fmt.Sprint(as) == fmt.Sprint(want), c, "saveIPAddress does not execute the statement with %v", want)
			} else {
				g.fail(c, "unexpected database call in saveIPAddress")
			}
		}
		return true
	})
	g.must(prepares == 1 && execs == 1, save.Name, "saveIPAddress must prepare and execute exactly one statement")
}

func exprOf(n ast.Node) ast.Expr {
	if e, ok := n.(ast.Expr); ok {
		return e
	}
	return &ast.BadExpr{}
}

const gen8Header = `-- GENERATED by harness gen -unit range4 from plugins/range/plugin.go — do not edit
-- Regenerated from the Go source on every run; Props/GenRange4.lean proves these definitions
-- equal to the hand-written model in Model/Range.lean.
import CoreDhcp.Model.Range
set_option linter.unusedVariables false
namespace CoreDhcp.GenRange

/-! Fixed vocabulary (not derived from the source; the table is in the header of gen8.go).
The plugin state ` + "`*PluginState`" + ` is the model's record ` + "`RState`" + ` (allocator ↦ alloc, Recordsv4 ↦ recs, leasedb ↦ db,
LeaseTime ↦ lease); the hardware address of the request, as bytes and as map key, is ` + "`mac`" + `; ` + "`time.Now()`" + ` is ` + "`now`" + `
(ns); time.Time, time.Duration are ` + "`Int`" + ` (ns), int / int64 are ` + "`Int`" + `.  ` + "`lookupRec recsPut dbSave unixFloor unixRound nsPerSec`" + `
are the model's; log statements, the hostname, the mutex (checked for its shape) and the verification hook are nothing. -/

/-- ` + "`p.allocator.Allocate(hint)`" + `: the IPv4 allocator MODEL driven by first fit, what the real allocator is (unit
alloc4, ` + "`GEN_a4_allocate_eq`" + `); first fit is always admissible, so the default is never taken
(` + "`GenRange.allocFF_eq`" + ` in Props/GenRange4.lean). -/
def allocFF (a : A4) (hint : Option (BitVec 32)) : A4 × A4Res :=
  (a.allocate hint a.firstFit).getD (a, .panic)

/-- how a call of ` + "`Allocate`" + ` ends, as the caller sees it: a panic (it propagates), or the results ` + "`(ip, err)`" + `:
` + "`ip`" + ` the allocated address, ` + "`err`" + ` = ` + "`err != nil`" + `.  Next to an error the address is nil in Go; the translator accepts
a use of ` + "`ip`" + ` only where ` + "`err == nil`" + ` is established, so the value given here is never looked at. -/
inductive GoAlloc
  | panic
  | ret (ip : BitVec 32) (err : Bool)

def goAlloc : A4Res → GoAlloc
  | .panic => .panic
  | .noaddr => .ret 0#32 true
  | .ok ip => .ret ip false

/-- ` + "`t.Round(time.Second)`" + ` of a time / a duration, in ns (half rounds up; positive values, as in the model) -/
def roundSec (ns : Int) : Int := unixRound ns * nsPerSec

/-- the value of ` + "`dhcpv4.OptIPAddressLeaseTime(d)`" + `: ` + "`uint32(d / time.Second)`" + ` (dhcpv4.Duration.ToBytes) -/
def secs32 (d : Int) : Nat := ((d / nsPerSec) % 4294967296).toNat

/-- how one pass through the body of the loop of setupRange ends -/
inductive LoopOut
  | next     -- the end of the body: the loop goes on
  | fail     -- return nil, <error>
  | panic
deriving DecidableEq, Repr

`

func runGen8(srcArg, outPath, lib string) {
	die := func(a ...interface{}) {
		fmt.Fprintln(os.Stderr, append([]interface{}{"gen:"}, a...)...)
		os.Exit(2)
	}
	srcPath, storagePath := range4Src, range4Storage
	if srcArg != "" { // plugin.go[,storage.go]
		p := strings.Split(srcArg, ",")
		if len(p) > 2 {
			die("-src for unit range4 is plugin.go[,storage.go]")
		}
		srcPath = p[0]
		if len(p) == 2 {
			storagePath = p[1]
		}
	}
	g := &r8gen{gen: &gen{fset: token.NewFileSet()}, imports: map[string]string{}, pkgNames: map[string]bool{}}
	// the library: OptIPAddressLeaseTime builds option 51 from a Duration
	u := &h4{gen: g.gen, consts: map[string]int{}, ctors: map[string]h4ctor{}}
	(&dunit{gen: g.gen, consts: u.consts}).readConsts(filepath.Join(lib, "dhcpv4/types.go"), "dhcpv4")
	u.readCtors(filepath.Join(lib, "dhcpv4/option_duration.go"))
	ct, ok := u.ctors["OptIPAddressLeaseTime"]
	if !ok || u.consts[ct.code] != 51 || ct.wire != "Duration" || ct.variadic {
		die("dhcpv4.OptIPAddressLeaseTime is not `return Option{Code: <51>, Value: Duration(d)}` in", lib)
	}
	file, err := parser.ParseFile(g.fset, srcPath, nil, parser.SkipObjectResolution)
	if err != nil {
		die("parse:", err)
	}
	for _, im := range file.Imports {
		p, _ := strconv.Unquote(im.Path.Value)
		name := filepath.Base(p)
		if im.Name != nil {
			name = im.Name.Name
		}
		g.imports[name] = p
		if want, ok := r8pkgs[name]; ok {
			g.must(p == want, im, "package name %s stands for %s in the vocabulary", name, want)
		}
	}
	funcs := map[string]*ast.FuncDecl{}
	for _, d := range file.Decls {
		switch d := d.(type) {
		case *ast.FuncDecl:
			if funcs[d.Name.Name] != nil {
				die(srcPath+": function", d.Name.Name, "declared twice")
			}
			funcs[d.Name.Name] = d
			g.pkgNames[d.Name.Name] = d.Recv == nil
		case *ast.GenDecl:
			for _, sp := range d.Specs {
				switch sp := sp.(type) {
				case *ast.TypeSpec:
					g.pkgNames[sp.Name.Name] = true
				case *ast.ValueSpec:
					for i, n := range sp.Names {
						g.pkgNames[n.Name] = true
						if n.Name == "log" && d.Tok == token.VAR && len(sp.Values) == len(sp.Names) {
							if c, ok := sp.Values[i].(*ast.CallExpr); ok {
								if fn, ok := g.pkgSel(c.Fun, "logger"); ok && fn == "GetLogger" {
									g.logVar = sp
								}
							}
						}
					}
				}
			}
		}
	}
	g.checkDecls(file)
	g.checkStorage(storagePath)
	out := gen8Header
	for _, name := range []string{"Handler4", "setupRange"} {
		if funcs[name] == nil {
			die(srcPath+": function", name, "not found")
		}
	}
	out += g.handler4(funcs["Handler4"])
	out += g.remark(funcs["setupRange"])
	out += "end CoreDhcp.GenRange\n"
	if err := os.WriteFile(outPath, []byte(out), 0o644); err != nil {
		die(err)
	}
	fmt.Printf("gen: wrote %s (%d bytes) from %s and %s\n", outPath, len(out), srcPath, storagePath)
}
