// gen14.go — `harness gen -unit storage`: plugins/range/storage.go regenerated as Lean definitions
// (namespace CoreDhcp.GenStorage, file CoreDhcp/Generated/Storage.lean) from its go/ast:
//
//	loadDB             ↦ GenStorage.schema (the `create table` text, parsed), GenStorage.loadDB
//	parseHWAddr        ↦ GenStorage.parseHWAddrBody (the loop body), GenStorage.parseHWAddr
//	loadRecords        ↦ GenStorage.loadQuery (the `select` text, parsed), loadRecordsBody, loadRecords
//	saveIPAddress      ↦ GenStorage.saveStmt (the `insert` text, parsed, with its bound values), saveIPAddress
//	registerBackingDB  ↦ GenStorage.registerBackingDB
//	(probes)           ↦ GenStorage.parseUintProbes, splitProbes: the REAL strconv.ParseUint / strings.Split, called by
//	                     this program with the base, bit size and separator read from the source, on fixed strings
//
// Props/GenStorage.lean proves them equal to the models (Model/HwKey.lean `parseHWAddr`, Model/Range.lean
// `loadRecords`) and to the hand-written specs of Model/Storage.lean.
// `-src storage.go[,plugin.go]` (plugin.go, default: next to storage.go, is read for the declaration of Record only).
//
// The translator goes through every function statement by statement, knows ONLY the constructs these five
// functions use, and fails loudly (source position, exit code 2) on everything else; a function or a
// package-level declaration it does not know is an error too.
//
// DERIVED FROM THE AST
//   - the control flow: early returns, the order of the tests, what is returned where
//   - every condition (`s == ""`, `len(part) > 2` with its operator and constant, `To4() == nil`, `p.leasedb != nil`)
//   - the separator of Split, base and bit size of ParseUint, the index and the value of the byte store
//   - the three SQL texts, parsed: column names and order, declared types, primary key, conflict clause,
//     placeholders; the select list is matched with the Scan destinations BY POSITION and the generated text
//     names the COLUMN a variable was scanned from; the insert's columns are matched by position with the
//     Exec arguments, each translated as an expression
//   - the map key and the fields of the stored Record, each from the expression written there
//   - the error test after every fallible call (it must follow the call immediately: the value next to an
//     error may not be used), the `defer x.Close()` right after it for rows and statements
//
// FIXED VOCABULARY
//
//	Go                                        Lean (Model/Storage.lean, Model/HwKey.lean)
//	----------------------------------------  --------------------------------------------------------------
//	string                                    String; an element of a Split: List Char
//	len(s)                                    byteLen / String.utf8ByteSize (bytes, not characters)
//	strings.Split(s, "c")                     splitOn 'c' s.toList
//	strconv.ParseUint(s, b, n)                parseUint b n s : Option Nat  (none = err != nil)
//	make(net.HardwareAddr, len(l))            List.replicate l.length 0;  net.HardwareAddr{} ↦ []
//	h[i] = v                                  storeAt h i v (none = index out of range: .error .indexPanic)
//	byte(x)                                   x % 256
//	h.String(), h a net.HardwareAddr          macString h
//	net.ParseIP(t)                            parseIP t, `parseIP : String → NetIP` a parameter (oracle)
//	ip.To4(), ip.String(), ip == nil          ip.to4, ip.string, ip = NetIP.nil
//	db.Query(select)                          q : QueryResult (oracle): q.queryErr, q.rows, q.iterErr = rows.Err() != nil
//	for rows.Next() { … rows.Scan(&v…) … }    forEach body over q.rows; Scan: row.scanErr, then v ↦ row.<column>
//	make(map[string]*Record); m[k] = &Record{…}   []; mapStore m k { IP := …, expires := …, hostname := … }
//	p.leasedb.Prepare(insert), stmt.Exec(a…)  prepareErr, execErr : Bool (oracles); the statement ↦ saveStmt
//	sql.Open(d, fmt.Sprintf(f, a…))           { driver := d, dsn := <f with %s filled in>, created := [] }; o.openErr
//	db.Exec(create table)                     o.createErr; { db with created := db.created ++ [schema] }
//	p.leasedb (nil / non-nil)                 leasedb : Option Db
//	fmt.Errorf(lit, …) / errors.New(lit)      .error (.new lit)  (arguments checked to be free of side effects)
//	return nil, err  (err of a library call)  .error (.lib "<function>")
//
// Go names never reach the generated text: renaming a local or a parameter, reformatting, comments,
// reordering the entries of a `var (…)` block regenerate the same file.
package main

import (
	"fmt"
	"go/ast"
	"go/parser"
	"go/token"
	"os"
	"path/filepath"
	"strconv"
	"strings"
)

const storageSrc = "/repo/plugins/range/storage.go"

type k14 int

const (
	k14None   k14 = iota
	k14Text       // string ↦ String
	k14Chars      // string, an element of a Split ↦ List Char
	k14Parts      // []string ↦ List (List Char)
	k14Hw         // net.HardwareAddr ↦ List Nat
	k14U64        // uint64 ↦ Nat
	k14Idx        // loop index ↦ Nat
	k14Int        // int ↦ Int
	k14Err        // error variable
	k14Rows       // *sql.Rows
	k14Stmt       // *sql.Stmt
	k14Db         // *sql.DB
	k14Map        // map[string]*Record ↦ RecMap
	k14IP         // net.IP ↦ NetIP
	k14RecPtr     // *Record ↦ GRecord
	k14Recv       // *PluginState
	k14Unset      // declared without a value (destination of Scan)
)

var k14names = map[k14]string{k14Text: "string", k14Chars: "string (piece of a Split)", k14Parts: "[]string", k14Hw: "net.HardwareAddr",
	k14U64: "uint64", k14Idx: "loop index", k14Int: "int", k14Err: "error", k14Rows: "*sql.Rows", k14Stmt: "*sql.Stmt", k14Db: "*sql.DB",
	k14Map: "map[string]*Record", k14IP: "net.IP", k14RecPtr: "*Record", k14Recv: "*PluginState", k14Unset: "variable without a value"}
var k14lean = map[k14]string{k14Text: "String", k14Chars: "List Char", k14Parts: "List (List Char)", k14Hw: "List Nat", k14U64: "Nat",
	k14Idx: "Nat", k14Int: "Int", k14Map: "RecMap", k14IP: "NetIP", k14Db: "Db"}
var k14prefix = map[k14]string{k14Text: "s", k14Chars: "c", k14Parts: "l", k14Hw: "h", k14U64: "n", k14Idx: "i", k14Int: "z", k14Map: "m", k14IP: "a", k14Db: "d", k14RecPtr: "r"}

type v14 struct {
	k      k14
	s      string // Lean text
	p      int    // Lean precedence
	goType string // k14Unset: the declared Go type
	lib    string // k14Err: the library function whose error it is ("" = a Lean value `s`)
	ins    *sql14 // k14Stmt: the prepared statement
	query  bool   // k14Db: the handle stands for the query oracle (loadRecords) / k14Rows: its rows
}

type st14 struct {
	vars      map[string]v14
	mustClose string // the resource whose `defer x.Close()` must be the next statement
	closed    map[string]bool
	inRows    string // name of the *sql.Rows being iterated
	rowsDone  map[string]bool
	executed  string // saveIPAddress: the Lean text of the statement executed
	leasedb   string // registerBackingDB: the current Lean text of p.leasedb
}

func (st *st14) clone() *st14 {
	n := *st
	n.vars, n.closed, n.rowsDone = map[string]v14{}, map[string]bool{}, map[string]bool{}
	for k, v := range st.vars {
		n.vars[k] = v
	}
	for k, v := range st.closed {
		n.closed[k] = v
	}
	for k, v := range st.rowsDone {
		n.rowsDone[k] = v
	}
	return &n
}

// sql14: one of the three statements, parsed
type sql14 struct {
	kind     string // create | insert | select
	table    string
	ifNotEx  bool
	cols     []string // names, in order
	types    []string // create: declared types
	notNull  []bool   // create
	pkey     []string // create
	conflict string   // insert: abort | replace | ignore | fail | rollback
	nPlace   int      // insert: number of `?`
	src      *ast.BasicLit
}

type s14 struct {
	*gen
	imports map[string]string
	funcs   map[string]*ast.FuncDecl
	count   map[string]int
	aux     []string // definitions emitted before the function being translated
	// the function being translated
	fn      string
	inLoop  string // "": not in a loop body; else the Lean name of the loop state
	recv    string
	create  *sql14
	insert  *sql14
	sel     *sql14
	puBase  int
	puBits  int
	sep     string
	saveSig string
}

var s14pkgs = map[string]string{"sql": "database/sql", "errors": "errors", "fmt": "fmt", "net": "net", "strconv": "strconv", "strings": "strings"}
var s14builtins = set("nil", "true", "false", "len", "make", "copy", "append", "new", "int", "int64", "uint64", "byte", "string", "panic", "_", "error")

// the columns of RawRow (Model/Storage.lean) and the Go type Scan must deliver them into
var s14rawCols = map[string]string{"mac": "string", "ip": "string", "expiry": "int", "hostname": "string"}

func (g *s14) fresh(k k14) string {
	p := k14prefix[k]
	g.count[p]++
	return p + strconv.Itoa(g.count[p])
}

func (g *s14) unparen(x ast.Expr) ast.Expr {
	for {
		p, ok := x.(*ast.ParenExpr)
		if !ok {
			return x
		}
		x = p.X
	}
}

func (g *s14) pkgSel(x ast.Expr, pkg string) (string, bool) {
	s, ok := g.unparen(x).(*ast.SelectorExpr)
	if !ok || !isIdent(s.X, pkg) {
		return "", false
	}
	g.must(g.imports[pkg] == s14pkgs[pkg], x, "`%s` is not the package %s here", pkg, s14pkgs[pkg])
	return s.Sel.Name, true
}

func (g *s14) method(x ast.Expr) (recv ast.Expr, name string, call *ast.CallExpr, ok bool) {
	c, ok := g.unparen(x).(*ast.CallExpr)
	if !ok {
		return nil, "", nil, false
	}
	s, ok := c.Fun.(*ast.SelectorExpr)
	if !ok || c.Ellipsis.IsValid() {
		return nil, "", nil, false
	}
	if id, isId := s.X.(*ast.Ident); isId {
		if _, isPkg := g.imports[id.Name]; isPkg {
			return nil, "", nil, false
		}
	}
	return s.X, s.Sel.Name, c, true
}

func (g *s14) newName(id *ast.Ident, st *st14) {
	_, isPkg := g.imports[id.Name]
	old, isLocal := st.vars[id.Name]
	g.must(!isPkg && (!isLocal || old.k == k14Err) && g.funcs[id.Name] == nil && !s14builtins[id.Name] && s14pkgs[id.Name] == "", id,
		"variable name clashes with a name that already has a meaning (package, function, local, builtin); shadowing is unsupported")
}

func (g *s14) strLit(x ast.Expr) (string, *ast.BasicLit, bool) {
	l, ok := g.unparen(x).(*ast.BasicLit)
	if !ok || l.Kind != token.STRING {
		return "", nil, false
	}
	s, err := strconv.Unquote(l.Value)
	g.must(err == nil, x, "malformed string literal")
	return s, l, true
}

func (g *s14) intLit(x ast.Expr) (int, bool) {
	l, ok := g.unparen(x).(*ast.BasicLit)
	if !ok || l.Kind != token.INT {
		return 0, false
	}
	v, err := strconv.ParseInt(l.Value, 0, 32)
	g.must(err == nil && v >= 0, x, "unsupported integer literal")
	return int(v), true
}

func w14(v v14, min int) string {
	if v.p < min {
		return "(" + v.s + ")"
	}
	return v.s
}

// ---------------------------------------------------------------- SQL

func sqlTokens(s string) []string {
	var out []string
	i := 0
	for i < len(s) {
		c := s[i]
		switch {
		case c == ' ' || c == '\t' || c == '\n' || c == '\r':
			i++
		case c == '(' || c == ')' || c == ',' || c == '?':
			out = append(out, string(c))
			i++
		case c == '_' || c >= 'a' && c <= 'z' || c >= 'A' && c <= 'Z' || c >= '0' && c <= '9':
			j := i
			for j < len(s) && (s[j] == '_' || s[j] >= 'a' && s[j] <= 'z' || s[j] >= 'A' && s[j] <= 'Z' || s[j] >= '0' && s[j] <= '9') {
				j++
			}
			out = append(out, s[i:j])
			i = j
		default:
			return nil // a character the three statements do not use
		}
	}
	return out
}

var sqlKeywords = set("create", "table", "if", "not", "exists", "null", "primary", "key", "insert", "or", "replace", "ignore", "abort",
	"fail", "rollback", "into", "values", "select", "from", "where", "order", "by", "unique", "default", "check", "references", "on", "conflict")

// parseSQL parses one of the three statement forms; anything else is an error.
func (g *s14) parseSQL(lit *ast.BasicLit, text string) *sql14 {
	toks := sqlTokens(text)
	g.must(toks != nil, lit, "SQL text with a character the translator does not know")
	pos := 0
	peek := func() string {
		if pos < len(toks) {
			return strings.ToLower(toks[pos])
		}
		return ""
	}
	kw := func(words ...string) bool {
		for i, w := range words {
			if pos+i >= len(toks) || strings.ToLower(toks[pos+i]) != w {
				return false
			}
		}
		pos += len(words)
		return true
	}
	need := func(words ...string) {
		g.must(kw(words...), lit, "SQL: expected `%s` at token %d of `%s`", strings.Join(words, " "), pos, text)
	}
	name := func() string {
		g.must(pos < len(toks), lit, "SQL: unexpected end of `%s`", text)
		t := toks[pos]
		c := t[0]
		g.must((c == '_' || c >= 'a' && c <= 'z' || c >= 'A' && c <= 'Z') && !sqlKeywords[strings.ToLower(t)], lit,
			"SQL: expected a name at token %d (`%s`) of `%s`", pos, t, text)
		pos++
		return t // sqlite names are case-insensitive; the three statements must spell them alike (checked by the caller)
	}
	nameList := func() []string {
		need("(")
		var l []string
		for {
			n := name()
			for _, o := range l {
				g.must(o != n, lit, "SQL: name `%s` twice in a list", n)
			}
			l = append(l, n)
			if kw(")") {
				return l
			}
			need(",")
		}
	}
	q := &sql14{src: lit}
	switch {
	case kw("create", "table"):
		q.kind = "create"
		if kw("if") {
			need("not", "exists")
			q.ifNotEx = true
		}
		q.table = name()
		need("(")
		for {
			if kw("primary", "key") {
				g.must(q.pkey == nil, lit, "SQL: two primary keys")
				q.pkey = nameList()
			} else {
				c := name()
				for _, o := range q.cols {
					g.must(o != c, lit, "SQL: column `%s` declared twice", c)
				}
				q.cols = append(q.cols, c)
				q.types = append(q.types, name()) // a declared type of one word
				nn := kw("not", "null")
				q.notNull = append(q.notNull, nn)
			}
			if kw(")") {
				break
			}
			need(",")
		}
		g.must(q.pkey != nil, lit, "SQL: the table has no `primary key (…)` clause")
		for _, k := range q.pkey {
			found := false
			for _, c := range q.cols {
				found = found || c == k
			}
			g.must(found, lit, "SQL: primary key column `%s` is not a column of the table", k)
		}
	case kw("insert"):
		q.kind, q.conflict = "insert", "abort"
		if kw("or") {
			q.conflict = peek()
			g.must(set("abort", "replace", "ignore", "fail", "rollback")[q.conflict], lit, "SQL: unknown conflict clause `or %s`", q.conflict)
			pos++
		}
		need("into")
		q.table = name()
		q.cols = nameList()
		need("values", "(")
		for {
			need("?")
			q.nPlace++
			if kw(")") {
				break
			}
			need(",")
		}
		g.must(q.nPlace == len(q.cols), lit, "SQL: %d columns but %d placeholders", len(q.cols), q.nPlace)
	case kw("select"):
		q.kind = "select"
		for {
			c := name()
			for _, o := range q.cols {
				g.must(o != c, lit, "SQL: column `%s` selected twice", c)
			}
			q.cols = append(q.cols, c)
			if !kw(",") {
				break
			}
		}
		need("from")
		q.table = name()
	default:
		g.fail(lit, "SQL: not one of the statement forms the translator knows (create table / insert into / select from)")
	}
	g.must(pos == len(toks), lit, "SQL: unexpected `%s` at token %d of `%s`", peek(), pos, text)
	return q
}

// leanStr14: a Lean string literal (Lean knows \uHHHH with exactly four digits, not \u{…})
func leanStr14(s string) string {
	var b strings.Builder
	b.WriteByte('"')
	for _, r := range s {
		switch {
		case r == '"' || r == '\\':
			b.WriteByte('\\')
			b.WriteRune(r)
		case r == '\n':
			b.WriteString("\\n")
		case r == '\t':
			b.WriteString("\\t")
		case r >= 0x20 && r <= 0x7e:
			b.WriteRune(r)
		case r <= 0xffff && r != 0xfffd:
			fmt.Fprintf(&b, "\\u%04x", r)
		default:
			fmt.Fprintln(os.Stderr, "gen: a string with a character the translator cannot write as a Lean literal")
			os.Exit(2)
		}
	}
	b.WriteByte('"')
	return b.String()
}

func leanStrList(l []string) string {
	var q []string
	for _, s := range l {
		q = append(q, leanStr14(s))
	}
	return "[" + strings.Join(q, ", ") + "]"
}

// ---------------------------------------------------------------- expressions

func (g *s14) expr(x ast.Expr, st *st14) v14 {
	x = g.unparen(x)
	switch x := x.(type) {
	case *ast.Ident:
		v, ok := st.vars[x.Name]
		g.must(ok, x, "unknown identifier")
		g.must(v.k != k14Unset, x, "variable read before it has a value (it is only declared; Scan gives it one)")
		return v
	case *ast.BasicLit:
		if s, _, ok := g.strLit(x); ok {
			return v14{k: k14Text, s: leanStr14(s), p: pAtom}
		}
		g.fail(x, "unsupported literal")
	case *ast.CompositeLit:
		if n, ok := g.pkgSel(x.Type, "net"); ok && n == "HardwareAddr" && len(x.Elts) == 0 {
			return v14{k: k14Hw, s: "[]", p: pAtom}
		}
		g.fail(x, "unsupported composite literal")
	case *ast.SelectorExpr:
		if id, ok := x.X.(*ast.Ident); ok && id.Name == g.recv && g.recv != "" {
			g.must(x.Sel.Name == "leasedb", x, "unsupported field of the plugin state")
			if g.fn == "registerBackingDB" {
				g.fail(x, "p.leasedb may only be tested against nil and assigned here")
			}
			return v14{k: k14Db, query: false, s: "leasedb"}
		}
		base := g.expr(x.X, st)
		if base.k == k14RecPtr {
			switch x.Sel.Name {
			case "IP":
				return v14{k: k14IP, s: base.s + ".IP", p: pAtom}
			case "expires":
				return v14{k: k14Int, s: base.s + ".expires", p: pAtom}
			case "hostname":
				return v14{k: k14Text, s: base.s + ".hostname", p: pAtom}
			}
		}
		g.fail(x, "unknown field access (field %s of a %s)", x.Sel.Name, k14names[base.k])
	case *ast.CallExpr:
		g.must(!x.Ellipsis.IsValid(), x, "unsupported call")
		if id, ok := x.Fun.(*ast.Ident); ok {
			switch id.Name {
			case "byte":
				g.must(len(x.Args) == 1, x, "expected 1 argument")
				v := g.expr(x.Args[0], st)
				g.must(v.k == k14U64, x, "byte(…) of a %s unsupported", k14names[v.k])
				return v14{k: k14U64, s: w14(v, r8Mul+1) + " % 256", p: r8Mul}
			case "len":
				g.must(len(x.Args) == 1, x, "expected 1 argument")
				v := g.expr(x.Args[0], st)
				switch v.k {
				case k14Chars:
					return v14{k: k14Idx, s: "byteLen " + w14(v, pAtom), p: pApp}
				case k14Text:
					return v14{k: k14Idx, s: w14(v, pAtom) + ".utf8ByteSize", p: pAtom}
				case k14Parts, k14Hw:
					return v14{k: k14Idx, s: w14(v, pAtom) + ".length", p: pAtom}
				}
				g.fail(x, "len of a %s unsupported", k14names[v.k])
			case "make":
				g.must(len(x.Args) == 2, x, "only make(net.HardwareAddr, n) is supported here")
				n, ok := g.pkgSel(x.Args[0], "net")
				g.must(ok && n == "HardwareAddr", x, "only make(net.HardwareAddr, n) is supported here")
				sz := g.expr(x.Args[1], st)
				g.must(sz.k == k14Idx, x.Args[1], "the size is a %s", k14names[sz.k])
				return v14{k: k14Hw, s: "List.replicate " + w14(sz, pAtom) + " 0", p: pApp}
			}
			g.fail(x, "unknown call")
		}
		if n, ok := g.pkgSel(x.Fun, "strings"); ok {
			g.must(n == "Split" && len(x.Args) == 2, x, "unknown call (strings.%s is not in the vocabulary)", n)
			v := g.expr(x.Args[0], st)
			g.must(v.k == k14Text || v.k == k14Chars, x.Args[0], "Split of a %s", k14names[v.k])
			sep, _, ok := g.strLit(x.Args[1])
			g.must(ok && len(sep) == 1 && sep[0] > 0x20 && sep[0] < 0x7f && sep[0] != '\'' && sep[0] != '\\', x.Args[1],
				"the separator must be a string literal of one printable ASCII character")
			g.must(g.sep == "" || g.sep == sep, x, "two different separators")
			g.sep = sep
			arg := w14(v, pAtom)
			if v.k == k14Text {
				arg += ".toList"
			}
			return v14{k: k14Parts, s: "splitOn '" + sep + "' " + arg, p: pApp}
		}
		if n, ok := g.pkgSel(x.Fun, "net"); ok {
			g.must(n == "ParseIP" && len(x.Args) == 1, x, "unknown call (net.%s is not in the vocabulary)", n)
			g.must(g.fn == "loadRecords", x, "net.ParseIP is an oracle of loadRecords only")
			v := g.expr(x.Args[0], st)
			g.must(v.k == k14Text, x.Args[0], "ParseIP of a %s", k14names[v.k])
			return v14{k: k14IP, s: "parseIP " + w14(v, pAtom), p: pApp}
		}
		if n, ok := g.pkgSel(x.Fun, "fmt"); ok {
			g.must(n == "Sprintf" && len(x.Args) >= 1, x, "unknown call (fmt.%s is not in the vocabulary as a value)", n)
			f, _, ok := g.strLit(x.Args[0])
			g.must(ok, x.Args[0], "the format must be a string literal")
			var pieces []string
			lit, arg := "", 1
			for i := 0; i < len(f); i++ {
				if f[i] != '%' {
					lit += string(f[i])
					continue
				}
				g.must(i+1 < len(f) && (f[i+1] == 's' || f[i+1] == '%'), x.Args[0], "only %%s and %%%% are supported in a Sprintf that builds a value")
				i++
				if f[i] == '%' {
					lit += "%"
					continue
				}
				g.must(arg < len(x.Args), x, "too few arguments for the format")
				v := g.expr(x.Args[arg], st)
				g.must(v.k == k14Text, x.Args[arg], "%%s of a %s", k14names[v.k])
				arg++
				if lit != "" {
					pieces = append(pieces, leanStr14(lit))
					lit = ""
				}
				pieces = append(pieces, w14(v, pAdd+1))
			}
			g.must(arg == len(x.Args), x, "too many arguments for the format")
			if lit != "" || len(pieces) == 0 {
				pieces = append(pieces, leanStr14(lit))
			}
			p := pAdd
			if len(pieces) == 1 {
				p = pAtom
			}
			return v14{k: k14Text, s: strings.Join(pieces, " ++ "), p: p}
		}
		if recv, name, c, ok := g.method(x); ok {
			if isIdent(recv, g.recv) && g.recv != "" {
				g.fail(x, "unknown call (method of the plugin state)")
			}
			v := g.expr(recv, st)
			switch {
			case name == "String" && v.k == k14Hw && len(c.Args) == 0:
				return v14{k: k14Text, s: "macString " + w14(v, pAtom), p: pApp}
			case name == "String" && v.k == k14IP && len(c.Args) == 0:
				return v14{k: k14Text, s: w14(v, pAtom) + ".string", p: pAtom}
			case name == "To4" && v.k == k14IP && len(c.Args) == 0:
				return v14{k: k14IP, s: w14(v, pAtom) + ".to4", p: pAtom}
			}
			g.fail(x, "unknown call (method %s of a %s)", name, k14names[v.k])
		}
		g.fail(x, "unknown call")
	}
	g.fail(x, "unsupported expression")
	return v14{}
}

// cond: a condition of an `if` (not an error test: those are handled with the call they belong to)
func (g *s14) cond(x ast.Expr, st *st14) string {
	b, ok := g.unparen(x).(*ast.BinaryExpr)
	g.must(ok, x, "unsupported condition")
	op, ok := cmpOps[b.Op]
	g.must(ok, x, "unsupported operator %s in a condition", b.Op)
	eq := b.Op == token.EQL || b.Op == token.NEQ
	if isIdent(g.unparen(b.Y), "nil") {
		g.must(eq, x, "ordered comparison with nil")
		if s, ok := g.unparen(b.X).(*ast.SelectorExpr); ok && isIdent(s.X, g.recv) && g.recv != "" && s.Sel.Name == "leasedb" {
			g.must(st.leasedb != "", x, "p.leasedb is not part of the state here")
			return st.leasedb + " " + op + " none"
		}
		if id, ok := g.unparen(b.X).(*ast.Ident); ok {
			if v, known := st.vars[id.Name]; known && v.k == k14Err {
				g.fail(x, "an error may only be tested by `if err != nil { … return … }` immediately after the call that returned it")
			}
		}
		v := g.expr(b.X, st)
		g.must(v.k == k14IP, x, "comparison of a %s with nil unsupported", k14names[v.k])
		return w14(v, pCmp+1) + " " + op + " NetIP.nil"
	}
	if n, ok := g.intLit(b.Y); ok {
		v := g.expr(b.X, st)
		g.must(v.k == k14Idx, x, "comparison of a %s with a number unsupported", k14names[v.k])
		return w14(v, pCmp+1) + " " + op + " " + strconv.Itoa(n)
	}
	if s, _, ok := g.strLit(b.Y); ok {
		g.must(eq, x, "ordered comparison of strings unsupported")
		v := g.expr(b.X, st)
		switch v.k {
		case k14Text:
			return w14(v, pCmp+1) + " " + op + " " + leanStr14(s)
		case k14Chars:
			return w14(v, pCmp+1) + " " + op + " " + leanStr14(s) + ".toList"
		}
		g.fail(x, "comparison of a %s with a string unsupported", k14names[v.k])
	}
	g.fail(x, "unsupported condition")
	return ""
}

// pure: an argument of fmt.Errorf that has no side effect
func (g *s14) pure(x ast.Expr, st *st14) {
	x = g.unparen(x)
	switch x := x.(type) {
	case *ast.BasicLit:
	case *ast.Ident:
		v, ok := st.vars[x.Name]
		g.must(ok && v.k != k14Unset || x.Name == "nil", x, "unknown identifier (or a variable without a value) in the arguments of an error message")
	case *ast.SelectorExpr:
		g.expr(x, st)
	case *ast.CallExpr:
		recv, name, c, ok := g.method(x)
		g.must(ok && name == "String" && len(c.Args) == 0, x, "call in the arguments of an error message that is not known to be free of side effects (only x.String())")
		g.pure(recv, st)
	default:
		g.fail(x, "unsupported expression in the arguments of an error message")
	}
}

// errorValue: fmt.Errorf("…", pure…) / errors.New("…") / an error variable ↦ Lean Err
func (g *s14) errorValue(x ast.Expr, st *st14) string {
	x = g.unparen(x)
	if id, ok := x.(*ast.Ident); ok {
		v, known := st.vars[id.Name]
		g.must(known && v.k == k14Err, x, "not an error value")
		if v.lib != "" {
			return ".lib " + leanStr14(v.lib)
		}
		return v.s
	}
	c, ok := x.(*ast.CallExpr)
	g.must(ok && !c.Ellipsis.IsValid() && len(c.Args) >= 1, x, "expected fmt.Errorf(…), errors.New(…) or an error variable")
	n1, ok1 := g.pkgSel(c.Fun, "fmt")
	n2, ok2 := g.pkgSel(c.Fun, "errors")
	g.must(ok1 && n1 == "Errorf" || ok2 && n2 == "New" && len(c.Args) == 1, x, "expected fmt.Errorf(…), errors.New(…) or an error variable")
	s, _, ok := g.strLit(c.Args[0])
	g.must(ok, c.Args[0], "the message must be a string literal")
	for _, a := range c.Args[1:] {
		g.pure(a, st)
	}
	return ".new " + leanStr14(s)
}

// ---------------------------------------------------------------- fallible calls

// fal14: a call that returns (value…, error)
type fal14 struct {
	nres   int                                     // number of results (1 = the error only)
	oracle string                                  // the error is an oracle input: Lean Bool
	scrut  string                                  // or: the error is decided by a Lean value: `match scrut with | patErr => … | patOk => …`
	option bool                                    //     scrut is an Option (none = error), else an Except
	val    v14                                     // the value next to a nil error (k14None: none, the first result must be `_`)
	lib    string                                  // name of the function, for `return …, err`
	after  func(st *st14, valName string) []string // effects on the success path (lines emitted there)
	blank  bool                                    // the first result must be `_`
}

func (g *s14) fallible(x ast.Expr, st *st14) (fal14, bool) {
	c, ok := g.unparen(x).(*ast.CallExpr)
	if !ok || c.Ellipsis.IsValid() {
		return fal14{}, false
	}
	if n, ok := g.pkgSel(c.Fun, "strconv"); ok {
		g.must(n == "ParseUint" && len(c.Args) == 3, c, "unknown call (strconv.%s is not in the vocabulary)", n)
		v := g.expr(c.Args[0], st)
		g.must(v.k == k14Chars || v.k == k14Text, c.Args[0], "ParseUint of a %s", k14names[v.k])
		base, ok1 := g.intLit(c.Args[1])
		bits, ok2 := g.intLit(c.Args[2])
		g.must(ok1 && ok2, c, "base and bit size of ParseUint must be integer literals")
		g.must(base >= 2 && base <= 36, c.Args[1], "ParseUint with base %d: the vocabulary covers an explicit base 2…36 only (base 0 reads prefixes and underscores)", base)
		g.must(bits >= 0 && bits <= 64, c.Args[2], "ParseUint with bit size %d: an error in Go", bits)
		g.must(g.puBase == 0 || g.puBase == base && g.puBits == bits, c, "two ParseUint calls with different base / bit size")
		g.puBase, g.puBits = base, bits
		arg := w14(v, pAtom)
		if v.k == k14Text {
			arg += ".toList"
		}
		return fal14{nres: 2, scrut: fmt.Sprintf("parseUint %d %d %s", base, bits, arg), option: true, val: v14{k: k14U64}, lib: "strconv.ParseUint"}, true
	}
	if n, ok := g.pkgSel(c.Fun, "sql"); ok {
		g.must(n == "Open" && len(c.Args) == 2 && g.fn == "loadDB", c, "unknown call (sql.%s is not in the vocabulary here)", n)
		drv, _, ok := g.strLit(c.Args[0])
		g.must(ok, c.Args[0], "the driver name must be a string literal")
		dsn := g.expr(c.Args[1], st)
		g.must(dsn.k == k14Text, c.Args[1], "the data source name is a %s", k14names[dsn.k])
		return fal14{nres: 2, oracle: "o.openErr", val: v14{k: k14Db}, lib: "sql.Open",
			after: func(st *st14, name string) []string {
				return []string{"let " + name + " : Db := { driver := " + leanStr14(drv) + ", dsn := " + dsn.s + ", created := [] }"}
			}}, true
	}
	if id, ok := c.Fun.(*ast.Ident); ok {
		switch id.Name {
		case "parseHWAddr":
			g.must(g.funcs["parseHWAddr"] != nil && len(c.Args) == 1 && g.fn == "loadRecords", c, "unknown call")
			v := g.expr(c.Args[0], st)
			g.must(v.k == k14Text, c.Args[0], "parseHWAddr of a %s", k14names[v.k])
			return fal14{nres: 2, scrut: "parseHWAddr " + w14(v, pAtom), val: v14{k: k14Hw}}, true
		case "loadDB":
			g.must(g.funcs["loadDB"] != nil && len(c.Args) == 1 && g.fn == "registerBackingDB", c, "unknown call")
			v := g.expr(c.Args[0], st)
			g.must(v.k == k14Text, c.Args[0], "loadDB of a %s", k14names[v.k])
			return fal14{nres: 2, scrut: "loadDB o " + w14(v, pAtom), val: v14{k: k14Db}}, true
		}
		return fal14{}, false
	}
	recv, name, _, ok := g.method(c)
	if !ok {
		return fal14{}, false
	}
	switch name {
	case "Query", "Prepare", "Exec", "Scan", "Err":
	default:
		return fal14{}, false
	}
	// p.leasedb.Prepare(insert)
	if s, ok := g.unparen(recv).(*ast.SelectorExpr); ok && isIdent(s.X, g.recv) && g.recv != "" {
		g.must(s.Sel.Name == "leasedb" && name == "Prepare" && g.fn == "saveIPAddress" && len(c.Args) == 1, c, "unknown database call")
		text, lit, ok := g.strLit(c.Args[0])
		g.must(ok, c.Args[0], "the statement must be a string literal")
		q := g.parseSQL(lit, text)
		g.must(q.kind == "insert", lit, "saveIPAddress prepares a statement that is not an insert")
		g.must(g.insert == nil, c, "two prepared statements")
		g.insert = q
		return fal14{nres: 2, oracle: "prepareErr", val: v14{k: k14Stmt, ins: q}, lib: "sql.DB.Prepare"}, true
	}
	id, ok := g.unparen(recv).(*ast.Ident)
	g.must(ok, c, "unknown database call")
	rv, known := st.vars[id.Name]
	g.must(known, id, "unknown identifier")
	switch {
	case rv.k == k14Db && rv.query && name == "Query":
		g.must(len(c.Args) == 1, c, "expected Query(<statement>) without arguments")
		text, lit, ok := g.strLit(c.Args[0])
		g.must(ok, c.Args[0], "the statement must be a string literal")
		q := g.parseSQL(lit, text)
		g.must(q.kind == "select", lit, "loadRecords queries with a statement that is not a select")
		g.must(g.sel == nil, c, "two queries")
		g.sel = q
		for _, col := range q.cols {
			g.must(s14rawCols[col] != "", lit, "column `%s` is not a column of the vocabulary's row (mac, ip, expiry, hostname)", col)
		}
		return fal14{nres: 2, oracle: "q.queryErr", val: v14{k: k14Rows, query: true}, lib: "sql.DB.Query"}, true
	case rv.k == k14Db && !rv.query && name == "Exec" && g.fn == "loadDB":
		g.must(len(c.Args) == 1, c, "expected Exec(<statement>) without arguments")
		text, lit, ok := g.strLit(c.Args[0])
		g.must(ok, c.Args[0], "the statement must be a string literal")
		q := g.parseSQL(lit, text)
		g.must(q.kind == "create", lit, "loadDB executes a statement that is not a create table")
		g.must(g.create == nil, c, "two create table statements")
		g.create = q
		db := rv.s
		return fal14{nres: 2, blank: true, oracle: "o.createErr", lib: "sql.DB.Exec",
			after: func(st *st14, _ string) []string {
				return []string{"let " + db + " : Db := { " + db + " with created := " + db + ".created ++ [schema] }"}
			}}, true
	case rv.k == k14Rows && name == "Scan":
		g.must(st.inRows == id.Name, c, "Scan outside the loop `for %s.Next()`", id.Name)
		g.must(g.sel != nil && len(c.Args) == len(g.sel.cols), c, "the select list has %d columns, Scan has %d destinations", len(g.sel.cols), len(c.Args))
		type dst struct{ name, col string }
		var dsts []dst
		for i, a := range c.Args {
			u, ok := g.unparen(a).(*ast.UnaryExpr)
			g.must(ok && u.Op == token.AND, a, "a Scan destination must be &variable")
			d, ok := g.unparen(u.X).(*ast.Ident)
			g.must(ok, a, "a Scan destination must be &variable")
			dv, known := st.vars[d.Name]
			g.must(known && dv.goType != "", d, "a Scan destination must be a variable declared `var x string` / `var x int`")
			col := g.sel.cols[i]
			g.must(dv.goType == s14rawCols[col], a, "column `%s` is delivered as a Go %s in the vocabulary, the destination is a %s", col, s14rawCols[col], dv.goType)
			for _, o := range dsts {
				g.must(o.name != d.Name, a, "the same Scan destination twice")
			}
			dsts = append(dsts, dst{d.Name, col})
		}
		return fal14{nres: 1, oracle: "row.scanErr", lib: "sql.Rows.Scan",
			after: func(st *st14, _ string) []string {
				for _, d := range dsts {
					k := k14Text
					if s14rawCols[d.col] == "int" {
						k = k14Int
					}
					st.vars[d.name] = v14{k: k, s: "row." + d.col, p: pAtom, goType: s14rawCols[d.col]}
				}
				return nil
			}}, true
	case rv.k == k14Rows && name == "Err":
		g.must(len(c.Args) == 0, c, "expected no argument")
		g.must(st.rowsDone[id.Name], c, "%s.Err() before the loop over the rows", id.Name)
		st.rowsDone[id.Name+".Err"] = true
		return fal14{nres: 1, oracle: "q.iterErr", lib: "sql.Rows.Err"}, true
	case rv.k == k14Stmt && name == "Exec":
		q := rv.ins
		g.must(len(c.Args) == q.nPlace, c, "the statement has %d placeholders, Exec has %d arguments", q.nPlace, len(c.Args))
		var binds []string
		for i, a := range c.Args {
			v := g.expr(a, st)
			var val string
			switch v.k {
			case k14Text:
				val = ".text " + w14(v, pAtom)
			case k14Int:
				val = ".int " + w14(v, pAtom)
			default:
				g.fail(a, "a %s bound to a placeholder: only strings and ints are in the vocabulary", k14names[v.k])
			}
			binds = append(binds, "("+leanStr14(q.cols[i])+", "+val+")")
		}
		g.must(st.executed == "", c, "two statements executed")
		g.aux = append(g.aux, def("the statement `saveIPAddress` prepares (parsed from its text: table, conflict clause, column list) with the `Exec`\narguments bound to its placeholders: the i-th argument goes to the i-th column of the list.",
			"saveStmt "+g.saveSig+" : Insert",
			"{ table := "+leanStr14(q.table)+", onConflict := ."+q.conflict+",\n  bind := ["+strings.Join(binds, ",\n           ")+"] }"))
		return fal14{nres: 2, blank: true, oracle: "execErr", lib: "sql.Stmt.Exec",
			after: func(st *st14, _ string) []string {
				st.executed = "saveStmt"
				return nil
			}}, true
	}
	g.fail(c, "unknown database call (%s of a %s)", name, k14names[rv.k])
	return fal14{}, false
}

// ---------------------------------------------------------------- statements

type ret14 struct {
	pair bool // (T, error), else error
}

func (g *s14) errOut(e string, st *st14) string {
	if g.fn == "registerBackingDB" {
		return "(" + st.leasedb + ", .error (" + e + "))"
	}
	if strings.Contains(e, " ") {
		return ".error (" + e + ")"
	}
	return ".error " + e
}

func (g *s14) ret(s *ast.ReturnStmt, st *st14) string {
	g.must(st.mustClose == "", s, "%s is not closed by a `defer %s.Close()` right after the test of its error", st.mustClose, st.mustClose)
	isNil := func(x ast.Expr) bool { return isIdent(g.unparen(x), "nil") }
	switch g.fn {
	case "saveIPAddress", "registerBackingDB":
		g.must(len(s.Results) == 1, s, "return must have one result")
		if !isNil(s.Results[0]) {
			return g.errOut(g.errorValue(s.Results[0], st), st)
		}
		if g.fn == "registerBackingDB" {
			return "(" + st.leasedb + ", .ok ())"
		}
		g.must(st.executed != "", s, "saveIPAddress returns nil without having executed a statement")
		return ".ok (saveStmt " + g.saveArgs() + ")"
	}
	g.must(len(s.Results) == 2, s, "return must have two results")
	if !isNil(s.Results[1]) {
		g.must(isNil(s.Results[0]), s.Results[0], "the value returned next to an error must be nil")
		return g.errOut(g.errorValue(s.Results[1], st), st)
	}
	g.must(g.inLoop == "", s, "a successful return from inside a loop is unsupported")
	v := g.expr(s.Results[0], st)
	want := map[string]k14{"parseHWAddr": k14Hw, "loadRecords": k14Map, "loadDB": k14Db}[g.fn]
	g.must(v.k == want, s.Results[0], "the function returns a %s, this is a %s", k14names[want], k14names[v.k])
	if g.fn == "loadRecords" {
		for r := range st.rowsDone {
			if !strings.HasSuffix(r, ".Err") {
				g.must(st.rowsDone[r+".Err"], s, "the records are returned without a test of %s.Err() after the loop", r)
			}
		}
		g.must(len(st.rowsDone) > 0, s, "the records are returned without a loop over the rows")
	}
	if g.fn == "loadDB" {
		g.must(g.create != nil, s, "loadDB returns the database without having created the table")
	}
	return ".ok " + w14(v, pAtom)
}

func (g *s14) saveArgs() string { return "h1 r1" }

func (g *s14) block(list []ast.Stmt, st *st14, k func(*st14) string) string {
	if len(list) == 0 {
		return k(st)
	}
	if _, isRet := list[0].(*ast.ReturnStmt); isRet && len(list) > 1 {
		g.fail(list[1], "unreachable statement after return")
	}
	s := list[0]
	if st.mustClose != "" {
		d, ok := s.(*ast.DeferStmt)
		okc := false
		if ok {
			recv, name, c, isM := g.method(d.Call)
			okc = isM && name == "Close" && len(c.Args) == 0 && isIdent(recv, st.mustClose)
		}
		g.must(okc, s, "%s is not closed by a `defer %s.Close()` right after the test of its error", st.mustClose, st.mustClose)
		st.closed[st.mustClose] = true
		st.mustClose = ""
		return g.block(list[1:], st, k)
	}
	// `x, err := <fallible call>` followed by `if err != nil { … return … }`
	if a, ok := s.(*ast.AssignStmt); ok && len(a.Rhs) == 1 {
		if f, isF := g.fallible(a.Rhs[0], st); isF {
			g.must(len(list) > 1, s, "the error of this call is not tested by the next statement")
			i, ok := list[1].(*ast.IfStmt)
			g.must(ok && i.Init == nil, list[1], "the error of the call before must be tested here by `if err != nil { … return … }`")
			return g.guarded(a, f, i, st, func(st2 *st14) string { return g.block(list[2:], st2, k) })
		}
	}
	return g.stmt(s, st, func(st2 *st14) string { return g.block(list[1:], st2, k) })
}

// guarded: `lhs := call` with the `if err != nil { … }` that tests its error
func (g *s14) guarded(a *ast.AssignStmt, f fal14, i *ast.IfStmt, st *st14, k func(*st14) string) string {
	g.must(len(a.Lhs) == f.nres, a, "this call returns %d values", f.nres)
	errId, ok := a.Lhs[f.nres-1].(*ast.Ident)
	g.must(ok && errId.Name != "_", a, "the error of this call is discarded")
	var valId *ast.Ident
	if f.nres == 2 {
		valId, ok = a.Lhs[0].(*ast.Ident)
		g.must(ok, a.Lhs[0], "assignment target must be a plain variable")
		if f.blank || f.val.k == k14None {
			g.must(valId.Name == "_", valId, "the first result of this call has no meaning in the vocabulary: it must be `_`")
			valId = nil
		} else {
			g.must(valId.Name != "_", valId, "the value of this call is discarded")
		}
	}
	if a.Tok == token.DEFINE {
		g.newName(errId, st)
		if valId != nil {
			g.must(valId.Name != errId.Name, valId, "the same name twice")
			g.newName(valId, st)
			g.must(st.vars[valId.Name].k != k14Err, valId, "variable name clashes with an error variable")
		}
	} else {
		g.must(a.Tok == token.ASSIGN, a, "unsupported assignment operator %s", a.Tok)
		old, known := st.vars[errId.Name]
		g.must(known && old.k == k14Err && valId == nil, a, "a plain assignment of a fallible call is supported for an error variable only")
	}
	// the test
	c, ok := g.unparen(i.Cond).(*ast.BinaryExpr)
	g.must(ok && c.Op == token.NEQ && isIdent(g.unparen(c.X), errId.Name) && isIdent(g.unparen(c.Y), "nil") && i.Else == nil, i,
		"the error of the call before must be tested here by `if %s != nil { … return … }`", errId.Name)
	g.must(len(i.Body.List) > 0, i, "the branch for the error must end with a return")
	_, endsRet := i.Body.List[len(i.Body.List)-1].(*ast.ReturnStmt)
	g.must(endsRet, i, "the branch for the error must end with a return")
	// error branch: the error variable, not the value
	errSt := st.clone()
	ev := v14{k: k14Err, lib: f.lib}
	patErr := "none"
	if f.scrut != "" && !f.option {
		ev, patErr = v14{k: k14Err, s: "e", p: pAtom}, ".error e"
	}
	errSt.vars[errId.Name] = ev
	then := g.block(i.Body.List, errSt, func(*st14) string {
		g.fail(i, "the branch for the error must end with a return")
		return ""
	})
	// success branch
	okSt := st
	okSt.vars[errId.Name] = v14{k: k14Err, lib: "nil"}
	name := ""
	if valId != nil {
		v := f.val
		if k14prefix[v.k] != "" {
			name = g.fresh(v.k)
			v.s, v.p = name, pAtom
		}
		okSt.vars[valId.Name] = v
		if v.k == k14Rows || v.k == k14Stmt {
			okSt.mustClose = valId.Name
		}
	}
	var lines []string
	if f.after != nil {
		lines = f.after(okSt, name)
	}
	rest := joinLines(lines, k(okSt))
	if f.oracle != "" {
		return ite(f.oracle, then, rest)
	}
	patOk := ".ok " + name
	if f.option {
		patOk = "some " + name
	}
	return "match " + f.scrut + " with\n| " + patErr + " => " + strings.ReplaceAll(then, "\n", "\n  ") + "\n| " + patOk + " =>\n" + indent(rest)
}

func (g *s14) stmt(s ast.Stmt, st *st14, k func(*st14) string) string {
	switch s := s.(type) {
	case *ast.ReturnStmt:
		return g.ret(s, st)
	case *ast.DeferStmt:
		g.fail(s, "a defer is supported only as `defer x.Close()` right after the test of the error of the call that made x")
	case *ast.DeclStmt:
		d, ok := s.Decl.(*ast.GenDecl)
		g.must(ok && d.Tok == token.VAR, s, "unsupported declaration")
		var lines []string
		for _, sp := range d.Specs {
			v := sp.(*ast.ValueSpec)
			switch {
			case v.Type != nil && len(v.Values) == 0:
				t := g.src(v.Type)
				g.must(t == "string" || t == "int", v.Type, "only `var x string` / `var x int` (destinations of Scan) are supported")
				for _, n := range v.Names {
					g.must(n.Name != "_", n, "unnamed variable")
					g.newName(n, st)
					st.vars[n.Name] = v14{k: k14Unset, goType: t}
				}
			case v.Type == nil && len(v.Names) == 1 && len(v.Values) == 1:
				c, ok := g.unparen(v.Values[0]).(*ast.CallExpr)
				g.must(ok && isIdent(c.Fun, "make") && len(c.Args) == 1 && g.src(c.Args[0]) == "map[string]*Record", v, "only `x = make(map[string]*Record)` is supported")
				g.newName(v.Names[0], st)
				m := g.fresh(k14Map)
				st.vars[v.Names[0].Name] = v14{k: k14Map, s: m, p: pAtom}
				lines = append(lines, "let "+m+" : RecMap := []")
			default:
				g.fail(v, "unsupported variable declaration")
			}
		}
		return joinLines(lines, k(st))
	case *ast.IfStmt:
		g.must(s.Else == nil, s, "if with else unsupported")
		if s.Init != nil { // if err := call; err != nil { … }
			a, ok := s.Init.(*ast.AssignStmt)
			g.must(ok && a.Tok == token.DEFINE && len(a.Rhs) == 1, s.Init, "unsupported init statement")
			f, isF := g.fallible(a.Rhs[0], st)
			g.must(isF, s.Init, "the init statement of an if must be a fallible call of the vocabulary")
			return g.guarded(a, f, &ast.IfStmt{If: s.If, Cond: s.Cond, Body: s.Body}, st, k)
		}
		c := g.cond(s.Cond, st)
		g.must(len(s.Body.List) > 0, s, "empty branch")
		_, endsRet := s.Body.List[len(s.Body.List)-1].(*ast.ReturnStmt)
		g.must(endsRet, s, "a branch that does not end with a return is unsupported")
		then := g.block(s.Body.List, st.clone(), func(*st14) string { g.fail(s, "internal"); return "" })
		return ite(c, then, k(st))
	case *ast.AssignStmt:
		g.must(len(s.Lhs) == 1 && len(s.Rhs) == 1, s, "unsupported assignment shape")
		define := s.Tok == token.DEFINE
		g.must(define || s.Tok == token.ASSIGN, s, "unsupported assignment operator %s", s.Tok)
		switch l := s.Lhs[0].(type) {
		case *ast.Ident:
			g.must(define, s, "re-assignment of a variable unsupported")
			g.must(l.Name != "_", s, "assignment to the blank identifier unsupported")
			g.newName(l, st)
			g.must(st.vars[l.Name].k != k14Err, l, "variable name clashes with an error variable")
			v := g.expr(s.Rhs[0], st)
			g.must(k14lean[v.k] != "" && k14prefix[v.k] != "", s.Rhs[0], "a %s cannot be held in a new variable here", k14names[v.k])
			n := g.fresh(v.k)
			st.vars[l.Name] = v14{k: v.k, s: n, p: pAtom}
			return joinLines([]string{"let " + n + " : " + k14lean[v.k] + " := " + v.s}, k(st))
		case *ast.IndexExpr:
			g.must(!define, s, "element on the left of :=")
			id, ok := g.unparen(l.X).(*ast.Ident)
			g.must(ok, l, "unsupported assignment target")
			base, known := st.vars[id.Name]
			g.must(known, id, "unknown identifier")
			switch base.k {
			case k14Hw: // hwaddr[i] = byte(b)
				var idx string
				if n, ok := g.intLit(l.Index); ok {
					idx = strconv.Itoa(n)
				} else {
					iv := g.expr(l.Index, st)
					g.must(iv.k == k14Idx, l.Index, "index is a %s", k14names[iv.k])
					idx = w14(iv, pAtom)
				}
				c, ok := g.unparen(s.Rhs[0]).(*ast.CallExpr)
				g.must(ok && isIdent(c.Fun, "byte"), s.Rhs[0], "the element stored must be a byte(…) conversion")
				v := g.expr(s.Rhs[0], st)
				return "match storeAt " + base.s + " " + idx + " " + w14(v, pAtom) + " with\n| none => " + g.errOut(".indexPanic", st) +
					"\n| some " + base.s + " =>\n" + indent(k(st))
			case k14Map: // records[key] = &Record{…}
				key := g.expr(l.Index, st)
				g.must(key.k == k14Text, l.Index, "the key is a %s", k14names[key.k])
				u, ok := g.unparen(s.Rhs[0]).(*ast.UnaryExpr)
				g.must(ok && u.Op == token.AND, s.Rhs[0], "the map stores pointers to Record literals: expected &Record{…}")
				cl, ok := g.unparen(u.X).(*ast.CompositeLit)
				g.must(ok && cl.Type != nil && isIdent(cl.Type, "Record"), s.Rhs[0], "the map stores pointers to Record literals: expected &Record{…}")
				vals := map[string]string{}
				want := map[string]k14{"IP": k14IP, "expires": k14Int, "hostname": k14Text}
				for _, el := range cl.Elts {
					kv, ok := el.(*ast.KeyValueExpr)
					g.must(ok, el, "composite literal element without a key")
					f, ok := kv.Key.(*ast.Ident)
					g.must(ok && want[f.Name] != k14None && vals[f.Name] == "", kv.Key, "unknown or repeated field in the literal")
					v := g.expr(kv.Value, st)
					g.must(v.k == want[f.Name], kv.Value, "%s given a %s", f.Name, k14names[v.k])
					vals[f.Name] = v.s
				}
				g.must(len(vals) == 3, cl, "the literal must give IP, expires and hostname")
				return joinLines([]string{"let " + base.s + " : RecMap := mapStore " + base.s + " " + w14(key, pAtom) +
					" { IP := " + vals["IP"] + ", expires := " + vals["expires"] + ", hostname := " + vals["hostname"] + " }"}, k(st))
			}
			g.fail(l, "element assignment to a %s unsupported", k14names[base.k])
		case *ast.SelectorExpr: // p.leasedb = db
			g.must(!define && isIdent(l.X, g.recv) && g.recv != "" && l.Sel.Name == "leasedb" && g.fn == "registerBackingDB", l, "unsupported assignment target")
			v := g.expr(s.Rhs[0], st)
			g.must(v.k == k14Db, s.Rhs[0], "p.leasedb assigned a %s", k14names[v.k])
			st.leasedb = "leasedb"
			return joinLines([]string{"let leasedb : Option Db := some " + w14(v, pAtom)}, k(st))
		}
		g.fail(s.Lhs[0], "unsupported assignment target")
	case *ast.RangeStmt: // for i, part := range parts { … }
		g.must(g.inLoop == "", s, "nested loops unsupported")
		g.must(s.Tok == token.DEFINE && s.Key != nil && s.Value != nil, s, "expected `for i, x := range list { … }`")
		key, ok1 := s.Key.(*ast.Ident)
		val, ok2 := s.Value.(*ast.Ident)
		g.must(ok1 && ok2 && val.Name != "_", s, "expected `for i, x := range list { … }`")
		l := g.expr(s.X, st)
		g.must(l.k == k14Parts, s.X, "range over a %s unsupported", k14names[l.k])
		state := g.loopState(s.Body, st)
		body := g.loopEnv(st, state)
		iname, xname := g.fresh(k14Idx), g.fresh(k14Chars)
		if key.Name != "_" {
			g.newName(key, st)
			body.vars[key.Name] = v14{k: k14Idx, s: iname, p: pAtom}
		}
		g.must(val.Name != key.Name, val, "the same name twice")
		g.newName(val, st)
		body.vars[val.Name] = v14{k: k14Chars, s: xname, p: pAtom}
		sv := st.vars[state]
		g.loopBody(s.Body, body, state, g.fn+"Body", "("+sv.s+" : "+k14lean[sv.k]+") ("+iname+" : Nat) ("+xname+" : List Char)",
			"the body of the loop `for i, x := range list` of `"+g.fn+"` (plugins/range/storage.go), translated from its go/ast:\n`.ok` = the state for the next round, `.error` = the function returns that error.")
		return "match forIdx " + g.fn + "Body " + sv.s + " " + w14(l, pAtom) + " with\n| .error e => " + g.errOut("e", st) + "\n| .ok " + sv.s + " =>\n" + indent(k(st))
	case *ast.ForStmt: // for rows.Next() { … }
		g.must(g.inLoop == "", s, "nested loops unsupported")
		g.must(s.Init == nil && s.Post == nil && s.Cond != nil, s, "expected `for rows.Next() { … }`")
		recv, name, c, ok := g.method(s.Cond)
		g.must(ok && name == "Next" && len(c.Args) == 0, s.Cond, "expected `for rows.Next() { … }`")
		id, ok := g.unparen(recv).(*ast.Ident)
		g.must(ok && st.vars[id.Name].k == k14Rows, recv, "expected `for rows.Next() { … }` on the rows of the query")
		g.must(st.closed[id.Name] && !st.rowsDone[id.Name], s, "the rows are iterated twice, or not closed")
		state := g.loopState(s.Body, st)
		body := g.loopEnv(st, state)
		body.inRows = id.Name
		sv := st.vars[state]
		g.loopBody(s.Body, body, state, g.fn+"Body", "(parseIP : String → NetIP) ("+sv.s+" : "+k14lean[sv.k]+") (row : RawRow)",
			"the body of the loop `for rows.Next()` of `"+g.fn+"` (plugins/range/storage.go), translated from its go/ast; `row` is what\nScan delivers for the current row, BY COLUMN: a variable scanned from the i-th column of the select list is that column of `row`.\n`.ok` = the map for the next round, `.error` = the function returns that error.")
		st.rowsDone[id.Name] = true
		return "match forEach (" + g.fn + "Body parseIP) " + sv.s + " q.rows with\n| .error e => " + g.errOut("e", st) + "\n| .ok " + sv.s + " =>\n" + indent(k(st))
	}
	g.fail(s, "unsupported statement")
	return ""
}

// loopState: the one variable of the enclosing function the loop body stores into (x[i] = …)
func (g *s14) loopState(body *ast.BlockStmt, st *st14) string {
	state := ""
	ast.Inspect(body, func(n ast.Node) bool {
		switch n := n.(type) {
		case *ast.BranchStmt:
			g.fail(n, "break / continue / goto in a loop unsupported")
		case *ast.AssignStmt:
			for _, l := range n.Lhs {
				if ix, ok := l.(*ast.IndexExpr); ok {
					id, ok := g.unparen(ix.X).(*ast.Ident)
					g.must(ok, l, "unsupported assignment target")
					if _, outer := st.vars[id.Name]; outer {
						g.must(state == "" || state == id.Name, l, "the loop stores into two variables of the function")
						state = id.Name
					}
				}
			}
		}
		return true
	})
	g.must(state != "", body, "the loop stores into no variable of the function: nothing the vocabulary's loops can carry")
	k := st.vars[state].k
	g.must(k == k14Hw || k == k14Map, body, "a loop that stores into a %s is unsupported", k14names[k])
	return state
}

// loopEnv: what the body sees of the function's variables: the state, resources, errors, variables without a value
func (g *s14) loopEnv(st *st14, state string) *st14 {
	body := st.clone()
	for n, v := range st.vars {
		switch v.k {
		case k14Rows, k14Stmt, k14Err, k14Unset, k14Recv:
		default:
			if n != state && !(v.k == k14Db && v.query) {
				body.vars[n] = v14{k: k14Unset} // a value of the function: it would have to be passed to the body
			}
		}
	}
	return body
}

func (g *s14) loopBody(b *ast.BlockStmt, body *st14, state, name, params, doc string) {
	g.inLoop = state
	sv := body.vars[state]
	text := g.block(b.List, body, func(end *st14) string { return ".ok " + end.vars[state].s })
	g.inLoop = ""
	g.aux = append(g.aux, def(doc, name+" "+params+" : Except Err ("+k14lean[sv.k]+")", text))
}

// ------------------------------------------------------------------ functions

func (g *s14) sig(f *ast.FuncDecl, recv bool, params []string, results []string) []*ast.Ident {
	g.must(f.Type.TypeParams == nil && f.Body != nil, f.Name, "unsupported function form")
	if recv {
		g.must(f.Recv != nil && len(f.Recv.List) == 1 && len(f.Recv.List[0].Names) == 1 && g.src(f.Recv.List[0].Type) == "*PluginState", f.Name,
			"expected a method of *PluginState")
	} else {
		g.must(f.Recv == nil, f.Name, "expected a plain function")
	}
	var names []*ast.Ident
	var types []string
	for _, p := range f.Type.Params.List {
		g.must(len(p.Names) > 0, p, "unnamed parameter")
		for _, n := range p.Names {
			names = append(names, n)
			types = append(types, g.src(p.Type))
		}
	}
	g.must(fmt.Sprint(types) == fmt.Sprint(params), f.Type, "the parameters of %s are not %v", f.Name.Name, params)
	var res []string
	if f.Type.Results != nil {
		for _, r := range f.Type.Results.List {
			g.must(len(r.Names) == 0, r, "named results unsupported")
			res = append(res, g.src(r.Type))
		}
	}
	g.must(fmt.Sprint(res) == fmt.Sprint(results), f.Type, "the results of %s are not %v", f.Name.Name, results)
	return names
}

func (g *s14) start(f *ast.FuncDecl, name string) *st14 {
	g.fn, g.inLoop, g.recv = name, "", ""
	g.count = map[string]int{}
	st := &st14{vars: map[string]v14{}, closed: map[string]bool{}, rowsDone: map[string]bool{}}
	if f.Recv != nil {
		id := f.Recv.List[0].Names[0]
		g.must(id.Name != "_", id, "unnamed receiver")
		g.newName(id, st)
		g.recv = id.Name
		st.vars[id.Name] = v14{k: k14Recv}
	}
	return st
}

func (g *s14) param(id *ast.Ident, st *st14, v v14) {
	g.must(id.Name != "_", id, "unnamed parameter")
	g.newName(id, st)
	if v.s == "" && k14prefix[v.k] != "" {
		v.s, v.p = g.fresh(v.k), pAtom
	}
	st.vars[id.Name] = v
}

func (g *s14) body(f *ast.FuncDecl, st *st14) string {
	return g.block(f.Body.List, st, func(*st14) string {
		g.fail(f.Name, "control reaches the end of the function without a return")
		return ""
	})
}

func (g *s14) flush(out *strings.Builder) {
	for _, a := range g.aux {
		out.WriteString(a)
	}
	g.aux = nil
}

func (g *s14) checkRecord(path string) {
	file, err := parser.ParseFile(g.fset, path, nil, parser.SkipObjectResolution)
	if err != nil {
		fmt.Fprintln(os.Stderr, "gen: parse:", err)
		os.Exit(2)
	}
	found := false
	for _, d := range file.Decls {
		gd, ok := d.(*ast.GenDecl)
		if !ok || gd.Tok != token.TYPE {
			continue
		}
		for _, sp := range gd.Specs {
			ts := sp.(*ast.TypeSpec)
			if ts.Name.Name != "Record" {
				continue
			}
			stt, ok := ts.Type.(*ast.StructType)
			g.must(ok, ts, "Record is not a struct")
			var fields [][2]string
			for _, f := range stt.Fields.List {
				g.must(len(f.Names) > 0, f, "embedded field in Record")
				for _, n := range f.Names {
					fields = append(fields, [2]string{n.Name, g.src(f.Type)})
				}
			}
			g.must(fmt.Sprint(fields) == fmt.Sprint(r8structs["Record"]), ts, "the fields of Record are not %v", r8structs["Record"])
			found = true
		}
	}
	g.must(found, file.Name, "type Record not found in %s", path)
}

const gen14Header = `-- GENERATED by harness gen -unit storage from plugins/range/storage.go — do not edit
-- Regenerated from the Go source on every run; Props/GenStorage.lean proves these definitions equal to the
-- hand-written models (Model/HwKey.lean, Model/Range.lean) and specs (Model/Storage.lean).
-- The vocabulary (what a recognised Go expression means) is Model/Storage.lean; the table is in the header of gen14.go.
import CoreDhcp.Model.Storage
set_option linter.unusedVariables false
namespace CoreDhcp.GenStorage
open CoreDhcp.Storage

`

func runGen14(srcArg, outPath string) {
	die := func(a ...interface{}) {
		fmt.Fprintln(os.Stderr, append([]interface{}{"gen:"}, a...)...)
		os.Exit(2)
	}
	srcPath := storageSrc
	pluginPath := ""
	if srcArg != "" { // storage.go[,plugin.go]
		p := strings.Split(srcArg, ",")
		if len(p) > 2 {
			die("-src for unit storage is storage.go[,plugin.go]")
		}
		srcPath = p[0]
		if len(p) == 2 {
			pluginPath = p[1]
		}
	}
	if pluginPath == "" {
		pluginPath = filepath.Join(filepath.Dir(srcPath), "plugin.go")
	}
	g := &s14{gen: &gen{fset: token.NewFileSet()}, imports: map[string]string{}, funcs: map[string]*ast.FuncDecl{}, count: map[string]int{}}
	file, err := parser.ParseFile(g.fset, srcPath, nil, parser.SkipObjectResolution)
	if err != nil {
		die("parse:", err)
	}
	for _, im := range file.Imports {
		p, _ := strconv.Unquote(im.Path.Value)
		name := filepath.Base(p)
		if im.Name != nil {
			name = im.Name.Name
		}
		if name == "_" || name == "." {
			g.must(name == "_" && p == "github.com/mattn/go-sqlite3", im, "unsupported import")
			continue
		}
		g.imports[name] = p
		if want, ok := s14pkgs[name]; ok {
			g.must(p == want, im, "package name %s stands for %s in the vocabulary", name, want)
		}
	}
	known := []string{"loadDB", "parseHWAddr", "loadRecords", "saveIPAddress", "registerBackingDB"}
	for _, d := range file.Decls {
		switch d := d.(type) {
		case *ast.FuncDecl:
			g.must(g.funcs[d.Name.Name] == nil, d.Name, "function declared twice")
			ok := false
			for _, k := range known {
				ok = ok || k == d.Name.Name
			}
			g.must(ok, d.Name, "a function the unit does not know (it translates %v and nothing may be skipped)", known)
			g.funcs[d.Name.Name] = d
		case *ast.GenDecl:
			g.must(d.Tok == token.IMPORT, d, "a package-level declaration the unit does not know")
		}
	}
	for _, k := range known {
		if g.funcs[k] == nil {
			die(srcPath+": function", k, "not found")
		}
	}
	g.checkRecord(pluginPath)
	var out strings.Builder
	out.WriteString(gen14Header)

	// ---- loadDB
	f := g.funcs["loadDB"]
	ps := g.sig(f, false, []string{"string"}, []string{"*sql.DB", "error"})
	st := g.start(f, "loadDB")
	g.param(ps[0], st, v14{k: k14Text})
	loadDB := g.body(f, st)
	g.must(g.create != nil, f.Name, "loadDB creates no table")
	q := g.create
	var cols []string
	for i, c := range q.cols {
		cols = append(cols, "{ name := "+leanStr14(c)+", type := "+leanStr14(q.types[i])+", notNull := "+strconv.FormatBool(q.notNull[i])+" }")
	}
	out.WriteString(def("the `create table` statement `loadDB` executes, parsed from its text: the columns with their declared types, in\norder, and the primary key.",
		"schema : Schema", "{ table := "+leanStr14(q.table)+", ifNotExists := "+strconv.FormatBool(q.ifNotEx)+",\n  columns := ["+strings.Join(cols, ",\n              ")+"],\n  primaryKey := "+leanStrList(q.pkey)+" }"))
	g.flush(&out)
	out.WriteString(def("`loadDB` (plugins/range/storage.go), translated from its go/ast; `o` = the errors of sql.Open and of the Exec.",
		"loadDB (o : DbOracle) (s1 : String) : Except Err Db", loadDB))

	// ---- parseHWAddr
	f = g.funcs["parseHWAddr"]
	ps = g.sig(f, false, []string{"string"}, []string{"net.HardwareAddr", "error"})
	st = g.start(f, "parseHWAddr")
	g.param(ps[0], st, v14{k: k14Text})
	text := g.body(f, st)
	g.flush(&out)
	out.WriteString(def("`parseHWAddr` (plugins/range/storage.go), translated from its go/ast.\nModel: `CoreDhcp.parseHWAddr` (Model/HwKey.lean).",
		"parseHWAddr (s1 : String) : Except Err (List Nat)", text))

	// ---- loadRecords
	f = g.funcs["loadRecords"]
	ps = g.sig(f, false, []string{"*sql.DB"}, []string{"map[string]*Record", "error"})
	st = g.start(f, "loadRecords")
	g.param(ps[0], st, v14{k: k14Db, query: true, s: "q"})
	text = g.body(f, st)
	g.must(g.sel != nil, f.Name, "loadRecords queries nothing")
	out.WriteString(def("the query of `loadRecords`, parsed from its text.", "loadQuery : Select",
		"{ table := "+leanStr14(g.sel.table)+", columns := "+leanStrList(g.sel.cols)+" }"))
	g.flush(&out)
	out.WriteString(def("`loadRecords` (plugins/range/storage.go), translated from its go/ast; `q` = the driver's answer to `loadQuery`,\n`parseIP` = net.ParseIP.  Model: `CoreDhcp.loadRecords` (Model/Range.lean) through `Storage.loadSpec`.",
		"loadRecords (parseIP : String → NetIP) (q : QueryResult) : Except Err RecMap", text))

	// ---- saveIPAddress
	f = g.funcs["saveIPAddress"]
	ps = g.sig(f, true, []string{"net.HardwareAddr", "*Record"}, []string{"error"})
	st = g.start(f, "saveIPAddress")
	g.param(ps[0], st, v14{k: k14Hw})
	g.param(ps[1], st, v14{k: k14RecPtr})
	g.saveSig = "(h1 : List Nat) (r1 : GRecord)"
	text = g.body(f, st)
	g.must(g.insert != nil, f.Name, "saveIPAddress prepares nothing")
	g.flush(&out)
	out.WriteString(def("`(*PluginState).saveIPAddress` (plugins/range/storage.go), translated from its go/ast; `prepareErr`, `execErr` = the\nerrors of Prepare and Exec; `.ok stmt` = the statement was executed.",
		"saveIPAddress (prepareErr execErr : Bool) (h1 : List Nat) (r1 : GRecord) : Except Err Insert", text))

	// ---- registerBackingDB
	f = g.funcs["registerBackingDB"]
	ps = g.sig(f, true, []string{"string"}, []string{"error"})
	st = g.start(f, "registerBackingDB")
	st.leasedb = "leasedb"
	g.param(ps[0], st, v14{k: k14Text})
	text = g.body(f, st)
	g.flush(&out)
	out.WriteString(def("`(*PluginState).registerBackingDB` (plugins/range/storage.go), translated from its go/ast: (the new `p.leasedb`, the result).",
		"registerBackingDB (leasedb : Option Db) (o : DbOracle) (s1 : String) : Option Db × Except Err Unit", text))

	// ---- the three statements speak of one table, with the same spelling of the names
	g.must(g.insert.table == g.create.table, g.insert.src, "the insert goes into `%s`, the table created is `%s`", g.insert.table, g.create.table)
	g.must(g.sel.table == g.create.table, g.sel.src, "the select reads `%s`, the table created is `%s`", g.sel.table, g.create.table)
	for _, q := range []*sql14{g.insert, g.sel} {
		for _, c := range q.cols {
			found := false
			for _, d := range g.create.cols {
				found = found || c == d
			}
			g.must(found, q.src, "column `%s` is not a column of the table created (%v)", c, g.create.cols)
		}
	}

	// ---- probes: the real library functions, run here
	g.must(g.puBase != 0 && g.sep != "", file.Name, "no ParseUint / Split call found")
	var pr []string
	for _, s := range []string{"", "0", "7", "07", "0a", "a", "A", "fF", "ff", "FF", "100", "1ff", "001", "000", "00", "g", "g1", "1g", "+1", "-1", "_1", "1_0",
		"0x1f", "0X1", "0b1", "0o7", " 1", "1 ", "é", "١", "255", "256", "99", "10", "z", "Z", "1e", "e1", "1:2", "65535", "65536", "18446744073709551616"} {
		v, err := strconv.ParseUint(s, g.puBase, g.puBits)
		r := "none"
		if err == nil {
			r = "some " + strconv.FormatUint(v, 10)
		}
		pr = append(pr, "("+leanStr14(s)+", "+r+")")
	}
	out.WriteString(def(fmt.Sprintf("what the REAL `strconv.ParseUint(s, %d, %d)` (base and bit size read from the source) returns, computed by the translator\nwhen it ran: `none` = an error.", g.puBase, g.puBits),
		"parseUintProbes : List (String × Option Nat)", "["+strings.Join(pr, ", ")+"]"))
	out.WriteString(def("base and bit size of the ParseUint call of the source", "parseUintArgs : Nat × Nat", fmt.Sprintf("(%d, %d)", g.puBase, g.puBits)))
	pr = nil
	for _, s := range []string{"", ":", "-", "a", "a:b", ":a", "a:", "a::b", "::", "0a:1b", "1:2", "a-b", "-a", "a-", "01:02:03:04:05:06", "é:١"} {
		pr = append(pr, "("+leanStr14(s)+", "+leanStrList(strings.Split(s, g.sep))+")")
	}
	out.WriteString(def(fmt.Sprintf("what the REAL `strings.Split(s, %q)` (separator read from the source) returns, computed by the translator when it ran.", g.sep),
		"splitProbes : List (String × List String)", "["+strings.Join(pr, ", ")+"]"))
	out.WriteString(def("the separator of the Split call of the source", "splitSep : Char", "'"+g.sep+"'"))
	out.WriteString("end CoreDhcp.GenStorage\n")
	if err := os.WriteFile(outPath, []byte(out.String()), 0o644); err != nil {
		die(err)
	}
	fmt.Printf("gen: wrote %s (%d bytes) from %s and %s\n", outPath, out.Len(), srcPath, pluginPath)
}
