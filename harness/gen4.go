// gen4.go — `harness gen -unit alloc6`: the IPv6 prefix allocator, regenerated as Lean definitions
// (namespace CoreDhcp.GenA6, file CoreDhcp/Generated/Alloc6.lean) from the go/ast of
//
//	plugins/allocators/bitmap/bitmap.go   toIndex, toPrefix, contains, Allocate, Free, NewBitmapAllocator
//
// Props/GenAlloc6.lean proves every generated definition equal to the hand-written model
// (Model/Alloc6.lean over Model/Bits.lean and Model/IPCalc.lean).
//
// Same scheme as gen3.go (unit alloc4): the translator goes through the functions statement by
// statement, knows ONLY the constructs these functions use, and fails loudly (source position,
// exit code 2) on everything else.  One function is not translated statement by statement:
// `contains` (length guards, then a loop over the 16 bytes comparing ip[i]&Mask[i] with IP[i]&Mask[i])
// is RECOGNISED by its exact shape (containsShape below: every statement, condition, operator,
// operand and constant is compared with the expected one, names apart; any deviation is exit 2)
// and mapped to the vocabulary item `containsIP`.  Reason: the model has no bytes (an address is
// two 64-bit halves, a mask is its number of ones), so a statement-wise translation would need a
// byte-level vocabulary for net.IP / net.IPMask, and the theorem "byte-wise masked equality =
// equality of the quotients by 2^(128-ones)" would be about that vocabulary, not about the source.
// The call sites `a.contains(x)` are translated from the AST like every other call.
//
// Derived from the AST: the conditions (operators, operands, their order), the arithmetic, the
// order of the statements, which bitset method is called with which argument, which library
// function is called with which arguments in which order, which value is returned next to which
// error, which error wraps which (`%w`), the integer constants.
//
// Fixed vocabulary (header of the generated file, and the tables below):
//   - the state: `*Allocator` ↦ the model's record `A6` (containing.IP ↦ pool.base, the ones of
//     containing.Mask ↦ pool.poolLen, page ↦ pool.page, bitmap ↦ bm); the struct declaration is
//     checked to have exactly these fields (and `l`).  `a.page` is the Go int `(a.pool.page : Int)`.
//   - types: int ↦ Int (taken to be 64 bits wide: `x - y` is `wrapInt (x - y)`); uint64 ↦ BitVec 64;
//     uint ↦ Nat (64 bits wide: `c << n` is `wrapUint (c <<< n)`, `uint(i)` of an int is `uintOfInt i`);
//     a net.IP value ↦ Option Addr: `some x` = a 16-byte slice (IPv4-mapped or not), `none` = every
//     other net.IP (nil, 4 bytes, net.IP{}, other lengths); `a.containing.IP` ↦ Addr;
//     a net.IPNet parameter ↦ the model's Hint6 (ip, and ones, bits = Mask.Size()); the net.IPNet
//     a function builds ↦ IPNet (ip, and the arguments of the net.CIDRMask call that made Mask);
//     error ↦ Option Err; *Allocator ↦ Option A6; multiple results ↦ a tuple.
//   - library calls: allocators.Offset / AddPrefixes ↦ the MODEL's offset / addPrefixes (their own
//     tie to the source is unit ipcalc) as Go's (value, error) pair: offsetGo / addPrefixesGo;
//     x.Mask.Size() ↦ maskSize; x.IP.Mask(x.Mask) ↦ ipMask (partial, see outcomes);
//     the method `contains` (recognised, see above) ↦ containsIP; net.CIDRMask(n, b) ↦ some (n, b);
//     strconv.IntSize ↦ 64; bitset.Cap() ↦ bitsetCap = 2^64-1; log.Warningln("…") ↦ nothing.
//   - bitset: a.bitmap.Test/Set/Clear(x) ↦ Bits.test/set/clear, NextClear(0) ↦ nextClear0
//     (Bits.nextClear as Go's (index, ok) pair), bitset.New(n) ↦ Bits.new n.
//   - outcomes: a function body yields `.ret v` or `.outside what` (type Out); Allocate and Free also
//     yield the new state: `(a, outcome)`.  `.outside` marks the inputs the vocabulary above has no
//     meaning for: allocators.Offset / AddPrefixes applied to a `none` address (the model of ipcalc
//     is about 16-byte addresses; Go panics on a shorter slice), x.IP.Mask(x.Mask) for a 16-byte
//     x.IP when x.Mask.Size() is (0, 0) (that is a nil mask, result nil, and also a 128-bit mask
//     that is not a prefix mask, result 16 bytes the vocabulary cannot name), and `Allocator{…}`
//     whose fields the record A6 cannot hold (IP not 16 bytes, mask not 128 bits, negative page).  The
//     call that may end like this is hoisted in front of its statement as a `match`.
//   - the mutex: `a.l.Lock()` immediately followed by `defer a.l.Unlock()`, at the top level of
//     Allocate/Free, exactly once; it is translated to nothing, but every bitset access must come
//     after it and `a.l` must not be mentioned anywhere else.
//   - error values ↦ constructors of Err (table err6Strings); the arguments of `%s` / `%d` only
//     show in the message and are not translated.
//   - names: receiver ↦ a, parameters ↦ p1 p2 …, named results ↦ r1 r2 …, locals ↦ x1 x2 … in
//     the order of their declaration, hoisted values ↦ t1 t2 …  (Go names never reach the text:
//     renaming a variable regenerates the same file).
//   - control: statements ↦ nested `if … then … else …` / `let`; an `if` that does not return gets
//     the rest of the enclosing block duplicated into both branches; re-assignment is a shadowing
//     `let`; a variable declared in an inner block (also one that shadows an outer one: `hintErr`)
//     gets a fresh name and ends with the block.  One special case: an `if` without `else` whose
//     body is a single assignment `v = e` to a numeric variable is `let v := if c then e else v`.
package main

import (
	"fmt"
	"go/ast"
	"go/parser"
	"go/token"
	"os"
	"strconv"
	"strings"
)

const alloc6Src = "/repo/plugins/allocators/bitmap/bitmap.go"

type k4 int

const (
	kUntyped k4 = iota // untyped integer constant
	kInt               // int ↦ Int
	kU64               // uint64 ↦ BitVec 64
	kNat               // uint ↦ Nat
	kBool              // Lean Bool
	kProp              // decidable Prop
	kIPopt             // net.IP ↦ Option Addr
	kIP6               // a.containing.IP ↦ Addr
	kHint              // net.IPNet (parameter) ↦ Hint6
	kNet               // net.IPNet (result) ↦ IPNet
	kMask              // net.IPMask made by net.CIDRMask ↦ Option (Int × Int)
	kErr               // error ↦ Option Err
	kA6                // Allocator (value) ↦ A6
	kA6ptr             // *Allocator (result) ↦ Option A6
	kPool              // a.containing ↦ Pool6 (only .IP and, in a message, .String())
	kRecv              // the receiver ↦ A6
)

var k4Names = map[k4]string{kUntyped: "untyped constant", kInt: "int", kU64: "uint64", kNat: "uint", kBool: "bool", kProp: "bool",
	kIPopt: "net.IP", kIP6: "16-byte net.IP", kHint: "net.IPNet", kNet: "net.IPNet (result)", kMask: "net.IPMask", kErr: "error",
	kA6: "Allocator", kA6ptr: "*Allocator", kPool: "the field containing", kRecv: "receiver"}
var k4Lean = map[k4]string{kInt: "Int", kU64: "BitVec 64", kNat: "Nat", kBool: "Bool", kIPopt: "Option Addr", kIP6: "Addr",
	kHint: "Hint6", kNet: "IPNet", kMask: "Option (Int × Int)", kErr: "Option Err", kA6: "A6", kA6ptr: "Option A6"}
var k4Zero = map[k4]string{kInt: "0", kNat: "0", kNet: "⟨none, none⟩", kErr: "none"}
var k4Param = map[string]k4{"int": kInt, "uint": kNat, "net.IP": kIPopt, "net.IPNet": kHint}
var k4Result = map[string]k4{"uint": kNat, "net.IP": kIPopt, "net.IPNet": kNet, "error": kErr, "*Allocator": kA6ptr}

var a6Struct = [][2]string{{"containing", "net.IPNet"}, {"page", "int"}, {"bitmap", "*bitset.BitSet"}, {"l", "sync.Mutex"}}

type errSpec struct {
	ctor  string
	verbs string // the verbs of the format, in order: w = wrapped error, s, d
}

var err6Strings = map[string]errSpec{
	"fmt.Errorf|Cannot compute prefix index: %w":                                                      {".errIndex", "w"},
	"fmt.Errorf|BUG: could not get prefix from allocation: %w":                                        {".errBug", "w"},
	"fmt.Errorf|Could not find prefix in pool: %s is outside of %s":                                   {".errOutside", "ss"},
	"fmt.Errorf|Could not find prefix in pool: %w":                                                    {".errNotFound", "w"},
	"errors.New|The size of allocated prefixes cannot be larger than the pool they're allocated from": {".errNewSmall", ""},
	"fmt.Errorf|A pool with more than 2^%d items is not representable":                                {".errNewLarge", "d"},
	"errors.New|Can't fit this pool using the bitmap allocator":                                       {".errNewCap", ""},
}
var err6Selectors = map[string]string{"allocators.ErrNoAddrAvail": ".errNoAddrAvail"}

// calls of the package-level logger that return (Fatal…/Panic… do not)
var logCalls = map[string]bool{"Warningln": true, "Warnln": true, "Infoln": true, "Debugln": true, "Println": true,
	"Warning": true, "Warn": true, "Info": true, "Debug": true, "Print": true}

const outsideIP = "allocators.Offset/AddPrefixes of a net.IP that is not 16 bytes long"
const outsideMask = "x.IP.Mask(x.Mask) of a 16-byte IP with a mask whose Size() is (0, 0)"
const outsideA6 = "Allocator{…} that is not a 16-byte IP with a 128-bit mask and a non-negative page"

var reserved4 = map[string]bool{}

func init() {
	for _, w := range strings.Fields(`nil true false int uint uint64 make panic len net bitset errors fmt allocators sync strconv
		log logger Allocator NewBitmapAllocator IPv6len`) {
		reserved4[w] = true
	}
}

const pNot = 40 // `!b` parses its operand at 40: parenthesise it next to a comparison

type v4 struct {
	lean  string
	t     k4
	scope int // the block that declared it
}

// env4: Go name ↦ variable, the facts established along the path ("locked"), the current block.
type env4 struct {
	vars  map[string]v4
	facts map[string]bool
	scope int
}

func (e env4) bind(name string, v v4) env4 {
	n := env4{vars: map[string]v4{name: v}, facts: e.facts, scope: e.scope}
	for k, x := range e.vars {
		if k != name {
			n.vars[k] = x
		}
	}
	return n
}

func (e env4) fact(f string) env4 {
	n := env4{vars: e.vars, facts: map[string]bool{f: true}, scope: e.scope}
	for k := range e.facts {
		n.facts[k] = true
	}
	return n
}

type ex4 struct {
	s   string
	t   k4
	p   int
	lit string
}

// pend4 is a hoisted partial sub-expression: `match scrut with | <outside> => … | <value name> => rest`.
type pend4 struct {
	out   bool // scrutinee is an Out (call of a generated function); else an Option
	scrut string
	name  string
	what  string // for an Option: the message of `.outside`
}

type fspec4 struct {
	name     string
	method   bool // has the *Allocator receiver
	stateful bool // holds the mutex and may change the bitmap: yields (state, outcome)
	shape    bool // recognised by its exact shape (containsShape), not translated statement by statement
}

var alloc6Funcs = []fspec4{{"toIndex", true, false, false}, {"toPrefix", true, false, false}, {"contains", true, false, true},
	{"Allocate", true, true, false}, {"Free", true, true, false}, {"NewBitmapAllocator", false, false, false}}

type sig4 struct {
	lean    string
	params  []k4
	results []k4
}

type a6gen struct {
	*gen
	hasLog bool            // package-level `var log = logger.GetLogger(…)`
	sigs   map[string]sig4 // the pure methods translated so far, callable from the later ones
	totals map[string]sig4 // the recognised methods (total, one result): called directly
	// per function
	fn      fspec4
	recv    string
	results []k4
	named   []string // Go names of the named results
	names   map[token.Pos]string
	count   map[string]int
	scopes  map[token.Pos]int
	pend    []pend4
}

func w4(e ex4, min int) string {
	if e.p < min {
		return "(" + e.s + ")"
	}
	return e.s
}

func (g *a6gen) fresh(pos token.Pos, prefix string) string {
	if n, ok := g.names[pos]; ok {
		return n
	}
	g.count[prefix]++
	n := prefix + strconv.Itoa(g.count[prefix])
	g.names[pos] = n
	return n
}

// scopeOf numbers the blocks (the function body is 0); the same block gets the same number in
// every copy of a duplicated continuation.
func (g *a6gen) scopeOf(pos token.Pos) int {
	if n, ok := g.scopes[pos]; ok {
		return n
	}
	n := len(g.scopes) + 1
	g.scopes[pos] = n
	return n
}

func (g *a6gen) variable(x ast.Expr, e env4) (v4, bool) {
	id, ok := x.(*ast.Ident)
	if !ok {
		return v4{}, false
	}
	v, ok := e.vars[id.Name]
	return v, ok
}

func (g *a6gen) recvLean(e env4) string { return e.vars[g.recv].lean }

// ---------------------------------------------------------------- expressions

func (g *a6gen) literal(n ast.Node, digits string, want k4) ex4 {
	switch want {
	case kU64:
		return ex4{s: digits + "#64", t: kU64, p: pAtom, lit: digits}
	case kInt, kNat, kUntyped:
		return ex4{s: digits, t: want, p: pAtom, lit: digits}
	}
	g.fail(n, "integer constant used as %s", k4Names[want])
	return ex4{}
}

func (g *a6gen) pair(n ast.Node, l, r ast.Expr, e env4) (ex4, ex4) {
	a, b := g.expr(l, e, kUntyped), g.expr(r, e, kUntyped)
	g.must(a.t != kUntyped || b.t != kUntyped, n, "constant expression (operation on two constants) unsupported")
	if a.t == kUntyped {
		a = g.expr(l, e, b.t)
	}
	if b.t == kUntyped {
		b = g.expr(r, e, a.t)
	}
	g.must(a.t == b.t, n, "mismatched operand types %s and %s", k4Names[a.t], k4Names[b.t])
	return a, b
}

// pure translates an expression that must not have a hoisted part.
func (g *a6gen) pure(x ast.Expr, e env4, want k4, what string) ex4 {
	before := len(g.pend)
	v := g.expr(x, e, want)
	g.must(len(g.pend) == before, x, "%s that may end outside the vocabulary is unsupported here", what)
	return v
}

func (g *a6gen) expr(x ast.Expr, e env4, want k4) ex4 {
	switch x := x.(type) {
	case *ast.ParenExpr:
		return g.expr(x.X, e, want)
	case *ast.BasicLit:
		v, err := strconv.ParseUint(x.Value, 0, 63)
		g.must(x.Kind == token.INT && err == nil, x, "unsupported literal")
		return g.literal(x, strconv.FormatUint(v, 10), want)
	case *ast.Ident:
		v, ok := e.vars[x.Name]
		g.must(ok, x, "unknown identifier")
		g.must(v.t != kRecv, x, "the receiver may only be used through its fields and methods")
		return ex4{s: v.lean, t: v.t, p: pAtom}
	case *ast.SelectorExpr:
		if g.src(x) == "strconv.IntSize" { // int and uint are taken to be 64 bits wide
			return g.literal(x, "64", want)
		}
		if v, ok := g.variable(x.X, e); ok {
			switch {
			case v.t == kRecv && x.Sel.Name == "page":
				return ex4{s: "(" + v.lean + ".pool.page : Int)", t: kInt, p: pAtom}
			case v.t == kRecv && x.Sel.Name == "containing":
				return ex4{s: v.lean + ".pool", t: kPool, p: pAtom}
			case v.t == kHint && x.Sel.Name == "IP":
				return ex4{s: v.lean + ".ip", t: kIPopt, p: pAtom}
			}
			g.fail(x, "unknown field access (field %s of a %s)", x.Sel.Name, k4Names[v.t])
		}
		if in, ok := x.X.(*ast.SelectorExpr); ok {
			if _, isVar := g.variable(in.X, e); isVar {
				v := g.expr(in, e, kUntyped)
				if v.t == kPool && x.Sel.Name == "IP" {
					return ex4{s: v.s + ".base", t: kIP6, p: pAtom}
				}
				g.fail(x, "unknown field access (field %s of %s)", x.Sel.Name, k4Names[v.t])
			}
		}
		g.fail(x, "unknown field access or selector")
	case *ast.UnaryExpr:
		g.must(x.Op == token.NOT, x, "unsupported unary operator %s", x.Op)
		c := g.expr(x.X, e, kUntyped)
		g.must(c.t == kBool || c.t == kProp, x, "! of a %s", k4Names[c.t])
		if c.t == kBool {
			return ex4{s: "!" + w4(c, pAtom), t: kBool, p: pNot}
		}
		return ex4{s: "¬ " + w4(c, pAtom), t: kProp, p: pNot}
	case *ast.BinaryExpr:
		return g.binary(x, e, want)
	case *ast.CallExpr:
		return g.call(x, e, want)
	case *ast.CompositeLit:
		return g.composite(x, e)
	}
	g.fail(x, "unsupported expression")
	return ex4{}
}

func (g *a6gen) binary(x *ast.BinaryExpr, e env4, want k4) ex4 {
	switch x.Op {
	case token.LAND, token.LOR:
		before := len(g.pend)
		a, b := g.expr(x.X, e, kUntyped), g.expr(x.Y, e, kUntyped)
		g.must(len(g.pend) == before, x, "an operand of %s that may end outside the vocabulary is unsupported (it would be evaluated unconditionally)", x.Op)
		ok := func(t k4) bool { return t == kBool || t == kProp }
		g.must(ok(a.t) && ok(b.t), x, "operands of %s must be bool", x.Op)
		if a.t == kBool && b.t == kBool {
			op, p := "&&", pAnd
			if x.Op == token.LOR {
				op, p = "||", pOr
			}
			return ex4{s: w4(a, p+1) + " " + op + " " + w4(b, p+1), t: kBool, p: p}
		}
		prop := func(c ex4) ex4 {
			if c.t == kBool {
				return ex4{s: w4(c, pCmp+1) + " = true", t: kProp, p: pCmp}
			}
			return c
		}
		a, b = prop(a), prop(b)
		op, p := "∧", pAnd
		if x.Op == token.LOR {
			op, p = "∨", pOr
		}
		return ex4{s: w4(a, p+1) + " " + op + " " + w4(b, p+1), t: kProp, p: p}
	case token.EQL, token.NEQ, token.LSS, token.LEQ, token.GTR, token.GEQ:
		if isIdent(x.Y, "nil") {
			g.must(x.Op == token.EQL || x.Op == token.NEQ, x, "ordered comparison with nil")
			v, isVar := g.variable(x.X, e)
			g.must(isVar && v.t == kErr, x, "unrecognised nil test (only error variables)")
			return ex4{s: v.lean + " " + cmpOps[x.Op] + " none", t: kProp, p: pCmp}
		}
		a, b := g.pair(x, x.X, x.Y, e)
		g.must(a.t == kInt || a.t == kNat, x, "comparison of %s unsupported", k4Names[a.t])
		return ex4{s: w4(a, pCmp+1) + " " + cmpOps[x.Op] + " " + w4(b, pCmp+1), t: kProp, p: pCmp}
	case token.ADD, token.SUB:
		a, b := g.pair(x, x.X, x.Y, e)
		g.must(a.t == kInt, x, "arithmetic %s on %s unsupported (only int + and -)", x.Op, k4Names[a.t])
		return ex4{s: "wrapInt (" + w4(a, pAdd) + " " + x.Op.String() + " " + w4(b, pAdd+1) + ")", t: kInt, p: pApp}
	case token.SHL:
		// an untyped constant left operand takes its type from the context
		if want == kUntyped {
			l := g.expr(x.X, e, kUntyped)
			g.must(l.t == kUntyped, x, "shift of a %s unsupported (only constant << uint)", k4Names[l.t])
			return ex4{t: kUntyped} // placeholder: the caller re-translates with a type
		}
		g.must(want == kNat, x, "shift in a %s context unsupported (only uint)", k4Names[want])
		l := g.expr(x.X, e, kNat)
		n := g.expr(x.Y, e, kNat)
		g.must(l.lit != "" && n.t == kNat, x, "shift of %s by %s unsupported (only constant << uint)", k4Names[l.t], k4Names[n.t])
		return ex4{s: "wrapUint (" + l.s + " <<< " + w4(n, pShift+1) + ")", t: kNat, p: pApp}
	}
	g.fail(x, "unsupported binary operator %s", x.Op)
	return ex4{}
}

// method recognises `<recv>.<m>(…)` (field == "") and `<recv>.<field>.<m>(…)`.
func (g *a6gen) method(c *ast.CallExpr, e env4) (field, m string, ok bool) {
	sel, ok := c.Fun.(*ast.SelectorExpr)
	if !ok {
		return
	}
	if v, isVar := g.variable(sel.X, e); isVar && v.t == kRecv {
		return "", sel.Sel.Name, true
	}
	if in, isSel := sel.X.(*ast.SelectorExpr); isSel {
		if v, isVar := g.variable(in.X, e); isVar && v.t == kRecv {
			return in.Sel.Name, sel.Sel.Name, true
		}
	}
	return "", "", false
}

// hintCall recognises `<v>.<field>.<m>(…)` for a net.IPNet parameter v.
func (g *a6gen) hintCall(c *ast.CallExpr, e env4) (v v4, field, m string, ok bool) {
	sel, isSel := c.Fun.(*ast.SelectorExpr)
	if !isSel {
		return
	}
	in, isSel := sel.X.(*ast.SelectorExpr)
	if !isSel {
		return
	}
	v, isVar := g.variable(in.X, e)
	if !isVar || v.t != kHint {
		return
	}
	return v, in.Sel.Name, sel.Sel.Name, true
}

func (g *a6gen) args(c *ast.CallExpr, e env4, types ...k4) []string {
	g.must(len(c.Args) == len(types) && !c.Ellipsis.IsValid(), c, "expected %d arguments", len(types))
	var out []string
	for i, a := range c.Args {
		var v ex4
		if types[i] == kIP6 {
			v = g.ipArg(a, e)
		} else {
			v = g.expr(a, e, types[i])
		}
		if types[i] == kIPopt && v.t == kIP6 { // a 16-byte address as a net.IP
			v = ex4{s: "some " + w4(v, pAtom), t: kIPopt, p: pApp}
		}
		g.must(v.t == types[i], a, "argument is a %s, want %s", k4Names[v.t], k4Names[types[i]])
		out = append(out, w4(v, pAtom))
	}
	return out
}

// ipArg translates a net.IP argument of allocators.Offset / AddPrefixes: the model's functions
// take 16-byte addresses, so an Option Addr is taken apart first (`none` ends `.outside`).
func (g *a6gen) ipArg(x ast.Expr, e env4) ex4 {
	v := g.expr(x, e, kUntyped)
	if v.t == kIPopt {
		name := g.fresh(x.Pos(), "t")
		g.pend = append(g.pend, pend4{scrut: v.s, name: name, what: outsideIP})
		return ex4{s: name, t: kIP6, p: pAtom}
	}
	g.must(v.t == kIP6, x, "argument is a %s, want net.IP", k4Names[v.t])
	return v
}

// bitmapCall checks a call of a bitset method on the receiver's bitmap and returns its arguments.
func (g *a6gen) bitmapCall(c *ast.CallExpr, e env4, types ...k4) []string {
	g.must(g.fn.stateful, c, "bitset access in a function that does not hold the mutex")
	g.must(e.facts["locked"], c, "bitset access before `%s.l.Lock()`", g.recv)
	return g.args(c, e, types...)
}

// callGenerated hoists the call of an already translated pure method: the result is the name the
// hoisted `match` binds.
func (g *a6gen) callGenerated(c *ast.CallExpr, m string, e env4) (string, sig4) {
	sig, ok := g.sigs[m]
	g.must(ok, c, "call of a method that is not (yet) translated")
	as := g.args(c, e, sig.params...)
	name := g.fresh(c.Pos(), "t")
	g.pend = append(g.pend, pend4{out: true, scrut: strings.Join(append([]string{sig.lean, g.recvLean(e)}, as...), " "), name: name})
	return name, sig
}

func (g *a6gen) call(c *ast.CallExpr, e env4, want k4) ex4 {
	if field, m, ok := g.method(c, e); ok {
		switch {
		case field == "bitmap" && m == "Test":
			return ex4{s: g.recvLean(e) + ".bm.test " + g.bitmapCall(c, e, kNat)[0], t: kBool, p: pApp}
		case field == "bitmap" && (m == "Set" || m == "Clear"):
			g.fail(c, "%s changes the bitset: only supported as a statement", m)
		case field == "bitmap" && m == "NextClear":
			g.fail(c, "NextClear returns two values: only supported as `x, ok := %s.bitmap.NextClear(0)`", g.recv)
		case field == "" && g.totals[m].lean != "":
			sig := g.totals[m]
			return ex4{s: strings.Join(append([]string{sig.lean, g.recvLean(e)}, g.args(c, e, sig.params...)...), " "), t: sig.results[0], p: pApp}
		case field == "" && g.sigs[m].lean != "":
			g.fail(c, "%s returns %d values: only supported as `x, y := …`", m, len(g.sigs[m].results))
		}
		g.fail(c, "unknown method or field of the receiver")
	}
	if v, field, m, ok := g.hintCall(c, e); ok {
		switch {
		case field == "IP" && m == "Mask": // x.IP.Mask(x.Mask)
			g.must(len(c.Args) == 1 && !c.Ellipsis.IsValid(), c, "expected 1 argument")
			sel, isSel := c.Args[0].(*ast.SelectorExpr)
			g.must(isSel && sel.Sel.Name == "Mask", c, "only x.IP.Mask(x.Mask) is supported")
			w, isVar := g.variable(sel.X, e)
			g.must(isVar && w.lean == v.lean, c, "only x.IP.Mask(x.Mask) of one and the same x is supported")
			name := g.fresh(c.Pos(), "t")
			g.pend = append(g.pend, pend4{scrut: "ipMask " + v.lean, name: name, what: outsideMask})
			return ex4{s: name, t: kIPopt, p: pAtom}
		case field == "Mask" && m == "Size":
			g.fail(c, "Size returns two values: only supported as `x, y := n.Mask.Size()`")
		}
		g.fail(c, "unknown method of a net.IPNet")
	}
	switch fn := g.src(c.Fun); fn {
	case "uint", "uint64":
		g.must(len(c.Args) == 1 && !c.Ellipsis.IsValid(), c, "expected 1 argument")
		to := map[string]k4{"uint": kNat, "uint64": kU64}[fn]
		a := g.expr(c.Args[0], e, to)
		switch {
		case a.t == to:
			return a
		case a.t == kU64 && to == kNat: // uint is 64 bits wide
			return ex4{s: w4(a, pAtom) + ".toNat", t: kNat, p: pAtom}
		case a.t == kInt && to == kNat: // wraps modulo 2^64
			return ex4{s: "uintOfInt " + w4(a, pAtom), t: kNat, p: pApp}
		case a.t == kNat && to == kU64:
			return ex4{s: "BitVec.ofNat 64 " + w4(a, pAtom), t: kU64, p: pApp}
		case a.t == kInt && to == kU64: // wraps modulo 2^64
			return ex4{s: "BitVec.ofInt 64 " + w4(a, pAtom), t: kU64, p: pApp}
		}
		g.fail(c, "conversion from %s to %s unsupported", k4Names[a.t], fn)
	case "net.CIDRMask":
		g.must(len(c.Args) == 2 && !c.Ellipsis.IsValid(), c, "expected 2 arguments")
		a, b := g.expr(c.Args[0], e, kInt), g.expr(c.Args[1], e, kInt)
		g.must(a.t == kInt && b.t == kInt, c, "net.CIDRMask of something that is not a pair of ints")
		return ex4{s: "some (" + a.s + ", " + b.s + ")", t: kMask, p: pApp}
	case "bitset.Cap":
		g.args(c, e)
		return ex4{s: "bitsetCap", t: kNat, p: pAtom}
	case "bitset.New":
		g.fail(c, "bitset.New is only supported as the bitmap field of the Allocator literal")
	case "allocators.Offset", "allocators.AddPrefixes":
		g.fail(c, "%s returns two values: only supported as `x, y := …` or `return …`", fn)
	}
	g.fail(c, "unknown call")
	return ex4{}
}

// call2 translates a call with two results.  `bound`: the result is the name a hoisted `match`
// binds; otherwise it is an expression of a pair type.
func (g *a6gen) call2(x ast.Expr, e env4) (s string, types []k4, bound bool) {
	c, ok := x.(*ast.CallExpr)
	g.must(ok, x, "two results from something that is not a call")
	if field, m, ok := g.method(c, e); ok {
		switch {
		case field == "bitmap" && m == "NextClear":
			g.must(len(c.Args) == 1 && g.expr(c.Args[0], e, kUntyped).lit == "0", c, "only NextClear(0) is supported")
			g.bitmapCall(c, e, kNat)
			return "nextClear0 " + g.recvLean(e) + ".bm", []k4{kNat, kBool}, false
		case field == "" && g.sigs[m].lean != "":
			name, sig := g.callGenerated(c, m, e)
			g.must(len(sig.results) == 2, c, "%s returns %d values", m, len(sig.results))
			return name, sig.results, true
		}
		g.fail(c, "unknown two-valued call")
	}
	if v, field, m, ok := g.hintCall(c, e); ok {
		g.must(field == "Mask" && m == "Size" && len(c.Args) == 0, c, "unknown two-valued call")
		return "maskSize " + v.lean, []k4{kInt, kInt}, false
	}
	switch g.src(c.Fun) {
	case "allocators.Offset":
		return "offsetGo " + strings.Join(g.args(c, e, kIP6, kIP6, kInt), " "), []k4{kU64, kErr}, false
	case "allocators.AddPrefixes":
		return "addPrefixesGo " + strings.Join(g.args(c, e, kIP6, kU64, kU64), " "), []k4{kIPopt, kErr}, false
	}
	g.fail(c, "unknown two-valued call")
	return
}

// composite translates `Allocator{containing: n, page: s, bitmap: bitset.New(k)}`.
func (g *a6gen) composite(x *ast.CompositeLit, e env4) ex4 {
	g.must(x.Type != nil && g.src(x.Type) == "Allocator", x, "unsupported composite literal")
	vals := map[string]string{}
	for _, el := range x.Elts {
		kv, ok := el.(*ast.KeyValueExpr)
		g.must(ok, el, "composite literal element without a key")
		k, ok := kv.Key.(*ast.Ident)
		g.must(ok && vals[k.Name] == "", kv.Key, "unknown or repeated field in the literal")
		switch k.Name {
		case "containing":
			v := g.pure(kv.Value, e, kUntyped, "a field value")
			g.must(v.t == kHint, kv.Value, "containing assigned a %s", k4Names[v.t])
			vals[k.Name] = w4(v, pAtom)
		case "page":
			v := g.pure(kv.Value, e, kInt, "a field value")
			g.must(v.t == kInt, kv.Value, "page assigned a %s", k4Names[v.t])
			vals[k.Name] = w4(v, pAtom)
		case "bitmap":
			c, ok := kv.Value.(*ast.CallExpr)
			g.must(ok && g.src(c.Fun) == "bitset.New", kv.Value, "bitmap assigned something that is not bitset.New(n)")
			before := len(g.pend)
			vals[k.Name] = "(Bits.new " + g.args(c, e, kNat)[0] + ")"
			g.must(len(g.pend) == before, kv.Value, "unsupported argument of bitset.New")
		default:
			g.fail(kv.Key, "unknown field in the literal")
		}
	}
	g.must(len(vals) == 3, x, "the literal must give containing, page and bitmap")
	name := g.fresh(x.Pos(), "t")
	g.pend = append(g.pend, pend4{scrut: "mkAllocator " + vals["containing"] + " " + vals["page"] + " " + vals["bitmap"], name: name, what: outsideA6})
	return ex4{s: name, t: kA6, p: pAtom}
}

func (g *a6gen) stringLit(x ast.Expr) (string, bool) {
	l, ok := x.(*ast.BasicLit)
	if !ok || l.Kind != token.STRING {
		return "", false
	}
	s, err := strconv.Unquote(l.Value)
	if err != nil {
		return "", false
	}
	for _, r := range s {
		g.must(r >= ' ' && r < 127 && r != '\\' && r != '"', x, "string literal with a character outside plain ASCII")
	}
	return s, true
}

// shown checks an argument that only shows in a message (`%s`, `%d`): it must not do anything.
func (g *a6gen) shown(x ast.Expr, e env4, verb byte) {
	if c, ok := x.(*ast.CallExpr); ok && verb == 's' { // n.String() / a.containing.String()
		sel, isSel := c.Fun.(*ast.SelectorExpr)
		g.must(isSel && sel.Sel.Name == "String" && len(c.Args) == 0, x, "argument of the error message must be a variable or x.String()")
		v := g.pure(sel.X, e, kUntyped, "an argument of the message")
		g.must(v.t == kHint || v.t == kPool, x, "String() of a %s", k4Names[v.t])
		return
	}
	v := g.pure(x, e, kUntyped, "an argument of the message")
	g.must(verb != 'd' || v.t == kInt || v.t == kNat, x, "%%d of a %s", k4Names[v.t])
}

// errorValue translates an expression of type error.
func (g *a6gen) errorValue(x ast.Expr, e env4) string {
	if isIdent(x, "nil") {
		return "none"
	}
	if v, ok := g.variable(x, e); ok {
		g.must(v.t == kErr, x, "a %s used as an error", k4Names[v.t])
		return v.lean
	}
	if c := err6Selectors[g.src(x)]; c != "" {
		if _, isSel := x.(*ast.SelectorExpr); isSel {
			return "some " + c
		}
	}
	if u, ok := x.(*ast.UnaryExpr); ok && u.Op == token.AND { // &allocators.ErrDoubleFree{Loc: n}
		cl, ok := u.X.(*ast.CompositeLit)
		g.must(ok && cl.Type != nil && g.src(cl.Type) == "allocators.ErrDoubleFree" && len(cl.Elts) == 1, x, "unknown error value")
		kv, ok := cl.Elts[0].(*ast.KeyValueExpr)
		g.must(ok && isIdent(kv.Key, "Loc"), x, "unknown error value")
		v := g.pure(kv.Value, e, kUntyped, "Loc")
		g.must(v.t == kHint, kv.Value, "Loc is a %s, want net.IPNet", k4Names[v.t])
		return "some (.errDoubleFree " + w4(v, pAtom) + ")"
	}
	if c, ok := x.(*ast.CallExpr); ok && len(c.Args) >= 1 && !c.Ellipsis.IsValid() {
		if s, ok := g.stringLit(c.Args[0]); ok {
			spec, known := err6Strings[g.src(c.Fun)+"|"+s]
			g.must(known, x, "unknown error string (no Err constructor)")
			g.must(len(c.Args) == 1+len(spec.verbs), x, "the format has %d verbs", len(spec.verbs))
			out := "some " + spec.ctor
			for i, a := range c.Args[1:] {
				if spec.verbs[i] == 'w' { // the wrapped error is part of the value
					v, isVar := g.variable(a, e)
					g.must(isVar && v.t == kErr, a, "%%w of something that is not an error variable")
					out = "some (" + spec.ctor + " " + v.lean + ")"
				} else {
					g.shown(a, e, spec.verbs[i])
				}
			}
			return out
		}
	}
	g.fail(x, "unknown error value")
	return ""
}

// ----------------------------------------------------------------- statements

func (g *a6gen) endOut(ctor, arg string, e env4) string {
	if g.fn.stateful {
		return "(" + g.recvLean(e) + ", " + ctor + " " + arg + ")"
	}
	return ctor + " " + arg
}

// flush wraps body in the `match`es of the partial sub-expressions of the statement just translated.
func (g *a6gen) flush(body string, e env4) string {
	for i := len(g.pend) - 1; i >= 0; i-- {
		p := g.pend[i]
		if p.out {
			body = "match " + p.scrut + " with\n| .outside m => " + g.endOut(".outside", "m", e) + "\n| .ret " + p.name + " =>\n" + indent(body)
		} else {
			body = "match " + p.scrut + " with\n| none => " + g.endOut(".outside", strconv.Quote(p.what), e) + "\n| some " + p.name + " =>\n" + indent(body)
		}
	}
	g.pend = nil
	return body
}

func (g *a6gen) isMutexCall(x ast.Expr, e env4, m string) bool {
	c, ok := x.(*ast.CallExpr)
	if !ok || len(c.Args) != 0 {
		return false
	}
	field, name, ok := g.method(c, e)
	return ok && field == "l" && name == m
}

func (g *a6gen) block(list []ast.Stmt, e env4, depth int, k func(env4) string) string {
	if len(list) == 0 {
		return k(e)
	}
	if _, isRet := list[0].(*ast.ReturnStmt); isRet && len(list) > 1 {
		g.fail(list[1], "unreachable statement")
	}
	if es, ok := list[0].(*ast.ExprStmt); ok && g.isMutexCall(es.X, e, "Lock") {
		g.must(g.fn.stateful && depth == 0 && !e.facts["locked"], es, "mutex taken in an unexpected place")
		d, ok := (ast.Stmt)(nil), false
		if len(list) > 1 {
			d, ok = list[1], true
		}
		df, isDefer := d.(*ast.DeferStmt)
		g.must(ok && isDefer && g.isMutexCall(df.Call, e, "Unlock"), es, "`%s.l.Lock()` must be immediately followed by `defer %s.l.Unlock()`", g.recv, g.recv)
		return g.block(list[2:], e.fact("locked"), depth, k)
	}
	return g.stmt(list[0], e, depth, func(e2 env4) string { return g.block(list[1:], e2, depth, k) })
}

// declare introduces a new local (`_` ↦ nothing); it may shadow a variable of an enclosing block.
func (g *a6gen) declare(id *ast.Ident, t k4, rhs string, e env4, out *[]string) env4 {
	if id.Name == "_" {
		return e
	}
	old, bound := e.vars[id.Name]
	g.must(!bound || old.scope != e.scope, id, "redeclaration of a variable in the same block unsupported")
	g.must(!reserved4[id.Name], id, "variable name clashes with a name the translator gives a fixed meaning")
	g.must(k4Lean[t] != "" && t != kRecv && t != kPool, id, "a variable cannot hold a %s", k4Names[t])
	name := g.fresh(id.Pos(), "x")
	*out = append(*out, "let "+name+" : "+k4Lean[t]+" := "+rhs)
	return e.bind(id.Name, v4{name, t, e.scope})
}

// store assigns to an existing variable or to the IP field of a result net.IPNet.
func (g *a6gen) store(l ast.Expr, t k4, rhs string, e env4, out *[]string) {
	switch l := l.(type) {
	case *ast.Ident:
		old, ok := e.vars[l.Name]
		g.must(ok, l, "assignment to unknown variable")
		g.must(old.t == t && (t == kInt || t == kNat || t == kU64 || t == kErr), l, "variable of type %s assigned a %s", k4Names[old.t], k4Names[t])
		*out = append(*out, "let "+old.lean+" : "+k4Lean[t]+" := "+rhs)
		return
	case *ast.SelectorExpr:
		v, ok := g.variable(l.X, e)
		g.must(ok && v.t == kNet, l, "assignment to a field of something that is not a result net.IPNet")
		field := map[string]string{"IP": "ip", "Mask": "mask"}[l.Sel.Name]
		g.must(field != "" && t == map[string]k4{"IP": kIPopt, "Mask": kMask}[l.Sel.Name], l, "field %s assigned a %s", l.Sel.Name, k4Names[t])
		*out = append(*out, "let "+v.lean+" := { "+v.lean+" with "+field+" := "+rhs+" }")
		return
	}
	g.fail(l, "unsupported assignment target")
}

func (g *a6gen) assign(s *ast.AssignStmt, e env4) ([]string, env4) {
	var out []string
	define := s.Tok == token.DEFINE
	g.must(define || s.Tok == token.ASSIGN, s, "unsupported assignment operator %s", s.Tok)
	if len(s.Lhs) == 2 && len(s.Rhs) == 1 { // x, y := f(…)   |   n.IP, err = f(…)
		tmp, types, bound := g.call2(s.Rhs[0], e)
		if !bound {
			name := g.fresh(s.Rhs[0].Pos(), "t")
			out = append(out, "let "+name+" := "+tmp)
			tmp = name
		}
		for i, l := range s.Lhs {
			rhs := tmp + "." + strconv.Itoa(i+1)
			if define {
				id, ok := l.(*ast.Ident)
				g.must(ok, l, "declaration target must be a plain variable")
				e = g.declare(id, types[i], rhs, e, &out)
			} else if !isIdent(l, "_") {
				g.store(l, types[i], rhs, e, &out)
			}
		}
		return out, e
	}
	g.must(len(s.Lhs) == 1 && len(s.Rhs) == 1, s, "unsupported assignment shape")
	if define {
		id, ok := s.Lhs[0].(*ast.Ident)
		g.must(ok, s.Lhs[0], "declaration target must be a plain variable")
		v := g.expr(s.Rhs[0], e, kUntyped)
		g.must(v.t != kUntyped, s.Rhs[0], "untyped constant assigned to a new variable unsupported")
		g.must(v.t != kBool && v.t != kProp, s.Rhs[0], "bool variable unsupported")
		return out, g.declare(id, v.t, v.s, e, &out)
	}
	// the type of the target decides how the right-hand side is read
	want := kUntyped
	switch l := s.Lhs[0].(type) {
	case *ast.Ident:
		old, ok := e.vars[l.Name]
		g.must(ok, l, "assignment to unknown variable")
		want = old.t
	case *ast.SelectorExpr:
		want = map[string]k4{"IP": kIPopt, "Mask": kMask}[l.Sel.Name]
	}
	if want == kErr {
		g.store(s.Lhs[0], kErr, g.errorValue(s.Rhs[0], e), e, &out)
		return out, e
	}
	v := g.expr(s.Rhs[0], e, want)
	g.store(s.Lhs[0], v.t, v.s, e, &out)
	return out, e
}

func (g *a6gen) returnStmt(s *ast.ReturnStmt, e env4) string {
	ret := func(v string) string { return g.endOut(".ret", v, e) }
	if len(s.Results) == 0 {
		g.must(len(g.named) == len(g.results) && len(g.named) > 0, s, "bare return in a function without named results")
		var ss []string
		for _, n := range g.named {
			ss = append(ss, e.vars[n].lean)
		}
		return ret("(" + strings.Join(ss, ", ") + ")")
	}
	if len(s.Results) == 1 && len(g.results) == 2 { // return f(…)
		v, types, bound := g.call2(s.Results[0], e)
		g.must(types[0] == g.results[0] && types[1] == g.results[1], s, "the call returns (%s, %s)", k4Names[types[0]], k4Names[types[1]])
		if !bound {
			v = "(" + v + ")"
		}
		return ret(v)
	}
	g.must(len(s.Results) == len(g.results), s, "return must have %d results", len(g.results))
	var vals []ex4
	for i, r := range s.Results {
		switch want := g.results[i]; want {
		case kErr:
			v := g.errorValue(r, e)
			vals = append(vals, ex4{s: v, p: map[bool]int{true: pAtom, false: pApp}[!strings.Contains(v, " ")]})
		case kA6ptr:
			if isIdent(r, "nil") {
				vals = append(vals, ex4{s: "none", p: pAtom})
				break
			}
			u, ok := r.(*ast.UnaryExpr)
			g.must(ok && u.Op == token.AND, r, "expected nil or &<allocator variable>")
			v, ok := g.variable(u.X, e)
			g.must(ok && v.t == kA6, r, "expected nil or &<allocator variable>")
			vals = append(vals, ex4{s: "some " + v.lean, p: pApp})
		default:
			v := g.expr(r, e, want)
			g.must(v.t == want, r, "returned value is a %s, want %s", k4Names[v.t], k4Names[want])
			vals = append(vals, v)
		}
	}
	v := w4(vals[0], pAtom)
	if len(vals) > 1 {
		var ss []string
		for _, x := range vals {
			ss = append(ss, x.s)
		}
		v = "(" + strings.Join(ss, ", ") + ")"
	}
	return ret(v)
}

// joinIf recognises `if c { v = e }` (no else) for a numeric variable v.
func (g *a6gen) joinIf(s *ast.IfStmt, e env4) (v4, ast.Expr, bool) {
	if s.Else != nil || len(s.Body.List) != 1 {
		return v4{}, nil, false
	}
	as, ok := s.Body.List[0].(*ast.AssignStmt)
	if !ok || as.Tok != token.ASSIGN || len(as.Lhs) != 1 || len(as.Rhs) != 1 {
		return v4{}, nil, false
	}
	v, ok := g.variable(as.Lhs[0], e)
	if !ok || (v.t != kInt && v.t != kNat) {
		return v4{}, nil, false
	}
	return v, as.Rhs[0], true
}

func (g *a6gen) stmt(s ast.Stmt, e env4, depth int, k func(env4) string) string {
	g.must(len(g.pend) == 0, s, "internal: pending sub-expressions at a statement boundary")
	// the partial sub-expressions of this statement are set aside while what follows is translated
	lets := func(out []string, e2 env4) string {
		pend := g.pend
		g.pend = nil
		body := strings.Join(append(out, k(e2)), "\n")
		g.pend = pend
		return g.flush(body, e)
	}
	switch s := s.(type) {
	case *ast.IfStmt:
		g.must(s.Init == nil, s, "if with init statement unsupported")
		c := g.pure(s.Cond, e, kUntyped, "a condition")
		g.must(c.t == kBool || c.t == kProp, s.Cond, "condition is not a bool")
		if v, rhs, ok := g.joinIf(s, e); ok {
			r := g.pure(rhs, e, v.t, "the assigned value")
			g.must(r.t == v.t, rhs, "variable of type %s assigned a %s", k4Names[v.t], k4Names[r.t])
			return lets([]string{"let " + v.lean + " : " + k4Lean[v.t] + " := if " + c.s + " then " + r.s + " else " + v.lean}, e)
		}
		// what follows the `if` sees the variables of the enclosing block and the facts of the path
		rest := func(e2 env4) string { return k(env4{vars: e.vars, facts: e2.facts, scope: e.scope}) }
		inner := func(b *ast.BlockStmt) string {
			return g.block(b.List, env4{vars: e.vars, facts: e.facts, scope: g.scopeOf(b.Pos())}, depth+1, rest)
		}
		then := inner(s.Body) // first: names are numbered in the order of the source
		var els string
		switch b := s.Else.(type) {
		case nil:
			els = k(e)
		case *ast.BlockStmt:
			els = inner(b)
		case *ast.IfStmt:
			els = g.stmt(b, e, depth+1, rest)
		default:
			g.fail(s.Else, "unsupported else")
		}
		return "if " + c.s + " then\n" + indent(then) + "\nelse\n" + indent(els)
	case *ast.ReturnStmt:
		return g.flush(g.returnStmt(s, e), e)
	case *ast.AssignStmt:
		return lets(g.assign(s, e))
	case *ast.ExprStmt:
		c, ok := s.X.(*ast.CallExpr)
		g.must(ok, s, "unsupported expression statement")
		if field, m, ok := g.method(c, e); ok && field == "bitmap" && (m == "Set" || m == "Clear") {
			a := g.recvLean(e)
			arg := g.bitmapCall(c, e, kNat)[0]
			return lets([]string{"let " + a + " := { " + a + " with bm := " + a + ".bm." + strings.ToLower(m) + " " + arg + " }"}, e)
		}
		if sel, ok := c.Fun.(*ast.SelectorExpr); ok && isIdent(sel.X, "log") && logCalls[sel.Sel.Name] { // no effect on the results
			_, shadowed := e.vars["log"]
			g.must(g.hasLog && !shadowed, c, "`log` is not the package-level logger")
			g.must(len(c.Args) >= 1 && !c.Ellipsis.IsValid(), c, "expected a message")
			for _, a := range c.Args {
				if _, isStr := g.stringLit(a); !isStr {
					g.shown(a, e, 'v')
				}
			}
			return k(e)
		}
		g.fail(s, "unsupported expression statement")
	}
	g.fail(s, "unsupported statement")
	return ""
}

// ------------------------------------------------------------------ functions

func (g *a6gen) function(f *ast.FuncDecl, spec fspec4) string {
	g.fn, g.recv, g.named, g.results = spec, "", nil, nil
	g.names, g.count, g.scopes, g.pend = map[token.Pos]string{}, map[string]int{}, map[token.Pos]int{}, nil
	g.must(f.Type.TypeParams == nil && f.Body != nil, f.Name, "unsupported function form")
	if spec.shape {
		return g.containsShape(f)
	}
	e := env4{vars: map[string]v4{}, facts: map[string]bool{}}
	lean := strings.ToLower(f.Name.Name[:1]) + f.Name.Name[1:]
	sig := "def " + lean
	if spec.method {
		g.must(f.Recv != nil && len(f.Recv.List) == 1 && len(f.Recv.List[0].Names) == 1 && g.src(f.Recv.List[0].Type) == "*Allocator",
			f.Name, "expected the receiver (x *Allocator)")
		g.recv = f.Recv.List[0].Names[0].Name
		g.must(!reserved4[g.recv] && g.recv != "_", f.Recv.List[0].Names[0], "receiver name clashes with a name the translator gives a fixed meaning")
		e = e.bind(g.recv, v4{"a", kRecv, 0})
		sig += " (a : A6)"
	} else {
		g.must(f.Recv == nil, f.Name, "unexpected receiver")
	}
	var sg sig4
	for _, p := range f.Type.Params.List {
		t, ok := k4Param[g.src(p.Type)]
		g.must(ok, p.Type, "unsupported parameter type")
		g.must(len(p.Names) > 0, p, "unnamed parameter")
		for _, n := range p.Names {
			_, bound := e.vars[n.Name]
			g.must(!reserved4[n.Name] && !bound && n.Name != "_", n, "parameter name clashes with another name")
			name := g.fresh(n.Pos(), "p")
			e = e.bind(n.Name, v4{name, t, 0})
			sig += " (" + name + " : " + k4Lean[t] + ")"
			sg.params = append(sg.params, t)
		}
	}
	var zero []string
	res := f.Type.Results
	g.must(res != nil && len(res.List) > 0, f.Type, "function without a result")
	for _, r := range res.List {
		t, ok := k4Result[g.src(r.Type)]
		g.must(ok, r.Type, "unsupported result type")
		if len(r.Names) == 0 {
			g.results = append(g.results, t)
		}
		for _, n := range r.Names {
			_, bound := e.vars[n.Name]
			g.must(!reserved4[n.Name] && !bound && n.Name != "_", n, "result name clashes with another name")
			g.must(k4Zero[t] != "", n, "a named result cannot be a %s", k4Names[t])
			name := g.fresh(n.Pos(), "r")
			e = e.bind(n.Name, v4{name, t, 0})
			zero = append(zero, "let "+name+" : "+k4Lean[t]+" := "+k4Zero[t])
			g.results = append(g.results, t)
			g.named = append(g.named, n.Name)
		}
	}
	g.must(len(g.named) == 0 || len(g.named) == len(g.results), f.Type, "mixed named and unnamed results")
	g.must(len(g.results) <= 2, f.Type, "more than two results")
	var rt []string
	for _, t := range g.results {
		rt = append(rt, k4Lean[t])
	}
	out := "Out (" + strings.Join(rt, " × ") + ")"
	if spec.stateful {
		out = "A6 × " + out
	}
	sig += " : " + out + " :="
	// the mutex: Lock + deferred Unlock exactly once in Allocate/Free, never mentioned elsewhere
	mentions, defers := 0, 0
	ast.Inspect(f.Body, func(n ast.Node) bool {
		if sel, ok := n.(*ast.SelectorExpr); ok && sel.Sel.Name == "l" && g.recv != "" && isIdent(sel.X, g.recv) {
			mentions++
		}
		if _, ok := n.(*ast.DeferStmt); ok {
			defers++
		}
		return true
	})
	want := map[bool]int{true: 2, false: 0}[spec.stateful]
	g.must(mentions == want, f.Name, "the mutex is mentioned %d times, want %d (one Lock, one deferred Unlock)", mentions, want)
	g.must(defers == want/2, f.Name, "%d defer statements, want %d (the deferred Unlock)", defers, want/2)
	body := g.block(f.Body.List, e, 0, func(env4) string {
		g.fail(f.Name, "control reaches the end of the function without a return")
		return ""
	})
	body = strings.Join(append(zero, body), "\n")
	sg.lean, sg.results = lean, g.results
	if spec.method && !spec.stateful {
		g.sigs[f.Name.Name] = sg
	}
	return fmt.Sprintf("/-- `%s` (bitmap.go), translated from its go/ast. -/\n%s\n%s\n\n", f.Name.Name, sig, indent(body))
}

// sameSrc: the node prints as `want` (white space apart).
func (g *a6gen) sameSrc(n ast.Node, want, what string) {
	strip := func(s string) string { return strings.Join(strings.Fields(s), "") }
	g.must(strip(g.src(n)) == strip(want), n, "%s of `contains` is not `%s`", what, want)
}

// returnsBool: the block is exactly `{ return <v> }`.
func (g *a6gen) returnsBool(b *ast.BlockStmt, v, what string) {
	g.must(len(b.List) == 1, b, "%s of `contains` is not `return %s`", what, v)
	r, ok := b.List[0].(*ast.ReturnStmt)
	g.must(ok && len(r.Results) == 1 && isIdent(r.Results[0], v), b.List[0], "%s of `contains` is not `return %s`", what, v)
}

// containsShape recognises
//
//	func (a *Allocator) contains(ip net.IP) bool {
//		pool := a.containing
//		if len(ip) != net.IPv6len || len(pool.IP) != net.IPv6len || len(pool.Mask) != net.IPv6len {
//			return false
//		}
//		for i := range ip {
//			if ip[i]&pool.Mask[i] != pool.IP[i]&pool.Mask[i] {
//				return false
//			}
//		}
//		return true
//	}
//
// names apart, and nothing else: "ip is 16 bytes long and agrees with containing.IP under
// containing.Mask".  For the state record A6 (16-byte IP, 128-bit prefix mask of poolLen ones) that
// is the vocabulary item containsIP = the model's Pool6.contains (equal quotients by 2^(128-poolLen)).
func (g *a6gen) containsShape(f *ast.FuncDecl) string {
	g.must(f.Recv != nil && len(f.Recv.List) == 1 && len(f.Recv.List[0].Names) == 1 && g.src(f.Recv.List[0].Type) == "*Allocator",
		f.Name, "expected the receiver (x *Allocator)")
	ps, rs := f.Type.Params.List, f.Type.Results
	g.must(len(ps) == 1 && len(ps[0].Names) == 1 && g.src(ps[0].Type) == "net.IP", f.Type, "expected one parameter of type net.IP")
	g.must(rs != nil && len(rs.List) == 1 && len(rs.List[0].Names) == 0 && g.src(rs.List[0].Type) == "bool", f.Type, "expected the result bool")
	a, ip := f.Recv.List[0].Names[0].Name, ps[0].Names[0].Name
	body := f.Body.List
	g.must(len(body) == 4, f.Name, "`contains` has %d statements, want 4 (pool := …; if …; for …; return true)", len(body))
	// pool := a.containing
	as, ok := body[0].(*ast.AssignStmt)
	g.must(ok && as.Tok == token.DEFINE && len(as.Lhs) == 1 && len(as.Rhs) == 1, body[0], "first statement of `contains` is not `pool := %s.containing`", a)
	poolID, ok := as.Lhs[0].(*ast.Ident)
	g.must(ok, body[0], "first statement of `contains` is not `pool := %s.containing`", a)
	pool := poolID.Name
	g.sameSrc(as.Rhs[0], a+".containing", "the value of the local")
	// the length guards
	guard, ok := body[1].(*ast.IfStmt)
	g.must(ok && guard.Init == nil && guard.Else == nil, body[1], "second statement of `contains` is not the length guard")
	g.sameSrc(guard.Cond, fmt.Sprintf("len(%s) != net.IPv6len || len(%s.IP) != net.IPv6len || len(%s.Mask) != net.IPv6len", ip, pool, pool), "the length guard")
	g.returnsBool(guard.Body, "false", "the body of the length guard")
	// the loop over the bytes
	loop, ok := body[2].(*ast.RangeStmt)
	g.must(ok && loop.Tok == token.DEFINE && loop.Value == nil && loop.Key != nil, body[2], "third statement of `contains` is not `for i := range %s`", ip)
	iID, ok := loop.Key.(*ast.Ident)
	g.must(ok, loop.Key, "third statement of `contains` is not `for i := range %s`", ip)
	i := iID.Name
	g.sameSrc(loop.X, ip, "the range of the loop")
	g.must(len(loop.Body.List) == 1, loop.Body, "the loop of `contains` has %d statements, want 1", len(loop.Body.List))
	cmp, ok := loop.Body.List[0].(*ast.IfStmt)
	g.must(ok && cmp.Init == nil && cmp.Else == nil, loop.Body.List[0], "the loop of `contains` is not a single if")
	g.sameSrc(cmp.Cond, fmt.Sprintf("%s[%s]&%s.Mask[%s] != %s.IP[%s]&%s.Mask[%s]", ip, i, pool, i, pool, i, pool, i), "the comparison")
	g.returnsBool(cmp.Body, "false", "the body of the comparison")
	// return true
	last, ok := body[3].(*ast.ReturnStmt)
	g.must(ok && len(last.Results) == 1 && isIdent(last.Results[0], "true"), body[3], "last statement of `contains` is not `return true`")
	// the four names are four different variables, none of them a name with a fixed meaning
	names := map[string]bool{}
	for _, n := range []*ast.Ident{f.Recv.List[0].Names[0], ps[0].Names[0], poolID, iID} {
		g.must(!names[n.Name] && !reserved4[n.Name] && n.Name != "_", n, "name clashes with another name or with a name the translator gives a fixed meaning")
		names[n.Name] = true
	}
	g.totals[f.Name.Name] = sig4{lean: "contains", params: []k4{kIPopt}, results: []k4{kBool}}
	return "/-- `contains` (bitmap.go): recognised by its exact shape (length guards, the loop over the 16 bytes\ncomparing `ip[i]&Mask[i]` with `IP[i]&Mask[i]`), not translated statement by statement. -/\n" +
		"def contains (a : A6) (p1 : Option Addr) : Bool :=\n  containsIP a.pool p1\n\n"
}

// checkDecls checks the package-level declarations the fixed vocabulary relies on: the fields of
// Allocator and the logger.
func (g *a6gen) checkDecls(file *ast.File, die func(...interface{})) {
	foundStruct := false
	for _, d := range file.Decls {
		gd, ok := d.(*ast.GenDecl)
		if !ok {
			continue
		}
		for _, sp := range gd.Specs {
			switch sp := sp.(type) {
			case *ast.TypeSpec:
				if sp.Name.Name != "Allocator" {
					continue
				}
				st, ok := sp.Type.(*ast.StructType)
				g.must(ok, sp, "Allocator is not a struct")
				var fields [][2]string
				for _, f := range st.Fields.List {
					g.must(len(f.Names) > 0, f, "embedded field in Allocator")
					for _, n := range f.Names {
						fields = append(fields, [2]string{n.Name, g.src(f.Type)})
					}
				}
				g.must(fmt.Sprint(fields) == fmt.Sprint(a6Struct), sp, "the fields of Allocator are not %v", a6Struct)
				foundStruct = true
			case *ast.ValueSpec:
				for i, n := range sp.Names {
					if n.Name != "log" {
						continue
					}
					g.must(gd.Tok == token.VAR && len(sp.Values) == len(sp.Names), sp, "unexpected declaration of log")
					c, ok := sp.Values[i].(*ast.CallExpr)
					g.must(ok && g.src(c.Fun) == "logger.GetLogger", sp, "log is not a logger.GetLogger(…)")
					g.hasLog = true
				}
			}
		}
	}
	if !foundStruct {
		die("type Allocator not found")
	}
}

const gen4Header = `-- GENERATED by harness gen -unit alloc6 from plugins/allocators/bitmap/bitmap.go — do not edit
-- Regenerated from the Go source on every run; Props/GenAlloc6.lean proves these definitions
-- equal to the hand-written model in Model/Alloc6.lean.
import CoreDhcp.Model.Alloc6
set_option linter.unusedVariables false
namespace CoreDhcp.GenA6

/-! Fixed vocabulary (not derived from the source).  The state ` + "`*Allocator`" + ` is the model's record ` + "`A6`" + `
(pool.base = ` + "`containing.IP`" + `, pool.poolLen = the ones of ` + "`containing.Mask`" + `, pool.page = ` + "`page`" + `, bm = ` + "`bitmap`" + `).
int is ` + "`Int`" + `, uint64 is ` + "`BitVec 64`" + `, uint is ` + "`Nat`" + ` (int and uint 64 bits wide, see wrapInt / wrapUint / uintOfInt).
A net.IP is an ` + "`Option Addr`" + `: ` + "`some x`" + ` = the 16-byte slice ` + "`x`" + ` (IPv4-mapped or not), ` + "`none`" + ` = every other net.IP
(nil, 4 bytes, ` + "`net.IP{}`" + `, other lengths).  A net.IPNet parameter is the model's ` + "`Hint6`" + `:
its IP, and ` + "`ones, bits = Mask.Size()`" + `. -/

/-- the error values of the file; ` + "`%w`" + ` keeps the wrapped error (nil ↦ none) -/
inductive Err
  | calc (e : CalcErr)                 -- what allocators.Offset / allocators.AddPrefixes returned
  | errIndex (cause : Option Err)      -- fmt.Errorf("Cannot compute prefix index: %w", cause)
  | errNoAddrAvail                     -- allocators.ErrNoAddrAvail
  | errBug (cause : Option Err)        -- fmt.Errorf("BUG: could not get prefix from allocation: %w", cause)
  | errOutside                         -- fmt.Errorf("Could not find prefix in pool: %s is outside of %s", …)
  | errNotFound (cause : Option Err)   -- fmt.Errorf("Could not find prefix in pool: %w", cause)
  | errDoubleFree (loc : Hint6)        -- &allocators.ErrDoubleFree{Loc: loc}
  | errNewSmall                        -- errors.New("The size of allocated prefixes cannot be larger than the pool they're allocated from")
  | errNewLarge                        -- fmt.Errorf("A pool with more than 2^%d items is not representable", …)
  | errNewCap                          -- errors.New("Can't fit this pool using the bitmap allocator")

/-- a ` + "`net.IPNet`" + ` the code builds: its IP and the arguments of the ` + "`net.CIDRMask`" + ` call that made ` + "`Mask`" + ` (nil ↦ none) -/
structure IPNet where
  ip : Option Addr
  mask : Option (Int × Int)
deriving DecidableEq

/-- how a call ends: it returns its results, or it left the fixed vocabulary (` + "`what`" + ` says where: an
address that is not 16 bytes long handed to allocators.Offset / AddPrefixes, ` + "`IP.Mask(Mask)`" + ` of a 16-byte
IP with a mask whose ` + "`Size()`" + ` is (0, 0), an ` + "`Allocator{…}`" + ` the record ` + "`A6`" + ` cannot hold).  Not a statement about what the Go code does there. -/
inductive Out (α : Type) where
  | ret (v : α)
  | outside (what : String)

/-- ` + "`n.Mask.Size()`" + ` -/
def maskSize (n : Hint6) : Int × Int := (n.ones, n.bits)

/-- the method ` + "`contains`" + ` (recognised by its shape): ` + "`ip`" + ` is 16 bytes long and agrees with ` + "`containing.IP`" + `
under ` + "`containing.Mask`" + ` (16-byte IP, 128-bit prefix mask of ` + "`poolLen`" + ` ones: the model's ` + "`Pool6.contains`" + `) -/
def containsIP (p : Pool6) : Option Addr → Bool
  | some x => p.contains x
  | none => false

/-- ` + "`n.IP.Mask(n.Mask)`" + `.  The result is as long as the IP (or nil): not 16 bytes for an IP that is not.  For a
16-byte IP: the model's ` + "`maskAddr`" + ` under the 128-bit prefix mask of ` + "`ones`" + ` ones; nil, or 4 bytes for an
IPv4-mapped IP, under a prefix mask of another length.  ` + "`none`" + `: outside the vocabulary, ` + "`Size() = (0, 0)`" + ` is a
nil mask (result nil) and also a 128-bit mask that is not a prefix mask (result 16 bytes, unknown here). -/
def ipMask (n : Hint6) : Option (Option Addr) :=
  match n.ip with
  | none => some none
  | some x =>
    if n.bits = 128 then some (some (maskAddr x n.ones))
    else if n.bits = 0 then none
    else some none

/-- ` + "`allocators.Offset(x, y, p)`" + ` on two 16-byte addresses: the model's ` + "`offset`" + ` as Go's pair (0 next to an error) -/
def offsetGo (x y : Addr) (p : Int) : BitVec 64 × Option Err :=
  match offset x y p with
  | .ok v => (v, none)
  | .error e => (0#64, some (.calc e))

/-- ` + "`allocators.AddPrefixes(ip, n, unit)`" + ` on a 16-byte address: the model's ` + "`addPrefixes`" + ` as Go's pair
(` + "`net.IP{}`" + ` ↦ none next to an error) -/
def addPrefixesGo (ip : Addr) (n unit : BitVec 64) : Option Addr × Option Err :=
  match addPrefixes ip n unit with
  | .ok x => (some x, none)
  | .error e => (none, some (.calc e))

/-- ` + "`NextClear(0)`" + ` as Go returns it: (index, true) or (0, false) -/
def nextClear0 (b : Bits) : Nat × Bool :=
  match b.nextClear with
  | some i => (i, true)
  | none => (0, false)

/-- the result of an int operation: Go's int wraps at 2^63 -/
def wrapInt (i : Int) : Int := (BitVec.ofInt 64 i).toInt

/-- the result of a uint operation: Go's uint wraps at 2^64 -/
def wrapUint (n : Nat) : Nat := n % 2^64

/-- ` + "`uint(i)`" + ` for an int ` + "`i`" + ` -/
def uintOfInt (i : Int) : Nat := (BitVec.ofInt 64 i).toNat

/-- ` + "`bitset.Cap()`" + `: ` + "`^uint(0)`" + ` -/
def bitsetCap : Nat := 2^64 - 1

/-- ` + "`Allocator{containing: n, page: s, bitmap: b}`" + ` as the record ` + "`A6`" + `, which holds a 16-byte IP, a
128-bit prefix mask and a page that is not negative -/
def mkAllocator (n : Hint6) (s : Int) (b : Bits) : Option A6 :=
  match n.ip with
  | some x => if n.bits = 128 ∧ 0 ≤ s then some ⟨⟨x, n.ones, s.toNat⟩, b⟩ else none
  | none => none

`

func runGen4(srcPath, outPath string) {
	die := func(a ...interface{}) {
		fmt.Fprintln(os.Stderr, append([]interface{}{"gen:"}, a...)...)
		os.Exit(2)
	}
	if srcPath == "" {
		srcPath = alloc6Src
	}
	g := &a6gen{gen: &gen{fset: token.NewFileSet()}, sigs: map[string]sig4{}, totals: map[string]sig4{}}
	file, err := parser.ParseFile(g.fset, srcPath, nil, parser.SkipObjectResolution)
	if err != nil {
		die("parse:", err)
	}
	g.checkDecls(file, die)
	funcs := map[string]*ast.FuncDecl{}
	for _, d := range file.Decls {
		if f, ok := d.(*ast.FuncDecl); ok {
			if funcs[f.Name.Name] != nil {
				die(srcPath+": function", f.Name.Name, "declared twice")
			}
			funcs[f.Name.Name] = f
		}
	}
	out := gen4Header
	for _, spec := range alloc6Funcs {
		if funcs[spec.name] == nil {
			die(srcPath+": function", spec.name, "not found")
		}
		out += g.function(funcs[spec.name], spec)
	}
	out += "end CoreDhcp.GenA6\n"
	if err := os.WriteFile(outPath, []byte(out), 0o644); err != nil {
		die(err)
	}
	fmt.Printf("gen: wrote %s (%d bytes) from %s\n", outPath, len(out), srcPath)
}
