// gen13.go — `harness gen -unit start`: how the server opens its listeners at start-up, regenerated as
// Lean definitions (namespace CoreDhcp.GenStart, file CoreDhcp/Generated/Start.lean) from the go/ast of
//
//	server/serve.go   listen4, listen6, Start, (*Servers).Close
//
// Props/GenStart.lean proves the generated `listen4` / `listen6` equal to the model's `Start.listen .v4 / .v6`,
// the generated `close` equal to `Start.close` and the generated `start` equal to `Start.start`
// (Model/Start.lean).  `-src serve.go[,config.go[,plugin.go]]`: config.go (type Config, ServerConfig) and
// plugin.go (the signature of LoadPlugins) default to ../config/config.go and ../plugins/plugin.go next to
// the directory of serve.go.
//
// Like the other units the translator goes through the functions statement by statement, knows ONLY the
// constructs these four functions use, and fails loudly (source position, exit code 2) on everything else.
//
// GENERATED DEFINITIONS (in this order)
//
//	listen4, listen6  a o      : Except ListenFail Listener     one per function `func listenX(a *net.UDPAddr) (*listenerT, error)`
//	closeBody cs x, closeLoop, close ls : List Listener         `(*Servers).Close`: the listeners Close() is called on
//	cleanup st f               : StartOut                       the statements after the label of `Start`
//	bodyN w st addr, loopN w st as : Step                       one round of / the loop `for _, addr := range config.ServerN.Addresses`
//	start s6 s4 loadedOk w     : StartOut                       `Start`
//
// OUT-OF-REPOSITORY CALLS are inputs: every call is recorded WITH ITS ARGUMENTS in the value the definition
// builds, and the order of the calls is the nesting order of the matches on the answers:
//
//	Go                                               Lean
//	-----------------------------------------------  -------------------------------------------------
//	u, err := server<P>.NewIPv<P>UDPConn(z, a)       asks o.conn; with `l.PacketConn = ipv<Q>.NewPacketConn(u)`:
//	                                                 { l with conn := some (.v<P>, z, a.id) }  (Q must be the protocol
//	                                                 of the listener type: Go's type of the field)
//	ifi, err = net.InterfaceByName(z)                asks o.ifByName; on success ifi ↦ some z
//	l.Interface = *ifi                               { l with iface := some z }; only where ifi is known non-nil
//	err = l.SetControlMessage(ipv<Q>.FlagX, b)       asks o.setCM; on success { l with cmsg := l.cmsg ++ [(.x, b)] };
//	                                                 only where l.PacketConn is known non-nil
//	err = l.JoinGroup(i, a)                          asks o.join; on success { l with joined := some (i, a.id) };
//	                                                 i = the value of `ifi` on this path (none = nil), or nil
//	a.IP.IsMulticast()                               a.multicast (a pure function of the address)
//	a.Zone · "text" · a                              a.zone · "text" · a.id
//	err != nil / err == nil                          match o.<field of the call that set err> with | false => … | true => …
//	                                                 (false = the call failed); the effects above are applied in the
//	                                                 `true` arm.  An error that is overwritten, or not looked at before a
//	                                                 successful return, is a loud failure.
//	l := listenerT{}                                 let l1 : Listener := Listener.zero .v<Q>
//	return &l, nil                                   .ok l
//	return nil, err                                  .error ⟨.conn | .setCM | .join, l⟩: the call that set err, and the listener
//	                                                 value that is dropped (nothing is closed on these paths)
//	return nil, fmt.Errorf("DHCPv<T>: Listen could   .error ⟨.noInterface .v<T> z, l⟩   (keyed by the literal text; a changed
//	   not find interface %s: %v", z, err)           text is an unknown text)
//	handlers4, handlers6, err := plugins.LoadPlugins(config)
//	                                                 asks loadedOk; the two chains are the tags .chain4 / .chain6, by the
//	                                                 POSITION of the variable and the result types in plugin.go
//	srv := Servers{errors: make(chan error)}         let st1 : St := { listeners := [], serving := [], closed := [], asked := 0 }
//	config.ServerN != nil / == nil                   match sN with | none => … | some asK => …
//	for _, addr := range config.ServerN.Addresses    loopN w st asK; only where config.ServerN is known non-nil
//	var l *listenerT  (in the loop body)             a listener variable, nil
//	l, err = listenX(&addr)                          let rK := listenX addr (w st.asked); let st' := { st with asked := st.asked + 1 }
//	                                                 `=` only (a `:=` would shadow the `err` that the label's code returns)
//	err != nil after that                            match rK with | .error fK => … | .ok lK => …
//	goto L                                           .jump st fK  (only where err is the failure of a listenX call)
//	l.handlers = handlersM                           { l with chain := some .chainM }
//	srv.listeners = append(srv.listeners, l)         { st with listeners := st.listeners ++ [some l] }
//	go func() { srv.errors <- l.Serve() }()          { st with serving := st.serving ++ [l] }; l must be declared IN THE LOOP
//	                                                 BODY (each goroutine its own variable)
//	(after the append / the go statement no field of l may be assigned: the pointer is shared)
//	srv.Close()  (srv the Servers value)             { st with closed := st.closed ++ close st.listeners }
//	return &srv, nil · return nil, err               .ok st · .loadErr / .listenErr st f (by the call that set err)
//	L: …                                             def cleanup (the only label; the main part must end with a return)
//	for _, x := range s.listeners { … }  (in Close)  closeLoop; x != nil ↦ match x with | none | some lK; x.Close() ↦ cs ++ [lK],
//	                                                 only where x is known non-nil
//	log.<Level>(…)                                   nothing — arguments must be literals or plain variables
//
// Go names of variables, parameters and the label never reach the generated text.
package main

import (
	"fmt"
	"go/ast"
	"go/parser"
	"go/token"
	"os"
	"path/filepath"
	"strconv"
	"strings"
)

const startSrc = "/repo/server/serve.go"

var stPkgs = map[string]string{
	"fmt":     "fmt",
	"io":      "io",
	"net":     "net",
	"ipv4":    "golang.org/x/net/ipv4",
	"ipv6":    "golang.org/x/net/ipv6",
	"config":  "github.com/coredhcp/coredhcp/config",
	"handler": "github.com/coredhcp/coredhcp/handler",
	"logger":  "github.com/coredhcp/coredhcp/logger",
	"plugins": "github.com/coredhcp/coredhcp/plugins",
	"server4": "github.com/insomniacslk/dhcp/dhcpv4/server4",
	"server6": "github.com/insomniacslk/dhcp/dhcpv6/server6",
}

// ipv<N>.Flag… ↦ constructor of CFlag
var stFlags = map[string]map[string]string{
	"4": {"FlagTTL": ".ttl", "FlagSrc": ".src", "FlagDst": ".dst", "FlagInterface": ".interface"},
	"6": {"FlagTrafficClass": ".trafficClass", "FlagHopLimit": ".hopLimit", "FlagSrc": ".src", "FlagDst": ".dst",
		"FlagInterface": ".interface", "FlagPathMTU": ".pathMTU"},
}

// error values: constructor function | literal text ↦ constructor of ListenErr (takes the zone)
var stErrTexts = map[string]string{
	"fmt.Errorf|DHCPv4: Listen could not find interface %s: %v": ".noInterface .v4",
	"fmt.Errorf|DHCPv6: Listen could not find interface %s: %v": ".noInterface .v6",
}

// the error of an out-of-repository call returned as it is ↦ constructor of ListenErr
var stRawErr = map[string]string{"conn": ".conn", "setCM": ".setCM", "join": ".join"}

var stLogLevels = set("Print", "Printf", "Println", "Info", "Infof", "Infoln", "Warning", "Warningf", "Warn", "Warnf",
	"Error", "Errorf", "Debug", "Debugf")

var stBuiltins = set("nil", "true", "false", "len", "cap", "make", "append", "copy", "new", "panic", "delete", "error", "string", "close")

type sgen struct {
	*gen
	imports  map[string]string
	pkgNames map[string]bool
	count    map[string]int
	lisProto map[string]string // struct type listenerT ↦ "4" / "6"
	listens  map[string]string // translated function listenX ↦ its listener type
	tags     []string          // results of LoadPlugins: ".chain4", ".chain6"
	hasClose bool
	label    string
	defs     []string
}

func (g *sgen) fresh(prefix string) string {
	g.count[prefix]++
	return prefix + strconv.Itoa(g.count[prefix])
}

func (g *sgen) unparen(x ast.Expr) ast.Expr {
	for {
		p, ok := x.(*ast.ParenExpr)
		if !ok {
			return x
		}
		x = p.X
	}
}

func (g *sgen) isNil(x ast.Expr) bool { return isIdent(g.unparen(x), "nil") }

// pkgSel: x is `pkg.Name`, pkg an imported package of the vocabulary that no variable shadows.
func (g *sgen) pkgSel(x ast.Expr, shadow func(string) bool) (pkg, name string, ok bool) {
	s, ok := g.unparen(x).(*ast.SelectorExpr)
	if !ok {
		return "", "", false
	}
	id, ok := s.X.(*ast.Ident)
	if !ok || stPkgs[id.Name] == "" || shadow(id.Name) {
		return "", "", false
	}
	g.must(g.imports[id.Name] == stPkgs[id.Name], x, "`%s` is not the package %s here", id.Name, stPkgs[id.Name])
	return id.Name, s.Sel.Name, true
}

// newLocal: the name of a new local variable must not already mean something.
func (g *sgen) newLocal(id *ast.Ident, inScope func(string) bool) {
	g.must(id.Name != "_", id, "blank identifier unsupported here")
	_, isPkg := g.imports[id.Name]
	g.must(!isPkg && !inScope(id.Name) && !g.pkgNames[id.Name] && !stBuiltins[id.Name], id,
		"variable name clashes with a name that already has a meaning (package, package-level name, variable in scope, builtin)")
}

// isLog: `log.<Level>(…)` on the package-level logger; the arguments are literals or plain variables.
func (g *sgen) isLog(s ast.Stmt, isVar func(string) bool) bool {
	e, ok := s.(*ast.ExprStmt)
	if !ok {
		return false
	}
	c, ok := e.X.(*ast.CallExpr)
	if !ok {
		return false
	}
	sel, ok := c.Fun.(*ast.SelectorExpr)
	if !ok || !isIdent(sel.X, "log") {
		return false
	}
	g.must(g.pkgNames["log"] && g.imports["log"] == "" && !isVar("log"), s, "`log` is not the package-level logger")
	g.must(stLogLevels[sel.Sel.Name], s, "log.%s is not a plain log statement", sel.Sel.Name)
	g.must(!c.Ellipsis.IsValid(), s, "log call with a spread argument")
	for _, a := range c.Args {
		switch a := g.unparen(a).(type) {
		case *ast.BasicLit:
		case *ast.Ident:
			g.must(isVar(a.Name), a, "in the arguments of a log call: not a literal or a variable")
		default:
			g.fail(a, "in the arguments of a log call: not known to be free of side effects (only literals and plain variables)")
		}
	}
	return true
}

func (g *sgen) stringLit(x ast.Expr) (string, bool) {
	l, ok := g.unparen(x).(*ast.BasicLit)
	if !ok || l.Kind != token.STRING {
		return "", false
	}
	s, err := strconv.Unquote(l.Value)
	if err != nil {
		return "", false
	}
	return s, true
}

// ===================================================================== listenN

// lnState: the symbolic state along one path of a listenX function.
type lnState struct {
	vars    map[string]string // Go name ↦ kind: addr | err | lis | udp | ifi  (one variable per kind)
	lis     string            // Lean name of the current listener value
	connSet bool              // l.PacketConn is known non-nil
	err     string            // "nil" | "pending:<oracle>" | "set:<oracle>"
	udp     string            // "pending:<payload>" | "ok:<payload>"
	ifi     string            // "none" | "pending:<name>" | "some <name>"
	effect  string            // err pending: `field := value` applied to the listener when the call has succeeded
	asked   string            // ",conn,ifByName…": the oracle fields asked on this path
	proto   string            // protocol of the listener type of this function
}

func (st lnState) withVar(name, kind string) lnState {
	n := map[string]string{name: kind}
	for k, v := range st.vars {
		n[k] = v
	}
	st.vars = n
	return st
}

func (st lnState) kindOf(x ast.Expr) string {
	id, ok := x.(*ast.Ident)
	if !ok {
		return ""
	}
	return st.vars[id.Name]
}

func (st lnState) isVar(n string) bool { return st.vars[n] != "" }

func (st lnState) hasKind(kind string) bool {
	for _, k := range st.vars {
		if k == kind {
			return true
		}
	}
	return false
}

func (g *sgen) lnNew(id *ast.Ident, st lnState, kind string) lnState {
	g.newLocal(id, func(n string) bool { return st.vars[n] != "" })
	g.must(!st.hasKind(kind), id, "a second variable of this role (%s) is unsupported", kind)
	return st.withVar(id.Name, kind)
}

// zoneExpr: a string-valued argument: a.Zone or a plain literal.
func (g *sgen) zoneExpr(x ast.Expr, st lnState) string {
	x = g.unparen(x)
	if s, ok := x.(*ast.SelectorExpr); ok && st.kindOf(s.X) == "addr" {
		g.must(s.Sel.Name == "Zone", x, "unknown string field of the address (only Zone)")
		return "a.zone"
	}
	if s, ok := g.stringLit(x); ok {
		for _, r := range s {
			g.must(r >= ' ' && r < 127 && r != '"' && r != '\\', x, "string literal with a character outside plain ASCII")
		}
		return "\"" + s + "\""
	}
	g.fail(x, "unsupported string argument (only a.Zone or a literal)")
	return ""
}

func (g *sgen) addrExpr(x ast.Expr, st lnState) string {
	g.must(st.kindOf(g.unparen(x)) == "addr", x, "this argument must be the address parameter")
	return "a.id"
}

// ask: the oracle field of an out-of-repository call, at most once per path.
func (g *sgen) ask(at ast.Node, st lnState, field string) lnState {
	g.must(!strings.Contains(st.asked+",", ","+field+","), at, "second call of this kind on one path (the world's answer `%s` is asked once)", field)
	g.must(!strings.HasPrefix(st.err, "pending:"), at, "the error of the previous call (%s) is overwritten before it is looked at", strings.TrimPrefix(st.err, "pending:"))
	st.asked += "," + field
	st.err = "pending:" + field
	st.effect = ""
	return st
}

// lnCall: the right-hand side of an assignment that is an out-of-repository call; lhs = the assigned names.
func (g *sgen) lnAssign(a *ast.AssignStmt, st lnState, depth int) ([]string, lnState) {
	g.must(len(a.Rhs) == 1, a, "unsupported assignment shape")
	rhs := g.unparen(a.Rhs[0])
	// l.Field = …
	if sel, ok := a.Lhs[0].(*ast.SelectorExpr); ok {
		g.must(len(a.Lhs) == 1 && a.Tok == token.ASSIGN && st.kindOf(sel.X) == "lis", a, "unsupported assignment (only to a field of the listener)")
		switch sel.Sel.Name {
		case "PacketConn": // l.PacketConn = ipvQ.NewPacketConn(u)
			c, ok := rhs.(*ast.CallExpr)
			g.must(ok && len(c.Args) == 1 && !c.Ellipsis.IsValid(), a, "only `l.PacketConn = ipvN.NewPacketConn(u)` is supported")
			pkg, name, ok := g.pkgSel(c.Fun, st.isVar)
			g.must(ok && name == "NewPacketConn" && pkg == "ipv"+st.proto, c.Fun, "the PacketConn of this listener type is made by ipv%s.NewPacketConn", st.proto)
			g.must(st.kindOf(g.unparen(c.Args[0])) == "udp", c.Args[0], "the argument must be the socket returned by NewIPvNUDPConn")
			g.must(strings.HasPrefix(st.udp, "ok:"), c.Args[0], "the socket is used on a path where the error of its call is not known to be nil")
			g.must(!st.connSet, a, "PacketConn assigned twice")
			name2 := g.fresh("l")
			line := "let " + name2 + " := { " + st.lis + " with conn := some " + strings.TrimPrefix(st.udp, "ok:") + " }"
			st.lis, st.connSet = name2, true
			return []string{line}, st
		case "Interface": // l.Interface = *ifi
			star, ok := rhs.(*ast.StarExpr)
			g.must(ok && st.kindOf(g.unparen(star.X)) == "ifi", a, "only `l.Interface = *ifi` is supported")
			g.must(strings.HasPrefix(st.ifi, "some "), star, "`*ifi` on a path where ifi is not known to be non-nil (nil pointer)")
			name2 := g.fresh("l")
			line := "let " + name2 + " := { " + st.lis + " with iface := " + st.ifi + " }"
			st.lis = name2
			return []string{line}, st
		}
		g.fail(sel, "assignment to an unknown field of the listener (only PacketConn, Interface)")
	}
	var ids []*ast.Ident
	for _, l := range a.Lhs {
		id, ok := l.(*ast.Ident)
		g.must(ok, l, "assignment target must be a plain variable or a field of the listener")
		ids = append(ids, id)
	}
	// l := listenerT{}
	if cl, ok := rhs.(*ast.CompositeLit); ok {
		t, isId := cl.Type.(*ast.Ident)
		g.must(a.Tok == token.DEFINE && len(ids) == 1 && isId && len(cl.Elts) == 0 && depth == 0, a, "only `l := listenerT{}` at the top level of the function is supported")
		g.must(g.lisProto[t.Name] == st.proto, cl, "the listener built is not of the type the function returns")
		st = g.lnNew(ids[0], st, "lis")
		st.lis = g.fresh("l")
		return []string{"let " + st.lis + " : Listener := Listener.zero .v" + st.proto}, st
	}
	c, ok := rhs.(*ast.CallExpr)
	g.must(ok && !c.Ellipsis.IsValid(), a, "unsupported assignment")
	// the error variable: last target
	errId := ids[len(ids)-1]
	bindErr := func(st lnState) lnState {
		if a.Tok == token.DEFINE && st.vars[errId.Name] == "" {
			return g.lnNew(errId, st, "err")
		}
		g.must(st.vars[errId.Name] == "err", errId, "the last target of this call must be the error variable")
		return st
	}
	g.must(a.Tok == token.ASSIGN || depth == 0, a, "variable declaration inside a nested block unsupported")
	if pkg, name, ok := g.pkgSel(c.Fun, st.isVar); ok {
		switch {
		case (pkg == "server4" && name == "NewIPv4UDPConn") || (pkg == "server6" && name == "NewIPv6UDPConn"):
			g.must(a.Tok == token.DEFINE && len(ids) == 2 && len(c.Args) == 2, a, "only `u, err := serverN.NewIPvNUDPConn(zone, a)` is supported")
			payload := "(.v" + strings.TrimPrefix(pkg, "server") + ", " + g.zoneExpr(c.Args[0], st) + ", " + g.addrExpr(c.Args[1], st) + ")"
			st = g.lnNew(ids[0], st, "udp")
			st = g.ask(c, bindErr(st), "conn")
			st.udp = "pending:" + payload
			return nil, st
		case pkg == "net" && name == "InterfaceByName":
			g.must(a.Tok == token.ASSIGN && len(ids) == 2 && len(c.Args) == 1 && st.vars[ids[0].Name] == "ifi", a, "only `ifi, err = net.InterfaceByName(zone)` is supported")
			z := g.zoneExpr(c.Args[0], st)
			st = g.ask(c, bindErr(st), "ifByName")
			st.ifi = "pending:" + z
			return nil, st
		}
		g.fail(c.Fun, "unknown call")
	}
	// err = l.Method(…)
	sel, ok := c.Fun.(*ast.SelectorExpr)
	g.must(ok && st.kindOf(sel.X) == "lis" && len(ids) == 1 && a.Tok == token.ASSIGN, a, "unknown call (only NewIPvNUDPConn, InterfaceByName, l.SetControlMessage, l.JoinGroup)")
	g.must(st.connSet, c, "method of the embedded PacketConn called on a path where it is not known to be non-nil (nil pointer)")
	switch sel.Sel.Name {
	case "SetControlMessage":
		g.must(len(c.Args) == 2, c, "SetControlMessage takes (flag, on)")
		pkg, name, ok := g.pkgSel(c.Args[0], st.isVar)
		g.must(ok && pkg == "ipv"+st.proto, c.Args[0], "the flag must be a constant ipv%s.Flag…", st.proto)
		flag := stFlags[st.proto][name]
		g.must(flag != "", c.Args[0], "unknown control-message flag")
		on := g.unparen(c.Args[1])
		g.must(isIdent(on, "true") || isIdent(on, "false"), on, "the second argument must be true or false")
		st = g.ask(c, bindErr(st), "setCM")
		st.effect = "cmsg := %s.cmsg ++ [(" + flag + ", " + on.(*ast.Ident).Name + ")]"
		return nil, st
	case "JoinGroup":
		g.must(len(c.Args) == 2, c, "JoinGroup takes (ifi, group)")
		ifi := "none"
		if !g.isNil(c.Args[0]) {
			g.must(st.kindOf(g.unparen(c.Args[0])) == "ifi", c.Args[0], "the first argument must be the interface variable or nil")
			g.must(!strings.HasPrefix(st.ifi, "pending:"), c.Args[0], "ifi is used on a path where the error of InterfaceByName was not looked at")
			ifi = st.ifi
		}
		grp := g.addrExpr(c.Args[1], st)
		st = g.ask(c, bindErr(st), "join")
		st.effect = "joined := some (" + ifi + ", " + grp + ")"
		return nil, st
	}
	g.fail(sel, "unknown method of the listener (only SetControlMessage, JoinGroup)")
	return nil, st
}

func (g *sgen) lnFail(err string, st lnState) string {
	return ".error ⟨" + err + ", " + st.lis + "⟩"
}

func (g *sgen) lnReturn(r *ast.ReturnStmt, st lnState) string {
	g.must(len(r.Results) == 2, r, "return must have two results")
	g.must(st.lis != "", r, "return before the listener value exists")
	if g.isNil(r.Results[1]) { // return &l, nil
		u, ok := g.unparen(r.Results[0]).(*ast.UnaryExpr)
		g.must(ok && u.Op == token.AND && st.kindOf(g.unparen(u.X)) == "lis", r, "a return without error must be `return &l, nil`")
		g.must(!strings.HasPrefix(st.err, "pending:"), r, "success is returned on a path where the error of the last call (%s) was not looked at", strings.TrimPrefix(st.err, "pending:"))
		return ".ok " + st.lis
	}
	g.must(g.isNil(r.Results[0]), r, "the value returned next to an error must be nil")
	e := g.unparen(r.Results[1])
	if st.kindOf(e) == "err" { // return nil, err
		g.must(strings.HasPrefix(st.err, "set:"), e, "the error variable is returned on a path where it is not known to be non-nil")
		ctor := stRawErr[strings.TrimPrefix(st.err, "set:")]
		g.must(ctor != "", e, "no constructor of ListenErr for the error of this call returned as it is")
		return g.lnFail(ctor, st)
	}
	c, ok := e.(*ast.CallExpr)
	g.must(ok && len(c.Args) >= 1 && !c.Ellipsis.IsValid(), e, "unknown error value")
	pkg, name, ok := g.pkgSel(c.Fun, st.isVar)
	g.must(ok, e, "unknown error value")
	text, ok := g.stringLit(c.Args[0])
	g.must(ok, c.Args[0], "the text of an error must be a string literal")
	ctor, ok := stErrTexts[pkg+"."+name+"|"+text]
	g.must(ok, e, "unknown error text (no constructor of ListenErr)")
	g.must(len(c.Args) == 3, e, "this error text takes two arguments")
	z := g.zoneExpr(c.Args[1], st)
	g.must(st.kindOf(g.unparen(c.Args[2])) == "err" && st.err == "set:ifByName", c.Args[2], "the last argument of this text must be the error of InterfaceByName, where it is known to be non-nil")
	return g.lnFail(ctor+" "+z, st)
}

func (g *sgen) lnBlock(list []ast.Stmt, st lnState, depth int, k func(lnState) string) string {
	if len(list) == 0 {
		return k(st)
	}
	s, rest := list[0], list[1:]
	next := func(st2 lnState) string { return g.lnBlock(rest, st2, depth, k) }
	if g.isLog(s, func(n string) bool { return st.vars[n] != "" }) {
		return next(st)
	}
	switch s := s.(type) {
	case *ast.ReturnStmt:
		g.must(len(rest) == 0, stRest0(rest, s), "unreachable statement after return")
		return g.lnReturn(s, st)
	case *ast.DeclStmt: // var err error · var ifi *net.Interface
		d, ok := s.Decl.(*ast.GenDecl)
		g.must(ok && d.Tok == token.VAR && len(d.Specs) == 1 && depth == 0, s, "unsupported declaration")
		v := d.Specs[0].(*ast.ValueSpec)
		g.must(len(v.Names) == 1 && len(v.Values) == 0 && v.Type != nil, s, "only `var x T` is supported")
		switch t := g.src(v.Type); t {
		case "error":
			st = g.lnNew(v.Names[0], st, "err")
			st.err = "nil"
		case "*net.Interface":
			g.must(g.imports["net"] == "net" && st.vars["net"] == "", v.Type, "`net` is not the package net here")
			st = g.lnNew(v.Names[0], st, "ifi")
			st.ifi = "none"
		default:
			g.fail(v.Type, "unsupported type of a local variable (only error, *net.Interface)")
		}
		return next(st)
	case *ast.AssignStmt:
		lines, st2 := g.lnAssign(s, st, depth)
		return joinLines(lines, next(st2))
	case *ast.IfStmt:
		g.must(s.Init == nil, s, "if with init statement unsupported")
		arms := func(thenSt, elseSt lnState) (string, string) {
			then := g.lnBlock(s.Body.List, thenSt, depth+1, next)
			switch b := s.Else.(type) {
			case nil:
				return then, next(elseSt)
			case *ast.BlockStmt:
				return then, g.lnBlock(b.List, elseSt, depth+1, next)
			case *ast.IfStmt:
				return then, g.lnBlock([]ast.Stmt{b}, elseSt, depth+1, next)
			}
			g.fail(s.Else, "unsupported else")
			return "", ""
		}
		cond := g.unparen(s.Cond)
		neg := false
		for {
			u, ok := cond.(*ast.UnaryExpr)
			if !ok || u.Op != token.NOT {
				break
			}
			neg, cond = !neg, g.unparen(u.X)
		}
		if c, ok := cond.(*ast.CallExpr); ok { // a.IP.IsMulticast()
			sel, ok := c.Fun.(*ast.SelectorExpr)
			g.must(ok && sel.Sel.Name == "IsMulticast" && len(c.Args) == 0, cond, "unsupported condition")
			ip, ok := g.unparen(sel.X).(*ast.SelectorExpr)
			g.must(ok && ip.Sel.Name == "IP" && st.kindOf(ip.X) == "addr", cond, "IsMulticast of something that is not the IP of the address parameter")
			a, b := arms(st, st)
			if neg {
				return ite("a.multicast = false", a, b)
			}
			return ite("a.multicast", a, b)
		}
		b, ok := cond.(*ast.BinaryExpr)
		g.must(ok && (b.Op == token.EQL || b.Op == token.NEQ), s.Cond, "unsupported condition (only err ==/!= nil, a.Zone ==/!= \"\", a.IP.IsMulticast())")
		eq := (b.Op == token.EQL) != neg
		if st.kindOf(g.unparen(b.X)) == "err" && g.isNil(b.Y) {
			g.must(strings.HasPrefix(st.err, "pending:"), s.Cond, "this test of the error is already decided on this path")
			field := strings.TrimPrefix(st.err, "pending:")
			bad, good := st, st
			bad.err, bad.effect = "set:"+field, ""
			good.err, good.effect = "nil", ""
			var lines []string
			switch field {
			case "conn":
				good.udp = "ok:" + strings.TrimPrefix(st.udp, "pending:")
			case "ifByName":
				good.ifi = "some " + strings.TrimPrefix(st.ifi, "pending:")
				bad.ifi = "none" // the library returns nil next to an error
			}
			// the effect of the call on the listener, where it has succeeded; the names are taken in the order of the text
			var a2, b2 string
			render := func() {
				if st.effect != "" {
					name := g.fresh("l")
					lines = []string{"let " + name + " := { " + st.lis + " with " + strings.ReplaceAll(st.effect, "%s", st.lis) + " }"}
					good.lis = name
				}
			}
			if eq { // if err == nil { good } else { bad }
				// print the failing arm first: translate it first so that the numbering follows the text
				switch e := s.Else.(type) {
				case nil:
					b2 = next(bad)
				case *ast.BlockStmt:
					b2 = g.lnBlock(e.List, bad, depth+1, next)
				case *ast.IfStmt:
					b2 = g.lnBlock([]ast.Stmt{e}, bad, depth+1, next)
				default:
					g.fail(s.Else, "unsupported else")
				}
				render()
				a2 = g.lnBlock(s.Body.List, good, depth+1, next)
				return lpMatch("o."+field, [2]string{"false", "true"}, [2]string{b2, joinLines(lines, a2)})
			}
			b2 = g.lnBlock(s.Body.List, bad, depth+1, next)
			render()
			switch e := s.Else.(type) {
			case nil:
				a2 = next(good)
			case *ast.BlockStmt:
				a2 = g.lnBlock(e.List, good, depth+1, next)
			case *ast.IfStmt:
				a2 = g.lnBlock([]ast.Stmt{e}, good, depth+1, next)
			default:
				g.fail(s.Else, "unsupported else")
			}
			return lpMatch("o."+field, [2]string{"false", "true"}, [2]string{b2, joinLines(lines, a2)})
		}
		if lit, ok := g.stringLit(b.Y); ok && lit == "" {
			z := g.zoneExpr(b.X, st)
			g.must(z == "a.zone", b.X, "only a.Zone is compared with \"\"")
			a, bb := arms(st, st)
			if eq {
				return ite("a.zone = \"\"", a, bb)
			}
			return ite("a.zone ≠ \"\"", a, bb)
		}
		g.fail(s.Cond, "unsupported condition (only err ==/!= nil, a.Zone ==/!= \"\", a.IP.IsMulticast())")
	}
	g.fail(s, "unsupported statement")
	return ""
}

func stRest0(rest []ast.Stmt, dflt ast.Node) ast.Node {
	if len(rest) > 0 {
		return rest[0]
	}
	return dflt
}

// listenFunc: func listenX(a *net.UDPAddr) (*listenerT, error)
func (g *sgen) listenFunc(f *ast.FuncDecl) string {
	g.count = map[string]int{}
	ps := f.Type.Params.List
	g.must(len(ps) == 1 && len(ps[0].Names) == 1 && g.src(ps[0].Type) == "*net.UDPAddr" && g.imports["net"] == "net", f.Type, "expected one parameter of type *net.UDPAddr")
	res := f.Type.Results
	g.must(res != nil && len(res.List) == 2 && len(res.List[0].Names) == 0 && len(res.List[1].Names) == 0 && g.src(res.List[1].Type) == "error", f.Type, "expected the unnamed results (*listenerT, error)")
	star, ok := res.List[0].Type.(*ast.StarExpr)
	g.must(ok, res.List[0].Type, "the first result must be a pointer to a listener type")
	t, ok := star.X.(*ast.Ident)
	g.must(ok && g.lisProto[t.Name] != "", star, "the first result must be a pointer to a listener type")
	st := lnState{vars: map[string]string{}, proto: g.lisProto[t.Name], err: "nil"}
	g.newLocal(ps[0].Names[0], func(string) bool { return false })
	st = st.withVar(ps[0].Names[0].Name, "addr")
	body := g.lnBlock(f.Body.List, st, 0, func(lnState) string {
		g.fail(f.Name, "control reaches the end of the function without a return")
		return ""
	})
	g.listens[f.Name.Name] = t.Name
	return def("`"+f.Name.Name+"` (server/serve.go), translated from its go/ast: `a` = the address listened on, `o` = the answers of the\nworld to the out-of-repository calls.  `.error ⟨e, l⟩` = `return nil, e`, `l` the listener value that is dropped.",
		f.Name.Name+" (a : LAddr) (o : ListenOracle) : Except ListenFail Listener", body)
}

// ======================================================================= Close

// closeFunc: func (s *Servers) Close() { for _, x := range s.listeners { if x != nil { x.Close() } } }
func (g *sgen) closeFunc(f *ast.FuncDecl) {
	g.count = map[string]int{}
	g.must(len(f.Recv.List) == 1 && len(f.Recv.List[0].Names) == 1 && g.src(f.Recv.List[0].Type) == "*Servers", f, "expected the receiver (s *Servers)")
	g.must(len(f.Type.Params.List) == 0 && f.Type.Results == nil, f.Type, "Close takes and returns nothing")
	recv := f.Recv.List[0].Names[0]
	g.newLocal(recv, func(string) bool { return false })
	var loop *ast.RangeStmt
	for _, s := range f.Body.List {
		if g.isLog(s, func(n string) bool { return n == recv.Name }) {
			continue
		}
		r, ok := s.(*ast.RangeStmt)
		g.must(ok && loop == nil, s, "unsupported statement (Close must be one loop over s.listeners)")
		loop = r
	}
	g.must(loop != nil, f.Name, "Close must be one loop over s.listeners")
	shape := "the only loop shape supported is `for _, x := range s.listeners { … }`"
	g.must(loop.Tok == token.DEFINE && (loop.Key == nil || isIdent(loop.Key, "_")) && loop.Value != nil, loop, shape)
	x, ok := loop.Value.(*ast.Ident)
	g.must(ok, loop, shape)
	sel, ok := g.unparen(loop.X).(*ast.SelectorExpr)
	g.must(ok && isIdent(sel.X, recv.Name) && sel.Sel.Name == "listeners", loop.X, shape)
	g.newLocal(x, func(n string) bool { return n == recv.Name })
	isVar := func(n string) bool { return n == recv.Name || n == x.Name }
	// fact: "" undecided | "nil" | Lean name of the listener
	var block func(list []ast.Stmt, acc, fact string, k func(acc string) string) string
	block = func(list []ast.Stmt, acc, fact string, k func(acc string) string) string {
		if len(list) == 0 {
			return k(acc)
		}
		s, rest := list[0], list[1:]
		next := func(acc string) string { return block(rest, acc, fact, k) }
		if g.isLog(s, isVar) {
			return next(acc)
		}
		switch s := s.(type) {
		case *ast.ExprStmt: // x.Close()
			c, ok := s.X.(*ast.CallExpr)
			g.must(ok && len(c.Args) == 0, s, "unsupported statement")
			m, ok := c.Fun.(*ast.SelectorExpr)
			g.must(ok && isIdent(m.X, x.Name) && m.Sel.Name == "Close", s, "unsupported statement (only x.Close() on the loop variable)")
			g.must(fact != "" && fact != "nil", s, "Close() called on a listener that is not known to be non-nil (a nil interface value panics)")
			name := g.fresh("cs")
			return "let " + name + " := " + acc + " ++ [" + fact + "]\n" + next(name)
		case *ast.IfStmt:
			g.must(s.Init == nil, s, "if with init statement unsupported")
			b, ok := g.unparen(s.Cond).(*ast.BinaryExpr)
			g.must(ok && (b.Op == token.EQL || b.Op == token.NEQ) && isIdent(g.unparen(b.X), x.Name) && g.isNil(b.Y), s.Cond, "unsupported condition (only x != nil, x == nil)")
			g.must(fact == "", s.Cond, "this test is already decided on this path")
			name := g.fresh("l")
			branch := func(body []ast.Stmt, fact string) string {
				return block(body, acc, fact, func(acc2 string) string { return block(rest, acc2, fact, k) })
			}
			var els []ast.Stmt
			switch e := s.Else.(type) {
			case nil:
			case *ast.BlockStmt:
				els = e.List
			default:
				g.fail(s.Else, "unsupported else")
			}
			var arms [2]string
			if b.Op == token.NEQ {
				arms = [2]string{branch(els, "nil"), branch(s.Body.List, name)}
			} else {
				arms = [2]string{branch(s.Body.List, "nil"), branch(els, name)}
			}
			return lpMatch("x", [2]string{"none", "some " + name}, arms)
		}
		g.fail(s, "unsupported statement")
		return ""
	}
	body := block(loop.Body.List, "cs", "", func(acc string) string { return acc })
	g.defs = append(g.defs,
		def("One round of the loop of `(*Servers).Close` (server/serve.go), translated from its go/ast: `cs` = the listeners\nClose() was called on so far, `x` = the loop variable (none = a nil interface value).",
			"closeBody (cs : List Listener) (x : Option Listener) : List Listener", body),
		"/-- The loop of `(*Servers).Close` over `s.listeners`. -/\n"+
			"def closeLoop : List Listener → List (Option Listener) → List Listener\n"+
			"  | cs, [] => cs\n"+
			"  | cs, x :: rest => closeLoop (closeBody cs x) rest\n\n",
		def("`(*Servers).Close`: the listeners Close() is called on, in order.", "close (ls : List (Option Listener)) : List Listener", "closeLoop [] ls"))
	g.hasClose = true
}

// ======================================================================= Start

type stVar struct {
	kind   string // conf | chain | err | srv | elem | lis
	tag    string // chain: .chain4 / .chain6
	typ    string // lis: the listener type
	inLoop bool   // lis: declared in the body of the current loop
}

type stLis struct {
	state  string // nil | pending | ok
	lean   string // pending: rK, ok: lK
	frozen bool   // shared (appended, captured): no field may be assigned any more
}

type stState struct {
	vars map[string]stVar
	err  string            // "" | "nil" | "pending:load" | "set:load" | "pending:listen:<r>" | "set:listen:<f>"
	st   string            // Lean name of the current St value ("" = srv not declared yet)
	srv  map[string]string // N ↦ "nil" | Lean name of the address list of config.ServerN
	lis  map[string]stLis
}

func (st stState) withVar(name string, v stVar) stState {
	n := map[string]stVar{name: v}
	for k, x := range st.vars {
		if k != name {
			n[k] = x
		}
	}
	st.vars = n
	return st
}

func (st stState) withLis(name string, l stLis) stState {
	n := map[string]stLis{name: l}
	for k, x := range st.lis {
		if k != name {
			n[k] = x
		}
	}
	st.lis = n
	return st
}

func (st stState) withSrv(n, v string) stState {
	st.srv = lpCopy(st.srv, n, v)
	return st
}

func (st stState) kind(x ast.Expr) string {
	id, ok := x.(*ast.Ident)
	if !ok {
		return ""
	}
	return st.vars[id.Name].kind
}

func (st stState) isVar(n string) bool { _, ok := st.vars[n]; return ok }

type stCtx struct {
	step   bool // Step-valued: end of the block ↦ .next st, goto ↦ .jump, no return
	inLoop bool
	label  bool // the statements after the label
	depth  int
}

// srvField: x is `config.ServerN`; returns N.
func (g *sgen) srvField(x ast.Expr, st stState) (string, bool) {
	s, ok := g.unparen(x).(*ast.SelectorExpr)
	if !ok || st.kind(s.X) != "conf" {
		return "", false
	}
	g.must(s.Sel.Name == "Server6" || s.Sel.Name == "Server4", x, "unknown field of the configuration (only Server6, Server4)")
	return strings.TrimPrefix(s.Sel.Name, "Server"), true
}

// srvSel: x is `srv.<field>`, srv the Servers value.
func (g *sgen) srvSel(x ast.Expr, st stState, field string) bool {
	s, ok := g.unparen(x).(*ast.SelectorExpr)
	return ok && st.kind(s.X) == "srv" && s.Sel.Name == field
}

func (g *sgen) stNew(id *ast.Ident, st stState, v stVar) stState {
	g.newLocal(id, st.isVar)
	return st.withVar(id.Name, v)
}

func (g *sgen) errTestOf(cond ast.Expr, st stState) (eq bool, ok bool) {
	x := g.unparen(cond)
	neg := false
	for {
		u, isU := x.(*ast.UnaryExpr)
		if !isU || u.Op != token.NOT {
			break
		}
		neg, x = !neg, g.unparen(u.X)
	}
	b, isB := x.(*ast.BinaryExpr)
	if !isB || (b.Op != token.EQL && b.Op != token.NEQ) || !g.isNil(b.Y) || st.kind(g.unparen(b.X)) != "err" {
		return false, false
	}
	return (b.Op == token.EQL) != neg, true
}

func (g *sgen) srvTestOf(cond ast.Expr, st stState) (n string, eq bool, ok bool) {
	x := g.unparen(cond)
	neg := false
	for {
		u, isU := x.(*ast.UnaryExpr)
		if !isU || u.Op != token.NOT {
			break
		}
		neg, x = !neg, g.unparen(u.X)
	}
	b, isB := x.(*ast.BinaryExpr)
	if !isB || (b.Op != token.EQL && b.Op != token.NEQ) || !g.isNil(b.Y) {
		return "", false, false
	}
	n, ok = g.srvField(b.X, st)
	return n, (b.Op == token.EQL) != neg, ok
}

func (g *sgen) stAssign(a *ast.AssignStmt, st stState, ctx stCtx) ([]string, stState) {
	g.must(len(a.Rhs) == 1, a, "unsupported assignment shape")
	rhs := g.unparen(a.Rhs[0])
	if sel, ok := a.Lhs[0].(*ast.SelectorExpr); ok {
		g.must(len(a.Lhs) == 1 && a.Tok == token.ASSIGN, a, "unsupported assignment")
		if g.srvSel(sel, st, "listeners") { // srv.listeners = append(srv.listeners, l)
			c, ok := rhs.(*ast.CallExpr)
			g.must(ok && isIdent(c.Fun, "append") && len(c.Args) == 2 && !c.Ellipsis.IsValid() && g.srvSel(c.Args[0], st, "listeners"), a,
				"only `srv.listeners = append(srv.listeners, l)` is supported")
			id, ok := g.unparen(c.Args[1]).(*ast.Ident)
			g.must(ok && st.vars[id.Name].kind == "lis", c.Args[1], "the appended value must be a listener variable")
			l := st.lis[id.Name]
			g.must(l.state == "ok", c.Args[1], "the listener is appended on a path where it is not known to be the result of a successful listenX call")
			name := g.fresh("st")
			line := "let " + name + " := { " + st.st + " with listeners := " + st.st + ".listeners ++ [some " + l.lean + "] }"
			st.st = name
			l.frozen = true
			return []string{line}, st.withLis(id.Name, l)
		}
		id, ok := sel.X.(*ast.Ident)
		g.must(ok && st.vars[id.Name].kind == "lis" && sel.Sel.Name == "handlers", a, "unsupported assignment (only srv.listeners = append(…) and l.handlers = <chain>)")
		l := st.lis[id.Name]
		g.must(l.state == "ok", sel, "field of a listener assigned on a path where the pointer is not known to be non-nil")
		g.must(!l.frozen, a, "field of a listener assigned after the pointer was shared (appended to srv.listeners / captured by a goroutine)")
		g.must(st.kind(rhs) == "chain", a.Rhs[0], "the handlers must be one of the chains returned by LoadPlugins")
		name := g.fresh("l")
		line := "let " + name + " := { " + l.lean + " with chain := some " + st.vars[rhs.(*ast.Ident).Name].tag + " }"
		l.lean = name
		return []string{line}, st.withLis(id.Name, l)
	}
	var ids []*ast.Ident
	for _, l := range a.Lhs {
		id, ok := l.(*ast.Ident)
		g.must(ok, l, "assignment target must be a plain variable")
		ids = append(ids, id)
	}
	if cl, ok := rhs.(*ast.CompositeLit); ok { // srv := Servers{errors: make(chan error)}
		g.must(a.Tok == token.DEFINE && len(ids) == 1 && isIdent(cl.Type, "Servers") && !ctx.step && ctx.depth == 0 && st.st == "", a,
			"only `srv := Servers{errors: make(chan error)}`, once, at the top level of the function, is supported")
		g.must(len(cl.Elts) == 1, cl, "only `Servers{errors: make(chan error)}` is supported")
		kv, ok := cl.Elts[0].(*ast.KeyValueExpr)
		g.must(ok && isIdent(kv.Key, "errors") && g.src(kv.Value) == "make(chan error)", cl, "only `Servers{errors: make(chan error)}` (an unbuffered channel, no listeners) is supported")
		st = g.stNew(ids[0], st, stVar{kind: "srv"})
		st.st = g.fresh("st")
		return []string{"let " + st.st + " : St := { listeners := [], serving := [], closed := [], asked := 0 }"}, st
	}
	c, ok := rhs.(*ast.CallExpr)
	g.must(ok && !c.Ellipsis.IsValid(), a, "unsupported assignment")
	if pkg, name, ok := g.pkgSel(c.Fun, st.isVar); ok { // h4, h6, err := plugins.LoadPlugins(config)
		g.must(pkg == "plugins" && name == "LoadPlugins", c.Fun, "unknown call")
		g.must(a.Tok == token.DEFINE && len(ids) == 3 && !ctx.step && ctx.depth == 0 && st.err == "", a, "only `h4, h6, err := plugins.LoadPlugins(config)`, once, at the top level, is supported")
		g.must(len(c.Args) == 1 && st.kind(g.unparen(c.Args[0])) == "conf", c, "LoadPlugins must be given the configuration parameter")
		for i, tag := range g.tags {
			st = g.stNew(ids[i], st, stVar{kind: "chain", tag: tag})
		}
		st = g.stNew(ids[2], st, stVar{kind: "err"})
		st.err = "pending:load"
		return nil, st
	}
	// l, err = listenX(&addr)
	fn, ok := c.Fun.(*ast.Ident)
	g.must(ok && g.listens[fn.Name] != "" && !st.isVar(fn.Name), c.Fun, "unknown call (only plugins.LoadPlugins and the listenX functions of this file)")
	g.must(a.Tok == token.ASSIGN, a, "the result of %s must be ASSIGNED (`=`) to the listener variable and the function's error variable: a `:=` declares a new `err` that the code after the label does not see", fn.Name)
	g.must(len(ids) == 2 && st.vars[ids[0].Name].kind == "lis" && st.vars[ids[1].Name].kind == "err", a, "only `l, err = listenX(&addr)` is supported")
	g.must(ctx.inLoop, a, "listenX called outside a loop over the addresses")
	v, l := st.vars[ids[0].Name], st.lis[ids[0].Name]
	g.must(v.typ == g.listens[fn.Name], a, "%s returns a *%s, the variable is a *%s", fn.Name, g.listens[fn.Name], v.typ)
	g.must(l.state == "nil" && !l.frozen, a, "the listener variable is assigned a second time")
	g.must(!strings.HasPrefix(st.err, "pending:"), a, "the error of the previous call is overwritten before it is looked at")
	g.must(len(c.Args) == 1, c, "listenX takes one argument")
	u, ok := g.unparen(c.Args[0]).(*ast.UnaryExpr)
	g.must(ok && u.Op == token.AND && st.kind(g.unparen(u.X)) == "elem", c.Args[0], "the argument must be the address of the loop variable (&addr)")
	r, name := g.fresh("r"), g.fresh("st")
	lines := []string{"let " + r + " := " + fn.Name + " addr (w " + st.st + ".asked)",
		"let " + name + " := { " + st.st + " with asked := " + st.st + ".asked + 1 }"}
	st.st = name
	st.err = "pending:listen:" + r
	return lines, st.withLis(ids[0].Name, stLis{state: "pending", lean: r})
}

// goStmt: go func() { srv.errors <- l.Serve() }()
func (g *sgen) goStmt(s *ast.GoStmt, st stState, ctx stCtx) ([]string, stState) {
	shape := "the only goroutine supported is `go func() { srv.errors <- l.Serve() }()`"
	fl, ok := s.Call.Fun.(*ast.FuncLit)
	g.must(ok && len(s.Call.Args) == 0 && len(fl.Type.Params.List) == 0 && fl.Type.Results == nil && len(fl.Body.List) == 1, s, shape)
	send, ok := fl.Body.List[0].(*ast.SendStmt)
	g.must(ok && g.srvSel(send.Chan, st, "errors"), s, shape)
	c, ok := g.unparen(send.Value).(*ast.CallExpr)
	g.must(ok && len(c.Args) == 0, s, shape)
	m, ok := c.Fun.(*ast.SelectorExpr)
	g.must(ok && m.Sel.Name == "Serve", s, shape)
	id, ok := m.X.(*ast.Ident)
	g.must(ok && st.vars[id.Name].kind == "lis", m.X, "the goroutine must serve a listener variable")
	g.must(ctx.inLoop && st.vars[id.Name].inLoop, m.X,
		"the closure captures `%s`, which is declared outside the loop body: every goroutine would read the same variable (and race with the next round's assignment)", id.Name)
	l := st.lis[id.Name]
	g.must(l.state == "ok", m.X, "the goroutine serves a listener on a path where it is not known to be the result of a successful listenX call")
	name := g.fresh("st")
	line := "let " + name + " := { " + st.st + " with serving := " + st.st + ".serving ++ [" + l.lean + "] }"
	st.st = name
	l.frozen = true
	return []string{line}, st.withLis(id.Name, l)
}

func (g *sgen) stBlock(list []ast.Stmt, st stState, ctx stCtx, k func(stState) string) string {
	if len(list) == 0 {
		return k(st)
	}
	s, rest := list[0], list[1:]
	next := func(st2 stState) string { return g.stBlock(rest, st2, ctx, k) }
	if g.isLog(s, st.isVar) {
		return next(st)
	}
	switch s := s.(type) {
	case *ast.ReturnStmt:
		g.must(len(rest) == 0, stRest0(rest, s), "unreachable statement after return")
		g.must(!ctx.step, s, "a return inside a loop (or inside a statement that contains a loop) is unsupported: the loops leave through `goto <label>`")
		g.must(len(s.Results) == 2, s, "return must have two results")
		if g.isNil(s.Results[1]) { // return &srv, nil
			u, ok := g.unparen(s.Results[0]).(*ast.UnaryExpr)
			g.must(ok && u.Op == token.AND && st.kind(g.unparen(u.X)) == "srv", s, "a return without error must be `return &srv, nil`")
			g.must(!ctx.label, s, "success is returned by the code after the label, which is reached with err != nil")
			g.must(!strings.HasPrefix(st.err, "pending:"), s, "success is returned on a path where an error was not looked at")
			return ".ok " + st.st
		}
		g.must(g.isNil(s.Results[0]) && st.kind(g.unparen(s.Results[1])) == "err", s, "an error return must be `return nil, err`")
		switch {
		case st.err == "set:load":
			g.must(st.st == "", s, "the error of LoadPlugins returned after srv was made")
			return ".loadErr"
		case strings.HasPrefix(st.err, "set:listen:"):
			return ".listenErr " + st.st + " " + strings.TrimPrefix(st.err, "set:listen:")
		}
		g.fail(s, "the error variable is returned on a path where it is not known to be non-nil")
	case *ast.BranchStmt:
		g.must(s.Tok == token.GOTO && s.Label != nil && s.Label.Name == g.label && g.label != "", s, "unsupported branch statement (only `goto <the label of the function>`)")
		g.must(len(rest) == 0, stRest0(rest, s), "unreachable statement after goto")
		g.must(ctx.step && !ctx.label, s, "goto outside a loop / a statement that contains a loop")
		g.must(strings.HasPrefix(st.err, "set:listen:"), s, "goto on a path where `err` is not known to be the failure of a listenX call (the code after the label returns it)")
		return ".jump " + st.st + " " + strings.TrimPrefix(st.err, "set:listen:")
	case *ast.DeclStmt: // var l *listenerT
		d, ok := s.Decl.(*ast.GenDecl)
		g.must(ok && d.Tok == token.VAR && len(d.Specs) == 1, s, "unsupported declaration")
		v := d.Specs[0].(*ast.ValueSpec)
		g.must(len(v.Names) == 1 && len(v.Values) == 0 && v.Type != nil, s, "only `var l *listenerT` is supported")
		star, ok := v.Type.(*ast.StarExpr)
		g.must(ok, v.Type, "only `var l *listenerT` is supported")
		t, ok := star.X.(*ast.Ident)
		g.must(ok && g.lisProto[t.Name] != "" && !st.isVar(t.Name), v.Type, "only `var l *listenerT` is supported")
		g.must(ctx.depth == 0 || (ctx.inLoop && ctx.depth == 1), s, "a listener variable can be declared at the top level of the function or of a loop body")
		st = g.stNew(v.Names[0], st, stVar{kind: "lis", typ: t.Name, inLoop: ctx.inLoop})
		return next(st.withLis(v.Names[0].Name, stLis{state: "nil"}))
	case *ast.AssignStmt:
		lines, st2 := g.stAssign(s, st, ctx)
		return joinLines(lines, next(st2))
	case *ast.GoStmt:
		lines, st2 := g.goStmt(s, st, ctx)
		return joinLines(lines, next(st2))
	case *ast.ExprStmt: // srv.Close()
		c, ok := s.X.(*ast.CallExpr)
		g.must(ok && len(c.Args) == 0, s, "unsupported statement")
		m, ok := c.Fun.(*ast.SelectorExpr)
		g.must(ok && st.kind(m.X) == "srv" && m.Sel.Name == "Close", s, "unsupported statement (only srv.Close())")
		g.must(g.hasClose, s, "the method Close of Servers was not translated")
		name := g.fresh("st")
		line := "let " + name + " := { " + st.st + " with closed := " + st.st + ".closed ++ close " + st.st + ".listeners }"
		st.st = name
		return line + "\n" + next(st)
	case *ast.IfStmt:
		return g.stIf(s, st, ctx, next)
	case *ast.RangeStmt:
		return g.stLoop(s, st, ctx, next)
	}
	g.fail(s, "unsupported statement")
	return ""
}

func containsLoop(n ast.Node) bool {
	found := false
	ast.Inspect(n, func(n ast.Node) bool {
		switch n.(type) {
		case *ast.RangeStmt, *ast.ForStmt:
			found = true
		}
		return !found
	})
	return found
}

func (g *sgen) stIf(s *ast.IfStmt, st stState, ctx stCtx, k func(stState) string) string {
	g.must(s.Init == nil, s, "if with init statement unsupported")
	outer := st
	// back in the enclosing block: its variables and facts; the St value and the error state of the path
	after := func(end stState) string {
		return k(stState{vars: outer.vars, lis: end.lis, srv: outer.srv, st: end.st, err: end.err})
	}
	if !ctx.step && containsLoop(s) { // Step-valued: the `if` yields the new state, or jumps to the label
		inner := ctx
		inner.step = true
		expr := g.stIfCore(s, st, inner, func(end stState) string { return ".next " + end.st })
		t, name, f := g.fresh("t"), g.fresh("st"), g.fresh("f")
		st2 := outer
		st2.st = name
		st2.err = "nil" // every path that reaches the end of a loop has looked at its errors
		return "let " + t + " : Step :=\n" + indent(expr) + "\n" +
			lpMatch(t, [2]string{".jump " + name + " " + f, ".next " + name}, [2]string{"cleanup " + name + " " + f, k(st2)})
	}
	return g.stIfCore(s, st, ctx, after)
}

func (g *sgen) stIfCore(s *ast.IfStmt, st stState, ctx stCtx, after func(stState) string) string {
	in := ctx
	in.depth++
	elsePart := func(stElse stState) string {
		switch b := s.Else.(type) {
		case nil:
			return after(stElse)
		case *ast.BlockStmt:
			return g.stBlock(b.List, stElse, in, after)
		case *ast.IfStmt:
			return g.stIf(b, stElse, in, after)
		}
		g.fail(s.Else, "unsupported else")
		return ""
	}
	if eq, ok := g.errTestOf(s.Cond, st); ok {
		g.must(strings.HasPrefix(st.err, "pending:"), s.Cond, "this test of the error is already decided on this path")
		what := strings.TrimPrefix(st.err, "pending:")
		bad, good := st, st
		good.err = "nil"
		var scrut string
		var pats [2]string
		if what == "load" {
			bad.err = "set:load"
			scrut, pats = "loadedOk", [2]string{"false", "true"}
		} else { // listen:<r>
			r := strings.TrimPrefix(what, "listen:")
			f := g.fresh("f")
			bad.err = "set:listen:" + f
			scrut, pats = r, [2]string{".error " + f, ""}
			for name, l := range st.lis {
				if l.state == "pending" && l.lean == r {
					bad = bad.withLis(name, stLis{state: "nil"})
				}
			}
		}
		var arms [2]string
		if eq {
			arms[0] = elsePart(bad)
		} else {
			arms[0] = g.stBlock(s.Body.List, bad, in, after)
		}
		if what != "load" {
			r := strings.TrimPrefix(what, "listen:")
			l := g.fresh("l")
			pats[1] = ".ok " + l
			for name, x := range st.lis {
				if x.state == "pending" && x.lean == r {
					good = good.withLis(name, stLis{state: "ok", lean: l})
				}
			}
		}
		if eq {
			arms[1] = g.stBlock(s.Body.List, good, in, after)
		} else {
			arms[1] = elsePart(good)
		}
		return lpMatch(scrut, pats, arms)
	}
	if n, eq, ok := g.srvTestOf(s.Cond, st); ok {
		g.must(st.srv[n] == "", s.Cond, "this test is already decided on this path")
		var arms [2]string
		isNil := st.withSrv(n, "nil")
		if eq {
			arms[0] = g.stBlock(s.Body.List, isNil, in, after)
		} else {
			arms[0] = elsePart(isNil)
		}
		name := g.fresh("as")
		nonNil := st.withSrv(n, name)
		if eq {
			arms[1] = elsePart(nonNil)
		} else {
			arms[1] = g.stBlock(s.Body.List, nonNil, in, after)
		}
		return lpMatch("s"+n, [2]string{"none", "some " + name}, arms)
	}
	g.fail(s.Cond, "unsupported condition (only err ==/!= nil and config.ServerN ==/!= nil)")
	return ""
}

// stLoop: for _, addr := range config.ServerN.Addresses { … } — emits bodyN and loopN, returns the call.
func (g *sgen) stLoop(r *ast.RangeStmt, st stState, ctx stCtx, k func(stState) string) string {
	shape := "the only loop shape supported is `for _, addr := range config.ServerN.Addresses { … }`"
	g.must(ctx.step && !ctx.inLoop && !ctx.label, r, "a loop is only supported inside an `if` of the function body, not nested")
	g.must(r.Tok == token.DEFINE && (r.Key == nil || isIdent(r.Key, "_")) && r.Value != nil, r, shape)
	v, ok := r.Value.(*ast.Ident)
	g.must(ok, r, shape)
	sel, ok := g.unparen(r.X).(*ast.SelectorExpr)
	g.must(ok && sel.Sel.Name == "Addresses", r.X, shape)
	n, ok := g.srvField(sel.X, st)
	g.must(ok, r.X, shape)
	as := st.srv[n]
	g.must(as != "" && as != "nil", r.X, "config.Server%s.Addresses on a path where config.Server%s is not known to be non-nil (nil pointer)", n, n)
	g.must(st.st != "", r, "loop before srv is made")
	for _, d := range g.defs {
		g.must(!strings.Contains(d, "def loop"+n+" "), r, "second loop over config.Server%s.Addresses", n)
	}
	g.must(!strings.HasPrefix(st.err, "pending:"), r, "loop on a path where an error was not looked at")
	count := g.count
	g.count = map[string]int{}
	bodySt := stState{vars: map[string]stVar{}, lis: map[string]stLis{}, srv: st.srv, st: "st", err: "nil"}
	for name, x := range st.vars {
		if x.kind == "lis" {
			x.inLoop = false
			bodySt.lis[name] = st.lis[name]
		}
		bodySt.vars[name] = x
	}
	bodySt = g.stNew(v, bodySt, stVar{kind: "elem"})
	body := g.stBlock(r.Body.List, bodySt, stCtx{step: true, inLoop: true, depth: 1}, func(end stState) string {
		g.must(!strings.HasPrefix(end.err, "pending:"), r.Body, "the loop body ends on a path where an error was not looked at")
		return ".next " + end.st
	})
	g.count = count
	g.defs = append(g.defs,
		def("One round of the loop over `config.Server"+n+".Addresses` in `Start` (server/serve.go), translated from its go/ast:\n`st` = the state at the start of the round, `addr` = the loop variable, `w` = the world's answers;\n`.next` = the loop goes on, `.jump` = `goto` the label with `err` = this failure.",
			"body"+n+" (w : World) (st : St) (addr : LAddr) : Step", body),
		"/-- The loop over `config.Server"+n+".Addresses`: the state of one round is the state at the start of the next,\na jump ends the loop. -/\n"+
			"def loop"+n+" (w : World) : St → List LAddr → Step\n"+
			"  | st, [] => .next st\n"+
			"  | st, addr :: rest =>\n"+
			"    match body"+n+" w st addr with\n"+
			"    | .jump st' f => .jump st' f\n"+
			"    | .next st' => loop"+n+" w st' rest\n\n")
	call := "loop" + n + " w " + st.st + " " + as
	name, f := g.fresh("st"), g.fresh("f")
	st2 := st
	st2.st, st2.err = name, "nil"
	restText := k(st2)
	if restText == ".next "+name { // nothing follows: the result of the loop is the result of the block
		g.count["st"]--
		g.count["f"]--
		return call
	}
	return lpMatch(call, [2]string{".jump " + name + " " + f, ".next " + name}, [2]string{".jump " + name + " " + f, restText})
}

// startFunc: func Start(config *config.Config) (*Servers, error)
func (g *sgen) startFunc(f *ast.FuncDecl) {
	ps := f.Type.Params.List
	g.must(len(ps) == 1 && len(ps[0].Names) == 1 && g.src(ps[0].Type) == "*config.Config" && g.imports["config"] == stPkgs["config"], f.Type, "expected one parameter of type *config.Config")
	res := f.Type.Results
	g.must(res != nil && len(res.List) == 2 && len(res.List[0].Names) == 0 && len(res.List[1].Names) == 0 &&
		g.src(res.List[0].Type) == "*Servers" && g.src(res.List[1].Type) == "error", f.Type, "expected the unnamed results (*Servers, error)")
	// the parameter may shadow an imported package (it is called `config`), but not one the body's vocabulary uses
	p := ps[0].Names[0]
	g.must(p.Name != "_" && p.Name != "plugins" && !g.pkgNames[p.Name] && !stBuiltins[p.Name], p, "parameter name clashes with a name the translator gives a fixed meaning")
	st := stState{vars: map[string]stVar{p.Name: {kind: "conf"}}, lis: map[string]stLis{}, srv: map[string]string{}}
	// the statements after the (only) label
	main, tail := f.Body.List, []ast.Stmt(nil)
	for i, s := range f.Body.List {
		if l, ok := s.(*ast.LabeledStmt); ok {
			g.label = l.Label.Name
			main = f.Body.List[:i]
			tail = append([]ast.Stmt{l.Stmt}, f.Body.List[i+1:]...)
			break
		}
	}
	ast.Inspect(f.Body, func(n ast.Node) bool {
		if l, ok := n.(*ast.LabeledStmt); ok {
			g.must(l.Label.Name == g.label && len(tail) > 0 && l.Stmt == tail[0], l, "only one label, at the top level of the function, is supported")
		}
		return true
	})
	if g.label != "" {
		g.must(len(main) > 0, f.Name, "label at the start of the function")
		_, isRet := main[len(main)-1].(*ast.ReturnStmt)
		g.must(isRet, main[len(main)-1], "control falls through into the label: the statement before it must be a return")
		// the names the tail sees: everything declared at the top level of the main part (Go forbids a goto over a declaration,
		// so they are all declared before any goto); it is given the state `st` and the failure `f`
		g.count = map[string]int{}
		tailSt := st
		var srvName, errName *ast.Ident
		for _, s := range main {
			a, ok := s.(*ast.AssignStmt)
			if !ok || a.Tok != token.DEFINE {
				continue
			}
			if cl, ok := a.Rhs[0].(*ast.CompositeLit); ok && isIdent(cl.Type, "Servers") && len(a.Lhs) == 1 {
				srvName, _ = a.Lhs[0].(*ast.Ident)
			}
			if c, ok := a.Rhs[0].(*ast.CallExpr); ok && len(a.Lhs) == 3 && g.src(c.Fun) == "plugins.LoadPlugins" {
				errName, _ = a.Lhs[2].(*ast.Ident)
			}
		}
		g.must(srvName != nil && errName != nil, f.Name, "the declarations of srv and err were not found at the top level of Start")
		tailSt = tailSt.withVar(srvName.Name, stVar{kind: "srv"}).withVar(errName.Name, stVar{kind: "err"})
		tailSt.st, tailSt.err = "st", "set:listen:f"
		body := g.stBlock(tail, tailSt, stCtx{label: true}, func(stState) string {
			g.fail(f.Name, "control reaches the end of the function without a return")
			return ""
		})
		g.defs = append(g.defs, def("The statements after the label of `Start` (server/serve.go), translated from their go/ast: `st` = the state at the\n`goto`, `f` = the failure `err` holds there.",
			"cleanup (st : St) (f : ListenFail) : StartOut", body))
	}
	g.count = map[string]int{}
	body := g.stBlock(main, st, stCtx{}, func(stState) string {
		g.fail(f.Name, "control reaches the end of the function without a return")
		return ""
	})
	g.defs = append(g.defs, def("`Start` (server/serve.go), translated from its go/ast: `s6` / `s4` = the addresses of `config.Server6` / `config.Server4`\n(none = nil), `loadedOk` = plugins.LoadPlugins succeeds, `w` = the world's answers to the successive listenX calls.",
		"start (s6 s4 : Option (List LAddr)) (loadedOk : Bool) (w : World) : StartOut", body))
}

// ================================================================ declarations

func (g *sgen) typeSpec(file *ast.File, name string) *ast.TypeSpec {
	for _, d := range file.Decls {
		gd, ok := d.(*ast.GenDecl)
		if !ok || gd.Tok != token.TYPE {
			continue
		}
		for _, sp := range gd.Specs {
			if ts := sp.(*ast.TypeSpec); ts.Name.Name == name {
				return ts
			}
		}
	}
	return nil
}

func (g *sgen) fieldList(ts *ast.TypeSpec) []string {
	s, ok := ts.Type.(*ast.StructType)
	g.must(ok && ts.TypeParams == nil, ts, "%s is not a plain struct", ts.Name.Name)
	var out []string
	for _, f := range s.Fields.List {
		if len(f.Names) == 0 {
			out = append(out, g.src(f.Type))
		}
		for _, n := range f.Names {
			out = append(out, n.Name+" "+g.src(f.Type))
		}
	}
	return out
}

func (g *sgen) checkDecls(file, cfg, plug *ast.File, die func(...interface{})) {
	has := func(fields []string, f string) bool {
		for _, x := range fields {
			if x == f {
				return true
			}
		}
		return false
	}
	// the listener types: struct { *ipvN.PacketConn; net.Interface; handlers []handler.HandlerN }
	for _, d := range file.Decls {
		gd, ok := d.(*ast.GenDecl)
		if !ok || gd.Tok != token.TYPE {
			continue
		}
		for _, sp := range gd.Specs {
			ts := sp.(*ast.TypeSpec)
			if _, ok := ts.Type.(*ast.StructType); !ok {
				continue
			}
			for _, n := range []string{"4", "6"} {
				if fmt.Sprint(g.fieldList(ts)) == fmt.Sprint([]string{"*ipv" + n + ".PacketConn", "net.Interface", "handlers []handler.Handler" + n}) {
					g.must(g.imports["ipv"+n] == stPkgs["ipv"+n] && g.imports["net"] == "net" && g.imports["handler"] == stPkgs["handler"], ts, "unexpected imports")
					g.lisProto[ts.Name.Name] = n
				}
			}
		}
	}
	if len(g.lisProto) != 2 {
		die("the two listener types struct { *ipvN.PacketConn; net.Interface; handlers []handler.HandlerN } were not found")
	}
	ts := g.typeSpec(file, "listener")
	if ts == nil {
		die("type listener not found")
	}
	g.must(g.src(ts.Type) == "interface {\n\tio.Closer\n}" && g.imports["io"] == "io", ts, "type listener is not interface { io.Closer }")
	ts = g.typeSpec(file, "Servers")
	if ts == nil {
		die("type Servers not found")
	}
	g.must(fmt.Sprint(g.fieldList(ts)) == fmt.Sprint([]string{"listeners []listener", "errors chan error"}), ts, "the fields of Servers are not listeners []listener, errors chan error")
	// log
	found := false
	for _, d := range file.Decls {
		gd, ok := d.(*ast.GenDecl)
		if !ok || gd.Tok != token.VAR {
			continue
		}
		for _, sp := range gd.Specs {
			vs := sp.(*ast.ValueSpec)
			for i, n := range vs.Names {
				if n.Name == "log" {
					g.must(len(vs.Values) == len(vs.Names), vs, "unexpected declaration of log")
					c, ok := vs.Values[i].(*ast.CallExpr)
					g.must(ok && g.src(c.Fun) == "logger.GetLogger" && g.imports["logger"] == stPkgs["logger"], vs, "log is not a logger.GetLogger(…)")
					found = true
				}
			}
		}
	}
	if !found {
		die("declaration of log not found")
	}
	// config.go
	ts = g.typeSpec(cfg, "Config")
	if ts == nil {
		die("config.go: type Config not found")
	}
	fields := g.fieldList(ts)
	g.must(has(fields, "Server6 *ServerConfig") && has(fields, "Server4 *ServerConfig"), ts, "Config has no fields Server6, Server4 of type *ServerConfig")
	ts = g.typeSpec(cfg, "ServerConfig")
	if ts == nil {
		die("config.go: type ServerConfig not found")
	}
	g.must(has(g.fieldList(ts), "Addresses []net.UDPAddr"), ts, "ServerConfig has no field Addresses []net.UDPAddr")
	// plugin.go: func LoadPlugins(conf *config.Config) ([]handler.Handler4, []handler.Handler6, error) — the order gives the tags
	for _, d := range plug.Decls {
		f, ok := d.(*ast.FuncDecl)
		if !ok || f.Recv != nil || f.Name.Name != "LoadPlugins" {
			continue
		}
		ps, res := f.Type.Params.List, f.Type.Results
		g.must(len(ps) == 1 && len(ps[0].Names) <= 1 && g.src(ps[0].Type) == "*config.Config", f.Type, "LoadPlugins does not take one *config.Config")
		g.must(res != nil && len(res.List) == 3 && g.src(res.List[2].Type) == "error", f.Type, "LoadPlugins does not return (chain, chain, error)")
		for i := 0; i < 2; i++ {
			g.must(len(res.List[i].Names) == 0, res.List[i], "named results unsupported")
			switch g.src(res.List[i].Type) {
			case "[]handler.Handler4":
				g.tags = append(g.tags, ".chain4")
			case "[]handler.Handler6":
				g.tags = append(g.tags, ".chain6")
			default:
				g.fail(res.List[i].Type, "result of LoadPlugins that is not a chain of handlers")
			}
		}
		g.must(g.tags[0] != g.tags[1], f.Type, "LoadPlugins returns the same kind of chain twice")
	}
	if len(g.tags) != 2 {
		die("plugin.go: function LoadPlugins not found")
	}
}

const gen13Header = `-- GENERATED by harness gen -unit start from server/serve.go (listen4, listen6, Start, Close) — do not edit
-- Regenerated from the Go source on every run; Props/GenStart.lean proves these definitions
-- equal to the hand-written model in Model/Start.lean.
import CoreDhcp.Model.Start
set_option linter.unusedVariables false
namespace CoreDhcp.GenStart

/-! Fixed vocabulary (not derived from the source; the table is in the header of gen13.go).  Every
out-of-repository call is an input: ` + "`o.conn`" + ` = serverN.NewIPvNUDPConn succeeds, ` + "`o.ifByName`" + ` = net.InterfaceByName,
` + "`o.setCM`" + ` = SetControlMessage, ` + "`o.join`" + ` = JoinGroup, ` + "`loadedOk`" + ` = plugins.LoadPlugins, ` + "`w k`" + ` = the answers to the
k-th listenX call of ` + "`Start`" + `; the arguments of each call are recorded in the ` + "`Listener`" + ` value (conn, iface,
cmsg, joined, chain) and the order of the calls is the nesting of the matches.  ` + "`a.IP.IsMulticast()`" + ` ↦
` + "`a.multicast`" + ` · ` + "`return nil, e`" + ` ↦ ` + "`.error ⟨e, the listener value dropped⟩`" + ` · a goroutine
` + "`srv.errors <- l.Serve()`" + ` ↦ ` + "`l`" + ` appended to ` + "`serving`" + ` · ` + "`x.Close()`" + ` ↦ ` + "`x`" + ` appended to ` + "`closed`" + ` ·
log statements ↦ nothing (their arguments are checked to be literals or variables). -/

/-- how a loop body, a loop, or a statement that contains a loop ends: control goes on with the state ` + "`st`" + `,
or jumps to the label of the function with ` + "`err`" + ` = the failure ` + "`f`" + ` of a listenX call -/
inductive Step
  | next (st : St)
  | jump (st : St) (f : ListenFail)

`

func runGen13(srcArg, outPath string) {
	die := func(a ...interface{}) {
		fmt.Fprintln(os.Stderr, append([]interface{}{"gen:"}, a...)...)
		os.Exit(2)
	}
	if srcArg == "" {
		srcArg = startSrc
	}
	p := strings.Split(srcArg, ",")
	if len(p) > 3 {
		die("-src for unit start is serve.go[,config.go[,plugin.go]]")
	}
	srcPath := p[0]
	root := filepath.Dir(filepath.Dir(srcPath))
	cfgPath, plugPath := filepath.Join(root, "config", "config.go"), filepath.Join(root, "plugins", "plugin.go")
	if len(p) > 1 {
		cfgPath = p[1]
	}
	if len(p) > 2 {
		plugPath = p[2]
	}
	g := &sgen{gen: &gen{fset: token.NewFileSet()}, imports: map[string]string{}, pkgNames: map[string]bool{},
		count: map[string]int{}, lisProto: map[string]string{}, listens: map[string]string{}}
	parse := func(path string) *ast.File {
		f, err := parser.ParseFile(g.fset, path, nil, parser.SkipObjectResolution)
		if err != nil {
			die("parse:", err)
		}
		return f
	}
	file, cfg, plug := parse(srcPath), parse(cfgPath), parse(plugPath)
	for _, im := range file.Imports {
		path, _ := strconv.Unquote(im.Path.Value)
		name := filepath.Base(path)
		if im.Name != nil {
			name = im.Name.Name
		}
		g.must(name != "." && name != "_", im, "dot / blank import unsupported")
		g.imports[name] = path
		if want, ok := stPkgs[name]; ok {
			g.must(path == want, im, "package name %s stands for %s in the vocabulary", name, want)
		}
	}
	var listens []*ast.FuncDecl
	var start, closeFn *ast.FuncDecl
	for _, d := range file.Decls {
		switch d := d.(type) {
		case *ast.FuncDecl:
			g.must(d.Type.TypeParams == nil && d.Body != nil, d.Name, "unsupported function form")
			if d.Recv != nil {
				if d.Name.Name == "Close" && len(d.Recv.List) == 1 && strings.TrimPrefix(g.src(d.Recv.List[0].Type), "*") == "Servers" {
					g.must(closeFn == nil, d.Name, "declared twice")
					closeFn = d
				}
				continue
			}
			if g.pkgNames[d.Name.Name] {
				die(srcPath+":", d.Name.Name, "declared twice")
			}
			g.pkgNames[d.Name.Name] = true
			switch {
			case d.Name.Name == "Start":
				start = d
			case strings.HasPrefix(d.Name.Name, "listen"):
				listens = append(listens, d)
			}
		case *ast.GenDecl:
			for _, sp := range d.Specs {
				switch sp := sp.(type) {
				case *ast.ValueSpec:
					for _, n := range sp.Names {
						g.pkgNames[n.Name] = true
					}
				case *ast.TypeSpec:
					g.pkgNames[sp.Name.Name] = true
				}
			}
		}
	}
	if start == nil || closeFn == nil || len(listens) != 2 || listens[0].Name.Name+listens[1].Name.Name != "listen4listen6" {
		die(srcPath + ": the functions listen4, listen6 (in this order), Start and the method (*Servers).Close were not all found")
	}
	for b := range stBuiltins {
		if g.pkgNames[b] || g.imports[b] != "" {
			die(srcPath+": the builtin", b, "is redefined at package level")
		}
	}
	g.checkDecls(file, cfg, plug, die)
	out := gen13Header
	for _, f := range listens {
		out += g.listenFunc(f)
	}
	g.closeFunc(closeFn)
	g.startFunc(start)
	out += strings.Join(g.defs, "") + "end CoreDhcp.GenStart\n"
	if err := os.WriteFile(outPath, []byte(out), 0o644); err != nil {
		die(err)
	}
	fmt.Printf("gen: wrote %s (%d bytes) from %s\n", outPath, len(out), srcPath)
}
