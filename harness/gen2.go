// gen2.go — `harness gen -unit dispatch6|dispatch4|serverid6|netmask`: the decision logic of the
// server, regenerated as Lean definitions from the go/ast of
//
//	server/handle.go            HandleMsg6 (unit dispatch6), HandleMsg4 (unit dispatch4)
//	plugins/serverid/plugin.go  Handler6   (unit serverid6)
//	plugins/netmask/plugin.go   checkValidNetmask (unit netmask)
//
// Props/Gen2.lean proves every generated definition equal to the hand-written model.
//
// Like gen.go, the translator knows a tiny fixed vocabulary and fails loudly (source position,
// exit code 2) on everything else.
//
//   - A local variable means something only through its ROLE: the receiver and the parameters get
//     a role by position, a local gets one from the expression that defines it (`binders`, e.g.
//     `x, err := d.GetInnerMessage()` with `d` of role pkt6 gives `x` the role inner6).  Names are
//     free; an expression is looked up by its canonical text, in which every variable is replaced
//     by ‹role› (`msg.Type()` ↦ `‹inner6›.Type()`).
//   - An ATOM is a canonical text with a fixed meaning: a parameter of the generated function
//     (`‹inner6›.Type()` ↦ `mt : Nat`, `‹oob›!=nil` ↦ `oobNonNil : Bool`).  Numeric atoms may only be
//     compared (== / !=) with constants whose value is READ FROM THE LIBRARY SOURCE
//     (dhcpv6/types.go, dhcpv4/types.go, dhcpv4/defaults.go) or with integer literals.
//   - Conditions are translated structurally: || && ! == != over atoms.  An atom that dereferences
//     a pointer that may be nil (`oob.IfIndex`, `sid.Equal(..)`) is accepted only where a
//     `!= nil` test of that pointer dominates it.
//   - Statements: if / else if / else, switch with or without tag (default last), and per unit a
//     fixed list of effect statements (`peer = &net.UDPAddr{IP: a, Port: p}`), terminal statements
//     (`return nil, true`) and no-ops (log calls).  An `if`/`switch` that falls through gets the
//     rest of the block duplicated into its branches, the symbolic state (which value was assigned
//     to `peer`, `woob`, …) travels along each path.
//   - Everything between the recognised regions of a function is skipped, after checking that it
//     does not assign to (or take the address of) a variable that has a role.
package main

import (
	"fmt"
	"go/ast"
	"go/parser"
	"go/token"
	"os"
	"path/filepath"
	"sort"
	"strconv"
	"strings"
)

type atom struct {
	lean  string // name of the parameter of the generated function
	nat   bool   // Nat-valued (else Bool)
	needs string // role of a pointer that must be known to be non-nil where the atom is evaluated
}

type dunit struct {
	*gen
	name      string
	roles     map[string]string // local identifier ↦ role
	free      map[string]bool   // roles whose variable may be assigned to in skipped code
	globals   map[string]bool   // identifiers with a fixed meaning: packages, package-level variables
	consts    map[string]int    // qualified constant ↦ value, read from the library source
	atoms     map[string]atom   // canonical text ↦ atom
	binders   map[string]string // canonical text of a defining expression ↦ role of the defined variable
	declRoles map[string]string // `var x T`: text of T ↦ role of x (zero value nil)
	assumed   []string          // guards of the source the generated definitions assume to be false
}

// Lean precedences of the Bool operators; `!` is applied to atoms and parenthesised terms only.
const qOr, qAnd, qCmp, qAtom = 30, 35, 50, 100

type cex struct {
	s string
	p int
}

func cwrap(e cex, min int) string {
	if e.p < min {
		return "(" + e.s + ")"
	}
	return e.s
}

// dstate is the symbolic state along one path: state variable ↦ Lean value, and the facts
// "nonnil:‹role›" established by the conditions that dominate the path.
type dstate map[string]string

func (st dstate) with(kv ...string) dstate {
	n := dstate{}
	for k, v := range st {
		n[k] = v
	}
	for i := 0; i+1 < len(kv); i += 2 {
		n[kv[i]] = kv[i+1]
	}
	return n
}

// ------------------------------------------------------------- canonical text

func (u *dunit) canonSoft(x ast.Expr) (string, bool) {
	switch x := x.(type) {
	case *ast.ParenExpr:
		return u.canonSoft(x.X)
	case *ast.Ident:
		if r, ok := u.roles[x.Name]; ok {
			return "‹" + r + "›", true
		}
		return x.Name, u.globals[x.Name]
	case *ast.BasicLit:
		return x.Value, x.Kind == token.INT
	case *ast.SelectorExpr:
		s, ok := u.canonSoft(x.X)
		return s + "." + x.Sel.Name, ok
	case *ast.CallExpr:
		s, ok := u.canonSoft(x.Fun)
		var as []string
		for _, a := range x.Args {
			t, ok2 := u.canonSoft(a)
			ok = ok && ok2
			as = append(as, t)
		}
		return s + "(" + strings.Join(as, ",") + ")", ok && !x.Ellipsis.IsValid()
	case *ast.BinaryExpr:
		if x.Op == token.EQL || x.Op == token.NEQ {
			a, ok1 := u.canonSoft(x.X)
			b, ok2 := u.canonSoft(x.Y)
			return a + x.Op.String() + b, ok1 && ok2
		}
	}
	return "", false
}

func (u *dunit) canon(x ast.Expr) string {
	s, ok := u.canonSoft(x)
	u.must(ok, x, "not in the vocabulary of unit %s (unknown identifier or expression form)", u.name)
	return s
}

// mentionsRole reports whether x mentions a variable that has a role.
func (u *dunit) mentionsRole(x ast.Node) bool {
	found := false
	ast.Inspect(x, func(n ast.Node) bool {
		if id, ok := n.(*ast.Ident); ok && u.roles[id.Name] != "" {
			found = true
		}
		return true
	})
	return found
}

func (u *dunit) bindRole(id *ast.Ident, role string) {
	u.must(id.Name != "_" && !u.globals[id.Name], id, "variable name clashes with a name the translator gives a fixed meaning")
	old, bound := u.roles[id.Name]
	u.must(!bound || u.free[old], id, "variable already has role %s", old)
	for n, r := range u.roles {
		u.must(r != role || n == id.Name, id, "role %s is already held by variable %s", role, n)
	}
	u.roles[id.Name] = role
}

// -------------------------------------------------------------- conditions

func (u *dunit) useAtom(x ast.Expr, a atom, st dstate, allowed map[string]bool) {
	u.must(allowed[a.lean], x, "atom `%s` is not an input of this decision", a.lean)
	if a.needs != "" {
		u.must(st["nonnil:"+a.needs] != "", x, "dereference of ‹%s› is not dominated by a nil check", a.needs)
	}
}

// natExpr translates a Nat-valued expression: a numeric atom, a library constant, an integer literal.
func (u *dunit) natExpr(x ast.Expr, st dstate, allowed map[string]bool) (string, bool) {
	if p, ok := x.(*ast.ParenExpr); ok {
		return u.natExpr(p.X, st, allowed)
	}
	if l, ok := x.(*ast.BasicLit); ok && l.Kind == token.INT {
		v, err := strconv.ParseUint(l.Value, 0, 32)
		u.must(err == nil, x, "unsupported literal")
		return strconv.FormatUint(v, 10), true
	}
	c, ok := u.canonSoft(x)
	if !ok {
		return "", false
	}
	if a, ok := u.atoms[c]; ok && a.nat {
		u.useAtom(x, a, st, allowed)
		return a.lean, true
	}
	if v, ok := u.consts[c]; ok {
		return strconv.Itoa(v), true
	}
	return "", false
}

// nonNil returns the facts a true condition establishes: ‹r›!=nil, and conjunctions of such.
func (u *dunit) nonNil(x ast.Expr, st dstate) dstate {
	switch x := x.(type) {
	case *ast.ParenExpr:
		return u.nonNil(x.X, st)
	case *ast.BinaryExpr:
		if x.Op == token.LAND {
			return u.nonNil(x.Y, u.nonNil(x.X, st))
		}
		if x.Op == token.NEQ {
			if id, ok := x.X.(*ast.Ident); ok && u.roles[id.Name] != "" && u.isNil(x.Y) {
				return st.with("nonnil:"+u.roles[id.Name], "1")
			}
		}
	}
	return st
}

func (u *dunit) isNil(x ast.Expr) bool {
	id, ok := x.(*ast.Ident)
	return ok && id.Name == "nil" && u.roles["nil"] == ""
}

func (u *dunit) cond(x ast.Expr, st dstate, allowed map[string]bool) cex {
	switch x := x.(type) {
	case *ast.ParenExpr:
		return u.cond(x.X, st, allowed)
	case *ast.UnaryExpr:
		u.must(x.Op == token.NOT, x, "unsupported unary operator %s in a condition", x.Op)
		return cex{"!" + cwrap(u.cond(x.X, st, allowed), qAtom), qAtom}
	case *ast.BinaryExpr:
		switch x.Op {
		case token.LOR:
			a, b := u.cond(x.X, st, allowed), u.cond(x.Y, st, allowed)
			return cex{cwrap(a, qOr) + " || " + cwrap(b, qOr+1), qOr}
		case token.LAND:
			a := u.cond(x.X, st, allowed)
			b := u.cond(x.Y, u.nonNil(x.X, st), allowed) // Go evaluates the right operand only if the left one holds
			return cex{cwrap(a, qAnd) + " && " + cwrap(b, qAnd+1), qAnd}
		case token.EQL, token.NEQ:
			if u.isNil(x.Y) { // pointer test: an atom as a whole
				c := u.canon(&ast.BinaryExpr{X: x.X, OpPos: x.OpPos, Op: token.NEQ, Y: x.Y})
				a, ok := u.atoms[c]
				u.must(ok && !a.nat, x, "unrecognised nil test (canonical text `%s`)", c)
				u.useAtom(x, a, st, allowed)
				if x.Op == token.EQL {
					return cex{"!" + a.lean, qAtom}
				}
				return cex{a.lean, qAtom}
			}
			l, ok1 := u.natExpr(x.X, st, allowed)
			r, ok2 := u.natExpr(x.Y, st, allowed)
			cl, _ := u.canonSoft(x.X)
			cr, _ := u.canonSoft(x.Y)
			u.must(ok1 && ok2, x, "comparison of something that is neither a numeric atom nor a known constant (canonical text `%s` %s `%s`)", cl, x.Op, cr)
			_, c1 := u.atomOf(x.X)
			_, c2 := u.atomOf(x.Y)
			u.must(c1 || c2, x, "comparison of two constants")
			return cex{l + " " + x.Op.String() + " " + r, qCmp}
		}
		u.fail(x, "unsupported operator %s in a condition", x.Op)
	}
	c := u.canon(x)
	a, ok := u.atoms[c]
	u.must(ok && !a.nat, x, "unrecognised boolean atom (canonical text `%s`)", c)
	u.useAtom(x, a, st, allowed)
	return cex{a.lean, qAtom}
}

func (u *dunit) atomOf(x ast.Expr) (atom, bool) {
	c, ok := u.canonSoft(x)
	a, ok2 := u.atoms[c]
	return a, ok && ok2
}

// ---------------------------------------------------------------- statements

// region translates the statements of one decision.
type region struct {
	u       *dunit
	allowed map[string]bool
	// effect recognises a statement that updates the symbolic state
	effect func(s ast.Stmt, st dstate) (dstate, bool)
	// terminal recognises a statement that ends the decision with a result
	terminal func(s ast.Stmt, st dstate) (string, bool)
}

func ite(c, a, b string) string {
	if strings.HasPrefix(b, "if ") {
		return "if " + c + " then\n" + indent(a) + "\nelse " + b
	}
	return "if " + c + " then\n" + indent(a) + "\nelse\n" + indent(b)
}

// isLog: `log.Printf(…)` and friends; the arguments are not looked at.
func (u *dunit) isLog(s ast.Stmt) bool {
	e, ok := s.(*ast.ExprStmt)
	if !ok {
		return false
	}
	c, ok := e.X.(*ast.CallExpr)
	if !ok {
		return false
	}
	sel, ok := c.Fun.(*ast.SelectorExpr)
	if !ok {
		return false
	}
	id, ok := sel.X.(*ast.Ident)
	if !ok || id.Name != "log" || u.roles["log"] != "" {
		return false
	}
	switch sel.Sel.Name {
	case "Print", "Printf", "Info", "Infof", "Warning", "Warningf", "Error", "Errorf", "Debug", "Debugf":
		return true
	}
	return false
}

func (r *region) block(list []ast.Stmt, st dstate, k func(dstate) string) string {
	if len(list) == 0 {
		return k(st)
	}
	if _, isTerm := r.terminal(list[0], st); isTerm && len(list) > 1 {
		r.u.fail(list[1], "unreachable statement")
	}
	return r.stmt(list[0], st, func(st2 dstate) string { return r.block(list[1:], st2, k) })
}

// scoped binds the variable of an init statement `x := e` (role from the binders table) for the
// translation of the statement; the continuation is translated with the outer binding restored.
func (r *region) scoped(init ast.Stmt, k func(dstate) string) (func(dstate) string, func()) {
	u := r.u
	if init == nil {
		return k, func() {}
	}
	a, ok := init.(*ast.AssignStmt)
	u.must(ok && a.Tok == token.DEFINE && len(a.Lhs) == 1 && len(a.Rhs) == 1, init, "unsupported init statement")
	id, ok := a.Lhs[0].(*ast.Ident)
	u.must(ok, init, "unsupported init statement")
	c := u.canon(a.Rhs[0])
	role, ok := u.binders[c]
	u.must(ok, a.Rhs[0], "unrecognised defining expression (canonical text `%s`)", c)
	old, had := u.roles[id.Name]
	u.must(!had, id, "init statement shadows a variable that has role %s", old)
	u.bindRole(id, role)
	inner := u.roles[id.Name]
	unbind := func() { delete(u.roles, id.Name) }
	return func(st dstate) string {
		delete(u.roles, id.Name)
		out := k(st)
		u.roles[id.Name] = inner
		return out
	}, unbind
}

func (r *region) stmt(s ast.Stmt, st dstate, k func(dstate) string) string {
	u := r.u
	switch s := s.(type) {
	case *ast.IfStmt:
		k2, unbind := r.scoped(s.Init, k)
		defer unbind()
		return r.ifChain(s, st, k2)
	case *ast.SwitchStmt:
		k2, unbind := r.scoped(s.Init, k)
		defer unbind()
		var tag string
		if s.Tag != nil {
			t, ok := u.natExpr(s.Tag, st, r.allowed)
			c, _ := u.canonSoft(s.Tag)
			_, isAtom := u.atomOf(s.Tag)
			u.must(ok && isAtom, s.Tag, "switch tag is not a numeric atom (canonical text `%s`)", c)
			tag = t
		}
		type arm struct {
			c    string
			body []ast.Stmt
			st   dstate
		}
		var arms []arm
		var dflt []ast.Stmt
		hasDefault := false
		for i, cl := range s.Body.List {
			cc := cl.(*ast.CaseClause)
			if cc.List == nil {
				u.must(i == len(s.Body.List)-1, cc, "default clause must be the last one")
				hasDefault, dflt = true, cc.Body
				continue
			}
			acc, ast2 := cex{}, st
			for j, e := range cc.List {
				var c cex
				if s.Tag != nil {
					v, ok := u.natExpr(e, st, r.allowed)
					_, isAtom := u.atomOf(e)
					cs, _ := u.canonSoft(e)
					u.must(ok && !isAtom, e, "case value is not a known constant (canonical text `%s`)", cs)
					c = cex{tag + " == " + v, qCmp}
				} else {
					c = u.cond(e, st, r.allowed)
				}
				if j == 0 {
					acc = c
				} else {
					acc = cex{cwrap(acc, qOr) + " || " + cwrap(c, qOr+1), qOr}
				}
			}
			if len(cc.List) == 1 && s.Tag == nil {
				ast2 = u.nonNil(cc.List[0], st)
			}
			arms = append(arms, arm{acc.s, cc.Body, ast2})
		}
		var out string
		if hasDefault {
			out = r.block(dflt, st, k2)
		} else {
			out = k2(st)
		}
		for i := len(arms) - 1; i >= 0; i-- {
			out = ite(arms[i].c, r.block(arms[i].body, arms[i].st, k2), out)
		}
		return out
	}
	if out, ok := r.terminal(s, st); ok {
		return out
	}
	if st2, ok := r.effect(s, st); ok {
		return k(st2)
	}
	if u.isLog(s) {
		return k(st)
	}
	u.fail(s, "unsupported statement in a decision of unit %s", u.name)
	return ""
}

func (r *region) ifChain(s *ast.IfStmt, st dstate, k func(dstate) string) string {
	u := r.u
	c := u.cond(s.Cond, st, r.allowed)
	then := r.block(s.Body.List, u.nonNil(s.Cond, st), k)
	var els string
	switch b := s.Else.(type) {
	case nil:
		els = k(st)
	case *ast.BlockStmt:
		els = r.block(b.List, st, k)
	case *ast.IfStmt:
		u.must(b.Init == nil, b, "init statement in an else-if unsupported")
		els = r.ifChain(b, st, k)
	default:
		u.fail(s.Else, "unsupported else")
	}
	return ite(c.s, then, els)
}

// -------------------------------------------------- scanning a function body

// skip checks a statement outside the recognised regions.
//   - strict (the statement comes before the last region of the function, so what it does can
//     change what the regions see): it may not mention a variable that has a (non-free) role at
//     all, except in the arguments of a log call, and except `for … range l.handlers { … }`
//     whose body passes the same check.
//   - otherwise (after the last region): it may not assign to a role variable or to something
//     reached through it, re-declare it, or take its address.
func (u *dunit) skip(s ast.Stmt, strict bool) {
	check := func(x ast.Expr, what string) {
		for {
			switch y := x.(type) {
			case *ast.SelectorExpr:
				x = y.X
				continue
			case *ast.IndexExpr:
				x = y.X
				continue
			case *ast.StarExpr:
				x = y.X
				continue
			case *ast.ParenExpr:
				x = y.X
				continue
			}
			break
		}
		if id, ok := x.(*ast.Ident); ok {
			if r := u.roles[id.Name]; r != "" && !u.free[r] {
				u.fail(s, "statement outside the translated decisions %s `%s`, which has role %s", what, id.Name, r)
			}
		}
	}
	ast.Inspect(s, func(n ast.Node) bool {
		switch n := n.(type) {
		case *ast.ExprStmt:
			if strict && u.isLog(n) {
				return false
			}
		case *ast.RangeStmt:
			if c, ok := u.canonSoft(n.X); strict && ok && c == "‹listener›.handlers" {
				if n.Key != nil {
					check(n.Key, "assigns to")
				}
				if n.Value != nil {
					check(n.Value, "assigns to")
				}
				u.skip(n.Body, strict)
				return false
			}
			if n.Key != nil {
				check(n.Key, "assigns to")
			}
			if n.Value != nil {
				check(n.Value, "assigns to")
			}
		case *ast.Ident:
			if strict {
				check(n, "mentions")
			}
		case *ast.AssignStmt:
			for _, l := range n.Lhs {
				check(l, "assigns to")
			}
		case *ast.IncDecStmt:
			check(n.X, "assigns to")
		case *ast.UnaryExpr:
			if n.Op == token.AND {
				check(n.X, "takes the address of")
			}
		case *ast.ValueSpec:
			for _, id := range n.Names {
				check(id, "re-declares")
			}
		case *ast.Field:
			for _, id := range n.Names {
				check(id, "re-declares")
			}
		}
		return true
	})
}

// tryBinder: `x, err := <defining expression>` / `x = <defining expression>` / `var x T`.
func (u *dunit) tryBinder(s ast.Stmt) bool {
	switch s := s.(type) {
	case *ast.AssignStmt:
		if (s.Tok != token.DEFINE && s.Tok != token.ASSIGN) || len(s.Rhs) != 1 || len(s.Lhs) > 2 {
			return false
		}
		c, ok := u.canonSoft(s.Rhs[0])
		role, ok2 := u.binders[c]
		if !ok || !ok2 {
			return false
		}
		id, ok := s.Lhs[0].(*ast.Ident)
		u.must(ok, s, "defining expression assigned to something that is not a plain variable")
		if len(s.Lhs) == 2 {
			e, ok := s.Lhs[1].(*ast.Ident)
			u.must(ok && (u.roles[e.Name] == "" || u.roles[e.Name] == "err"), s, "second result assigned to a variable that has a role")
			if e.Name != "_" && u.free["err"] && u.roles[e.Name] == "" {
				u.bindRole(e, "err")
			}
		}
		u.bindRole(id, role)
		return true
	case *ast.DeclStmt:
		d, ok := s.Decl.(*ast.GenDecl)
		if !ok || d.Tok != token.VAR || len(d.Specs) != 1 {
			return false
		}
		v := d.Specs[0].(*ast.ValueSpec)
		if len(v.Names) != 1 || len(v.Values) != 0 || v.Type == nil {
			return false
		}
		role, ok := u.declRoles[u.src(v.Type)]
		if !ok {
			return false
		}
		u.bindRole(v.Names[0], role)
		return true
	}
	return false
}

// params gives the receiver and the parameters their roles, by position.
func (u *dunit) params(f *ast.FuncDecl, recv string, roles ...string) {
	if recv != "" {
		u.must(f.Recv != nil && len(f.Recv.List) == 1 && len(f.Recv.List[0].Names) == 1, f.Name, "expected a method with a named receiver")
		u.bindRole(f.Recv.List[0].Names[0], recv)
	} else {
		u.must(f.Recv == nil, f.Name, "expected a function, not a method")
	}
	var names []*ast.Ident
	for _, p := range f.Type.Params.List {
		names = append(names, p.Names...)
	}
	u.must(len(names) == len(roles), f.Name, "expected %d parameters", len(roles))
	for i, n := range names {
		if n.Name != "_" {
			u.bindRole(n, roles[i])
		}
	}
}

// declares: s is `var name T`.
func declares(s ast.Stmt, name string) bool {
	d, ok := s.(*ast.DeclStmt)
	if !ok {
		return false
	}
	g, ok := d.Decl.(*ast.GenDecl)
	if !ok || g.Tok != token.VAR || len(g.Specs) != 1 {
		return false
	}
	v := g.Specs[0].(*ast.ValueSpec)
	return len(v.Names) == 1 && v.Names[0].Name == name && len(v.Values) == 0
}

func set(names ...string) map[string]bool {
	m := map[string]bool{}
	for _, n := range names {
		m[n] = true
	}
	return m
}

// guardReturn: `if c { log…; return … }` without else or init; returns the condition.
func (u *dunit) guardReturn(s ast.Stmt, results ...string) (ast.Expr, bool) {
	i, ok := s.(*ast.IfStmt)
	if !ok || i.Init != nil || i.Else != nil || len(i.Body.List) == 0 {
		return nil, false
	}
	for _, b := range i.Body.List[:len(i.Body.List)-1] {
		if !u.isLog(b) {
			return nil, false
		}
	}
	ret, ok := i.Body.List[len(i.Body.List)-1].(*ast.ReturnStmt)
	if !ok || len(ret.Results) != len(results) {
		return nil, false
	}
	for j, r := range ret.Results {
		if u.src(r) != results[j] {
			return nil, false
		}
	}
	return i.Cond, true
}

// pinRegion: `var woob *ipvN.ControlMessage` (already bound, the statement before) followed by
//
//	if <cond> { switch { case …: woob = &ipvN.ControlMessage{IfIndex: <numeric atom>} … default: log } }
//
// Returns the translation of the switch alone and of the whole statement.
func (u *dunit) pinRegion(prev, s ast.Stmt, pkg string, condAtoms []string) (pinIf, woob string, ok bool) {
	i, isIf := s.(*ast.IfStmt)
	if !isIf || i.Init != nil || i.Else != nil || len(i.Body.List) != 1 {
		return "", "", false
	}
	sw, isSw := i.Body.List[0].(*ast.SwitchStmt)
	if !isSw || sw.Tag != nil || sw.Init != nil {
		return "", "", false
	}
	woobVar := ""
	for n, r := range u.roles {
		if r == "woob" {
			woobVar = n
		}
	}
	u.must(woobVar != "" && declares(prev, woobVar), s, "interface switch must directly follow `var woob *%s.ControlMessage`", pkg)
	pinAtoms := []string{"bound", "oobNonNil", "oobIdx"}
	mk := func(allowed []string) *region {
		r := &region{u: u, allowed: set(allowed...)}
		r.terminal = func(ast.Stmt, dstate) (string, bool) { return "", false }
		r.effect = func(s ast.Stmt, st dstate) (dstate, bool) {
			a, ok := s.(*ast.AssignStmt)
			if !ok || a.Tok != token.ASSIGN || len(a.Lhs) != 1 || len(a.Rhs) != 1 {
				return nil, false
			}
			id, ok := a.Lhs[0].(*ast.Ident)
			if !ok || u.roles[id.Name] != "woob" {
				return nil, false
			}
			un, ok := a.Rhs[0].(*ast.UnaryExpr)
			u.must(ok && un.Op == token.AND, a, "expected woob = &%s.ControlMessage{IfIndex: …}", pkg)
			cl, ok := un.X.(*ast.CompositeLit)
			u.must(ok && u.src(cl.Type) == pkg+".ControlMessage" && u.roles[pkg] == "" && len(cl.Elts) == 1, a, "expected woob = &%s.ControlMessage{IfIndex: …}", pkg)
			kv, ok := cl.Elts[0].(*ast.KeyValueExpr)
			u.must(ok && u.src(kv.Key) == "IfIndex", a, "expected woob = &%s.ControlMessage{IfIndex: …}", pkg)
			v, ok := u.natExpr(kv.Value, st, r.allowed)
			_, isAtom := u.atomOf(kv.Value)
			u.must(ok && isAtom, kv.Value, "interface index is not a numeric atom")
			return st.with("woob", "some "+v), true
		}
		return r
	}
	final := func(st dstate) string { return st["woob"] }
	st0 := dstate{"woob": "none"} // `var woob *T`: nil
	pinIf = mk(pinAtoms).stmt(sw, st0, final)
	woob = mk(append(append([]string{}, condAtoms...), pinAtoms...)).stmt(i, st0, final)
	return pinIf, woob, true
}

func def(doc, sig, body string) string {
	return "/-- " + doc + " -/\ndef " + sig + " :=\n" + indent(body) + "\n\n"
}

const pinParams = "(bound : Nat) (oobNonNil : Bool) (oobIdx : Nat)"

// ------------------------------------------------------------ unit dispatch6

func (u *dunit) unitDispatch6(f *ast.FuncDecl) string {
	u.globals = set("dhcpv6", "ipv6", "fmt", "nil")
	u.free = set("buf", "resp6", "err")
	u.binders = map[string]string{
		"dhcpv6.FromBytes(‹buf›)":  "pkt6",
		"‹pkt6›.GetInnerMessage()": "inner6",
	}
	u.declRoles = map[string]string{"dhcpv6.DHCPv6": "resp6", "*ipv6.ControlMessage": "woob"}
	u.atoms = map[string]atom{
		"‹inner6›.Type()": {lean: "mt", nat: true},
		"‹inner6›.GetOneOption(dhcpv6.OptionRapidCommit)!=nil": {lean: "rapid"},
		"‹peer›.IP.IsLinkLocalUnicast()":                       {lean: "peerIsLinkLocal"},
		"‹listener›.Interface.Index":                           {lean: "bound", nat: true},
		"‹oob›!=nil":                                           {lean: "oobNonNil"},
		"‹oob›.IfIndex":                                        {lean: "oobIdx", nat: true, needs: "oob"},
	}
	constructors := map[string]string{ // library constructor ↦ type of the message it builds
		"dhcpv6.NewReplyFromMessage(‹inner6›)":     "dhcpv6.MessageTypeReply",
		"dhcpv6.NewAdvertiseFromSolicit(‹inner6›)": "dhcpv6.MessageTypeAdvertise",
	}
	u.params(f, "listener", "buf", "oob", "peer")
	var kind, pinIf, woob string
	body := f.Body.List
	for i, s := range body {
		sw, isSwitch := s.(*ast.SwitchStmt)
		switch {
		case u.tryBinder(s):
		case isSwitch && sw.Tag != nil:
			u.must(kind == "", s, "second switch with a tag in %s", f.Name.Name)
			respVar, errVar := "", ""
			for n, r := range u.roles {
				if r == "resp6" {
					respVar = n
				}
				if r == "err" {
					errVar = n
				}
			}
			u.must(respVar != "" && declares(body[max(i-1, 0)], respVar), s, "the switch must directly follow `var resp dhcpv6.DHCPv6`")
			u.must(errVar != "", s, "no error variable in scope")
			r := &region{u: u, allowed: set("mt", "rapid")}
			r.terminal = func(ast.Stmt, dstate) (string, bool) { return "", false }
			r.effect = func(s ast.Stmt, st dstate) (dstate, bool) {
				a, ok := s.(*ast.AssignStmt)
				if !ok || a.Tok != token.ASSIGN || len(a.Rhs) != 1 {
					return nil, false
				}
				lhs := u.src(a.Lhs[0])
				if len(a.Lhs) == 2 {
					lhs += "," + u.src(a.Lhs[1])
				}
				call, ok := a.Rhs[0].(*ast.CallExpr)
				if !ok {
					return nil, false
				}
				switch {
				case lhs == respVar+","+errVar: // resp, err = dhcpv6.NewXFromY(msg)
					c := u.canon(call)
					k, ok := constructors[c]
					u.must(ok, call, "unrecognised constructor (canonical text `%s`)", c)
					v, ok := u.consts[k]
					u.must(ok, call, "constant %s not found in the library source", k)
					u.must(st["kind"] == "", s, "response built twice on one path")
					return st.with("kind", "some "+strconv.Itoa(v)), true
				case lhs == errVar: // err = fmt.Errorf(…): no response
					fn := u.src(call.Fun)
					u.must(fn == "fmt.Errorf" || fn == "errors.New", call, "unrecognised error constructor")
					u.must(st["kind"] == "", s, "response built twice on one path")
					return st.with("kind", "none"), true
				}
				return nil, false
			}
			kind = r.stmt(sw, dstate{}, func(st dstate) string {
				u.must(st["kind"] != "", sw, "a path through the switch neither builds a response nor sets the error")
				return st["kind"]
			})
			// `none` means "nothing is sent" only because of the statement that follows
			u.must(i+1 < len(body), s, "the switch must be followed by `if err != nil { …; return }`")
			c, ok := u.guardReturn(body[i+1])
			u.must(ok && u.src(c) == errVar+" != nil", body[i+1], "the switch must be followed by `if err != nil { …; return }`")
			// no later decision looks at the datagram, the inner message or the response
			for n, r := range u.roles {
				if r == "resp6" || r == "pkt6" || r == "inner6" {
					delete(u.roles, n)
				}
			}
		default:
			if p, w, ok := u.pinRegion(body[max(i-1, 0)], s, "ipv6", []string{"peerIsLinkLocal"}); ok {
				u.must(woob == "", s, "second interface switch in %s", f.Name.Name)
				pinIf, woob = p, w
				continue
			}
			u.skip(s, kind == "" || woob == "")
		}
	}
	u.must(kind != "", f.Name, "`switch msg.Type()` not found at the top level of %s", f.Name.Name)
	u.must(woob != "", f.Name, "`if … { switch { case l.Interface.Index != 0: … } }` not found at the top level of %s", f.Name.Name)
	return def("`HandleMsg6`: the `switch msg.Type()` that builds the response. `some t` = a message of type `t`\n"+
		"built by `NewReplyFromMessage` (REPLY) / `NewAdvertiseFromSolicit` (ADVERTISE), `none` = not supported, nothing sent.\n"+
		"`mt` = `msg.Type()` of the inner message, `rapid` = `msg.GetOneOption(OptionRapidCommit) != nil`.",
		"replyKind6 (mt : Nat) (rapid : Bool) : Option Nat", kind) +
		def("`HandleMsg6`: the `switch` choosing the interface of the control message (`none` = `woob` stays nil).\n"+
			"`bound` = `l.Interface.Index`, `oobNonNil` = `oob != nil`, `oobIdx` = `oob.IfIndex`.",
			"pinIf6 "+pinParams+" : Option Nat", pinIf) +
		def("`HandleMsg6`: `var woob; if peer.IP.IsLinkLocalUnicast() { switch … }`.",
			"woob6 (peerIsLinkLocal : Bool) "+pinParams+" : Option Nat", woob)
}

// ------------------------------------------------------------ unit dispatch4

func (u *dunit) unitDispatch4(f *ast.FuncDecl) string {
	u.globals = set("dhcpv4", "ipv4", "net", "nil", "true", "false")
	u.free = set("buf", "srcpeer")
	u.binders = map[string]string{
		"dhcpv4.FromBytes(‹buf›)":            "req4",
		"dhcpv4.NewReplyFromRequest(‹req4›)": "stub4",
		"‹req4›.MessageType()":               "reqMt",
		"‹stub4›":                            "chainIn",
	}
	u.declRoles = map[string]string{"*net.UDPAddr": "peer", "*ipv4.ControlMessage": "woob"}
	u.atoms = map[string]atom{
		"‹req4›.OpCode":                        {lean: "op", nat: true},
		"‹req4›.MessageType()":                 {lean: "mt", nat: true},
		"‹reqMt›":                              {lean: "mt", nat: true},
		"‹req4›.GatewayIPAddr.IsUnspecified()": {lean: "giaddrUnspec"},
		"‹chainOut›.MessageType()":             {lean: "respMt", nat: true},
		"‹req4›.ClientIPAddr.IsUnspecified()":  {lean: "ciaddrUnspec"},
		"‹req4›.IsBroadcast()":                 {lean: "isBroadcast"},
		"‹peer›.IP.Equal(net.IPv4bcast)":       {lean: "peerIsBcast"},
		"‹peer›.IP.IsLinkLocalUnicast()":       {lean: "peerIsLinkLocal"},
		"‹useEth›":                             {lean: "useEthernet"},
		"‹listener›.Interface.Index":           {lean: "bound", nat: true},
		"‹oob›!=nil":                           {lean: "oobNonNil"},
		"‹oob›.IfIndex":                        {lean: "oobIdx", nat: true, needs: "oob"},
	}
	addrs := map[string]string{
		"‹req4›.GatewayIPAddr":  ".giaddr",
		"‹req4›.ClientIPAddr":   ".ciaddr",
		"‹chainOut›.YourIPAddr": ".yiaddr",
		"net.IPv4bcast":         ".bcast",
	}
	u.params(f, "listener", "buf", "oob", "srcpeer")
	var guard, stubType, dest, pinIf, woob string
	body := f.Body.List
	for _, s := range body {
		sw, isSwitch := s.(*ast.SwitchStmt)
		rg, isRange := s.(*ast.RangeStmt)
		ifs, isIf := s.(*ast.IfStmt)
		switch {
		case u.tryBinder(s):
		case isSwitch && sw.Tag != nil: // switch mt := req.MessageType(); mt { … }
			u.must(stubType == "", s, "second switch with a tag in %s", f.Name.Name)
			r := &region{u: u, allowed: set("mt")}
			r.terminal = func(s ast.Stmt, st dstate) (string, bool) {
				ret, ok := s.(*ast.ReturnStmt)
				return "none", ok && len(ret.Results) == 0
			}
			r.effect = func(s ast.Stmt, st dstate) (dstate, bool) { // tmp.UpdateOption(dhcpv4.OptMessageType(K))
				e, ok := s.(*ast.ExprStmt)
				if !ok {
					return nil, false
				}
				call, ok := e.X.(*ast.CallExpr)
				if !ok || len(call.Args) != 1 {
					return nil, false
				}
				if fn, ok := u.canonSoft(call.Fun); !ok || fn != "‹stub4›.UpdateOption" {
					return nil, false
				}
				opt, ok := call.Args[0].(*ast.CallExpr)
				u.must(ok && u.src(opt.Fun) == "dhcpv4.OptMessageType" && len(opt.Args) == 1, call, "expected UpdateOption(dhcpv4.OptMessageType(<constant>))")
				v, ok := u.consts[u.canon(opt.Args[0])]
				u.must(ok, opt.Args[0], "not a known constant")
				u.must(st["mt"] == "", s, "message type set twice on one path")
				return st.with("mt", "some "+strconv.Itoa(v)), true
			}
			stubType = r.stmt(sw, dstate{}, func(st dstate) string {
				u.must(st["mt"] != "", sw, "a path through the switch neither sets the message type nor returns")
				return st["mt"]
			})
		case isRange: // for _, handler := range l.handlers { resp, stop = handler(req, resp); if stop { break } }
			u.handlerLoop(rg)
		case isIf:
			if c, ok := u.guardReturn(s); ok && u.mentionsRole(c) { // if req.OpCode != dhcpv4.OpcodeBootRequest { …; return }
				u.must(guard == "", s, "second early return in %s", f.Name.Name)
				guard = u.cond(c, dstate{}, set("op")).s
				continue
			}
			if c, ok := u.canonSoft(ifs.Cond); ok && c == "‹chainOut›!=nil" && ifs.Init == nil {
				u.must(dest == "", s, "second `if resp != nil` in %s", f.Name.Name)
				if e, ok := ifs.Else.(*ast.BlockStmt); ifs.Else != nil {
					u.must(ok, ifs.Else, "unsupported else")
					for _, b := range e.List {
						u.must(u.isLog(b), b, "the else branch of `if resp != nil` may only log")
					}
				}
				dest, pinIf, woob = u.send4(ifs.Body.List, addrs)
				continue
			}
			u.skip(s, dest == "")
		default:
			u.skip(s, dest == "")
		}
	}
	u.must(guard != "", f.Name, "opcode guard not found")
	u.must(stubType != "", f.Name, "`switch mt := req.MessageType(); mt` not found at the top level of %s", f.Name.Name)
	u.must(dest != "", f.Name, "`if resp != nil { … }` after the handler loop not found at the top level of %s", f.Name.Name)
	return "/-- which address the reply goes to (fixed vocabulary: `req.GatewayIPAddr`, `net.IPv4bcast`,\n`req.ClientIPAddr`, `resp.YourIPAddr`) -/\n" +
		"inductive Dest4\n  | giaddr | bcast | ciaddr | yiaddr\nderiving DecidableEq, Repr\n\n" +
		def("`HandleMsg4`: the early return `if req.OpCode != dhcpv4.OpcodeBootRequest`. `true` = nothing is sent.",
			"dropEarly4 (op : Nat) : Bool", guard) +
		def("`HandleMsg4`: `switch mt := req.MessageType(); mt`. `some t` = the reply gets message type `t`, `none` = return, nothing sent.",
			"stubType4 (mt : Nat) : Option Nat", stubType) +
		def("`HandleMsg4`: the destination cascade: (address, port, useEthernet).\n"+
			"`giaddrUnspec` = `req.GatewayIPAddr.IsUnspecified()`, `respMt` = `resp.MessageType()` of the response the\n"+
			"handler chain returned, `ciaddrUnspec` = `req.ClientIPAddr.IsUnspecified()`, `isBroadcast` = `req.IsBroadcast()`.",
			"dest4 (giaddrUnspec : Bool) (respMt : Nat) (ciaddrUnspec isBroadcast : Bool) : Dest4 × Nat × Bool", dest) +
		def("`HandleMsg4`: the `switch` choosing the interface of the control message (`none` = `woob` stays nil).\n"+
			"`bound` = `l.Interface.Index`, `oobNonNil` = `oob != nil`, `oobIdx` = `oob.IfIndex`.",
			"pinIf4 "+pinParams+" : Option Nat", pinIf) +
		def("`HandleMsg4`: `var woob; if peer.IP.Equal(net.IPv4bcast) || peer.IP.IsLinkLocalUnicast() || useEthernet { switch … }`.",
			"woob4 (peerIsBcast peerIsLinkLocal useEthernet : Bool) "+pinParams+" : Option Nat", woob)
}

// handlerLoop: for _, h := range l.handlers { resp, stop = h(req, resp); if stop { break } }
// turns the variable of role chainIn into the one of role chainOut.
func (u *dunit) handlerLoop(rg *ast.RangeStmt) {
	shape := "expected `for _, h := range l.handlers { resp, stop = h(req, resp); if stop { break } }`"
	h, ok := rg.Value.(*ast.Ident)
	u.must(ok && rg.Tok == token.DEFINE && (rg.Key == nil || u.src(rg.Key) == "_") && u.roles[h.Name] == "", rg, shape)
	c, ok := u.canonSoft(rg.X)
	u.must(ok && c == "‹listener›.handlers" && len(rg.Body.List) == 2, rg, shape)
	a, ok := rg.Body.List[0].(*ast.AssignStmt)
	u.must(ok && a.Tok == token.ASSIGN && len(a.Lhs) == 2 && len(a.Rhs) == 1, rg, shape)
	res, ok1 := a.Lhs[0].(*ast.Ident)
	stop, ok2 := a.Lhs[1].(*ast.Ident)
	call, ok3 := a.Rhs[0].(*ast.CallExpr)
	u.must(ok1 && ok2 && ok3 && u.roles[res.Name] == "chainIn" && u.roles[stop.Name] == "" && u.src(call.Fun) == h.Name && len(call.Args) == 2, rg, shape)
	a0, _ := u.canonSoft(call.Args[0])
	a1, _ := u.canonSoft(call.Args[1])
	u.must(a0 == "‹req4›" && a1 == "‹chainIn›", rg, shape)
	i, ok := rg.Body.List[1].(*ast.IfStmt)
	u.must(ok && i.Init == nil && i.Else == nil && u.src(i.Cond) == stop.Name && len(i.Body.List) == 1, rg, shape)
	b, ok := i.Body.List[0].(*ast.BranchStmt)
	u.must(ok && b.Tok == token.BREAK && b.Label == nil, rg, shape)
	u.roles[res.Name] = "chainOut"
}

// send4 translates the body of `if resp != nil { … }`: destination cascade and interface switch.
func (u *dunit) send4(body []ast.Stmt, addrs map[string]string) (dest, pinIf, woob string) {
	u.binders["false"] = "useEth" // useEthernet := false
	defer delete(u.binders, "false")
	for i, s := range body {
		ifs, isIf := s.(*ast.IfStmt)
		switch {
		case u.tryBinder(s):
		case isIf && ifs.Else != nil && dest == "": // the cascade
			peerVar, ethVar := "", ""
			for n, r := range u.roles {
				if r == "peer" {
					peerVar = n
				}
				if r == "useEth" {
					ethVar = n
				}
			}
			u.must(i >= 2 && peerVar != "" && ethVar != "", s, "the cascade must directly follow `useEthernet := false` and `var peer *net.UDPAddr`")
			isEth := func(s ast.Stmt) bool { return u.src(s) == ethVar+" := false" }
			u.must((declares(body[i-1], peerVar) && isEth(body[i-2])) || (declares(body[i-2], peerVar) && isEth(body[i-1])), s,
				"the cascade must directly follow `useEthernet := false` and `var peer *net.UDPAddr`")
			r := &region{u: u, allowed: set("giaddrUnspec", "respMt", "ciaddrUnspec", "isBroadcast")}
			r.terminal = func(ast.Stmt, dstate) (string, bool) { return "", false }
			r.effect = func(s ast.Stmt, st dstate) (dstate, bool) {
				a, ok := s.(*ast.AssignStmt)
				if !ok || a.Tok != token.ASSIGN || len(a.Lhs) != 1 || len(a.Rhs) != 1 {
					return nil, false
				}
				id, ok := a.Lhs[0].(*ast.Ident)
				if !ok {
					return nil, false
				}
				switch u.roles[id.Name] {
				case "useEth": // useEthernet = true
					v := u.src(a.Rhs[0])
					u.must((v == "true" || v == "false") && u.roles[v] == "", a, "useEthernet may only be set to true or false")
					return st.with("l2", v), true
				case "peer": // peer = &net.UDPAddr{IP: <address>, Port: dhcpv4.<port>}
					shape := "expected peer = &net.UDPAddr{IP: <address>, Port: dhcpv4.ServerPort|ClientPort}"
					un, ok := a.Rhs[0].(*ast.UnaryExpr)
					u.must(ok && un.Op == token.AND, a, shape)
					cl, ok := un.X.(*ast.CompositeLit)
					u.must(ok && u.src(cl.Type) == "net.UDPAddr" && len(cl.Elts) == 2, a, shape)
					st2 := st
					for _, e := range cl.Elts {
						kv, ok := e.(*ast.KeyValueExpr)
						u.must(ok, e, shape)
						switch u.src(kv.Key) {
						case "IP":
							c := u.canon(kv.Value)
							v, ok := addrs[c]
							u.must(ok, kv.Value, "unrecognised address (canonical text `%s`)", c)
							st2 = st2.with("addr", v)
						case "Port":
							c := u.canon(kv.Value)
							v, ok := u.consts[c]
							u.must(ok && (c == "dhcpv4.ServerPort" || c == "dhcpv4.ClientPort"), kv.Value, "port must be dhcpv4.ServerPort or dhcpv4.ClientPort")
							st2 = st2.with("port", strconv.Itoa(v))
						default:
							u.fail(kv.Key, shape)
						}
					}
					u.must(st2["addr"] != "" && st2["port"] != "" && st["addr"] == "", a, shape+", once per path")
					return st2, true
				}
				return nil, false
			}
			dest = r.stmt(ifs, dstate{"l2": "false"}, func(st dstate) string {
				u.must(st["addr"] != "", ifs, "a path through the cascade leaves peer nil")
				return "(" + st["addr"] + ", " + st["port"] + ", " + st["l2"] + ")"
			})
		default:
			if i > 0 && dest != "" {
				if p, w, ok := u.pinRegion(body[i-1], s, "ipv4", []string{"peerIsBcast", "peerIsLinkLocal", "useEthernet"}); ok {
					u.must(woob == "", s, "second interface switch")
					pinIf, woob = p, w
					continue
				}
			}
			u.skip(s, woob == "")
		}
	}
	u.must(dest != "", body[0], "destination cascade not found in `if resp != nil { … }`")
	u.must(woob != "", body[0], "interface switch not found in `if resp != nil { … }`")
	return
}

// ------------------------------------------------------------ unit serverid6

func (u *dunit) unitServerid6(f *ast.FuncDecl) string {
	u.globals = set("dhcpv6", "nil", "true", "false", "v6ServerID")
	u.free = set("err")
	u.binders = map[string]string{
		"‹pkt6›.GetInnerMessage()":    "inner6",
		"‹inner6›.Options.ServerID()": "sid",
	}
	u.atoms = map[string]atom{
		"‹inner6›.MessageType":    {lean: "mt", nat: true},
		"‹inner6›.Type()":         {lean: "mt", nat: true},
		"‹sid›!=nil":              {lean: "hasSid"},
		"‹sid›.Equal(v6ServerID)": {lean: "sidEqual", needs: "sid"},
	}
	u.params(f, "", "pkt6", "resp")
	body := f.Body.List
	// prelude, assumed not to fire: plugin initialised, inner message present (HandleMsg6 checked it)
	u.must(len(body) > 3, f.Name, "function body too short")
	i0, ok := body[0].(*ast.IfStmt)
	u.must(ok && i0.Init == nil && i0.Else == nil && u.src(i0.Cond) == "v6ServerID == nil" && len(i0.Body.List) == 2 &&
		strings.HasPrefix(u.src(i0.Body.List[0]), "log.Fatal(") && u.src(i0.Body.List[1]) == "return nil, true",
		body[0], "expected `if v6ServerID == nil { log.Fatal(…); return nil, true }`")
	u.assumed = append(u.assumed, "v6ServerID != nil (the plugin was set up)")
	u.must(u.tryBinder(body[1]) && len(body[1].(*ast.AssignStmt).Lhs) == 2, body[1], "expected `msg, err := req.GetInnerMessage()`")
	errVar := u.src(body[1].(*ast.AssignStmt).Lhs[1])
	c, ok := u.guardReturn(body[2], "nil", "true")
	u.must(ok && u.src(c) == errVar+" != nil", body[2], "expected `if err != nil { …; return nil, true }`")
	u.assumed = append(u.assumed, "req.GetInnerMessage() succeeds (HandleMsg6 already required it)")
	respVar := ""
	for n, r := range u.roles {
		if r == "resp" {
			respVar = n
		}
	}
	r := &region{u: u, allowed: set("mt", "hasSid", "sidEqual")}
	r.terminal = func(s ast.Stmt, st dstate) (string, bool) {
		ret, ok := s.(*ast.ReturnStmt)
		if !ok {
			return "", false
		}
		switch got := u.src(ret); got {
		case "return nil, true":
			u.must(st["stamped"] == "", s, "discard after the response was stamped")
			return "true", true
		case "return " + respVar + ", false":
			u.must(st["stamped"] != "", s, "the response is returned without `dhcpv6.WithServerID(v6ServerID)(resp)`")
			return "false", true
		}
		u.fail(s, "unrecognised return (only `return nil, true` and `return resp, false`)")
		return "", false
	}
	r.effect = func(s ast.Stmt, st dstate) (dstate, bool) {
		e, ok := s.(*ast.ExprStmt)
		if !ok {
			return nil, false
		}
		if c, ok := u.canonSoft(e.X); !ok || c != "dhcpv6.WithServerID(v6ServerID)(‹resp›)" {
			return nil, false
		}
		return st.with("stamped", "1"), true
	}
	dec := r.block(body[3:], dstate{}, func(dstate) string {
		u.fail(f.Name, "control reaches the end of the function without a return")
		return ""
	})
	return def("`serverid.Handler6`: is the message discarded (`return nil, true`)? Otherwise the response is stamped with\n"+
		"this server's identifier and the chain goes on (`return resp, false`).\n"+
		"`mt` = `msg.MessageType` of the inner message, `hasSid` = `msg.Options.ServerID() != nil`, `sidEqual` = `sid.Equal(v6ServerID)`.",
		"sidDecision (mt : Nat) (hasSid sidEqual : Bool) : Bool", dec)
}

// --------------------------------------------------------------- unit netmask

// uint32 arithmetic ↦ BitVec 32 (wrapping). Every compound operand is parenthesised.
func (u *dunit) bv32(x ast.Expr, env map[string]bool, param string) (string, bool) { // (text, atomic)
	switch x := x.(type) {
	case *ast.ParenExpr:
		return u.bv32(x.X, env, param)
	case *ast.Ident:
		u.must(env[x.Name], x, "unknown identifier")
		return x.Name, true
	case *ast.BasicLit:
		v, err := strconv.ParseUint(x.Value, 0, 32)
		u.must(x.Kind == token.INT && err == nil, x, "unsupported literal")
		return strconv.FormatUint(v, 10) + "#32", true
	case *ast.UnaryExpr:
		u.must(x.Op == token.XOR, x, "unsupported unary operator %s", x.Op)
		a, at := u.bv32(x.X, env, param)
		if !at {
			a = "(" + a + ")"
		}
		return "~~~" + a, false
	case *ast.BinaryExpr:
		op, ok := map[token.Token]string{token.ADD: "+", token.SUB: "-", token.AND: "&&&", token.OR: "|||", token.XOR: "^^^"}[x.Op]
		u.must(ok, x, "unsupported binary operator %s on uint32", x.Op)
		a, at := u.bv32(x.X, env, param)
		b, bt := u.bv32(x.Y, env, param)
		if !at {
			a = "(" + a + ")"
		}
		if !bt {
			b = "(" + b + ")"
		}
		return a + " " + op + " " + b, false
	case *ast.CallExpr:
		u.must(u.src(x.Fun) == "binary.BigEndian.Uint32" && !env["binary"] && len(x.Args) == 1 && u.src(x.Args[0]) == param, x,
			"unknown call (only binary.BigEndian.Uint32(<the parameter>))")
		return "m", true
	}
	u.fail(x, "unsupported expression")
	return "", false
}

func (u *dunit) unitNetmask(f *ast.FuncDecl) string {
	t := f.Type
	u.must(f.Recv == nil && len(t.Params.List) == 1 && len(t.Params.List[0].Names) == 1 && u.src(t.Params.List[0].Type) == "net.IPMask" &&
		t.Results != nil && len(t.Results.List) == 1 && u.src(t.Results.List[0].Type) == "bool", f.Name, "expected func(net.IPMask) bool")
	param := t.Params.List[0].Names[0].Name
	env := map[string]bool{}
	var lines []string
	for i, s := range f.Body.List {
		switch s := s.(type) {
		case *ast.AssignStmt:
			u.must(s.Tok == token.DEFINE && len(s.Lhs) == 1 && len(s.Rhs) == 1, s, "only `x := e` is supported")
			id, ok := s.Lhs[0].(*ast.Ident)
			u.must(ok && !reserved[id.Name] && id.Name != "m" && id.Name != param && !env[id.Name], s, "unsupported variable name (reserved, or declared twice)")
			v, _ := u.bv32(s.Rhs[0], env, param)
			lines = append(lines, "let "+id.Name+" := "+v)
			env[id.Name] = true
		case *ast.ReturnStmt:
			u.must(len(s.Results) == 1 && i == len(f.Body.List)-1, s, "return must be the last statement and have one result")
			r := s.Results[0]
			for {
				p, ok := r.(*ast.ParenExpr)
				if !ok {
					break
				}
				r = p.X
			}
			b, ok := r.(*ast.BinaryExpr)
			u.must(ok && (b.Op == token.EQL || b.Op == token.NEQ), r, "result must be a comparison == / != of two uint32")
			l, lt := u.bv32(b.X, env, param)
			rr, rt := u.bv32(b.Y, env, param)
			if !lt {
				l = "(" + l + ")"
			}
			if !rt {
				rr = "(" + rr + ")"
			}
			lines = append(lines, l+" "+b.Op.String()+" "+rr)
			return def("`netmask.checkValidNetmask`, uint32 arithmetic as `BitVec 32`; `m` = `binary.BigEndian.Uint32(netmask)`.",
				"checkValidNetmask (m : BitVec 32) : Bool", strings.Join(lines, "\n"))
		default:
			u.fail(s, "unsupported statement")
		}
	}
	u.fail(f.Name, "control reaches the end of the function without a return")
	return ""
}

// ------------------------------------------------------------------- driver

// readConsts reads `Name [Type] = <integer literal>` constants of a library file.
func (u *dunit) readConsts(path, pkg string) {
	file, err := parser.ParseFile(u.fset, path, nil, parser.SkipObjectResolution)
	if err != nil {
		fmt.Fprintln(os.Stderr, "gen: parse:", err)
		os.Exit(2)
	}
	for _, d := range file.Decls {
		g, ok := d.(*ast.GenDecl)
		if !ok || g.Tok != token.CONST {
			continue
		}
		for _, sp := range g.Specs {
			v := sp.(*ast.ValueSpec)
			if len(v.Names) != 1 || len(v.Values) != 1 || v.Names[0].Name == "_" {
				continue
			}
			if l, ok := v.Values[0].(*ast.BasicLit); ok && l.Kind == token.INT {
				if n, err := strconv.ParseUint(l.Value, 0, 31); err == nil {
					u.consts[pkg+"."+v.Names[0].Name] = int(n)
				}
			}
		}
	}
}

type unitSpec struct {
	src, fn, out string
	libs         [][2]string // (file below the library root, package)
	run          func(*dunit, *ast.FuncDecl) string
}

var units = map[string]unitSpec{
	"dispatch6": {"/repo/server/handle.go", "HandleMsg6", "Dispatch6.lean", [][2]string{{"dhcpv6/types.go", "dhcpv6"}}, (*dunit).unitDispatch6},
	"dispatch4": {"/repo/server/handle.go", "HandleMsg4", "Dispatch4.lean",
		[][2]string{{"dhcpv4/types.go", "dhcpv4"}, {"dhcpv4/defaults.go", "dhcpv4"}}, (*dunit).unitDispatch4},
	"serverid6": {"/repo/plugins/serverid/plugin.go", "Handler6", "ServerID6.lean", [][2]string{{"dhcpv6/types.go", "dhcpv6"}}, (*dunit).unitServerid6},
	"netmask":   {"/repo/plugins/netmask/plugin.go", "checkValidNetmask", "Netmask.lean", nil, (*dunit).unitNetmask},
}

const defaultLib = "/root/go/pkg/mod/github.com/insomniacslk/dhcp@v0.0.0-20241203100832-a481575ed0ef"

func runGen2(unit, srcPath, outPath, lib string) {
	die := func(a ...interface{}) {
		fmt.Fprintln(os.Stderr, append([]interface{}{"gen:"}, a...)...)
		os.Exit(2)
	}
	spec, ok := units[unit]
	if !ok {
		die("unknown unit", unit, "(ipcalc, dispatch6, dispatch4, serverid6, netmask)")
	}
	if srcPath == "" {
		srcPath = spec.src
	}
	u := &dunit{gen: &gen{fset: token.NewFileSet()}, name: unit, roles: map[string]string{}, consts: map[string]int{},
		free: map[string]bool{}, globals: map[string]bool{}}
	for _, l := range spec.libs {
		u.readConsts(filepath.Join(lib, l[0]), l[1])
	}
	file, err := parser.ParseFile(u.fset, srcPath, nil, parser.SkipObjectResolution)
	if err != nil {
		die("parse:", err)
	}
	var fn *ast.FuncDecl
	for _, d := range file.Decls {
		if f, ok := d.(*ast.FuncDecl); ok && f.Name.Name == spec.fn {
			if fn != nil {
				die(srcPath+": function", spec.fn, "declared twice")
			}
			fn = f
		}
	}
	if fn == nil || fn.Body == nil {
		die(srcPath+": function", spec.fn, "not found")
	}
	body := spec.run(u, fn)
	rel := strings.TrimPrefix(srcPath, "/repo/")
	out := fmt.Sprintf("-- GENERATED by harness gen -unit %s from %s (%s) — do not edit\n"+
		"-- Regenerated from the Go source on every run; Props/Gen2.lean proves these definitions equal\n"+
		"-- to the hand-written model.\n", unit, rel, spec.fn)
	if len(spec.libs) > 0 {
		var used []string
		for _, l := range spec.libs {
			used = append(used, l[0])
		}
		sort.Strings(used)
		out += "-- Numeric constants are read from the library source: " + strings.Join(used, ", ") + ".\n"
	}
	for _, a := range u.assumed {
		out += "-- Assumed (guard of the source not translated): " + a + ".\n"
	}
	out += "set_option linter.unusedVariables false\nnamespace CoreDhcp.Generated\n\n" + body + "end CoreDhcp.Generated\n"
	if err := os.WriteFile(outPath, []byte(out), 0o644); err != nil {
		die(err)
	}
	fmt.Printf("gen: wrote %s (%d bytes) from %s\n", outPath, len(out), srcPath)
}
