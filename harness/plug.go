package main

// Engine "plug": one built-in plugin at a time. Each configuration (pcfg) is set up in a fresh
// worker process — several plugins keep their configuration in package globals that accumulate
// across Setup calls — followed by a battery of requests (preq4 / preq6) run through the handler.

import (
	"bufio"
	"bytes"
	"fmt"
	"net"
	"net/url"
	"os"
	"os/exec"
	"sort"
	"strconv"
	"strings"
	"time"

	"github.com/coredhcp/coredhcp/handler"
	"github.com/coredhcp/coredhcp/plugins"
	"github.com/coredhcp/coredhcp/plugins/autoconfigure"
	"github.com/coredhcp/coredhcp/plugins/dns"
	"github.com/coredhcp/coredhcp/plugins/ipv6only"
	"github.com/coredhcp/coredhcp/plugins/leasetime"
	"github.com/coredhcp/coredhcp/plugins/mtu"
	"github.com/coredhcp/coredhcp/plugins/nbp"
	"github.com/coredhcp/coredhcp/plugins/netmask"
	"github.com/coredhcp/coredhcp/plugins/router"
	"github.com/coredhcp/coredhcp/plugins/searchdomains"
	"github.com/coredhcp/coredhcp/plugins/serverid"
	"github.com/coredhcp/coredhcp/plugins/sleep"
	"github.com/coredhcp/coredhcp/plugins/staticroute"
	"github.com/insomniacslk/dhcp/dhcpv4"
	"github.com/insomniacslk/dhcp/dhcpv6"
)

var builtin = map[string]*plugins.Plugin{
	"autoconfigure": &autoconfigure.Plugin, "dns": &dns.Plugin, "ipv6only": &ipv6only.Plugin, "lease_time": &leasetime.Plugin,
	"mtu": &mtu.Plugin, "nbp": &nbp.Plugin, "netmask": &netmask.Plugin, "router": &router.Plugin,
	"searchdomains": &searchdomains.Plugin, "server_id": &serverid.Plugin, "sleep": &sleep.Plugin, "staticroute": &staticroute.Plugin,
}

func init() {
	engines["plug"] = &engine{gen: genPlug, replay: replayPlug}
}

// ---- oracle answers of the stdlib parsers for one argument

func argOracle(a string) string {
	ip := "-"
	if p := net.ParseIP(a); p != nil {
		if p4 := p.To4(); p4 != nil {
			ip = "4." + hx(p4)
			if !strings.Contains(a, ".") || strings.Contains(a, ":") {
				ip = "m." + hx(p4) // IPv4-mapped literal
			}
		} else {
			ip = "6." + hx(p)
		}
	}
	mac := "-"
	if m, err := net.ParseMAC(a); err == nil {
		mac = hx(m)
	}
	in := "-"
	if v, err := strconv.Atoi(a); err == nil {
		in = strconv.Itoa(v)
	}
	dur := "-"
	if d, err := time.ParseDuration(a); err == nil {
		dur = strconv.FormatInt(int64(d), 10)
	}
	// staticroute: "<cidr>,<router>"
	sr := "-"
	if f := strings.Split(a, ","); len(f) == 2 {
		c, r := "-", "-"
		if _, n, err := net.ParseCIDR(f[0]); err == nil {
			ones, bits := n.Mask.Size()
			c = fmt.Sprintf("%s_%d_%d", hx(n.IP), ones, bits)
		}
		if p := net.ParseIP(f[1]); p != nil {
			if p4 := p.To4(); p4 != nil {
				r = "4." + hx(p4)
			} else {
				r = "6." + hx(p)
			}
		}
		sr = "2:" + c + ":" + r
	} else {
		sr = strconv.Itoa(len(f))
	}
	u := "-"
	if pu, err := url.Parse(a); err == nil {
		u = fmt.Sprintf("%s_%s_%s_%s_%s", hx([]byte(pu.Scheme)), hx([]byte(pu.Host)), hx([]byte(pu.Path)), hx([]byte(pu.String())), hx([]byte(pu.Query().Get("params"))))
	}
	return fmt.Sprintf("ip=%s/mac=%s/int=%s/dur=%s/sr=%s/url=%s", ip, mac, in, dur, sr, u)
}

// ---- views

func opts4str(o dhcpv4.Options) string {
	var codes []int
	for c := range o {
		codes = append(codes, int(c))
	}
	sort.Ints(codes)
	if len(codes) == 0 {
		return "-"
	}
	var sb []string
	for _, c := range codes {
		sb = append(sb, fmt.Sprintf("%d:%s", c, hex0(o[uint8(c)])))
	}
	return strings.Join(sb, ",")
}

func hex0(b []byte) string {
	if len(b) == 0 {
		return ""
	}
	return hx(b)
}

func opts6str(o dhcpv6.Options) string {
	if len(o) == 0 {
		return "-"
	}
	var sb []string
	for _, op := range o {
		sb = append(sb, fmt.Sprintf("%d:%s", op.Code(), hex0(op.ToBytes())))
	}
	return strings.Join(sb, ",")
}

func parseOpts4(s string) dhcpv4.Options {
	o := dhcpv4.Options{}
	if s == "-" {
		return o
	}
	for _, kv := range strings.Split(s, ",") {
		p := strings.SplitN(kv, ":", 2)
		var v []byte
		if p[1] != "" {
			v = unhx(p[1])
		} else {
			v = []byte{}
		}
		o[uint8(atoi(p[0]))] = v
	}
	return o
}

// ---- the worker

type plugWorker struct {
	h4   handler.Handler4
	h6   handler.Handler6
	name string
	args []string
}

// typed4 decodes, with the library's own option parsers, the values this plugin is configured to
// emit and compares them with the configuration ("" = fine)
func (w *plugWorker) typed4(back *dhcpv4.DHCPv4) string {
	switch w.name {
	case "searchdomains":
		ds := back.DomainSearch()
		var got []string
		if ds != nil {
			got = ds.Labels
		}
		if strings.Join(got, "|") != strings.Join(w.args, "|") {
			return "fail:decoded-search-list-differs"
		}
	case "staticroute":
		rs := back.ClasslessStaticRoute()
		if len(rs) != len(w.args) {
			return "fail:decoded-routes-differ"
		}
		for i, a := range w.args {
			f := strings.Split(a, ",")
			_, n, err := net.ParseCIDR(f[0])
			if err != nil || rs[i].Dest.String() != n.String() || !rs[i].Router.Equal(net.ParseIP(f[1])) {
				return "fail:decoded-routes-differ"
			}
		}
	}
	return ""
}

func (w *plugWorker) typed6(back *dhcpv6.Message) string {
	if w.name == "searchdomains" {
		ds := back.Options.DomainSearchList()
		var got []string
		if ds != nil {
			got = ds.Labels
		}
		if strings.Join(got, "|") != strings.Join(w.args, "|") {
			return "fail:decoded-search-list-differs"
		}
	}
	return ""
}

func (w *plugWorker) line(op string) string {
	f := strings.Fields(op)
	switch f[0] {
	case "pcfg":
		// pcfg <4|6> <name> <k> <arghex>...
		name := f[2]
		var args []string
		for _, a := range f[4:] {
			args = append(args, string(unhx(a)))
		}
		var or []string
		for _, a := range args {
			or = append(or, argOracle(a))
		}
		orc := "-"
		if len(or) > 0 {
			orc = strings.Join(or, " ")
		}
		p := builtin[name]
		w.name, w.args = name, args
		res := guard(func() string {
			if f[1] == "4" {
				if p.Setup4 == nil {
					return "unsupported"
				}
				h, err := p.Setup4(args...)
				if err != nil {
					return "err"
				}
				if h == nil {
					return "nilhandler"
				}
				w.h4 = h
				return "ok"
			}
			if p.Setup6 == nil {
				return "unsupported"
			}
			h, err := p.Setup6(args...)
			if err != nil {
				return "err"
			}
			if h == nil {
				return "nilhandler"
			}
			w.h6 = h
			return "ok"
		})
		return orc + " ; " + res
	case "preq4":
		// preq4 <reqdg> <respmt> <yiaddr> <respopts>
		if w.h4 == nil {
			return "skip"
		}
		return watchdog(8*time.Second, func() string {
			return guard(func() string {
				req, err := dhcpv4.FromBytes(unhx(f[1]))
				if err != nil {
					return "unparsable"
				}
				resp, err := dhcpv4.NewReplyFromRequest(req)
				if err != nil {
					return "unparsable"
				}
				for c, v := range parseOpts4(f[4]) {
					resp.Options[c] = v
				}
				resp.UpdateOption(dhcpv4.OptMessageType(dhcpv4.MessageType(atoi(f[2]))))
				resp.YourIPAddr = net.IP(unhx(f[3]))
				view := fmt.Sprintf("view %d %d %s %s %s", req.OpCode, mt4(req), hx(req.ServerIPAddr.To4()), hx(req.ClientIPAddr.To4()), opts4str(req.Options))
				pre := fmt.Sprintf("pre %d %s %s %s", mt4(resp), hx(resp.YourIPAddr.To4()), hx(resp.ServerIPAddr.To4()), opts4str(resp.Options))
				out, stop := w.h4(req, resp)
				if out == nil {
					return fmt.Sprintf("%s ; %s ; out nil %d ; rt -", view, pre, b2i(stop))
				}
				outs := fmt.Sprintf("out resp %d %d %s %s %s", b2i(stop), mt4(out), hx(out.YourIPAddr.To4()), hx(out.ServerIPAddr.To4()), opts4str(out.Options))
				rt := guard(func() string {
					wire := out.ToBytes()
					back, err := dhcpv4.FromBytes(wire)
					if err != nil {
						return "fail:unparsable"
					}
					if opts4str(back.Options) != opts4str(out.Options) {
						return "fail:options-differ"
					}
					if !bytes.Equal(back.ToBytes(), wire) {
						return "fail:reserialisation-differs"
					}
					if t := w.typed4(back); t != "" {
						return t
					}
					return "ok"
				})
				return fmt.Sprintf("%s ; %s ; %s ; rt %s", view, pre, outs, rt)
			})
		})
	case "preq6":
		// preq6 <reqdg> <respmt>
		if w.h6 == nil {
			return "skip"
		}
		return watchdog(8*time.Second, func() string {
			return guard(func() string {
				req, err := dhcpv6.FromBytes(unhx(f[1]))
				if err != nil {
					return "unparsable"
				}
				inner, err := req.GetInnerMessage()
				if err != nil {
					return "unparsable"
				}
				resp := &dhcpv6.Message{MessageType: dhcpv6.MessageType(atoi(f[2])), TransactionID: inner.TransactionID}
				if cid := inner.GetOneOption(dhcpv6.OptionClientID); cid != nil {
					resp.AddOption(cid)
				}
				depth := 0
				for d := req; d.IsRelay(); depth++ {
					in := d.(*dhcpv6.RelayMessage).Options.RelayMessage()
					if in == nil {
						break
					}
					d = in
				}
				view := fmt.Sprintf("view %d %d %s", depth, inner.MessageType, opts6str(inner.Options.Options))
				pre := fmt.Sprintf("pre %d %s", resp.MessageType, opts6str(resp.Options.Options))
				out, stop := w.h6(req, resp)
				if out == nil {
					return fmt.Sprintf("%s ; %s ; out nil %d ; rt -", view, pre, b2i(stop))
				}
				om, ok := out.(*dhcpv6.Message)
				if !ok {
					return fmt.Sprintf("%s ; %s ; out relay %d ; rt -", view, pre, b2i(stop))
				}
				outs := fmt.Sprintf("out resp %d %d %s", b2i(stop), om.MessageType, opts6str(om.Options.Options))
				rt := guard(func() string {
					wire := om.ToBytes()
					back, err := dhcpv6.FromBytes(wire)
					if err != nil {
						return "fail:unparsable"
					}
					bm, ok := back.(*dhcpv6.Message)
					if !ok {
						return "fail:not-a-message"
					}
					if opts6str(bm.Options.Options) != opts6str(om.Options.Options) {
						return "fail:options-differ"
					}
					if !bytes.Equal(back.ToBytes(), wire) {
						return "fail:reserialisation-differs"
					}
					if t := w.typed6(bm); t != "" {
						return t
					}
					return "ok"
				})
				return fmt.Sprintf("%s ; %s ; %s ; rt %s", view, pre, outs, rt)
			})
		})
	}
	return "badop"
}

func mt4(d *dhcpv4.DHCPv4) int { return int(d.MessageType()) }

func runPlugWorker() {
	w := &plugWorker{}
	sc := bufio.NewScanner(os.Stdin)
	sc.Buffer(make([]byte, 1<<20), 1<<26)
	out := bufio.NewWriter(os.Stdout)
	defer out.Flush()
	for sc.Scan() {
		fmt.Fprintln(out, w.line(sc.Text()))
		out.Flush()
	}
}

// runGroup executes one configuration with its requests in a fresh worker process
func runGroup(c *ctx, ops []string) {
	cmd := exec.Command(os.Args[0], "plugworker")
	cmd.Stdin = strings.NewReader(strings.Join(ops, "\n") + "\n")
	var ob bytes.Buffer
	cmd.Stdout = &ob
	done := make(chan error, 1)
	go func() { done <- cmd.Run() }()
	select {
	case <-done:
	case <-time.After(120 * time.Second):
		cmd.Process.Kill()
	}
	lines := strings.Split(strings.TrimRight(ob.String(), "\n"), "\n")
	for i, op := range ops {
		res := "CRASH"
		if i < len(lines) && lines[i] != "" {
			res = lines[i]
		}
		c.emit(op, res)
	}
}

func replayPlug(c *ctx, ops []string) {
	var group []string
	for _, op := range ops {
		if strings.HasPrefix(op, "pcfg ") && len(group) > 0 {
			runGroup(c, group)
			group = nil
		}
		group = append(group, op)
	}
	if len(group) > 0 {
		runGroup(c, group)
	}
}
