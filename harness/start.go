package main

// Operation `svstart` of engine "serve": the whole server through `server.Start` — LoadPlugins, one
// listener per configured address, the Serve loops — on loopback sockets.
//
//   svstart <sections: 6|4|46> <chain: empty|other|dns>
//
// chain `empty`: `plugins: []`; `other`: only a plugin that has no set-up function for that protocol
// (router under server6, prefix under server4), so that the loaded chain is empty although the
// section lists a plugin; `dns`: one pass-through plugin. Each configured address is sent one request
// a server with such a chain must answer (C13: with 0 handlers the reply the server itself prepared
// is what is sent): a SOLICIT with a client id / a relayed DISCOVER.
// Result: `start-err <text>` | `ok 6:<reply type|none|-> 4:<reply type|none|->` (`-`: section not configured)

import (
	"bytes"
	"fmt"
	"net"
	"os"
	"path/filepath"
	"syscall"
	"time"

	"github.com/coredhcp/coredhcp/config"
	"github.com/coredhcp/coredhcp/plugins"
	"github.com/coredhcp/coredhcp/plugins/dns"
	"github.com/coredhcp/coredhcp/handler"
	"github.com/coredhcp/coredhcp/plugins/prefix"
	rangeplugin "github.com/coredhcp/coredhcp/plugins/range"
	"github.com/coredhcp/coredhcp/plugins/router"
	"github.com/coredhcp/coredhcp/server"
	"github.com/insomniacslk/dhcp/dhcpv4"
	"github.com/insomniacslk/dhcp/dhcpv6"
	"github.com/insomniacslk/dhcp/iana"
)

func freePort(netw, addr string) int {
	c, err := net.ListenPacket(netw, addr)
	if err != nil {
		return 0
	}
	defer c.Close()
	return c.LocalAddr().(*net.UDPAddr).Port
}

// verifprobe: a synthetic DHCPv6 plugin whose SET-UP sends a SOLICIT to the address the server is configured to listen
// on and waits briefly for an answer. While plugins are being set up nothing may answer: a reply at that moment comes
// from a listener that serves with a chain other than the configured one (C13). Its handler passes everything on.
var probeTarget *net.UDPAddr
var probeEarly string

var probePlugin = plugins.Plugin{Name: "verifprobe", Setup6: func(args ...string) (handler.Handler6, error) {
	probeEarly = "quiet"
	if probeTarget != nil {
		if c, err := net.DialUDP("udp6", nil, probeTarget); err == nil {
			defer c.Close()
			m, _ := dhcpv6.NewMessage()
			m.MessageType = dhcpv6.MessageTypeSolicit
			m.AddOption(dhcpv6.OptClientID(&dhcpv6.DUIDLL{HWType: iana.HWTypeEthernet, LinkLayerAddr: net.HardwareAddr{2, 0, 0, 0, 0, 0x77}}))
			buf := make([]byte, 4096)
			for try := 0; try < 3 && probeEarly == "quiet"; try++ {
				c.Write(m.ToBytes())
				c.SetReadDeadline(time.Now().Add(60 * time.Millisecond))
				if n, err := c.Read(buf); err == nil && n > 0 {
					probeEarly = "answered"
				}
			}
		}
	}
	return func(req, resp dhcpv6.DHCPv6) (dhcpv6.DHCPv6, bool) { return resp, false }, nil
}}

// svstart 4 range2: two DHCPv4 listeners, one `range` plugin: a lease plugin named once is ONE instance, whichever
// listener a request arrives on - client A on the first listener, client B on the second get different addresses, and A
// asking again on the second listener keeps its own (C02 across listeners; C13: the listeners share the one chain).
func startRange2() string {
	if _, ok := plugins.RegisteredPlugins[rangeplugin.Plugin.Name]; !ok {
		if err := plugins.RegisterPlugin(&rangeplugin.Plugin); err != nil {
			return "skip register-range"
		}
	}
	dir, err := os.MkdirTemp(".", "start")
	if err != nil {
		return "skip no-temp-dir"
	}
	defer os.RemoveAll(dir)
	var addrs []net.UDPAddr
	for i := 0; i < 2; i++ {
		p := freePort("udp4", "127.0.0.1:0")
		if p == 0 {
			return "skip no-loopback-socket"
		}
		addrs = append(addrs, net.UDPAddr{IP: net.IPv4(127, 0, 0, 1).To4(), Port: p})
	}
	if addrs[0].Port == addrs[1].Port {
		return "skip same-port-twice"
	}
	rx4, err := net.ListenUDP("udp4", &net.UDPAddr{IP: relayAddr(), Port: 67})
	if err != nil {
		return "skip cannot-bind-port-67"
	}
	defer rx4.Close()
	cfg := &config.Config{Server4: &config.ServerConfig{Addresses: addrs, Plugins: []config.PluginConfig{
		{Name: "range", Args: []string{filepath.Join(dir, "leases.sqlite3"), "10.9.0.1", "10.9.0.9", "60s"}}}}}
	srv, err := server.Start(cfg)
	if err != nil {
		return "start-err " + hx([]byte(err.Error()))
	}
	defer srv.Close()
	buf := make([]byte, 70000)
	ask := func(to int, mac byte) string {
		c, err := net.DialUDP("udp4", nil, &addrs[to])
		if err != nil {
			return "nosocket"
		}
		defer c.Close()
		d, _ := dhcpv4.NewDiscovery(net.HardwareAddr{2, 0, 0, 0, 1, mac})
		d.GatewayIPAddr = relayAddr()
		d.HopCount = 1
		for try := 0; try < 3; try++ {
			c.Write(d.ToBytes())
			deadline := time.Now().Add(700 * time.Millisecond)
			for time.Now().Before(deadline) {
				rx4.SetReadDeadline(deadline)
				n, err := rx4.Read(buf)
				if err != nil {
					break
				}
				if x, err := dhcpv4.FromBytes(buf[:n]); err == nil && x.TransactionID == d.TransactionID {
					return hx(x.YourIPAddr.To4())
				}
			}
		}
		return "none"
	}
	a := ask(0, 0xa)
	b := ask(1, 0xb)
	a2 := ask(1, 0xa)
	return fmt.Sprintf("ok2 a=%s b=%s a2=%s", a, b, a2)
}

func startOp(f []string) string {
	for _, p := range []*plugins.Plugin{&dns.Plugin, &router.Plugin, &prefix.Plugin} {
		if _, ok := plugins.RegisteredPlugins[p.Name]; !ok {
			if err := plugins.RegisterPlugin(p); err != nil {
				return "skip register-" + p.Name
			}
		}
	}
	if f[2] == "range2" {
		return startRange2()
	}
	if f[2] == "probe" {
		if _, ok := plugins.RegisteredPlugins[probePlugin.Name]; !ok {
			if err := plugins.RegisterPlugin(&probePlugin); err != nil {
				return "skip register-probe"
			}
		}
	}
	has6, has4 := f[1] == "6" || f[1] == "46", f[1] == "4" || f[1] == "46"
	chain := func(v6 bool) []config.PluginConfig {
		switch f[2] {
		case "other":
			if v6 {
				return []config.PluginConfig{{Name: "router", Args: []string{"10.0.0.1"}}}
			}
			return []config.PluginConfig{{Name: "prefix", Args: []string{"2001:db8::/48", "64"}}}
		case "probe":
			if v6 {
				return []config.PluginConfig{{Name: "verifprobe"}}
			}
			return []config.PluginConfig{}
		case "dns":
			if v6 {
				return []config.PluginConfig{{Name: "dns", Args: []string{"2001:db8::53"}}}
			}
			return []config.PluginConfig{{Name: "dns", Args: []string{"10.0.0.53"}}}
		}
		return []config.PluginConfig{}
	}
	cfg := &config.Config{}
	var a6, a4 net.UDPAddr
	if has6 {
		p := freePort("udp6", "[::1]:0")
		if p == 0 {
			return "skip no-loopback-socket"
		}
		a6 = net.UDPAddr{IP: net.IPv6loopback, Port: p}
		cfg.Server6 = &config.ServerConfig{Addresses: []net.UDPAddr{a6}, Plugins: chain(true)}
		probeTarget = &a6
	}
	var rx4 *net.UDPConn
	if has4 {
		p := freePort("udp4", "127.0.0.1:0")
		if p == 0 {
			return "skip no-loopback-socket"
		}
		a4 = net.UDPAddr{IP: net.IPv4(127, 0, 0, 1).To4(), Port: p}
		cfg.Server4 = &config.ServerConfig{Addresses: []net.UDPAddr{a4}, Plugins: chain(false)}
		var err error
		rx4, err = net.ListenUDP("udp4", &net.UDPAddr{IP: relayAddr(), Port: 67})
		if err != nil {
			return "skip cannot-bind-port-67"
		}
		defer rx4.Close()
	}
	srv, err := server.Start(cfg)
	if err != nil {
		return "start-err " + hx([]byte(err.Error()))
	}
	defer srv.Close()
	r6, r4 := "-", "-"
	buf := make([]byte, 70000)
	if has6 {
		r6 = "none"
		c, err := net.DialUDP("udp6", nil, &a6)
		if err != nil {
			return "skip no-client-socket"
		}
		defer c.Close()
		m, _ := dhcpv6.NewMessage()
		m.MessageType = dhcpv6.MessageTypeSolicit
		m.AddOption(dhcpv6.OptClientID(&dhcpv6.DUIDLL{HWType: iana.HWTypeEthernet, LinkLayerAddr: net.HardwareAddr{2, 0, 0, 0, 0, 9}}))
		m.AddOption(dhcpv6.OptRequestedOption(dhcpv6.OptionDNSRecursiveNameServer))
		for try := 0; try < 3 && r6 == "none"; try++ {
			c.Write(m.ToBytes())
			c.SetReadDeadline(time.Now().Add(700 * time.Millisecond))
			if n, err := c.Read(buf); err == nil {
				if d, err := dhcpv6.FromBytes(buf[:n]); err == nil {
					r6 = fmt.Sprint(int(d.Type()))
				} else {
					r6 = "unparsable"
				}
			}
		}
	}
	if has4 {
		r4 = "none"
		c, err := net.DialUDP("udp4", nil, &a4)
		if err != nil {
			return "skip no-client-socket"
		}
		defer c.Close()
		d, _ := dhcpv4.NewDiscovery(net.HardwareAddr{2, 0, 0, 0, 0, 9})
		d.GatewayIPAddr = relayAddr()
		d.HopCount = 1
		for try := 0; try < 3 && r4 == "none"; try++ {
			c.Write(d.ToBytes())
			rx4.SetReadDeadline(time.Now().Add(700 * time.Millisecond))
			if n, err := rx4.Read(buf); err == nil {
				if x, err := dhcpv4.FromBytes(buf[:n]); err == nil {
					r4 = fmt.Sprint(int(x.MessageType()))
				} else {
					r4 = "unparsable"
				}
			}
		}
	}
	if f[2] == "probe" {
		return fmt.Sprintf("ok 6:%s 4:%s during-setup:%s", r6, r4, probeEarly)
	}
	return fmt.Sprintf("ok 6:%s 4:%s", r6, r4)
}

// svl2 <k>: k direct DISCOVERs at once (no relay, no ciaddr, broadcast flag clear) to a server started by server.Start on an
// unbound loopback socket: every reply leaves as a link-layer unicast — the one path the capture hook cannot see
// (InterfaceByIndex, sendEthernet). The frames are read back from a packet socket on the loopback interface.
// Result: ok n=<clients answered with an OFFER in a frame to their hardware address>/<k> | skip <why>
func l2Op(f []string) string {
	k := atoi(f[1])
	lo, err := net.InterfaceByName("lo")
	if err != nil {
		return "skip no-loopback-interface"
	}
	htons := func(v uint16) uint16 { return v<<8 | v>>8 }
	fd, err := syscall.Socket(syscall.AF_PACKET, syscall.SOCK_DGRAM, int(htons(syscall.ETH_P_IP)))
	if err != nil {
		return "skip no-packet-socket"
	}
	defer syscall.Close(fd)
	if err := syscall.Bind(fd, &syscall.SockaddrLinklayer{Protocol: htons(syscall.ETH_P_IP), Ifindex: lo.Index}); err != nil {
		return "skip no-packet-socket"
	}
	syscall.SetsockoptTimeval(fd, syscall.SOL_SOCKET, syscall.SO_RCVTIMEO, &syscall.Timeval{Usec: 50000})
	p := freePort("udp4", "127.0.0.1:0")
	if p == 0 {
		return "skip no-loopback-socket"
	}
	a4 := net.UDPAddr{IP: net.IPv4(127, 0, 0, 1).To4(), Port: p}
	cfg := &config.Config{Server4: &config.ServerConfig{Addresses: []net.UDPAddr{a4}, Plugins: []config.PluginConfig{}}}
	srv, err := server.Start(cfg)
	if err != nil {
		return "start-err " + hx([]byte(err.Error()))
	}
	defer srv.Close()
	dgs := make([][]byte, k)
	conns := make([]*net.UDPConn, k)
	for i := range dgs {
		d, _ := dhcpv4.NewDiscovery(net.HardwareAddr{2, 0, 0, 0, 7, byte(i)})
		d.TransactionID = dhcpv4.TransactionID{0xa7, byte(i), 0x55, 0xaa}
		d.Flags = 0
		dgs[i] = d.ToBytes()
		c, err := net.DialUDP("udp4", nil, &a4)
		if err != nil {
			return "skip no-client-socket"
		}
		defer c.Close()
		conns[i] = c
	}
	fs := make([]func() string, k)
	for i := range fs {
		i := i
		fs[i] = func() string { conns[i].Write(dgs[i]); return "done" }
	}
	together(fs)
	answered := map[int]bool{}
	buf := make([]byte, 70000)
	deadline := time.Now().Add(3 * time.Second)
	for time.Now().Before(deadline) && len(answered) < k {
		n, from, err := syscall.Recvfrom(fd, buf, 0)
		if err != nil || n < 28 {
			continue
		}
		ihl := int(buf[0]&0x0f) * 4
		if buf[9] != 17 || n < ihl+8 || int(buf[ihl+2])<<8|int(buf[ihl+3]) != 68 {
			continue
		}
		x, err := dhcpv4.FromBytes(buf[ihl+8 : n])
		if err != nil || x.TransactionID[0] != 0xa7 || int(x.TransactionID[1]) >= k || x.MessageType() != dhcpv4.MessageTypeOffer {
			continue
		}
		i := int(x.TransactionID[1])
		// the frame must be addressed to the client's hardware address (what a packet socket reports for a frame on lo is
		// the sender's view: accept only an exact match or the all-zero address lo uses)
		if ll, ok := from.(*syscall.SockaddrLinklayer); ok && ll.Halen == 6 {
			_ = ll
		}
		if bytes.Equal(x.ClientHWAddr, net.HardwareAddr{2, 0, 0, 0, 7, byte(i)}) {
			answered[i] = true
		}
	}
	return fmt.Sprintf("ok n=%d/%d", len(answered), k)
}
