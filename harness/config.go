package main

import (
	"bytes"
	"fmt"
	"net"
	"os"
	"path/filepath"
	"strconv"
	"strings"

	"github.com/coredhcp/coredhcp/config"
	"github.com/spf13/cast"
	"github.com/spf13/viper"
)

func init() {
	engines["config"] = &engine{gen: genConfig, replay: replayConfig}
}

func hs(s string) string { return hx([]byte(s)) }

func ipTok(s string) string {
	p := net.ParseIP(s)
	if p == nil {
		return "-"
	}
	if p4 := p.To4(); p4 != nil {
		return "4." + hx(p4)
	}
	return "6." + hx(p)
}

// addrOracle: the stdlib's answers getListenAddress needs for one `listen` string
func addrOracle(a string) string {
	h1, p1, e1 := net.SplitHostPort(a)
	shp := "!"
	if e1 == nil {
		shp = hs(h1) + "_" + hs(p1)
	}
	h0, _, e0 := net.SplitHostPort(a + ":0")
	shp0 := "!"
	if e0 == nil {
		shp0 = hs(h0)
	}
	// ParseIP / Atoi for every string the code can feed them
	cands := map[string]bool{}
	for _, h := range []string{h1, h0} {
		cands[h] = true
		if i := strings.LastIndexByte(h, '%'); i >= 0 {
			cands[h[:i]] = true
		}
	}
	var ips []string
	for c := range cands {
		ips = append(ips, hs(c)+"="+ipTok(c))
	}
	sortStrings(ips)
	at := "-"
	if v, err := strconv.Atoi(p1); err == nil {
		at = strconv.Itoa(v)
	}
	return fmt.Sprintf("A %s shp=%s shp0=%s ip=%s atoi=%s", hs(a), shp, shp0, strings.Join(ips, ","), at)
}

func sortStrings(a []string) {
	for i := 1; i < len(a); i++ {
		for j := i; j > 0 && a[j] < a[j-1]; j-- {
			a[j], a[j-1] = a[j-1], a[j]
		}
	}
}

// view: what viper + cast make of the document, per protocol (the model's input)
func configView(text []byte) string {
	v := viper.New()
	v.SetConfigType("yml")
	if err := v.ReadConfig(bytes.NewReader(text)); err != nil {
		return "unreadable"
	}
	var out []string
	for _, ver := range []int{6, 4} {
		key := fmt.Sprintf("server%d", ver)
		if v.Get(key) == nil {
			out = append(out, fmt.Sprintf("S%d absent", ver))
			continue
		}
		sec := []string{fmt.Sprintf("S%d present", ver)}
		pl := cast.ToSlice(v.Get(key + ".plugins"))
		if pl == nil {
			sec = append(sec, "plugins nil")
		} else {
			sec = append(sec, fmt.Sprintf("plugins %d", len(pl)))
			for _, val := range pl {
				m := cast.ToStringMap(val)
				if m == nil {
					sec = append(sec, "I nil")
					continue
				}
				if len(m) != 1 {
					sec = append(sec, fmt.Sprintf("I %d", len(m)))
					continue
				}
				for k, vv := range m {
					f := strings.Fields(cast.ToString(vv))
					item := fmt.Sprintf("I 1 %s %d", hs(k), len(f))
					for _, x := range f {
						item += " " + hs(x)
					}
					sec = append(sec, item)
				}
			}
		}
		listen := v.Get(key + ".listen")
		iface := v.Get(key + ".interface")
		if iface != nil {
			sec = append(sec, "iface "+hs(cast.ToString(iface)))
		} else {
			sec = append(sec, "iface nil")
		}
		var addrs []string
		if listen == nil {
			sec = append(sec, "listen nil")
		} else {
			a, err := cast.ToStringSliceE(listen)
			if err != nil {
				a = []string{cast.ToString(listen)}
			}
			addrs = a
			sec = append(sec, fmt.Sprintf("listen %d", len(a)))
		}
		if iface != nil && listen == nil {
			// the alias goes through the same conversion as a scalar listen (a string is split at white space)
			l := "%" + cast.ToString(iface)
			a, err := cast.ToStringSliceE(l)
			if err != nil {
				a = []string{l}
			}
			addrs = a
		}
		for _, a := range addrs {
			sec = append(sec, addrOracle(a))
		}
		out = append(out, strings.Join(sec, " "))
	}
	// interfaces usable for multicast expansion
	ifs, _ := net.Interfaces()
	is := "ifs"
	for _, i := range ifs {
		is += fmt.Sprintf(" %s:%d:%d", hs(i.Name), b2i(i.Flags&net.FlagMulticast != 0), b2i(i.Flags&net.FlagBroadcast != 0))
	}
	out = append(out, is)
	return strings.Join(out, " | ")
}

func fmtServer(sc *config.ServerConfig) string {
	if sc == nil {
		return "nil"
	}
	var a []string
	for _, u := range sc.Addresses {
		ip := "-"
		if u.IP != nil {
			if p4 := u.IP.To4(); p4 != nil {
				ip = "4." + hx(p4)
			} else {
				ip = "6." + hx(u.IP)
			}
		}
		a = append(a, fmt.Sprintf("%s/%d/%s", ip, u.Port, hs(u.Zone)))
	}
	var p []string
	for _, pc := range sc.Plugins {
		item := hs(pc.Name)
		for _, x := range pc.Args {
			item += ":" + hs(x)
		}
		p = append(p, item)
	}
	as, ps := "-", "-"
	if len(a) > 0 {
		as = strings.Join(a, ",")
	}
	if len(p) > 0 {
		ps = strings.Join(p, ",")
	}
	return fmt.Sprintf("addrs %s plugins %s", as, ps)
}

var cfgDir string

// cload <text> [<file name>]: the document is YAML whatever the file given with -c is called
func execLoadCfg(c *ctx, texthex string, name string) {
	text := unhx(texthex)
	if cfgDir == "" {
		d, err := os.MkdirTemp(".", "cfg")
		if err != nil {
			panic(err)
		}
		cfgDir = d
	}
	op := "cload " + texthex
	if name == "" {
		name = "config.yml"
	} else {
		op += " " + hx([]byte(name))
	}
	path := filepath.Join(cfgDir, filepath.Base(name))
	if err := os.WriteFile(path, text, 0o644); err != nil {
		panic(err)
	}
	defer os.Remove(path)
	view := guard(func() string { return configView(text) })
	res := guard(func() string {
		cfg, err := config.Load(path)
		if err != nil {
			return "err"
		}
		return fmt.Sprintf("ok s6 %s s4 %s", fmtServer(cfg.Server6), fmtServer(cfg.Server4))
	})
	c.emit(op, view+" ; "+res)
}

func replayConfig(c *ctx, ops []string) {
	defer func() {
		if cfgDir != "" {
			os.RemoveAll(cfgDir)
		}
	}()
	for _, op := range ops {
		f := strings.Fields(op)
		name := ""
		if len(f) > 2 {
			name = string(unhx(f[2]))
		}
		execLoadCfg(c, f[1], name)
	}
}

func genConfig(c *ctx) {
	defer func() {
		if cfgDir != "" {
			os.RemoveAll(cfgDir)
		}
	}()
	addr4 := []string{"0.0.0.0", "192.0.2.1", "192.0.2.1:67", "192.0.2.1:6767", ":67", "127.0.0.1:0", "224.0.0.1", "224.0.0.1%lo", "%lo", "%eth7:67", "192.0.2.1%lo", "255.255.255.255",
		"::ffff:192.0.2.1", "[::ffff:192.0.2.1]:67", "2001:db8::1", "garbage", "192.0.2.1:port", "1.2.3.4:99999", "1.2.3.4:-1", "192.0.2.300", "", "[192.0.2.1]:67", "192.0.2.1:67:68", "1.2.3.4%a%b",
		"239.1.2.3", "239.255.255.250:67", "224.0.1.1", "232.0.0.1%lo"}
	addr6 := []string{"::", "[::]:547", "[2001:db8::1]:5470", "2001:db8::1", "[2001:db8::1]", "[fe80::1%lo]:547", "fe80::1%lo", "[ff02::1:2]", "[ff02::1:2%lo]:547", "ff02::1:2", "ff05::1:3", "ff01::1",
		"%lo", "[::]:port", "192.0.2.1", "[192.0.2.1]:547", "::ffff:192.0.2.1", "garbage", "[::1", "::1]:547", ":547", "[]:547", "[::1]:547:1", "2001:db8::g",
		"[ff05::1:3]", "[ff05::1:3]:547", "[ff0e::1]", "[ff08::5%lo]", "[ff05::1:3%lo]:547"}
	plugItem := func() string {
		switch c.rng.Intn(14) {
		case 0:
			return "- foo"
		case 1:
			return "- a: 1\n      b: 2"
		case 2:
			return "- [x, y]"
		case 3:
			return "- DNS: 8.8.8.8 8.8.4.4"
		case 4:
			return "- mtu: 1500"
		case 5:
			return "- lease_time: 3600s"
		case 6:
			return "- file:   leases.txt\tautorefresh  "
		case 7:
			return "- empty:"
		case 8:
			return "- listy: [a, b]"
		case 9:
			return "- quoted: \"a  b\\tc\""
		case 10:
			// arguments with a dollar sign (an iPXE boot URL, a shell-like default): they are text, nothing expands them
			return pick(c, []string{"- 42: 1.5", "- nbp: http://10.0.0.1/boot.ipxe?mac=${net0/mac}&uuid=${uuid}", "- dns: $HOME 8.8.8.8", "- router: ${PATH} $PATH", "- searchdomains: a$$b.example $", "- file: $HOME/leases.txt"})
		case 11:
			return "- boolish: true"
		default:
			return "- server_id: LL 00:de:ad:be:ef:00"
		}
	}
	section := func(ver int) string {
		var sb strings.Builder
		fmt.Fprintf(&sb, "server%d:\n", ver)
		pool := addr4
		if ver == 6 {
			pool = addr6
		}
		good := func() string {
			if ver == 6 {
				return []string{"[::]:547", "[2001:db8::1]:547", "[fe80::1%lo]", "%lo"}[c.rng.Intn(4)]
			}
			return []string{"0.0.0.0:67", "192.0.2.1", ":67", "%lo"}[c.rng.Intn(4)]
		}
		a := func() string {
			if c.rng.Intn(4) == 0 {
				return pool[c.rng.Intn(len(pool))]
			}
			return good()
		}
		q := func(s string) string { return "'" + s + "'" }
		switch c.rng.Intn(9) {
		case 0: // no listen
		case 1:
			fmt.Fprintf(&sb, "  listen: %s\n", q(a()))
		case 2:
			fmt.Fprintf(&sb, "  listen:\n    - %s\n    - %s\n", q(a()), q(a()))
		case 3:
			// (present-but-empty values too: '' [] {} are a key that is there, ~ is a key that is not)
			fmt.Fprintf(&sb, "  interface: %s\n", []string{"lo", "eth0", "'lo:67'", "7", "''", "[]", "{}", "~", "' '"}[c.rng.Intn(9)])
		case 4:
			fmt.Fprintf(&sb, "  interface: %s\n  listen: %s\n", []string{"lo", "lo", "''", "[]", "~", "{}"}[c.rng.Intn(6)], q(a()))
		case 5:
			fmt.Fprintf(&sb, "  listen: [[a, b]]\n")
		case 6:
			fmt.Fprintf(&sb, "  listen: ''\n")
		case 7:
			fmt.Fprintf(&sb, "  listen: %s\n", []string{"547", "67", "true", "1.5"}[c.rng.Intn(4)])
		default:
			fmt.Fprintf(&sb, "  listen:\n    - %s\n", q(a()))
		}
		switch c.rng.Intn(24) {
		case 0: // plugins missing
		case 1:
			sb.WriteString("  plugins:\n")
		case 2:
			sb.WriteString("  plugins: []\n")
		case 3:
			sb.WriteString("  plugins: notalist\n")
		case 4:
			sb.WriteString("  plugins:\n    key: value\n")
		default:
			sb.WriteString("  plugins:\n")
			for i := 0; i <= c.rng.Intn(4); i++ {
				it := "- dns: 1.1.1.1"
				if c.rng.Intn(4) == 0 {
					it = plugItem()
				}
				sb.WriteString("    " + it + "\n")
			}
		}
		return sb.String()
	}
	for c.count < c.n {
		var doc string
		switch c.rng.Intn(8) {
		case 0:
			doc = section(6)
		case 1:
			doc = section(4)
		case 2:
			doc = "# nothing\nfoo: bar\n"
		case 3:
			doc = "server6:\nserver4:\n"
		default:
			doc = section(6) + section(4)
			if c.rng.Intn(2) == 0 {
				doc = section(4) + section(6)
			}
		}
		b := []byte(doc)
		if c.rng.Intn(6) == 0 {
			b = c.mutate(b) // arbitrary mutated text
			if c.rng.Intn(2) == 0 {
				b = c.mutate(b)
			}
		}
		name := ""
		if c.rng.Intn(4) == 0 {
			name = pick(c, []string{"config.yaml", "coredhcp.conf", "coredhcp", "config.yml.bak", "dhcp.json", "dhcp.toml", "server.ini", "site.properties", "x.hcl", "Config.YML"})
		}
		execLoadCfg(c, hx(b), name)
	}
}
