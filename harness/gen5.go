// gen5.go — `harness gen -unit handlers4`: the DHCPv4 request handlers of the option plugins,
// regenerated as Lean definitions (namespace CoreDhcp.GenH4, file CoreDhcp/Generated/Handlers4.lean)
// from the go/ast of
//
//	plugins/mtu/plugin.go            Handler4                  ↦ GenH4.mtu
//	plugins/netmask/plugin.go        Handler4                  ↦ GenH4.netmask
//	plugins/router/plugin.go         Handler4                  ↦ GenH4.router
//	plugins/dns/plugin.go            Handler4                  ↦ GenH4.dns
//	plugins/leasetime/plugin.go      Handler4                  ↦ GenH4.leasetime
//	plugins/searchdomains/plugin.go  domainSearchListHandler4  ↦ GenH4.searchdomains
//	plugins/staticroute/plugin.go    Handler4                  ↦ GenH4.staticroute
//	plugins/ipv6only/plugin.go       Handler4                  ↦ GenH4.ipv6only
//	plugins/autoconfigure/plugin.go  Handler4                  ↦ GenH4.autoconfigure
//	plugins/sleep/plugin.go          makeSleepHandler4 (the function literal it returns) ↦ GenH4.sleep
//	plugins/serverid/plugin.go       Handler4                  ↦ GenH4.serverid
//	plugins/nbp/nbp.go               nbpHandler4               ↦ GenH4.nbp
//
// Props/GenHandlers4.lean proves every generated definition equal to the hand-written model
// (Model/OptPlug.lean, `Plug.<plugin>.handle`).  `-src plugin=file.go[,plugin=file.go…]` reads the
// named plugins from other files (negative tests).
//
// Every generated definition has the form
//
//	def GenH4.<plugin> (<configuration>) (req : Plug.ReqView4) (pre : Plug.Resp4) : Plug.Out4
//
// Like gen.go / gen2.go the translator knows ONLY what these twelve functions use and fails loudly
// (source position, exit code 2) on everything else.
//
// DERIVED FROM THE AST
//   - the control flow: `if` / `else`, early `return`, `if x := …; cond`, the search loop of ipv6only;
//     an `if` that contains a return is translated with the rest of the block as its continuation,
//     an `if` without return becomes `let rK := if c then … else …` (the response after either branch)
//   - the conditions: `!` `&&` `||` `==` `!=` `<` `<=` `>` `>=`, their operands and their order
//   - which condition guards which update, the order of the updates, on WHICH response value an update
//     or a test acts (every effect makes a new `rK`; `resp.Options.Has` reads the current one)
//   - the option code of every test and update, as a number: `dhcpv4.OptionX` is looked up in
//     dhcpv4/types.go of the library; for `dhcpv4.OptX(arg)` the library function is parsed
//     (`return Option{Code: OptionX, Value: W(arg)}`) and gives the code AND the wire type W
//   - which configured value goes into which option, and through which wire type
//   - the returned pair: `resp` ↦ `some <current response>`, `nil` ↦ `none`, `true` / `false`
//   - the type (hence the Lean type) of every configuration variable, from its declaration
//   - for nbp: the code of `*opt66` / `*opt67`, from the constructors `setup4` assigns to them
//
// FIXED VOCABULARY (the meaning of a recognised Go expression in the model)
//
//	Go                                               Lean
//	-----------------------------------------------  -------------------------------------------------
//	first / second parameter (any name)              req : Plug.ReqView4 / the response: pre, r1, r2, …
//	req.IsOptionRequested(c)                         Plug.requested4 req c
//	resp.Options.Has(c)                              (Plug.lookup c r.opts).isSome        r = current response
//	resp.Options.Update(o), resp.UpdateOption(o)     let rK := r.update <code of o> <value of o>
//	   (UpdateOption also makes the map when it is nil: no difference in the model; code 53 is refused,
//	   the model keeps the message type in a field of its own)
//	req.OpCode / resp.MessageType()                  req.op / r.mt         compared with dhcpv4.Opcode… / MessageType…
//	len(v), v a configured list                      v.length              compared with integer literals
//	req.ServerIPAddr, req.ClientIPAddr               req.siaddr, req.ciaddr      (never nil in a parsed request)
//	resp.YourIPAddr, resp.ServerIPAddr               r.yiaddr, r.siaddr          (never nil)
//	net.IPv4zero                                     [0, 0, 0, 0]
//	a.Equal(b)                                       a = b                 (both are 4-byte addresses in the model)
//	a.IsUnspecified()                                a = [0, 0, 0, 0]
//	a != nil, a one of the four address fields       True  (== nil: False)
//	x := req.ServerIdentifier()                      let sK := Plug.serverid4.sid54 req   (Option Bytes)
//	   x != nil ↦ sK.isSome; x as an address ↦ GenH4.deref sK, accepted only where a test
//	   `x != nil` dominates the use
//	_, ok := req.AutoConfigure()                     let bK := Plug.autoconfigure.clientSent req
//	   (the first result may only appear in the arguments of a log call)
//	v := false | true                                let bK := false | true
//	for _, o := range req.ParameterRequestList() {   let bK := b || Plug.listed4 req c    (b = v before the loop)
//	    if o.Code() == c.Code() { v = true } }
//	dhcpv4.OptX(a)                                   code and wire type read from the library source (above)
//	dhcpv4.Option{Code: c, Value: w}                 code c; value w
//	dhcpv4.OptionCode(c)                             c
//	wire type IPs / IP / IPMask                      Plug.encIPs v / v / v     (the model keeps To4() bytes)
//	wire type Duration                               Plug.encSecs v
//	wire type Uint16 (`dhcpv4.Uint16(v)`)            Plug.encU16 v
//	wire type Routes                                 Plug.encRoutes v
//	wire type AutoConfiguration                      [v]
//	wire type *rfc1035label.Labels                   Plug.encLabels v   for &rfc1035label.Labels{Labels: v} and
//	                                                 …{Labels: copySlice(v)}; copySlice is checked to be make+copy+return
//	p == nil / p != nil, p a configured *dhcpv4.Option   ¬(p.isSome) / p.isSome          (parameter : Option Bytes)
//	*p                                               code: of the constructor setup4 stores in p; value: GenH4.deref p,
//	                                                 accepted only where `p != nil` is known (dominating test, or after
//	                                                 `if p == nil { return … }`)
//	resp.ServerIPAddr = make(net.IP, net.IPv4len)    let rK := { r with siaddr := a }     (the two statements together;
//	copy(resp.ServerIPAddr[:], a)                    a is four bytes long in the model)
//	package-level configuration variable             parameter of the generated function, Lean type from the Go type:
//	   int ↦ Int, time.Duration ↦ Int (ns), net.IPMask / net.IP ↦ Plug.Bytes, []net.IP / []string ↦ List Plug.Bytes,
//	   dhcpv4.Routes ↦ List Plug.Route, dhcpv4.AutoConfiguration ↦ Nat, *dhcpv4.Option ↦ Option Plug.Bytes
//	sleep: the parameter of makeSleepHandler4        cfg : Int
//	time.Sleep(cfg)   (sleep only)                   nothing: the model has no time
//	log.<Level>(…), log.WithFields(logrus.Fields{…}).<Level>(…)      nothing — only as a statement, only on the
//	   package's `log = logger.GetLogger(…)`, Level ∈ Print Info Warning Warn Error Debug (+f), and only if every
//	   argument is free of side effects: literals, variables, fields, x.String(), fmt.Sprintf(…), logrus.Fields{…}
//	if v == nil { log.Fatal(…); return nil, true }   nothing, `v` the configured net.IP, first statement only: ASSUMED not
//	   to fire (the plugin was set up); recorded in the generated file
//
// Go names never reach the generated text (req, pre, rK, bK, sK, and the parameter names of the table
// `h4specs`): renaming a variable, reformatting, or moving a log statement regenerates the same file.
package main

import (
	"fmt"
	"go/ast"
	"go/parser"
	"go/token"
	"os"
	"path/filepath"
	"sort"
	"strconv"
	"strings"
)

type h4cfg struct{ goName, lean string }

type h4spec struct {
	name, src, fn string
	closure       bool    // fn returns the handler as a function literal; its parameter is the configuration
	cfg           []h4cfg // configuration variables, in the order of the Lean parameters
	sleep         bool    // time.Sleep(cfg) is a no-op
	model         string
}

var h4specs = []h4spec{
	{"mtu", "/repo/plugins/mtu/plugin.go", "Handler4", false, []h4cfg{{"mtu", "cfg"}}, false, "Plug.mtu.handle"},
	{"netmask", "/repo/plugins/netmask/plugin.go", "Handler4", false, []h4cfg{{"netmask", "cfg"}}, false, "Plug.netmask.handle"},
	{"router", "/repo/plugins/router/plugin.go", "Handler4", false, []h4cfg{{"routers", "cfg"}}, false, "Plug.router.handle"},
	{"dns", "/repo/plugins/dns/plugin.go", "Handler4", false, []h4cfg{{"dnsServers4", "cfg"}}, false, "Plug.dns4.handle"},
	{"leasetime", "/repo/plugins/leasetime/plugin.go", "Handler4", false, []h4cfg{{"v4LeaseTime", "cfg"}}, false, "Plug.leasetime.handle"},
	{"searchdomains", "/repo/plugins/searchdomains/plugin.go", "domainSearchListHandler4", false, []h4cfg{{"v4SearchList", "cfg"}}, false, "Plug.search.handle4"},
	{"staticroute", "/repo/plugins/staticroute/plugin.go", "Handler4", false, []h4cfg{{"routes", "cfg"}}, false, "Plug.staticroute.handle"},
	{"ipv6only", "/repo/plugins/ipv6only/plugin.go", "Handler4", false, []h4cfg{{"v6only_wait", "cfg"}}, false, "Plug.ipv6only.handle"},
	{"autoconfigure", "/repo/plugins/autoconfigure/plugin.go", "Handler4", false, []h4cfg{{"autoconfigure", "cfg"}}, false, "Plug.autoconfigure.handle"},
	{"sleep", "/repo/plugins/sleep/plugin.go", "makeSleepHandler4", true, []h4cfg{{"", "cfg"}}, true, "Plug.sleep.handle4"},
	{"serverid", "/repo/plugins/serverid/plugin.go", "Handler4", false, []h4cfg{{"v4ServerID", "cfg"}}, false, "Plug.serverid4.handle"},
	{"nbp", "/repo/plugins/nbp/nbp.go", "nbpHandler4", false, []h4cfg{{"opt66", "o66"}, {"opt67", "o67"}}, false, "Plug.nbp4.handle"},
}

// Go type of a configuration variable ↦ kind, Lean type
var h4kinds = map[string][2]string{
	"int":                      {"int", "Int"},
	"time.Duration":            {"dur", "Int"},
	"net.IPMask":               {"mask", "Plug.Bytes"},
	"net.IP":                   {"ip4", "Plug.Bytes"},
	"[]net.IP":                 {"ips", "List Plug.Bytes"},
	"[]string":                 {"strs", "List Plug.Bytes"},
	"dhcpv4.Routes":            {"routes", "List Plug.Route"},
	"dhcpv4.AutoConfiguration": {"ac", "Nat"},
	"*dhcpv4.Option":           {"optptr", "Option Plug.Bytes"},
}

// wire type of the library (what `Value:` of an Option is) ↦ kind of the value it takes, its bytes in the model
var h4wires = map[string][2]string{
	"IPs":                  {"ips", "Plug.encIPs %s"},
	"IP":                   {"ip4", "%s"},
	"IPMask":               {"mask", "%s"},
	"Duration":             {"dur", "Plug.encSecs %s"},
	"Uint16":               {"int", "Plug.encU16 %s"},
	"Routes":               {"routes", "Plug.encRoutes %s"},
	"AutoConfiguration":    {"ac", "[%s]"},
	"*rfc1035label.Labels": {"labels", "Plug.encLabels %s"},
}

// a configuration variable whose own type is a wire type
var h4selfWire = map[string]string{"routes": "Routes", "ac": "AutoConfiguration"}

// packages the vocabulary mentions, and the import path each must have
var h4pkgs = map[string]string{
	"dhcpv4":       "github.com/insomniacslk/dhcp/dhcpv4",
	"rfc1035label": "github.com/insomniacslk/dhcp/rfc1035label",
	"logger":       "github.com/coredhcp/coredhcp/logger",
	"logrus":       "github.com/sirupsen/logrus",
	"net":          "net",
	"time":         "time",
	"fmt":          "fmt",
}

var h4logLevels = set("Print", "Printf", "Info", "Infof", "Warning", "Warningf", "Warn", "Warnf", "Error", "Errorf", "Debug", "Debugf")

type h4ctor struct {
	code     string // dhcpv4.OptionX
	wire     string
	variadic bool
}

type h4var struct {
	lean, kind string
	code       int // optptr: the code of the option setup4 stores
}

type hlocal struct{ role, lean string }

// hstate: the symbolic state along one path
type hstate struct {
	resp   string            // Lean name of the current response
	vars   map[string]hlocal // Go local ↦ role and Lean name
	nonnil map[string]bool   // Go names (locals of role optip, configured pointers) known to be non-nil
}

func (st hstate) withVar(name string, l hlocal) hstate {
	n := map[string]hlocal{name: l}
	for k, v := range st.vars {
		if k != name {
			n[k] = v
		}
	}
	st.vars = n
	return st
}

func (st hstate) withNonNil(names map[string]bool) hstate {
	if len(names) == 0 {
		return st
	}
	n := map[string]bool{}
	for k := range st.nonnil {
		n[k] = true
	}
	for k := range names {
		n[k] = true
	}
	st.nonnil = n
	return st
}

type h4 struct {
	*gen
	spec       h4spec
	consts     map[string]int
	ctors      map[string]h4ctor
	imports    map[string]string // local package name ↦ path
	pkgVars    map[string]*ast.ValueSpec
	funcs      map[string]*ast.FuncDecl
	cfg        map[string]*h4var
	nr, nb, ns int
	assumed    []string
	copyOK     bool
	top        []ast.Stmt // the statement list of the handler body (for "first statement" checks)
}

// Lean precedences of the Prop operators
const hOr, hAnd, hNot, hCmp, hAtom = 30, 35, 40, 50, 100

// ------------------------------------------------------------------ helpers

func (u *h4) unparen(x ast.Expr) ast.Expr {
	for {
		p, ok := x.(*ast.ParenExpr)
		if !ok {
			return x
		}
		x = p.X
	}
}

// pkgSel: x is `pkg.Name` with pkg an imported package of the vocabulary, not shadowed by a local.
func (u *h4) pkgSel(x ast.Expr, pkg string, st hstate) (string, bool) {
	s, ok := u.unparen(x).(*ast.SelectorExpr)
	if !ok {
		return "", false
	}
	id, ok := s.X.(*ast.Ident)
	if !ok || id.Name != pkg {
		return "", false
	}
	if _, shadow := st.vars[pkg]; shadow || u.cfg[pkg] != nil || u.pkgVars[pkg] != nil {
		return "", false
	}
	if u.imports[pkg] != h4pkgs[pkg] {
		u.fail(x, "`%s` is not the package %s here", pkg, h4pkgs[pkg])
	}
	return s.Sel.Name, true
}

// local: x is a local variable with the given role.
func (u *h4) local(x ast.Expr, st hstate, role string) (hlocal, string, bool) {
	id, ok := u.unparen(x).(*ast.Ident)
	if !ok {
		return hlocal{}, "", false
	}
	l, ok := st.vars[id.Name]
	return l, id.Name, ok && l.role == role
}

// field: x is `v.Field` with v the local of the given role.
func (u *h4) field(x ast.Expr, st hstate, role string) (string, bool) {
	s, ok := u.unparen(x).(*ast.SelectorExpr)
	if !ok {
		return "", false
	}
	if _, _, ok := u.local(s.X, st, role); !ok {
		return "", false
	}
	return s.Sel.Name, true
}

// method: x is the call `recv.Name(args)`; returns the receiver expression.
func (u *h4) method(x ast.Expr) (recv ast.Expr, name string, call *ast.CallExpr, ok bool) {
	c, ok := u.unparen(x).(*ast.CallExpr)
	if !ok {
		return nil, "", nil, false
	}
	s, ok := c.Fun.(*ast.SelectorExpr)
	if !ok {
		return nil, "", nil, false
	}
	return s.X, s.Sel.Name, c, true
}

func (u *h4) cfgVar(x ast.Expr, st hstate) (*h4var, string, bool) {
	id, ok := u.unparen(x).(*ast.Ident)
	if !ok {
		return nil, "", false
	}
	if _, shadow := st.vars[id.Name]; shadow {
		return nil, "", false
	}
	v, ok := u.cfg[id.Name]
	return v, id.Name, ok
}

func (u *h4) isNil(x ast.Expr, st hstate) bool {
	id, ok := u.unparen(x).(*ast.Ident)
	if !ok || id.Name != "nil" {
		return false
	}
	_, shadow := st.vars["nil"]
	return !shadow && u.cfg["nil"] == nil && u.pkgVars["nil"] == nil
}

func (u *h4) boolLit(x ast.Expr, st hstate) (string, bool) {
	id, ok := u.unparen(x).(*ast.Ident)
	if !ok || (id.Name != "true" && id.Name != "false") {
		return "", false
	}
	_, shadow := st.vars[id.Name]
	return id.Name, !shadow && u.cfg[id.Name] == nil && u.pkgVars[id.Name] == nil
}

// ------------------------------------------------------------------ values

// optCode: an option code as a number.
func (u *h4) optCode(x ast.Expr, st hstate) int {
	x = u.unparen(x)
	if c, ok := x.(*ast.CallExpr); ok && len(c.Args) == 1 && !c.Ellipsis.IsValid() {
		if n, ok := u.pkgSel(c.Fun, "dhcpv4", st); ok && n == "OptionCode" { // conversion to the interface type
			return u.optCode(c.Args[0], st)
		}
	}
	n, ok := u.pkgSel(x, "dhcpv4", st)
	u.must(ok && strings.HasPrefix(n, "Option"), x, "not an option code of the library (dhcpv4.OptionX)")
	v, ok := u.consts["dhcpv4."+n]
	u.must(ok, x, "constant dhcpv4.%s not found in dhcpv4/types.go", n)
	return v
}

// arg: x yields a configured value of the given kind; returns its Lean text.
func (u *h4) arg(x ast.Expr, kind string, st hstate) string {
	x = u.unparen(x)
	switch kind {
	case "labels": // &rfc1035label.Labels{Labels: <strs>}
		un, ok := x.(*ast.UnaryExpr)
		u.must(ok && un.Op == token.AND, x, "expected &rfc1035label.Labels{Labels: …}")
		cl, ok := un.X.(*ast.CompositeLit)
		u.must(ok && cl.Type != nil && len(cl.Elts) == 1, x, "expected &rfc1035label.Labels{Labels: …}")
		tn, ok := u.pkgSel(cl.Type, "rfc1035label", st)
		u.must(ok && tn == "Labels", x, "expected &rfc1035label.Labels{Labels: …}")
		kv, ok := cl.Elts[0].(*ast.KeyValueExpr)
		u.must(ok && u.src(kv.Key) == "Labels", x, "expected &rfc1035label.Labels{Labels: …}")
		return u.arg(kv.Value, "strs", st)
	case "strs":
		if c, ok := x.(*ast.CallExpr); ok {
			id, ok := c.Fun.(*ast.Ident)
			_, shadow := st.vars["copySlice"]
			u.must(ok && id.Name == "copySlice" && !shadow && len(c.Args) == 1 && !c.Ellipsis.IsValid(), x, "unknown call (only copySlice(v))")
			u.checkCopySlice(c)
			return u.arg(c.Args[0], "strs", st)
		}
	}
	v, name, ok := u.cfgVar(x, st)
	u.must(ok, x, "expected a configuration variable (%s)", kind)
	u.must(v.kind == kind, x, "configuration variable %s is a %s, a %s is needed here", name, v.kind, kind)
	return v.lean
}

// checkCopySlice: the package's copySlice is make + copy + return.
func (u *h4) checkCopySlice(at ast.Node) {
	if u.copyOK {
		return
	}
	f := u.funcs["copySlice"]
	u.must(f != nil && f.Recv == nil && f.Body != nil && len(f.Type.Params.List) == 1 && len(f.Type.Params.List[0].Names) == 1 &&
		u.src(f.Type.Params.List[0].Type) == "[]string" && f.Type.Results != nil && len(f.Type.Results.List) == 1 &&
		u.src(f.Type.Results.List[0].Type) == "[]string" && len(f.Body.List) == 3, at, "copySlice is not `func(p []string) []string` with three statements")
	p := f.Type.Params.List[0].Names[0].Name
	a, ok := f.Body.List[0].(*ast.AssignStmt)
	u.must(ok && a.Tok == token.DEFINE && len(a.Lhs) == 1 && len(a.Rhs) == 1, f.Body.List[0], "copySlice: expected `c := make([]string, len(p))`")
	c := u.src(a.Lhs[0])
	u.must(c != p && c != "_" && u.src(a.Rhs[0]) == "make([]string, len("+p+"))", f.Body.List[0], "copySlice: expected `c := make([]string, len(p))`")
	u.must(u.src(f.Body.List[1]) == "copy("+c+", "+p+")", f.Body.List[1], "copySlice: expected `copy(c, p)`")
	u.must(u.src(f.Body.List[2]) == "return "+c, f.Body.List[2], "copySlice: expected `return c`")
	for _, n := range []string{"make", "len", "copy", "string"} {
		u.must(u.pkgVars[n] == nil && u.funcs[n] == nil && p != n && c != n, f.Name, "copySlice: the builtin `%s` is redefined", n)
	}
	u.copyOK = true
}

func (u *h4) wireValue(at ast.Node, wire, arg string) string {
	w, ok := h4wires[wire]
	u.must(ok, at, "wire type %s is not in the vocabulary", wire)
	s := fmt.Sprintf(w[1], arg)
	if strings.Contains(s, " ") && !strings.HasPrefix(s, "[") {
		s = "(" + s + ")"
	}
	return s
}

// option: a dhcpv4.Option value ↦ (code, Lean text of its bytes).
func (u *h4) option(x ast.Expr, st hstate) (int, string) {
	x = u.unparen(x)
	switch x := x.(type) {
	case *ast.StarExpr: // *opt66
		v, name, ok := u.cfgVar(x.X, st)
		u.must(ok && v.kind == "optptr", x, "dereference of something that is not a configured *dhcpv4.Option")
		u.must(st.nonnil[name], x, "dereference of %s is not dominated by a test `%s != nil`", name, name)
		return v.code, "(deref " + v.lean + ")"
	case *ast.CompositeLit: // dhcpv4.Option{Code: c, Value: w}
		tn, ok := u.pkgSel(x.Type, "dhcpv4", st)
		u.must(x.Type != nil && ok && tn == "Option" && len(x.Elts) == 2, x, "expected dhcpv4.Option{Code: …, Value: …}")
		code, val := -1, ""
		for _, e := range x.Elts {
			kv, ok := e.(*ast.KeyValueExpr)
			u.must(ok, e, "expected dhcpv4.Option{Code: …, Value: …}")
			switch u.src(kv.Key) {
			case "Code":
				u.must(code < 0, kv, "Code given twice")
				code = u.optCode(kv.Value, st)
			case "Value":
				u.must(val == "", kv, "Value given twice")
				val = u.value(kv.Value, st)
			default:
				u.fail(kv.Key, "expected dhcpv4.Option{Code: …, Value: …}")
			}
		}
		u.must(code >= 0 && val != "", x, "expected dhcpv4.Option{Code: …, Value: …}")
		return code, val
	case *ast.CallExpr: // dhcpv4.OptX(arg)
		n, ok := u.pkgSel(x.Fun, "dhcpv4", st)
		u.must(ok, x, "unknown call (not an option constructor of the library)")
		ct, ok := u.ctors[n]
		u.must(ok, x, "unknown call: dhcpv4.%s is not a function of the library of the form `return Option{Code: OptionX, Value: …}`", n)
		code, ok := u.consts[ct.code]
		u.must(ok, x, "constant %s not found in dhcpv4/types.go", ct.code)
		w, ok := h4wires[ct.wire]
		u.must(ok, x, "dhcpv4.%s builds a value of wire type %s, which is not in the vocabulary", n, ct.wire)
		u.must(len(x.Args) == 1, x, "expected one argument")
		u.must(x.Ellipsis.IsValid() == ct.variadic, x, "dhcpv4.%s: only a whole configured list is supported for a variadic parameter (v...)", n)
		return code, u.wireValue(x, ct.wire, u.arg(x.Args[0], w[0], st))
	}
	u.fail(x, "not a recognised dhcpv4.Option value")
	return 0, ""
}

// value: the `Value:` of an Option literal.
func (u *h4) value(x ast.Expr, st hstate) string {
	x = u.unparen(x)
	if c, ok := x.(*ast.CallExpr); ok { // dhcpv4.W(v)
		n, ok := u.pkgSel(c.Fun, "dhcpv4", st)
		u.must(ok, x, "unknown call (expected a conversion to a wire type of the library, dhcpv4.W(v))")
		w, ok := h4wires[n]
		u.must(ok && len(c.Args) == 1 && !c.Ellipsis.IsValid(), x, "dhcpv4.%s is not a wire type of the vocabulary", n)
		return u.wireValue(x, n, u.arg(c.Args[0], w[0], st))
	}
	v, name, ok := u.cfgVar(x, st)
	u.must(ok, x, "unrecognised option value")
	wire, ok := h4selfWire[v.kind]
	u.must(ok, x, "configuration variable %s (%s) is not an option value by itself", name, v.kind)
	return u.wireValue(x, wire, v.lean)
}

// addr: an address-valued expression ↦ Lean text; maybeNil = Go name of the variable that may be nil.
func (u *h4) addr(x ast.Expr, st hstate) (lean string, maybeNil string, ok bool) {
	x = u.unparen(x)
	if f, ok := u.field(x, st, "req"); ok {
		switch f {
		case "ServerIPAddr":
			return "req.siaddr", "", true
		case "ClientIPAddr":
			return "req.ciaddr", "", true
		}
		return "", "", false
	}
	if f, ok := u.field(x, st, "resp"); ok {
		switch f {
		case "YourIPAddr":
			return st.resp + ".yiaddr", "", true
		case "ServerIPAddr":
			return st.resp + ".siaddr", "", true
		}
		return "", "", false
	}
	if n, ok := u.pkgSel(x, "net", st); ok && n == "IPv4zero" {
		return "[0, 0, 0, 0]", "", true
	}
	if l, name, ok := u.local(x, st, "optip"); ok {
		return "deref " + l.lean, name, true
	}
	if v, _, ok := u.cfgVar(x, st); ok && v.kind == "ip4" {
		return v.lean, "", true
	}
	return "", "", false
}

// useAddr: addr, with the dominance check for a variable that may be nil.
func (u *h4) useAddr(x ast.Expr, st hstate) string {
	a, mn, ok := u.addr(x, st)
	u.must(ok, x, "not a recognised address")
	if mn != "" {
		u.must(st.nonnil[mn], x, "use of %s is not dominated by a test `%s != nil`", mn, mn)
	}
	return a
}

// num: a number ↦ (Lean text, sort, constant?).  Sorts: op, mt, len, and for constants the prefix expected.
func (u *h4) num(x ast.Expr, st hstate) (lean, sort string, isConst bool) {
	x = u.unparen(x)
	if l, ok := x.(*ast.BasicLit); ok && l.Kind == token.INT {
		v, err := strconv.ParseUint(l.Value, 0, 31)
		u.must(err == nil, x, "unsupported literal")
		return strconv.FormatUint(v, 10), "lit", true
	}
	if f, ok := u.field(x, st, "req"); ok && f == "OpCode" {
		return "req.op", "Opcode", false
	}
	if recv, name, c, ok := u.method(x); ok && name == "MessageType" && len(c.Args) == 0 {
		if _, _, ok := u.local(recv, st, "resp"); ok {
			return st.resp + ".mt", "MessageType", false
		}
	}
	if c, ok := x.(*ast.CallExpr); ok {
		if id, ok := c.Fun.(*ast.Ident); ok && id.Name == "len" && len(c.Args) == 1 && !c.Ellipsis.IsValid() {
			_, shadow := st.vars["len"]
			u.must(!shadow && u.pkgVars["len"] == nil && u.funcs["len"] == nil, x, "the builtin len is redefined")
			v, _, ok := u.cfgVar(c.Args[0], st)
			u.must(ok && (v.kind == "ips" || v.kind == "strs" || v.kind == "routes"), x, "len of something that is not a configured list")
			return v.lean + ".length", "lit", false
		}
	}
	if n, ok := u.pkgSel(x, "dhcpv4", st); ok {
		v, ok := u.consts["dhcpv4."+n]
		u.must(ok, x, "constant dhcpv4.%s not found in dhcpv4/types.go", n)
		switch {
		case strings.HasPrefix(n, "Opcode"):
			return strconv.Itoa(v), "Opcode", true
		case strings.HasPrefix(n, "MessageType"):
			return strconv.Itoa(v), "MessageType", true
		}
		u.fail(x, "constant dhcpv4.%s is neither an opcode nor a message type", n)
	}
	u.fail(x, "not a recognised number (req.OpCode, resp.MessageType(), len(<configured list>), a dhcpv4 constant, an integer literal)")
	return
}

// ------------------------------------------------------------- conditions

func hwrap(e cex, min int) string {
	if e.p < min {
		return "(" + e.s + ")"
	}
	return e.s
}

func hnot(e cex) cex {
	switch e.s {
	case "True":
		return cex{"False", hAtom}
	case "False":
		return cex{"True", hAtom}
	}
	return cex{"¬(" + e.s + ")", hAtom}
}

// facts: the variables known to be non-nil when the condition evaluates to `positive`.
func (u *h4) facts(x ast.Expr, st hstate, positive bool) map[string]bool {
	out := map[string]bool{}
	add := func(m map[string]bool) {
		for k := range m {
			out[k] = true
		}
	}
	switch x := u.unparen(x).(type) {
	case *ast.UnaryExpr:
		if x.Op == token.NOT {
			return u.facts(x.X, st, !positive)
		}
	case *ast.BinaryExpr:
		switch {
		case x.Op == token.LAND && positive, x.Op == token.LOR && !positive:
			add(u.facts(x.X, st, positive))
			add(u.facts(x.Y, st, positive))
		case (x.Op == token.NEQ && positive || x.Op == token.EQL && !positive) && u.isNil(x.Y, st):
			if _, name, ok := u.local(x.X, st, "optip"); ok {
				out[name] = true
			} else if v, name, ok := u.cfgVar(x.X, st); ok && v.kind == "optptr" {
				out[name] = true
			}
		}
	}
	return out
}

func (u *h4) cond(x ast.Expr, st hstate) cex {
	x = u.unparen(x)
	switch x := x.(type) {
	case *ast.UnaryExpr:
		u.must(x.Op == token.NOT, x, "unsupported unary operator %s in a condition", x.Op)
		return hnot(u.cond(x.X, st))
	case *ast.BinaryExpr:
		switch x.Op {
		case token.LAND:
			a := u.cond(x.X, st)
			b := u.cond(x.Y, st.withNonNil(u.facts(x.X, st, true))) // evaluated only if the left operand holds
			return cex{hwrap(a, hAnd+1) + " ∧ " + hwrap(b, hAnd+1), hAnd}
		case token.LOR:
			a := u.cond(x.X, st)
			b := u.cond(x.Y, st.withNonNil(u.facts(x.X, st, false)))
			return cex{hwrap(a, hOr+1) + " ∨ " + hwrap(b, hOr+1), hOr}
		case token.EQL, token.NEQ:
			if u.isNil(x.Y, st) {
				var c cex
				if l, _, ok := u.local(x.X, st, "optip"); ok {
					c = cex{l.lean + ".isSome", hAtom}
				} else if v, _, ok := u.cfgVar(x.X, st); ok && v.kind == "optptr" {
					c = cex{v.lean + ".isSome", hAtom}
				} else if _, mn, ok := u.addr(x.X, st); ok && mn == "" {
					if v, _, isCfg := u.cfgVar(x.X, st); isCfg && v.kind == "ip4" {
						u.fail(x, "nil test of the configured address (only as the first statement `if v == nil { log.Fatal(…); return nil, true }`)")
					}
					if _, isZero := u.pkgSel(x.X, "net", st); isZero {
						u.fail(x, "nil test of a constant")
					}
					c = cex{"True", hAtom} // an address field of a parsed message
				} else {
					u.fail(x, "unrecognised nil test")
				}
				if x.Op == token.EQL {
					return hnot(c)
				}
				return c
			}
			fallthrough
		case token.LSS, token.LEQ, token.GTR, token.GEQ:
			a, sa, ca := u.num(x.X, st)
			b, sb, cb := u.num(x.Y, st)
			u.must(!(ca && cb), x, "comparison of two constants")
			u.must(sa == sb, x, "comparison of a %s with a %s", sa, sb)
			return cex{a + " " + cmpOps[x.Op] + " " + b, hCmp}
		}
		u.fail(x, "unsupported operator %s in a condition", x.Op)
	case *ast.Ident:
		if l, _, ok := u.local(x, st, "bool"); ok {
			return cex{l.lean, hAtom}
		}
		u.fail(x, "not a boolean variable of the handler")
	case *ast.CallExpr:
		recv, name, c, ok := u.method(x)
		u.must(ok, x, "unknown call in a condition")
		switch name {
		case "IsOptionRequested":
			if _, _, ok := u.local(recv, st, "req"); ok && len(c.Args) == 1 && !c.Ellipsis.IsValid() {
				return cex{"Plug.requested4 req " + strconv.Itoa(u.optCode(c.Args[0], st)), hAtom - 1}
			}
		case "Has":
			if f, ok := u.field(recv, st, "resp"); ok && f == "Options" && len(c.Args) == 1 && !c.Ellipsis.IsValid() {
				return cex{"(Plug.lookup " + strconv.Itoa(u.optCode(c.Args[0], st)) + " " + st.resp + ".opts).isSome", hAtom}
			}
		case "Equal":
			if _, _, ok := u.addr(recv, st); ok && len(c.Args) == 1 && !c.Ellipsis.IsValid() {
				return cex{u.useAddr(recv, st) + " = " + u.useAddr(c.Args[0], st), hCmp}
			}
		case "IsUnspecified":
			if _, _, ok := u.addr(recv, st); ok && len(c.Args) == 0 {
				return cex{u.useAddr(recv, st) + " = [0, 0, 0, 0]", hCmp}
			}
		}
		u.fail(x, "unknown call in a condition")
	}
	u.fail(x, "unsupported condition")
	return cex{}
}

// ------------------------------------------------------------------ logging

// pure: an argument of a log call that has no side effect.
func (u *h4) pure(x ast.Expr, st hstate) {
	switch x := x.(type) {
	case *ast.ParenExpr:
		u.pure(x.X, st)
	case *ast.BasicLit, *ast.Ident:
	case *ast.SelectorExpr:
		u.pure(x.X, st)
	case *ast.StarExpr:
		u.pure(x.X, st)
	case *ast.CompositeLit: // logrus.Fields{"k": v}
		n, ok := u.pkgSel(x.Type, "logrus", st)
		u.must(x.Type != nil && ok && n == "Fields", x, "unsupported composite literal in the arguments of a log call (only logrus.Fields{…})")
		for _, e := range x.Elts {
			kv, ok := e.(*ast.KeyValueExpr)
			u.must(ok, e, "expected key: value")
			u.pure(kv.Key, st)
			u.pure(kv.Value, st)
		}
	case *ast.CallExpr:
		if n, ok := u.pkgSel(x.Fun, "fmt", st); ok && n == "Sprintf" {
		} else if recv, name, _, ok := u.method(x); ok && name == "String" && len(x.Args) == 0 {
			u.pure(recv, st)
		} else {
			u.fail(x, "call in the arguments of a log call that is not known to be free of side effects (only fmt.Sprintf, x.String())")
		}
		for _, a := range x.Args {
			u.pure(a, st)
		}
	default:
		u.fail(x, "unsupported expression in the arguments of a log call")
	}
}

// isLogger: x is the package-level `log`.
func (u *h4) isLogger(x ast.Expr, st hstate) bool {
	id, ok := x.(*ast.Ident)
	if !ok || id.Name != "log" {
		return false
	}
	if _, shadow := st.vars["log"]; shadow || u.cfg["log"] != nil {
		return false
	}
	v := u.pkgVars["log"]
	if v == nil || len(v.Names) != len(v.Values) {
		return false
	}
	for i, n := range v.Names {
		if n.Name == "log" {
			c, ok := v.Values[i].(*ast.CallExpr)
			if !ok {
				return false
			}
			fn, ok := u.pkgSel(c.Fun, "logger", st)
			return ok && fn == "GetLogger"
		}
	}
	return false
}

// logCall: `log.<Level>(…)` or `log.WithFields(…).<Level>(…)`; level = the method.
func (u *h4) logCall(s ast.Stmt, st hstate) (level string, ok bool) {
	e, ok := s.(*ast.ExprStmt)
	if !ok {
		return "", false
	}
	recv, name, c, ok := u.method(e.X)
	if !ok {
		return "", false
	}
	if u.isLogger(recv, st) {
		for _, a := range c.Args {
			u.pure(a, st)
		}
		return name, true
	}
	if r2, n2, c2, ok := u.method(recv); ok && n2 == "WithFields" && u.isLogger(r2, st) {
		for _, a := range append(append([]ast.Expr{}, c2.Args...), c.Args...) {
			u.pure(a, st)
		}
		return name, true
	}
	return "", false
}

func (u *h4) isLog(s ast.Stmt, st hstate) bool {
	level, ok := u.logCall(s, st)
	if !ok {
		return false
	}
	u.must(h4logLevels[level], s, "log.%s is not a plain log statement", level)
	return true
}

// ---------------------------------------------------------------- statements

func hasReturn(n ast.Node) bool {
	found := false
	ast.Inspect(n, func(n ast.Node) bool {
		if _, ok := n.(*ast.ReturnStmt); ok {
			found = true
		}
		_, lit := n.(*ast.FuncLit)
		return !lit
	})
	return found
}

func (u *h4) freshName(id *ast.Ident, st hstate) {
	u.must(id.Name != "_", id, "blank identifier unsupported here")
	_, isPkg := u.imports[id.Name]
	_, isLocal := st.vars[id.Name]
	u.must(!isPkg && !isLocal && u.cfg[id.Name] == nil && u.pkgVars[id.Name] == nil && u.funcs[id.Name] == nil &&
		!set("nil", "true", "false", "len", "make", "copy", "append", "new")[id.Name], id,
		"variable name clashes with a name that already has a meaning (package, package-level name, local, builtin)")
}

// define: `x := e` / `x, y := e` for the defining expressions of the vocabulary.
func (u *h4) define(a *ast.AssignStmt, st hstate, depth int) ([]string, hstate, bool) {
	if a.Tok != token.DEFINE || len(a.Rhs) != 1 {
		return nil, st, false
	}
	var ids []*ast.Ident
	for _, l := range a.Lhs {
		id, ok := l.(*ast.Ident)
		if !ok {
			return nil, st, false
		}
		ids = append(ids, id)
	}
	rhs := u.unparen(a.Rhs[0])
	if b, ok := u.boolLit(rhs, st); ok && len(ids) == 1 { // v := false
		u.freshName(ids[0], st)
		u.nb++
		n := "b" + strconv.Itoa(u.nb)
		return []string{"let " + n + " := " + b}, st.withVar(ids[0].Name, hlocal{"bool", n}), true
	}
	recv, name, c, ok := u.method(rhs)
	if !ok || len(c.Args) != 0 {
		return nil, st, false
	}
	if _, _, ok := u.local(recv, st, "req"); !ok {
		return nil, st, false
	}
	switch {
	case name == "ServerIdentifier" && len(ids) == 1:
		u.freshName(ids[0], st)
		u.ns++
		n := "s" + strconv.Itoa(u.ns)
		return []string{"let " + n + " := Plug.serverid4.sid54 req"}, st.withVar(ids[0].Name, hlocal{"optip", n}), true
	case name == "AutoConfigure" && len(ids) == 2:
		u.must(ids[1].Name != "_", a, "the second result of req.AutoConfigure() is not used")
		if ids[0].Name != "_" {
			u.freshName(ids[0], st)
			st = st.withVar(ids[0].Name, hlocal{"opaque", ""})
		}
		u.freshName(ids[1], st)
		u.nb++
		n := "b" + strconv.Itoa(u.nb)
		return []string{"let " + n + " := Plug.autoconfigure.clientSent req"}, st.withVar(ids[1].Name, hlocal{"bool", n}), true
	}
	return nil, st, false
}

// searchLoop: for _, o := range req.ParameterRequestList() { if o.Code() == c.Code() { v = true } }
func (u *h4) searchLoop(r *ast.RangeStmt, st hstate, depth int) ([]string, hstate) {
	shape := "expected `for _, o := range req.ParameterRequestList() { if o.Code() == <option>.Code() { v = true } }`"
	u.must(depth == 0, r, "loop inside a nested block unsupported")
	o, ok := r.Value.(*ast.Ident)
	u.must(ok && r.Tok == token.DEFINE && (r.Key == nil || u.src(r.Key) == "_") && len(r.Body.List) == 1, r, shape)
	u.freshName(o, st)
	recv, name, c, ok := u.method(r.X)
	u.must(ok && name == "ParameterRequestList" && len(c.Args) == 0, r.X, shape)
	_, _, ok = u.local(recv, st, "req")
	u.must(ok, r.X, shape)
	i, ok := r.Body.List[0].(*ast.IfStmt)
	u.must(ok && i.Init == nil && i.Else == nil && len(i.Body.List) == 1, r.Body, shape)
	cmp, ok := u.unparen(i.Cond).(*ast.BinaryExpr)
	u.must(ok && cmp.Op == token.EQL, i.Cond, shape)
	in := st.withVar(o.Name, hlocal{"elem", ""})
	side := func(x ast.Expr) (elem bool, code int) { // o.Code() | <option>.Code()
		recv, name, c, ok := u.method(x)
		u.must(ok && name == "Code" && len(c.Args) == 0, x, shape)
		if _, _, ok := u.local(recv, in, "elem"); ok {
			return true, 0
		}
		return false, u.optCode(recv, in)
	}
	e1, c1 := side(cmp.X)
	e2, c2 := side(cmp.Y)
	u.must(e1 != e2, i.Cond, shape)
	a, ok := i.Body.List[0].(*ast.AssignStmt)
	u.must(ok && a.Tok == token.ASSIGN && len(a.Lhs) == 1 && len(a.Rhs) == 1, i.Body, shape)
	l, vname, ok := u.local(a.Lhs[0], in, "bool")
	u.must(ok, a, shape)
	b, ok := u.boolLit(a.Rhs[0], in)
	u.must(ok && b == "true", a, shape)
	u.nb++
	n := "b" + strconv.Itoa(u.nb)
	return []string{"let " + n + " := " + l.lean + " || Plug.listed4 req " + strconv.Itoa(c1+c2)}, st.withVar(vname, hlocal{"bool", n})
}

// update: resp.Options.Update(o) / resp.UpdateOption(o)
func (u *h4) update(s ast.Stmt, st hstate) ([]string, hstate, bool) {
	e, ok := s.(*ast.ExprStmt)
	if !ok {
		return nil, st, false
	}
	recv, name, c, ok := u.method(e.X)
	if !ok {
		return nil, st, false
	}
	isUpd := false
	if f, ok := u.field(recv, st, "resp"); ok && f == "Options" && name == "Update" {
		isUpd = true
	} else if _, _, ok := u.local(recv, st, "resp"); ok && name == "UpdateOption" {
		isUpd = true
	}
	if !isUpd {
		return nil, st, false
	}
	u.must(len(c.Args) == 1 && !c.Ellipsis.IsValid(), c, "expected one argument")
	code, val := u.option(c.Args[0], st)
	u.must(code != 53, c, "update of option 53: the model keeps the message type of the response in a field of its own")
	u.nr++
	n := "r" + strconv.Itoa(u.nr)
	line := "let " + n + " := " + st.resp + ".update " + strconv.Itoa(code) + " " + val
	st.resp = n
	return []string{line}, st, true
}

// setSiaddr: resp.ServerIPAddr = make(net.IP, net.IPv4len); copy(resp.ServerIPAddr[:], a)
func (u *h4) setSiaddr(s, next ast.Stmt, st hstate) ([]string, hstate, bool) {
	a, ok := s.(*ast.AssignStmt)
	if !ok || a.Tok != token.ASSIGN || len(a.Lhs) != 1 || len(a.Rhs) != 1 {
		return nil, st, false
	}
	if f, ok := u.field(a.Lhs[0], st, "resp"); !ok || f != "ServerIPAddr" {
		return nil, st, false
	}
	shape := "expected `resp.ServerIPAddr = make(net.IP, net.IPv4len)` directly followed by `copy(resp.ServerIPAddr[:], <address>)`"
	mk, ok := u.unparen(a.Rhs[0]).(*ast.CallExpr)
	u.must(ok && u.src(mk.Fun) == "make" && len(mk.Args) == 2, a, shape)
	t, ok1 := u.pkgSel(mk.Args[0], "net", st)
	l, ok2 := u.pkgSel(mk.Args[1], "net", st)
	_, shadow := st.vars["make"]
	_, shadow2 := st.vars["copy"]
	u.must(ok1 && ok2 && t == "IP" && l == "IPv4len" && !shadow && !shadow2 && u.funcs["make"] == nil && u.funcs["copy"] == nil, a, shape)
	u.must(next != nil, a, shape)
	e, ok := next.(*ast.ExprStmt)
	u.must(ok, next, shape)
	cp, ok := e.X.(*ast.CallExpr)
	u.must(ok && u.src(cp.Fun) == "copy" && len(cp.Args) == 2 && !cp.Ellipsis.IsValid(), next, shape)
	dst := u.unparen(cp.Args[0])
	if sl, ok := dst.(*ast.SliceExpr); ok {
		u.must(sl.Low == nil && sl.High == nil && !sl.Slice3, dst, shape)
		dst = sl.X
	}
	f, ok := u.field(dst, st, "resp")
	u.must(ok && f == "ServerIPAddr", next, shape)
	src := u.useAddr(cp.Args[1], st)
	u.nr++
	n := "r" + strconv.Itoa(u.nr)
	line := "let " + n + " := { " + st.resp + " with siaddr := " + src + " }"
	st.resp = n
	return []string{line}, st, true
}

func (u *h4) ret(r *ast.ReturnStmt, st hstate) string {
	u.must(len(r.Results) == 2, r, "return must have two results")
	var first string
	if u.isNil(r.Results[0], st) {
		first = "none"
	} else if _, _, ok := u.local(r.Results[0], st, "resp"); ok {
		first = "some " + st.resp
	} else {
		u.fail(r.Results[0], "the first result must be the response parameter or nil")
	}
	b, ok := u.boolLit(r.Results[1], st)
	u.must(ok, r.Results[1], "the second result must be true or false")
	return "(" + first + ", " + b + ")"
}

func joinLines(lines []string, last string) string {
	return strings.Join(append(append([]string{}, lines...), last), "\n")
}

// straight translates a statement list without return into `let` lines.
func (u *h4) straight(list []ast.Stmt, st hstate, depth int) ([]string, hstate) {
	var out []string
	for i := 0; i < len(list); i++ {
		s := list[i]
		var next ast.Stmt
		if i+1 < len(list) {
			next = list[i+1]
		}
		if lines, st2, ok := u.setSiaddr(s, next, st); ok {
			out, st = append(out, lines...), st2
			i++
			continue
		}
		lines, st2 := u.simple(s, st, depth)
		out, st = append(out, lines...), st2
	}
	return out, st
}

// branchExpr: the response after a block without return, as one Lean term.
func (u *h4) branchExpr(list []ast.Stmt, st hstate, depth int) string {
	lines, st2 := u.straight(list, st, depth)
	if len(lines) == 1 && strings.HasPrefix(lines[0], "let "+st2.resp+" := ") { // a single effect: no `let`
		return strings.TrimPrefix(lines[0], "let "+st2.resp+" := ")
	}
	return joinLines(lines, st2.resp)
}

// initOf: the init statement of an `if` (`x := <defining expression>`).
func (u *h4) initOf(i *ast.IfStmt, st hstate, depth int) ([]string, hstate) {
	if i.Init == nil {
		return nil, st
	}
	a, ok := i.Init.(*ast.AssignStmt)
	u.must(ok, i.Init, "unsupported init statement")
	lines, st2, ok := u.define(a, st, depth)
	u.must(ok, i.Init, "unsupported init statement (not a defining expression of the vocabulary)")
	return lines, st2
}

// simple: one statement that is not a return and contains none.
func (u *h4) simple(s ast.Stmt, st hstate, depth int) ([]string, hstate) {
	if lines, st2, ok := u.update(s, st); ok {
		return lines, st2
	}
	if u.isLog(s, st) {
		return nil, st
	}
	switch s := s.(type) {
	case *ast.ExprStmt: // time.Sleep(cfg)
		if c, ok := s.X.(*ast.CallExpr); ok && u.spec.sleep {
			if n, ok := u.pkgSel(c.Fun, "time", st); ok && n == "Sleep" && len(c.Args) == 1 && !c.Ellipsis.IsValid() {
				u.arg(c.Args[0], "dur", st)
				return nil, st
			}
		}
	case *ast.AssignStmt:
		if lines, st2, ok := u.define(s, st, depth); ok {
			u.must(depth == 0, s, "variable declaration inside a nested block unsupported")
			return lines, st2
		}
	case *ast.RangeStmt:
		return u.searchLoop(s, st, depth)
	case *ast.IfStmt: // no return inside: the response after it is `if c then … else …`
		u.must(!hasReturn(s), s, "internal: if with a return in straight-line code")
		lines, in := u.initOf(s, st, depth)
		c := u.cond(s.Cond, in)
		then := u.branchExpr(s.Body.List, in.withNonNil(u.facts(s.Cond, in, true)), depth+1)
		inElse := in.withNonNil(u.facts(s.Cond, in, false))
		var els string
		switch b := s.Else.(type) {
		case nil:
			els = in.resp
		case *ast.BlockStmt:
			els = u.branchExpr(b.List, inElse, depth+1)
		case *ast.IfStmt:
			els = u.branchExpr([]ast.Stmt{b}, inElse, depth+1)
		default:
			u.fail(s.Else, "unsupported else")
		}
		u.nr++
		n := "r" + strconv.Itoa(u.nr)
		var line string
		if strings.Contains(then, "\n") || strings.Contains(els, "\n") {
			line = "let " + n + " :=\n" + indent("if "+c.s+" then\n"+indent(then)+"\nelse\n"+indent(els))
		} else {
			line = "let " + n + " := if " + c.s + " then " + then + " else " + els
		}
		st.resp = n // the variables and the facts of the branches end with them
		return append(lines, line), st
	}
	u.fail(s, "unsupported statement in a handler of unit handlers4")
	return nil, st
}

// assumedGuard: `if v == nil { log.Fatal(…); return nil, true }`, v the configured address, first statement.
func (u *h4) assumedGuard(s ast.Stmt, st hstate) bool {
	i, ok := s.(*ast.IfStmt)
	if !ok || i.Init != nil || i.Else != nil || len(i.Body.List) != 2 {
		return false
	}
	c, ok := u.unparen(i.Cond).(*ast.BinaryExpr)
	if !ok || c.Op != token.EQL || !u.isNil(c.Y, st) {
		return false
	}
	v, name, ok := u.cfgVar(c.X, st)
	if !ok || v.kind != "ip4" {
		return false
	}
	level, ok := u.logCall(i.Body.List[0], st)
	if !ok || level != "Fatal" {
		return false
	}
	r, ok := i.Body.List[1].(*ast.ReturnStmt)
	if !ok || u.ret(r, st) != "(none, true)" {
		return false
	}
	u.must(len(u.top) > 0 && u.top[0] == s, s, "the guard `if %s == nil { log.Fatal(…) … }` must be the first statement of the handler", name)
	u.assumed = append(u.assumed, name+" != nil (the plugin was set up; otherwise log.Fatal ends the process)")
	return true
}

// block translates a statement list; k yields the translation of what follows it.
func (u *h4) block(list []ast.Stmt, st hstate, depth int, k func(hstate) string) string {
	for i := 0; i < len(list); i++ {
		s := list[i]
		rest := list[i+1:]
		if r, ok := s.(*ast.ReturnStmt); ok {
			u.must(len(rest) == 0, s, "unreachable statement after return")
			return u.ret(r, st)
		}
		if u.assumedGuard(s, st) {
			continue
		}
		ifs, isIf := s.(*ast.IfStmt)
		if !isIf || !hasReturn(ifs) {
			u.must(!hasReturn(s), s, "return inside a statement that is not an if")
			var lines []string
			if i+1 < len(list) {
				if l, st2, ok := u.setSiaddr(s, list[i+1], st); ok {
					lines, st = l, st2
					i++
					return joinLines(lines, u.block(list[i+1:], st, depth, k))
				}
			}
			lines, st = u.simple(s, st, depth)
			return joinLines(lines, u.block(rest, st, depth, k))
		}
		// an `if` with a return inside: the rest of the block is the continuation of every path that falls through
		outer := st
		lines, in := u.initOf(ifs, st, depth)
		var chain func(i *ast.IfStmt, in hstate) string
		chain = func(i *ast.IfStmt, in hstate) string {
			c := u.cond(i.Cond, in)
			after := func(extra map[string]bool) func(hstate) string {
				return func(end hstate) string { // back in the enclosing block: its variables, its facts, the new response
					next := outer.withNonNil(extra)
					next.resp = end.resp
					return u.block(rest, next, depth, k)
				}
			}
			then := u.block(i.Body.List, in.withNonNil(u.facts(i.Cond, in, true)), depth+1, after(nil))
			neg := u.facts(i.Cond, in, false)
			inElse := in.withNonNil(neg)
			var els string
			switch b := i.Else.(type) {
			case nil:
				els = after(neg)(inElse)
			case *ast.BlockStmt:
				els = u.block(b.List, inElse, depth+1, after(nil))
			case *ast.IfStmt:
				u.must(b.Init == nil, b, "init statement in an else-if unsupported")
				els = chain(b, inElse)
			default:
				u.fail(i.Else, "unsupported else")
			}
			return ite(c.s, then, els)
		}
		return joinLines(lines, chain(ifs, in))
	}
	return k(st)
}

// -------------------------------------------------------------- one plugin

// optPtrCode: the code of the option `setup4` stores in the configured pointer `name`:
// every assignment to it in the file is `name = &v` inside setup4, every assignment to v there is
// `v = dhcpv4.OptX(…)` with one and the same code.
func (u *h4) optPtrCode(file *ast.File, name string) int {
	setup := u.funcs["setup4"]
	u.must(setup != nil && setup.Body != nil, file.Name, "function setup4 not found (needed for the code of *%s)", name)
	inSetup := func(n ast.Node) bool { return n.Pos() >= setup.Body.Pos() && n.End() <= setup.Body.End() }
	holders := map[string]bool{}
	ast.Inspect(file, func(n ast.Node) bool {
		switch n := n.(type) {
		case *ast.AssignStmt:
			for i, l := range n.Lhs {
				if id, ok := l.(*ast.Ident); ok && id.Name == name {
					u.must(inSetup(n) && n.Tok == token.ASSIGN && len(n.Lhs) == len(n.Rhs), n, "assignment to %s outside setup4, or of an unsupported form", name)
					un, ok := n.Rhs[i].(*ast.UnaryExpr)
					u.must(ok && un.Op == token.AND, n, "expected %s = &v", name)
					v, ok := un.X.(*ast.Ident)
					u.must(ok, n, "expected %s = &v", name)
					holders[v.Name] = true
				}
			}
		case *ast.UnaryExpr:
			if id, ok := n.X.(*ast.Ident); ok && n.Op == token.AND && id.Name == name {
				u.fail(n, "the address of %s is taken", name)
			}
		case *ast.IncDecStmt:
			if id, ok := n.X.(*ast.Ident); ok && id.Name == name {
				u.fail(n, "unsupported statement on %s", name)
			}
		}
		return true
	})
	u.must(len(holders) > 0, setup.Name, "setup4 never assigns %s", name)
	code := -1
	ast.Inspect(setup.Body, func(n ast.Node) bool {
		a, ok := n.(*ast.AssignStmt)
		if !ok {
			return true
		}
		for i, l := range a.Lhs {
			id, ok := l.(*ast.Ident)
			if !ok || !holders[id.Name] {
				continue
			}
			u.must(a.Tok == token.ASSIGN && len(a.Lhs) == len(a.Rhs), a, "unsupported assignment to %s (the value %s points to)", id.Name, name)
			c, ok := a.Rhs[i].(*ast.CallExpr)
			u.must(ok, a, "expected %s = dhcpv4.OptX(…)", id.Name)
			fn, ok := u.pkgSel(c.Fun, "dhcpv4", hstate{})
			u.must(ok, a, "expected %s = dhcpv4.OptX(…)", id.Name)
			ct, ok := u.ctors[fn]
			u.must(ok, a, "dhcpv4.%s is not an option constructor of the library", fn)
			v, ok := u.consts[ct.code]
			u.must(ok, a, "constant %s not found in dhcpv4/types.go", ct.code)
			u.must(ct.wire == "String", a, "dhcpv4.%s does not build a string option", fn)
			u.must(code < 0 || code == v, a, "%s is given options of different codes (%d, %d)", name, code, v)
			code = v
		}
		return true
	})
	u.must(code >= 0, setup.Name, "setup4 never gives the value %s points to an option", name)
	return code
}

func (u *h4) plugin(path string) string {
	file, err := parser.ParseFile(u.fset, path, nil, parser.SkipObjectResolution)
	if err != nil {
		fmt.Fprintln(os.Stderr, "gen: parse:", err)
		os.Exit(2)
	}
	u.imports, u.pkgVars, u.funcs, u.cfg = map[string]string{}, map[string]*ast.ValueSpec{}, map[string]*ast.FuncDecl{}, map[string]*h4var{}
	u.nr, u.nb, u.ns, u.assumed, u.copyOK = 0, 0, 0, nil, false
	for _, im := range file.Imports {
		p, _ := strconv.Unquote(im.Path.Value)
		name := filepath.Base(p)
		if im.Name != nil {
			name = im.Name.Name
		}
		u.imports[name] = p
		if want, ok := h4pkgs[name]; ok {
			u.must(p == want, im, "package name %s stands for %s in the vocabulary", name, want)
		}
	}
	for _, d := range file.Decls {
		switch d := d.(type) {
		case *ast.FuncDecl:
			if d.Recv == nil {
				u.must(u.funcs[d.Name.Name] == nil, d.Name, "function declared twice")
				u.funcs[d.Name.Name] = d
			}
		case *ast.GenDecl:
			if d.Tok != token.VAR && d.Tok != token.CONST {
				continue
			}
			for _, sp := range d.Specs {
				v := sp.(*ast.ValueSpec)
				for _, n := range v.Names {
					u.pkgVars[n.Name] = v
				}
			}
		}
	}
	f := u.funcs[u.spec.fn]
	u.must(f != nil && f.Body != nil, file.Name, "function %s not found in %s", u.spec.fn, path)
	ft, body := f.Type, f.Body
	var params []string
	if u.spec.closure { // func makeX(cfg T) handler.Handler4 { return func(req, resp …) … { … } }
		u.must(len(ft.Params.List) == 1 && len(ft.Params.List[0].Names) == 1 && len(body.List) == 1, f.Name, "expected a function with one parameter and a single return statement")
		p := ft.Params.List[0]
		k, ok := h4kinds[u.src(p.Type)]
		u.must(ok, p.Type, "unsupported type of the configuration parameter")
		u.must(p.Names[0].Name != "_", p, "unnamed configuration parameter")
		u.cfg[p.Names[0].Name] = &h4var{lean: u.spec.cfg[0].lean, kind: k[0]}
		params = append(params, "("+u.spec.cfg[0].lean+" : "+k[1]+")")
		r, ok := body.List[0].(*ast.ReturnStmt)
		u.must(ok && len(r.Results) == 1, body.List[0], "expected `return func(req, resp *dhcpv4.DHCPv4) (*dhcpv4.DHCPv4, bool) { … }`")
		lit, ok := r.Results[0].(*ast.FuncLit)
		u.must(ok, r.Results[0], "expected `return func(req, resp *dhcpv4.DHCPv4) (*dhcpv4.DHCPv4, bool) { … }`")
		ft, body = lit.Type, lit.Body
	} else {
		for _, c := range u.spec.cfg {
			v := u.pkgVars[c.goName]
			u.must(v != nil && v.Type != nil, f.Name, "package-level variable %s with an explicit type not found", c.goName)
			k, ok := h4kinds[u.src(v.Type)]
			u.must(ok, v.Type, "unsupported type of configuration variable %s", c.goName)
			u.cfg[c.goName] = &h4var{lean: c.lean, kind: k[0]}
			params = append(params, "("+c.lean+" : "+k[1]+")")
		}
		for _, c := range u.spec.cfg {
			if u.cfg[c.goName].kind == "optptr" {
				u.cfg[c.goName].code = u.optPtrCode(file, c.goName)
			}
		}
	}
	// func(req, resp *dhcpv4.DHCPv4) (*dhcpv4.DHCPv4, bool)
	var names []*ast.Ident
	for _, p := range ft.Params.List {
		u.must(u.src(p.Type) == "*dhcpv4.DHCPv4", p.Type, "parameter type must be *dhcpv4.DHCPv4")
		names = append(names, p.Names...)
	}
	u.must(f.Recv == nil && ft.TypeParams == nil && len(names) == 2 && ft.Results != nil && len(ft.Results.List) == 2 &&
		len(ft.Results.List[0].Names) == 0 && len(ft.Results.List[1].Names) == 0 &&
		u.src(ft.Results.List[0].Type) == "*dhcpv4.DHCPv4" && u.src(ft.Results.List[1].Type) == "bool",
		f.Name, "expected func(req, resp *dhcpv4.DHCPv4) (*dhcpv4.DHCPv4, bool)")
	u.must(u.imports["dhcpv4"] == h4pkgs["dhcpv4"], f.Name, "the file does not import %s as dhcpv4", h4pkgs["dhcpv4"])
	st := hstate{resp: "pre", vars: map[string]hlocal{}, nonnil: map[string]bool{}}
	for i, role := range []string{"req", "resp"} {
		if names[i].Name != "_" {
			u.freshName(names[i], st)
			st = st.withVar(names[i].Name, hlocal{role, ""})
		}
	}
	u.top = body.List
	text := u.block(body.List, st, 0, func(hstate) string {
		u.fail(f.Name, "control reaches the end of the handler without a return")
		return ""
	})
	rel := strings.TrimPrefix(path, "/repo/")
	var cfgDoc []string
	for _, c := range u.spec.cfg {
		if c.goName == "" {
			cfgDoc = append(cfgDoc, "`"+c.lean+"` = the parameter of "+u.spec.fn)
		} else {
			cfgDoc = append(cfgDoc, "`"+c.lean+"` = `"+c.goName+"`")
		}
	}
	doc := "`" + u.spec.fn + "` (" + rel + "), translated from its go/ast; " + strings.Join(cfgDoc, ", ") + ".\nModel: `" + u.spec.model + "`."
	for _, a := range u.assumed {
		doc += "\nAssumed (guard of the source not translated): " + a + "."
	}
	return def(doc, u.spec.name+" "+strings.Join(params, " ")+" (req : Plug.ReqView4) (pre : Plug.Resp4) : Plug.Out4", text)
}

// ------------------------------------------------------------ the library

// readCtors: `func OptX(p T) Option { return Option{Code: OptionX, Value: W(p) | p} }` of one library file.
func (u *h4) readCtors(path string) {
	file, err := parser.ParseFile(u.fset, path, nil, parser.SkipObjectResolution)
	if err != nil {
		fmt.Fprintln(os.Stderr, "gen: parse:", err)
		os.Exit(2)
	}
	for _, d := range file.Decls {
		f, ok := d.(*ast.FuncDecl)
		if !ok || f.Recv != nil || f.Body == nil || !strings.HasPrefix(f.Name.Name, "Opt") || len(f.Body.List) != 1 ||
			f.Type.Results == nil || len(f.Type.Results.List) != 1 || u.src(f.Type.Results.List[0].Type) != "Option" ||
			len(f.Type.Params.List) != 1 || len(f.Type.Params.List[0].Names) != 1 {
			continue
		}
		r, ok := f.Body.List[0].(*ast.ReturnStmt)
		if !ok || len(r.Results) != 1 {
			continue
		}
		cl, ok := r.Results[0].(*ast.CompositeLit)
		if !ok || cl.Type == nil || u.src(cl.Type) != "Option" || len(cl.Elts) != 2 {
			continue
		}
		p := f.Type.Params.List[0]
		pname := p.Names[0].Name
		ptype := p.Type
		ct := h4ctor{}
		if e, ok := ptype.(*ast.Ellipsis); ok {
			ct.variadic = true
			ptype = e.Elt
		}
		good := true
		for _, e := range cl.Elts {
			kv, ok := e.(*ast.KeyValueExpr)
			if !ok {
				good = false
				break
			}
			switch u.src(kv.Key) {
			case "Code":
				id, ok := kv.Value.(*ast.Ident)
				good = good && ok
				if ok {
					ct.code = "dhcpv4." + id.Name
				}
			case "Value":
				switch v := kv.Value.(type) {
				case *ast.Ident: // the parameter itself: its type is the wire type
					good = good && v.Name == pname && !ct.variadic
					ct.wire = u.src(ptype)
				case *ast.CallExpr: // W(p)
					w, ok := v.Fun.(*ast.Ident)
					good = good && ok && len(v.Args) == 1 && u.src(v.Args[0]) == pname
					if ok {
						ct.wire = w.Name
					}
				default:
					good = false
				}
			default:
				good = false
			}
		}
		if good && ct.code != "" && ct.wire != "" {
			u.ctors[f.Name.Name] = ct
		}
	}
}

const gen5Header = `-- GENERATED by harness gen -unit handlers4 — do not edit
-- Regenerated on every run from the go/ast of the Handler4 functions of the option plugins below
-- /repo/plugins (one definition per plugin, see its doc comment for the file); Props/GenHandlers4.lean
-- proves every definition equal to the hand-written model in Model/OptPlug.lean.
-- Option codes, opcodes and message types are numbers read from the library source (dhcpv4/types.go);
-- for dhcpv4.OptX(v) the code and the wire type come from the body of the library function.
import CoreDhcp.Model.OptPlug
set_option linter.unusedVariables false
namespace CoreDhcp.GenH4

/-! Fixed vocabulary (not derived from the source; the table is in the header of gen5.go):
req.IsOptionRequested(c) ↦ Plug.requested4 req c · resp.Options.Has(c) ↦ (Plug.lookup c r.opts).isSome ·
resp.Options.Update(o) / resp.UpdateOption(o) ↦ r.update code value (a new rK each time) ·
req.OpCode ↦ req.op · resp.MessageType() ↦ r.mt · address fields ↦ req.siaddr, r.yiaddr, … (never nil) ·
a.Equal(b) ↦ a = b · a.IsUnspecified() ↦ a = [0,0,0,0] · net.IPv4zero ↦ [0,0,0,0] ·
req.ServerIdentifier() ↦ Plug.serverid4.sid54 req · second result of req.AutoConfigure() ↦ Plug.autoconfigure.clientSent req ·
the loop over req.ParameterRequestList() ↦ Plug.listed4 · wire types IPs / Duration / Uint16 / Routes / Labels ↦
Plug.encIPs / encSecs / encU16 / encRoutes / encLabels, IP / IPMask ↦ the bytes, AutoConfiguration ↦ one byte ·
log statements and time.Sleep ↦ nothing. -/

/-- ` + "`*p`" + ` of a configured ` + "`*dhcpv4.Option`" + `, and the address in a ` + "`net.IP`" + ` that may be nil: the translator accepts
the use only where a test ` + "`p != nil`" + ` dominates it, so the value for ` + "`none`" + ` is never looked at. -/
def deref (o : Option Plug.Bytes) : Plug.Bytes := o.getD []

`

func runGen5(srcArg, outPath, lib string) {
	die := func(a ...interface{}) {
		fmt.Fprintln(os.Stderr, append([]interface{}{"gen:"}, a...)...)
		os.Exit(2)
	}
	override := map[string]string{}
	if srcArg != "" { // plugin=file.go[,plugin=file.go…]
		for _, kv := range strings.Split(srcArg, ",") {
			p := strings.SplitN(kv, "=", 2)
			known := false
			for _, s := range h4specs {
				known = known || s.name == p[0]
			}
			if len(p) != 2 || !known || override[p[0]] != "" {
				die("-src for unit handlers4 is plugin=file.go[,plugin=file.go…]; plugins:", h4names())
			}
			override[p[0]] = p[1]
		}
	}
	u := &h4{gen: &gen{fset: token.NewFileSet()}, consts: map[string]int{}, ctors: map[string]h4ctor{}}
	d := &dunit{gen: u.gen, consts: u.consts}
	d.readConsts(filepath.Join(lib, "dhcpv4/types.go"), "dhcpv4")
	libFiles, err := filepath.Glob(filepath.Join(lib, "dhcpv4", "option_*.go"))
	if err != nil || len(libFiles) == 0 {
		die("no dhcpv4/option_*.go below", lib)
	}
	sort.Strings(libFiles)
	for _, f := range libFiles {
		if !strings.HasSuffix(f, "_test.go") {
			u.readCtors(f)
		}
	}
	out := gen5Header
	var from []string
	for _, spec := range h4specs {
		u.spec = spec
		path := spec.src
		if o := override[spec.name]; o != "" {
			path = o
		}
		out += u.plugin(path)
		from = append(from, path)
	}
	out += "end CoreDhcp.GenH4\n"
	if err := os.WriteFile(outPath, []byte(out), 0o644); err != nil {
		die(err)
	}
	fmt.Printf("gen: wrote %s (%d bytes) from %d plugin files\n", outPath, len(out), len(from))
	for name, p := range override {
		fmt.Printf("gen: %s read from %s\n", name, p)
	}
}

func h4names() string {
	var n []string
	for _, s := range h4specs {
		n = append(n, s.name)
	}
	return strings.Join(n, " ")
}
