// gen16.go — `harness gen -unit serveloop`: the receive side of server/handle.go regenerated as Lean
// definitions (namespace CoreDhcp.GenServeLoop, file CoreDhcp/Generated/ServeLoop.lean) from its go/ast:
//
//	var <pool> = sync.Pool{New: func() interface{} { r := make([]byte, <C>); return &r }}   ↦ maxDatagram, poolNew
//	func (l *T) Serve() error { …; for { … } }        (two of them)                          ↦ iter6, iter4
//	the head of the method each loop spawns (`go l.M(b[:n], oob, peer)`): from the top of M
//	through the last statement that mentions its buffer parameter or the pool                 ↦ head6, head4
//	                                                                                          ↦ code (the four together)
//
// Props/GenServeLoop.lean proves the generated definitions equal to the model (Model/ServeLoop.lean: `ServeLoop.iter`,
// `ServeLoop.handlerHead`, `ServeLoop.poolNew`).
//
// The translator goes through the functions statement by statement, knows ONLY the constructs listed below, and
// fails loudly (source position, exit code 2) on everything else.  Nothing is looked up by a local name: the pool
// is THE package-level variable initialised with a `sync.Pool{…}` literal, the constant is the one `New` gives to
// `make`, the loops are the methods called `Serve`, a handler is the method its loop spawns, and the family
// (6 / 4) of a loop and of its handler is the package of the parser the handler calls (`dhcpv6.FromBytes` /
// `dhcpv4.FromBytes`).  Go names never reach the generated text.
//
// THE LOOP — `func (l *T) Serve() error`: log statements, then `for { body }` (no init / condition / post, nothing
// after it).  The body is run symbolically; the inputs of the generated definition are `taken : Item` (what
// `Get` returned) and `r : Read` (the four results of `ReadFrom`); its value is `.panic` or `.ran <the buffer value
// ReadFrom was called on> <how the iteration ends>`:
//
//	Go (in the loop body)                            Lean
//	-----------------------------------------------  -------------------------------------------------------------
//	b := *<pool>.Get().(*[]byte)                      if taken.kind ≠ .ptr then .panic else let b1 : Buf := taken.buf
//	b := <pool>.Get().([]byte)                        if taken.kind ≠ .slice then .panic else let b1 : Buf := taken.buf
//	   `:=` directly in the loop body, once           (the variable is a new one in every iteration)
//	b = b[:<C>]                                       let b2 : Buf := { b1 with len := maxDatagram }
//	n, oob, peer, err := l.ReadFrom(b)                the buffer value b has HERE is the first argument of `.ran`;
//	   `:=` directly in the loop body, once, l the    n ↦ r.n · oob ↦ r.oob · peer ↦ r.peer · err ↦ r.err
//	   receiver, all four named
//	errors.Is(err, net.ErrClosed)                     r.err = .closed
//	err != nil · err == nil                           r.err ≠ .none · r.err = .none
//	if c { … } else if c' { … } else { … }            if c then … else …   (what follows is copied into the branches
//	                                                  that do not end)
//	return nil · return err                           .exit .nil · .exit .err    (only after the read)
//	go l.M(b[:n], oob, peer.(*net.UDPAddr))           .spawn ⟨.v<fam of M>, bK.id, r.n, r.oob, r.peer⟩
//	   a `go` statement whose call is DIRECTLY the method M of the receiver (a function literal is refused: it
//	   would capture variables instead of copying values); M is declared on *T in this file; first argument
//	   `b` (↦ upto = bK.len), `b[:n]`, `b[:n+k]` (↦ r.n + k), `b[:<C>]`; second `oob`; third `peer` or
//	   `peer.(*net.UDPAddr)` (for a UDP socket ReadFrom returns a *net.UDPAddr: the assertion is not modelled);
//	   after the spawn only log statements that do not mention the buffer may follow, up to the end of the body
//	continue · end of the body without a spawn        .again
//	log.<Level>(…)                                    nothing — arguments must be literals, variables (not the buffer),
//	                                                  field selections, len(…) of those, or l.LocalAddr()
//
// THE HEAD OF A HANDLER — `func (l *T) M(buf []byte, …)`: the statements from the top through the LAST one that
// mentions `buf` or the pool, plus the `if err != nil {…}` on the parser's error that directly follows, if any.
// By construction nothing after the head mentions `buf` or the pool.  Input `parsedOk : Bool`; value
// `⟨events on the buffer in order, continues⟩`:
//
//	var ( … )  without initial values                 nothing
//	x, err := dhcpv<N>.FromBytes(buf)   (once)        event .parse
//	<pool>.Put(&buf) · <pool>.Put(buf)                event .put .ptr · .put .slice
//	if err != nil { … }  · if err == nil { … }        if parsedOk = false then … else …  (err: the parser's, still unassigned)
//	return                                            ⟨events, false⟩
//	log.<Level>(…)                                    event .use if an argument mentions buf, else nothing
//	end of the head                                   ⟨events, true⟩
//
// ALSO CHECKED: the pool variable is mentioned nowhere else — not in this file (declaration, one `Get` per loop, the
// `Put`s of the heads) and not in any other file of the directory that is part of a normal build (files with a
// build constraint that needs a tag such as `verif` are test scaffolding and are not read); `log` is a
// package-level variable of the package; no local variable has the name of a package, a package-level name or a builtin.
package main

import (
	"fmt"
	"go/ast"
	"go/build/constraint"
	"go/parser"
	"go/token"
	"os"
	"path/filepath"
	"strconv"
	"strings"
)

const serveLoopSrc = "/repo/server/handle.go"

var s16pkgs = map[string]string{
	"errors": "errors", "net": "net", "sync": "sync", "fmt": "fmt",
	"dhcpv4": "github.com/insomniacslk/dhcp/dhcpv4", "dhcpv6": "github.com/insomniacslk/dhcp/dhcpv6",
	"ipv4": "golang.org/x/net/ipv4", "ipv6": "golang.org/x/net/ipv6",
}

var s16parsers = map[string]string{"dhcpv6": "6", "dhcpv4": "4"}

type g16 struct {
	*gen
	imports  map[string]string
	pkgNames map[string]bool                     // package-level names of the whole package (normal build)
	methods  map[string]map[string]*ast.FuncDecl // receiver type ↦ method name ↦ declaration (this file)
	pool     string                              // name of the pool variable
	poolSeen map[ast.Node]bool                   // mentions of the pool variable the translator has accounted for
	mdName   string                              // name of the constant given to make
	mdValue  uint64
}

func (g *g16) unparen(x ast.Expr) ast.Expr {
	for {
		p, ok := x.(*ast.ParenExpr)
		if !ok {
			return x
		}
		x = p.X
	}
}

// pkgSel: x is `pkg.Name` with pkg an imported package of the vocabulary that no local variable shadows.
func (g *g16) pkgSel(x ast.Expr, isVar func(string) bool) (pkg, name string, ok bool) {
	s, ok := g.unparen(x).(*ast.SelectorExpr)
	if !ok {
		return "", "", false
	}
	id, ok := s.X.(*ast.Ident)
	if !ok || s16pkgs[id.Name] == "" || isVar(id.Name) {
		return "", "", false
	}
	g.must(g.imports[id.Name] == s16pkgs[id.Name], x, "`%s` is not the package %s here", id.Name, s16pkgs[id.Name])
	return id.Name, s.Sel.Name, true
}

func (g *g16) newLocal(id *ast.Ident, inScope func(string) bool) {
	g.must(id.Name != "_", id, "blank identifier unsupported here")
	_, isPkg := g.imports[id.Name]
	g.must(!isPkg && !inScope(id.Name) && !g.pkgNames[id.Name] && !stBuiltins[id.Name] && id.Name != "byte" && id.Name != "any", id,
		"variable name clashes with a name that already has a meaning (package, package-level name, variable in scope, builtin)")
}

func mentions16(n ast.Node, name string) bool {
	found := false
	ast.Inspect(n, func(m ast.Node) bool {
		if id, ok := m.(*ast.Ident); ok && id.Name == name {
			found = true
		}
		return !found
	})
	return found
}

func count16(n ast.Node, name string) int {
	c := 0
	ast.Inspect(n, func(m ast.Node) bool {
		if id, ok := m.(*ast.Ident); ok && id.Name == name {
			c++
		}
		return true
	})
	return c
}

// isByteSlice: the type expression `[]byte`.
func (g *g16) isByteSlice(x ast.Expr) bool {
	a, ok := g.unparen(x).(*ast.ArrayType)
	return ok && a.Len == nil && isIdent(a.Elt, "byte")
}

// pure: an expression a log statement may print: literals, variables, field selections, len(…) of those, and
// `recv.LocalAddr()`.  Returns whether the variable `buf` (may be "") is mentioned.
func (g *g16) pure(x ast.Expr, isVar func(string) bool, recv, buf string) bool {
	switch x := g.unparen(x).(type) {
	case *ast.BasicLit:
		return false
	case *ast.Ident:
		g.must(isVar(x.Name) || x.Name == "nil" || x.Name == "true" || x.Name == "false", x, "in the arguments of a log call: not a literal or a variable")
		return buf != "" && x.Name == buf
	case *ast.SelectorExpr:
		if _, _, ok := g.pkgSel(x, isVar); ok {
			return false
		}
		return g.pure(x.X, isVar, recv, buf)
	case *ast.CallExpr:
		if isIdent(x.Fun, "len") && len(x.Args) == 1 && !isVar("len") {
			return g.pure(x.Args[0], isVar, recv, buf)
		}
		if s, ok := x.Fun.(*ast.SelectorExpr); ok && recv != "" && isIdent(s.X, recv) && s.Sel.Name == "LocalAddr" && len(x.Args) == 0 {
			return false
		}
	}
	g.fail(x, "in the arguments of a log call: not known to be free of side effects")
	return false
}

// isLog: `log.<Level>(…)` on the package-level logger with side-effect-free arguments; usesBuf: an argument mentions buf.
func (g *g16) isLog(s ast.Stmt, isVar func(string) bool, recv, buf string) (is, usesBuf bool) {
	e, ok := s.(*ast.ExprStmt)
	if !ok {
		return false, false
	}
	c, ok := e.X.(*ast.CallExpr)
	if !ok {
		return false, false
	}
	sel, ok := c.Fun.(*ast.SelectorExpr)
	if !ok || !isIdent(sel.X, "log") {
		return false, false
	}
	g.must(g.pkgNames["log"] && g.imports["log"] == "" && !isVar("log"), s, "`log` is not the package-level logger")
	g.must(stLogLevels[sel.Sel.Name], s, "log.%s is not a plain log statement", sel.Sel.Name)
	g.must(!c.Ellipsis.IsValid(), s, "log call with a spread argument")
	for _, a := range c.Args {
		if g.pure(a, isVar, recv, buf) {
			usesBuf = true
		}
	}
	return true, usesBuf
}

// ===================================================================== the pool and the constant

func (g *g16) constValue(x ast.Expr) uint64 {
	switch x := g.unparen(x).(type) {
	case *ast.BasicLit:
		v, err := strconv.ParseUint(x.Value, 0, 64)
		g.must(x.Kind == token.INT && err == nil, x, "unsupported literal in a constant expression")
		return v
	case *ast.BinaryExpr:
		a, b := g.constValue(x.X), g.constValue(x.Y)
		switch x.Op {
		case token.SHL:
			g.must(b < 63 && a < 1<<(63-b), x, "constant too large")
			return a << b
		case token.MUL:
			g.must(a == 0 || b < (1<<63)/a, x, "constant too large")
			return a * b
		case token.ADD:
			g.must(a < 1<<62 && b < 1<<62, x, "constant too large")
			return a + b
		case token.SUB:
			g.must(a >= b, x, "negative constant")
			return a - b
		}
	}
	g.fail(x, "unsupported constant expression (only integer literals with << * + -)")
	return 0
}

// poolNew translates the `New` function of the pool literal: (kind, length expression in Lean).
func (g *g16) poolNew(file *ast.File, lit *ast.CompositeLit) string {
	g.must(len(lit.Elts) == 1, lit, "the pool literal must set exactly the field New")
	kv, ok := lit.Elts[0].(*ast.KeyValueExpr)
	g.must(ok && isIdent(kv.Key, "New"), lit.Elts[0], "the pool literal must set exactly the field New")
	fn, ok := g.unparen(kv.Value).(*ast.FuncLit)
	g.must(ok, kv.Value, "New must be a function literal")
	g.must(fn.Type.TypeParams == nil && (fn.Type.Params == nil || len(fn.Type.Params.List) == 0) && fn.Type.Results != nil &&
		len(fn.Type.Results.List) == 1 && len(fn.Type.Results.List[0].Names) == 0, fn.Type, "New must be func() interface{}")
	rt := g.src(fn.Type.Results.List[0].Type)
	g.must(rt == "interface{}" || rt == "any", fn.Type, "New must be func() interface{}")
	g.must(len(fn.Body.List) == 2, fn.Body, "the body of New must be `r := make([]byte, C); return &r`")
	a, ok := fn.Body.List[0].(*ast.AssignStmt)
	g.must(ok && a.Tok == token.DEFINE && len(a.Lhs) == 1 && len(a.Rhs) == 1, fn.Body.List[0], "expected `r := make([]byte, C)`")
	rid, ok := a.Lhs[0].(*ast.Ident)
	g.must(ok, a.Lhs[0], "expected `r := make([]byte, C)`")
	g.newLocal(rid, func(string) bool { return false })
	mk, ok := g.unparen(a.Rhs[0]).(*ast.CallExpr)
	g.must(ok && isIdent(mk.Fun, "make") && len(mk.Args) == 2 && !mk.Ellipsis.IsValid() && g.isByteSlice(mk.Args[0]), a.Rhs[0],
		"expected `make([]byte, C)` (length only: the capacity is the length)")
	var length string
	switch n := g.unparen(mk.Args[1]).(type) {
	case *ast.Ident:
		g.must(n.Name != rid.Name, n, "expected a package-level constant")
		g.mdName = n.Name
		length = "maxDatagram"
	default:
		g.fail(mk.Args[1], "the length of the pooled buffers must be a named package-level constant")
	}
	ret, ok := fn.Body.List[1].(*ast.ReturnStmt)
	g.must(ok && len(ret.Results) == 1, fn.Body.List[1], "expected `return &r`")
	kind := ""
	switch r := g.unparen(ret.Results[0]).(type) {
	case *ast.UnaryExpr:
		g.must(r.Op == token.AND && isIdent(g.unparen(r.X), rid.Name), r, "New must return the buffer it made, or its address")
		kind = ".ptr"
	case *ast.Ident:
		g.must(r.Name == rid.Name, r, "New must return the buffer it made, or its address")
		kind = ".slice"
	default:
		g.fail(ret.Results[0], "New must return the buffer it made, or its address")
	}
	// the constant
	found := false
	for _, d := range file.Decls {
		gd, ok := d.(*ast.GenDecl)
		if !ok {
			continue
		}
		for _, sp := range gd.Specs {
			vs, ok := sp.(*ast.ValueSpec)
			if !ok {
				continue
			}
			for _, n := range vs.Names {
				if n.Name != g.mdName {
					continue
				}
				g.must(gd.Tok == token.CONST, n, "the length of the pooled buffers must be a constant")
				g.must(!found, n, "declared twice")
				g.must(len(vs.Names) == 1 && len(vs.Values) == 1, vs, "the constant must be declared on its own, with its value")
				g.must(vs.Type == nil || isIdent(vs.Type, "int"), vs, "unsupported type of the constant")
				g.mdValue = g.constValue(vs.Values[0])
				found = true
			}
		}
	}
	g.must(found, mk.Args[1], "constant not declared in this file")
	return "⟨" + kind + ", " + length + "⟩"
}

// ===================================================================== the loop

type lp16 struct {
	vars  map[string]string // Go name ↦ role: recv | buf | n | oob | peer | err
	buf   string            // Lean name of the current value of the buffer variable ("" before Get)
	into  string            // Lean name of the buffer value ReadFrom was called on ("" before the read)
	spawn string            // the Spawn of this path ("" = none yet)
	nbuf  *int
}

func (st lp16) with(name, role string) lp16 {
	n := map[string]string{name: role}
	for k, v := range st.vars {
		n[k] = v
	}
	st.vars = n
	return st
}

func (st lp16) isVar(n string) bool { return st.vars[n] != "" }

func (st lp16) role(x ast.Expr) string {
	id, ok := x.(*ast.Ident)
	if !ok {
		return ""
	}
	return st.vars[id.Name]
}

func (st lp16) freshBuf() string {
	*st.nbuf++
	return "b" + strconv.Itoa(*st.nbuf)
}

// isConst: the package-level constant, not shadowed.
func (g *g16) isConst(x ast.Expr, st lp16) bool {
	id, ok := g.unparen(x).(*ast.Ident)
	return ok && id.Name == g.mdName && !st.isVar(id.Name)
}

// isPoolCall: `<pool>.<method>(args…)`.
func (g *g16) isPoolCall(x ast.Expr, method string, isVar func(string) bool) (*ast.CallExpr, bool) {
	c, ok := g.unparen(x).(*ast.CallExpr)
	if !ok {
		return nil, false
	}
	s, ok := c.Fun.(*ast.SelectorExpr)
	if !ok || !isIdent(s.X, g.pool) || isVar(g.pool) || s.Sel.Name != method {
		return nil, false
	}
	g.must(!c.Ellipsis.IsValid(), c, "spread argument")
	return c, true
}

func (g *g16) lpCond(x ast.Expr, st lp16) string {
	x = g.unparen(x)
	if c, ok := x.(*ast.CallExpr); ok {
		pkg, name, ok := g.pkgSel(c.Fun, st.isVar)
		g.must(ok && pkg == "errors" && name == "Is" && len(c.Args) == 2 && !c.Ellipsis.IsValid(), x, "unsupported condition (only errors.Is(err, net.ErrClosed), err != nil, err == nil)")
		g.must(st.role(g.unparen(c.Args[0])) == "err", c.Args[0], "the first argument must be the error of this iteration's ReadFrom")
		p2, n2, ok := g.pkgSel(c.Args[1], st.isVar)
		g.must(ok && p2 == "net" && n2 == "ErrClosed", c.Args[1], "the second argument must be net.ErrClosed")
		return "r.err = .closed"
	}
	if b, ok := x.(*ast.BinaryExpr); ok && (b.Op == token.NEQ || b.Op == token.EQL) {
		l, r := g.unparen(b.X), g.unparen(b.Y)
		if isIdent(l, "nil") {
			l, r = r, l
		}
		g.must(st.role(l) == "err" && isIdent(r, "nil") && !st.isVar("nil"), x, "unsupported condition (only errors.Is(err, net.ErrClosed), err != nil, err == nil)")
		if b.Op == token.NEQ {
			return "r.err ≠ .none"
		}
		return "r.err = .none"
	}
	g.fail(x, "unsupported condition (only errors.Is(err, net.ErrClosed), err != nil, err == nil)")
	return ""
}

// lpSpawn translates `go recv.M(b[:n], oob, peer.(*net.UDPAddr))`; returns the Spawn and the method.
func (g *g16) lpSpawn(s *ast.GoStmt, st lp16, recvType string, fam func(*ast.FuncDecl) string) string {
	if _, isLit := g.unparen(s.Call.Fun).(*ast.FuncLit); isLit {
		g.fail(s, "the handler must be started by `go l.M(values…)` directly: a function literal captures the variables of the loop instead of copying the values of this iteration")
	}
	sel, ok := s.Call.Fun.(*ast.SelectorExpr)
	g.must(ok && st.role(sel.X) == "recv", s.Call.Fun, "the `go` statement must call a method of the receiver directly")
	m := g.methods[recvType][sel.Sel.Name]
	g.must(m != nil, sel.Sel, "not a method declared on *%s in this file", recvType)
	g.must(len(s.Call.Args) == 3 && !s.Call.Ellipsis.IsValid(), s.Call, "expected three arguments: the datagram, the control message, the peer")
	g.must(st.into != "", s, "handler started before the read")
	// first argument: the buffer, or a prefix of it
	var bufID, upto string
	switch a := g.unparen(s.Call.Args[0]).(type) {
	case *ast.Ident:
		g.must(st.vars[a.Name] == "buf", a, "the first argument must be the buffer of this iteration (or a prefix of it)")
		bufID, upto = st.buf+".id", st.buf+".len"
	case *ast.SliceExpr:
		g.must(st.role(g.unparen(a.X)) == "buf", a.X, "the first argument must be (a prefix of) the buffer of this iteration")
		g.must(a.Low == nil && !a.Slice3, a, "only a prefix b[:k] of the buffer is supported")
		bufID = st.buf + ".id"
		switch {
		case a.High == nil:
			upto = st.buf + ".len"
		case st.role(g.unparen(a.High)) == "n":
			upto = "r.n"
		case g.isConst(a.High, st):
			upto = "maxDatagram"
		default:
			b, ok := g.unparen(a.High).(*ast.BinaryExpr)
			g.must(ok && b.Op == token.ADD && st.role(g.unparen(b.X)) == "n", a.High, "unsupported upper bound (only n, n + k, the constant)")
			lit, ok := g.unparen(b.Y).(*ast.BasicLit)
			g.must(ok && lit.Kind == token.INT, b.Y, "unsupported upper bound (only n, n + k, the constant)")
			upto = "r.n + " + strconv.FormatUint(g.constValue(lit), 10)
		}
	default:
		g.fail(s.Call.Args[0], "the first argument must be (a prefix of) the buffer of this iteration")
	}
	g.must(st.role(g.unparen(s.Call.Args[1])) == "oob", s.Call.Args[1], "the second argument must be the control message of this iteration's ReadFrom")
	p := g.unparen(s.Call.Args[2])
	if ta, ok := p.(*ast.TypeAssertExpr); ok {
		star, ok := ta.Type.(*ast.StarExpr)
		g.must(ok, ta, "unsupported type assertion on the peer (only .(*net.UDPAddr))")
		pkg, name, ok := g.pkgSel(star.X, st.isVar)
		g.must(ok && pkg == "net" && name == "UDPAddr", ta, "unsupported type assertion on the peer (only .(*net.UDPAddr))")
		p = g.unparen(ta.X)
	}
	g.must(st.role(p) == "peer", s.Call.Args[2], "the third argument must be the peer of this iteration's ReadFrom")
	return "⟨.v" + fam(m) + ", " + bufID + ", " + upto + ", r.oob, r.peer⟩"
}

func (g *g16) lpEnd(at ast.Node, st lp16) string {
	g.must(st.into != "", at, "the iteration ends before the read")
	if st.spawn != "" {
		return ".ran " + st.into + " (.spawn " + st.spawn + ")"
	}
	return ".ran " + st.into + " .again"
}

func (g *g16) lpBlock(list []ast.Stmt, st lp16, depth int, recvType string, fam func(*ast.FuncDecl) string, k func(lp16) string) string {
	if len(list) == 0 {
		return k(st)
	}
	s := list[0]
	next := func(st2 lp16) string { return g.lpBlock(list[1:], st2, depth, recvType, fam, k) }
	recv := ""
	for n, r := range st.vars {
		if r == "recv" {
			recv = n
		}
	}
	if is, usesBuf := g.isLog(s, st.isVar, recv, g.bufVar(st)); is {
		g.must(!usesBuf, s, "the buffer is printed by a log statement of the loop")
		return next(st)
	}
	if st.spawn != "" {
		g.fail(s, "statement after the handler was started (only log statements may follow the `go` statement)")
	}
	switch s := s.(type) {
	case *ast.AssignStmt:
		// b := *<pool>.Get().(*[]byte)
		if len(s.Lhs) == 1 && len(s.Rhs) == 1 && mentions16(s.Rhs[0], g.pool) {
			g.must(s.Tok == token.DEFINE && depth == 0, s, "the buffer must be a variable declared (`:=`) directly in the loop body: one variable per iteration")
			g.must(st.buf == "", s, "second Get in one iteration")
			id, ok := s.Lhs[0].(*ast.Ident)
			g.must(ok, s.Lhs[0], "unsupported assignment target")
			g.newLocal(id, st.isVar)
			rhs, deref := g.unparen(s.Rhs[0]), false
			if star, ok := rhs.(*ast.StarExpr); ok {
				rhs, deref = g.unparen(star.X), true
			}
			ta, ok := rhs.(*ast.TypeAssertExpr)
			g.must(ok && ta.Type != nil, s.Rhs[0], "expected `*<pool>.Get().(*[]byte)`")
			c, ok := g.isPoolCall(ta.X, "Get", st.isVar)
			g.must(ok && len(c.Args) == 0, ta.X, "expected `<pool>.Get()`")
			g.poolSeen[c] = true
			want := ""
			if star, ok := g.unparen(ta.Type).(*ast.StarExpr); ok && g.isByteSlice(star.X) {
				g.must(deref, s.Rhs[0], "the pointer the pool returned must be dereferenced here (`*…`)")
				want = ".ptr"
			} else if g.isByteSlice(ta.Type) {
				g.must(!deref, s.Rhs[0], "dereference of a slice")
				want = ".slice"
			} else {
				g.fail(ta.Type, "unsupported type in the assertion (only *[]byte, []byte)")
			}
			st = st.with(id.Name, "buf")
			st.buf = st.freshBuf()
			return "if taken.kind ≠ " + want + " then .panic else\nlet " + st.buf + " : Buf := taken.buf\n" + next(st)
		}
		// b = b[:C]
		if len(s.Lhs) == 1 && len(s.Rhs) == 1 && st.role(s.Lhs[0]) == "buf" {
			g.must(s.Tok == token.ASSIGN && depth == 0, s, "the buffer may only be resliced by `b = b[:C]` directly in the loop body")
			sl, ok := g.unparen(s.Rhs[0]).(*ast.SliceExpr)
			g.must(ok && st.role(g.unparen(sl.X)) == "buf" && sl.Low == nil && !sl.Slice3 && sl.High != nil && g.isConst(sl.High, st), s.Rhs[0],
				"the buffer may only be resliced to the constant: `b = b[:C]`")
			old := st.buf
			st.buf = st.freshBuf()
			return "let " + st.buf + " : Buf := { " + old + " with len := maxDatagram }\n" + next(st)
		}
		// n, oob, peer, err := recv.ReadFrom(b)
		if c, ok := g.unparen(s.Rhs[0]).(*ast.CallExpr); ok && len(s.Rhs) == 1 {
			if sel, ok := c.Fun.(*ast.SelectorExpr); ok && sel.Sel.Name == "ReadFrom" {
				g.must(st.role(sel.X) == "recv", sel.X, "ReadFrom must be called on the receiver")
				g.must(s.Tok == token.DEFINE && depth == 0 && len(s.Lhs) == 4, s,
					"the four results of ReadFrom must be variables declared (`:=`) directly in the loop body: the values of THIS iteration")
				g.must(st.into == "", s, "second ReadFrom in one iteration")
				g.must(len(c.Args) == 1 && !c.Ellipsis.IsValid() && st.role(g.unparen(c.Args[0])) == "buf", c, "ReadFrom must be given the buffer of this iteration")
				for i, role := range []string{"n", "oob", "peer", "err"} {
					id, ok := s.Lhs[i].(*ast.Ident)
					g.must(ok, s.Lhs[i], "unsupported assignment target")
					g.newLocal(id, st.isVar) // a variable of an enclosing scope of the same name is refused too
					st = st.with(id.Name, role)
				}
				st.into = st.buf
				return next(st)
			}
		}
		g.fail(s, "unsupported assignment in the loop body")
	case *ast.IfStmt:
		g.must(s.Init == nil, s, "if with init statement unsupported")
		c := g.lpCond(s.Cond, st)
		var els string
		switch b := s.Else.(type) {
		case nil:
			els = next(st)
		case *ast.BlockStmt:
			els = g.lpBlock(b.List, st, depth+1, recvType, fam, next)
		case *ast.IfStmt:
			els = g.lpBlock([]ast.Stmt{b}, st, depth+1, recvType, fam, next)
		default:
			g.fail(s.Else, "unsupported else")
		}
		return "if " + c + " then\n" + indent(g.lpBlock(s.Body.List, st, depth+1, recvType, fam, next)) + "\nelse\n" + indent(els)
	case *ast.ReturnStmt:
		g.must(len(list) == 1, list[min(1, len(list)-1)], "unreachable statement after return")
		g.must(len(s.Results) == 1, s, "Serve returns one value")
		g.must(st.into != "", s, "return before the read")
		r := g.unparen(s.Results[0])
		switch {
		case isIdent(r, "nil") && !st.isVar("nil"):
			return ".ran " + st.into + " (.exit .nil)"
		case st.role(r) == "err":
			return ".ran " + st.into + " (.exit .err)"
		}
		g.fail(s, "unsupported result (only nil, or the error of this iteration's ReadFrom)")
	case *ast.GoStmt:
		st.spawn = g.lpSpawn(s, st, recvType, fam)
		return next(st)
	case *ast.BranchStmt:
		g.must(s.Tok == token.CONTINUE && s.Label == nil, s, "unsupported jump (only a plain continue)")
		g.must(len(list) == 1, list[min(1, len(list)-1)], "unreachable statement after continue")
		return g.lpEnd(s, st)
	}
	g.fail(s, "unsupported statement in the loop body")
	return ""
}

func (g *g16) bufVar(st lp16) string {
	for n, r := range st.vars {
		if r == "buf" {
			return n
		}
	}
	return ""
}

func recv16(f *ast.FuncDecl) (name, typ string, ok bool) {
	if f.Recv == nil || len(f.Recv.List) != 1 {
		return "", "", false
	}
	star, ok := f.Recv.List[0].Type.(*ast.StarExpr)
	if !ok {
		return "", "", false
	}
	id, ok := star.X.(*ast.Ident)
	if !ok {
		return "", "", false
	}
	if len(f.Recv.List[0].Names) == 1 {
		name = f.Recv.List[0].Names[0].Name
	}
	return name, id.Name, true
}

// serve translates one `Serve` method: the Lean body of the iteration and the handler it spawns.
func (g *g16) serve(f *ast.FuncDecl, fam func(*ast.FuncDecl) string) (body string) {
	recvName, recvType, _ := recv16(f)
	g.must(recvName != "" && recvName != "_", f.Name, "the receiver must be named")
	g.must((f.Type.Params == nil || len(f.Type.Params.List) == 0) && f.Type.Results != nil && len(f.Type.Results.List) == 1 &&
		len(f.Type.Results.List[0].Names) == 0 && isIdent(f.Type.Results.List[0].Type, "error"), f.Type, "Serve must be func() error")
	g.newLocal(f.Recv.List[0].Names[0], func(string) bool { return false })
	n := 0
	st := lp16{vars: map[string]string{recvName: "recv"}, nbuf: &n}
	var loop *ast.ForStmt
	for i, s := range f.Body.List {
		if is, _ := g.isLog(s, st.isVar, recvName, ""); is {
			continue
		}
		fs, ok := s.(*ast.ForStmt)
		g.must(ok, s, "unsupported statement before the loop of Serve (only log statements)")
		g.must(fs.Init == nil && fs.Cond == nil && fs.Post == nil, fs, "the loop of Serve must be a plain `for { … }`")
		g.must(i == len(f.Body.List)-1, f.Body.List[min(i+1, len(f.Body.List)-1)], "statement after the loop of Serve")
		loop = fs
	}
	g.must(loop != nil, f.Name, "no loop in Serve")
	return g.lpBlock(loop.Body.List, st, 0, recvType, fam, func(st2 lp16) string { return g.lpEnd(loop.Body, st2) })
}

// ===================================================================== the head of a handler

type hd16 struct {
	vars    map[string]bool
	recv    string
	buf     string // the buffer parameter
	ev      string // Lean name of the events so far
	nev     *int
	parsed  bool
	errName string // the parser's error variable, while it has not been assigned again
	lines   []string
}

func (h hd16) isVar(n string) bool { return h.vars[n] }

func (g *g16) hdEvent(h hd16, ev string) (hd16, string) {
	old := h.ev
	*h.nev++
	h.ev = "t" + strconv.Itoa(*h.nev)
	return h, "let " + h.ev + " : List HeadEv := " + old + " ++ [" + ev + "]\n"
}

// parserCall: x is `dhcpvN.FromBytes(args…)`.
func (g *g16) parserCall(x ast.Expr, isVar func(string) bool) (*ast.CallExpr, string, bool) {
	c, ok := g.unparen(x).(*ast.CallExpr)
	if !ok {
		return nil, "", false
	}
	pkg, name, ok := g.pkgSel(c.Fun, isVar)
	if !ok || s16parsers[pkg] == "" || name != "FromBytes" {
		return nil, "", false
	}
	return c, s16parsers[pkg], true
}

// hdErrTest: `err != nil` (true) / `err == nil` (false) on the parser's error.
func (g *g16) hdErrTest(x ast.Expr, h hd16) (failed bool, ok bool) {
	b, isBin := g.unparen(x).(*ast.BinaryExpr)
	if !isBin || (b.Op != token.NEQ && b.Op != token.EQL) || h.errName == "" {
		return false, false
	}
	l, r := g.unparen(b.X), g.unparen(b.Y)
	if isIdent(l, "nil") {
		l, r = r, l
	}
	if !isIdent(l, h.errName) || !isIdent(r, "nil") || h.isVar("nil") {
		return false, false
	}
	return b.Op == token.NEQ, true
}

func (g *g16) hdBlock(list []ast.Stmt, h hd16, depth int, k func(hd16) string) string {
	if len(list) == 0 {
		return k(h)
	}
	s := list[0]
	next := func(h2 hd16) string { return g.hdBlock(list[1:], h2, depth, k) }
	if is, usesBuf := g.isLog(s, h.isVar, h.recv, h.buf); is {
		if usesBuf {
			h2, line := g.hdEvent(h, ".use")
			return line + next(h2)
		}
		return next(h)
	}
	switch s := s.(type) {
	case *ast.DeclStmt:
		d, ok := s.Decl.(*ast.GenDecl)
		g.must(ok && d.Tok == token.VAR && depth == 0, s, "unsupported declaration in the head of the handler")
		for _, sp := range d.Specs {
			vs := sp.(*ast.ValueSpec)
			g.must(len(vs.Values) == 0 && vs.Type != nil, vs, "only variable declarations without initial values are supported in the head of the handler")
			nv := map[string]bool{}
			for name, v := range h.vars {
				nv[name] = v
			}
			for _, n := range vs.Names {
				g.newLocal(n, h.isVar)
				nv[n.Name] = true
			}
			h.vars = nv
		}
		return next(h)
	case *ast.AssignStmt:
		g.must(len(s.Rhs) == 1, s, "unsupported assignment in the head of the handler")
		c, _, ok := g.parserCall(s.Rhs[0], h.isVar)
		g.must(ok, s, "unsupported assignment in the head of the handler (only `x, err := dhcpvN.FromBytes(buf)`)")
		g.must(depth == 0 && len(s.Lhs) == 2 && (s.Tok == token.DEFINE || s.Tok == token.ASSIGN), s, "expected `x, err := dhcpvN.FromBytes(buf)` directly in the function body")
		g.must(!h.parsed, s, "the datagram is parsed twice")
		g.must(len(c.Args) == 1 && !c.Ellipsis.IsValid() && isIdent(g.unparen(c.Args[0]), h.buf), c, "the parser must be given the buffer parameter")
		nv := map[string]bool{}
		for name, v := range h.vars {
			nv[name] = v
		}
		for _, l := range s.Lhs {
			id, ok := l.(*ast.Ident)
			g.must(ok && id.Name != "_", l, "the two results of the parser must be named variables")
			if !h.vars[id.Name] {
				g.must(s.Tok == token.DEFINE, l, "assignment to an undeclared variable")
				g.newLocal(id, h.isVar)
			}
			nv[id.Name] = true
		}
		g.must(s.Lhs[0].(*ast.Ident).Name != s.Lhs[1].(*ast.Ident).Name, s, "the two results must be different variables")
		h.vars = nv
		h.parsed = true
		h.errName = s.Lhs[1].(*ast.Ident).Name
		h2, line := g.hdEvent(h, ".parse")
		return line + next(h2)
	case *ast.ExprStmt:
		c, ok := g.isPoolCall(s.X, "Put", h.isVar)
		g.must(ok && len(c.Args) == 1, s, "unsupported statement in the head of the handler")
		g.poolSeen[c] = true
		arg := ""
		switch a := g.unparen(c.Args[0]).(type) {
		case *ast.UnaryExpr:
			g.must(a.Op == token.AND && isIdent(g.unparen(a.X), h.buf), a, "Put of something that is not the buffer parameter")
			arg = ".ptr"
		case *ast.Ident:
			g.must(a.Name == h.buf, a, "Put of something that is not the buffer parameter")
			arg = ".slice"
		default:
			g.fail(c.Args[0], "Put of something that is not the buffer parameter")
		}
		h2, line := g.hdEvent(h, ".put "+arg)
		return line + next(h2)
	case *ast.IfStmt:
		g.must(s.Init == nil, s, "if with init statement unsupported")
		failed, ok := g.hdErrTest(s.Cond, h)
		g.must(ok, s.Cond, "unsupported condition in the head of the handler (between its top and the last mention of the buffer only the parser's error may be tested)")
		g.must(s.Else == nil, s.Else, "else unsupported in the head of the handler")
		yes := indent(g.hdBlock(s.Body.List, h, depth+1, next))
		no := indent(next(h))
		return "if parsedOk = " + map[bool]string{true: "false", false: "true"}[failed] + " then\n" + yes + "\nelse\n" + no
	case *ast.ReturnStmt:
		g.must(len(s.Results) == 0, s, "the handler returns nothing")
		g.must(len(list) == 1, list[min(1, len(list)-1)], "unreachable statement after return")
		return "⟨" + h.ev + ", false⟩"
	}
	g.fail(s, "unsupported statement in the head of the handler (from its top to the last mention of the buffer or the pool)")
	return ""
}

func (g *g16) head(f *ast.FuncDecl) string {
	recvName, _, _ := recv16(f)
	g.must(f.Type.TypeParams == nil && f.Type.Results == nil, f.Type, "a handler returns nothing")
	h := hd16{vars: map[string]bool{}, recv: recvName, nev: new(int)}
	if recvName != "" && recvName != "_" {
		g.newLocal(f.Recv.List[0].Names[0], h.isVar)
		h.vars[recvName] = true
	}
	first := true
	for _, p := range f.Type.Params.List {
		for _, n := range p.Names {
			if first {
				g.must(g.isByteSlice(p.Type), p.Type, "the first parameter of a handler must be the datagram, a []byte")
				g.newLocal(n, h.isVar)
				h.buf = n.Name
				first = false
			} else if n.Name == "_" {
				continue
			} else {
				g.newLocal(n, h.isVar)
			}
			h.vars[n.Name] = true
		}
	}
	g.must(h.buf != "", f.Type, "the first parameter of a handler must be the datagram, a []byte")
	last := -1
	for i, s := range f.Body.List {
		if mentions16(s, h.buf) || mentions16(s, g.pool) {
			last = i
		}
	}
	list := f.Body.List[:last+1]
	// the test of the parser's error that directly follows belongs to the head
	var tail ast.Stmt
	if last+1 < len(f.Body.List) {
		tail = f.Body.List[last+1]
	}
	return "let t0 : List HeadEv := []\n" + g.hdBlock(list, hdStart(h), 0, func(h2 hd16) string {
		if i, ok := tail.(*ast.IfStmt); ok && i.Init == nil {
			if _, isErr := g.hdErrTest(i.Cond, h2); isErr {
				return g.hdBlock([]ast.Stmt{i}, h2, 0, func(h3 hd16) string { return "⟨" + h3.ev + ", true⟩" })
			}
		}
		return "⟨" + h2.ev + ", true⟩"
	})
}

func hdStart(h hd16) hd16 { h.ev = "t0"; return h }

// ===================================================================== the file

// tags a normal build may or may not have, depending on the platform and the toolchain; every other tag (`verif`,
// `ignore`, …) is a custom one that a normal build does not set
var s16platformTags = set("aix", "android", "darwin", "dragonfly", "freebsd", "hurd", "illumos", "ios", "js", "linux", "nacl", "netbsd",
	"openbsd", "plan9", "solaris", "wasip1", "windows", "zos", "386", "amd64", "amd64p32", "arm", "armbe", "arm64", "arm64be", "loong64",
	"mips", "mipsle", "mips64", "mips64le", "mips64p32", "mips64p32le", "ppc", "ppc64", "ppc64le", "riscv", "riscv64", "s390", "s390x",
	"sparc", "sparc64", "wasm", "unix", "cgo", "gc", "gccgo", "race", "msan", "asan", "purego")

func isPlatformTag(t string) bool { return s16platformTags[t] || strings.HasPrefix(t, "go1.") }

func tagsOf(x constraint.Expr, into map[string]bool) {
	switch x := x.(type) {
	case *constraint.TagExpr:
		into[x.Tag] = true
	case *constraint.NotExpr:
		tagsOf(x.X, into)
	case *constraint.AndExpr:
		tagsOf(x.X, into)
		tagsOf(x.Y, into)
	case *constraint.OrExpr:
		tagsOf(x.X, into)
		tagsOf(x.Y, into)
	}
}

// inNormalBuild: the file has no build constraint, or one that holds on SOME platform without any custom tag
// (a file is left out only when it cannot be part of a build that sets no custom tag).
func inNormalBuild(f *ast.File) bool {
	for _, cg := range f.Comments {
		if cg.Pos() >= f.Package {
			break
		}
		for _, c := range cg.List {
			if !constraint.IsGoBuild(c.Text) {
				continue
			}
			x, err := constraint.Parse(c.Text)
			if err != nil {
				return true
			}
			all := map[string]bool{}
			tagsOf(x, all)
			var plat []string
			for t := range all {
				if isPlatformTag(t) {
					plat = append(plat, t)
				}
			}
			if len(plat) > 16 {
				return true
			}
			for m := 0; m < 1<<len(plat); m++ {
				on := map[string]bool{}
				for i, t := range plat {
					on[t] = m&(1<<i) != 0
				}
				if x.Eval(func(tag string) bool { return on[tag] }) {
					return true
				}
			}
			return false
		}
	}
	return true
}

const gen16Header = `-- GENERATED by harness gen -unit serveloop from server/handle.go (the pool, both Serve loops, the head of both handlers) — do not edit
-- Regenerated from the Go source on every run; Props/GenServeLoop.lean proves these definitions
-- equal to the hand-written model in Model/ServeLoop.lean.
import CoreDhcp.Model.ServeLoop
set_option linter.unusedVariables false
namespace CoreDhcp.GenServeLoop
open ServeLoop

/-! Fixed vocabulary (not derived from the source; the table is in the header of gen16.go).  Out-of-repository calls are
inputs: ` + "`taken`" + ` = the value ` + "`Get`" + ` returned (` + "`taken.kind ≠ .ptr`" + `: the type assertion ` + "`.(*[]byte)`" + ` fails), ` + "`r`" + ` = the four
results of THIS iteration's ` + "`ReadFrom`" + ` (` + "`errors.Is(err, net.ErrClosed)`" + ` ↦ ` + "`r.err = .closed`" + `, ` + "`err != nil`" + ` ↦ ` + "`r.err ≠ .none`" + `),
` + "`parsedOk`" + ` = the parser returned no error.  ` + "`.ran b next`" + `: ReadFrom was called on the buffer value ` + "`b`" + `;
` + "`.spawn ⟨handler, buffer, upto, oob, peer⟩`" + ` = ` + "`go l.HandleMsgN(b[:upto], oob, peer)`" + ` with the values of this iteration
(the translator refuses anything but variables declared by ` + "`:=`" + ` in the loop body, and function literals);
` + "`return nil`" + ` / ` + "`return err`" + ` ↦ ` + "`.exit .nil`" + ` / ` + "`.exit .err`" + `.  The head of a handler is the list of what happens to its buffer,
in order (` + "`.parse`" + `, ` + "`.put .ptr`" + ` = ` + "`Put(&buf)`" + `, ` + "`.put .slice`" + ` = ` + "`Put(buf)`" + `, ` + "`.use`" + `), and whether the handler goes on;
after the head neither the buffer nor the pool is mentioned.  Log statements ↦ nothing (arguments checked). -/

`

func runGen16(srcPath, outPath string) {
	die := func(a ...interface{}) {
		fmt.Fprintln(os.Stderr, append([]interface{}{"gen:"}, a...)...)
		os.Exit(2)
	}
	if srcPath == "" {
		srcPath = serveLoopSrc
	}
	g := &g16{gen: &gen{fset: token.NewFileSet()}, imports: map[string]string{}, pkgNames: map[string]bool{},
		methods: map[string]map[string]*ast.FuncDecl{}, poolSeen: map[ast.Node]bool{}}
	file, err := parser.ParseFile(g.fset, srcPath, nil, parser.ParseComments|parser.SkipObjectResolution)
	if err != nil {
		die("parse:", err)
	}
	for _, im := range file.Imports {
		path, _ := strconv.Unquote(im.Path.Value)
		name := filepath.Base(path)
		if im.Name != nil {
			name = im.Name.Name
		}
		g.must(name != "." && name != "_", im, "dot / blank import unsupported")
		g.imports[name] = path
		if want, ok := s16pkgs[name]; ok {
			g.must(path == want, im, "package name %s stands for %s in the vocabulary", name, want)
		}
	}
	// package-level names: this file and the other files of the directory that are part of a normal build
	collect := func(f *ast.File, own bool) {
		for _, d := range f.Decls {
			switch d := d.(type) {
			case *ast.FuncDecl:
				if d.Recv == nil {
					g.pkgNames[d.Name.Name] = true
				} else if own {
					g.must(d.Type.TypeParams == nil && d.Body != nil, d.Name, "unsupported function form")
					if _, t, ok := recv16(d); ok {
						if g.methods[t] == nil {
							g.methods[t] = map[string]*ast.FuncDecl{}
						}
						g.must(g.methods[t][d.Name.Name] == nil, d.Name, "declared twice")
						g.methods[t][d.Name.Name] = d
					}
				}
			case *ast.GenDecl:
				for _, sp := range d.Specs {
					switch sp := sp.(type) {
					case *ast.ValueSpec:
						for _, n := range sp.Names {
							g.pkgNames[n.Name] = true
						}
					case *ast.TypeSpec:
						g.pkgNames[sp.Name.Name] = true
					}
				}
			}
		}
	}
	collect(file, true)
	var siblings []*ast.File
	abs, _ := filepath.Abs(srcPath)
	matches, _ := filepath.Glob(filepath.Join(filepath.Dir(abs), "*.go"))
	for _, m := range matches {
		if m == abs || strings.HasSuffix(m, "_test.go") {
			continue
		}
		sf, err := parser.ParseFile(g.fset, m, nil, parser.ParseComments|parser.SkipObjectResolution)
		if err != nil {
			die("parse:", err)
		}
		if sf.Name.Name != file.Name.Name || !inNormalBuild(sf) {
			continue
		}
		siblings = append(siblings, sf)
		collect(sf, false)
	}
	for b := range stBuiltins {
		if g.pkgNames[b] || g.imports[b] != "" {
			die(srcPath+": the builtin", b, "is redefined at package level")
		}
	}
	// the pool: the package-level variable initialised with a sync.Pool literal
	var poolLit *ast.CompositeLit
	for _, d := range file.Decls {
		gd, ok := d.(*ast.GenDecl)
		if !ok || gd.Tok != token.VAR {
			continue
		}
		for _, sp := range gd.Specs {
			vs := sp.(*ast.ValueSpec)
			for i, v := range vs.Values {
				lit, ok := g.unparen(v).(*ast.CompositeLit)
				if !ok || lit.Type == nil {
					continue
				}
				pkg, name, ok := g.pkgSel(lit.Type, func(string) bool { return false })
				if !ok || pkg != "sync" || name != "Pool" {
					continue
				}
				g.must(poolLit == nil, v, "a second pool")
				g.must(len(vs.Names) == len(vs.Values) && vs.Type == nil, vs, "unsupported declaration of the pool")
				poolLit, g.pool = lit, vs.Names[i].Name
			}
		}
	}
	if poolLit == nil {
		die(srcPath + ": no package-level variable initialised with a sync.Pool{…} literal")
	}
	newOut := g.poolNew(file, poolLit)
	for _, sf := range siblings {
		ast.Inspect(sf, func(n ast.Node) bool {
			if id, ok := n.(*ast.Ident); ok && id.Name == g.pool {
				g.fail(id, "the pool is mentioned outside the unit (another file of the package)")
			}
			return true
		})
	}

	// the loops, the handlers they spawn, their families
	famOf := map[*ast.FuncDecl]string{}
	fam := func(m *ast.FuncDecl) string {
		if f, ok := famOf[m]; ok {
			return f
		}
		found := ""
		ast.Inspect(m.Body, func(n ast.Node) bool {
			if c, ok := n.(*ast.CallExpr); ok {
				if _, f, ok := g.parserCall(c, func(string) bool { return false }); ok {
					g.must(found == "", c, "the handler calls a parser twice")
					found = f
				}
			}
			return true
		})
		g.must(found != "", m.Name, "the handler does not call dhcpv4.FromBytes / dhcpv6.FromBytes")
		famOf[m] = found
		return found
	}
	iters, heads := map[string]string{}, map[string]string{}
	for _, d := range file.Decls {
		f, ok := d.(*ast.FuncDecl)
		if !ok || f.Recv == nil || f.Name.Name != "Serve" {
			continue
		}
		_, t, ok := recv16(f)
		g.must(ok, f.Name, "unsupported receiver")
		before := len(famOf)
		body := g.serve(f, fam)
		g.must(len(famOf) == before+1, f.Name, "the loop must start exactly one handler method, one that no other loop starts")
		var handler *ast.FuncDecl
		for _, m := range g.methods[t] {
			if _, ok := famOf[m]; ok {
				g.must(handler == nil, m.Name, "two handlers on one listener type")
				handler = m
			}
		}
		fm := famOf[handler]
		g.must(iters[fm] == "", f.Name, "a second loop of family %s", fm)
		iters[fm] = body
		heads[fm] = g.head(handler)
	}
	if iters["6"] == "" || iters["4"] == "" {
		die(srcPath + ": the two Serve methods (one whose handler parses with dhcpv6.FromBytes, one with dhcpv4.FromBytes) were not both found")
	}
	if total, known := count16(file, g.pool), 1+len(g.poolSeen); total != known { // 1: the declaration
		die(fmt.Sprintf("%s: the pool variable %s is mentioned %d times in the file, the translator has accounted for %d (declaration, one Get per loop, the Puts of the heads)",
			srcPath, g.pool, total, known))
	}

	out := gen16Header
	out += fmt.Sprintf("/-- the constant given to `make` in the pool's `New` and to the reslice in the loops (value of its declaration) -/\ndef maxDatagram : Nat := %d\n\n", g.mdValue)
	out += "/-- what the pool's `New` returns: `&r` ↦ `.ptr`, `r` ↦ `.slice`; `r := make([]byte, C)` -/\ndef poolNew : NewOut := " + newOut + "\n\n"
	for _, fm := range []string{"6", "4"} {
		out += fmt.Sprintf("/-- one iteration of the `Serve` loop whose handler parses with `dhcpv%s.FromBytes`, translated from its go/ast -/\ndef iter%s (taken : Item) (r : Read) : Iter :=\n%s\n\n",
			fm, fm, indent(iters[fm]))
	}
	for _, fm := range []string{"6", "4"} {
		out += fmt.Sprintf("/-- the head of the handler that parses with `dhcpv%s.FromBytes`, translated from its go/ast -/\ndef head%s (parsedOk : Bool) : HeadOut :=\n%s\n\n",
			fm, fm, indent(heads[fm]))
	}
	out += "/-- the four together, as the code the system of Model/ServeLoop.lean runs -/\ndef code : Code :=\n  ⟨poolNew, fun f => match f with | .v6 => iter6 | .v4 => iter4, fun f => match f with | .v6 => head6 | .v4 => head4⟩\n\n"
	out += "end CoreDhcp.GenServeLoop\n"
	if err := os.WriteFile(outPath, []byte(out), 0o644); err != nil {
		die(err)
	}
	fmt.Printf("gen: wrote %s (%d bytes) from %s\n", outPath, len(out), srcPath)
}
