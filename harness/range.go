package main

import (
	"database/sql"
	"fmt"
	"io"
	"net"
	"os"
	"path/filepath"
	"sort"
	"strings"
	"time"

	"github.com/coredhcp/coredhcp/handler"
	rangeplugin "github.com/coredhcp/coredhcp/plugins/range"
	"github.com/insomniacslk/dhcp/dhcpv4"
)

func init() {
	engines["range"] = &engine{gen: genRange, replay: replayRange}
}

type rangeState struct {
	dir     string
	file    string
	args    []string
	h       handler.Handler4
	db      *sql.DB // our own read-only view of the lease table
	nrest   int
	start   uint32
	end     uint32
	leaseNs int64
	// a handler call did not come back: this instance is not asked any more
	wedged bool
}

func (s *rangeState) close() {
	if s.db != nil {
		s.db.Close()
		s.db = nil
	}
	if s.dir != "" {
		os.RemoveAll(s.dir)
		s.dir = ""
	}
	s.h = nil
}

// reqIP, when set, goes into option 50 (requested IP address) of the next request built: nothing
// in the lease properties depends on it
var reqIP net.IP

func mkReq4(typ string, mac, host []byte) *dhcpv4.DHCPv4 {
	mt := dhcpv4.MessageTypeDiscover
	if typ == "R" {
		mt = dhcpv4.MessageTypeRequest
	}
	mods := []dhcpv4.Modifier{dhcpv4.WithMessageType(mt), dhcpv4.WithHwAddr(net.HardwareAddr(mac))}
	if reqIP != nil {
		mods = append(mods, dhcpv4.WithOption(dhcpv4.OptRequestedIPAddress(reqIP)))
	}
	if host != nil {
		mods = append(mods, dhcpv4.WithOption(dhcpv4.OptHostName(string(host))))
	}
	req, err := dhcpv4.New(mods...)
	if err != nil {
		panic(err)
	}
	// through the wire, as the server would receive it
	back, err := dhcpv4.FromBytes(req.ToBytes())
	if err != nil {
		panic(err)
	}
	return back
}

func stubResp4(req *dhcpv4.DHCPv4) *dhcpv4.DHCPv4 {
	resp, err := dhcpv4.NewReplyFromRequest(req)
	if err != nil {
		panic(err)
	}
	if req.MessageType() == dhcpv4.MessageTypeDiscover {
		resp.UpdateOption(dhcpv4.OptMessageType(dhcpv4.MessageTypeOffer))
	} else {
		resp.UpdateOption(dhcpv4.OptMessageType(dhcpv4.MessageTypeAck))
	}
	return resp
}

func (s *rangeState) rowsFor(mac []byte) string {
	if s.db == nil {
		return "rows ?"
	}
	rows, err := s.db.Query("select ip, expiry from leases4 where mac = ?", net.HardwareAddr(mac).String())
	if err != nil {
		return "rows ?"
	}
	defer rows.Close()
	var out []string
	for rows.Next() {
		var ip string
		var exp int64
		if err := rows.Scan(&ip, &exp); err != nil {
			return "rows ?"
		}
		// stored expiries are on the wall clock; reported on the harness's clock like everything else
		out = append(out, fmt.Sprintf("%s:%d", hx(net.ParseIP(ip).To4()), exp+int64(aged/time.Second)))
	}
	sort.Strings(out)
	// the hardware address as sqlite hands it back (column affinity may have rewritten it)
	key := "key ?"
	var stored string
	if err := s.db.QueryRow("select mac from leases4 where mac = ? limit 1", net.HardwareAddr(mac).String()).Scan(&stored); err == nil {
		key = "key " + hx([]byte(stored))
	} else if len(out) == 0 {
		key = "key none"
	}
	return fmt.Sprintf("rows %d %s %s", len(out), strings.Join(out, " "), key)
}

// pre51: when not zero, the reply handed to the handler already carries this lease time (a lease_time plugin before range)
var pre51 uint32

func askOne(h handler.Handler4, typ string, mac, host []byte) string {
	return watchdog(10*time.Second, func() string { return askOne1(h, typ, mac, host) })
}

func askOne1(h handler.Handler4, typ string, mac, host []byte) string {
	return guard(func() string {
		req := mkReq4(typ, mac, host)
		pre := stubResp4(req)
		if pre51 != 0 {
			pre.UpdateOption(dhcpv4.OptIPAddressLeaseTime(time.Duration(pre51) * time.Second))
		}
		resp, stop := h(req, pre)
		if resp == nil {
			if !stop {
				return "drop-nostop"
			}
			return "drop"
		}
		lt := resp.Options.Get(dhcpv4.OptionIPAddressLeaseTime)
		var l uint32
		for _, b := range lt {
			l = l<<8 | uint32(b)
		}
		return fmt.Sprintf("reply %s %d", hx(resp.YourIPAddr.To4()), l)
	})
}

func copyFile(src, dst string) error {
	in, err := os.Open(src)
	if err != nil {
		return err
	}
	defer in.Close()
	out, err := os.Create(dst)
	if err != nil {
		return err
	}
	defer out.Close()
	_, err = io.Copy(out, in)
	return err
}

func (s *rangeState) exec(c *ctx, op string) string {
	c.pre(op)
	f := strings.Fields(op)
	switch f[0] {
	case "rsetup":
		s.wedged = false
		s.close()
		dir, err := os.MkdirTemp(".", "range")
		if err != nil {
			panic(err)
		}
		s.dir = dir
		s.file = filepath.Join(dir, "leases.sqlite3")
		s.args = []string{s.file, net.IP(unhx(f[1])).String(), net.IP(unhx(f[2])).String(), f[3] + "ns"}
		res := guard(func() string {
			h, err := rangeplugin.Plugin.Setup4(s.args...)
			if err != nil {
				return "err"
			}
			s.h = h
			return "ok"
		})
		if res == "ok" {
			s.db, _ = sql.Open("sqlite3", "file:"+s.file+"?mode=ro")
		}
		c.emit(op, res)
		return res
	case "rage": // rage <seconds>: every lease, in memory and in the database, becomes that much older
		d := time.Duration(atoi(f[1])) * time.Second
		rangeplugin.VerifAgeLeases(d) // instances of earlier histories whose files are gone may report errors: ignored
		aged += d
		c.emit(op, "ok")
		return "ok"
	case "rreq":
		if s.h == nil {
			return ""
		}
		mac, host := unhx(f[2]), unhx(f[3])
		reqIP = nil
		if len(f) > 4 {
			reqIP = net.IP(unhx(f[4])) // rreq <D|R> <mac> <host> [<option 50>|-] [<lease time already in the reply>]
		}
		pre51 = 0
		if len(f) > 5 {
			pre51 = uint32(atoi(f[5]))
		}
		if s.wedged {
			c.emit(op, "SKIP after-hang")
			return "SKIP"
		}
		t0 := vnow()
		res := askOne(s.h, f[1], mac, host)
		t1 := vnow()
		reqIP = nil
		pre51 = 0
		if res == "HANG" {
			s.wedged = true
			c.emit(op, fmt.Sprintf("%d %d HANG", t0, t1))
			return res
		}
		res += " " + s.rowsFor(mac)
		c.emit(op, fmt.Sprintf("%d %d %s", t0, t1, res))
		return res
	case "rmoved": // rmoved <start> <end>: a start on a copy of the database with ANOTHER range (the operator moved or shrank it)
		if s.h == nil {
			return ""
		}
		s.nrest++
		cp := filepath.Join(s.dir, fmt.Sprintf("moved%d.sqlite3", s.nrest))
		if err := copyFile(s.file, cp); err != nil {
			panic(err)
		}
		args := []string{cp, net.IP(unhx(f[1])).String(), net.IP(unhx(f[2])).String(), s.args[3]}
		res := guard(func() string {
			if _, err := rangeplugin.Plugin.Setup4(args...); err != nil {
				return "err"
			}
			return "ok"
		})
		os.Remove(cp)
		c.emit(op, res)
		return res
	case "rrestart":
		if s.h == nil {
			return ""
		}
		// 1. crash point: copy the database as it is now, start the plugin on the copy, ask it
		s.nrest++
		cp := filepath.Join(s.dir, fmt.Sprintf("copy%d.sqlite3", s.nrest))
		if err := copyFile(s.file, cp); err != nil {
			panic(err)
		}
		args := append([]string{cp}, s.args[1:]...)
		t0 := vnow()
		res := guard(func() string {
			h, err := rangeplugin.Plugin.Setup4(args...)
			if err != nil {
				return "err " + strings.ReplaceAll(firstLine(err.Error()), " ", "_")
			}
			var served []string
			for _, m := range f[1:] {
				r := askOne(h, "D", unhx(m), nil)
				rf := strings.Fields(r)
				if rf[0] == "reply" {
					served = append(served, rf[1])
				} else {
					served = append(served, rf[0])
				}
			}
			return fmt.Sprintf("ok %s", strings.Join(served, " "))
		})
		os.Remove(cp)
		// 2. the running instance is replaced by a new one on the same file
		if strings.HasPrefix(res, "ok") {
			res2 := guard(func() string {
				h, err := rangeplugin.Plugin.Setup4(s.args...)
				if err != nil {
					return "err second-setup"
				}
				s.h = h
				return "ok"
			})
			if res2 != "ok" {
				res = res2
			}
		}
		t1 := vnow()
		c.emit(op, fmt.Sprintf("%d %d %s", t0, t1, strings.TrimSpace(res)))
		return res
	}
	panic("bad op " + op)
}

func replayRange(c *ctx, ops []string) {
	s := &rangeState{}
	defer s.close()
	for _, op := range ops {
		s.exec(c, op)
	}
}

func genRange(c *ctx) {
	s := &rangeState{}
	defer s.close()
	sizes := []uint32{2, 3, 4, 5, 8, 63, 64, 65}
	hosts := [][]byte{nil, []byte("host"), []byte("123"), []byte("1e5"), []byte("1.50"), []byte(" 7 "), {0xff, 0xfe, 0x00, 0x41}, []byte("a'b\"c")}
	leases := []int64{3600e9, 90e9, 1500e6, 1e9, 86400e9, 2e9 + 499999999}
	for c.count < c.n {
		size := sizes[c.rng.Intn(len(sizes))]
		var start uint32
		switch c.rng.Intn(5) {
		case 0:
			start = ^uint32(0) - (size - 1) // ends at 255.255.255.255
		case 1:
			start = 0x0a000000
		default:
			start = uint32(c.rng.Int63n(int64(^uint32(0) - size)))
		}
		end := start + size - 1
		lease := leases[c.rng.Intn(len(leases))]
		if c.rng.Intn(12) == 0 {
			// durations that cannot be announced as an unsigned 32-bit number of seconds (D21), and the two ends of what can
			lease = []int64{-3600e9, -1, -500000000, -499999999, 4294967295e9, 4294967295e9 + 499999999, 4294967295e9 + 500000000, 4294967296e9, 4294969200e9, 0}[c.rng.Intn(10)]
		}
		r := c.rng.Intn(25)
		if r == 0 {
			end = start // a one-address range is rejected at start-up
		} else if r == 1 {
			start, end = end, start
		}
		if s.exec(c, fmt.Sprintf("rsetup %s %s %d", hx(u32ip(start)), hx(u32ip(end)), lease)) != "ok" {
			continue
		}
		// client population: mostly 6-byte, some of every other length 0..16
		var macs [][]byte
		nm := int(size) + 1 + c.rng.Intn(4)
		if nm > 40 {
			nm = 40 + c.rng.Intn(int(size))
		}
		for i := 0; i < nm; i++ {
			l := 6
			switch c.rng.Intn(6) {
			case 0:
				l = c.rng.Intn(17)
			case 1:
				l = []int{0, 1, 5, 7, 8, 16}[c.rng.Intn(6)]
			}
			m := make([]byte, l)
			for j := range m {
				m[j] = byte(c.rng.Intn(256))
			}
			if l == 1 && c.rng.Intn(2) == 0 {
				m[0] = []byte{0x07, 0x10, 0x1e, 0x00, 0x99}[c.rng.Intn(5)]
			}
			macs = append(macs, m)
		}
		used := map[string]bool{}
		var usedList []string
		steps := 5 + c.rng.Intn(3*nm)
		every := c.rng.Intn(6) == 0 // a restart after every request
		for i := 0; i < steps && c.count < c.n; i++ {
			if every || c.rng.Intn(8) == 0 {
				// restart; ask up to 10 known clients and one fresh one
				ask := append([]string(nil), usedList...)
				c.rng.Shuffle(len(ask), func(a, b int) { ask[a], ask[b] = ask[b], ask[a] })
				if len(ask) > 10 {
					ask = ask[:10]
				}
				fresh := make([]byte, 6)
				for j := range fresh {
					fresh[j] = byte(c.rng.Intn(256))
				}
				fresh[0] = 0xfe
				ask = append(ask, hx(fresh))
				if !strings.HasPrefix(s.exec(c, "rrestart "+strings.Join(ask, " ")), "ok") {
					break
				}
				if every && c.rng.Intn(3) != 0 {
					i--
					every = c.rng.Intn(4) != 0
				}
				continue
			}
			if c.rng.Intn(25) == 0 {
				// the operator moved or shrank the range between two starts: a start on the present database with another
				// range either finds every stored lease inside it or refuses (round 9: a stale lease tolerated at start-up)
				ns, ne := start, end
				switch c.rng.Intn(4) {
				case 0:
					ne = start + (end-start)/2
				case 1:
					ns = start + (end-start)/2 + 1
				case 2:
					ns, ne = start+1, end
				default:
					ns, ne = start, end-1
				}
				if ns < ne {
					s.exec(c, fmt.Sprintf("rmoved %s %s", hx(u32ip(ns)), hx(u32ip(ne))))
				}
			}
			if c.rng.Intn(10) == 0 && lease <= 1e9*1e9 {
				// time passes: less than, about, more than the lease time (not with the boundary leases of 2^32 s: the
				// harness reports times as nanoseconds since 1970 in an int64, which ends in the year 2262 - a first
				// version aged such leases past it and raised a false alarm at seed 4)
				ls := int(lease / 1e9)
				s.exec(c, fmt.Sprintf("rage %d", []int{1, ls/2 + 1, ls + 1, 2*ls + 3}[c.rng.Intn(4)]))
			}
			m := macs[c.rng.Intn(len(macs))]
			typ := "D"
			if c.rng.Intn(2) == 0 {
				typ = "R"
			}
			opt50 := ""
			if c.rng.Intn(4) == 0 {
				// a requested address: in the range, the first one, none (0.0.0.0), outside
				opt50 = " " + hx([]net.IP{u32ip(start + uint32(c.rng.Intn(int(size)))), u32ip(start), net.IPv4zero.To4(), net.IPv4(192, 168, 1, 77).To4()}[c.rng.Intn(4)])
			}
			if c.rng.Intn(6) == 0 {
				// a lease_time plugin before range: the reply range is handed already carries a (longer, shorter) lease time
				if opt50 == "" {
					opt50 = " -"
				}
				opt50 += fmt.Sprintf(" %d", []int{3600, 86400, 1, 7}[c.rng.Intn(4)])
			}
			s.exec(c, fmt.Sprintf("rreq %s %s %s%s", typ, hx(m), hx(hosts[c.rng.Intn(len(hosts))]), opt50))
			if !used[hx(m)] {
				used[hx(m)] = true
				usedList = append(usedList, hx(m))
			}
		}
	}
}
