package main

import (
	"fmt"
	"net"
	"strings"
	"time"

	"github.com/coredhcp/coredhcp/handler"
	"github.com/coredhcp/coredhcp/server"
	"github.com/insomniacslk/dhcp/dhcpv4"
	"github.com/insomniacslk/dhcp/dhcpv6"
	"github.com/insomniacslk/dhcp/iana"
)

func init() {
	engines["dispatch4"] = &engine{gen: genDispatch4, replay: replayDispatch}
	engines["dispatch6"] = &engine{gen: genDispatch6, replay: replayDispatch}
}

const tagOpt4 = 224
const tagOpt6 = 65001

type invLog struct{ entries []string }

func tags4(r *dhcpv4.DHCPv4) string {
	if r == nil {
		return "nil"
	}
	return hx(r.Options.Get(dhcpv4.GenericOptionCode(tagOpt4)))
}

func addTag4(r *dhcpv4.DHCPv4, idx int) {
	cur := r.Options.Get(dhcpv4.GenericOptionCode(tagOpt4))
	nv := append(append([]byte(nil), cur...), byte(idx))
	r.UpdateOption(dhcpv4.OptGeneric(dhcpv4.GenericOptionCode(tagOpt4), nv))
}

// scripted DHCPv4 handlers: p pass, t tag, y<ip> set yiaddr+tag, n ACK->NAK+tag, r replace,
// s tag+stop, x (nil, stop), z (nil, continue)
func script4(tok string, idx int, log *invLog) handler.Handler4 {
	return func(req, resp *dhcpv4.DHCPv4) (out *dhcpv4.DHCPv4, stop bool) {
		in := tags4(resp)
		// fingerprint of the request this handler was given: it must be the request as received
		fp := fmt.Sprintf("%s%02x%02x", hx(req.TransactionID[:]), byte(req.OpCode), byte(len(req.ClientHWAddr)))
		defer func() {
			log.entries = append(log.entries, fmt.Sprintf("%d:%s:%s:%v:%s", idx, in, tags4(out), b2i(stop), fp))
		}()
		switch tok[0] {
		case 'x':
			return nil, true
		case 'z':
			return nil, false
		case 'r':
			n, err := dhcpv4.NewReplyFromRequest(req)
			if err != nil {
				return nil, true
			}
			if req.MessageType() == dhcpv4.MessageTypeDiscover {
				n.UpdateOption(dhcpv4.OptMessageType(dhcpv4.MessageTypeOffer))
			} else {
				n.UpdateOption(dhcpv4.OptMessageType(dhcpv4.MessageTypeAck))
			}
			addTag4(n, idx)
			return n, false
		}
		if resp == nil {
			return nil, tok[0] == 's'
		}
		switch tok[0] {
		case 'p':
			return resp, false
		case 't':
			addTag4(resp, idx)
			return resp, false
		case 'y':
			resp.YourIPAddr = net.IP(unhx(tok[1:]))
			addTag4(resp, idx)
			return resp, false
		case 'n':
			if resp.MessageType() == dhcpv4.MessageTypeAck {
				resp.UpdateOption(dhcpv4.OptMessageType(dhcpv4.MessageTypeNak))
			}
			addTag4(resp, idx)
			return resp, false
		case 's':
			addTag4(resp, idx)
			return resp, true
		}
		panic("bad script " + tok)
	}
}

func b2i(b bool) int {
	if b {
		return 1
	}
	return 0
}

func view4(d *dhcpv4.DHCPv4) string {
	// as the code reads it: MessageType() is MessageTypeNone unless option 53 is exactly one byte
	mt := int(d.MessageType())
	return fmt.Sprintf("%d %d %s %d %s %d %s %s %s %s", d.OpCode, mt, hx(d.TransactionID[:]), d.HWType, hx(d.ClientHWAddr), d.Flags,
		hx(d.ClientIPAddr.To4()), hx(d.GatewayIPAddr.To4()), hxOpt(d.Options.Get(dhcpv4.OptionRelayAgentInformation)), hxOpt(d.Options.Get(dhcpv4.OptionClientIdentifier)))
}

// option values: "-" = absent (a zero-length value parses to nil = absent in the library)
func hxOpt(b []byte) string {
	if b == nil {
		return "-"
	}
	if len(b) == 0 {
		return "e"
	}
	return hx(b)
}

func resp4str(r *dhcpv4.DHCPv4) string {
	mt := int(r.MessageType())
	return fmt.Sprintf("%d %d %s %d %s %d %s %s %s %s %s", r.OpCode, mt, hx(r.TransactionID[:]), r.HWType, hx(r.ClientHWAddr), r.Flags,
		hx(r.GatewayIPAddr.To4()), hx(r.YourIPAddr.To4()), hxOpt(r.Options.Get(dhcpv4.OptionRelayAgentInformation)),
		hxOpt(r.Options.Get(dhcpv4.OptionClientIdentifier)), tags4(r))
}

func execDg4(c *ctx, f []string) {
	c.emit(strings.Join(f, " "), dg4Result(f, true))
}

// seq: one datagram at a time, on a listener that lives across datagrams (listeners.go)
func dg4Result(f []string, seq bool) string {
	bound, oob := atoi(f[1]), atoi(f[2])
	dg := unhx(f[4])
	log := &invLog{}
	var hs []handler.Handler4
	if f[3] != "-" {
		for i, tok := range strings.Split(f[3], ",") {
			hs = append(hs, script4(tok, i, log))
		}
	}
	parsed := "U"
	if d, err := dhcpv4.FromBytes(dg); err == nil {
		parsed = "P " + view4(d) + fmt.Sprintf(" %s%02x%02x", hx(d.TransactionID[:]), byte(d.OpCode), byte(len(d.ClientHWAddr)))
	}
	res := watchdog(5*time.Second, func() string {
		return guard(func() string {
			// the UDP source of the datagram: nothing in C15 depends on it
			src := &net.UDPAddr{IP: net.IPv4(192, 0, 2, 1), Port: 68}
			if len(f) > 6 {
				src = &net.UDPAddr{IP: net.IP(unhx(f[5])), Port: atoi(f[6])}
			}
			var caps []server.Captured4
			if seq {
				caps = handleOn4(hs, bound, dg, oob, src)
			} else {
				caps = server.VerifHandle4(hs, bound, dg, oob, src)
			}
			if len(caps) == 0 {
				return "drop"
			}
			if len(caps) > 1 {
				return fmt.Sprintf("send%d", len(caps))
			}
			cp := caps[0]
			ifi := "-"
			if cp.OOB != nil {
				ifi = fmt.Sprint(cp.OOB.IfIndex)
			}
			return fmt.Sprintf("send %s %d %s %d %s", hx(cp.Peer.IP.To4()), cp.Peer.Port, ifi, b2i(cp.L2), resp4str(cp.Resp))
		})
	})
	inv := "-"
	if len(log.entries) > 0 {
		inv = strings.Join(log.entries, ",")
	}
	return fmt.Sprintf("%s ; %s ; inv %s", parsed, res, inv)
}

// ---------------- DHCPv6

func tags6(r dhcpv6.DHCPv6) string {
	if r == nil {
		return "nil"
	}
	m, ok := r.(*dhcpv6.Message)
	if !ok {
		return "relay"
	}
	if o := m.GetOneOption(dhcpv6.OptionCode(tagOpt6)); o != nil {
		return hx(o.ToBytes())
	}
	return "-"
}

func addTag6(m *dhcpv6.Message, idx int) {
	var cur []byte
	if o := m.GetOneOption(dhcpv6.OptionCode(tagOpt6)); o != nil {
		cur = o.ToBytes()
	}
	nv := append(append([]byte(nil), cur...), byte(idx))
	m.UpdateOption(&dhcpv6.OptionGeneric{OptionCode: dhcpv6.OptionCode(tagOpt6), OptionData: nv})
}

func script6(tok string, idx int, log *invLog) handler.Handler6 {
	return func(req, resp dhcpv6.DHCPv6) (out dhcpv6.DHCPv6, stop bool) {
		in := tags6(resp)
		// fingerprint of the request this handler was given: number of relay layers it sees, and its wire length
		depth := 0
		for d := req; d != nil && d.IsRelay(); depth++ {
			inner := d.(*dhcpv6.RelayMessage).Options.RelayMessage()
			if inner == nil {
				break
			}
			d = inner
		}
		fp := fmt.Sprintf("%02x%04x", depth, len(req.ToBytes())&0xffff)
		defer func() {
			log.entries = append(log.entries, fmt.Sprintf("%d:%s:%s:%v:%s", idx, in, tags6(out), b2i(stop), fp))
		}()
		switch tok[0] {
		case 'x':
			return nil, true
		case 'z':
			return nil, false
		}
		if resp == nil {
			if tok[0] == 'r' {
				// rebuild what the server would have built
				inner, err := req.GetInnerMessage()
				if err != nil {
					return nil, true
				}
				var n *dhcpv6.Message
				if inner.Type() == dhcpv6.MessageTypeSolicit && inner.GetOneOption(dhcpv6.OptionRapidCommit) == nil {
					n, err = dhcpv6.NewAdvertiseFromSolicit(inner)
				} else {
					n, err = dhcpv6.NewReplyFromMessage(inner)
				}
				if err != nil {
					return nil, true
				}
				addTag6(n, idx)
				return n, false
			}
			return nil, tok[0] == 's'
		}
		m := resp.(*dhcpv6.Message)
		switch tok[0] {
		case 'p':
			return resp, false
		case 't':
			addTag6(m, idx)
			return m, false
		case 'r':
			n := &dhcpv6.Message{MessageType: m.MessageType, TransactionID: m.TransactionID}
			if cid := m.GetOneOption(dhcpv6.OptionClientID); cid != nil {
				n.AddOption(cid)
			}
			if rc := m.GetOneOption(dhcpv6.OptionRapidCommit); rc != nil {
				n.AddOption(rc)
			}
			addTag6(n, idx)
			return n, false
		case 's':
			addTag6(m, idx)
			return m, true
		}
		panic("bad script " + tok)
	}
}

func optBytes6(o dhcpv6.Option) string {
	if o == nil {
		return "-"
	}
	b := o.ToBytes()
	if len(b) == 0 {
		return "e"
	}
	return hx(b)
}

// view of a parsed DHCPv6 packet: L <type> <link> <peer> <iid> <rid> ... M <type> <xid> <cid> <rapid> <tags> | NOINNER
func view6(d dhcpv6.DHCPv6) string {
	var sb []string
	for d != nil {
		if r, ok := d.(*dhcpv6.RelayMessage); ok {
			sb = append(sb, fmt.Sprintf("L %d %s %s %s %s", r.MessageType, hx(r.LinkAddr.To16()), hx(r.PeerAddr.To16()),
				optBytes6(r.GetOneOption(dhcpv6.OptionInterfaceID)), optBytes6(r.GetOneOption(dhcpv6.OptionRemoteID))))
			inner := r.Options.RelayMessage()
			if inner == nil {
				sb = append(sb, "NOINNER")
				break
			}
			d = inner
			continue
		}
		m := d.(*dhcpv6.Message)
		sb = append(sb, fmt.Sprintf("M %d %s %s %d %s", m.MessageType, hx(m.TransactionID[:]), optBytes6(m.GetOneOption(dhcpv6.OptionClientID)),
			b2i(m.GetOneOption(dhcpv6.OptionRapidCommit) != nil), tags6(m)))
		break
	}
	return strings.Join(sb, " ")
}

func execDg6(c *ctx, f []string) {
	bound, oob := atoi(f[1]), atoi(f[2])
	src := net.IP(unhx(f[4]))
	port := atoi(f[5])
	dg := unhx(f[6])
	log := &invLog{}
	var hs []handler.Handler6
	if f[3] != "-" {
		for i, tok := range strings.Split(f[3], ",") {
			hs = append(hs, script6(tok, i, log))
		}
	}
	parsed := "U"
	if d, err := dhcpv6.FromBytes(dg); err == nil {
		depth := 0
		for x := d; x != nil && x.IsRelay(); depth++ {
			inner := x.(*dhcpv6.RelayMessage).Options.RelayMessage()
			if inner == nil {
				break
			}
			x = inner
		}
		parsed = fmt.Sprintf("P %02x%04x ", depth, len(d.ToBytes())&0xffff) + view6(d)
	}
	res := watchdog(5*time.Second, func() string {
		return guard(func() string {
			caps := handleOn6(hs, bound, dg, oob, &net.UDPAddr{IP: src, Port: port})
			if len(caps) == 0 {
				return "drop"
			}
			if len(caps) > 1 {
				return fmt.Sprintf("send%d", len(caps))
			}
			cp := caps[0]
			ifi := "-"
			if cp.OOB != nil {
				ifi = fmt.Sprint(cp.OOB.IfIndex)
			}
			// the reply as it goes on the wire
			back, err := dhcpv6.FromBytes(cp.Resp.ToBytes())
			if err != nil {
				return "send-unparsable"
			}
			return fmt.Sprintf("send %s %s %d %s", ifi, hx(cp.Peer.IP.To16()), cp.Peer.Port, view6(back))
		})
	})
	inv := "-"
	if len(log.entries) > 0 {
		inv = strings.Join(log.entries, ",")
	}
	c.emit(strings.Join(f, " "), fmt.Sprintf("%s ; %s ; inv %s", parsed, res, inv))
}

func replayDispatch(c *ctx, ops []string) {
	for _, op := range ops {
		f := strings.Fields(op)
		switch f[0] {
		case "dg4":
			execDg4(c, f)
		case "dg6":
			execDg6(c, f)
		}
	}
}

// ---------------- generators

func (c *ctx) chain(v6 bool) string {
	n := []int{0, 1, 1, 2, 2, 3, 4, 5}[c.rng.Intn(8)]
	if n == 0 {
		return "-"
	}
	var toks []string
	for i := 0; i < n; i++ {
		switch c.rng.Intn(12) {
		case 0, 1:
			toks = append(toks, "p")
		case 2, 3, 4:
			toks = append(toks, "t")
		case 5:
			if v6 {
				toks = append(toks, "t")
			} else {
				toks = append(toks, "y"+hx(c.ip4kind()))
			}
		case 6:
			if v6 {
				toks = append(toks, "t")
			} else {
				toks = append(toks, "n")
			}
		case 7:
			toks = append(toks, "r")
		case 8, 9:
			toks = append(toks, "s")
		case 10:
			toks = append(toks, "x")
		default:
			toks = append(toks, "z")
		}
	}
	return strings.Join(toks, ",")
}

func (c *ctx) ip4kind() net.IP {
	switch c.rng.Intn(6) {
	case 0, 1:
		return net.IPv4zero.To4()
	case 2:
		return net.IPv4(169, 254, byte(c.rng.Intn(256)), byte(c.rng.Intn(256))).To4()
	case 3:
		return net.IPv4bcast.To4()
	default:
		return net.IPv4(10, byte(c.rng.Intn(256)), byte(c.rng.Intn(256)), byte(1+c.rng.Intn(254))).To4()
	}
}

func (c *ctx) mutate(b []byte) []byte {
	switch c.rng.Intn(12) {
	case 0: // truncate
		if len(b) > 0 {
			return b[:c.rng.Intn(len(b))]
		}
	case 1: // bit flips
		nb := append([]byte(nil), b...)
		for i := 0; i < 1+c.rng.Intn(4) && len(nb) > 0; i++ {
			nb[c.rng.Intn(len(nb))] ^= 1 << uint(c.rng.Intn(8))
		}
		return nb
	case 2: // garbage
		nb := make([]byte, c.rng.Intn(300))
		c.rng.Read(nb)
		return nb
	case 3: // trailing garbage
		ex := make([]byte, 1+c.rng.Intn(20))
		c.rng.Read(ex)
		return append(append([]byte(nil), b...), ex...)
	}
	return b
}

func genDispatch4(c *ctx) {
	for c.count < c.n {
		execDg4(c, c.oneDg4())
	}
}

// oneDg4 generates one dg4 operation
func (c *ctx) oneDg4() []string {
	{
		d, _ := dhcpv4.New()
		switch c.rng.Intn(8) {
		case 0:
			d.OpCode = dhcpv4.OpcodeBootReply
		case 1:
			d.OpCode = dhcpv4.OpcodeType(c.rng.Intn(256))
		default:
			d.OpCode = dhcpv4.OpcodeBootRequest
		}
		switch c.rng.Intn(10) {
		case 0: // absent
		case 1:
			d.UpdateOption(dhcpv4.OptMessageType(dhcpv4.MessageType(c.rng.Intn(19))))
		case 2:
			d.UpdateOption(dhcpv4.OptMessageType(dhcpv4.MessageType(c.rng.Intn(256))))
		case 3, 4, 5:
			d.UpdateOption(dhcpv4.OptMessageType(dhcpv4.MessageTypeRequest))
		default:
			d.UpdateOption(dhcpv4.OptMessageType(dhcpv4.MessageTypeDiscover))
		}
		d.HWType = iana.HWType(c.rng.Intn(40))
		hl := 6
		if c.rng.Intn(4) == 0 {
			hl = c.rng.Intn(17)
		}
		d.ClientHWAddr = make(net.HardwareAddr, hl)
		c.rng.Read(d.ClientHWAddr)
		d.Flags = []uint16{0, 0, 0x8000, 0x8000, uint16(c.rng.Intn(65536))}[c.rng.Intn(5)]
		d.ClientIPAddr = c.ip4kind()
		d.GatewayIPAddr = c.ip4kind()
		if c.rng.Intn(2) == 0 {
			d.GatewayIPAddr = net.IPv4zero.To4()
		}
		if c.rng.Intn(3) == 0 {
			v := make([]byte, c.rng.Intn(12))
			c.rng.Read(v)
			d.UpdateOption(dhcpv4.OptGeneric(dhcpv4.OptionRelayAgentInformation, v))
		}
		if c.rng.Intn(3) == 0 {
			v := make([]byte, c.rng.Intn(12))
			c.rng.Read(v)
			d.UpdateOption(dhcpv4.OptGeneric(dhcpv4.OptionClientIdentifier, v))
		}
		if c.rng.Intn(3) == 0 {
			d.UpdateOption(dhcpv4.OptParameterRequestList(dhcpv4.OptionRouter, dhcpv4.OptionDomainNameServer))
		}
		if c.rng.Intn(5) == 0 {
			// a client that announces how long a reply it takes (option 57), with identifiers long enough that the
			// reply is longer than that: what is echoed may not depend on it (round 7 of the seeded changes)
			ms := []uint16{576, 576, 548, 300, 1, 0, uint16(c.rng.Intn(65536))}[c.rng.Intn(7)]
			d.UpdateOption(dhcpv4.OptGeneric(dhcpv4.OptionMaximumDHCPMessageSize, []byte{byte(ms >> 8), byte(ms)}))
			for _, code := range []dhcpv4.OptionCode{dhcpv4.OptionRelayAgentInformation, dhcpv4.OptionClientIdentifier} {
				if c.rng.Intn(3) != 0 {
					v := make([]byte, 150+c.rng.Intn(106))
					c.rng.Read(v)
					d.UpdateOption(dhcpv4.OptGeneric(code, v))
				}
			}
		}
		dg := c.mutate(d.ToBytes())
		bound := []int{0, 0, 3, 7}[c.rng.Intn(4)]
		oob := []int{-1, 0, 2, 5, 5}[c.rng.Intn(5)]
		if bound == 0 && oob <= 0 && c.rng.Intn(4) != 0 {
			oob = 4 // listen4 enables pktinfo on unbound listeners (fact F5)
		}
		op := []string{"dg4", fmt.Sprint(bound), fmt.Sprint(oob), c.chain(false), hx(dg)}
		if c.rng.Intn(3) == 0 {
			// where the datagram came from: the client's own address (ciaddr), the relay, anything; any port
			srcs := []net.IP{d.ClientIPAddr.To4(), d.GatewayIPAddr.To4(), net.IPv4(10, 7, 7, 7).To4(), net.IPv4zero.To4()}
			src := srcs[c.rng.Intn(len(srcs))]
			if src == nil {
				src = net.IPv4zero.To4()
			}
			op = append(op, hx(src), fmt.Sprint([]int{68, 67, 1068, 49152, 0}[c.rng.Intn(5)]))
		}
		return op
	}
}

type prevDg6 struct {
	mt    dhcpv6.MessageType
	xid   dhcpv6.TransactionID
	src   net.IP
	port  int
	bound int
}

var prev6 prevDg6
var havePrev6 bool

func genDispatch6(c *ctx) {
	for c.count < c.n {
		m, _ := dhcpv6.NewMessage()
		switch c.rng.Intn(10) {
		case 0:
			m.MessageType = dhcpv6.MessageType(c.rng.Intn(256))
		case 1:
			m.MessageType = dhcpv6.MessageType(c.rng.Intn(40))
		case 2, 3, 4:
			m.MessageType = dhcpv6.MessageTypeSolicit
		default:
			m.MessageType = []dhcpv6.MessageType{dhcpv6.MessageTypeRequest, dhcpv6.MessageTypeConfirm, dhcpv6.MessageTypeRenew,
				dhcpv6.MessageTypeRebind, dhcpv6.MessageTypeRelease, dhcpv6.MessageTypeInformationRequest, dhcpv6.MessageTypeDecline}[c.rng.Intn(7)]
		}
		// two clients behind one relay that drew the same transaction id: same type, same id, same source, another client
		// identifier - the answer must be the second client's own (round 9: a retransmission cache keyed without the client id)
		again := havePrev6 && c.rng.Intn(8) == 0
		if again {
			m.MessageType = prev6.mt
			m.TransactionID = prev6.xid
		}
		if c.rng.Intn(6) != 0 || again {
			cid := make([]byte, 4+c.rng.Intn(10))
			c.rng.Read(cid)
			cid[0], cid[1] = 0xfe, 0xfe
			m.AddOption(&dhcpv6.OptionGeneric{OptionCode: dhcpv6.OptionClientID, OptionData: cid})
		}
		if c.rng.Intn(3) == 0 {
			m.AddOption(&dhcpv6.OptionGeneric{OptionCode: dhcpv6.OptionRapidCommit})
		}
		var d dhcpv6.DHCPv6 = m
		depth := []int{0, 0, 0, 1, 1, 2, 3, 4}[c.rng.Intn(8)]
		if c.tier == "thorough" && c.rng.Intn(10) == 0 {
			depth = 5 + c.rng.Intn(28)
		}
		for i := 0; i < depth; i++ {
			link, peer := bigToIP(c.pat128()), bigToIP(c.pat128())
			typ := dhcpv6.MessageTypeRelayForward
			if c.rng.Intn(8) == 0 {
				typ = dhcpv6.MessageTypeRelayReply
			}
			r, err := dhcpv6.EncapsulateRelay(d, typ, link, peer)
			if err != nil {
				break
			}
			rm := r
			if c.rng.Intn(2) == 0 {
				v := make([]byte, 1+c.rng.Intn(6))
				c.rng.Read(v)
				rm.AddOption(dhcpv6.OptInterfaceID(v))
			}
			if c.rng.Intn(3) == 0 {
				v := make([]byte, 4+c.rng.Intn(6))
				c.rng.Read(v)
				rm.AddOption(&dhcpv6.OptionGeneric{OptionCode: dhcpv6.OptionRemoteID, OptionData: v})
			}
			if c.rng.Intn(25) == 0 {
				rm.Options.Del(dhcpv6.OptionRelayMsg)
			}
			d = rm
		}
		dg := c.mutate(d.ToBytes())
		var src net.IP
		if c.rng.Intn(2) == 0 {
			src = net.ParseIP("fe80::1234")
			src[15] = byte(c.rng.Intn(256))
		} else {
			src = bigToIP(c.pat128())
		}
		bound := []int{0, 0, 3, 7}[c.rng.Intn(4)]
		oob := []int{-1, 0, 2, 5, 5}[c.rng.Intn(5)]
		port := 546 + c.rng.Intn(3)
		if again {
			src, port, bound = prev6.src, prev6.port, prev6.bound
		}
		prev6, havePrev6 = prevDg6{m.MessageType, m.TransactionID, src, port, bound}, true
		execDg6(c, []string{"dg6", fmt.Sprint(bound), fmt.Sprint(oob), c.chain(true), hx(src), fmt.Sprint(port), hx(dg)})
	}
}
