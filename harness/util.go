package main

import (
	"encoding/hex"
	"fmt"
	"net"
	"strconv"
	"time"
)

// watchdog runs f (which must itself recover panics, e.g. via guard) in its own goroutine and
// gives up after d: a handler that blocks forever (a mutex left held) yields "HANG".
func watchdog(d time.Duration, f func() string) string {
	ch := make(chan string, 1)
	go func() { ch <- f() }()
	select {
	case r := <-ch:
		return r
	case <-time.After(d):
		return "HANG"
	}
}

// The harness's clock. Leases cannot be waited for; the ageing hooks of the range and prefix
// plugins (build tag verif) make every recorded lease d older instead. Seen from the plugins'
// data that is the same as the wall clock having advanced by d, so the time the harness reports
// is wall clock + everything aged so far.
var aged time.Duration

func vnow() int64 { return time.Now().UnixNano() + int64(aged) }

func hx(b []byte) string {
	if len(b) == 0 {
		return "-"
	}
	return hex.EncodeToString(b)
}

func unhx(s string) []byte {
	if s == "-" {
		return nil
	}
	b, err := hex.DecodeString(s)
	if err != nil {
		panic(fmt.Sprintf("bad hex %q", s))
	}
	return b
}

func atoi(s string) int {
	v, err := strconv.Atoi(s)
	if err != nil {
		panic(err)
	}
	return v
}

func atou(s string) uint64 {
	v, err := strconv.ParseUint(s, 10, 64)
	if err != nil {
		panic(err)
	}
	return v
}

// guard runs f and converts a panic into the result "PANIC <msg>"
func guard(f func() string) (res string) {
	defer func() {
		if r := recover(); r != nil {
			res = "PANIC " + firstLine(fmt.Sprint(r))
		}
	}()
	return f()
}

func firstLine(s string) string {
	for i, c := range s {
		if c == '\n' {
			return s[:i]
		}
	}
	return s
}

func ip16(hi, lo uint64) net.IP {
	b := make(net.IP, 16)
	for i := 0; i < 8; i++ {
		b[i] = byte(hi >> (56 - 8*uint(i)))
		b[8+i] = byte(lo >> (56 - 8*uint(i)))
	}
	return b
}

func halves(ip net.IP) (hi, lo uint64) {
	for i := 0; i < 8; i++ {
		hi = hi<<8 | uint64(ip[i])
		lo = lo<<8 | uint64(ip[8+i])
	}
	return
}
