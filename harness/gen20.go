// gen20.go — `harness gen -unit configload`: the FRONT of `config.Load` regenerated as a Lean definition
// (namespace CoreDhcp.GenConfigLoad, file CoreDhcp/Generated/ConfigLoad.lean) from the go/ast of config/config.go:
//
//	type Config struct { v *viper.Viper … } · func New()      ↦ checked: New returns a Config whose `v` is `viper.New()`
//	Load(path), from its first statement through               ↦ load : which settings the NEW instance is given, in which
//	`if err := c.v.ReadInConfig(); err != nil { return nil, err }`  order, on which path through the function; the one read;
//	                                                             that its error ends Load with a nil configuration
//	the statements of Load after that `if` (the TAIL)          ↦ `tail raw` — NOT translated here: unit `config` (gen10.go)
//	                                                             translates exactly these statements as `GenCfg.load`, with
//	                                                             the same variable as receiver.  Checked here: the tail does
//	                                                             not touch the instance or make another; and the calls
//	                                                             `c.parseConfig(K)` on that variable ↦ tailCalls (the K's)
//
// Props/GenConfigLoad.lean proves the generated definitions equal to the hand-written model (Model/ConfigLoad.lean)
// and composes them with unit `config`.  The seam between the two units is the `if` that tests the error of
// `ReadInConfig()`: it must be a statement of Load's body itself (not nested); this unit owns everything up to and
// including it, gen10.go's `loadPrefix` skips to the statement after it.
//
// The translator runs the function symbolically, statement by statement, knows ONLY what is listed below and fails
// loudly (source position, exit code 2) on everything else.  Go names never reach the generated text: the parameter
// is `path`, the state of the instance after the k-th set-up call of a path is `vk`.
//
// INPUT of the generated definition (the out-of-repository call):
//
//	w.readInConfig : Settings → Option ρ     `c.v.ReadInConfig()`, as a function of what the instance was told before:
//	                                          none = it returned an error, some raw = nil, and the instance holds raw
//	tail : ρ → τ                              the rest of Load, as a function of what the instance holds
//
// VOCABULARY (c: THE variable declared by `c := New()`; p: THE parameter of Load)
//
//	Go                                                 Lean
//	-------------------------------------------------  ---------------------------------------------------------
//	c := New()                                          let v0 := Settings.fresh     once, in Load's body itself, before
//	                                                                                 every other use; New is checked to be
//	                                                                                 `return &Config{v: viper.New()}`
//	c.v.SetConfigType("lit")                            let vk := vj.setConfigType "lit"     at most once on a path
//	c.v.SetConfigFile(p)                                let vk := vj.setConfigFile path      the parameter ITSELF: anything
//	                                                                                 computed from it, or a literal, is
//	                                                                                 refused.  At most once on a path, and
//	                                                                                 not together with SetConfigName
//	c.v.SetConfigName("lit")                            let vk := vj.setConfigName "lit"     at most once on a path
//	c.v.AddConfigPath("lit")                            let vk := vj.addConfigPath "lit"     in source order
//	"lit": a string literal, or a package-level string constant (its VALUE)
//	if p != "lit" { A } else { B }  (either operand     if path ≠ "lit" then A else B   (what follows the `if` is copied into
//	  order; else if; no else)                                                   both arms)
//	if p == "lit" { A } else { B }                      if path ≠ "lit" then B else A   (one form for both spellings)
//	if e := c.v.ReadInConfig(); e != nil {              match w.readInConfig vk with
//	    [logs] return nil, e }                          | none => ⟨vk, .readErr⟩ | some raw => ⟨vk, .parsed (tail raw)⟩
//	                                                     — a statement of Load's body itself; exactly one
//	log.<Level>(…)                                      nothing — only as a statement, on the package's logger, arguments
//	                                                     free of side effects
//	in the tail: c.parseConfig(K), K a constant of      K's value, in source order ↦ tailCalls
//	  the protocolVersion block or an integer literal
//
// ALSO CHECKED: the package `viper` is mentioned in the file only as the type of Config's field `v` and in New's
// `viper.New()` (so: no package-global viper function anywhere, no second instance); no other normal-build file of
// the package imports viper; outside Load, a method is called on a `.v` only if it is `Get` (what those calls mean is
// unit `config`); in the tail the variable c occurs only as receiver of parseConfig, in `c.Server6` / `c.Server4`,
// and as the value returned — it is not assigned, shadowed, passed on, and `c.v` is not mentioned; `New` is not
// called again.
package main

import (
	"fmt"
	"go/ast"
	"go/parser"
	"go/token"
	"os"
	"path/filepath"
	"strconv"
	"strings"
)

const viperPath = "github.com/spf13/viper"

type s20 struct {
	lets    []string // the `let`s of this path so far
	cur     string   // Lean name of the state of the instance ("" = no instance yet)
	n       int
	typeSet bool
	fileSet bool
	nameSet bool
}

func (st s20) set(call string) s20 {
	name := "v" + strconv.Itoa(st.n)
	st.lets = append(append([]string{}, st.lets...), "let "+name+" := "+call)
	st.cur, st.n = name, st.n+1
	return st
}

type g20 struct {
	*f7
	consts   map[string]*ast.ValueSpec
	methods  map[string]*ast.FuncDecl
	load     *ast.FuncDecl
	param    string // Load's parameter
	recv     string // the variable declared by `c := New()`
	errName  string
	readNode ast.Node // the one statement that reads
	tail     []ast.Stmt
}

func (g *g20) fst() f7st {
	m := map[string]f7local{}
	for _, n := range []string{g.param, g.recv, g.errName} {
		if n != "" {
			m[n] = f7local{"local20", ""}
		}
	}
	return f7st{vars: m}
}

// fresh: `id` may be declared as a local of Load.
func (g *g20) fresh(id *ast.Ident) {
	g.must(id.Name != "_", id, "blank identifier unsupported here")
	_, isPkg := g.imports[id.Name]
	g.must(!isPkg && g.pkgVars[id.Name] == nil && g.funcs[id.Name] == nil && !f7builtins[id.Name] && id.Name != "string", id,
		"variable name clashes with a name that already has a meaning (package, package-level name, builtin)")
	g.must(id.Name != g.param && id.Name != g.recv && id.Name != g.errName, id, "a variable in scope is shadowed or redeclared")
}

// lit: a string literal or a package-level string constant ↦ the Lean literal of its value.
func (g *g20) lit(x ast.Expr) (string, bool) {
	x = g.unparen(x)
	s, ok := g.strLit(x)
	if !ok {
		id, isID := x.(*ast.Ident)
		if !isID || id.Name == g.param || id.Name == g.recv || id.Name == g.errName {
			return "", false
		}
		c := g.consts[id.Name]
		if c == nil {
			return "", false
		}
		g.must(len(c.Names) == 1 && len(c.Values) == 1 && (c.Type == nil || isIdent(c.Type, "string")), c, "the constant must be declared on its own, as a string literal")
		s, ok = g.strLit(c.Values[0])
		g.must(ok, c.Values[0], "the constant must be a string literal")
	}
	for _, r := range s {
		g.must(r >= 0x20 && r < 0x7f && r != '"' && r != '\\', x, "string with a character outside plain ASCII (or a quote / backslash): not translated")
	}
	return `"` + s + `"`, true
}

func (g *g20) isParam(x ast.Expr) bool { return g.param != "" && isIdent(g.unparen(x), g.param) }

// onInstance: x is the call `c.v.<M>(args)` ↦ (M, args).
func (g *g20) onInstance(x ast.Expr) (string, *ast.CallExpr, bool) {
	recv, name, call, ok := g.method(x)
	if !ok {
		return "", nil, false
	}
	sel, ok := g.unparen(recv).(*ast.SelectorExpr)
	if !ok || sel.Sel.Name != "v" {
		return "", nil, false
	}
	g.must(g.recv != "" && isIdent(g.unparen(sel.X), g.recv), x, "a method of a viper instance that is not the `v` of the configuration made by `c := New()` in this call of Load")
	g.must(!call.Ellipsis.IsValid(), call, "unsupported `...`")
	return name, call, true
}

// setter: the statement is one of the four set-up calls.
func (g *g20) setter(s ast.Stmt, st s20) (s20, bool) {
	e, ok := s.(*ast.ExprStmt)
	if !ok {
		return st, false
	}
	name, call, ok := g.onInstance(e.X)
	if !ok {
		return st, false
	}
	g.must(st.cur != "", s, "no instance yet")
	g.must(name != "ReadInConfig", s, "the error of ReadInConfig() is thrown away (expected `if err := c.v.ReadInConfig(); err != nil { return nil, err }`)")
	g.must(name == "SetConfigType" || name == "SetConfigFile" || name == "SetConfigName" || name == "AddConfigPath", s,
		"unknown call on the viper instance before the file is read (known: SetConfigType, SetConfigFile, SetConfigName, AddConfigPath; every other one — defaults, environment, "+
			"another file system, remote providers, a merge — changes what is read in a way the model does not have)")
	g.must(len(call.Args) == 1, call, "%s takes one argument", name)
	arg := call.Args[0]
	switch name {
	case "SetConfigFile":
		g.must(g.isParam(arg), arg, "the file given to SetConfigFile must be the parameter of Load itself: a path computed from it (cleaned, joined, with an extension added or removed) "+
			"or a fixed one names another file than the one the user named")
		g.must(!st.fileSet, s, "a second SetConfigFile on this path")
		g.must(!st.nameSet, s, "SetConfigFile and SetConfigName on one path: viper's SetConfigName forgets the file, so their ORDER matters, which the model does not keep")
		st.fileSet = true
		return st.set(st.cur + ".setConfigFile path"), true
	case "SetConfigType":
		l, ok := g.lit(arg)
		g.must(ok, arg, "the type given to SetConfigType must be a string literal (or a package-level string constant): a type computed from the file name is decoding by extension")
		g.must(!st.typeSet, s, "a second SetConfigType on this path")
		st.typeSet = true
		return st.set(st.cur + ".setConfigType " + l), true
	case "SetConfigName":
		l, ok := g.lit(arg)
		g.must(ok, arg, "the name given to SetConfigName must be a string literal (or a package-level string constant)")
		g.must(!st.nameSet, s, "a second SetConfigName on this path")
		g.must(!st.fileSet, s, "SetConfigFile and SetConfigName on one path: viper's SetConfigName forgets the file, so their ORDER matters, which the model does not keep")
		st.nameSet = true
		return st.set(st.cur + ".setConfigName " + l), true
	}
	l, ok := g.lit(arg)
	g.must(ok, arg, "the directory given to AddConfigPath must be a string literal (or a package-level string constant)")
	return st.set(st.cur + ".addConfigPath " + l), true
}

// cond: a comparison of the parameter with a string literal.
func (g *g20) cond(x ast.Expr) (string, bool) {
	b, ok := g.unparen(x).(*ast.BinaryExpr)
	g.must(ok && (b.Op == token.EQL || b.Op == token.NEQ), x, "unsupported condition before the configuration file is read (known: the parameter of Load == / != a string literal)")
	p, l := b.X, b.Y
	if !g.isParam(p) {
		p, l = b.Y, b.X
	}
	g.must(g.isParam(p), x, "unsupported condition before the configuration file is read (known: the parameter of Load == / != a string literal)")
	s, ok := g.lit(l)
	g.must(ok, l, "the parameter of Load must be compared with a string literal")
	return "path ≠ " + s, b.Op == token.EQL
}

// readStmt: s is `if e := c.v.ReadInConfig(); e != nil { [logs] return nil, e }`.
func (g *g20) readStmt(s ast.Stmt, st s20, top bool) bool {
	is, ok := s.(*ast.IfStmt)
	if !ok || is.Init == nil {
		return false
	}
	shape := "expected `if err := c.v.ReadInConfig(); err != nil { return nil, err }`"
	a, ok := is.Init.(*ast.AssignStmt)
	g.must(ok && len(a.Lhs) == 1 && len(a.Rhs) == 1, is.Init, "unsupported init statement of an if: %s", shape)
	name, call, ok := g.onInstance(a.Rhs[0])
	g.must(ok && name == "ReadInConfig", is.Init, "unsupported init statement of an if: %s", shape)
	g.must(len(call.Args) == 0, call, "ReadInConfig takes no argument")
	g.must(a.Tok == token.DEFINE, a, shape)
	e, ok := a.Lhs[0].(*ast.Ident)
	g.must(ok, a.Lhs[0], shape)
	g.fresh(e)
	g.must(top, s, "ReadInConfig() inside a branch: the read, and the test of its error, must be a statement of Load's body itself (it is the seam between the units configload and config)")
	g.must(st.cur != "", s, "no instance yet")
	g.errName = e.Name
	b, ok := g.unparen(is.Cond).(*ast.BinaryExpr)
	g.must(ok && b.Op == token.NEQ && isIdent(g.unparen(b.X), e.Name) && g.isNil(b.Y, g.fst()), is.Cond, shape)
	g.must(is.Else == nil, is, "%s, without else", shape)
	g.must(len(is.Body.List) > 0, is.Body, "the error of ReadInConfig() is ignored: %s", shape)
	for i, bs := range is.Body.List {
		if i < len(is.Body.List)-1 {
			g.must(g.isLog(bs, g.fst()), bs, "%s (and log lines before the return)", shape)
			continue
		}
		r, ok := bs.(*ast.ReturnStmt)
		g.must(ok, bs, "the error of ReadInConfig() does not end Load: %s", shape)
		g.must(len(r.Results) == 2 && g.isNil(r.Results[0], g.fst()), r, "next to the error of ReadInConfig() the configuration returned must be nil: %s", shape)
		g.must(isIdent(g.unparen(r.Results[1]), e.Name), r.Results[1], "the error returned must be the one of ReadInConfig() itself: %s", shape)
	}
	g.errName = ""
	return true
}

// block: the statements of Load before (and including) the read.  top: `list` is a suffix of Load's body itself.
func (g *g20) block(list []ast.Stmt, st s20, top bool, k func(s20) string, end ast.Node) string {
	if len(list) == 0 {
		if top {
			g.fail(end, "`if err := c.v.ReadInConfig(); err != nil { return nil, err }` not found among the statements of Load's body")
		}
		return k(st)
	}
	s, rest := list[0], list[1:]
	next := func(st2 s20) string { return g.block(rest, st2, top, k, end) }
	if g.isLog(s, g.fst()) {
		return next(st)
	}
	if a, ok := s.(*ast.AssignStmt); ok && a.Tok == token.DEFINE && len(a.Lhs) == 1 && len(a.Rhs) == 1 { // c := New()
		id, isID := a.Lhs[0].(*ast.Ident)
		c, isCall := g.unparen(a.Rhs[0]).(*ast.CallExpr)
		g.must(isID && isCall && len(c.Args) == 0 && isIdent(c.Fun, "New") && g.funcs["New"] != nil, s,
			"unsupported statement before the configuration file is read (expected `c := New()`)")
		g.must(g.recv == "" && top, s, "`c := New()` is expected once, as a statement of Load's body itself")
		g.fresh(id)
		g.checkNew()
		g.recv = id.Name
		return next(st.set("Settings.fresh"))
	}
	if g.readStmt(s, st, top) {
		g.must(g.readNode == nil || g.readNode == ast.Node(s), s, "a second ReadInConfig()")
		g.readNode = s
		g.must(len(rest) > 0, s, "Load ends after the file is read")
		g.tail = rest
		return joinLines(st.lets, "match w.readInConfig "+st.cur+" with\n| none => ⟨"+st.cur+", .readErr⟩\n| some raw => ⟨"+st.cur+", .parsed (tail raw)⟩")
	}
	if st2, ok := g.setter(s, st); ok {
		return next(st2)
	}
	if is, ok := s.(*ast.IfStmt); ok && is.Init == nil {
		c, negated := g.cond(is.Cond)
		// the `let`s made so far are printed once, above the `if`
		pre := st.lets
		inner := st
		inner.lets = nil
		join := func(st2 s20) string { return next(st2) }
		thenS := g.block(is.Body.List, inner, false, join, is.Body)
		var elseS string
		switch e := is.Else.(type) {
		case nil:
			elseS = join(inner)
		case *ast.BlockStmt:
			elseS = g.block(e.List, inner, false, join, e)
		case *ast.IfStmt:
			g.must(e.Init == nil, e, "unsupported else-if before the configuration file is read")
			elseS = g.block([]ast.Stmt{e}, inner, false, join, e)
		default:
			g.fail(is.Else, "unsupported else")
		}
		if negated { // `p == "lit"` is printed as its negation with the arms exchanged: one form for both spellings
			thenS, elseS = elseS, thenS
		}
		return joinLines(pre, ite(c, thenS, elseS))
	}
	g.fail(s, "unsupported statement before the configuration file is read (known: `c := New()`, the four set-up calls on c.v, an `if` on the parameter, log lines, and the read itself)")
	return ""
}

// checkNew: `func New() *Config { return &Config{v: viper.New()} }` and `type Config struct { v *viper.Viper … }`.
func (g *g20) checkNew() {
	f := g.get("New")
	shape := "New is not `func New() *Config { return &Config{v: viper.New()} }`: Load's instance would not be a new one of its own"
	g.must(f.Type.TypeParams == nil && (f.Type.Params == nil || len(f.Type.Params.List) == 0) && f.Type.Results != nil && len(f.Type.Results.List) == 1 &&
		len(f.Type.Results.List[0].Names) == 0 && g.src(f.Type.Results.List[0].Type) == "*Config", f.Type, shape)
	var body []ast.Stmt
	for _, b := range f.Body.List {
		if !g.isLog(b, f7st{}) {
			body = append(body, b)
		}
	}
	g.must(len(body) == 1, f.Body, shape)
	r, ok := body[0].(*ast.ReturnStmt)
	g.must(ok && len(r.Results) == 1, body[0], shape)
	u, ok := g.unparen(r.Results[0]).(*ast.UnaryExpr)
	g.must(ok && u.Op == token.AND, r.Results[0], shape)
	cl, ok := g.unparen(u.X).(*ast.CompositeLit)
	g.must(ok && cl.Type != nil && isIdent(cl.Type, "Config") && len(cl.Elts) == 1, u.X, shape)
	kv, ok := cl.Elts[0].(*ast.KeyValueExpr)
	g.must(ok && isIdent(kv.Key, "v"), cl.Elts[0], shape)
	c, ok := g.unparen(kv.Value).(*ast.CallExpr)
	g.must(ok && len(c.Args) == 0 && g.isViperSel(c.Fun, "New"), kv.Value, shape)
}

func (g *g20) isViperSel(x ast.Expr, name string) bool {
	s, ok := g.unparen(x).(*ast.SelectorExpr)
	return ok && isIdent(s.X, "viper") && s.Sel.Name == name && g.imports["viper"] == viperPath
}

// checkFile: what the file as a whole must satisfy for `load` to mean what it says.
func (g *g20) checkFile(file *ast.File, srcPath string) {
	// type Config struct { v *viper.Viper … }
	var vField *ast.Field
	for _, d := range file.Decls {
		gd, ok := d.(*ast.GenDecl)
		if !ok || gd.Tok != token.TYPE {
			continue
		}
		for _, sp := range gd.Specs {
			ts := sp.(*ast.TypeSpec)
			if ts.Name.Name != "Config" {
				continue
			}
			stt, ok := ts.Type.(*ast.StructType)
			g.must(ok && !ts.Assign.IsValid() && ts.TypeParams == nil, ts, "`type Config struct { v *viper.Viper … }` not found")
			for _, fl := range stt.Fields.List {
				g.must(len(fl.Names) > 0, fl, "embedded field in Config: its methods would be methods of the configuration")
				for _, n := range fl.Names {
					if n.Name == "v" {
						vField = fl
					}
				}
			}
		}
	}
	g.must(vField != nil, file.Name, "`type Config struct { v *viper.Viper … }` not found")
	star, ok := vField.Type.(*ast.StarExpr)
	g.must(ok && len(vField.Names) == 1 && g.isViperSel(star.X, "Viper"), vField, "the field `v` of Config is not a `*viper.Viper` of its own")
	// the package viper is mentioned nowhere else than in that field and in New
	allowed := map[ast.Node]bool{star.X: true}
	if f := g.funcs["New"]; f != nil && f.Body != nil {
		ast.Inspect(f.Body, func(n ast.Node) bool {
			if c, ok := n.(*ast.CallExpr); ok && g.isViperSel(c.Fun, "New") {
				allowed[g.unparen(c.Fun)] = true
			}
			return true
		})
	}
	nNew := 0
	ast.Inspect(file, func(n ast.Node) bool {
		if allowed[n] {
			if s := n.(*ast.SelectorExpr); s.Sel.Name == "New" {
				nNew++
			}
			return false
		}
		if id, ok := n.(*ast.Ident); ok && id.Name == "viper" {
			g.fail(id, "the package viper is mentioned outside `v *viper.Viper` and New's `viper.New()`: a package-global viper function or a second instance is not the instance Load reads with")
		}
		return true
	})
	g.must(nNew == 1, file.Name, "New must make exactly one viper instance")
	// outside Load: on a `.v`, only Get
	for _, d := range file.Decls {
		f, ok := d.(*ast.FuncDecl)
		if !ok || f == g.load || f.Body == nil {
			continue
		}
		ast.Inspect(f.Body, func(n ast.Node) bool {
			if recv, name, _, ok := g.method2(n); ok {
				if s, ok := g.unparen(recv).(*ast.SelectorExpr); ok && s.Sel.Name == "v" {
					g.must(name == "Get", n, "outside Load a viper instance is configured or made to read (only `….v.Get(key)` is known there: unit config)")
				}
			}
			if a, ok := n.(*ast.AssignStmt); ok {
				for _, l := range a.Lhs {
					if s, ok := g.unparen(l).(*ast.SelectorExpr); ok && s.Sel.Name == "v" {
						g.fail(a, "a field `v` is assigned outside New")
					}
				}
			}
			return true
		})
	}
	// no other normal-build file of the package imports viper
	dir := filepath.Dir(srcPath)
	entries, err := os.ReadDir(dir)
	g.must(err == nil, file.Name, "cannot list %s: %v", dir, err)
	for _, e := range entries {
		n := e.Name()
		if e.IsDir() || !strings.HasSuffix(n, ".go") || strings.HasSuffix(n, "_test.go") || n == filepath.Base(srcPath) {
			continue
		}
		other, err := parser.ParseFile(token.NewFileSet(), filepath.Join(dir, n), nil, parser.ImportsOnly)
		if err != nil || other.Name.Name != file.Name.Name {
			continue
		}
		for _, im := range other.Imports {
			p, _ := strconv.Unquote(im.Path.Value)
			g.must(p != viperPath, file.Name, "%s (same package) imports viper too: it could configure an instance, or the package-global one, behind Load's back", filepath.Join(dir, n))
		}
	}
}

func (g *g20) method2(n ast.Node) (ast.Expr, string, *ast.CallExpr, bool) {
	x, ok := n.(ast.Expr)
	if !ok {
		return nil, "", nil, false
	}
	if _, ok := x.(*ast.CallExpr); !ok {
		return nil, "", nil, false
	}
	return g.method(x)
}

// protoConst: K of `c.parseConfig(K)` ↦ its value.
func (g *g20) protoConst(x ast.Expr) string {
	if k, ok := g.intLit(x); ok {
		return strconv.Itoa(k)
	}
	id, ok := g.unparen(x).(*ast.Ident)
	g.must(ok && id.Name != g.param && id.Name != g.recv, x, "the protocol version given to parseConfig must be a constant")
	c := g.consts[id.Name]
	g.must(c != nil && len(c.Names) == 1 && len(c.Values) == 1 && c.Type != nil && isIdent(c.Type, "protocolVersion"), x, "the protocol version given to parseConfig must be a constant declared as `name protocolVersion = <integer>`")
	k, ok := g.intLit(c.Values[0])
	g.must(ok, c.Values[0], "the constant must be an integer literal")
	return strconv.Itoa(k)
}

// checkTail: the statements after the read are unit config's; here: they leave the instance alone, and which
// parseConfig calls they make on the configuration whose instance read the file.
func (g *g20) checkTail() []string {
	pc := g.methods["parseConfig"]
	g.must(pc != nil && pc.Recv != nil && len(pc.Recv.List) == 1 && g.src(pc.Recv.List[0].Type) == "*Config", g.load.Name, "method `func (c *Config) parseConfig(…)` not found")
	okUse := map[*ast.Ident]bool{}
	var calls []string
	for _, s := range g.tail {
		ast.Inspect(s, func(n ast.Node) bool {
			switch n := n.(type) {
			case *ast.CallExpr:
				if id, ok := g.unparen(n.Fun).(*ast.Ident); ok && id.Name == "New" {
					g.fail(n, "New() is called again after the file was read: what is parsed would not be what was read")
				}
				if sel, ok := g.unparen(n.Fun).(*ast.SelectorExpr); ok && isIdent(sel.X, g.recv) && sel.Sel.Name == "parseConfig" {
					g.must(len(n.Args) == 1 && !n.Ellipsis.IsValid(), n, "parseConfig takes the protocol version")
					calls = append(calls, g.protoConst(n.Args[0]))
				}
			case *ast.SelectorExpr:
				if id, ok := n.X.(*ast.Ident); ok && id.Name == g.recv {
					g.must(n.Sel.Name != "v", n, "the viper instance is touched after the file was read (a setting changed now, a second read, a merge: what is parsed would not be what ReadInConfig() delivered for the settings above)")
					if n.Sel.Name == "parseConfig" || n.Sel.Name == "Server6" || n.Sel.Name == "Server4" {
						okUse[id] = true
					}
				}
			case *ast.ReturnStmt:
				for _, r := range n.Results {
					if id, ok := g.unparen(r).(*ast.Ident); ok && id.Name == g.recv {
						okUse[id] = true
					}
				}
			}
			return true
		})
	}
	for _, s := range g.tail {
		ast.Inspect(s, func(n ast.Node) bool {
			if id, ok := n.(*ast.Ident); ok && id.Name == g.recv && !okUse[id] {
				g.fail(id, "after the file was read the configuration variable may only be the receiver of parseConfig, read through .Server6 / .Server4, and returned (assigned, shadowed or passed on, it may stop being the configuration whose instance read the file)")
			}
			return true
		})
	}
	// `c.parseConfig` only as a call
	n := 0
	for _, s := range g.tail {
		ast.Inspect(s, func(x ast.Node) bool {
			if sel, ok := x.(*ast.SelectorExpr); ok && isIdent(sel.X, g.recv) && sel.Sel.Name == "parseConfig" {
				n++
			}
			return true
		})
	}
	g.must(n == len(calls), g.tail[0], "parseConfig of the configuration is used as a value, not called")
	return calls
}

const gen20Header = `-- GENERATED by harness gen -unit configload from config/config.go (the front of Load: New, the viper set-up, ReadInConfig) — do not edit
-- Regenerated from the Go source on every run; Props/GenConfigLoad.lean proves these definitions
-- equal to the hand-written model in Model/ConfigLoad.lean.
import CoreDhcp.Model.ConfigLoad
set_option linter.unusedVariables false
namespace CoreDhcp.GenConfigLoad
open ConfigLoad

/-! Fixed vocabulary (not derived from the source; the table is in the header of gen20.go).  ` + "`path`" + ` = the parameter of ` + "`Load`" + `;
` + "`v0 := Settings.fresh`" + ` = ` + "`c := New()`" + `, New being ` + "`return &Config{v: viper.New()}`" + `; ` + "`vk := vj.setConfigType t`" + ` etc. = the set-up
call ` + "`c.v.SetConfigType(t)`" + ` etc. on THAT instance, in the order of this path through the function;
` + "`w.readInConfig vk`" + ` = ` + "`c.v.ReadInConfig()`" + ` (out of the repository: an input), none = it returned an error — ` + "`Load`" + ` returns
` + "`(nil, err)`" + ` —, some raw = nil, the instance holds raw; ` + "`tail raw`" + ` = the statements of ` + "`Load`" + ` after the test of that error
(unit config: ` + "`GenCfg.load`" + `), run on the configuration whose instance read the file.  The first component of the result
is the state of the instance at the moment of the read.  Log statements ↦ nothing (arguments checked). -/

`

func runGen20(srcPath, outPath string) {
	die := func(a ...interface{}) {
		fmt.Fprintln(os.Stderr, append([]interface{}{"gen:"}, a...)...)
		os.Exit(2)
	}
	if srcPath == "" {
		srcPath = cfgSrc
	}
	u := &f7{gen: &gen{fset: token.NewFileSet()}, imports: map[string]string{}, pkgVars: map[string]*ast.ValueSpec{},
		funcs: map[string]*ast.FuncDecl{}, errsSeen: map[string]bool{}, loaders: map[string]string{}, used: map[string]int{}}
	g := &g20{f7: u, consts: map[string]*ast.ValueSpec{}, methods: map[string]*ast.FuncDecl{}}
	file, err := parser.ParseFile(u.fset, srcPath, nil, parser.SkipObjectResolution)
	if err != nil {
		die("parse:", err)
	}
	for _, im := range file.Imports {
		p, _ := strconv.Unquote(im.Path.Value)
		name := filepath.Base(p)
		if im.Name != nil {
			name = im.Name.Name
		}
		u.must(name != "." && name != "_", im, "dot and blank imports unsupported")
		u.must(u.imports[name] == "", im, "two imports under one name")
		u.imports[name] = p
		if want, ok := f7pkgs[name]; ok {
			u.must(p == want, im, "package name %s stands for %s in the vocabulary", name, want)
		}
		u.must((name == "viper") == (p == viperPath), im, "the package %s must be imported under the name viper, and nothing else under that name", viperPath)
	}
	u.must(u.imports["viper"] == viperPath, file.Name, "the file does not import %s", viperPath)
	for _, d := range file.Decls {
		switch d := d.(type) {
		case *ast.FuncDecl:
			if d.Recv == nil {
				u.must(u.funcs[d.Name.Name] == nil, d.Name, "function declared twice")
				u.funcs[d.Name.Name] = d
			} else {
				g.methods[d.Name.Name] = d
			}
		case *ast.GenDecl:
			if d.Tok != token.VAR && d.Tok != token.CONST {
				continue
			}
			for _, sp := range d.Specs {
				v := sp.(*ast.ValueSpec)
				for _, n := range v.Names {
					u.must(u.pkgVars[n.Name] == nil, n, "declared twice")
					u.pkgVars[n.Name] = v
					if d.Tok == token.CONST {
						g.consts[n.Name] = v
					}
				}
			}
		}
	}
	for b := range f7builtins {
		u.must(u.pkgVars[b] == nil && u.funcs[b] == nil && u.imports[b] == "", file.Name, "the builtin `%s` is redefined", b)
	}
	f := g.get("Load")
	g.load = f
	ps := g.signature(f, f.Type, "*Config", "error")
	g.paramTypes(f.Type, ps, "string")
	g.fresh(ps[0].id)
	g.param = ps[0].id.Name
	g.checkFile(file, srcPath)

	body := g.block(f.Body.List, s20{}, true, nil, f.Body)
	calls := g.checkTail()

	out := gen20Header
	out += def("`Load(path)` of config/config.go from its first statement through the test of the error of `c.v.ReadInConfig()`; `tail` = the statements after it.  Translated from its go/ast",
		"load {ρ τ : Type} (path : String) (w : World ρ) (tail : ρ → τ) : Run τ", body)
	out += def("the calls `c.parseConfig(K)` among the statements after the read, on the configuration whose instance read the file: the K's (values of the constants), in source order",
		"tailCalls : List Nat", "["+strings.Join(calls, ", ")+"]")
	out += "end CoreDhcp.GenConfigLoad\n"
	if err := os.WriteFile(outPath, []byte(out), 0o644); err != nil {
		die(err)
	}
	fmt.Printf("gen: wrote %s (%d bytes) from %s\n", outPath, len(out), srcPath)
}
