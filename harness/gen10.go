// gen10.go — `harness gen -unit config`: loading the configuration, regenerated as Lean definitions
// (namespace CoreDhcp.GenCfg, file CoreDhcp/Generated/Config.lean) from the go/ast of
//
//	config/config.go   protoVersionCheck, splitHostPort, getListenAddress, expandLLMulticast (+ its loop),
//	                   defaultListen, parseListen (+ its loop), parsePlugins (+ its loop), getPlugins,
//	                   parseConfig, and Load from the statement after `c.v.ReadInConfig()` on
//
// Props/GenConfig.lean proves the generated definitions equal to the hand-written model
// (Model/Config.lean).  `-src file.go` reads another file (negative tests).
//
// Like the other units the translator goes through the functions statement by statement, knows ONLY
// the constructs these functions use, and fails loudly (source position, exit code 2) on everything else.
//
// TRANSLATION SCHEME
//   - a function is a decision tree: `if` ↦ `if … then … else …` or a two/three-armed `match`; an `if` that
//     does not return gets the rest of the enclosing block duplicated into its arms (no joins);
//     `switch ver { case K: … default: … }` ↦ an `if ver = K` chain in source order, default last
//   - `(T, error)` ↦ `Out T` (`.ok v`, `.error e`, `.panic`); `error` of protoVersionCheck ↦ `Option Err`;
//     the named results of splitHostPort ↦ `Option (ip × zone × port)`, none = `err != nil`
//   - a `for … range` loop ↦ a body definition (one round: `.ok acc` = continue / end of the body,
//     `.error e` = the function returns that error) and a structural recursion over the list
//   - a test whose outcome is known on the path (a variable just assigned a non-nil value, an error already
//     tested) is decided by the translator: only the branch taken is translated
//   - Go names never reach the generated text (Lean names = kind + number along the path): renaming a local,
//     reformatting, moving a log line regenerate the same file; match arms are printed failure arm first
//
// DERIVED FROM THE AST: the order of all tests, their operators and operands, which error each returns, the
// two SplitHostPort attempts and which results each overwrites, the zone split, the wildcard per protocol,
// the family test, the default port per protocol (numbers read from the library source), what is put into
// the UDPAddr, the alias prefix, the nil-listen default, the string-slice conversion and its fallback, the
// expansion condition, the interface flags per family, the default addresses (read from the library
// source), the plugin item tests, `strings.Fields` of the value, the protocol order in Load.
//
// FIXED VOCABULARY (the meaning of a recognised Go expression; inputs are `env : Env`, `cfg : RawConfig`)
//
//	Go                                                Lean
//	------------------------------------------------  --------------------------------------------------
//	ver (protocolVersion), protocolV6 / protocolV4    ver : Nat; the numbers of the const block (6 / 4)
//	c.v.Get(fmt.Sprintf("server%d", ver))             cfg.section ver  : Option RawSection   (nil ↦ none)
//	c.v.Get(fmt.Sprintf("server%d.listen", ver))      cfg.listen ver   : Option CastView     (nil ↦ none)
//	c.v.Get(fmt.Sprintf("server%d.interface", ver))   cfg.iface ver    : Option CastView     (nil ↦ none)
//	cast.ToSlice(c.v.Get(fmt.Sprintf(                 cfg.plugins ver  : Option (List ItemRaw); none = the nil
//	    "server%d.plugins", ver)))                       slice (cast returns nil for a non-list AND for an empty list)
//	x == nil / != nil, x one of the above             alone in an `if`: match … | none | some b; under && ||: .isNone/.isSome
//	cast.ToString(x), x a non-nil value of Get        b.str            (CastView.str)
//	cast.ToStringSliceE(x), same                      b.sliceE         (none = error)
//	an interface{} variable assigned a Go string s    castStr env s = ⟨s, some (env.fieldsOf s)⟩: ToString is s itself,
//	                                                  ToStringSliceE of a string is strings.Fields, never an error
//	cast.ToStringMap(val), val an item of the list    the item itself : Option (List (String × String)): none = nil map,
//	                                                  else the entries (key, cast.ToString(value)), keys distinct
//	for k, v := range conf { …; break }               the entry conf.head? — only where len(conf) == 1 is known
//	cast.ToString(v), v the value of that entry       the second component
//	strings.Fields(s)                                 env.fieldsOf s
//	net.SplitHostPort(hostport)                       o.shp   (none = error, then "" "" is assigned)
//	net.SplitHostPort(hostport + ":0"), host only     o.shp0  (none = error, then "" is assigned)
//	strings.LastIndexByte(s, '%') with `i >= 0`,      match lastPercent s.toList with | none | some i;
//	   s[:i], s[i+1:]                                    String.ofList (s.toList.take i) / (… .drop (i + 1))
//	net.ParseIP(s) in getListenAddress                lookupIP o s : IPKind  (.none = nil, .v4 = To4() != nil)
//	strconv.Atoi(p), p the port of splitHostPort      o.atoi  (none = error)
//	c.getListenAddress(a, ver), a a listen string     withOracle env a (getListenAddress ver): the answers recorded
//	                                                  for a; no record ↦ .error .noOracle (as the model does)
//	ip == nil · ip.To4() == nil                       ip = IPKind.none · to4Nil ip = true
//	net.IPv4zero · net.IPv6unspecified                IPKind.v4 0#32 · IPKind.v6 ⟨0#64, 0#64⟩
//	x.IsLinkLocalMulticast() / IsInterfaceLocal…      isLLMulticast x = true / isIfaceLocalMulticast x = true (the model's)
//	net.UDPAddr{IP, Port, Zone} · *p · &x             { ip, port, zone : UDPAddr } (missing field = nil / 0 / "") · p · x
//	net.Interfaces()                                  env.ifs : Option (List Iface)   (none = error)
//	net.FlagMulticast · net.FlagBroadcast · | · &     ⟨true, false⟩ · ⟨false, true⟩ : Flags · Flags.or · Flags.and
//	iface.Flags · iface.Name                          i.flags = ⟨i.multi, i.bcast⟩ · i.name
//	dhcpv4.ServerPort, dhcpv6.DefaultServerPort,      the literals of the library source (…/dhcpv4/defaults.go,
//	dhcpv6.AllDHCPRelayAgentsAndServers, …Servers     …/dhcpv6/defaults.go; net.ParseIP("…") literal ↦ IPKind.v6 ⟨hi, lo⟩)
//	make([]T, 0, n) · []T{} · append(a, x) / (a, b...) [] · [] · a ++ [x] / a ++ b
//	PluginConfig{Name, Args} · ServerConfig{…}        (name, args) · { addrs, plugins : ServerConfig }
//	c.Server6 / c.Server4 (New() leaves them nil)     st.s6 / st.s4 : Option ServerConfig;  c.ServerN = &sc ↦ { st with sN := some sc }
//	ConfigErrorFromString / errors.New / fmt.Errorf   a constructor of GenCfg.Err, keyed by function and literal text
//	                                                  (table cfgErrs); a changed text is an unknown text: exit 2
//	panic("…")                                        .panic
//	log.<Level>(…), a loop that only logs             nothing — arguments checked to be free of side effects
//	Load: everything before `c.v.ReadInConfig()`      not translated HERE (unit configload, gen20.go, translates it and hands over at
//	                                                  the statement after the test of that error); checked to be `c := New()` plus
//	                                                  viper set-up calls
package main

import (
	"fmt"
	"go/ast"
	"go/parser"
	"go/token"
	"net"
	"os"
	"path/filepath"
	"sort"
	"strconv"
	"strings"
)

const cfgSrc = "/repo/config/config.go"

var cfgPkgs = map[string]string{
	"errors": "errors", "fmt": "fmt", "net": "net", "strconv": "strconv", "strings": "strings",
	"logger": "github.com/coredhcp/coredhcp/logger",
	"dhcpv4": "github.com/insomniacslk/dhcp/dhcpv4",
	"dhcpv6": "github.com/insomniacslk/dhcp/dhcpv6",
	"cast":   "github.com/spf13/cast",
	"viper":  "github.com/spf13/viper",
}

// error values: function | constructor function | literal text ↦ constructor of GenCfg.Err
var cfgErrs = []struct{ fn, ctor, text, name string }{
	{"protoVersionCheck", "fmt.Errorf", "invalid protocol version: %d", "badVersion"},
	{"parsePlugins", "ConfigErrorFromString", "dhcpv6: plugin #%d is not a string map", "notStringMap"},
	{"parsePlugins", "ConfigErrorFromString", "dhcpv6: exactly one plugin per item can be specified", "notOneKey"},
	{"getListenAddress", "ConfigErrorFromString", "dhcpv%d: %v", "badHostPort"},
	{"getListenAddress", "ConfigErrorFromString", "dhcpv%d: invalid IP address in `listen` directive: %s", "invalidIP"},
	{"getListenAddress", "ConfigErrorFromString", "dhcpv%d: not a valid IPv%d address in `listen` directive: '%s'", "wrongFamily"},
	{"getListenAddress", "ConfigErrorFromString", "dhcpv%d: invalid `listen` port '%s'", "invalidPort"},
	{"getPlugins", "ConfigErrorFromString", "dhcpv%d: invalid plugins section, not a list or no plugin specified", "noPlugins"},
	{"expandLLMulticast", "errors.New", "Address is not multicast", "notMulticast"},
	{"expandLLMulticast", "errors.New", "Address is already zoned", "alreadyZoned"},
	{"expandLLMulticast", "fmt.Errorf", "Could not list network interfaces: %v", "ifaceList"},
	{"expandLLMulticast", "errors.New", "No suitable interface found for multicast listener", "noIface"},
	{"defaultListen", "errors.New", "defaultListen: Incorrect protocol version", "defaultVersion"},
	{"parseListen", "ConfigErrorFromString", "interface is a deprecated alias for listen, both cannot be used at the same time. Choose one and remove the other.", "listenAndInterface"},
	{"Load", "ConfigErrorFromString", "need at least one valid config for DHCPv6 or DHCPv4", "needOne"},
}

var cfgBuiltins = set("nil", "true", "false", "len", "cap", "make", "append", "copy", "new", "panic", "delete", "error", "string", "int", "byte")

// Lean type of a value kind
var cfgLeanType = map[string]string{
	"ver": "Nat", "str": "String", "ip": "IPKind", "int": "Int", "addr": "UDPAddr", "addrs": "List UDPAddr",
	"strs": "List String", "flags": "Flags", "plugins": "List (String × List String)", "iface": "Iface",
	"item": "ItemRaw", "sconf": "ServerConfig",
}

// prefix of the Lean names of a value kind
var cfgPrefix = map[string]string{
	"str": "s", "ip": "ip", "int": "n", "addr": "a", "addrs": "l", "strs": "ss", "flags": "fl", "plugins": "ps",
	"sconf": "sc", "cast": "c", "smap": "m", "items": "items", "ifaces": "ifs", "idx": "i", "servers": "st", "err": "e",
}

// cv: a symbolic value.
type cv struct {
	kind string // ver str ip int addr addrs strs flags plugins sconf iface item | cast smap mapval items ifaces servers
	//             | opt (nil-testable, not yet tested) | nil (known nil) | err | to4 lastidx idx opaque hostport oracle
	lean   string
	inner  string // opt: kind of the value when non-nil
	origin string // str: "port" = the port result of splitHostPort; idx / lastidx: Lean text of the string indexed
	any    bool   // the Go variable has static type interface{}
	// err
	pend   *cpend // the call whose error this is, not yet tested
	errVal string // known non-nil: the Err it stands for ("" = a library error: can only be shown or wrapped)
	isNil  bool   // known nil
	unused bool   // a result that may not be read before the error is tested
}

// cpend: a call with an error (or nil-able) result that has not been tested yet: the test emits the match.
type cpend struct {
	scrut   string
	failPat string
	okPat   string
	panic   bool          // three arms: `.panic => .panic`
	fail    map[string]cv // Go variable ↦ value in the failure arm
	ok      map[string]cv // Go variable ↦ value in the success arm
	errVal  string
}

// cst: the symbolic state along one path (copy on write).
type cst struct {
	vars map[string]cv
	cnt  map[string]int
	defd map[string]bool // names defined in the current block
	len1 map[string]bool // Lean names of maps known to have exactly one entry
}

func (st cst) set(name string, v cv) cst {
	n := map[string]cv{name: v}
	for k, x := range st.vars {
		if k != name {
			n[k] = x
		}
	}
	st.vars = n
	return st
}

func (st cst) define(name string, v cv) cst {
	st = st.set(name, v)
	d := map[string]bool{name: true}
	for k := range st.defd {
		d[k] = true
	}
	st.defd = d
	return st
}

func (st cst) fresh(prefix string) (string, cst) {
	n := map[string]int{}
	for k, v := range st.cnt {
		n[k] = v
	}
	n[prefix]++
	st.cnt = n
	return prefix + strconv.Itoa(n[prefix]), st
}

func (st cst) withLen1(m string) cst {
	n := map[string]bool{m: true}
	for k := range st.len1 {
		n[k] = true
	}
	st.len1 = n
	return st
}

// leave: back in the enclosing block: the names defined inside go out of scope (a shadowed outer variable is
// the outer one again); the values assigned to outer variables and the name counters stay.
func leave(outer, inner cst) cst {
	vars := map[string]cv{}
	for k, v := range outer.vars {
		if inner.defd[k] {
			vars[k] = v
		} else if w, ok := inner.vars[k]; ok {
			vars[k] = w
		}
	}
	return cst{vars: vars, cnt: inner.cnt, defd: outer.defd, len1: inner.len1}
}

// cfn: the function being translated.
type cfn struct {
	name    string
	kind    string // check | shp | pair | err | load
	ctx     string // the Lean context parameters every call from this function can pass on
	recv    string // name of the receiver variable ("" = none)
	inLoop  bool
	accGo   string // loop body: Go name of the accumulator
	results []string
}

type cgen struct {
	*gen
	imports  map[string]string
	pkgNames map[string]bool
	funcs    map[string]*ast.FuncDecl
	consts   map[string]string // protocolV6 ↦ "6", dhcpv4.ServerPort ↦ "67", dhcpv6.AllDHCPServers ↦ IPKind.v6 ⟨…⟩
	ckind    map[string]string
	loops    map[ast.Node]string
	loopDefs []string
	nloops   map[string]int
	errsSeen map[string]bool
}

func (g *cgen) unparen(x ast.Expr) ast.Expr {
	for {
		p, ok := x.(*ast.ParenExpr)
		if !ok {
			return x
		}
		x = p.X
	}
}

func (g *cgen) shadowed(name string, st cst) bool {
	_, l := st.vars[name]
	return l || g.pkgNames[name]
}

// pkgSel: x is `pkg.Name`, pkg an imported package of the vocabulary that nothing shadows.
func (g *cgen) pkgSel(x ast.Expr, st cst) (string, bool) {
	s, ok := g.unparen(x).(*ast.SelectorExpr)
	if !ok {
		return "", false
	}
	id, ok := s.X.(*ast.Ident)
	if !ok || cfgPkgs[id.Name] == "" || g.shadowed(id.Name, st) {
		return "", false
	}
	g.must(g.imports[id.Name] == cfgPkgs[id.Name], x, "`%s` is not the package %s here", id.Name, cfgPkgs[id.Name])
	return id.Name + "." + s.Sel.Name, true
}

// pkgCall: x is the call `pkg.Name(args)` with nargs arguments, no spread.
func (g *cgen) pkgCall(x ast.Expr, name string, nargs int, st cst) (*ast.CallExpr, bool) {
	c, ok := g.unparen(x).(*ast.CallExpr)
	if !ok {
		return nil, false
	}
	n, ok := g.pkgSel(c.Fun, st)
	if !ok || n != name {
		return nil, false
	}
	g.must(len(c.Args) == nargs && !c.Ellipsis.IsValid(), c, "%s takes %d argument(s)", name, nargs)
	return c, true
}

func (g *cgen) builtin(x ast.Expr, name string, st cst) bool {
	id, ok := g.unparen(x).(*ast.Ident)
	return ok && id.Name == name && !g.shadowed(name, st) && g.imports[name] == ""
}

func (g *cgen) isNil(x ast.Expr, st cst) bool { return g.builtin(x, "nil", st) }

func (g *cgen) variable(x ast.Expr, st cst) (string, cv, bool) {
	id, ok := g.unparen(x).(*ast.Ident)
	if !ok {
		return "", cv{}, false
	}
	v, ok := st.vars[id.Name]
	return id.Name, v, ok
}

func (g *cgen) freshLocal(id *ast.Ident, st cst) {
	_, isPkg := g.imports[id.Name]
	g.must(!isPkg && !g.pkgNames[id.Name] && !cfgBuiltins[id.Name], id,
		"variable name clashes with a name that already has a meaning (package, package-level name, builtin)")
}

// strConst: a string literal, or a concatenation of string literals.
func (g *cgen) strConst(x ast.Expr) (string, bool) {
	switch x := g.unparen(x).(type) {
	case *ast.BasicLit:
		if x.Kind != token.STRING {
			return "", false
		}
		s, err := strconv.Unquote(x.Value)
		return s, err == nil
	case *ast.BinaryExpr:
		if x.Op != token.ADD {
			return "", false
		}
		a, ok1 := g.strConst(x.X)
		b, ok2 := g.strConst(x.Y)
		return a + b, ok1 && ok2
	}
	return "", false
}

func leanStr(s string) string {
	var b strings.Builder
	b.WriteByte('"')
	for _, r := range s {
		switch {
		case r == '"' || r == '\\':
			b.WriteByte('\\')
			b.WriteRune(r)
		case r == '\n':
			b.WriteString("\\n")
		case r < 0x20 || r > 0x7e:
			fmt.Fprintf(&b, "\\u{%x}", r)
		default:
			b.WriteRune(r)
		}
	}
	b.WriteByte('"')
	return b.String()
}

// catom parenthesises a Lean term that is not atomic.
func catom(s string) string {
	if !strings.ContainsAny(s, " \n") {
		return s
	}
	if (s[0] == '(' && s[len(s)-1] == ')' && balanced(s[1:len(s)-1])) || (s[0] == '[' && s[len(s)-1] == ']' && balanced(s[1:len(s)-1])) ||
		(s[0] == '"' && s[len(s)-1] == '"' && strings.Count(s, "\"") == 2) || (strings.HasPrefix(s, "⟨") && strings.HasSuffix(s, "⟩") && strings.Count(s, "⟨") == 1) {
		return s
	}
	return "(" + s + ")"
}

func balanced(s string) bool {
	d := 0
	for _, r := range s {
		switch r {
		case '(', '[', '{':
			d++
		case ')', ']', '}':
			d--
			if d < 0 {
				return false
			}
		}
	}
	return d == 0
}

func cArm(pat, body string) string {
	if strings.Contains(body, "\n") {
		return "| " + pat + " =>\n" + indent(body)
	}
	return "| " + pat + " => " + body
}

func cMatch(scrut string, arms ...[2]string) string {
	out := "match " + scrut + " with"
	for _, a := range arms {
		out += "\n" + cArm(a[0], a[1])
	}
	return out
}

// ------------------------------------------------------------------ purity, logging, errors

// pure: an expression that is only shown (log / error message argument, capacity of make): no side effect, no panic.
func (g *cgen) pure(x ast.Expr, st cst) {
	switch x := x.(type) {
	case *ast.ParenExpr:
		g.pure(x.X, st)
	case *ast.BasicLit:
	case *ast.Ident:
		if g.builtin(x, "nil", st) || g.builtin(x, "true", st) || g.builtin(x, "false", st) {
			return
		}
		_, ok := st.vars[x.Name]
		g.must(ok, x, "unknown identifier in an expression that is only shown")
	case *ast.SelectorExpr:
		_, v, ok := g.variable(x.X, st)
		g.must(ok && set("opaque", "addr", "iface", "sconf")[v.kind], x, "unsupported selector in an expression that is only shown")
	case *ast.CallExpr:
		g.must(g.builtin(x.Fun, "len", st) && len(x.Args) == 1 && !x.Ellipsis.IsValid(), x,
			"call in an expression that is only shown is not known to be free of side effects (only len)")
		g.pure(x.Args[0], st)
	default:
		g.fail(x, "unsupported expression in the arguments of a log or error message")
	}
}

func (g *cgen) isLog(s ast.Stmt, st cst) bool {
	e, ok := s.(*ast.ExprStmt)
	if !ok {
		return false
	}
	c, ok := e.X.(*ast.CallExpr)
	if !ok {
		return false
	}
	sel, ok := c.Fun.(*ast.SelectorExpr)
	if !ok || !isIdent(sel.X, "log") {
		return false
	}
	_, shadow := st.vars["log"]
	g.must(g.pkgNames["log"] && g.imports["log"] == "" && !shadow, s, "`log` is not the package-level logger")
	g.must(h4logLevels[sel.Sel.Name], s, "log.%s is not a plain log statement", sel.Sel.Name)
	g.must(!c.Ellipsis.IsValid(), s, "log call with a spread argument")
	for _, a := range c.Args {
		g.pure(a, st)
	}
	return true
}

// errVal: an expression of type error that is not nil ↦ a value of GenCfg.Err.
func (g *cgen) errVal(x ast.Expr, st cst, fc *cfn) string {
	x = g.unparen(x)
	if _, v, ok := g.variable(x, st); ok && v.kind == "err" {
		g.must(v.pend == nil && !v.isNil, x, "error variable returned on a path where it is not known to be non-nil")
		g.must(v.errVal != "", x, "a library error returned as it is has no constructor of GenCfg.Err")
		return v.errVal
	}
	c, ok := x.(*ast.CallExpr)
	g.must(ok && len(c.Args) >= 1 && !c.Ellipsis.IsValid(), x, "unknown error value")
	ctor := ""
	if fn, ok := g.pkgSel(c.Fun, st); ok && (fn == "errors.New" || fn == "fmt.Errorf") {
		ctor = fn
	} else if g.builtinFunc(c.Fun, "ConfigErrorFromString", st) {
		ctor = "ConfigErrorFromString"
	}
	g.must(ctor != "", x, "unknown error value (only errors.New, fmt.Errorf, ConfigErrorFromString, or the error of a call)")
	text, ok := g.strConst(c.Args[0])
	g.must(ok, c.Args[0], "the text of an error must be a string literal")
	for _, e := range cfgErrs {
		if e.fn == fc.name && e.ctor == ctor && e.text == text {
			g.must(strings.Count(text, "%") == len(c.Args)-1, c, "the text has %d verbs, %d arguments are given", strings.Count(text, "%"), len(c.Args)-1)
			for _, a := range c.Args[1:] {
				g.pure(a, st)
			}
			g.errsSeen[e.name] = true
			return "." + e.name
		}
	}
	g.fail(x, "unknown error text in %s (no constructor of GenCfg.Err for %s with this text; table cfgErrs of gen10.go)", fc.name, ctor)
	return ""
}

// builtinFunc: x is the package-level function `name` of config.go, not shadowed by a local.
func (g *cgen) builtinFunc(x ast.Expr, name string, st cst) bool {
	id, ok := g.unparen(x).(*ast.Ident)
	if !ok || id.Name != name {
		return false
	}
	_, shadow := st.vars[name]
	return !shadow
}

// ------------------------------------------------------------------ values

// getKey: x is `c.v.Get(fmt.Sprintf("server%d<suffix>", ver))`; returns the suffix.
func (g *cgen) getKey(x ast.Expr, st cst, fc *cfn) (string, bool) {
	c, ok := g.unparen(x).(*ast.CallExpr)
	if !ok {
		return "", false
	}
	sel, ok := c.Fun.(*ast.SelectorExpr)
	if !ok {
		return "", false
	}
	in, ok := sel.X.(*ast.SelectorExpr)
	if !ok || fc.recv == "" || !isIdent(in.X, fc.recv) || in.Sel.Name != "v" {
		return "", false
	}
	g.must(sel.Sel.Name == "Get", x, "unknown viper call c.v.%s (only Get has a meaning in the model)", sel.Sel.Name)
	g.must(len(c.Args) == 1 && !c.Ellipsis.IsValid(), x, "c.v.Get takes one argument")
	f, ok := g.pkgCall(c.Args[0], "fmt.Sprintf", 2, st)
	g.must(ok, c.Args[0], "the key of c.v.Get must be fmt.Sprintf(\"server%%d…\", ver)")
	key, ok := g.strConst(f.Args[0])
	g.must(ok && strings.HasPrefix(key, "server%d"), f.Args[0], "the key of c.v.Get must be the literal \"server%%d\" + a known suffix")
	_, v, ok := g.variable(f.Args[1], st)
	g.must(ok && v.kind == "ver" && v.lean == "ver", f.Args[1], "the section number of the key must be the protocol version parameter")
	suffix := strings.TrimPrefix(key, "server%d")
	g.must(set("", ".listen", ".interface", ".plugins")[suffix], f.Args[0], "unknown configuration key (the model knows serverN, .listen, .interface, .plugins)")
	return suffix, true
}

// ipLit: net.ParseIP("literal") of the library source ↦ an IPKind.
func (g *cgen) ipLit(at ast.Node, s string) string {
	ip := net.ParseIP(s)
	g.must(ip != nil, at, "net.ParseIP(%q) of the library source is not an address", s)
	if v4 := ip.To4(); v4 != nil {
		return fmt.Sprintf("IPKind.v4 0x%02x%02x%02x%02x#32", v4[0], v4[1], v4[2], v4[3])
	}
	b := []byte(ip.To16())
	return fmt.Sprintf("IPKind.v6 ⟨0x%x#64, 0x%x#64⟩", b[:8], b[8:])
}

// fieldsOf: the elements `Key: value` of a composite literal, by key; only the keys given.
func (g *cgen) fieldsOf(cl *ast.CompositeLit, what string, keys ...string) map[string]ast.Expr {
	out := map[string]ast.Expr{}
	for _, e := range cl.Elts {
		kv, ok := e.(*ast.KeyValueExpr)
		g.must(ok, e, "expected `Field: value` in %s{…}", what)
		k, ok := kv.Key.(*ast.Ident)
		g.must(ok && set(keys...)[k.Name] && out[k.Name] == nil, kv.Key, "unknown or repeated field of %s (known: %s)", what, strings.Join(keys, ", "))
		out[k.Name] = kv.Value
	}
	return out
}

func (g *cgen) want(x ast.Expr, st cst, fc *cfn, kind string) cv {
	v := g.val(x, st, fc)
	g.must(v.kind == kind, x, "expected a value of kind %s, found %s", kind, v.kind)
	return v
}

// udpAddr: the fields of a net.UDPAddr literal ↦ a UDPAddr.
func (g *cgen) udpAddr(cl *ast.CompositeLit, st cst, fc *cfn) cv {
	f := g.fieldsOf(cl, "net.UDPAddr", "IP", "Port", "Zone")
	ip, port, zone := "IPKind.none", "0", `""`
	if f["IP"] != nil {
		ip = g.want(f["IP"], st, fc, "ip").lean
	}
	if f["Port"] != nil {
		port = g.want(f["Port"], st, fc, "int").lean
	}
	if f["Zone"] != nil {
		zone = g.want(f["Zone"], st, fc, "str").lean
	}
	return cv{kind: "addr", lean: "({ ip := " + ip + ", port := " + port + ", zone := " + zone + " } : UDPAddr)"}
}

func (g *cgen) typeIs(x ast.Expr, st cst, want string) bool {
	switch want {
	case "net.UDPAddr":
		n, ok := g.pkgSel(x, st)
		return ok && n == want
	case "PluginConfig", "ServerConfig", "string":
		id, ok := x.(*ast.Ident)
		if !ok || id.Name != want {
			return false
		}
		_, shadow := st.vars[want]
		return !shadow && (want == "string" || g.pkgNames[want])
	}
	return false
}

// val: the value of an expression.
func (g *cgen) val(x ast.Expr, st cst, fc *cfn) cv {
	x = g.unparen(x)
	switch x := x.(type) {
	case *ast.BasicLit:
		if s, ok := g.strConst(x); ok {
			return cv{kind: "str", lean: leanStr(s)}
		}
	case *ast.Ident:
		if v, ok := st.vars[x.Name]; ok {
			g.must(!v.unused, x, "variable read on a path where the error of the call that gave it has not been tested (or is non-nil)")
			g.must(v.kind != "err", x, "an error variable is not a value here")
			return v
		}
		if n, ok := g.consts[x.Name]; ok && g.ckind[x.Name] == "ver" {
			return cv{kind: "ver", lean: n}
		}
		g.fail(x, "unknown identifier")
	case *ast.StarExpr:
		v := g.val(x.X, st, fc)
		g.must(v.kind == "addr", x, "dereference of something that is not a *net.UDPAddr")
		return v
	case *ast.UnaryExpr:
		g.must(x.Op == token.AND, x, "unsupported unary operator %s", x.Op)
		v := g.val(x.X, st, fc)
		g.must(v.kind == "addr" || v.kind == "sconf", x, "address of something that is not a net.UDPAddr or a ServerConfig")
		return v
	case *ast.SelectorExpr:
		if n, ok := g.pkgSel(x, st); ok {
			switch n {
			case "net.IPv4zero":
				return cv{kind: "ip", lean: "IPKind.v4 0#32"}
			case "net.IPv6unspecified":
				return cv{kind: "ip", lean: "IPKind.v6 ⟨0#64, 0#64⟩"}
			case "net.FlagMulticast":
				return cv{kind: "flags", lean: "(⟨true, false⟩ : Flags)"}
			case "net.FlagBroadcast":
				return cv{kind: "flags", lean: "(⟨false, true⟩ : Flags)"}
			}
			if c, ok := g.consts[n]; ok {
				return cv{kind: g.ckind[n], lean: c}
			}
			g.fail(x, "unknown library name (no meaning in the model)")
		}
		if name, v, ok := g.variable(x.X, st); ok {
			g.must(!v.unused, x.X, "variable read on a path where the error of the call that gave it has not been tested")
			switch {
			case v.kind == "addr" && x.Sel.Name == "IP":
				return cv{kind: "ip", lean: catom(v.lean) + ".ip"}
			case v.kind == "addr" && x.Sel.Name == "Zone":
				return cv{kind: "str", lean: catom(v.lean) + ".zone"}
			case v.kind == "addr" && x.Sel.Name == "Port":
				return cv{kind: "int", lean: catom(v.lean) + ".port"}
			case v.kind == "iface" && x.Sel.Name == "Name":
				return cv{kind: "str", lean: v.lean + ".name"}
			case v.kind == "iface" && x.Sel.Name == "Flags":
				return cv{kind: "flags", lean: v.lean + ".flags"}
			case name == fc.recv && (x.Sel.Name == "Server6" || x.Sel.Name == "Server4"):
				s, ok := st.vars["·servers"]
				g.must(ok, x, "the server configurations are not part of this function's state")
				return cv{kind: "opt", lean: s.lean + ".s" + strings.TrimPrefix(x.Sel.Name, "Server"), inner: "sconf"}
			}
		}
		g.fail(x, "unsupported selector")
	case *ast.BinaryExpr:
		switch x.Op {
		case token.ADD:
			a, b := g.val(x.X, st, fc), g.val(x.Y, st, fc)
			g.must(a.kind == "str" && b.kind == "str", x, "+ is only supported on strings")
			return cv{kind: "str", lean: catom(a.lean) + " ++ " + catom(b.lean)}
		case token.OR, token.AND:
			a, b := g.val(x.X, st, fc), g.val(x.Y, st, fc)
			g.must(a.kind == "flags" && b.kind == "flags", x, "%s is only supported on interface flags", x.Op)
			return cv{kind: "flags", lean: map[token.Token]string{token.OR: "Flags.or ", token.AND: "Flags.and "}[x.Op] + catom(a.lean) + " " + catom(b.lean)}
		}
		g.fail(x, "unsupported operator %s in a value", x.Op)
	case *ast.SliceExpr:
		return g.slice(x, st, fc)
	case *ast.CompositeLit:
		return g.composite(x, st, fc)
	case *ast.CallExpr:
		return g.callVal(x, st, fc)
	}
	g.fail(x, "unsupported expression")
	return cv{}
}

// slice: s[:i] / s[i+1:], i the index strings.LastIndexByte found in s.
func (g *cgen) slice(x *ast.SliceExpr, st cst, fc *cfn) cv {
	g.must(!x.Slice3, x, "unsupported slice")
	s := g.val(x.X, st, fc)
	g.must(s.kind == "str", x, "slice of something that is not a string")
	idx := func(e ast.Expr) cv {
		_, v, ok := g.variable(e, st)
		g.must(ok && v.kind == "idx", e, "a slice bound must be the index strings.LastIndexByte found (known to be >= 0)")
		g.must(v.origin == s.lean, e, "the index was found in another string than the one sliced")
		return v
	}
	switch {
	case x.Low == nil && x.High != nil:
		return cv{kind: "str", lean: "String.ofList (" + catom(s.lean) + ".toList.take " + idx(x.High).lean + ")"}
	case x.Low != nil && x.High == nil:
		b, ok := g.unparen(x.Low).(*ast.BinaryExpr)
		g.must(ok && b.Op == token.ADD, x.Low, "the lower bound must be i+1")
		l, ok := g.unparen(b.Y).(*ast.BasicLit)
		g.must(ok && l.Kind == token.INT && l.Value == "1", x.Low, "the lower bound must be i+1")
		return cv{kind: "str", lean: "String.ofList (" + catom(s.lean) + ".toList.drop (" + idx(b.X).lean + " + 1))"}
	}
	g.fail(x, "unsupported slice bounds (only s[:i] and s[i+1:])")
	return cv{}
}

func (g *cgen) composite(x *ast.CompositeLit, st cst, fc *cfn) cv {
	g.must(x.Type != nil, x, "composite literal without a type")
	if arr, ok := x.Type.(*ast.ArrayType); ok {
		g.must(arr.Len == nil, x, "array literal unsupported")
		switch {
		case g.typeIs(arr.Elt, st, "net.UDPAddr"):
			var elts []string
			for _, e := range x.Elts {
				cl, ok := e.(*ast.CompositeLit)
				g.must(ok && (cl.Type == nil || g.typeIs(cl.Type, st, "net.UDPAddr")), e, "expected a net.UDPAddr literal")
				elts = append(elts, g.udpAddr(cl, st, fc).lean)
			}
			return cv{kind: "addrs", lean: "[" + strings.Join(elts, ", ") + "]"}
		case g.typeIs(arr.Elt, st, "string"):
			var elts []string
			for _, e := range x.Elts {
				elts = append(elts, g.want(e, st, fc, "str").lean)
			}
			return cv{kind: "strs", lean: "[" + strings.Join(elts, ", ") + "]"}
		}
		g.fail(x, "unsupported slice literal (only []net.UDPAddr{…}, []string{…})")
	}
	switch {
	case g.typeIs(x.Type, st, "net.UDPAddr"):
		return g.udpAddr(x, st, fc)
	case g.typeIs(x.Type, st, "PluginConfig"):
		f := g.fieldsOf(x, "PluginConfig", "Name", "Args")
		g.must(f["Name"] != nil && f["Args"] != nil, x, "PluginConfig{…} must give Name and Args")
		return cv{kind: "plug", lean: "(" + g.want(f["Name"], st, fc, "str").lean + ", " + g.want(f["Args"], st, fc, "strs").lean + ")"}
	case g.typeIs(x.Type, st, "ServerConfig"):
		f := g.fieldsOf(x, "ServerConfig", "Addresses", "Plugins")
		g.must(f["Addresses"] != nil && f["Plugins"] != nil, x, "ServerConfig{…} must give Addresses and Plugins")
		return cv{kind: "sconf", lean: "({ addrs := " + g.want(f["Addresses"], st, fc, "addrs").lean + ", plugins := " + g.want(f["Plugins"], st, fc, "plugins").lean + " } : ServerConfig)"}
	}
	g.fail(x, "unsupported composite literal")
	return cv{}
}

func (g *cgen) oracle(at ast.Node, st cst) string {
	for _, v := range st.vars {
		if v.kind == "hostport" {
			return v.lean
		}
	}
	g.fail(at, "this library call has a meaning only where the answers recorded for a listen string are in scope (splitHostPort, getListenAddress)")
	return ""
}

func (g *cgen) callVal(c *ast.CallExpr, st cst, fc *cfn) cv {
	if k, ok := g.getKey(c, st, fc); ok {
		switch k {
		case "":
			return cv{kind: "opt", lean: "cfg.section ver", inner: "section", any: true}
		case ".listen":
			return cv{kind: "opt", lean: "cfg.listen ver", inner: "cast", any: true}
		case ".interface":
			return cv{kind: "opt", lean: "cfg.iface ver", inner: "cast", any: true}
		}
		g.fail(c, "c.v.Get of the plugin list is only supported as the argument of cast.ToSlice")
	}
	if p, ok := g.pkgCall(c, "cast.ToSlice", 1, st); ok {
		k, ok := g.getKey(p.Args[0], st, fc)
		g.must(ok && k == ".plugins", p.Args[0], "cast.ToSlice of something that is not c.v.Get of the plugin list")
		return cv{kind: "opt", lean: "cfg.plugins ver", inner: "items"}
	}
	if p, ok := g.pkgCall(c, "cast.ToStringMap", 1, st); ok {
		v := g.want(p.Args[0], st, fc, "item")
		return cv{kind: "opt", lean: v.lean, inner: "smap"}
	}
	if p, ok := g.pkgCall(c, "cast.ToString", 1, st); ok {
		v := g.val(p.Args[0], st, fc)
		switch v.kind {
		case "cast":
			return cv{kind: "str", lean: v.lean + ".str"}
		case "mapval":
			return cv{kind: "str", lean: v.lean}
		}
		g.fail(p.Args[0], "cast.ToString of a value that is not known to be a non-nil result of c.v.Get or the value of a plugin item")
	}
	if p, ok := g.pkgCall(c, "strings.Fields", 1, st); ok {
		return cv{kind: "strs", lean: "env.fieldsOf " + catom(g.want(p.Args[0], st, fc, "str").lean)}
	}
	if p, ok := g.pkgCall(c, "net.ParseIP", 1, st); ok {
		return cv{kind: "ip", lean: "lookupIP " + g.oracle(c, st) + " " + catom(g.want(p.Args[0], st, fc, "str").lean)}
	}
	if p, ok := g.pkgCall(c, "strings.LastIndexByte", 2, st); ok {
		s := g.want(p.Args[0], st, fc, "str")
		l, ok := g.unparen(p.Args[1]).(*ast.BasicLit)
		g.must(ok && l.Kind == token.CHAR && l.Value == "'%'", p.Args[1], "the byte looked for must be '%%' (the model splits the zone at the last '%%')")
		return cv{kind: "lastidx", origin: s.lean}
	}
	if g.builtin(c.Fun, "make", st) {
		g.must((len(c.Args) == 2 || len(c.Args) == 3) && !c.Ellipsis.IsValid(), c, "only make([]T, 0[, cap]) is supported")
		arr, ok := c.Args[0].(*ast.ArrayType)
		g.must(ok && arr.Len == nil, c.Args[0], "only make([]T, 0[, cap]) is supported")
		l, ok := g.unparen(c.Args[1]).(*ast.BasicLit)
		g.must(ok && l.Kind == token.INT && l.Value == "0", c.Args[1], "a slice must be made empty: make(…, 0[, cap])")
		if len(c.Args) == 3 {
			g.pure(c.Args[2], st)
		}
		switch {
		case g.typeIs(arr.Elt, st, "net.UDPAddr"):
			return cv{kind: "addrs", lean: "[]"}
		case g.typeIs(arr.Elt, st, "PluginConfig"):
			return cv{kind: "plugins", lean: "[]"}
		}
		g.fail(c.Args[0], "make of an unknown element type")
	}
	if g.builtin(c.Fun, "append", st) {
		g.must(len(c.Args) >= 2, c, "append needs a slice and a value")
		a := g.val(c.Args[0], st, fc)
		elem := map[string]string{"addrs": "addr", "plugins": "plug"}[a.kind]
		g.must(elem != "", c.Args[0], "append to something that is not a list of addresses or of plugins")
		if c.Ellipsis.IsValid() {
			g.must(len(c.Args) == 2, c, "append(a, b...) takes two arguments")
			return cv{kind: a.kind, lean: catom(a.lean) + " ++ " + catom(g.want(c.Args[1], st, fc, a.kind).lean)}
		}
		var elts []string
		for _, e := range c.Args[1:] {
			elts = append(elts, g.want(e, st, fc, elem).lean)
		}
		return cv{kind: a.kind, lean: catom(a.lean) + " ++ [" + strings.Join(elts, ", ") + "]"}
	}
	if sel, ok := c.Fun.(*ast.SelectorExpr); ok && sel.Sel.Name == "To4" && len(c.Args) == 0 {
		if _, isPkg := g.pkgSel(sel, st); !isPkg {
			return cv{kind: "to4", lean: g.want(sel.X, st, fc, "ip").lean}
		}
	}
	g.fail(c, "unknown call (no meaning in the model)")
	return cv{}
}

// ------------------------------------------------------------------ conditions

// cmpNil: x compared with nil inside a condition that is not ONE nil test ↦ a proposition.
func (g *cgen) cmpNil(x ast.Expr, eq bool, st cst, fc *cfn) cex {
	if _, v, ok := g.variable(x, st); ok && v.kind == "err" {
		g.fail(x, "an error test is only supported alone in an `if`")
	}
	v := g.val(x, st, fc)
	switch v.kind {
	case "opt":
		return cex{catom(v.lean) + map[bool]string{true: ".isNone", false: ".isSome"}[eq] + " = true", hCmp}
	case "ip":
		return cex{catom(v.lean) + map[bool]string{true: " = ", false: " ≠ "}[eq] + "IPKind.none", hCmp}
	case "to4":
		return cex{"to4Nil " + catom(v.lean) + " = " + strconv.FormatBool(eq), hCmp}
	}
	g.fail(x, "nil test of a %s value unsupported in a condition", v.kind)
	return cex{}
}

func (g *cgen) lenOf(x ast.Expr, st cst, fc *cfn) (string, bool) {
	c, ok := g.unparen(x).(*ast.CallExpr)
	if !ok || !g.builtin(c.Fun, "len", st) || len(c.Args) != 1 || c.Ellipsis.IsValid() {
		return "", false
	}
	v := g.val(c.Args[0], st, fc)
	g.must(set("addrs", "smap", "strs", "plugins")[v.kind], c, "len of a %s value unsupported", v.kind)
	return catom(v.lean) + ".length", true
}

func (g *cgen) cond(x ast.Expr, st cst, fc *cfn) cex {
	x = g.unparen(x)
	switch x := x.(type) {
	case *ast.UnaryExpr:
		g.must(x.Op == token.NOT, x, "unsupported unary operator %s in a condition", x.Op)
		return cex{"¬" + hwrap(g.cond(x.X, st, fc), hAtom), hNot}
	case *ast.BinaryExpr:
		switch x.Op {
		case token.LAND, token.LOR:
			a, b := g.cond(x.X, st, fc), g.cond(x.Y, st, fc)
			op, p := " ∧ ", hAnd
			if x.Op == token.LOR {
				op, p = " ∨ ", hOr
			}
			return cex{hwrap(a, p+1) + op + hwrap(b, p+1), p}
		case token.EQL, token.NEQ:
			eq := x.Op == token.EQL
			if g.isNil(x.Y, st) {
				return g.cmpNil(x.X, eq, st, fc)
			}
			if g.isNil(x.X, st) {
				return g.cmpNil(x.Y, eq, st, fc)
			}
			op := map[bool]string{true: " = ", false: " ≠ "}[eq]
			if l, ok := g.lenOf(x.X, st, fc); ok {
				n, ok := g.unparen(x.Y).(*ast.BasicLit)
				g.must(ok && n.Kind == token.INT, x.Y, "a length can only be compared with an integer literal")
				v, err := strconv.ParseUint(n.Value, 0, 31)
				g.must(err == nil, x.Y, "unsupported integer literal")
				return cex{l + op + strconv.FormatUint(v, 10), hCmp}
			}
			a, b := g.val(x.X, st, fc), g.val(x.Y, st, fc)
			g.must(a.kind == b.kind && set("str", "ver", "flags")[a.kind], x, "comparison of a %s with a %s unsupported", a.kind, b.kind)
			return cex{catom(a.lean) + op + catom(b.lean), hCmp}
		}
		g.fail(x, "unsupported operator %s in a condition", x.Op)
	case *ast.CallExpr:
		if sel, ok := x.Fun.(*ast.SelectorExpr); ok && len(x.Args) == 0 {
			fn := map[string]string{"IsLinkLocalMulticast": "isLLMulticast", "IsInterfaceLocalMulticast": "isIfaceLocalMulticast"}[sel.Sel.Name]
			if _, isPkg := g.pkgSel(sel, st); fn != "" && !isPkg {
				return cex{fn + " " + catom(g.want(sel.X, st, fc, "ip").lean) + " = true", hCmp}
			}
		}
		g.fail(x, "unknown call in a condition")
	}
	g.fail(x, "unsupported condition")
	return cex{}
}

// ctest: a condition that is ONE test of a nil-able value ↦ a match (arm 0 = the nil / failure arm), or a test
// whose outcome is known on this path.
type ctest struct {
	decided int // -1: not decided; 0 / 1: the arm that is taken
	scrut   string
	pats    []string // 2, or 3 with `.panic` last
	sts     [2]cst
	thenArm int
}

func (g *cgen) test(cond ast.Expr, st cst, fc *cfn) (ctest, bool) {
	x := g.unparen(cond)
	neg := false
	for {
		u, ok := x.(*ast.UnaryExpr)
		if !ok || u.Op != token.NOT {
			break
		}
		neg, x = !neg, g.unparen(u.X)
	}
	b, ok := x.(*ast.BinaryExpr)
	if !ok {
		return ctest{}, false
	}
	if b.Op == token.GEQ { // i >= 0, i := strings.LastIndexByte(s, '%')
		name, v, ok := g.variable(b.X, st)
		if !ok || v.kind != "lastidx" {
			return ctest{}, false
		}
		l, ok := g.unparen(b.Y).(*ast.BasicLit)
		g.must(ok && l.Kind == token.INT && l.Value == "0", b.Y, "the index strings.LastIndexByte returns can only be tested with `>= 0`")
		i, st2 := st.fresh("i")
		t := ctest{decided: -1, scrut: "lastPercent " + catom(v.origin) + ".toList", pats: []string{"none", "some " + i}, thenArm: 1}
		t.sts = [2]cst{st.set(name, cv{kind: "opaque"}), st2.set(name, cv{kind: "idx", lean: i, origin: v.origin})}
		if neg {
			t.thenArm = 0
		}
		return t, true
	}
	if b.Op != token.EQL && b.Op != token.NEQ {
		return ctest{}, false
	}
	var operand ast.Expr
	switch {
	case g.isNil(b.Y, st):
		operand = b.X
	case g.isNil(b.X, st):
		operand = b.Y
	default:
		return ctest{}, false
	}
	name, v, ok := g.variable(operand, st)
	if !ok {
		return ctest{}, false
	}
	nilWhenTrue := (b.Op == token.EQL) != neg
	// arm 0 is the nil arm of an Option and the NON-nil arm of an error (the failure arm)
	optThen, errThen := 1, 0
	if nilWhenTrue {
		optThen, errThen = 0, 1
	}
	t := ctest{decided: -1}
	switch {
	case v.kind == "nil":
		t.decided, t.thenArm = 0, optThen
	case set("cast", "smap", "items", "section")[v.kind]:
		t.decided, t.thenArm = 1, optThen
	case v.kind == "err" && v.isNil:
		t.decided, t.thenArm = 1, errThen
	case v.kind == "err" && v.pend == nil:
		t.decided, t.thenArm = 0, errThen
	case v.kind == "err":
		p := v.pend
		t.thenArm = errThen
		t.scrut, t.pats = p.scrut, []string{p.failPat, p.okPat}
		if p.panic {
			t.pats = append(t.pats, ".panic")
		}
		fail, okSt := st.set(name, cv{kind: "err", errVal: p.errVal}), st.set(name, cv{kind: "err", isNil: true})
		for k, w := range p.fail {
			fail = fail.set(k, w)
		}
		for k, w := range p.ok {
			okSt = okSt.set(k, w)
		}
		t.sts = [2]cst{fail, okSt}
	case v.kind == "opt":
		t.thenArm = optThen
		pat, st2 := "some _", st
		inner := cv{kind: v.inner, any: v.any}
		if v.inner != "section" {
			var b string
			b, st2 = st.fresh(cfgPrefix[v.inner])
			pat, inner.lean = "some "+b, b
		}
		t.scrut, t.pats = v.lean, []string{"none", pat}
		t.sts = [2]cst{st.set(name, cv{kind: "nil", any: v.any}), st2.set(name, inner)}
	default:
		return ctest{}, false
	}
	return t, true
}

// ------------------------------------------------------------------ calls with an error result

// ctx parameters and their Lean types
var cfgCtxTypes = map[string]string{"ver": "Nat", "env": "Env", "cfg": "RawConfig", "o": "AddrOracle", "st": "Servers"}

func cfgParams(ctx string) string {
	var out []string
	for _, p := range strings.Fields(ctx) {
		out = append(out, "("+p+" : "+cfgCtxTypes[p]+")")
	}
	return strings.Join(out, " ")
}

// callee: x is a call of one of the translated functions ↦ (Lean text of the call, kind of its value).
func (g *cgen) callee(x ast.Expr, st cst, fc *cfn) (string, string, bool) {
	c, ok := g.unparen(x).(*ast.CallExpr)
	if !ok || c.Ellipsis.IsValid() {
		return "", "", false
	}
	name, method := "", false
	switch f := c.Fun.(type) {
	case *ast.Ident:
		name = f.Name
		if _, shadow := st.vars[name]; shadow {
			return "", "", false
		}
	case *ast.SelectorExpr:
		if fc.recv == "" || !isIdent(f.X, fc.recv) {
			return "", "", false
		}
		name, method = f.Sel.Name, true
	default:
		return "", "", false
	}
	sig, ok := map[string]struct {
		method bool
		args   []string
		ctx    string
		res    string
	}{
		"protoVersionCheck": {false, []string{"ver"}, "", "check"},
		"getListenAddress":  {true, []string{"str", "ver"}, "env", "addr"},
		"expandLLMulticast": {false, []string{"addr"}, "env", "addrs"},
		"defaultListen":     {false, []string{"ver"}, "env", "addrs"},
		"parsePlugins":      {false, []string{"items"}, "env", "plugins"},
		"getPlugins":        {true, []string{"ver"}, "env cfg", "plugins"},
		"parseListen":       {true, []string{"ver"}, "env cfg", "addrs"},
		"parseConfig":       {true, []string{"ver"}, "env cfg", "servers"},
	}[name]
	if !ok || g.funcs[name] == nil {
		return "", "", false
	}
	g.must(sig.method == method, x, "%s is called %s a receiver here", name, map[bool]string{true: "without", false: "with"}[sig.method])
	g.must(len(c.Args) == len(sig.args), x, "%s takes %d argument(s)", name, len(sig.args))
	for _, p := range strings.Fields(sig.ctx) {
		g.must(strings.Contains(" "+fc.ctx+" ", " "+p+" "), x, "%s needs `%s`, which %s does not have", name, p, fc.name)
	}
	var args []string
	for i, a := range c.Args {
		args = append(args, catom(g.want(a, st, fc, sig.args[i]).lean))
	}
	switch name {
	case "getListenAddress":
		return "withOracle env " + args[0] + " (getListenAddress " + args[1] + ")", sig.res, true
	case "expandLLMulticast", "parsePlugins":
		return name + " env " + args[0], sig.res, true
	case "parseConfig":
		return "parseConfig " + args[0] + " env cfg " + st.vars["·servers"].lean, sig.res, true
	}
	text := name + " " + args[0]
	if sig.ctx != "" {
		text += " " + sig.ctx
	}
	return text, sig.res, true
}

// pendCall: `lhs… := <call with an error result>`: the variables are bound when the error is tested.
func (g *cgen) pendCall(lhs []*ast.Ident, rhs ast.Expr, st cst, fc *cfn) (*cpend, cst, bool) {
	p := &cpend{failPat: "none", fail: map[string]cv{}, ok: map[string]cv{}}
	names := func(prefixes ...string) []string {
		var out []string
		for _, pre := range prefixes {
			var n string
			n, st = st.fresh(pre)
			out = append(out, n)
		}
		return out
	}
	bind := func(m map[string]cv, i int, v cv) {
		if lhs[i].Name != "_" {
			m[lhs[i].Name] = v
		}
	}
	nlhs := func(n int) { g.must(len(lhs) == n, rhs, "this call has %d results", n) }
	if c, ok := g.pkgCall(rhs, "net.SplitHostPort", 1, st); ok {
		nlhs(3)
		o := g.oracle(c, st)
		if _, v, ok := g.variable(c.Args[0], st); ok && v.kind == "hostport" {
			n := names("s", "s")
			p.scrut, p.okPat = o+".shp", "some ("+n[0]+", "+n[1]+")"
			bind(p.ok, 0, cv{kind: "str", lean: n[0]})
			bind(p.ok, 1, cv{kind: "str", lean: n[1], origin: "port"})
		} else {
			b, isAdd := g.unparen(c.Args[0]).(*ast.BinaryExpr)
			g.must(isAdd && b.Op == token.ADD, c.Args[0], "net.SplitHostPort of something that is neither the listen string nor the listen string + \":0\"")
			_, v, isVar := g.variable(b.X, st)
			lit, isLit := g.strConst(b.Y)
			g.must(isVar && v.kind == "hostport" && isLit && lit == ":0", c.Args[0], "net.SplitHostPort of something that is neither the listen string nor the listen string + \":0\"")
			g.must(lhs[1].Name == "_", lhs[1], "of the second attempt the model records only the host: the port must be discarded")
			n := names("s")
			p.scrut, p.okPat = o+".shp0", "some "+n[0]
			bind(p.ok, 0, cv{kind: "str", lean: n[0]})
		}
		bind(p.fail, 0, cv{kind: "str", lean: `""`})
		bind(p.fail, 1, cv{kind: "str", lean: `""`})
		return p, st, true
	}
	if c, ok := g.pkgCall(rhs, "strconv.Atoi", 1, st); ok {
		nlhs(2)
		v := g.want(c.Args[0], st, fc, "str")
		g.must(v.origin == "port", c.Args[0], "strconv.Atoi of something that is not the port splitHostPort returned (the only string whose conversion the model records)")
		n := names("n")
		p.scrut, p.okPat = g.oracle(c, st)+".atoi", "some "+n[0]
		bind(p.ok, 0, cv{kind: "int", lean: n[0]})
		bind(p.fail, 0, cv{kind: "int", lean: "0"})
		return p, st, true
	}
	if c, ok := g.pkgCall(rhs, "cast.ToStringSliceE", 1, st); ok {
		nlhs(2)
		v := g.val(c.Args[0], st, fc)
		g.must(v.kind == "cast", c.Args[0], "cast.ToStringSliceE of a value that is not known to be a non-nil result of c.v.Get")
		n := names("ss")
		p.scrut, p.okPat = v.lean+".sliceE", "some "+n[0]
		bind(p.ok, 0, cv{kind: "strs", lean: n[0]})
		bind(p.fail, 0, cv{kind: "strs", unused: true})
		return p, st, true
	}
	if _, ok := g.pkgCall(rhs, "net.Interfaces", 0, st); ok {
		nlhs(2)
		g.must(strings.Contains(fc.ctx, "env"), rhs, "net.Interfaces has no meaning in %s", fc.name)
		n := names("ifs")
		p.scrut, p.okPat = "env.ifs", "some "+n[0]
		bind(p.ok, 0, cv{kind: "ifaces", lean: n[0]})
		bind(p.fail, 0, cv{kind: "ifaces", unused: true})
		return p, st, true
	}
	if c, ok := g.unparen(rhs).(*ast.CallExpr); ok && g.builtinFunc(c.Fun, "splitHostPort", st) && g.funcs["splitHostPort"] != nil {
		nlhs(4)
		g.must(len(c.Args) == 1 && !c.Ellipsis.IsValid(), c, "splitHostPort takes one argument")
		_, v, ok := g.variable(c.Args[0], st)
		g.must(ok && v.kind == "hostport", c.Args[0], "splitHostPort of something that is not the listen string the answers in scope are recorded for")
		n := names("s", "s", "s")
		p.scrut, p.okPat = "splitHostPort "+v.lean, "some ("+strings.Join(n, ", ")+")"
		for i := 0; i < 3; i++ {
			bind(p.ok, i, cv{kind: "str", lean: n[i], origin: map[int]string{2: "port"}[i]})
			bind(p.fail, i, cv{kind: "str", unused: true})
		}
		return p, st, true
	}
	if text, res, ok := g.callee(rhs, st, fc); ok {
		if res == "check" {
			nlhs(1)
			n := names("e")
			p.scrut, p.failPat, p.okPat, p.errVal = text, "some "+n[0], "none", n[0]
			return p, st, true
		}
		n := names("e", cfgPrefix[res])
		p.scrut, p.failPat, p.okPat, p.errVal, p.panic = text, ".error "+n[0], ".ok "+n[1], n[0], true
		if res == "servers" {
			nlhs(1)
			p.ok["·servers"] = cv{kind: "servers", lean: n[1]}
			return p, st, true
		}
		nlhs(2)
		bind(p.ok, 0, cv{kind: res, lean: n[1]})
		bind(p.fail, 0, cv{kind: res, unused: true})
		return p, st, true
	}
	return nil, st, false
}

// ------------------------------------------------------------------ assignments

// letBind: a `let` for a non-atomic value; the variable stands for the new name.
func (g *cgen) letBind(v cv, st cst) ([]string, cv, cst) {
	pre := cfgPrefix[v.kind]
	if pre == "" || v.lean == "" || !strings.ContainsAny(v.lean, " ") {
		return nil, v, st
	}
	n, st2 := st.fresh(pre)
	line := "let " + n + " := " + v.lean
	v.lean = n
	return []string{line}, v, st2
}

func (g *cgen) assign(a *ast.AssignStmt, st cst, fc *cfn) ([]string, cst) {
	define := a.Tok == token.DEFINE
	if a.Tok == token.OR_ASSIGN { // needFlags |= net.FlagBroadcast
		g.must(len(a.Lhs) == 1 && len(a.Rhs) == 1, a, "unsupported assignment shape")
		name, old, ok := g.variable(a.Lhs[0], st)
		g.must(ok && old.kind == "flags", a.Lhs[0], "|= is only supported on interface flags")
		b := g.want(a.Rhs[0], st, fc, "flags")
		lines, v, st2 := g.letBind(cv{kind: "flags", lean: "Flags.or " + catom(old.lean) + " " + catom(b.lean)}, st)
		return lines, st2.set(name, v)
	}
	g.must(define || a.Tok == token.ASSIGN, a, "unsupported assignment operator %s", a.Tok)
	setVar := func(st cst, id *ast.Ident, v cv) cst {
		if id.Name == "_" {
			return st
		}
		old, known := st.vars[id.Name]
		if define && !known {
			g.freshLocal(id, st)
		}
		g.must(define || known, id, "assignment to an unknown variable")
		if known && !define {
			same := old.kind == v.kind || (old.any && set("opt", "nil", "cast")[v.kind]) || (old.kind == "err" && v.kind == "err")
			g.must(same, id, "a variable of kind %s is assigned a value of kind %s", old.kind, v.kind)
			v.any = old.any
			return st.set(id.Name, v)
		}
		return st.define(id.Name, v)
	}
	// the targets that are plain variables
	var ids []*ast.Ident
	allIdents := true
	for _, l := range a.Lhs {
		id, ok := l.(*ast.Ident)
		allIdents = allIdents && ok
		ids = append(ids, id)
	}
	if len(a.Rhs) == 1 && allIdents {
		if p, st2, ok := g.pendCall(ids, a.Rhs[0], st, fc); ok {
			st = st2
			errId := ids[len(ids)-1]
			g.must(errId.Name != "_", errId, "the error of this call must be kept and tested")
			for _, id := range ids[:len(ids)-1] {
				if id.Name != "_" {
					kind := "opaque"
					if w, ok := p.ok[id.Name]; ok {
						kind = w.kind
					}
					st = setVar(st, id, cv{kind: kind, unused: true})
				}
			}
			st = setVar(st, errId, cv{kind: "err", pend: p})
			return nil, st
		}
	}
	g.must(len(a.Lhs) == len(a.Rhs), a, "unsupported assignment shape (an unknown call with several results?)")
	// every right-hand side is evaluated in the state before the assignment
	var vals []cv
	for i, r := range a.Rhs {
		if id, ok := a.Lhs[i].(*ast.Ident); ok && g.isNil(r, st) { // err = nil
			old, known := st.vars[id.Name]
			g.must(known && old.kind == "err" && !define, a, "nil can only be assigned to an error variable")
			vals = append(vals, cv{kind: "err", isNil: true})
			continue
		}
		vals = append(vals, g.val(r, st, fc))
	}
	var lines []string
	for i, l := range a.Lhs {
		v := vals[i]
		switch l := l.(type) {
		case *ast.Ident:
			if old, known := st.vars[l.Name]; known && old.any && v.kind == "str" && !define { // a string stored in an interface{}
				v = cv{kind: "cast", lean: "castStr env " + catom(v.lean)}
			}
			g.must(v.kind != "plug", l, "a PluginConfig value can only be appended")
			var ls []string
			ls, v, st = g.letBind(v, st)
			lines = append(lines, ls...)
			st = setVar(st, l, v)
		case *ast.SelectorExpr:
			g.must(!define, a, "unsupported definition")
			name, old, ok := g.variable(l.X, st)
			g.must(ok, l, "assignment to a field of something that is not a variable")
			switch {
			case old.kind == "addr" && l.Sel.Name == "Zone":
				g.must(v.kind == "str", a.Rhs[i], "the zone assigned must be a string")
				ls, nv, st2 := g.letBind(cv{kind: "addr", lean: "{ " + old.lean + " with zone := " + v.lean + " }"}, st)
				lines, st = append(lines, ls...), st2.set(name, nv)
			case name == fc.recv && (l.Sel.Name == "Server6" || l.Sel.Name == "Server4"):
				s, ok := st.vars["·servers"]
				g.must(ok, l, "the server configurations are not part of this function's state")
				g.must(v.kind == "sconf", a.Rhs[i], "c.%s must be assigned the address of a ServerConfig", l.Sel.Name)
				_, isAddr := g.unparen(a.Rhs[i]).(*ast.UnaryExpr)
				g.must(isAddr, a.Rhs[i], "c.%s must be assigned the address of a ServerConfig", l.Sel.Name)
				f := "s" + strings.TrimPrefix(l.Sel.Name, "Server")
				ls, nv, st2 := g.letBind(cv{kind: "servers", lean: "{ " + s.lean + " with " + f + " := some " + catom(v.lean) + " }"}, st)
				lines, st = append(lines, ls...), st2.set("·servers", nv)
			default:
				g.fail(l, "unsupported assignment target")
			}
		default:
			g.fail(l, "unsupported assignment target")
		}
	}
	return lines, st
}

// declare: `var x T`, `var x = v`, `var ( … )`.
func (g *cgen) declare(d *ast.DeclStmt, st cst, fc *cfn) ([]string, cst) {
	gd, ok := d.Decl.(*ast.GenDecl)
	g.must(ok && gd.Tok == token.VAR, d, "unsupported declaration")
	var lines []string
	for _, sp := range gd.Specs {
		vs := sp.(*ast.ValueSpec)
		for i, n := range vs.Names {
			g.freshLocal(n, st)
			var v cv
			switch {
			case len(vs.Values) == len(vs.Names):
				v = g.val(vs.Values[i], st, fc)
			case len(vs.Values) == 0 && vs.Type != nil:
				switch g.src(vs.Type) {
				case "string":
					v = cv{kind: "str", lean: `""`}
				case "[]string":
					v = cv{kind: "strs", lean: "[]"}
				case "int":
					v = cv{kind: "int", lean: "0"}
				case "error":
					v = cv{kind: "err", isNil: true}
				default:
					g.fail(vs.Type, "declaration of a variable of an unknown type")
				}
			default:
				g.fail(vs, "unsupported declaration")
			}
			var ls []string
			ls, v, st = g.letBind(v, st)
			lines = append(lines, ls...)
			st = st.define(n.Name, v)
		}
	}
	return lines, st
}

// ------------------------------------------------------------------ returns

var cfgResKind = map[string]string{"getListenAddress": "addr", "expandLLMulticast": "addrs", "defaultListen": "addrs",
	"parseListen": "addrs", "parsePlugins": "plugins", "getPlugins": "plugins"}

func (g *cgen) ret(r *ast.ReturnStmt, st cst, fc *cfn) string {
	switch fc.kind {
	case "check":
		g.must(len(r.Results) == 1 && !fc.inLoop, r, "return must have one result")
		if g.isNil(r.Results[0], st) {
			return "none"
		}
		return "some " + g.errVal(r.Results[0], st, fc)
	case "shp":
		g.must(len(r.Results) == 0, r, "splitHostPort returns its named results: only a bare `return` is supported")
		e := st.vars[fc.results[3]]
		g.must(e.kind == "err" && e.pend == nil, r, "return on a path where the error result has not been decided")
		if !e.isNil {
			return "none"
		}
		var parts []string
		for _, n := range fc.results[:3] {
			v := st.vars[n]
			g.must(v.kind == "str" && !v.unused, r, "a result is not a known string here")
			parts = append(parts, v.lean)
		}
		return "some (" + strings.Join(parts, ", ") + ")"
	case "err":
		g.must(len(r.Results) == 1 && !fc.inLoop, r, "return must have one result")
		if g.isNil(r.Results[0], st) {
			return ".ok " + st.vars["·servers"].lean
		}
		return ".error " + g.errVal(r.Results[0], st, fc)
	case "load":
		g.must(len(r.Results) == 2, r, "return must have two results")
		if g.isNil(r.Results[1], st) {
			g.must(fc.recv != "" && isIdent(g.unparen(r.Results[0]), fc.recv), r.Results[0], "Load must return the configuration it filled")
			return ".ok " + st.vars["·servers"].lean
		}
		g.must(g.isNil(r.Results[0], st), r, "the value returned next to an error must be nil")
		return ".error " + g.errVal(r.Results[1], st, fc)
	}
	// pair: (T, error)
	if len(r.Results) == 1 && !fc.inLoop { // return f(…)
		text, res, ok := g.callee(r.Results[0], st, fc)
		g.must(ok && res == cfgResKind[fc.name], r, "a single returned expression must be a call of a translated function with the same results")
		return text
	}
	g.must(len(r.Results) == 2, r, "return must have two results")
	if !g.isNil(r.Results[1], st) {
		g.must(g.isNil(r.Results[0], st), r, "the value returned next to an error must be nil")
		return ".error " + g.errVal(r.Results[1], st, fc)
	}
	g.must(!fc.inLoop, r, "a return without error inside a loop is unsupported")
	v := g.want(r.Results[0], st, fc, cfgResKind[fc.name])
	if v.kind == "addr" {
		_, isAddr := g.unparen(r.Results[0]).(*ast.UnaryExpr)
		g.must(isAddr, r.Results[0], "getListenAddress must return the address of the net.UDPAddr it built")
	}
	return ".ok " + catom(v.lean)
}

// ------------------------------------------------------------------ statements

func (g *cgen) isPanic(s ast.Stmt, st cst) bool {
	e, ok := s.(*ast.ExprStmt)
	if !ok {
		return false
	}
	c, ok := e.X.(*ast.CallExpr)
	if !ok || !g.builtin(c.Fun, "panic", st) {
		return false
	}
	_, isLit := g.strConst(c.Args[0])
	g.must(len(c.Args) == 1 && isLit, s, "panic with something that is not a string literal")
	return true
}

// block translates a statement list; k yields the translation of what follows it.
func (g *cgen) block(list []ast.Stmt, st cst, fc *cfn, k func(cst) string) string {
	if len(list) == 0 {
		return k(st)
	}
	s, rest := list[0], list[1:]
	next := func(st2 cst) string { return g.block(rest, st2, fc, k) }
	if g.isLog(s, st) {
		return next(st)
	}
	if g.isPanic(s, st) {
		g.must(len(rest) == 0, rest0(rest, s), "unreachable statement after panic")
		g.must(fc.kind == "pair" || fc.kind == "err" || fc.kind == "load", s, "panic has no outcome in the result type of %s", fc.name)
		return ".panic"
	}
	switch s := s.(type) {
	case *ast.ReturnStmt:
		g.must(len(rest) == 0, rest0(rest, s), "unreachable statement after return")
		return g.ret(s, st, fc)
	case *ast.BranchStmt:
		g.must(s.Tok == token.CONTINUE && s.Label == nil && fc.inLoop, s, "unsupported branch statement (only `continue` in a translated loop)")
		g.must(len(rest) == 0, rest0(rest, s), "unreachable statement after continue")
		return ".ok " + st.vars[fc.accGo].lean
	case *ast.AssignStmt:
		lines, st2 := g.assign(s, st, fc)
		return joinLines(lines, next(st2))
	case *ast.DeclStmt:
		lines, st2 := g.declare(s, st, fc)
		return joinLines(lines, next(st2))
	case *ast.IfStmt:
		return g.ifStmt(s, st, fc, next)
	case *ast.SwitchStmt:
		return g.switchStmt(s, st, fc, next)
	case *ast.RangeStmt:
		return g.rangeStmt(s, st, fc, next)
	}
	g.fail(s, "unsupported statement in unit config")
	return ""
}

func rest0(rest []ast.Stmt, s ast.Node) ast.Node {
	if len(rest) > 0 {
		return rest[0]
	}
	return s
}

func (g *cgen) enter(st cst) cst { st.defd = map[string]bool{}; return st }

func (g *cgen) ifStmt(s *ast.IfStmt, st cst, fc *cfn, k func(cst) string) string {
	outer := st
	after := func(end cst) string { return k(leave(outer, end)) }
	st = g.enter(st)
	var lines []string
	if s.Init != nil {
		a, ok := s.Init.(*ast.AssignStmt)
		g.must(ok, s.Init, "unsupported init statement")
		lines, st = g.assign(a, st, fc)
	}
	elsePart := func(stElse cst) string {
		switch b := s.Else.(type) {
		case nil:
			return after(stElse)
		case *ast.BlockStmt:
			return g.block(b.List, stElse, fc, after)
		case *ast.IfStmt:
			return g.ifStmt(b, stElse, fc, after)
		}
		g.fail(s.Else, "unsupported else")
		return ""
	}
	if t, ok := g.test(s.Cond, st, fc); ok {
		if t.decided >= 0 { // the outcome is known on this path
			if t.decided == t.thenArm {
				return joinLines(lines, g.block(s.Body.List, st, fc, after))
			}
			return joinLines(lines, elsePart(st))
		}
		arms := make([][2]string, len(t.pats))
		for i := 0; i < 2; i++ {
			if i == t.thenArm {
				arms[i] = [2]string{t.pats[i], g.block(s.Body.List, t.sts[i], fc, after)}
			} else {
				arms[i] = [2]string{t.pats[i], elsePart(t.sts[i])}
			}
		}
		if len(t.pats) == 3 {
			g.must(fc.kind != "check" && fc.kind != "shp", s, "a call that can panic in a function whose result has no such outcome")
			arms[2] = [2]string{".panic", ".panic"}
		}
		return joinLines(lines, cMatch(t.scrut, arms...))
	}
	c := g.cond(s.Cond, st, fc)
	stThen, stElse := st, st
	if m, eq, ok := g.len1Fact(s.Cond, st, fc); ok {
		if eq {
			stThen = st.withLen1(m)
		} else {
			stElse = st.withLen1(m)
		}
	}
	return joinLines(lines, ite(c.s, g.block(s.Body.List, stThen, fc, after), elsePart(stElse)))
}

// len1Fact: the condition is `len(m) == 1` / `len(m) != 1`, m the entries of a plugin item.
func (g *cgen) len1Fact(x ast.Expr, st cst, fc *cfn) (string, bool, bool) {
	b, ok := g.unparen(x).(*ast.BinaryExpr)
	if !ok || (b.Op != token.EQL && b.Op != token.NEQ) {
		return "", false, false
	}
	c, ok := g.unparen(b.X).(*ast.CallExpr)
	l, isLit := g.unparen(b.Y).(*ast.BasicLit)
	if !ok || !isLit || l.Value != "1" || !g.builtin(c.Fun, "len", st) || len(c.Args) != 1 {
		return "", false, false
	}
	_, v, ok := g.variable(c.Args[0], st)
	if !ok || v.kind != "smap" {
		return "", false, false
	}
	return v.lean, b.Op == token.EQL, true
}

// switchStmt: `switch ver { case protocolVN: … default: … }` ↦ an if chain in source order, default last.
func (g *cgen) switchStmt(s *ast.SwitchStmt, st cst, fc *cfn, k func(cst) string) string {
	g.must(s.Init == nil && s.Tag != nil, s, "only `switch ver { … }` is supported")
	tag := g.want(s.Tag, st, fc, "ver")
	outer := st
	after := func(end cst) string { return k(leave(outer, end)) }
	type clause struct {
		cond string
		body []ast.Stmt
	}
	var cases []clause
	var deflt *ast.CaseClause
	seen := map[string]bool{}
	for _, c := range s.Body.List {
		cc := c.(*ast.CaseClause)
		for _, b := range cc.Body {
			if br, ok := b.(*ast.BranchStmt); ok {
				g.fail(br, "%s inside a switch unsupported", br.Tok)
			}
		}
		if cc.List == nil {
			g.must(deflt == nil, cc, "two default clauses")
			deflt = cc
			continue
		}
		var alts []string
		for _, e := range cc.List {
			v := g.want(e, st, fc, "ver")
			g.must(!seen[v.lean], e, "protocol version listed twice")
			seen[v.lean] = true
			alts = append(alts, catom(tag.lean)+" = "+catom(v.lean))
		}
		cases = append(cases, clause{strings.Join(alts, " ∨ "), cc.Body})
	}
	var build func(i int) string
	build = func(i int) string {
		if i == len(cases) {
			if deflt != nil {
				return g.block(deflt.Body, g.enter(st), fc, after)
			}
			return k(st)
		}
		return ite(cases[i].cond, g.block(cases[i].body, g.enter(st), fc, after), build(i+1))
	}
	return build(0)
}

// ------------------------------------------------------------------ loops

var cfgLoopNames = map[string]string{"expandLLMulticast": "expand", "parseListen": "listen", "parsePlugins": "plugins"}

func (g *cgen) rangeStmt(r *ast.RangeStmt, st cst, fc *cfn, k func(cst) string) string {
	g.must(r.Tok == token.DEFINE, r, "unsupported loop (only `for k, v := range x { … }`)")
	list := g.val(r.X, st, fc)
	ident := func(x ast.Expr) *ast.Ident {
		if x == nil {
			return nil
		}
		id, ok := x.(*ast.Ident)
		g.must(ok, x, "a loop variable must be a plain variable")
		if id.Name == "_" {
			return nil
		}
		g.freshLocal(id, st)
		return id
	}
	key, value := ident(r.Key), ident(r.Value)
	// a loop that only logs
	onlyLogs := len(r.Body.List) > 0
	logSt := g.enter(st)
	if key != nil {
		logSt = logSt.define(key.Name, cv{kind: "opaque"})
	}
	if value != nil {
		logSt = logSt.define(value.Name, cv{kind: "opaque"})
	}
	for _, s := range r.Body.List {
		e, isExpr := s.(*ast.ExprStmt)
		if !isExpr {
			onlyLogs = false
			break
		}
		c, isCall := e.X.(*ast.CallExpr)
		sel, isSel := ast.Expr(nil), false
		if isCall {
			sel, isSel = c.Fun.(*ast.SelectorExpr)
		}
		if !isCall || !isSel || !isIdent(sel.(*ast.SelectorExpr).X, "log") {
			onlyLogs = false
			break
		}
	}
	if onlyLogs {
		g.must(set("plugins", "addrs", "strs")[list.kind], r.X, "loop over a %s value unsupported", list.kind)
		for _, s := range r.Body.List {
			g.must(g.isLog(s, logSt), s, "unsupported statement in a loop that only logs")
		}
		return k(st)
	}
	if list.kind == "smap" { // for k, v := range conf { …; break }
		n := len(r.Body.List)
		br, ok := ast.Stmt(nil), false
		if n > 0 {
			br, ok = r.Body.List[n-1], true
		}
		b, isBr := br.(*ast.BranchStmt)
		g.must(ok && isBr && b.Tok == token.BREAK && b.Label == nil, r, "a loop over the entries of a plugin item must end in `break`: map order is not in the model")
		g.must(st.len1[list.lean], r, "a loop over the entries of a plugin item is only supported where `len(…) != 1` has returned: map order is not in the model")
		outer := st
		after := func(end cst) string { return k(leave(outer, end)) }
		in := g.enter(st)
		kn, in := in.fresh("s")
		vn, in := in.fresh("s")
		if key != nil {
			in = in.define(key.Name, cv{kind: "str", lean: kn})
		}
		if value != nil {
			in = in.define(value.Name, cv{kind: "mapval", lean: vn})
		}
		for _, s := range r.Body.List[:n-1] {
			ast.Inspect(s, func(x ast.Node) bool {
				if bs, ok := x.(*ast.BranchStmt); ok {
					g.fail(bs, "%s unsupported here", bs.Tok)
				}
				if rs, ok := x.(*ast.ReturnStmt); ok {
					g.fail(rs, "return inside the loop over the entries of a plugin item unsupported")
				}
				return true
			})
		}
		return cMatch(list.lean+".head?", [2]string{"none", k(st)}, [2]string{"some (" + kn + ", " + vn + ")", g.block(r.Body.List[:n-1], in, fc, after)})
	}
	elemKind := map[string]string{"ifaces": "iface", "strs": "str", "items": "item"}[list.kind]
	g.must(elemKind != "", r.X, "loop over a %s value unsupported", list.kind)
	g.must(!fc.inLoop, r, "nested loop unsupported")
	g.must(fc.kind == "pair", r, "loop unsupported in %s", fc.name)
	// the accumulator: the one outer variable the body assigns
	var accs []string
	seen := map[string]bool{}
	ast.Inspect(r.Body, func(n ast.Node) bool {
		if a, ok := n.(*ast.AssignStmt); ok && a.Tok != token.DEFINE {
			for _, l := range a.Lhs {
				if id, ok := l.(*ast.Ident); ok && !seen[id.Name] {
					if v, outerVar := st.vars[id.Name]; outerVar && v.kind != "err" {
						seen[id.Name] = true
						accs = append(accs, id.Name)
					}
				}
			}
		}
		return true
	})
	g.must(len(accs) == 1, r, "a loop must assign exactly one variable declared outside it (its accumulator); this one assigns %d", len(accs))
	acc := accs[0]
	accV := st.vars[acc]
	g.must(accV.kind == "addrs" || accV.kind == "plugins", r, "the accumulator of a loop must be a list of addresses or of plugins")
	// captured outer variables, in order of first occurrence
	var caps []string
	capSeen := map[string]bool{acc: true}
	ast.Inspect(r.Body, func(n ast.Node) bool {
		id, ok := n.(*ast.Ident)
		if !ok || capSeen[id.Name] {
			return true
		}
		v, outerVar := st.vars[id.Name]
		if !outerVar || v.kind == "err" || v.kind == "hostport" || id.Name == fc.recv || (v.kind == "ver" && v.lean == "ver") {
			return true
		}
		capSeen[id.Name] = true
		g.must(cfgLeanType[v.kind] != "" && !strings.ContainsAny(v.lean, " ") && !v.unused, id, "a loop body can only use outer variables that are plain values (this one is a %s)", v.kind)
		caps = append(caps, id.Name)
		return true
	})
	base := cfgLoopNames[fc.name]
	if base == "" {
		base = fc.name
	}
	if _, done := g.loops[r]; !done {
		g.nloops[fc.name]++
		g.must(g.nloops[fc.name] == 1, r, "a second accumulating loop in %s", fc.name)
	}
	in := cst{vars: map[string]cv{}, cnt: map[string]int{}, defd: map[string]bool{}, len1: st.len1}
	params, args, pargs := cfgParams(fc.ctx), fc.ctx, fc.ctx
	for name, v := range st.vars {
		if v.kind == "hostport" || name == fc.recv || (v.kind == "ver" && v.lean == "ver") || name == "·servers" {
			in.vars[name] = v
		}
	}
	for i, name := range caps { // the parameter names do not depend on the path that reaches the loop
		v := st.vars[name]
		pre := cfgPrefix[v.kind]
		if pre == "" {
			pre = v.kind
		}
		pn := pre + "_" + strconv.Itoa(i+1)
		args += " " + v.lean
		pargs += " " + pn
		v.lean = pn
		in.vars[name] = v
		params += " (" + pn + " : " + cfgLeanType[v.kind] + ")"
	}
	accT := cfgLeanType[accV.kind]
	in.vars[acc] = cv{kind: accV.kind, lean: "acc"}
	if key != nil {
		in = in.define(key.Name, cv{kind: "opaque"})
	}
	if value != nil {
		in = in.define(value.Name, cv{kind: elemKind, lean: "x"})
	}
	lfc := *fc
	lfc.inLoop, lfc.accGo = true, acc
	body := g.block(r.Body.List, in, &lfc, func(end cst) string { return ".ok " + end.vars[acc].lean })
	params, args, pargs = strings.TrimSpace(params), strings.TrimSpace(args), strings.TrimSpace(pargs)
	sp := func(s string) string {
		if s == "" {
			return ""
		}
		return " " + s
	}
	text := def("One round of the loop of `"+fc.name+"` (config/config.go), translated from its go/ast: `acc` = the accumulator at the\nstart of the round, `x` = the loop variable; `.ok` = the loop goes on with this accumulator (`continue`, or the\nend of the body), `.error` = the function returns this error.",
		base+"Body"+sp(params)+" (acc : "+accT+") (x : "+cfgLeanType[elemKind]+") : Out ("+accT+")", body) +
		"/-- The loop of `" + fc.name + "`: structural recursion over the list; an error return ends the loop. -/\n" +
		"def " + base + "Loop" + sp(params) + " : " + accT + " → List " + catom(cfgLeanType[elemKind]) + " → Out (" + accT + ")\n" +
		"  | acc, [] => .ok acc\n" +
		"  | acc, x :: rest =>\n" +
		"    match " + base + "Body" + sp(pargs) + " acc x with\n" +
		"    | .error e => .error e\n" +
		"    | .ok acc' => " + base + "Loop" + sp(pargs) + " acc' rest\n" +
		"    | .panic => .panic\n\n"
	if old, done := g.loops[r]; done {
		g.must(old == text, r, "internal: the loop translates differently on two paths")
	} else {
		g.loops[r] = text
		g.loopDefs = append(g.loopDefs, text)
	}
	e, st2 := st.fresh("e")
	n, st2 := st2.fresh(cfgPrefix[accV.kind])
	return cMatch(base+"Loop"+sp(args)+" "+catom(accV.lean)+" "+catom(list.lean),
		[2]string{".error " + e, ".error " + e},
		[2]string{".ok " + n, k(st2.set(acc, cv{kind: accV.kind, lean: n}))},
		[2]string{".panic", ".panic"})
}

// ------------------------------------------------------------------ functions

type cfgFunc struct {
	name, kind, ctx, sig, doc string
	recv                      bool
	params                    []string // expected Go parameter types
	results                   string   // expected Go result list
}

var cfgFuncs = []cfgFunc{
	{name: "protoVersionCheck", kind: "check", ctx: "ver", params: []string{"protocolVersion"}, results: "error",
		sig: "protoVersionCheck (ver : Nat) : Option Err",
		doc: "`protoVersionCheck`: `none` = nil, `some e` = the error."},
	{name: "splitHostPort", kind: "shp", ctx: "o", params: []string{"string"}, results: "(ip string, zone string, port string, err error)",
		sig: "splitHostPort (o : AddrOracle) : Option (String × String × String)",
		doc: "`splitHostPort(hostport)`, `o` = the answers of the library for `hostport`: `some (ip, zone, port)`, or `none` when\n`err != nil` (the caller looks at nothing else then)."},
	{name: "getListenAddress", kind: "pair", ctx: "ver o", recv: true, params: []string{"string", "protocolVersion"}, results: "(*net.UDPAddr, error)",
		sig: "getListenAddress (ver : Nat) (o : AddrOracle) : Out UDPAddr",
		doc: "`getListenAddress(addr, ver)`, `o` = the answers of the library for `addr`."},
	{name: "expandLLMulticast", kind: "pair", ctx: "env", params: []string{"*net.UDPAddr"}, results: "([]net.UDPAddr, error)",
		sig: "expandLLMulticast (env : Env) (addr : UDPAddr) : Out (List UDPAddr)",
		doc: "`expandLLMulticast(addr)`."},
	{name: "defaultListen", kind: "pair", ctx: "ver env", params: []string{"protocolVersion"}, results: "([]net.UDPAddr, error)",
		sig: "defaultListen (ver : Nat) (env : Env) : Out (List UDPAddr)",
		doc: "`defaultListen(ver)`."},
	{name: "parseListen", kind: "pair", ctx: "ver env cfg", recv: true, params: []string{"protocolVersion"}, results: "([]net.UDPAddr, error)",
		sig: "parseListen (ver : Nat) (env : Env) (cfg : RawConfig) : Out (List UDPAddr)",
		doc: "`parseListen(ver)`."},
	{name: "parsePlugins", kind: "pair", ctx: "env", params: []string{"[]interface{}"}, results: "([]PluginConfig, error)",
		sig: "parsePlugins (env : Env) (items : List ItemRaw) : Out (List (String × List String))",
		doc: "`parsePlugins(pluginList)`."},
	{name: "getPlugins", kind: "pair", ctx: "ver env cfg", recv: true, params: []string{"protocolVersion"}, results: "([]PluginConfig, error)",
		sig: "getPlugins (ver : Nat) (env : Env) (cfg : RawConfig) : Out (List (String × List String))",
		doc: "`getPlugins(ver)`."},
	{name: "parseConfig", kind: "err", ctx: "ver env cfg st", recv: true, params: []string{"protocolVersion"}, results: "error",
		sig: "parseConfig (ver : Nat) (env : Env) (cfg : RawConfig) (st : Servers) : Out Servers",
		doc: "`parseConfig(ver)`: `st` = `c.Server6` / `c.Server4` before the call, `.ok` = nil error and these fields after it."},
	{name: "Load", kind: "load", ctx: "env cfg", params: []string{"string"}, results: "(*Config, error)",
		sig: "load (env : Env) (cfg : RawConfig) : Out Servers",
		doc: "`Load` from the statement after `c.v.ReadInConfig()` on (the file was read: `cfg`)."},
}

func (g *cgen) function(spec cfgFunc) string {
	f := g.funcs[spec.name]
	g.must(f.Type.TypeParams == nil && f.Body != nil, f.Name, "unsupported function form")
	fc := &cfn{name: spec.name, kind: spec.kind, ctx: spec.ctx}
	st := cst{vars: map[string]cv{}, cnt: map[string]int{}, defd: map[string]bool{}, len1: map[string]bool{}}
	if spec.recv {
		g.must(f.Recv != nil && len(f.Recv.List) == 1 && len(f.Recv.List[0].Names) == 1 && g.src(f.Recv.List[0].Type) == "*Config", f.Name, "expected a method on *Config with a named receiver")
		fc.recv = f.Recv.List[0].Names[0].Name
		g.freshLocal(f.Recv.List[0].Names[0], st)
		st = st.define(fc.recv, cv{kind: "opaque"})
	} else {
		g.must(f.Recv == nil, f.Name, "expected a plain function")
	}
	var ptypes []string
	var pnames []*ast.Ident
	for _, p := range f.Type.Params.List {
		g.must(len(p.Names) > 0, p, "unnamed parameter")
		for _, n := range p.Names {
			ptypes, pnames = append(ptypes, g.src(p.Type)), append(pnames, n)
		}
	}
	g.must(fmt.Sprint(ptypes) == fmt.Sprint(spec.params), f.Type, "the parameters of %s are not (%s)", spec.name, strings.Join(spec.params, ", "))
	res := ""
	if f.Type.Results != nil {
		var parts []string
		for _, r := range f.Type.Results.List {
			if len(r.Names) == 0 {
				parts = append(parts, g.src(r.Type))
			}
			for _, n := range r.Names {
				parts = append(parts, n.Name+" "+g.src(r.Type))
			}
		}
		res = strings.Join(parts, ", ")
		if len(parts) > 1 {
			res = "(" + res + ")"
		}
	}
	g.must(res == spec.results, f.Type, "the results of %s are `%s`, not `%s`", spec.name, res, spec.results)
	for i, n := range pnames {
		g.must(n.Name != "_", n, "blank parameter")
		g.freshLocal(n, st)
		switch ptypes[i] {
		case "protocolVersion":
			st = st.define(n.Name, cv{kind: "ver", lean: "ver"})
		case "string":
			if spec.name == "Load" {
				st = st.define(n.Name, cv{kind: "opaque"})
			} else {
				st = st.define(n.Name, cv{kind: "hostport", lean: "o"})
			}
		case "*net.UDPAddr":
			st = st.define(n.Name, cv{kind: "addr", lean: "addr"})
		case "[]interface{}":
			st = st.define(n.Name, cv{kind: "items", lean: "items"})
		}
	}
	body := f.Body.List
	var pre []string
	switch spec.kind {
	case "shp":
		for _, r := range f.Type.Results.List {
			for _, n := range r.Names {
				g.freshLocal(n, st)
				fc.results = append(fc.results, n.Name)
				if g.src(r.Type) == "error" {
					st = st.define(n.Name, cv{kind: "err", isNil: true})
				} else {
					st = st.define(n.Name, cv{kind: "str", lean: `""`})
				}
			}
		}
	case "err":
		st = st.define("·servers", cv{kind: "servers", lean: "st"})
	case "load":
		body, st, fc.recv = g.loadPrefix(f, st)
		var n string
		n, st = st.fresh("st")
		pre = []string{"let " + n + " : Servers := ⟨none, none⟩"}
		st = st.define("·servers", cv{kind: "servers", lean: n})
	}
	text := g.block(body, st, fc, func(cst) string {
		g.fail(f.Name, "control reaches the end of the function without a return")
		return ""
	})
	return def(spec.doc+"  Translated from its go/ast (config/config.go).", spec.sig, joinLines(pre, text))
}

// loadPrefix: the part of Load before the file is read is not translated, but checked to be `c := New()` (New leaves
// Server6 / Server4 nil), viper set-up calls and log lines; returns the statements after `c.v.ReadInConfig()`.
func (g *cgen) loadPrefix(f *ast.FuncDecl, st cst) ([]ast.Stmt, cst, string) {
	recv := ""
	isSetup := func(s ast.Stmt, names map[string]bool) bool {
		e, ok := s.(*ast.ExprStmt)
		if !ok {
			return false
		}
		c, ok := e.X.(*ast.CallExpr)
		if !ok {
			return false
		}
		sel, ok := c.Fun.(*ast.SelectorExpr)
		if !ok {
			return false
		}
		in, ok := sel.X.(*ast.SelectorExpr)
		if !ok || recv == "" || !isIdent(in.X, recv) || in.Sel.Name != "v" || !names[sel.Sel.Name] {
			return false
		}
		for _, a := range c.Args {
			g.pure(a, st)
		}
		return true
	}
	setup := set("SetConfigType", "SetConfigFile", "SetConfigName", "AddConfigPath")
	var check func(list []ast.Stmt)
	check = func(list []ast.Stmt) {
		for _, s := range list {
			if g.isLog(s, st) || isSetup(s, setup) {
				continue
			}
			if i, ok := s.(*ast.IfStmt); ok && i.Init == nil {
				g.pureCond(i.Cond, st)
				check(i.Body.List)
				switch e := i.Else.(type) {
				case nil:
				case *ast.BlockStmt:
					check(e.List)
				default:
					g.fail(i.Else, "unsupported statement before the configuration file is read")
				}
				continue
			}
			g.fail(s, "unsupported statement before the configuration file is read (only viper set-up calls and log lines)")
		}
	}
	for i, s := range f.Body.List {
		if a, ok := s.(*ast.AssignStmt); ok && recv == "" && a.Tok == token.DEFINE && len(a.Lhs) == 1 && len(a.Rhs) == 1 {
			id, isId := a.Lhs[0].(*ast.Ident)
			c, isCall := a.Rhs[0].(*ast.CallExpr)
			g.must(isId && isCall && g.builtinFunc(c.Fun, "New", st) && len(c.Args) == 0, s, "expected `c := New()`")
			g.checkNew()
			g.freshLocal(id, st)
			recv = id.Name
			st = st.define(recv, cv{kind: "opaque"})
			continue
		}
		if is, ok := s.(*ast.IfStmt); ok && is.Init != nil && recv != "" { // if err := c.v.ReadInConfig(); err != nil { return nil, err }
			a, ok := is.Init.(*ast.AssignStmt)
			if ok && a.Tok == token.DEFINE && len(a.Lhs) == 1 && len(a.Rhs) == 1 && isSetup(&ast.ExprStmt{X: a.Rhs[0]}, set("ReadInConfig")) {
				e, isId := a.Lhs[0].(*ast.Ident)
				b, isBin := g.unparen(is.Cond).(*ast.BinaryExpr)
				g.must(isId && isBin && b.Op == token.NEQ && isIdent(g.unparen(b.X), e.Name) && g.isNil(b.Y, st) && is.Else == nil && len(is.Body.List) == 1,
					is, "expected `if err := c.v.ReadInConfig(); err != nil { return nil, err }`")
				r, isRet := is.Body.List[0].(*ast.ReturnStmt)
				g.must(isRet && len(r.Results) == 2 && g.isNil(r.Results[0], st) && isIdent(g.unparen(r.Results[1]), e.Name), is, "expected `if err := c.v.ReadInConfig(); err != nil { return nil, err }`")
				return f.Body.List[i+1:], st, recv
			}
		}
		check([]ast.Stmt{s})
	}
	g.fail(f.Name, "`if err := c.v.ReadInConfig(); err != nil { return nil, err }` not found in Load")
	return nil, st, ""
}

// pureCond: a condition before the file is read: only comparisons of shown values.
func (g *cgen) pureCond(x ast.Expr, st cst) {
	b, ok := g.unparen(x).(*ast.BinaryExpr)
	g.must(ok && (b.Op == token.EQL || b.Op == token.NEQ), x, "unsupported condition before the configuration file is read")
	g.pure(b.X, st)
	g.pure(b.Y, st)
}

// checkNew: New() returns &Config{v: viper.New()}: Server6 and Server4 start nil.
func (g *cgen) checkNew() {
	f := g.funcs["New"]
	if f == nil || f.Body == nil {
		fmt.Fprintln(os.Stderr, "gen: function New not found")
		os.Exit(2)
	}
	g.must(f.Recv == nil && len(f.Body.List) == 1 && g.src(f.Body.List[0]) == "return &Config{v: viper.New()}", f.Name,
		"New is not `return &Config{v: viper.New()}` (the generated Load starts with Server6 = Server4 = nil)")
}

// ------------------------------------------------------------------ the Lean header

const gen10Header = `-- GENERATED by harness gen -unit config from config/config.go — do not edit
-- Regenerated from the Go source on every run; Props/GenConfig.lean proves these definitions equal to the
-- hand-written model in Model/Config.lean.
-- Numeric constants and default addresses are read from the library source: dhcpv4/defaults.go, dhcpv6/defaults.go.
import CoreDhcp.Model.Config
set_option linter.unusedVariables false
namespace CoreDhcp.GenCfg

/-! Fixed vocabulary (not derived from the source; the table is in the header of gen10.go).  The model's
` + "`AddrOracle`, `UDPAddr`, `Iface`, `IPKind`, `ServerConfig`, `lastPercent`, `lookupIP`, `findOracle`, `isLLMulticast`," + `
` + "`isIfaceLocalMulticast`" + ` are used as they are.  The inputs are what viper / cast / the standard library answer. -/

/-- what cast makes of a non-nil value ` + "`c.v.Get`" + ` returned -/
structure CastView where
  /-- ` + "`cast.ToString(v)`" + ` -/
  str : String
  /-- ` + "`cast.ToStringSliceE(v)`" + `, none = error -/
  sliceE : Option (List String)
deriving Repr

/-- one item of the plugin list as ` + "`cast.ToStringMap`" + ` sees it: none = the nil map, else its entries
(key, ` + "`cast.ToString(value)`" + `), keys distinct -/
abbrev ItemRaw := Option (List (String × String))

/-- the keys of one ` + "`serverN`" + ` section -/
structure RawSection where
  /-- ` + "`cast.ToSlice(c.v.Get(\"serverN.plugins\"))`" + `, none = nil (not a list, or an empty list) -/
  plugins : Option (List ItemRaw)
  /-- ` + "`c.v.Get(\"serverN.interface\")`" + `, none = nil -/
  iface : Option CastView
  /-- ` + "`c.v.Get(\"serverN.listen\")`" + `, none = nil -/
  listen : Option CastView

/-- the configuration file as viper holds it: ` + "`c.v.Get(\"server6\")`, `c.v.Get(\"server4\")`" + `, none = nil -/
structure RawConfig where
  s6 : Option RawSection
  s4 : Option RawSection

def RawConfig.section (c : RawConfig) (ver : Nat) : Option RawSection :=
  if ver = 6 then c.s6 else if ver = 4 then c.s4 else none
/-- a key below a section that is not there is nil -/
def RawConfig.listen (c : RawConfig) (ver : Nat) : Option CastView := (c.section ver).bind (·.listen)
def RawConfig.iface (c : RawConfig) (ver : Nat) : Option CastView := (c.section ver).bind (·.iface)
def RawConfig.plugins (c : RawConfig) (ver : Nat) : Option (List ItemRaw) := (c.section ver).bind (·.plugins)

/-- the standard library -/
structure Env where
  /-- ` + "`net.Interfaces()`" + `, none = error -/
  ifs : Option (List Iface)
  /-- per listen string: ` + "`net.SplitHostPort`, `net.ParseIP`, `strconv.Atoi`" + ` -/
  oracles : List AddrOracle
  /-- ` + "`strings.Fields`" + ` -/
  fieldsOf : String → List String

/-- a Go string stored in an ` + "`interface{}`: `cast.ToString`" + ` is the string, ` + "`cast.ToStringSliceE`" + ` is
` + "`strings.Fields`" + ` of it and never fails -/
def castStr (env : Env) (s : String) : CastView := ⟨s, some (env.fieldsOf s)⟩

/-- ` + "`net.Flags`" + `, the two bits the code looks at -/
structure Flags where
  multi : Bool
  bcast : Bool
deriving DecidableEq, Repr
def Flags.or (a b : Flags) : Flags := ⟨a.multi || b.multi, a.bcast || b.bcast⟩
def Flags.and (a b : Flags) : Flags := ⟨a.multi && b.multi, a.bcast && b.bcast⟩
end CoreDhcp.GenCfg
/-- ` + "`iface.Flags`" + ` -/
def CoreDhcp.Iface.flags (i : CoreDhcp.Iface) : CoreDhcp.GenCfg.Flags := ⟨i.multi, i.bcast⟩
namespace CoreDhcp.GenCfg

/-- ` + "`ip.To4() == nil`" + `: everything but a dotted or IPv4-mapped address -/
def to4Nil : IPKind → Bool
  | .v4 _ => false
  | _ => true

/-- ` + "`c.Server6`, `c.Server4`" + `: none = nil -/
structure Servers where
  s6 : Option ServerConfig
  s4 : Option ServerConfig

/-- the error values, keyed by the function, the constructor function and the literal text -/
inductive Err
%s  /-- the input records no answers for a listen string (an artefact of the model's input, not a Go error) -/
  | noOracle
deriving DecidableEq, Repr

/-- the outcome of a function with results ` + "`(T, error)`" + ` -/
inductive Out (α : Type) where
  | ok (v : α)
  | error (e : Err)
  /-- ` + "`panic(…)`" + ` -/
  | panic

/-- ` + "`c.getListenAddress(a, ver)`" + ` for a listen string ` + "`a`" + `: with the answers the input records for ` + "`a`" + ` -/
def withOracle {α : Type} (env : Env) (s : String) (f : AddrOracle → Out α) : Out α :=
  match findOracle env.oracles s with
  | none => .error .noOracle
  | some o => f o

`

// ------------------------------------------------------------------ declarations the vocabulary relies on

func (g *cgen) checkDecls(file *ast.File, lib string, die func(...interface{})) {
	found := map[string]bool{}
	for _, d := range file.Decls {
		gd, ok := d.(*ast.GenDecl)
		if !ok {
			continue
		}
		for _, sp := range gd.Specs {
			switch sp := sp.(type) {
			case *ast.TypeSpec:
				switch sp.Name.Name {
				case "protocolVersion":
					g.must(g.src(sp.Type) == "int", sp, "protocolVersion is not an int")
					found["protocolVersion"] = true
				case "Config":
					g.must(g.src(sp.Type) == "struct {\n\tv\t*viper.Viper\n\tServer6\t*ServerConfig\n\tServer4\t*ServerConfig\n}", sp, "the fields of Config are not v *viper.Viper, Server6 *ServerConfig, Server4 *ServerConfig")
					found["Config"] = true
				case "ServerConfig":
					g.must(g.src(sp.Type) == "struct {\n\tAddresses\t[]net.UDPAddr\n\tPlugins\t\t[]PluginConfig\n}", sp, "the fields of ServerConfig are not Addresses []net.UDPAddr, Plugins []PluginConfig")
					found["ServerConfig"] = true
				case "PluginConfig":
					g.must(g.src(sp.Type) == "struct {\n\tName\tstring\n\tArgs\t[]string\n}", sp, "the fields of PluginConfig are not Name string, Args []string")
					found["PluginConfig"] = true
				}
			case *ast.ValueSpec:
				for i, n := range sp.Names {
					switch {
					case n.Name == "log":
						g.must(gd.Tok == token.VAR && len(sp.Values) == len(sp.Names), sp, "unexpected declaration of log")
						c, ok := sp.Values[i].(*ast.CallExpr)
						g.must(ok && g.src(c.Fun) == "logger.GetLogger" && g.imports["logger"] == cfgPkgs["logger"], sp, "log is not a logger.GetLogger(…)")
						found["log"] = true
					case n.Name == "protocolV6" || n.Name == "protocolV4":
						g.must(gd.Tok == token.CONST && sp.Type != nil && g.src(sp.Type) == "protocolVersion" && len(sp.Values) == len(sp.Names), sp, "%s is not a protocolVersion constant with a value", n.Name)
						l, ok := sp.Values[i].(*ast.BasicLit)
						g.must(ok && l.Kind == token.INT, sp.Values[i], "the value of %s must be an integer literal", n.Name)
						v, err := strconv.ParseUint(l.Value, 0, 31)
						g.must(err == nil, l, "unsupported integer literal")
						g.consts[n.Name], g.ckind[n.Name] = strconv.FormatUint(v, 10), "ver"
						found[n.Name] = true
					}
				}
			}
		}
	}
	for _, n := range []string{"protocolVersion", "Config", "ServerConfig", "PluginConfig", "log", "protocolV6", "protocolV4"} {
		if !found[n] {
			die("declaration of", n, "not found")
		}
	}
	// the library: ports and default addresses
	for _, l := range []struct{ file, pkg string }{{"dhcpv4/defaults.go", "dhcpv4"}, {"dhcpv6/defaults.go", "dhcpv6"}} {
		lf, err := parser.ParseFile(g.fset, filepath.Join(lib, l.file), nil, parser.SkipObjectResolution)
		if err != nil {
			die("parse:", err)
		}
		for _, d := range lf.Decls {
			gd, ok := d.(*ast.GenDecl)
			if !ok || (gd.Tok != token.CONST && gd.Tok != token.VAR) {
				continue
			}
			for _, sp := range gd.Specs {
				vs := sp.(*ast.ValueSpec)
				if len(vs.Names) != len(vs.Values) {
					continue
				}
				for i, n := range vs.Names {
					name := l.pkg + "." + n.Name
					switch v := vs.Values[i].(type) {
					case *ast.BasicLit:
						if x, err := strconv.ParseUint(v.Value, 0, 31); err == nil && v.Kind == token.INT && gd.Tok == token.CONST {
							g.consts[name], g.ckind[name] = strconv.FormatUint(x, 10), "int"
						}
					case *ast.CallExpr:
						if g.src(v.Fun) == "net.ParseIP" && len(v.Args) == 1 && gd.Tok == token.VAR {
							if s, ok := g.strConst(v.Args[0]); ok {
								g.consts[name], g.ckind[name] = g.ipLit(v, s), "ip"
							}
						}
					}
				}
			}
		}
	}
}

func runGen10(srcPath, outPath, lib string) {
	die := func(a ...interface{}) {
		fmt.Fprintln(os.Stderr, append([]interface{}{"gen:"}, a...)...)
		os.Exit(2)
	}
	if srcPath == "" {
		srcPath = cfgSrc
	}
	g := &cgen{gen: &gen{fset: token.NewFileSet()}, imports: map[string]string{}, pkgNames: map[string]bool{}, funcs: map[string]*ast.FuncDecl{},
		consts: map[string]string{}, ckind: map[string]string{}, loops: map[ast.Node]string{}, nloops: map[string]int{}, errsSeen: map[string]bool{}}
	file, err := parser.ParseFile(g.fset, srcPath, nil, parser.SkipObjectResolution)
	if err != nil {
		die("parse:", err)
	}
	for _, im := range file.Imports {
		p, _ := strconv.Unquote(im.Path.Value)
		name := filepath.Base(p)
		if im.Name != nil {
			name = im.Name.Name
		}
		g.imports[name] = p
		if want, ok := cfgPkgs[name]; ok {
			g.must(p == want, im, "package name %s stands for %s in the vocabulary", name, want)
		}
	}
	for _, d := range file.Decls {
		switch d := d.(type) {
		case *ast.FuncDecl:
			if g.funcs[d.Name.Name] != nil {
				die(srcPath+":", d.Name.Name, "declared twice")
			}
			g.funcs[d.Name.Name] = d
			if d.Recv == nil {
				g.pkgNames[d.Name.Name] = true
			}
		case *ast.GenDecl:
			for _, sp := range d.Specs {
				switch sp := sp.(type) {
				case *ast.ValueSpec:
					for _, n := range sp.Names {
						g.pkgNames[n.Name] = true
					}
				case *ast.TypeSpec:
					g.pkgNames[sp.Name.Name] = true
				}
			}
		}
	}
	for b := range cfgBuiltins {
		if g.pkgNames[b] || g.imports[b] != "" {
			die(srcPath+": the builtin", b, "is redefined at package level")
		}
	}
	if g.funcs["ConfigErrorFromString"] != nil {
		die(srcPath + ": ConfigErrorFromString is expected in another file of the package")
	}
	g.checkDecls(file, lib, die)
	var defs []string
	for _, spec := range cfgFuncs {
		if g.funcs[spec.name] == nil {
			die(srcPath+": function", spec.name, "not found")
		}
		n := len(g.loopDefs)
		text := g.function(spec)
		defs = append(defs, g.loopDefs[n:]...)
		defs = append(defs, text)
	}
	// every text of the table must still be in the source: an error that disappeared is a change of the logic
	var missing []string
	errType := ""
	for _, e := range cfgErrs {
		if !g.errsSeen[e.name] {
			missing = append(missing, e.name)
		}
		errType += "  /-- `" + e.fn + "`: `" + e.ctor + "(" + strings.ReplaceAll(strconv.Quote(e.text), "`", "'") + ", …)` -/\n  | " + e.name + "\n"
	}
	sort.Strings(missing)
	if len(missing) > 0 {
		die(srcPath+": error values of the table cfgErrs that the source no longer returns:", strings.Join(missing, ", "))
	}
	out := fmt.Sprintf(gen10Header, errType) + strings.Join(defs, "") + "end CoreDhcp.GenCfg\n"
	if err := os.WriteFile(outPath, []byte(out), 0o644); err != nil {
		die(err)
	}
	fmt.Printf("gen: wrote %s (%d bytes) from %s\n", outPath, len(out), srcPath)
}
