package main

// Conformance engine `bits`: random operation sequences on the REAL
// github.com/bits-and-blooms/bitset BitSet, restricted to the calls the two
// allocators make (New / Len / Test / Set / Clear / NextClear).  The Lean
// driver steps the word-level model (Model/BitsWords.lean) and the list model
// (Model/Bits.lean) along the trace.

import (
	"fmt"
	"strings"

	"github.com/bits-and-blooms/bitset"
)

func init() {
	engines["bits"] = &engine{gen: genBits, replay: replayBits}
}

var bitsCur *bitset.BitSet

func (c *ctx) bitsOp(op string, arg uint) {
	line := fmt.Sprintf("%s %d", op, arg)
	res := guard(func() string {
		if op != "new" && bitsCur == nil {
			bitsCur = bitset.New(0)
		}
		switch op {
		case "new":
			bitsCur = bitset.New(arg)
			return fmt.Sprintf("len %d words %d", bitsCur.Len(), len(bitsCur.Words()))
		case "set":
			bitsCur.Set(arg)
			return fmt.Sprintf("len %d words %d", bitsCur.Len(), len(bitsCur.Words()))
		case "clear":
			bitsCur.Clear(arg)
			return fmt.Sprintf("len %d words %d", bitsCur.Len(), len(bitsCur.Words()))
		case "test":
			return fmt.Sprintf("%v", bitsCur.Test(arg))
		case "nextclear":
			i, ok := bitsCur.NextClear(arg)
			return fmt.Sprintf("%d %v", i, ok)
		case "len":
			return fmt.Sprintf("%d", bitsCur.Len())
		}
		return "unknown"
	})
	c.emit(line, res)
}

var bitsLens = []uint{0, 1, 63, 64, 65, 127, 128, 130, 1000}

// an index around a word boundary, around the length, or anywhere
func (c *ctx) bitsIdx() uint {
	l := uint(0)
	if bitsCur != nil {
		l = bitsCur.Len()
	}
	switch c.rng.Intn(8) {
	case 0:
		return 0
	case 1: // around a word boundary
		w := uint(c.rng.Intn(int(l/64) + 2))
		d := uint(c.rng.Intn(3))
		if w*64+d >= 1 {
			return w*64 + d - 1
		}
		return 0
	case 2: // around the length
		d := uint(c.rng.Intn(3))
		if l+d >= 1 {
			return l + d - 1
		}
		return 0
	case 3: // beyond the length (extension when set)
		return l + uint(c.rng.Intn(140))
	default:
		if l == 0 {
			return uint(c.rng.Intn(3))
		}
		return uint(c.rng.Intn(int(l)))
	}
}

func genBits(c *ctx) {
	// corpus: the behaviours the allocators rely on
	c.bitsOp("new", 0)
	c.bitsOp("nextclear", 0)
	c.bitsOp("test", 0)
	c.bitsOp("clear", 0)
	c.bitsOp("set", 0)
	c.bitsOp("nextclear", 0)
	c.bitsOp("new", 65)
	for i := uint(0); i < 65; i++ {
		c.bitsOp("set", i)
	}
	c.bitsOp("nextclear", 0) // full, length not a multiple of 64
	c.bitsOp("nextclear", 64)
	c.bitsOp("nextclear", 65)
	c.bitsOp("nextclear", 128)
	c.bitsOp("set", 70) // extension inside the last word
	c.bitsOp("nextclear", 0)
	c.bitsOp("set", 200) // extension by words
	c.bitsOp("nextclear", 66)
	c.bitsOp("len", 0)
	for c.count < c.n {
		if bitsCur == nil || c.rng.Intn(60) == 0 {
			c.bitsOp("new", bitsLens[c.rng.Intn(len(bitsLens))])
			// sometimes fill it (completely, or all but one bit)
			switch c.rng.Intn(4) {
			case 0, 1:
				l := bitsCur.Len()
				hole := l
				if l > 0 && c.rng.Intn(2) == 0 {
					hole = uint(c.rng.Intn(int(l)))
				}
				for i := uint(0); i < l; i++ {
					if i != hole {
						c.bitsOp("set", i)
					}
				}
			}
			continue
		}
		i := c.bitsIdx()
		switch c.rng.Intn(10) {
		case 0, 1, 2:
			// keep the set from growing without bound
			if i > 4000 {
				i = i % 4000
			}
			c.bitsOp("set", i)
		case 3, 4:
			c.bitsOp("clear", i)
		case 5, 6:
			c.bitsOp("test", i)
		case 7, 8:
			if c.rng.Intn(2) == 0 {
				i = 0
			}
			c.bitsOp("nextclear", i)
		default:
			c.bitsOp("len", 0)
		}
	}
}

func replayBits(c *ctx, ops []string) {
	bitsCur = nil
	for _, l := range ops {
		f := strings.Fields(l)
		if len(f) < 2 {
			continue
		}
		c.bitsOp(f[0], uint(atou(f[1])))
	}
}
