package main

import (
	"errors"
	"fmt"
	"strings"

	"github.com/coredhcp/coredhcp/config"
	"github.com/coredhcp/coredhcp/handler"
	"github.com/coredhcp/coredhcp/plugins"
	"github.com/insomniacslk/dhcp/dhcpv4"
	"github.com/insomniacslk/dhcp/dhcpv6"
)

func init() {
	engines["plugins"] = &engine{gen: genPlugins, replay: replayPlugins}
}

var setupLog []string

// synthetic plugins: name -> (index, has4, has6). The first argument scripts the setup:
// "fail" = error, "nil" = nil handler without error, anything else = a handler that tags
// the response with index*8 + (number of arguments mod 8).
var synth = []struct {
	name       string
	has4, has6 bool
}{{"dual", true, true}, {"only4", true, false}, {"only6", false, true}, {"dualb", true, true}, {"none", false, false}}

var synthRegistered = false

func registerSynth() {
	if synthRegistered {
		return
	}
	synthRegistered = true
	for i, s := range synth {
		i, s := i, s
		p := &plugins.Plugin{Name: s.name}
		if s.has4 {
			p.Setup4 = func(args ...string) (handler.Handler4, error) {
				setupLog = append(setupLog, fmt.Sprintf("4:%s:%d", s.name, len(args)))
				if len(args) > 0 && args[0] == "fail" {
					return nil, errors.New("scripted setup failure")
				}
				if len(args) > 0 && args[0] == "nil" {
					return nil, nil
				}
				id := i*8 + len(args)%8
				return func(req, resp *dhcpv4.DHCPv4) (*dhcpv4.DHCPv4, bool) {
					addTag4(resp, id)
					return resp, false
				}, nil
			}
		}
		if s.has6 {
			p.Setup6 = func(args ...string) (handler.Handler6, error) {
				setupLog = append(setupLog, fmt.Sprintf("6:%s:%d", s.name, len(args)))
				if len(args) > 0 && args[0] == "fail" {
					return nil, errors.New("scripted setup failure")
				}
				if len(args) > 0 && args[0] == "nil" {
					return nil, nil
				}
				id := i*8 + len(args)%8
				return func(req, resp dhcpv6.DHCPv6) (dhcpv6.DHCPv6, bool) {
					addTag6(resp.(*dhcpv6.Message), id)
					return resp, false
				}, nil
			}
		}
		if err := plugins.RegisterPlugin(p); err != nil {
			panic(err)
		}
	}
}

func parsePluginList(s string) *config.ServerConfig {
	if s == "-" {
		return nil
	}
	sc := &config.ServerConfig{}
	body := strings.TrimSuffix(strings.TrimPrefix(s, "["), "]")
	if body == "" {
		return sc
	}
	for _, item := range strings.Split(body, ",") {
		parts := strings.Split(item, ":")
		sc.Plugins = append(sc.Plugins, config.PluginConfig{Name: parts[0], Args: parts[1:]})
	}
	return sc
}

func execLoad(c *ctx, f []string) {
	registerSynth()
	setupLog = nil
	conf := &config.Config{Server4: parsePluginList(f[1]), Server6: parsePluginList(f[2])}
	res := guard(func() string {
		h4, h6, err := plugins.LoadPlugins(conf)
		if err != nil {
			switch {
			case strings.Contains(err.Error(), "unknown plugin"):
				return "err unknown"
			case strings.Contains(err.Error(), "scripted setup failure"):
				return "err setup"
			case strings.Contains(err.Error(), "handler for plugin"):
				return "err nil"
			case strings.Contains(err.Error(), "no configuration found"):
				return "err noconfig"
			}
			return "err other"
		}
		// identify the handlers by running the two chains once
		req4, _ := dhcpv4.New()
		resp4, _ := dhcpv4.NewReplyFromRequest(req4)
		for _, h := range h4 {
			resp4, _ = h(req4, resp4)
		}
		m6, _ := dhcpv6.NewMessage()
		var r6 dhcpv6.DHCPv6 = &dhcpv6.Message{MessageType: dhcpv6.MessageTypeReply}
		for _, h := range h6 {
			r6, _ = h(m6, r6)
		}
		return fmt.Sprintf("ok %d %s %d %s", len(h4), tags4(resp4), len(h6), tags6(r6))
	})
	sl := "-"
	if len(setupLog) > 0 {
		sl = strings.Join(setupLog, ",")
	}
	c.emit(strings.Join(f, " "), res+" ; setups "+sl)
}

func replayPlugins(c *ctx, ops []string) {
	for _, op := range ops {
		execLoad(c, strings.Fields(op))
	}
}

func genPlugins(c *ctx) {
	names := []string{"dual", "only4", "only6", "dualb", "none", "dual", "only4", "only6", "nosuch", "Dual"}
	mk := func() string {
		switch c.rng.Intn(8) {
		case 0:
			return "-"
		case 1:
			return "[]"
		}
		n := 1 + c.rng.Intn(5)
		var items []string
		for i := 0; i < n; i++ {
			name := names[c.rng.Intn(len(names))]
			if c.rng.Intn(12) != 0 && (name == "nosuch" || name == "Dual") {
				name = "dual"
			}
			item := name
			na := c.rng.Intn(4)
			for a := 0; a < na; a++ {
				arg := []string{"a", "b", "fail", "nil", "x1"}[c.rng.Intn(5)]
				if (arg == "fail" || arg == "nil") && c.rng.Intn(4) != 0 {
					arg = "ok"
				}
				item += ":" + arg
			}
			items = append(items, item)
		}
		return "[" + strings.Join(items, ",") + "]"
	}
	for c.count < c.n {
		execLoad(c, []string{"load", mk(), mk()})
	}
}
