// gen.go — `harness gen`: regenerate CoreDhcp/Generated/IPCalc.lean from the Go
// source of plugins/allocators/ipcalc.go (functions Offset and AddPrefixes).
// This is unit `ipcalc` (the default of -unit); the decision-logic units dispatch6,
// dispatch4, serverid6 and netmask are in gen2.go, one output file per unit.
//
// The translator walks the go/ast of the two functions and emits Lean text. It
// knows ONLY the constructs these two functions use; anything else (a new
// statement kind, an unknown call, an unknown operator, an unknown error string)
// is a loud failure: a message with the node and its source position, exit code 2.
//
// Translation scheme:
//   - net.IP (16 bytes) ↦ Addr; uint64 and uint ↦ BitVec 64 (wrapping; uint is
//     taken to be 64 bits wide); int ↦ Int; (T, error) ↦ Except CalcErr T
//   - statements ↦ nested `if … then … else …` / `let`; an `if` that does not
//     return gets the rest of the enclosing block duplicated into both branches;
//     re-assignment is a shadowing `let`
//   - shift counts are `(count).toNat` (BitVec shifts by ≥ 64 give 0, like Go);
//     ordered comparisons of unsigned values compare `.toNat`
//   - bytes.Compare / len on a net.IP ↦ `bytesCompare` / `ipLen`, fixed vocabulary
//     defined in the header of the generated file; bits.Sub64/Add64/Mul64 ↦ the
//     model's sub64/add64/mul64
package main

import (
	"bytes"
	"flag"
	"fmt"
	"go/ast"
	"go/parser"
	"go/printer"
	"go/token"
	"os"
	"path/filepath"
	"strconv"
	"strings"
)

type typ int

const (
	tUntyped typ = iota // untyped integer constant (always a literal here)
	tInt                // Go int    ↦ Int
	tU64                // Go uint64 ↦ BitVec 64
	tUint               // Go uint   ↦ BitVec 64
	tIP                 // net.IP    ↦ Addr
	tBool               // ↦ decidable Prop
)

var typNames = map[typ]string{tUntyped: "untyped constant", tInt: "int", tU64: "uint64", tUint: "uint", tIP: "net.IP", tBool: "bool"}
var goTypes = map[string]typ{"net.IP": tIP, "int": tInt, "uint64": tU64, "uint": tUint}
var leanTypes = map[typ]string{tInt: "Int", tU64: "BitVec 64", tUint: "BitVec 64", tIP: "Addr"}

func (t typ) bv() bool { return t == tU64 || t == tUint }

// Lean precedences, for parenthesisation.
const pOr, pAnd, pCmp, pAdd, pShift, pApp, pAtom = 30, 35, 50, 65, 75, 90, 100

// ex is a translated expression.
type ex struct {
	s   string // Lean text
	t   typ
	p   int    // precedence of the outermost Lean operator
	lit string // decimal digits if the expression is an integer literal
}

type env map[string]typ

func (e env) with(name string, t typ) env {
	n := env{name: t}
	for k, v := range e {
		if k != name {
			n[k] = v
		}
	}
	return n
}

type gen struct {
	fset *token.FileSet
	ret  typ // type of the first result of the function being translated
}

var errorStrings = map[string]string{"prefix out of range": ".prefixRange", "AddPrefixes needs 128-bit IPs": ".need128"}
var errorVars = map[string]string{"ErrOverflow": ".overflow"}

// names a Go variable may not have: Lean keywords, the Lean vocabulary, and the Go
// names the translator recognises textually (a local of that name would shadow them)
var reserved = map[string]bool{}

func init() {
	for _, w := range strings.Fields(`at from have show fun let then else if end do in by def where match with open
		Type Prop Sort import namespace sub64 add64 mul64 bytesCompare ipLen Addr CalcErr BitVec Int Nat offset addPrefixes
		len make uint uint64 int nil bits binary bytes errors net ErrOverflow`) {
		reserved[w] = true
	}
}

func (g *gen) src(n ast.Node) string {
	var b bytes.Buffer
	printer.Fprint(&b, g.fset, n)
	return b.String()
}

func (g *gen) fail(n ast.Node, format string, a ...interface{}) {
	fmt.Fprintf(os.Stderr, "gen: %s: %s: %T `%s`\n", g.fset.Position(n.Pos()), fmt.Sprintf(format, a...), n, g.src(n))
	os.Exit(2)
}

func (g *gen) must(ok bool, n ast.Node, format string, a ...interface{}) {
	if !ok {
		g.fail(n, format, a...)
	}
}

func wrap(e ex, min int) string {
	if e.p < min {
		return "(" + e.s + ")"
	}
	return e.s
}

// nat renders an unsigned value as a Nat (shift counts, ordered comparisons).
func nat(e ex) string {
	if e.lit != "" {
		return e.lit
	}
	return wrap(e, pAtom) + ".toNat"
}

func indent(s string) string { return "  " + strings.ReplaceAll(s, "\n", "\n  ") }

// ---------------------------------------------------------------- expressions

func (g *gen) literal(n ast.Node, digits string, want typ) ex {
	g.must(want == tUntyped || want == tInt || want.bv(), n, "integer constant used as %s", typNames[want])
	if want.bv() {
		return ex{s: digits + "#64", t: want, p: pAtom, lit: digits}
	}
	return ex{s: digits, t: want, p: pAtom, lit: digits}
}

// pair translates two operands that must have the same type; an untyped constant
// takes the type of the other operand.
func (g *gen) pair(n ast.Node, l, r ast.Expr, e env) (ex, ex) {
	a, b := g.expr(l, e, tUntyped), g.expr(r, e, tUntyped)
	g.must(a.t != tUntyped || b.t != tUntyped, n, "constant expression (operation on two constants) unsupported")
	if a.t == tUntyped {
		a = g.expr(l, e, b.t)
	}
	if b.t == tUntyped {
		b = g.expr(r, e, a.t)
	}
	g.must(a.t == b.t, n, "mismatched operand types %s and %s", typNames[a.t], typNames[b.t])
	return a, b
}

// expr translates x; `want` is the type an untyped constant takes from its context
// (tUntyped: none, the result may then be an untyped literal).
func (g *gen) expr(x ast.Expr, e env, want typ) ex {
	switch x := x.(type) {
	case *ast.ParenExpr:
		return g.expr(x.X, e, want)
	case *ast.BasicLit:
		v, err := strconv.ParseUint(x.Value, 0, 64)
		g.must(x.Kind == token.INT && err == nil, x, "unsupported literal")
		return g.literal(x, strconv.FormatUint(v, 10), want)
	case *ast.Ident:
		t, ok := e[x.Name]
		g.must(ok, x, "unknown identifier")
		return ex{s: x.Name, t: t, p: pAtom}
	case *ast.SelectorExpr:
		g.must(g.src(x) == "net.IPv6len", x, "unsupported selector")
		return g.literal(x, "16", want)
	case *ast.BinaryExpr:
		return g.binary(x, e, want)
	case *ast.CallExpr:
		return g.call(x, e)
	}
	g.fail(x, "unsupported expression")
	return ex{}
}

var cmpOps = map[token.Token]string{token.EQL: "=", token.NEQ: "≠", token.LSS: "<", token.LEQ: "≤", token.GTR: ">", token.GEQ: "≥"}

func (g *gen) binary(x *ast.BinaryExpr, e env, want typ) ex {
	switch x.Op {
	case token.LAND, token.LOR:
		a, b := g.expr(x.X, e, tBool), g.expr(x.Y, e, tBool)
		g.must(a.t == tBool && b.t == tBool, x, "operands of %s must be bool", x.Op)
		op, p := "∧", pAnd
		if x.Op == token.LOR {
			op, p = "∨", pOr
		}
		return ex{s: wrap(a, p+1) + " " + op + " " + wrap(b, p+1), t: tBool, p: p}
	case token.EQL, token.NEQ, token.LSS, token.LEQ, token.GTR, token.GEQ:
		a, b := g.pair(x, x.X, x.Y, e)
		g.must(a.t == tInt || a.t.bv(), x, "comparison of %s unsupported", typNames[a.t])
		if a.t.bv() && x.Op != token.EQL && x.Op != token.NEQ {
			return ex{s: nat(a) + " " + cmpOps[x.Op] + " " + nat(b), t: tBool, p: pCmp}
		}
		return ex{s: wrap(a, pCmp+1) + " " + cmpOps[x.Op] + " " + wrap(b, pCmp+1), t: tBool, p: pCmp}
	case token.ADD, token.SUB:
		a, b := g.pair(x, x.X, x.Y, e)
		// Go int arithmetic wraps at 2^63, Lean's Int does not: not needed, so not translated
		g.must(a.t.bv(), x, "arithmetic on %s unsupported (only uint64/uint)", typNames[a.t])
		return ex{s: wrap(a, pAdd) + " " + x.Op.String() + " " + wrap(b, pAdd+1), t: a.t, p: pAdd}
	case token.SHL, token.SHR:
		a := g.expr(x.X, e, want) // an untyped constant left operand takes its type from the context
		n := g.expr(x.Y, e, tUntyped)
		if a.t == tUntyped {
			g.must(n.t != tUntyped, x, "constant expression (operation on two constants) unsupported")
			return ex{t: tUntyped} // placeholder: the caller re-translates with a type
		}
		g.must(a.t.bv() && (n.t.bv() || n.lit != ""), x, "shift of %s by %s unsupported (only unsigned by unsigned)", typNames[a.t], typNames[n.t])
		op := map[token.Token]string{token.SHL: "<<<", token.SHR: ">>>"}[x.Op]
		return ex{s: wrap(a, pShift) + " " + op + " " + nat(n), t: a.t, p: pShift}
	}
	g.fail(x, "unsupported binary operator %s", x.Op)
	return ex{}
}

// half recognises ip[:8] / ip[8:] of a net.IP variable: (variable, Addr field).
func (g *gen) half(x ast.Expr, e env) (name, field string) {
	s, ok := x.(*ast.SliceExpr)
	g.must(ok && !s.Slice3, x, "expected ip[:8] or ip[8:]")
	id, ok := s.X.(*ast.Ident)
	g.must(ok && e[id.Name] == tIP, x, "slice of something that is not a net.IP variable")
	is8 := func(b ast.Expr) bool { l, ok := b.(*ast.BasicLit); return ok && l.Value == "8" }
	switch {
	case s.Low == nil && s.High != nil && is8(s.High):
		return id.Name, "hi"
	case s.High == nil && s.Low != nil && is8(s.Low):
		return id.Name, "lo"
	}
	g.fail(x, "unsupported slice bounds (only [:8] and [8:])")
	return
}

// args translates the arguments of a call, checking their number and types.
func (g *gen) args(c *ast.CallExpr, e env, types ...typ) []string {
	g.must(len(c.Args) == len(types) && !c.Ellipsis.IsValid(), c, "expected %d arguments", len(types))
	var out []string
	for i, a := range c.Args {
		v := g.expr(a, e, types[i])
		g.must(v.t == types[i], a, "argument is a %s, want %s", typNames[v.t], typNames[types[i]])
		out = append(out, wrap(v, pAtom))
	}
	return out
}

func (g *gen) call(c *ast.CallExpr, e env) ex {
	switch fn := g.src(c.Fun); fn {
	case "uint", "uint64":
		g.must(len(c.Args) == 1, c, "expected 1 argument")
		a := g.expr(c.Args[0], e, goTypes[fn])
		g.must(a.t == tInt || a.t.bv(), c, "conversion from %s unsupported", typNames[a.t])
		if a.t == tInt { // int → unsigned conversion wraps modulo 2^64
			a = ex{s: "BitVec.ofInt 64 " + wrap(a, pAtom), p: pApp}
		}
		a.t = goTypes[fn]
		return a
	case "len":
		return ex{s: "ipLen " + g.args(c, e, tIP)[0], t: tInt, p: pApp}
	case "bytes.Compare":
		return ex{s: "bytesCompare " + strings.Join(g.args(c, e, tIP, tIP), " "), t: tInt, p: pApp}
	case "binary.BigEndian.Uint64":
		g.must(len(c.Args) == 1, c, "expected 1 argument")
		name, field := g.half(c.Args[0], e)
		return ex{s: name + "." + field, t: tU64, p: pAtom}
	case "make":
		g.must(len(c.Args) == 2 && g.src(c.Args[0]) == "net.IP" && g.expr(c.Args[1], e, tUntyped).lit == "16", c, "only make(net.IP, 16) is supported")
		return ex{s: "(⟨0#64, 0#64⟩ : Addr)", t: tIP, p: pAtom}
	case "bits.Sub64", "bits.Add64", "bits.Mul64":
		g.fail(c, "%s returns two values: only supported as `x, y = %s(...)`", fn, fn)
	}
	g.fail(c, "unknown call")
	return ex{}
}

// call2 translates the two-valued calls bits.Sub64 / Add64 / Mul64.
func (g *gen) call2(x ast.Expr, e env) string {
	c, ok := x.(*ast.CallExpr)
	g.must(ok, x, "two-valued assignment from something that is not a call")
	switch g.src(c.Fun) {
	case "bits.Sub64":
		return "sub64 " + strings.Join(g.args(c, e, tU64, tU64, tU64), " ")
	case "bits.Add64":
		return "add64 " + strings.Join(g.args(c, e, tU64, tU64, tU64), " ")
	case "bits.Mul64":
		return "mul64 " + strings.Join(g.args(c, e, tU64, tU64), " ")
	}
	g.fail(c, "unknown two-valued call")
	return ""
}

func (g *gen) errorValue(x ast.Expr) string {
	if id, ok := x.(*ast.Ident); ok && errorVars[id.Name] != "" {
		return errorVars[id.Name]
	}
	c, ok := x.(*ast.CallExpr)
	g.must(ok && g.src(c.Fun) == "errors.New" && len(c.Args) == 1, x, "unknown error value")
	l, ok := c.Args[0].(*ast.BasicLit)
	g.must(ok && l.Kind == token.STRING, x, "unknown error value")
	s, _ := strconv.Unquote(l.Value)
	g.must(errorStrings[s] != "", x, "unknown error string (no CalcErr constructor)")
	return errorStrings[s]
}

// ----------------------------------------------------------------- statements

// block translates a statement list; k yields the translation of what follows it.
func (g *gen) block(list []ast.Stmt, e env, depth int, k func(env) string) string {
	if len(list) == 0 {
		return k(e)
	}
	if _, isRet := list[0].(*ast.ReturnStmt); isRet && len(list) > 1 {
		g.fail(list[1], "unreachable statement after return")
	}
	return g.stmt(list[0], e, depth, func(e2 env) string { return g.block(list[1:], e2, depth, k) })
}

// bind emits `let name := rhs` (nothing for `_`) and returns the new environment.
func (g *gen) bind(lhs ast.Expr, define bool, depth int, rhs string, t typ, e env, out *[]string) env {
	id, ok := lhs.(*ast.Ident)
	g.must(ok, lhs, "assignment target must be a plain variable")
	if id.Name == "_" {
		return e
	}
	old, known := e[id.Name]
	g.must(!reserved[id.Name], lhs, "variable name clashes with a name the translator gives a fixed meaning")
	g.must(known || define, lhs, "assignment to unknown variable")
	// a `let` in a branch would wrongly stay visible in the duplicated continuation
	g.must(!define || depth == 0, lhs, "variable declaration inside a nested block unsupported")
	g.must(!known || old == t, lhs, "variable of type %s assigned a %s", typNames[old], typNames[t])
	*out = append(*out, "let "+id.Name+" := "+rhs)
	return e.with(id.Name, t)
}

// tmpName names the pair a tuple assignment goes through, after its targets.
func (g *gen) tmpName(lhs []ast.Expr, e env) string {
	name := g.src(lhs[0]) + "_" + g.src(lhs[1])
	_, clash := e[name]
	g.must(!clash && !reserved[name], lhs[0], "temporary name %s clashes with a variable", name)
	return name
}

func (g *gen) assign(s *ast.AssignStmt, e env, depth int) ([]string, env) {
	var out []string
	define := s.Tok == token.DEFINE
	if op, ok := map[token.Token]token.Token{token.SHL_ASSIGN: token.SHL, token.SHR_ASSIGN: token.SHR,
		token.ADD_ASSIGN: token.ADD, token.SUB_ASSIGN: token.SUB}[s.Tok]; ok { // x op= y  ≡  x = x op y
		v := g.expr(&ast.BinaryExpr{X: s.Lhs[0], OpPos: s.TokPos, Op: op, Y: s.Rhs[0]}, e, tUntyped)
		return out, g.bind(s.Lhs[0], false, depth, v.s, v.t, e, &out)
	}
	g.must(define || s.Tok == token.ASSIGN, s, "unsupported assignment operator %s", s.Tok)
	if len(s.Lhs) == 2 && len(s.Rhs) == 1 { // x, y = bits.F(...)
		tmp := g.tmpName(s.Lhs, e)
		out = append(out, "let "+tmp+" := "+g.call2(s.Rhs[0], e))
		e2 := g.bind(s.Lhs[0], define, depth, tmp+".1", tU64, e, &out)
		return out, g.bind(s.Lhs[1], define, depth, tmp+".2", tU64, e2, &out)
	}
	g.must(len(s.Lhs) == len(s.Rhs) && len(s.Lhs) <= 2, s, "unsupported assignment shape")
	// parallel assignment: every right-hand side is evaluated in the old environment
	vals, usesLhs := make([]ex, len(s.Rhs)), false
	for i, r := range s.Rhs {
		want := tUntyped
		if id, ok := s.Lhs[i].(*ast.Ident); ok {
			want = e[id.Name] // tUntyped when new
		}
		vals[i] = g.expr(r, e, want)
		g.must(vals[i].t != tUntyped, r, "untyped constant assigned to a new variable unsupported")
		ast.Inspect(r, func(n ast.Node) bool {
			for _, l := range s.Lhs {
				if id, ok := n.(*ast.Ident); ok && id.Name == g.src(l) {
					usesLhs = true
				}
			}
			return true
		})
	}
	if len(vals) == 2 && usesLhs { // e.g. a, b = b, a: go through a pair
		tmp := g.tmpName(s.Lhs, e)
		out = append(out, "let "+tmp+" := ("+vals[0].s+", "+vals[1].s+")")
		vals[0].s, vals[1].s = tmp+".1", tmp+".2"
	}
	for i, v := range vals {
		e = g.bind(s.Lhs[i], define, depth, v.s, v.t, e, &out)
	}
	return out, e
}

func (g *gen) stmt(s ast.Stmt, e env, depth int, k func(env) string) string {
	lets := func(out []string, e2 env) string { return strings.Join(append(out, k(e2)), "\n") }
	switch s := s.(type) {
	case *ast.IfStmt:
		g.must(s.Init == nil, s, "if with init statement unsupported")
		c := g.expr(s.Cond, e, tBool)
		g.must(c.t == tBool, s.Cond, "condition is not a bool")
		// no variable can be declared in a nested block, so what follows sees the outer environment
		rest := func(env) string { return k(e) }
		var els string
		switch b := s.Else.(type) {
		case nil:
			els = k(e)
		case *ast.BlockStmt:
			els = g.block(b.List, e, depth+1, rest)
		case *ast.IfStmt:
			els = g.stmt(b, e, depth, k)
		default:
			g.fail(s.Else, "unsupported else")
		}
		return "if " + c.s + " then\n" + indent(g.block(s.Body.List, e, depth+1, rest)) + "\nelse\n" + indent(els)
	case *ast.ReturnStmt:
		g.must(len(s.Results) == 2, s, "return must have two results")
		if id, ok := s.Results[1].(*ast.Ident); ok && id.Name == "nil" {
			v := g.expr(s.Results[0], e, g.ret)
			g.must(v.t == g.ret, s, "returned value is a %s, want %s", typNames[v.t], typNames[g.ret])
			return ".ok " + wrap(v, pAtom)
		}
		r := g.src(s.Results[0]) // the value next to an error is ignored by the model
		g.must(r == "0" || r == "net.IP{}", s, "value returned next to an error must be 0 or net.IP{}")
		return ".error " + g.errorValue(s.Results[1])
	case *ast.AssignStmt:
		return lets(g.assign(s, e, depth))
	case *ast.DeclStmt: // var x, y uint64
		d, ok := s.Decl.(*ast.GenDecl)
		g.must(ok && d.Tok == token.VAR && len(d.Specs) == 1, s, "unsupported declaration")
		v := d.Specs[0].(*ast.ValueSpec)
		g.must(len(v.Values) == 0 && v.Type != nil && g.src(v.Type) == "uint64", s, "only `var x, y uint64` is supported")
		var out []string
		for _, n := range v.Names {
			e = g.bind(n, true, depth, "0#64", tU64, e, &out)
		}
		return lets(out, e)
	case *ast.ExprStmt: // binary.BigEndian.PutUint64(ret[:8], v)
		c, ok := s.X.(*ast.CallExpr)
		g.must(ok && g.src(c.Fun) == "binary.BigEndian.PutUint64" && len(c.Args) == 2, s, "unsupported expression statement")
		name, field := g.half(c.Args[0], e)
		v := g.expr(c.Args[1], e, tU64)
		g.must(v.t == tU64, c, "PutUint64 of a %s", typNames[v.t])
		return lets([]string{"let " + name + " := { " + name + " with " + field + " := " + v.s + " }"}, e)
	}
	g.fail(s, "unsupported statement")
	return ""
}

// ------------------------------------------------------------------ functions

func (g *gen) goType(x ast.Expr) typ {
	t, ok := goTypes[g.src(x)]
	g.must(ok, x, "unsupported type")
	return t
}

func (g *gen) function(f *ast.FuncDecl) string {
	g.must(f.Recv == nil && f.Type.TypeParams == nil && f.Body != nil, f.Name, "unsupported function form")
	res := f.Type.Results
	g.must(res != nil && len(res.List) == 2 && len(res.List[0].Names) == 0 && g.src(res.List[1].Type) == "error",
		f.Type, "result must be an unnamed (T, error)")
	g.ret = g.goType(res.List[0].Type)
	e := env{}
	sig := "def " + strings.ToLower(f.Name.Name[:1]) + f.Name.Name[1:]
	for _, p := range f.Type.Params.List {
		t := g.goType(p.Type)
		var names []string
		for _, n := range p.Names {
			g.must(!reserved[n.Name], n, "parameter name clashes with a name the translator gives a fixed meaning")
			e[n.Name] = t
			names = append(names, n.Name)
		}
		sig += " (" + strings.Join(names, " ") + " : " + leanTypes[t] + ")"
	}
	sig += " : Except CalcErr " + map[bool]string{true: "(BitVec 64)", false: leanTypes[g.ret]}[g.ret.bv()] + " :="
	body := g.block(f.Body.List, e, 0, func(env) string {
		g.fail(f.Name, "control reaches the end of the function without a return")
		return ""
	})
	file := filepath.Base(g.fset.Position(f.Pos()).Filename)
	return fmt.Sprintf("/-- `%s` (%s), translated from its go/ast. -/\n%s\n%s\n\n", f.Name.Name, file, sig, indent(body))
}

const genHeader = `-- GENERATED by harness gen from plugins/allocators/ipcalc.go — do not edit
-- Regenerated from the Go source on every run; Props/Gen.lean proves these
-- definitions equal to the hand-written model in Model/IPCalc.lean.
import CoreDhcp.Model.IPCalc
set_option linter.unusedVariables false
namespace CoreDhcp.Generated

/-! Fixed vocabulary (not derived from the source): the meaning of two library
calls on a 16-byte net.IP seen as an ` + "`Addr`" + `. ` + "`sub64 add64 mul64`" + ` are the model's. -/

/-- ` + "`bytes.Compare(a, b)`" + ` on two 16-byte slices: big-endian lexicographic order = numeric order. -/
def bytesCompare (a b : Addr) : Int := if a = b then 0 else if a.val < b.val then -1 else 1

/-- ` + "`len(ip)`" + `: an ` + "`Addr`" + ` stands for a 16-byte slice. -/
def ipLen (_ : Addr) : Int := 16

`

func runGen(args []string) {
	fs := flag.NewFlagSet("gen", flag.ExitOnError)
	srcPath := fs.String("src", "", "path of the Go source file (default: the unit's file below /repo)")
	outPath := fs.String("out", "", "path of the Lean file to write (CoreDhcp/Generated/<Unit>.lean)")
	unit := fs.String("unit", "ipcalc", "translation unit: ipcalc | dispatch6 | dispatch4 | serverid6 | netmask | alloc4 | alloc6 | handlers4 | loadplugins | fileplugin | config | prefix6 | handlers6 | setups | range4 | start | storage | ethernet | serveloop | filesetup | rangesetup | mainreg | configload (for handlers4, -src is plugin=file.go[,plugin=file.go…]; for range4, plugin.go[,storage.go]; for storage, storage.go[,plugin.go]; for start, serve.go[,config.go[,plugin.go]]; for ethernet, -lib is dhcpRoot[,gopacketRoot]; for filesetup, -lib is the root of the fsnotify source; for mainreg, -src is main.go[,plugin.go])")
	lib := fs.String("lib", defaultLib, "root of the insomniacslk/dhcp source (numeric constants are read from it)")
	fs.Parse(args)
	die := func(a ...interface{}) {
		fmt.Fprintln(os.Stderr, append([]interface{}{"gen:"}, a...)...)
		os.Exit(2)
	}
	if *outPath == "" || fs.NArg() != 0 {
		die("usage: gen [-unit ipcalc|dispatch6|dispatch4|serverid6|netmask|alloc4|alloc6|handlers4|loadplugins|fileplugin|config|prefix6|handlers6|setups|range4|start|storage|ethernet|serveloop|filesetup|rangesetup|mainreg|configload] [-src file.go] -out Generated/<Unit>.lean")
	}
	if *unit == "alloc4" { // gen3.go
		runGen3(*srcPath, *outPath)
		return
	}
	if *unit == "alloc6" { // gen4.go
		runGen4(*srcPath, *outPath)
		return
	}
	if *unit == "fileplugin" { // gen7.go
		runGen7(*srcPath, *outPath)
		return
	}
	if *unit == "loadplugins" { // gen6.go
		runGen6(*srcPath, *outPath)
		return
	}
	if *unit == "config" { // gen10.go
		runGen10(*srcPath, *outPath, *lib)
		return
	}
	if *unit == "range4" { // gen8.go
		runGen8(*srcPath, *outPath, *lib)
		return
	}
	if *unit == "prefix6" { // gen9.go
		runGen9(*srcPath, *outPath, *lib)
		return
	}
	if *unit == "handlers6" { // gen12.go
		runGen12(*srcPath, *outPath, *lib)
		return
	}
	if *unit == "start" { // gen13.go
		runGen13(*srcPath, *outPath)
		return
	}
	if *unit == "storage" { // gen14.go
		runGen14(*srcPath, *outPath)
		return
	}
	if *unit == "ethernet" { // gen15.go
		lib15 := ""
		if *lib != defaultLib {
			lib15 = *lib
		}
		runGen15(*srcPath, *outPath, lib15)
		return
	}
	if *unit == "serveloop" { // gen16.go
		runGen16(*srcPath, *outPath)
		return
	}
	if *unit == "filesetup" { // gen17.go
		lib17 := ""
		if *lib != defaultLib {
			lib17 = *lib
		}
		runGen17(*srcPath, *outPath, lib17)
		return
	}
	if *unit == "rangesetup" { // gen18.go
		runGen18(*srcPath, *outPath)
		return
	}
	if *unit == "mainreg" { // gen19.go
		runGen19(*srcPath, *outPath)
		return
	}
	if *unit == "configload" { // gen20.go
		runGen20(*srcPath, *outPath)
		return
	}
	if *unit == "setups" { // gen11.go
		runGen11(*srcPath, *outPath, *lib)
		return
	}
	if *unit == "handlers4" { // gen5.go
		runGen5(*srcPath, *outPath, *lib)
		return
	}
	if *unit != "ipcalc" {
		runGen2(*unit, *srcPath, *outPath, *lib)
		return
	}
	if *srcPath == "" {
		*srcPath = "/repo/plugins/allocators/ipcalc.go"
	}
	g := &gen{fset: token.NewFileSet()}
	file, err := parser.ParseFile(g.fset, *srcPath, nil, parser.SkipObjectResolution)
	if err != nil {
		die("parse:", err)
	}
	funcs := map[string]*ast.FuncDecl{}
	for _, d := range file.Decls {
		if f, ok := d.(*ast.FuncDecl); ok {
			funcs[f.Name.Name] = f
		}
	}
	out := genHeader
	for _, name := range []string{"Offset", "AddPrefixes"} {
		if funcs[name] == nil {
			die(*srcPath+": function", name, "not found")
		}
		out += g.function(funcs[name])
	}
	out += "end CoreDhcp.Generated\n"
	if err := os.WriteFile(*outPath, []byte(out), 0o644); err != nil {
		die(err)
	}
	fmt.Printf("gen: wrote %s (%d bytes) from %s\n", *outPath, len(out), *srcPath)
}
