// gen6.go — `harness gen -unit loadplugins`: the plugin loader, regenerated as Lean definitions
// (namespace CoreDhcp.GenLP, file CoreDhcp/Generated/LoadPlugins.lean) from the go/ast of
//
//	plugins/plugin.go   LoadPlugins
//
// Props/GenLoadPlugins.lean proves the generated loops equal to the model's `loadChain` and the
// generated `loadPlugins` equal to the model's `loadPlugins` (Model/Plugins.lean).
//
// Like the other units the translator goes through the function statement by statement, knows ONLY
// the constructs this function uses, and fails loudly (source position, exit code 2) on everything else.
//
// GENERATED DEFINITIONS
//
//	bodyN  reg hs p   : Step (List (Option HM))   one round of `for _, p := range conf.ServerN.Plugins { … }`
//	loopN  reg hs ps  : Step (List (Option HM))   the loop: structural recursion over the plugin list
//	loadPlugins reg4 reg6 s4 s6 : Except Err (List (Option H4) × List (Option H6))
//
// N is the number in the field `ServerN` the loop ranges over, M the number in the field `SetupM`
// the body reads of the looked-up plugin; the definitions are emitted in source order.
//
// DERIVED FROM THE AST
//   - the loop body as a step function: which test leads to `continue` (↦ `.next hs`), which to an
//     error return (↦ `.ret e`), WHICH error (constructor and argument), where the handler is appended
//     and what is appended, the order of the tests, the look-up key, the argument of the setup call
//   - which registry view a loop uses (the field SetupM read of the looked-up plugin), over which
//     server's list it ranges, which accumulator it appends to
//   - the function: the initial values of the two accumulators, the nil-configuration test with its
//     operator (`&&` / `||` / `!`) and operand order, the order in which the protocols are processed,
//     which nil test guards which loop, which accumulator is returned in which position
//
// FIXED VOCABULARY (the meaning of a recognised Go expression in the model)
//
//	Go                                               Lean
//	-----------------------------------------------  -------------------------------------------------
//	the parameter (any name) of type *config.Config  s4 s6 : Option (List (String × List String)): the Plugins
//	   conf.ServerN                                  list of conf.ServerN, none = nil pointer (what the model's
//	                                                 loadPlugins takes); config.go is checked to declare
//	                                                 Config.Server6/Server4 *ServerConfig, ServerConfig.Plugins
//	                                                 []PluginConfig, PluginConfig{Name string; Args []string}
//	conf.ServerN == nil / != nil, alone in an `if`   match sN with | none => … | some psK => …
//	the same under && || !                           sN.isNone / sN.isSome, Bool operators && || !
//	conf.ServerN.Plugins                             psK; accepted only where `conf.ServerN != nil` dominates
//	the loop variable v (a config.PluginConfig)      p : String × List String;  v.Name ↦ p.1, v.Args ↦ p.2
//	pl, ok := RegisteredPlugins[v.Name]              the model's Registry look-up `regM p.1`
//	   ok / !ok in an `if`                           match regM p.1 with | none => … | some xK => …
//	                                                 (none = not registered); M = the one field SetupM of pl the
//	                                                 scope of pl reads: the model has one registry view per protocol
//	pl.SetupM == nil / != nil                        match xK with | none => … | some fK => …   (some none of the
//	                                                 model's Registry); only where `ok` is known to hold
//	h, err := pl.SetupM(v.Args...)                   let rK := fK p.2  (the model's Setup applied to the args);
//	                                                 only where `pl.SetupM != nil` is known
//	err != nil / == nil                              match rK with | .error eK => … | .ok oK => …
//	h == nil / != nil                                match oK with | none => … | some hK => …   (.ok none = nil
//	                                                 handler); only where `err == nil` is known: the model's Setup
//	                                                 has no handler next to an error
//	x := make([]handler.HandlerM, 0)                 let aK : List (Option HM) := []   (a Go slice can hold nil)
//	acc = append(acc, h)                             let hsK := hs ++ [some hK]  ([oK] if h is not known non-nil,
//	                                                 [none] if known nil); only where `err == nil` is known
//	continue / end of the loop body                  .next <current accumulator>
//	return nil, nil, <error>                         .ret <error> in a loop, .error <error> in the function
//	return a, b, nil                                 .ok (a, b)   (nil slice ↦ []); not accepted inside a loop
//	for _, v := range conf.ServerN.Plugins { … }     loopN regM <accumulator> psK; the ONLY loop shape accepted:
//	                                                 the body `continue`s, returns an error, or appends to ONE
//	                                                 accumulator declared outside (no break, no goto, no label,
//	                                                 no index variable, no other assignment, no nested loop)
//	an `if` of the function that assigns an          let tK : Step … := <the if, Step-valued>
//	   accumulator (it contains a loop)              match tK with | .ret eK => .error eK | .next aK => <rest>
//	error values                                     constructors of GenLP.Err, keyed by constructor function AND
//	                                                 literal text (table lpErrTexts): errors.New("no configuration
//	                                                 found …") ↦ .noConfig; config.ConfigErrorFromString(
//	                                                 "DHCPvN: unknown plugin `%s`", v.Name) ↦ .unknownN p.1;
//	                                                 …("no DHCPvN handler for plugin %s", v.Name) ↦ .noHandlerN p.1;
//	                                                 a changed text is an unknown text: exit 2
//	`err` returned, where err != nil is known        .setupErr <key of the look-up that gave the plugin> eK
//	log.<Level>(…)                                   nothing — only as a statement, only on the package's
//	                                                 `log = logger.GetLogger(…)`, Level ∈ Print Info Warning Warn
//	                                                 Error Debug (+f), and only if every argument is free of side
//	                                                 effects: literals, variables, v.Name, v.Args, conf.ServerN,
//	                                                 len(…), and pl.Name / conf.ServerN.Plugins where no nil
//	                                                 pointer can be dereferenced
//
// Go names never reach the generated text (parameters reg4 reg6 s4 s6 hs p, locals xK fK rK eK oK hK
// hsK psK aK tK numbered in source order): renaming a variable, reformatting, moving a log statement
// or rewriting `if ok { A } else { B }` as `if !ok { B }; A` regenerates the same file (the arms of a
// `match` are always printed none / .error first).
package main

import (
	"fmt"
	"go/ast"
	"go/parser"
	"go/token"
	"os"
	"path/filepath"
	"strconv"
	"strings"
)

const lpSrc = "/repo/plugins/plugin.go"
const lpConfigSrc = "/repo/config/config.go"

// packages the vocabulary mentions, and the import path each must have
var lpPkgs = map[string]string{
	"errors":  "errors",
	"fmt":     "fmt",
	"config":  "github.com/coredhcp/coredhcp/config",
	"handler": "github.com/coredhcp/coredhcp/handler",
	"logger":  "github.com/coredhcp/coredhcp/logger",
}

type lpErr struct {
	ctor  string
	nargs int
}

// error values: constructor function | literal text ↦ constructor of GenLP.Err, number of arguments
var lpErrTexts = map[string]lpErr{
	"errors.New|no configuration found for either DHCPv6 or DHCPv4": {".noConfig", 0},
	"config.ConfigErrorFromString|DHCPv6: unknown plugin `%s`":      {".unknown6", 1},
	"config.ConfigErrorFromString|no DHCPv6 handler for plugin %s":  {".noHandler6", 1},
	"config.ConfigErrorFromString|DHCPv4: unknown plugin `%s`":      {".unknown4", 1},
	"config.ConfigErrorFromString|no DHCPv4 handler for plugin %s":  {".noHandler4", 1},
}

var lpBuiltins = set("nil", "true", "false", "len", "cap", "make", "append", "copy", "new", "panic", "delete", "error", "string")

type lpVar struct {
	kind  string // conf | acc | elem | plugin | ok | handler | err
	proto string // acc: "4" / "6", the M of its element type handler.HandlerM
	id    int    // plugin, ok: number of the look-up; handler, err: number of the setup call
}

type lpLookup struct{ key, proto string }

type lpCall struct {
	lookup int
	res    string // Lean name of the result (rK)
}

// lpState: the symbolic state along one path.  facts: "srv:N" ↦ psK | nil, "look:i" ↦ xK | nil,
// "fn:i" ↦ fK | nil, "err:j" ↦ eK | nil, "ok:j" ↦ oK, "h:j" ↦ hK | nil.
type lpState struct {
	vars  map[string]lpVar
	facts map[string]string
	acc   map[string]string // accumulator (Go name) ↦ its current Lean name
}

func lpCopy(m map[string]string, k, v string) map[string]string {
	n := map[string]string{k: v}
	for a, b := range m {
		if a != k {
			n[a] = b
		}
	}
	return n
}

func (st lpState) withVar(name string, v lpVar) lpState {
	n := map[string]lpVar{name: v}
	for a, b := range st.vars {
		if a != name {
			n[a] = b
		}
	}
	st.vars = n
	return st
}

func (st lpState) withFact(k, v string) lpState { st.facts = lpCopy(st.facts, k, v); return st }
func (st lpState) withAcc(k, v string) lpState  { st.acc = lpCopy(st.acc, k, v); return st }

// lpCtx: where a statement stands.
type lpCtx struct {
	step   bool   // Step-valued translation: return ↦ .ret, end of the block ↦ .next <accumulator>
	inLoop bool   // inside a loop body: `continue` is allowed
	accGo  string // step: Go name of the accumulator that is threaded
	depth  int    // nesting depth below the function body
}

type lpgen struct {
	*gen
	imports  map[string]string
	pkgNames map[string]bool
	count    map[string]int
	lookups  []lpLookup
	calls    []lpCall
	loopRegs map[string]bool
	defs     []string
	loops    map[string]bool
}

func (g *lpgen) fresh(prefix string) string {
	g.count[prefix]++
	return prefix + strconv.Itoa(g.count[prefix])
}

func (g *lpgen) unparen(x ast.Expr) ast.Expr {
	for {
		p, ok := x.(*ast.ParenExpr)
		if !ok {
			return x
		}
		x = p.X
	}
}

func (g *lpgen) isNil(x ast.Expr) bool { return isIdent(g.unparen(x), "nil") }

// pkgFun: x is `pkg.Name`, pkg an imported package of the vocabulary (locals cannot shadow it, see freshLocal).
func (g *lpgen) pkgFun(x ast.Expr) (string, bool) {
	s, ok := g.unparen(x).(*ast.SelectorExpr)
	if !ok {
		return "", false
	}
	id, ok := s.X.(*ast.Ident)
	if !ok || lpPkgs[id.Name] == "" {
		return "", false
	}
	g.must(g.imports[id.Name] == lpPkgs[id.Name], x, "`%s` is not the package %s here", id.Name, lpPkgs[id.Name])
	return id.Name + "." + s.Sel.Name, true
}

func (g *lpgen) freshLocal(id *ast.Ident, st lpState) {
	g.must(id.Name != "_", id, "blank identifier unsupported here")
	_, isPkg := g.imports[id.Name]
	_, isLocal := st.vars[id.Name]
	g.must(!isPkg && !isLocal && !g.pkgNames[id.Name] && !lpBuiltins[id.Name], id,
		"variable name clashes with a name that already has a meaning (package, package-level name, variable in scope, builtin)")
}

// variable: x is a variable of the given kind.
func (g *lpgen) variable(x ast.Expr, st lpState, kind string) (lpVar, bool) {
	id, ok := g.unparen(x).(*ast.Ident)
	if !ok {
		return lpVar{}, false
	}
	v, ok := st.vars[id.Name]
	return v, ok && v.kind == kind
}

// field: x is `v.Sel`, v a variable of the given kind.
func (g *lpgen) field(x ast.Expr, st lpState, kind string) (lpVar, string, bool) {
	s, ok := g.unparen(x).(*ast.SelectorExpr)
	if !ok {
		return lpVar{}, "", false
	}
	v, ok := g.variable(s.X, st, kind)
	return v, s.Sel.Name, ok
}

// srvField: x is `conf.ServerN`; returns N.
func (g *lpgen) srvField(x ast.Expr, st lpState) (string, bool) {
	_, f, ok := g.field(x, st, "conf")
	if !ok {
		return "", false
	}
	g.must(f == "Server6" || f == "Server4", x, "unknown field of the configuration (only Server6, Server4)")
	return strings.TrimPrefix(f, "Server"), true
}

// elemField: x is `v.Name` / `v.Args`, v the loop variable.
func (g *lpgen) elemField(x ast.Expr, st lpState, name string) bool {
	_, f, ok := g.field(x, st, "elem")
	if ok {
		g.must(f == "Name" || f == "Args", x, "unknown field of config.PluginConfig (only Name, Args)")
	}
	return ok && f == name
}

// known: the fact is decided, with a Lean name.
func known(st lpState, key string) (string, bool) {
	v := st.facts[key]
	return v, v != "" && v != "nil"
}

// ------------------------------------------------------------------ logging

// pure: an argument of a log call that has no side effect (in particular cannot panic).
func (g *lpgen) pure(x ast.Expr, st lpState) {
	switch x := x.(type) {
	case *ast.ParenExpr:
		g.pure(x.X, st)
	case *ast.BasicLit:
	case *ast.Ident:
		if set("nil", "true", "false")[x.Name] {
			return
		}
		_, ok := st.vars[x.Name]
		g.must(ok, x, "unknown identifier in the arguments of a log call")
	case *ast.SelectorExpr:
		if _, ok := g.srvField(x, st); ok {
			return
		}
		if n, ok := g.srvField(x.X, st); ok {
			_, nonNil := known(st, "srv:"+n)
			g.must(x.Sel.Name == "Plugins" && nonNil, x, "in the arguments of a log call: not a field of a server configuration known to be non-nil")
			return
		}
		if _, _, ok := g.field(x, st, "elem"); ok {
			g.elemField(x, st, "")
			return
		}
		if v, f, ok := g.field(x, st, "plugin"); ok {
			_, present := known(st, "look:"+strconv.Itoa(v.id))
			g.must(set("Name", "Setup6", "Setup4")[f] && present, x, "in the arguments of a log call: field of a plugin that is not known to be registered (nil pointer)")
			return
		}
		g.fail(x, "unsupported selector in the arguments of a log call")
	case *ast.CallExpr:
		g.must(isIdent(x.Fun, "len") && len(x.Args) == 1 && !x.Ellipsis.IsValid(), x,
			"call in the arguments of a log call that is not known to be free of side effects (only len)")
		g.pure(x.Args[0], st)
	default:
		g.fail(x, "unsupported expression in the arguments of a log call")
	}
}

// isLog: `log.<Level>(…)` on the package-level logger.
func (g *lpgen) isLog(s ast.Stmt, st lpState) bool {
	e, ok := s.(*ast.ExprStmt)
	if !ok {
		return false
	}
	c, ok := e.X.(*ast.CallExpr)
	if !ok {
		return false
	}
	sel, ok := c.Fun.(*ast.SelectorExpr)
	if !ok || !isIdent(sel.X, "log") {
		return false
	}
	g.must(g.pkgNames["log"] && g.imports["log"] == "", s, "`log` is not the package-level logger")
	g.must(h4logLevels[sel.Sel.Name], s, "log.%s is not a plain log statement", sel.Sel.Name)
	g.must(!c.Ellipsis.IsValid(), s, "log call with a spread argument")
	for _, a := range c.Args {
		g.pure(a, st)
	}
	return true
}

// ------------------------------------------------------------------ values

func (g *lpgen) stringLit(x ast.Expr) (string, bool) {
	l, ok := g.unparen(x).(*ast.BasicLit)
	if !ok || l.Kind != token.STRING {
		return "", false
	}
	s, err := strconv.Unquote(l.Value)
	if err != nil {
		return "", false
	}
	return s, true
}

// errVal: an expression of type error that is not nil ↦ a value of GenLP.Err.
func (g *lpgen) errVal(x ast.Expr, st lpState) string {
	x = g.unparen(x)
	if v, ok := g.variable(x, st, "err"); ok {
		e, nonNil := known(st, "err:"+strconv.Itoa(v.id))
		g.must(nonNil, x, "error variable returned on a path where it is not known to be non-nil")
		return ".setupErr " + g.lookups[g.calls[v.id].lookup].key + " " + e
	}
	c, ok := x.(*ast.CallExpr)
	g.must(ok && len(c.Args) >= 1 && !c.Ellipsis.IsValid(), x, "unknown error value")
	fn, ok := g.pkgFun(c.Fun)
	g.must(ok && set("errors.New", "fmt.Errorf", "config.ConfigErrorFromString")[fn], x, "unknown error value (only errors.New, fmt.Errorf, config.ConfigErrorFromString, or the error of the setup call)")
	text, ok := g.stringLit(c.Args[0])
	g.must(ok, c.Args[0], "the text of an error must be a string literal")
	e, ok := lpErrTexts[fn+"|"+text]
	g.must(ok, x, "unknown error text (no constructor of GenLP.Err for %s with this text)", fn)
	g.must(len(c.Args) == 1+e.nargs, x, "this error text takes %d argument(s)", e.nargs)
	out := e.ctor
	for _, a := range c.Args[1:] {
		g.must(g.elemField(a, st, "Name"), a, "argument of the error text must be the Name of the loop variable")
		out += " p.1"
	}
	return out
}

func lpAtom(s string) string {
	if strings.Contains(s, " ") {
		return "(" + s + ")"
	}
	return s
}

// ------------------------------------------------------------- conditions

// lpTest: a condition that is one nil test, as a two-armed match (arm 0 = none / .error).
type lpTest struct {
	scrut   string
	pats    [2]string
	sts     [2]lpState
	thenArm int
}

func (g *lpgen) undecided(st lpState, key string, at ast.Node) {
	g.must(st.facts[key] == "", at, "this test is already decided on this path")
}

func (g *lpgen) test(cond ast.Expr, st lpState) lpTest {
	x := g.unparen(cond)
	neg := false
	for {
		u, ok := x.(*ast.UnaryExpr)
		if !ok || u.Op != token.NOT {
			break
		}
		neg, x = !neg, g.unparen(u.X)
	}
	option := func(scrut, key, prefix string, nilWhenTrue bool) lpTest {
		g.undecided(st, key, cond)
		name := g.fresh(prefix)
		t := lpTest{scrut: scrut, pats: [2]string{"none", "some " + name}, sts: [2]lpState{st.withFact(key, "nil"), st.withFact(key, name)}, thenArm: 1}
		if nilWhenTrue {
			t.thenArm = 0
		}
		return t
	}
	if v, ok := g.variable(x, st, "ok"); ok { // the `ok` of a registry look-up
		lk := g.lookups[v.id]
		g.loopRegs[lk.proto] = true
		return option("reg"+lk.proto+" "+lk.key, "look:"+strconv.Itoa(v.id), "x", neg)
	}
	b, ok := x.(*ast.BinaryExpr)
	g.must(ok && (b.Op == token.EQL || b.Op == token.NEQ) && g.isNil(b.Y), cond,
		"unsupported condition (only `ok`, `!ok` of a registry look-up and comparisons `<x> == nil`, `<x> != nil`)")
	nilWhenTrue := (b.Op == token.EQL) != neg
	if n, ok := g.srvField(b.X, st); ok {
		return option("s"+n, "srv:"+n, "ps", nilWhenTrue)
	}
	if v, f, ok := g.field(b.X, st, "plugin"); ok {
		lk, id := g.lookups[v.id], strconv.Itoa(v.id)
		g.must(f == "Setup"+lk.proto, b.X, "nil test of field %s of the plugin (only Setup%s here)", f, lk.proto)
		entry, present := known(st, "look:"+id)
		g.must(present, b.X, "field of the looked-up plugin read on a path where the look-up is not known to have succeeded (nil pointer)")
		return option(entry, "fn:"+id, "f", nilWhenTrue)
	}
	if v, ok := g.variable(b.X, st, "err"); ok {
		key := "err:" + strconv.Itoa(v.id)
		g.undecided(st, key, cond)
		e, o := g.fresh("e"), g.fresh("o")
		t := lpTest{scrut: g.calls[v.id].res, pats: [2]string{".error " + e, ".ok " + o},
			sts: [2]lpState{st.withFact(key, e), st.withFact(key, "nil").withFact("ok:"+strconv.Itoa(v.id), o)}, thenArm: 0}
		if nilWhenTrue {
			t.thenArm = 1
		}
		return t
	}
	if v, ok := g.variable(b.X, st, "handler"); ok {
		id := strconv.Itoa(v.id)
		g.must(st.facts["err:"+id] == "nil", b.X, "handler examined on a path where the error of the setup call is not known to be nil (the model's Setup has no handler next to an error)")
		return option(st.facts["ok:"+id], "h:"+id, "h", nilWhenTrue)
	}
	g.fail(cond, "unsupported nil test (only conf.ServerN, <plugin>.SetupM, the error and the handler of the setup call)")
	return lpTest{}
}

func (g *lpgen) isCompound(cond ast.Expr) bool {
	x := g.unparen(cond)
	for {
		u, ok := x.(*ast.UnaryExpr)
		if !ok || u.Op != token.NOT {
			break
		}
		x = g.unparen(u.X)
	}
	b, ok := x.(*ast.BinaryExpr)
	return ok && (b.Op == token.LAND || b.Op == token.LOR)
}

// boolCond: a Boolean combination of nil tests of conf.ServerN ↦ a Lean Bool.
func (g *lpgen) boolCond(x ast.Expr, st lpState) cex {
	x = g.unparen(x)
	switch x := x.(type) {
	case *ast.UnaryExpr:
		g.must(x.Op == token.NOT, x, "unsupported unary operator %s in a condition", x.Op)
		return cex{"!" + cwrap(g.boolCond(x.X, st), qAtom), qAtom}
	case *ast.BinaryExpr:
		switch x.Op {
		case token.LAND, token.LOR:
			a, b := g.boolCond(x.X, st), g.boolCond(x.Y, st)
			op, p := "&&", qAnd
			if x.Op == token.LOR {
				op, p = "||", qOr
			}
			return cex{cwrap(a, p+1) + " " + op + " " + cwrap(b, p+1), p}
		case token.EQL, token.NEQ:
			n, ok := g.srvField(x.X, st)
			g.must(ok && g.isNil(x.Y), x, "under && || only nil tests of conf.Server6 / conf.Server4 are supported")
			if x.Op == token.EQL {
				return cex{"s" + n + ".isNone", qAtom}
			}
			return cex{"s" + n + ".isSome", qAtom}
		}
	}
	g.fail(x, "unsupported condition")
	return cex{}
}

// ---------------------------------------------------------------- statements

func lpArm(pat, body string) string {
	if strings.Contains(body, "\n") {
		return "| " + pat + " =>\n" + indent(body)
	}
	return "| " + pat + " => " + body
}

func lpMatch(scrut string, pats, arms [2]string) string {
	return "match " + scrut + " with\n" + lpArm(pats[0], arms[0]) + "\n" + lpArm(pats[1], arms[1])
}

// assigned: the accumulators of st assigned (`x = …`) anywhere in n.
func (g *lpgen) assigned(n ast.Node, st lpState) []string {
	seen, out := map[string]bool{}, []string{}
	ast.Inspect(n, func(n ast.Node) bool {
		if a, ok := n.(*ast.AssignStmt); ok && a.Tok != token.DEFINE {
			for _, l := range a.Lhs {
				if id, ok := l.(*ast.Ident); ok && st.acc[id.Name] != "" && !seen[id.Name] {
					seen[id.Name] = true
					out = append(out, id.Name)
				}
			}
		}
		return true
	})
	return out
}

// setupField: the M of the one field SetupM that the scope of the looked-up plugin `name` reads.
func (g *lpgen) setupField(at ast.Node, name string, scope []ast.Node) string {
	found := map[string]bool{}
	for _, n := range scope {
		if n == nil {
			continue
		}
		ast.Inspect(n, func(n ast.Node) bool {
			if s, ok := n.(*ast.SelectorExpr); ok && isIdent(s.X, name) {
				switch s.Sel.Name {
				case "Setup6", "Setup4":
					found[strings.TrimPrefix(s.Sel.Name, "Setup")] = true
				case "Name":
				default:
					g.fail(s, "unknown field of Plugin (only Name, Setup6, Setup4)")
				}
			}
			return true
		})
	}
	g.must(len(found) == 1, at, "the looked-up plugin must be used through exactly one of its fields Setup6, Setup4 (the model has one registry view per protocol); found %d", len(found))
	for m := range found {
		return m
	}
	return ""
}

// assign: the defining and appending assignments of the vocabulary; scope = what follows in the block
// (or the branches of the `if` whose init statement this is).
func (g *lpgen) assign(a *ast.AssignStmt, st lpState, ctx lpCtx, scope []ast.Node) ([]string, lpState) {
	g.must(len(a.Rhs) == 1, a, "unsupported assignment shape")
	rhs := g.unparen(a.Rhs[0])
	var ids []*ast.Ident
	for _, l := range a.Lhs {
		id, ok := l.(*ast.Ident)
		g.must(ok, l, "assignment target must be a plain variable")
		ids = append(ids, id)
	}
	if a.Tok == token.ASSIGN { // acc = append(acc, h)
		c, ok := rhs.(*ast.CallExpr)
		g.must(ok && isIdent(c.Fun, "append") && len(ids) == 1, a, "unsupported assignment (only `acc = append(acc, h)`)")
		g.must(len(c.Args) == 2 && !c.Ellipsis.IsValid(), a, "only `acc = append(acc, h)` with one appended value is supported")
		acc, ok := g.variable(ids[0], st, "acc")
		g.must(ok && isIdent(g.unparen(c.Args[0]), ids[0].Name), a, "only `acc = append(acc, h)` on one and the same accumulator is supported")
		g.must(ctx.step && ctx.accGo == ids[0].Name, a, "append to an accumulator that is not the one threaded through this loop")
		h, ok := g.variable(c.Args[1], st, "handler")
		g.must(ok, c.Args[1], "the appended value must be the handler returned by the setup call")
		id := strconv.Itoa(h.id)
		g.must(st.facts["err:"+id] == "nil", c.Args[1], "handler used on a path where the error of the setup call is not known to be nil (the model's Setup has no handler next to an error)")
		g.must(acc.proto == g.lookups[g.calls[h.id].lookup].proto, a, "a DHCPv%s handler appended to a list of DHCPv%s handlers", g.lookups[g.calls[h.id].lookup].proto, acc.proto)
		val := st.facts["ok:"+id]
		switch v := st.facts["h:"+id]; v {
		case "":
		case "nil":
			val = "none"
		default:
			val = "some " + v
		}
		name := g.fresh("hs")
		return []string{"let " + name + " := " + st.acc[ids[0].Name] + " ++ [" + val + "]"}, st.withAcc(ids[0].Name, name)
	}
	g.must(a.Tok == token.DEFINE, a, "unsupported assignment operator %s", a.Tok)
	switch r := rhs.(type) {
	case *ast.IndexExpr: // pl, ok := RegisteredPlugins[v.Name]
		g.must(isIdent(r.X, "RegisteredPlugins"), a, "index expression on something that is not RegisteredPlugins")
		g.must(len(ids) == 2, a, "the registry look-up is only supported with `, ok`")
		g.must(ctx.inLoop && g.elemField(r.Index, st, "Name"), r.Index, "the key of the registry look-up must be the Name of the loop variable")
		g.freshLocal(ids[0], st)
		st = st.withVar(ids[0].Name, lpVar{kind: "plugin", id: len(g.lookups)})
		g.freshLocal(ids[1], st)
		st = st.withVar(ids[1].Name, lpVar{kind: "ok", id: len(g.lookups)})
		g.lookups = append(g.lookups, lpLookup{key: "p.1", proto: g.setupField(a, ids[0].Name, scope)})
		return nil, st
	case *ast.CallExpr:
		if isIdent(r.Fun, "make") { // x := make([]handler.HandlerM, 0)
			g.must(len(ids) == 1 && !ctx.step && ctx.depth == 0, a, "an accumulator can only be declared at the top level of the function")
			g.must(len(r.Args) == 2 && !r.Ellipsis.IsValid(), r, "only make([]handler.HandlerM, 0) is supported")
			arr, ok := r.Args[0].(*ast.ArrayType)
			g.must(ok && arr.Len == nil, r.Args[0], "only make([]handler.HandlerM, 0) is supported")
			t, ok := g.pkgFun(arr.Elt)
			g.must(ok && (t == "handler.Handler6" || t == "handler.Handler4"), arr.Elt, "only make([]handler.HandlerM, 0) is supported")
			l, ok := g.unparen(r.Args[1]).(*ast.BasicLit)
			g.must(ok && l.Kind == token.INT && l.Value == "0", r.Args[1], "an accumulator must start empty: make(…, 0)")
			g.freshLocal(ids[0], st)
			m := strings.TrimPrefix(t, "handler.Handler")
			name := g.fresh("a")
			return []string{"let " + name + " : List (Option H" + m + ") := []"},
				st.withVar(ids[0].Name, lpVar{kind: "acc", proto: m}).withAcc(ids[0].Name, name)
		}
		// h, err := pl.SetupM(v.Args...)
		v, f, ok := g.field(r.Fun, st, "plugin")
		g.must(ok, a, "unknown call (only the setup function of the looked-up plugin, and make)")
		lk, id := g.lookups[v.id], strconv.Itoa(v.id)
		g.must(f == "Setup"+lk.proto, r.Fun, "call of field %s of the plugin (only Setup%s here)", f, lk.proto)
		fn, nonNil := known(st, "fn:"+id)
		g.must(nonNil, r.Fun, "call of a setup function that is not known to be non-nil on this path")
		g.must(len(r.Args) == 1 && r.Ellipsis.IsValid() && g.elemField(r.Args[0], st, "Args"), r, "the setup function must be called with the Args of the loop variable, spread (v.Args...)")
		g.must(len(ids) == 2, a, "the setup call returns (handler, error)")
		g.must(ids[0].Name != "_" && ids[1].Name != "_", a, "both results of the setup call must be kept")
		g.freshLocal(ids[0], st)
		st = st.withVar(ids[0].Name, lpVar{kind: "handler", id: len(g.calls)})
		g.freshLocal(ids[1], st)
		st = st.withVar(ids[1].Name, lpVar{kind: "err", id: len(g.calls)})
		name := g.fresh("r")
		g.calls = append(g.calls, lpCall{lookup: v.id, res: name})
		return []string{"let " + name + " := " + fn + " p.2"}, st
	}
	g.fail(a, "unsupported declaration (only the registry look-up, the setup call, make)")
	return nil, st
}

func (g *lpgen) ret(r *ast.ReturnStmt, st lpState, ctx lpCtx) string {
	g.must(len(r.Results) == 3, r, "return must have three results")
	if !g.isNil(r.Results[2]) {
		g.must(g.isNil(r.Results[0]) && g.isNil(r.Results[1]), r, "the values returned next to an error must be nil")
		e := g.errVal(r.Results[2], st)
		if ctx.step {
			return ".ret " + lpAtom(e)
		}
		return ".error " + lpAtom(e)
	}
	g.must(!ctx.step, r, "a return without error inside a loop (or inside a statement that contains a loop) is unsupported")
	var vals []string
	for i, m := range []string{"4", "6"} {
		if g.isNil(r.Results[i]) {
			vals = append(vals, "[]")
			continue
		}
		id, isId := g.unparen(r.Results[i]).(*ast.Ident)
		v, ok := g.variable(r.Results[i], st, "acc")
		g.must(isId && ok && v.proto == m, r.Results[i], "result %d must be nil or an accumulator of DHCPv%s handlers", i+1, m)
		vals = append(vals, st.acc[id.Name])
	}
	return ".ok (" + vals[0] + ", " + vals[1] + ")"
}

// block translates a statement list; k yields the translation of what follows it.
func (g *lpgen) block(list []ast.Stmt, st lpState, ctx lpCtx, k func(lpState) string) string {
	if len(list) == 0 {
		return k(st)
	}
	s, rest := list[0], list[1:]
	next := func(st2 lpState) string { return g.block(rest, st2, ctx, k) }
	if g.isLog(s, st) {
		return next(st)
	}
	switch s := s.(type) {
	case *ast.ReturnStmt:
		g.must(len(rest) == 0, s, "unreachable statement after return")
		return g.ret(s, st, ctx)
	case *ast.BranchStmt:
		g.must(s.Tok == token.CONTINUE && s.Label == nil, s, "unsupported branch statement (only `continue` without label)")
		g.must(ctx.inLoop, s, "continue outside a loop")
		g.must(len(rest) == 0, s, "unreachable statement after continue")
		return ".next " + st.acc[ctx.accGo]
	case *ast.AssignStmt:
		var scope []ast.Node
		for _, r := range rest {
			scope = append(scope, r)
		}
		lines, st2 := g.assign(s, st, ctx, scope)
		return joinLines(lines, next(st2))
	case *ast.IfStmt:
		return g.ifStmt(s, st, ctx, next)
	case *ast.RangeStmt:
		return g.loop(s, st, ctx, next)
	}
	g.fail(s, "unsupported statement")
	return ""
}

func (g *lpgen) stepType(st lpState, acc string) string {
	return "Step (List (Option H" + st.vars[acc].proto + "))"
}

func (g *lpgen) ifStmt(s *ast.IfStmt, st lpState, ctx lpCtx, k func(lpState) string) string {
	outer := st
	if s.Init != nil { // if pl, ok := RegisteredPlugins[v.Name]; ok { … }
		a, ok := s.Init.(*ast.AssignStmt)
		g.must(ok, s.Init, "unsupported init statement")
		_, isLookup := g.unparen(a.Rhs[0]).(*ast.IndexExpr)
		g.must(len(a.Rhs) == 1 && isLookup, s.Init, "unsupported init statement (only the registry look-up)")
		scope := []ast.Node{s.Cond, s.Body}
		if s.Else != nil {
			scope = append(scope, s.Else)
		}
		_, st = g.assign(a, st, ctx, scope)
	}
	// back in the enclosing block: its variables; the facts and the accumulator of the path
	after := func(end lpState) string { return k(lpState{vars: outer.vars, facts: end.facts, acc: end.acc}) }
	if !ctx.step {
		accs := g.assigned(s, st)
		g.must(len(accs) <= 1, s, "an `if` that assigns more than one accumulator is unsupported")
		if len(accs) == 1 { // Step-valued: the `if` yields the new accumulator, or returns an error
			a := accs[0]
			inner := lpCtx{step: true, accGo: a, depth: ctx.depth}
			expr := g.ifCore(s, st, inner, func(end lpState) string { return ".next " + end.acc[a] })
			t, e, n := g.fresh("t"), g.fresh("e"), g.fresh("a")
			return "let " + t + " : " + g.stepType(st, a) + " :=\n" + indent(expr) + "\n" +
				lpMatch(t, [2]string{".ret " + e, ".next " + n}, [2]string{".error " + e, k(outer.withAcc(a, n))})
		}
	}
	return g.ifCore(s, st, ctx, after)
}

func (g *lpgen) ifCore(s *ast.IfStmt, st lpState, ctx lpCtx, after func(lpState) string) string {
	in := ctx
	in.depth++
	elsePart := func(stElse lpState) string {
		switch b := s.Else.(type) {
		case nil:
			return after(stElse)
		case *ast.BlockStmt:
			return g.block(b.List, stElse, in, after)
		case *ast.IfStmt:
			return g.ifStmt(b, stElse, in, after)
		}
		g.fail(s.Else, "unsupported else")
		return ""
	}
	if g.isCompound(s.Cond) {
		c := g.boolCond(s.Cond, st)
		then := g.block(s.Body.List, st, in, after)
		return ite(c.s, then, elsePart(st))
	}
	t := g.test(s.Cond, st)
	var arms [2]string
	arms[t.thenArm] = g.block(s.Body.List, t.sts[t.thenArm], in, after)
	arms[1-t.thenArm] = elsePart(t.sts[1-t.thenArm])
	return lpMatch(t.scrut, t.pats, arms)
}

// loop: for _, v := range conf.ServerN.Plugins { … } — emits bodyN and loopN, returns the call.
func (g *lpgen) loop(r *ast.RangeStmt, st lpState, ctx lpCtx, k func(lpState) string) string {
	shape := "the only loop shape supported is `for _, v := range conf.ServerN.Plugins { … }`"
	g.must(!ctx.inLoop, r, "nested loop unsupported")
	g.must(r.Tok == token.DEFINE && (r.Key == nil || isIdent(r.Key, "_")) && r.Value != nil, r, shape)
	v, ok := r.Value.(*ast.Ident)
	g.must(ok, r, shape)
	sel, ok := g.unparen(r.X).(*ast.SelectorExpr)
	g.must(ok && sel.Sel.Name == "Plugins", r.X, shape)
	n, ok := g.srvField(sel.X, st)
	g.must(ok, r.X, shape)
	ps, nonNil := known(st, "srv:"+n)
	g.must(nonNil, r.X, "conf.Server%s.Plugins on a path where conf.Server%s is not known to be non-nil (nil pointer)", n, n)
	g.must(!g.loops[n], r, "second loop over conf.Server%s.Plugins", n)
	g.loops[n] = true
	accs := g.assigned(r.Body, st)
	g.must(len(accs) == 1, r, "a loop must append to exactly one accumulator declared outside it; this one assigns %d", len(accs))
	a := accs[0]
	g.must(!ctx.step || ctx.accGo == a, r, "loop on an accumulator that is not the one threaded here")
	// the body, as a definition of its own with its own numbering
	count, regs := g.count, g.loopRegs
	g.count, g.loopRegs = map[string]int{}, map[string]bool{}
	g.freshLocal(v, st)
	bodySt := lpState{vars: map[string]lpVar{}, facts: st.facts, acc: map[string]string{a: "hs"}}
	for name, x := range st.vars {
		if x.kind == "conf" || name == a {
			bodySt.vars[name] = x
		}
	}
	bodySt = bodySt.withVar(v.Name, lpVar{kind: "elem"})
	body := g.block(r.Body.List, bodySt, lpCtx{step: true, inLoop: true, accGo: a, depth: ctx.depth + 1},
		func(end lpState) string { return ".next " + end.acc[a] })
	g.must(len(g.loopRegs) == 1, r, "a loop body must use exactly one registry view (Setup6 or Setup4); this one uses %d", len(g.loopRegs))
	m := ""
	for x := range g.loopRegs {
		m = x
	}
	g.count, g.loopRegs = count, regs
	g.must(st.vars[a].proto == m, r, "the loop sets up DHCPv%s plugins and appends to a list of DHCPv%s handlers", m, st.vars[a].proto)
	h, reg, stepT := "H"+m, "reg"+m, g.stepType(st, a)
	g.defs = append(g.defs,
		def("One round of the loop over the plugin list of `conf.Server"+n+"` in `LoadPlugins` (plugins/plugin.go), translated from\nits go/ast: `hs` = the accumulator at the start of the round, `p` = the loop variable (name, args);\n`.next` = the loop goes on (`continue`, or the end of the body), `.ret` = the function returns this error.",
			"body"+n+" {"+h+" : Type} ("+reg+" : Registry "+h+") (hs : List (Option "+h+")) (p : String × List String) : "+stepT, body),
		"/-- The loop over the plugin list of `conf.Server"+n+"`: structural recursion over the list; the accumulator of\none round is the accumulator at the start of the next, an error return ends the loop. -/\n"+
			"def loop"+n+" {"+h+" : Type} ("+reg+" : Registry "+h+") : List (Option "+h+") → List (String × List String) → "+stepT+"\n"+
			"  | hs, [] => .next hs\n"+
			"  | hs, p :: rest =>\n"+
			"    match body"+n+" "+reg+" hs p with\n"+
			"    | .ret e => .ret e\n"+
			"    | .next hs' => loop"+n+" "+reg+" hs' rest\n\n")
	call := "loop" + n + " " + reg + " " + st.acc[a] + " " + ps
	if ctx.step {
		e, acc := g.fresh("e"), g.fresh("a")
		restText := k(st.withAcc(a, acc))
		if restText == ".next "+acc { // nothing follows: the result of the loop is the result of the block
			g.count["e"]--
			g.count["a"]--
			return call
		}
		return lpMatch(call, [2]string{".ret " + e, ".next " + acc}, [2]string{".ret " + e, restText})
	}
	e, acc := g.fresh("e"), g.fresh("a")
	return lpMatch(call, [2]string{".ret " + e, ".next " + acc}, [2]string{".error " + e, k(st.withAcc(a, acc))})
}

// ------------------------------------------------------------------ function

func (g *lpgen) function(f *ast.FuncDecl) string {
	g.must(f.Recv == nil && f.Type.TypeParams == nil && f.Body != nil, f.Name, "unsupported function form")
	ps := f.Type.Params.List
	g.must(len(ps) == 1 && len(ps[0].Names) == 1 && g.src(ps[0].Type) == "*config.Config", f.Type, "expected one parameter of type *config.Config")
	res := f.Type.Results
	g.must(res != nil && len(res.List) == 3, f.Type, "expected the results ([]handler.Handler4, []handler.Handler6, error)")
	for i, want := range []string{"[]handler.Handler4", "[]handler.Handler6", "error"} {
		g.must(len(res.List[i].Names) == 0 && g.src(res.List[i].Type) == want, res.List[i], "result %d must be an unnamed %s", i+1, want)
	}
	for _, p := range []string{"config", "handler"} {
		g.must(g.imports[p] == lpPkgs[p], f.Name, "the file does not import %s as %s", lpPkgs[p], p)
	}
	st := lpState{vars: map[string]lpVar{}, facts: map[string]string{}, acc: map[string]string{}}
	g.freshLocal(ps[0].Names[0], st)
	st = st.withVar(ps[0].Names[0].Name, lpVar{kind: "conf"})
	body := g.block(f.Body.List, st, lpCtx{}, func(lpState) string {
		g.fail(f.Name, "control reaches the end of the function without a return")
		return ""
	})
	return def("`LoadPlugins` (plugins/plugin.go), translated from its go/ast: `s4` / `s6` = the plugin list of `conf.Server4` /\n`conf.Server6` (none = nil), `reg4` / `reg6` = `RegisteredPlugins` seen through the field Setup4 / Setup6.",
		"loadPlugins {H4 H6 : Type} (reg4 : Registry H4) (reg6 : Registry H6)\n    (s4 s6 : Option (List (String × List String))) : Except Err (List (Option H4) × List (Option H6))", body)
}

// structFields: the fields of `type name struct { … }` as "Name Type" strings.
func (g *lpgen) structFields(file *ast.File, name string) ([]string, ast.Node) {
	for _, d := range file.Decls {
		gd, ok := d.(*ast.GenDecl)
		if !ok || gd.Tok != token.TYPE {
			continue
		}
		for _, sp := range gd.Specs {
			ts := sp.(*ast.TypeSpec)
			if ts.Name.Name != name {
				continue
			}
			s, ok := ts.Type.(*ast.StructType)
			g.must(ok, ts, "%s is not a struct", name)
			var out []string
			for _, f := range s.Fields.List {
				g.must(len(f.Names) > 0, f, "embedded field in %s", name)
				for _, n := range f.Names {
					out = append(out, n.Name+" "+g.src(f.Type))
				}
			}
			return out, ts
		}
	}
	return nil, nil
}

// checkDecls checks the declarations the fixed vocabulary relies on.
func (g *lpgen) checkDecls(file, cfg *ast.File, die func(...interface{})) {
	has := func(fields []string, f string) bool {
		for _, x := range fields {
			if x == f {
				return true
			}
		}
		return false
	}
	// plugin.go: Plugin, SetupFunc6/4, RegisteredPlugins, log
	fields, at := g.structFields(file, "Plugin")
	if at == nil {
		die("type Plugin not found")
	}
	g.must(fmt.Sprint(fields) == fmt.Sprint([]string{"Name string", "Setup6 SetupFunc6", "Setup4 SetupFunc4"}), at,
		"the fields of Plugin are not Name string, Setup6 SetupFunc6, Setup4 SetupFunc4")
	found := map[string]bool{}
	for _, d := range file.Decls {
		gd, ok := d.(*ast.GenDecl)
		if !ok {
			continue
		}
		for _, sp := range gd.Specs {
			switch sp := sp.(type) {
			case *ast.TypeSpec:
				if m := strings.TrimPrefix(sp.Name.Name, "SetupFunc"); m == "6" || m == "4" {
					g.must(g.src(sp.Type) == "func(args ...string) (handler.Handler"+m+", error)" && sp.TypeParams == nil, sp,
						"SetupFunc%s is not func(args ...string) (handler.Handler%s, error)", m, m)
					found[sp.Name.Name] = true
				}
			case *ast.ValueSpec:
				for i, n := range sp.Names {
					switch n.Name {
					case "RegisteredPlugins":
						g.must(gd.Tok == token.VAR && len(sp.Values) == len(sp.Names) && g.src(sp.Values[i]) == "make(map[string]*Plugin)", sp,
							"RegisteredPlugins is not declared as make(map[string]*Plugin)")
						found[n.Name] = true
					case "log":
						g.must(gd.Tok == token.VAR && len(sp.Values) == len(sp.Names), sp, "unexpected declaration of log")
						c, ok := sp.Values[i].(*ast.CallExpr)
						g.must(ok && g.src(c.Fun) == "logger.GetLogger" && g.imports["logger"] == lpPkgs["logger"], sp, "log is not a logger.GetLogger(…)")
						found[n.Name] = true
					}
				}
			}
		}
	}
	for _, n := range []string{"SetupFunc6", "SetupFunc4", "RegisteredPlugins", "log"} {
		if !found[n] {
			die("declaration of", n, "not found")
		}
	}
	// config.go: Config, ServerConfig, PluginConfig
	fields, at = g.structFields(cfg, "Config")
	if at == nil {
		die(lpConfigSrc + ": type Config not found")
	}
	g.must(has(fields, "Server6 *ServerConfig") && has(fields, "Server4 *ServerConfig"), at, "Config has no fields Server6, Server4 of type *ServerConfig")
	fields, at = g.structFields(cfg, "ServerConfig")
	if at == nil {
		die(lpConfigSrc + ": type ServerConfig not found")
	}
	g.must(has(fields, "Plugins []PluginConfig"), at, "ServerConfig has no field Plugins []PluginConfig")
	fields, at = g.structFields(cfg, "PluginConfig")
	if at == nil {
		die(lpConfigSrc + ": type PluginConfig not found")
	}
	g.must(fmt.Sprint(fields) == fmt.Sprint([]string{"Name string", "Args []string"}), at, "the fields of PluginConfig are not Name string, Args []string")
}

const gen6Header = `-- GENERATED by harness gen -unit loadplugins from plugins/plugin.go (LoadPlugins) — do not edit
-- Regenerated from the Go source on every run; Props/GenLoadPlugins.lean proves these definitions
-- equal to the hand-written model in Model/Plugins.lean.
import CoreDhcp.Model.Plugins
set_option linter.unusedVariables false
namespace CoreDhcp.GenLP

/-! Fixed vocabulary (not derived from the source; the table is in the header of gen6.go).
` + "`conf.ServerN`" + ` ↦ ` + "`sN : Option (List (String × List String))`" + `, the plugin list (name, args) of that server
configuration, none = nil pointer · ` + "`RegisteredPlugins[v.Name]`" + ` with ` + "`, ok`" + ` ↦ the model's ` + "`Registry`" + ` look-up
` + "`regM p.1`" + ` (none = not registered), M = the field SetupM the body reads · ` + "`pl.SetupM == nil`" + ` ↦ the entry is
` + "`none`" + ` (the model's ` + "`some none`" + `) · the setup call ↦ the model's ` + "`Setup`" + ` function applied to ` + "`p.2`" + ` ·
` + "`err != nil`" + ` ↦ ` + "`.error`" + ` · ` + "`h == nil`" + ` ↦ ` + "`.ok none`" + ` · a handler value is ` + "`Option H`" + ` (nil ↦ none; a Go slice can
hold nil handlers) · ` + "`make(…, 0)`" + ` ↦ ` + "`[]`" + ` · ` + "`append(hs, h)`" + ` ↦ ` + "`hs ++ [h]`" + ` · ` + "`(nil, nil, e)`" + ` ↦ ` + "`.error e`" + ` ·
` + "`(a, b, nil)`" + ` ↦ ` + "`.ok (a, b)`" + ` · log statements ↦ nothing (their arguments are checked to be free of side effects). -/

/-- the error values of ` + "`LoadPlugins`" + `, keyed by constructor function and literal text -/
inductive Err
  | noConfig                            -- errors.New("no configuration found for either DHCPv6 or DHCPv4")
  | unknown6 (name : String)            -- config.ConfigErrorFromString("DHCPv6: unknown plugin ` + "`%s`" + `", name)
  | noHandler6 (name : String)          -- config.ConfigErrorFromString("no DHCPv6 handler for plugin %s", name)
  | unknown4 (name : String)            -- config.ConfigErrorFromString("DHCPv4: unknown plugin ` + "`%s`" + `", name)
  | noHandler4 (name : String)          -- config.ConfigErrorFromString("no DHCPv4 handler for plugin %s", name)
  | setupErr (name : String) (e : Unit) -- the non-nil error ` + "`e`" + ` of the setup call, returned as it is; ` + "`name`" + ` is the key of
                                        -- the registry look-up that gave the plugin (not part of the Go value)
deriving DecidableEq, Repr

/-- how a loop body, a loop, or a statement that contains a loop ends: control goes on with the accumulator
` + "`acc`" + ` (` + "`continue`" + `, the end of the block), or the function returns ` + "`nil, nil, e`" + ` -/
inductive Step (α : Type) where
  | next (acc : α)
  | ret (e : Err)

`

func runGen6(srcPath, outPath string) {
	die := func(a ...interface{}) {
		fmt.Fprintln(os.Stderr, append([]interface{}{"gen:"}, a...)...)
		os.Exit(2)
	}
	if srcPath == "" {
		srcPath = lpSrc
	}
	g := &lpgen{gen: &gen{fset: token.NewFileSet()}, imports: map[string]string{}, pkgNames: map[string]bool{},
		count: map[string]int{}, loopRegs: map[string]bool{}, loops: map[string]bool{}}
	file, err := parser.ParseFile(g.fset, srcPath, nil, parser.SkipObjectResolution)
	if err != nil {
		die("parse:", err)
	}
	cfg, err := parser.ParseFile(g.fset, lpConfigSrc, nil, parser.SkipObjectResolution)
	if err != nil {
		die("parse:", err)
	}
	for _, im := range file.Imports {
		p, _ := strconv.Unquote(im.Path.Value)
		name := filepath.Base(p)
		if im.Name != nil {
			name = im.Name.Name
		}
		g.imports[name] = p
		if want, ok := lpPkgs[name]; ok {
			g.must(p == want, im, "package name %s stands for %s in the vocabulary", name, want)
		}
	}
	var fn *ast.FuncDecl
	for _, d := range file.Decls {
		switch d := d.(type) {
		case *ast.FuncDecl:
			if d.Recv == nil {
				if g.pkgNames[d.Name.Name] {
					die(srcPath+":", d.Name.Name, "declared twice")
				}
				g.pkgNames[d.Name.Name] = true
				if d.Name.Name == "LoadPlugins" {
					fn = d
				}
			}
		case *ast.GenDecl:
			for _, sp := range d.Specs {
				switch sp := sp.(type) {
				case *ast.ValueSpec:
					for _, n := range sp.Names {
						g.pkgNames[n.Name] = true
					}
				case *ast.TypeSpec:
					g.pkgNames[sp.Name.Name] = true
				}
			}
		}
	}
	if fn == nil {
		die(srcPath + ": function LoadPlugins not found")
	}
	for b := range lpBuiltins {
		if g.pkgNames[b] || g.imports[b] != "" {
			die(srcPath+": the builtin", b, "is redefined at package level")
		}
	}
	g.checkDecls(file, cfg, die)
	main := g.function(fn)
	out := gen6Header + strings.Join(g.defs, "") + main + "end CoreDhcp.GenLP\n"
	if err := os.WriteFile(outPath, []byte(out), 0o644); err != nil {
		die(err)
	}
	fmt.Printf("gen: wrote %s (%d bytes) from %s\n", outPath, len(out), srcPath)
}
