package main

// filec: lookups in the static lease file racing with refreshes of that file (C01, C10, C16).
//
// fhammer <4|6> <machex> <Ahex> <Bhex> <ms>
//   1. the watched file is rewritten with A (one in-place write) and the refresh is awaited, as fwrite does;
//   2. for <ms> milliseconds 8 goroutines look the hardware address up, as fast as they can, while the
//      file is rewritten over and over, alternately with B and A. A and B have the same length and
//      differ in ONE byte, so that whatever the loader reads while a write is in flight is A or B;
//   3. the last write is B; all lookups must have returned ("HANG" otherwise) and the served table
//      must settle on B.
// Trace: <oracle A> ; <oracle B> ; <distinct answers seen, " | "-separated> ; settled|stale|HANG
// Every answer must be the one file A or file B gives (the driver checks it against the model in
// both states): old or new table, never a mixture, and nobody blocks forever.

import (
	"fmt"
	"net"
	"os"
	"sort"
	"strings"
	"sync"
	"sync/atomic"
	"time"

	"github.com/coredhcp/coredhcp/plugins/file"
)

func init() {
	engines["filec"] = &engine{gen: genFileConc, replay: replayFile}
}

func (s *fileState) hammer(c *ctx, op string, f []string) string {
	v6 := f[1] == "6"
	pi := b2i(v6)
	if s.name[pi] == "" || !s.auto[pi] || s.wedged {
		return ""
	}
	A, B := unhx(f[3]), unhx(f[4])
	ms := atoi(f[5])
	if st, err := os.Stat(s.name[pi]); err == nil {
		A, B = padTo(A, st.Size()), padTo(B, st.Size())
	}
	if len(A) != len(B) {
		panic("fhammer: the two files must have the same length")
	}
	write := func(content []byte) {
		fh, err := os.OpenFile(s.name[pi], os.O_WRONLY, 0o644)
		if err != nil {
			panic(err)
		}
		if _, err := fh.WriteAt(content, 0); err != nil {
			panic(err)
		}
		fh.Close()
	}
	served := func() string {
		if v6 {
			return s.q6(f[2], true, 0, 7)
		}
		return s.q4(unhx(f[2]))
	}
	stranger := func() string {
		if v6 {
			return s.q6("02fffffffffe", true, 0, 7)
		}
		return s.q4([]byte{2, 0xff, 0xff, 0xff, 0xff, 0xfe})
	}
	// what the loader makes of a file, asked of the loader itself on a private copy
	expect := func(content []byte) (string, bool) {
		probe := s.name[pi] + ".probe"
		os.WriteFile(probe, content, 0o644)
		defer os.Remove(probe)
		var m map[string]net.IP
		var err error
		if v6 {
			m, err = file.LoadDHCPv6Records(probe)
		} else {
			m, err = file.LoadDHCPv4Records(probe)
		}
		if err != nil {
			return "", false
		}
		ip, ok := m[net.HardwareAddr(unhx(f[2])).String()]
		if !ok {
			return "-", true
		}
		return ip.String(), true
	}
	current := func() string {
		// read the served table the way the plugin's own goroutines may: through a lookup
		return watchdog(10*time.Second, func() string { return guard(served) })
	}
	settle := func(content []byte) string {
		if _, ok := expect(content); !ok {
			return "rejected"
		}
		// the answer the handler gives once this file is in force: take it from a lookup after the
		// table pointer stopped moving
		deadline := time.Now().Add(10 * time.Second)
		last := tablePtr(v6)
		quiet := time.Now()
		for time.Now().Before(deadline) {
			time.Sleep(5 * time.Millisecond)
			if p := tablePtr(v6); p != last {
				last, quiet = p, time.Now()
			}
			if time.Since(quiet) > 150*time.Millisecond {
				return "settled"
			}
		}
		return "stale"
	}
	// 1. A, synchronously
	before := tablePtr(v6)
	write(A)
	okA := false
	for dl := time.Now().Add(10 * time.Second); time.Now().Before(dl); {
		time.Sleep(5 * time.Millisecond)
		if tablePtr(v6) != before {
			okA = true
			break
		}
	}
	if !okA {
		c.emit(op, lineOracle(A)+" ; "+lineOracle(B)+" ; - ; stale")
		return "stale"
	}
	time.Sleep(20 * time.Millisecond)
	if f[0] == "fpair" {
		// 2'. no look-ups; pairs of rewrites in quick succession (the second lands while the first is
		// still being parsed: the files are long), after each pair the table must settle on the LAST one
		final := "settled"
		last := B
		for r := 0; r < ms && final == "settled"; r++ {
			first, second := A, B
			if r%2 == 1 {
				first, second = B, A
			}
			write(first)
			time.Sleep(time.Duration(200+c.rng.Intn(2500)) * time.Microsecond)
			write(second)
			last = second
			want := "pass"
			if w, _ := expect(second); w != "-" {
				if ip := net.ParseIP(w); ip != nil {
					if v6 {
						want = fmt.Sprintf("iana %s iaid-ok 3600 3600", hx(ip.To16()))
					} else {
						want = fmt.Sprintf("yiaddr %s stop", hx(ip.To4()))
					}
				}
			}
			ok := false
			for dl := time.Now().Add(4 * time.Second); time.Now().Before(dl); {
				time.Sleep(3 * time.Millisecond)
				if current() == want {
					ok = true
					break
				}
			}
			if !ok {
				final = fmt.Sprintf("stale-after-pair-%d", r)
			}
		}
		after := current()
		res := fmt.Sprintf("%s ; %s ; after:%s ; %s ; last=%s", lineOracle(A), lineOracle(B), after, final, map[bool]string{true: "B", false: "A"}[string(last) == string(B)])
		c.emit(op, res)
		return final
	}
	// 2. lookups against rewrites
	const G = 8
	var stop int32
	seen := make([]map[string]bool, G)
	var wg sync.WaitGroup
	for g := 0; g < G; g++ {
		seen[g] = map[string]bool{}
		wg.Add(1)
		go func(g int) {
			defer wg.Done()
			for atomic.LoadInt32(&stop) == 0 {
				if g >= G-2 {
					// two of the callers ask for a client that neither file lists (the path that only logs a warning):
					// it is passed on, whatever refresh is going on, and the call comes back (round 8 of the seeded
					// changes: a read lock taken again on that path, a refresh's write lock in between)
					if r := guard(stranger); r != "pass" {
						seen[g]["stranger:"+r] = true
					}
					continue
				}
				seen[g][guard(served)] = true
			}
		}(g)
	}
	end := time.Now().Add(time.Duration(ms) * time.Millisecond)
	for i := 0; time.Now().Before(end); i++ {
		if i%2 == 0 {
			write(B)
		} else {
			write(A)
		}
		time.Sleep(time.Duration(20+c.rng.Intn(200)) * time.Microsecond)
	}
	write(B)
	atomic.StoreInt32(&stop, 1)
	done := make(chan struct{})
	go func() { wg.Wait(); close(done) }()
	final := ""
	select {
	case <-done:
	case <-time.After(10 * time.Second):
		final = "HANG"
	}
	all := map[string]bool{}
	if final == "" {
		for g := range seen {
			for k := range seen[g] {
				all[k] = true
			}
		}
		final = settle(B)
		if final == "settled" {
			// one more lookup, after everything is quiet: it must see B
			all["after:"+current()] = true
		}
	} else {
		s.wedged = true
	}
	var obs []string
	for k := range all {
		obs = append(obs, k)
	}
	sort.Strings(obs)
	if len(obs) == 0 {
		obs = []string{"-"}
	}
	res := fmt.Sprintf("%s ; %s ; %s ; %s", lineOracle(A), lineOracle(B), strings.Join(obs, " | "), final)
	c.emit(op, res)
	return final
}

func genFileConc(c *ctx) {
	var pending []string
	npending, planned := 0, 0
	for planned < c.n {
		var macs [][]byte
		for i := 0; i < 4; i++ {
			m := make([]byte, 6)
			c.rng.Read(m)
			macs = append(macs, m)
		}
		line := func(v6 bool, m []byte, d int) string {
			if v6 {
				return fmt.Sprintf("%s 2001:db8::%d\n", net.HardwareAddr(m), d)
			}
			return fmt.Sprintf("%s 10.0.0.%d\n", net.HardwareAddr(m), d)
		}
		others := func(v6 bool, target []byte) string {
			var sb strings.Builder
			sb.WriteString("# static leases\n")
			for _, m := range macs {
				if string(m) != string(target) && c.rng.Intn(2) == 0 {
					sb.WriteString(line(v6, m, 1+c.rng.Intn(9)))
				}
			}
			return sb.String()
		}
		mk := func(v6 bool, target []byte, d int) []byte { return []byte(others(v6, target) + line(v6, target, d)) }
		kinds := []string{"4", "6", "46", "64"}[c.rng.Intn(4)]
		var hist []string
		for _, k := range kinds {
			hist = append(hist, fmt.Sprintf("fsetup %c 1 %s", k, hx(mk(k == '6', macs[0], 1+c.rng.Intn(9)))))
		}
		steps := 2 + c.rng.Intn(3)
		for i := 0; i < steps; i++ {
			k := kinds[c.rng.Intn(len(kinds))]
			v6 := k == '6'
			target := macs[c.rng.Intn(len(macs))]
			// the same file twice, with one digit of the target's address changed
			d1 := 1 + c.rng.Intn(9)
			d2 := 1 + (d1+c.rng.Intn(8))%9
			rest := others(v6, target)
			a := []byte(rest + line(v6, target, d1))
			b := []byte(rest + line(v6, target, d2))
			ms := 150
			if c.tier == "thorough" {
				ms = 600
			}
			if c.rng.Intn(3) == 0 {
				// long files (slow to parse), pairs of rewrites in quick succession
				var sb strings.Builder
				for j := 0; j < 3000; j++ {
					sb.WriteString(line(v6, []byte{2, 9, byte(j >> 16), byte(j >> 8), byte(j), 1}, 1+j%9))
				}
				long := sb.String()
				hist = append(hist, fmt.Sprintf("fpair %c %s %s %s %d", k, hx(target), hx([]byte(long+string(a))), hx([]byte(long+string(b))), 6))
			} else {
				hist = append(hist, fmt.Sprintf("fhammer %c %s %s %s %d", k, hx(target), hx(a), hx(b), ms))
			}
			m := macs[c.rng.Intn(len(macs))]
			if v6 {
				hist = append(hist, fmt.Sprintf("fq6 %s 1 0", hx(m)))
			} else {
				hist = append(hist, "fq4 "+hx(m))
			}
		}
		pending = append(pending, hist...)
		npending++
		planned += len(hist)
		if npending >= 4 || planned >= c.n {
			runFileGroup(c, pending)
			pending, npending = nil, 0
		}
	}
	if len(pending) > 0 {
		runFileGroup(c, pending)
	}
}
