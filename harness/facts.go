package main

// Structural facts extracted from /repo's source with go/ast on every run. Each is the stated
// assumption of named theorems (DESIGN.md §1.6); behaviour alone cannot reveal them.

import (
	"flag"
	"fmt"
	"go/ast"
	"go/parser"
	"go/printer"
	"go/token"
	"os"
	"path/filepath"
	"sort"
	"strings"
)

// the tree the facts are read from: /repo. (VERIF_REPO lets a developer point the fact extractor at a
// scratch worktree; no registered command sets it.)
var repoRoot = func() string {
	if v := os.Getenv("VERIF_REPO"); v != "" {
		return v
	}
	return "/repo"
}()

func exprStr(fset *token.FileSet, e ast.Node) string {
	var sb strings.Builder
	printer.Fprint(&sb, fset, e)
	return sb.String()
}

func parseFile(fset *token.FileSet, rel string) *ast.File {
	f, err := parser.ParseFile(fset, filepath.Join(repoRoot, rel), nil, 0)
	if err != nil {
		fail("cannot parse %s: %v", rel, err)
	}
	return f
}

type factErr struct{ msg string }

func fail(format string, a ...interface{}) { panic(factErr{fmt.Sprintf(format, a...)}) }

func findFunc(f *ast.File, recv, name string) *ast.FuncDecl {
	for _, d := range f.Decls {
		fd, ok := d.(*ast.FuncDecl)
		if !ok || fd.Name.Name != name {
			continue
		}
		if recv == "" && fd.Recv == nil {
			return fd
		}
		if recv != "" && fd.Recv != nil && len(fd.Recv.List) == 1 {
			t := fd.Recv.List[0].Type
			if s, ok := t.(*ast.StarExpr); ok {
				t = s.X
			}
			if id, ok := t.(*ast.Ident); ok && id.Name == recv {
				return fd
			}
		}
	}
	return nil
}

// lockDiscipline: in fn, `<guard>.Lock()` (or RLock) is a top-level statement immediately followed by
// `defer <guard>.Unlock()` (RUnlock), and every mention of the guarded expressions comes after it.
func lockDiscipline(fset *token.FileSet, rel, recv, name, guard string, guarded []string) {
	f := parseFile(fset, rel)
	fd := findFunc(f, recv, name)
	if fd == nil {
		fail("%s: function %s.%s not found", rel, recv, name)
	}
	lockPos := token.NoPos
	for i, st := range fd.Body.List {
		es, ok := st.(*ast.ExprStmt)
		if !ok {
			continue
		}
		s := exprStr(fset, es.X)
		if s == guard+".Lock()" || s == guard+".RLock()" {
			if i+1 >= len(fd.Body.List) {
				fail("%s %s: Lock is the last statement", rel, name)
			}
			ds, ok := fd.Body.List[i+1].(*ast.DeferStmt)
			want := guard + ".Unlock()"
			if strings.HasSuffix(s, "RLock()") {
				want = guard + ".RUnlock()"
			}
			if !ok || exprStr(fset, ds.Call) != want {
				fail("%s %s: %s is not followed by `defer %s`", rel, name, s, want)
			}
			lockPos = es.Pos()
			break
		}
	}
	if lockPos == token.NoPos {
		fail("%s %s: no top-level %s.Lock()", rel, name, guard)
	}
	ast.Inspect(fd.Body, func(n ast.Node) bool {
		if e, ok := n.(ast.Expr); ok {
			s := exprStr(fset, e)
			for _, g := range guarded {
				if s == g && e.Pos() < lockPos {
					fail("%s %s: %s is used before the lock is taken", rel, name, g)
				}
			}
		}
		return true
	})
	// no other Unlock of the guard in the body (a narrowed critical section)
	cnt := 0
	ast.Inspect(fd.Body, func(n ast.Node) bool {
		if c, ok := n.(*ast.CallExpr); ok {
			s := exprStr(fset, c)
			if s == guard+".Unlock()" || s == guard+".RUnlock()" {
				cnt++
			}
		}
		return true
	})
	if cnt != 1 {
		fail("%s %s: %d unlock calls on %s (want exactly the deferred one)", rel, name, cnt, guard)
	}
}

func factF1(fset *token.FileSet) {
	lockDiscipline(fset, "plugins/allocators/bitmap/bitmap.go", "Allocator", "Allocate", "a.l", []string{"a.bitmap"})
	lockDiscipline(fset, "plugins/allocators/bitmap/bitmap.go", "Allocator", "Free", "a.l", []string{"a.bitmap"})
	lockDiscipline(fset, "plugins/allocators/bitmap/bitmap_ipv4.go", "IPv4Allocator", "Allocate", "a.l", []string{"a.bitmap"})
	lockDiscipline(fset, "plugins/allocators/bitmap/bitmap_ipv4.go", "IPv4Allocator", "Free", "a.l", []string{"a.bitmap"})
	lockDiscipline(fset, "plugins/range/plugin.go", "PluginState", "Handler4", "p", []string{"p.Recordsv4", "p.allocator", "p.leasedb"})
	lockDiscipline(fset, "plugins/prefix/plugin.go", "Handler", "Handle", "h", []string{"h.Records", "h.allocator"})
}

func factF2(fset *token.FileSet) {
	f := parseFile(fset, "server/handle.go")
	for _, recv := range []string{"listener4", "listener6"} {
		fd := findFunc(f, recv, "Serve")
		if fd == nil {
			fail("handle.go: %s.Serve not found", recv)
		}
		want := "l.HandleMsg" + recv[len(recv)-1:]
		n := 0
		ast.Inspect(fd.Body, func(x ast.Node) bool {
			if g, ok := x.(*ast.GoStmt); ok && exprStr(fset, g.Call.Fun) == want {
				n++
			}
			return true
		})
		if n != 1 {
			fail("handle.go %s.Serve: %d `go %s(...)` statements, want 1", recv, n, want)
		}
	}
	// no recover() anywhere in non-test code: a panic in a handler goroutine ends the process
	filepath.Walk(repoRoot, func(p string, info os.FileInfo, err error) error {
		if err != nil || info.IsDir() || !strings.HasSuffix(p, ".go") || strings.HasSuffix(p, "_test.go") || strings.Contains(p, "/integ/") || strings.Contains(p, "/cmds/") {
			return nil
		}
		af, perr := parser.ParseFile(fset, p, nil, 0)
		if perr != nil {
			return nil
		}
		ast.Inspect(af, func(x ast.Node) bool {
			if c, ok := x.(*ast.CallExpr); ok {
				if id, ok := c.Fun.(*ast.Ident); ok && id.Name == "recover" {
					fail("%s: recover() call (the model assumes a handler panic is fatal)", p)
				}
			}
			return true
		})
		return nil
	})
}

// F3: a handler that returns a nil response returns stop = true
func factF3(fset *token.FileSet) {
	n := 0
	filepath.Walk(filepath.Join(repoRoot, "plugins"), func(p string, info os.FileInfo, err error) error {
		if err != nil || info.IsDir() || !strings.HasSuffix(p, ".go") || strings.HasSuffix(p, "_test.go") || strings.Contains(p, "/example/") {
			return nil
		}
		af, perr := parser.ParseFile(fset, p, nil, 0)
		if perr != nil {
			fail("cannot parse %s", p)
		}
		check := func(ft *ast.FuncType, body *ast.BlockStmt) {
			if ft.Results == nil || len(ft.Results.List) != 2 || body == nil {
				return
			}
			t0, t1 := exprStr(fset, ft.Results.List[0].Type), exprStr(fset, ft.Results.List[1].Type)
			if t1 != "bool" || (t0 != "*dhcpv4.DHCPv4" && t0 != "dhcpv6.DHCPv6") {
				return
			}
			n++
			ast.Inspect(body, func(x ast.Node) bool {
				if _, ok := x.(*ast.FuncLit); ok {
					return false
				}
				if r, ok := x.(*ast.ReturnStmt); ok && len(r.Results) == 2 {
					if id, ok := r.Results[0].(*ast.Ident); ok && id.Name == "nil" {
						if id2, ok := r.Results[1].(*ast.Ident); !ok || id2.Name != "true" {
							fail("%s:%d: handler returns a nil response without stop", p, fset.Position(r.Pos()).Line)
						}
					}
				}
				return true
			})
		}
		ast.Inspect(af, func(x ast.Node) bool {
			switch v := x.(type) {
			case *ast.FuncDecl:
				check(v.Type, v.Body)
			case *ast.FuncLit:
				check(v.Type, v.Body)
			}
			return true
		})
		return nil
	})
	if n < 15 {
		fail("only %d handler functions found under plugins/", n)
	}
}

// F4: HandleMsgN returns the receive buffer to the pool right after parsing and never touches it again
func factF4(fset *token.FileSet) {
	f := parseFile(fset, "server/handle.go")
	for _, fn := range [][2]string{{"listener4", "HandleMsg4"}, {"listener6", "HandleMsg6"}} {
		fd := findFunc(f, fn[0], fn[1])
		if fd == nil {
			fail("handle.go: %s not found", fn[1])
		}
		putPos, fromPos := token.NoPos, token.NoPos
		ast.Inspect(fd.Body, func(x ast.Node) bool {
			if c, ok := x.(*ast.CallExpr); ok {
				s := exprStr(fset, c)
				if s == "bufpool.Put(&buf)" {
					putPos = c.Pos()
				}
				if strings.HasSuffix(s, ".FromBytes(buf)") {
					fromPos = c.Pos()
				}
			}
			return true
		})
		if putPos == token.NoPos || fromPos == token.NoPos || putPos < fromPos {
			fail("%s: bufpool.Put(&buf) does not follow FromBytes(buf)", fn[1])
		}
		ast.Inspect(fd.Body, func(x ast.Node) bool {
			if id, ok := x.(*ast.Ident); ok && id.Name == "buf" && id.Pos() > putPos+20 {
				fail("%s: buf is used after it was returned to the pool", fn[1])
			}
			return true
		})
	}
}

// F5: an unbound listener asks the kernel for the receiving interface
func factF5(fset *token.FileSet) {
	f := parseFile(fset, "server/serve.go")
	for _, name := range []string{"listen4", "listen6"} {
		fd := findFunc(f, "", name)
		if fd == nil {
			fail("serve.go: %s not found", name)
		}
		ok := false
		ast.Inspect(fd.Body, func(x ast.Node) bool {
			if is, isIf := x.(*ast.IfStmt); isIf && exprStr(fset, is.Cond) == `a.Zone != ""` && is.Else != nil {
				s := exprStr(fset, is.Else)
				if strings.Contains(s, "SetControlMessage(ipv"+name[len(name)-1:]+".FlagInterface, true)") {
					ok = true
				}
			}
			return true
		})
		if !ok {
			fail("%s: the unbound branch does not enable FlagInterface control messages", name)
		}
	}
}

func factF6(fset *token.FileSet) {
	f := parseFile(fset, "plugins/prefix/plugin.go")
	found := false
	ast.Inspect(f, func(x ast.Node) bool {
		if vs, ok := x.(*ast.ValueSpec); ok && len(vs.Names) == 1 && vs.Names[0].Name == "leaseDuration" && len(vs.Values) == 1 {
			if exprStr(fset, vs.Values[0]) != "3600 * time.Second" {
				fail("prefix: leaseDuration = %s (model: 3600 * time.Second)", exprStr(fset, vs.Values[0]))
			}
			found = true
		}
		return true
	})
	if !found {
		fail("prefix: leaseDuration not found")
	}
	h := parseFile(fset, "server/handle.go")
	s := exprStr(fset, h)
	if !strings.Contains(s, "const MaxDatagram = 1 << 16") {
		fail("handle.go: MaxDatagram is not 1 << 16")
	}
	for _, w := range []string{"Port: dhcpv4.ServerPort", "Port: dhcpv4.ClientPort"} {
		if !strings.Contains(s, w) {
			fail("handle.go: %q not found", w)
		}
	}
}

// F7: every listener of a protocol gets the one chain LoadPlugins returned
func factF7(fset *token.FileSet) {
	f := parseFile(fset, "server/serve.go")
	fd := findFunc(f, "", "Start")
	if fd == nil {
		fail("serve.go: Start not found")
	}
	s := exprStr(fset, fd.Body)
	for _, w := range []string{"handlers4, handlers6, err := plugins.LoadPlugins(config)", "l6.handlers = handlers6", "l4.handlers = handlers4"} {
		if !strings.Contains(s, w) {
			fail("Start: %q not found", w)
		}
	}
}

// F8: the link-level reply goes to the client's hardware address and the offered address,
// server port -> client port, on the interface it was given
func factF8(fset *token.FileSet) {
	f := parseFile(fset, "server/sendEthernet.go")
	fd := findFunc(f, "", "sendEthernet")
	if fd == nil {
		fail("sendEthernet.go: sendEthernet not found")
	}
	s := strings.Join(strings.Fields(exprStr(fset, fd.Body)), " ")
	for _, w := range []string{"DstMAC: resp.ClientHWAddr", "DstIP: resp.YourIPAddr", "SrcPort: dhcpv4.ServerPort", "DstPort: dhcpv4.ClientPort",
		"Ifindex: iface.Index", "gopacket.NewPacket(resp.ToBytes(), layers.LayerTypeDHCPv4"} {
		if !strings.Contains(s, w) {
			fail("sendEthernet: %q not found", w)
		}
	}
	// and HandleMsg4 hands it the interface of the control message and the response
	h := parseFile(fset, "server/handle.go")
	hs := strings.Join(strings.Fields(exprStr(fset, h)), " ")
	for _, w := range []string{"net.InterfaceByIndex(woob.IfIndex)", "sendEthernet(*intf, resp)"} {
		if !strings.Contains(hs, w) {
			fail("HandleMsg4: %q not found", w)
		}
	}
}

// F9: the server binary registers each built-in plugin exactly once, under distinct names
func factF9(fset *token.FileSet) {
	f := parseFile(fset, "cmds/coredhcp/main.go")
	var regs []string
	ast.Inspect(f, func(x ast.Node) bool {
		if vs, ok := x.(*ast.ValueSpec); ok && len(vs.Names) == 1 && vs.Names[0].Name == "desiredPlugins" && len(vs.Values) == 1 {
			if cl, ok := vs.Values[0].(*ast.CompositeLit); ok {
				for _, e := range cl.Elts {
					regs = append(regs, exprStr(fset, e))
				}
			}
		}
		return true
	})
	if len(regs) < 15 {
		fail("main.go: desiredPlugins has %d entries, want at least 15", len(regs))
	}
	seen := map[string]bool{}
	for _, r := range regs {
		if seen[r] {
			fail("main.go: plugin %s registered twice", r)
		}
		seen[r] = true
	}
	if !strings.Contains(exprStr(fset, f), "plugins.RegisterPlugin(plugin)") {
		fail("main.go: plugins are not registered with plugins.RegisterPlugin")
	}
	// distinct Name: literals across plugin packages
	names := map[string]string{}
	filepath.Walk(filepath.Join(repoRoot, "plugins"), func(p string, info os.FileInfo, err error) error {
		if err != nil || info.IsDir() || !strings.HasSuffix(p, ".go") || strings.HasSuffix(p, "_test.go") || strings.Contains(p, "/example/") {
			return nil
		}
		af, perr := parser.ParseFile(fset, p, nil, 0)
		if perr != nil {
			return nil
		}
		ast.Inspect(af, func(x ast.Node) bool {
			if cl, ok := x.(*ast.CompositeLit); ok && exprStr(fset, cl.Type) == "plugins.Plugin" {
				for _, e := range cl.Elts {
					if kv, ok := e.(*ast.KeyValueExpr); ok && exprStr(fset, kv.Key) == "Name" {
						n := exprStr(fset, kv.Value)
						if prev, dup := names[n]; dup && n != "pluginName" {
							fail("plugin name %s used by %s and %s", n, prev, p)
						}
						names[n] = p
					}
				}
			}
			return true
		})
		return nil
	})
	if len(names) < 15 {
		fail("only %d plugin declarations found", len(names))
	}
}

func runFacts(args []string) {
	fs := flag.NewFlagSet("facts", flag.ExitOnError)
	which := fs.String("fact", "", "F1..F7")
	fs.Parse(args)
	table := map[string]func(*token.FileSet){"F1": factF1, "F2": factF2, "F3": factF3, "F4": factF4, "F5": factF5, "F6": factF6, "F7": factF7, "F8": factF8, "F9": factF9, "F10": factF10, "F11": factF11, "F12": factF12}
	fn, ok := table[*which]
	if !ok {
		fmt.Println("FACT", *which, "unknown")
		os.Exit(2)
	}
	defer func() {
		if r := recover(); r != nil {
			if fe, ok := r.(factErr); ok {
				fmt.Printf("FACT %s FAIL %s\n", *which, fe.msg)
				os.Exit(1)
			}
			panic(r)
		}
	}()
	fn(token.NewFileSet())
	fmt.Printf("FACT %s ok\n", *which)
}

// F10: no mutex is taken again while it is held. For every package under plugins/ and server/:
// a function that takes a lock K (K.Lock() or K.RLock()) must not, while it holds K (up to the
// matching explicit unlock, or to the end of the function when the unlock is deferred), take K
// again or call a function of the same package that (transitively) takes K. With sync.RWMutex a
// second RLock by the same goroutine deadlocks as soon as a writer is waiting in between; with
// sync.Mutex it deadlocks at once. Lock expressions are compared after replacing the receiver
// name by "_", so `a.l` in one method and `b.l` in another are the same lock.
func factF10(fset *token.FileSet) {
	pkgs := map[string][]*ast.File{}
	for _, root := range []string{"plugins", "server"} {
		filepath.Walk(filepath.Join(repoRoot, root), func(p string, info os.FileInfo, err error) error {
			if err != nil || info.IsDir() || !strings.HasSuffix(p, ".go") || strings.HasSuffix(p, "_test.go") {
				return nil
			}
			af, perr := parser.ParseFile(fset, p, nil, 0)
			if perr != nil {
				fail("cannot parse %s", p)
			}
			pkgs[filepath.Dir(p)] = append(pkgs[filepath.Dir(p)], af)
			return nil
		})
	}
	nlocks := 0
	for dir, files := range pkgs {
		type fn struct {
			decl *ast.FuncDecl
			recv string
		}
		funcs := map[string][]fn{} // by bare name
		for _, f := range files {
			for _, d := range f.Decls {
				if fd, ok := d.(*ast.FuncDecl); ok && fd.Body != nil {
					r := ""
					if fd.Recv != nil && len(fd.Recv.List) == 1 && len(fd.Recv.List[0].Names) == 1 {
						r = fd.Recv.List[0].Names[0].Name
					}
					funcs[fd.Name.Name] = append(funcs[fd.Name.Name], fn{fd, r})
				}
			}
		}
		norm := func(x ast.Expr, recv string) string {
			s := exprStr(fset, x)
			if recv != "" {
				if s == recv {
					return "_"
				}
				if strings.HasPrefix(s, recv+".") {
					return "_" + s[len(recv):]
				}
			}
			return s
		}
		// lock acquisitions / releases / package-local calls of a function body, in source order
		type ev struct {
			pos      token.Pos
			kind     string // lock, unlock, deferunlock, call
			key      string
			deferred bool
		}
		events := func(f fn) []ev {
			var out []ev
			deferred := map[*ast.CallExpr]bool{}
			ast.Inspect(f.decl.Body, func(n ast.Node) bool {
				if d, ok := n.(*ast.DeferStmt); ok {
					deferred[d.Call] = true
				}
				c, ok := n.(*ast.CallExpr)
				if !ok {
					return true
				}
				switch fun := c.Fun.(type) {
				case *ast.SelectorExpr:
					switch fun.Sel.Name {
					case "Lock", "RLock":
						if len(c.Args) == 0 {
							out = append(out, ev{c.Pos(), "lock", norm(fun.X, f.recv), false})
							return true
						}
					case "Unlock", "RUnlock":
						if len(c.Args) == 0 {
							k := "unlock"
							if deferred[c] {
								k = "deferunlock"
							}
							out = append(out, ev{c.Pos(), k, norm(fun.X, f.recv), false})
							return true
						}
					}
					if _, ok := funcs[fun.Sel.Name]; ok {
						out = append(out, ev{c.Pos(), "call", fun.Sel.Name, false})
					}
				case *ast.Ident:
					if _, ok := funcs[fun.Name]; ok {
						out = append(out, ev{c.Pos(), "call", fun.Name, false})
					}
				}
				return true
			})
			sort.Slice(out, func(i, j int) bool { return out[i].pos < out[j].pos })
			return out
		}
		// which lock keys a function may take, transitively
		takes := map[string]map[string]bool{}
		var visit func(name string, seen map[string]bool) map[string]bool
		visit = func(name string, seen map[string]bool) map[string]bool {
			if t, ok := takes[name]; ok {
				return t
			}
			if seen[name] {
				return map[string]bool{}
			}
			seen[name] = true
			t := map[string]bool{}
			for _, f := range funcs[name] {
				for _, e := range events(f) {
					switch e.kind {
					case "lock":
						t[e.key] = true
					case "call":
						for k := range visit(e.key, seen) {
							t[k] = true
						}
					}
				}
			}
			takes[name] = t
			return t
		}
		for name, fl := range funcs {
			for _, f := range fl {
				held := map[string]bool{}
				for _, e := range events(f) {
					switch e.kind {
					case "lock":
						nlocks++
						if held[e.key] {
							fail("%s: %s takes %s again while holding it (line %d)", dir, name, e.key, fset.Position(e.pos).Line)
						}
						held[e.key] = true
					case "unlock":
						delete(held, e.key)
					case "call":
						for k := range visit(e.key, map[string]bool{}) {
							if held[k] {
								fail("%s: %s calls %s (line %d) while holding %s, which %s takes as well: a goroutine blocks on itself", dir, name, e.key, fset.Position(e.pos).Line, k, e.key)
							}
						}
					}
				}
			}
		}
	}
	if nlocks < 8 {
		fail("only %d lock acquisitions found in plugins/ and server/ (the fact is looking at the wrong code)", nlocks)
	}
}

// F11: the static lease tables are read by the handlers under recLock.RLock and replaced, whole,
// under recLock.Lock — "a refresh is one atomic table swap": handle4/handle6 take the read lock
// (deferred unlock) before their only look-up in the table; loadFromFile parses the file BEFORE
// taking the write lock and assigns the tables after it; nothing else assigns them or writes into them.
func factF11(fset *token.FileSet) {
	rel := "plugins/file/plugin.go"
	lockDiscipline(fset, rel, "", "handle4", "recLock", []string{"(*records)", "*records"})
	lockDiscipline(fset, rel, "", "handle6", "recLock", []string{"(*records)", "*records"})
	lockDiscipline(fset, rel, "", "loadFromFile", "recLock", []string{"DHCPv6Records", "DHCPv4Records", "StaticRecords"})
	f := parseFile(fset, rel)
	tables := map[string]bool{"DHCPv6Records": true, "DHCPv4Records": true, "StaticRecords": true}
	for _, d := range f.Decls {
		fd, ok := d.(*ast.FuncDecl)
		if !ok || fd.Body == nil {
			continue
		}
		ast.Inspect(fd.Body, func(n ast.Node) bool {
			as, ok := n.(*ast.AssignStmt)
			if !ok {
				return true
			}
			for _, l := range as.Lhs {
				s := exprStr(fset, l)
				base := s
				if i := strings.IndexAny(s, "["); i >= 0 {
					base = strings.Trim(s[:i], "(*)")
				}
				if tables[base] || strings.HasPrefix(s, "(*records)[") {
					if fd.Name.Name != "loadFromFile" || strings.Contains(s, "[") {
						fail("%s:%d: %s writes the served table (%s) outside the one swap in loadFromFile", rel, fset.Position(as.Pos()).Line, fd.Name.Name, s)
					}
				}
			}
			return true
		})
	}
	// the parse happens before the lock: LoadDHCPv{4,6}Records are not called with recLock held
	fd := findFunc(f, "", "loadFromFile")
	lockPos := token.NoPos
	ast.Inspect(fd.Body, func(n ast.Node) bool {
		if c, ok := n.(*ast.CallExpr); ok && exprStr(fset, c) == "recLock.Lock()" && lockPos == token.NoPos {
			lockPos = c.Pos()
		}
		return true
	})
	ast.Inspect(fd.Body, func(n ast.Node) bool {
		if c, ok := n.(*ast.CallExpr); ok {
			s := exprStr(fset, c.Fun)
			if (s == "LoadDHCPv6Records" || s == "LoadDHCPv4Records") && c.Pos() > lockPos {
				fail("%s: loadFromFile reads the file while holding the write lock", rel)
			}
		}
		return true
	})
}

// F12: the logger is set up before any goroutine exists. `logger.GetLogger` tests `globalLogger == nil`
// outside its mutex (and does not test again inside), so two first calls at once would race; every call
// in the server program must therefore come from a package-level variable initialiser (run one after the
// other by the runtime before main) or from func main of cmds/coredhcp before `server.Start`. In
// logger.go itself: the only assignment to globalLogger is inside GetLogger, after `getLoggerMutex.Lock()`,
// and the package starts no goroutine.
func factF12(fset *token.FileSet) {
	lf := parseFile(fset, "logger/logger.go")
	gl := findFunc(lf, "", "GetLogger")
	if gl == nil {
		fail("logger.go: GetLogger not found")
	}
	ast.Inspect(lf, func(x ast.Node) bool {
		if g, ok := x.(*ast.GoStmt); ok {
			fail("logger.go:%d: the logger package starts a goroutine", fset.Position(g.Pos()).Line)
		}
		if as, ok := x.(*ast.AssignStmt); ok {
			for _, l := range as.Lhs {
				if id, ok := l.(*ast.Ident); ok && id.Name == "globalLogger" {
					if as.Pos() < gl.Pos() || as.End() > gl.End() {
						fail("logger.go:%d: globalLogger is assigned outside GetLogger", fset.Position(as.Pos()).Line)
					}
					locked := false
					for _, st := range gl.Body.List {
						ast.Inspect(st, func(y ast.Node) bool {
							if c, ok := y.(*ast.CallExpr); ok && exprStr(fset, c.Fun) == "getLoggerMutex.Lock" && c.Pos() < as.Pos() {
								locked = true
							}
							return true
						})
					}
					if !locked {
						fail("logger.go:%d: globalLogger is assigned without getLoggerMutex", fset.Position(as.Pos()).Line)
					}
				}
			}
		}
		return true
	})
	calls := 0
	filepath.Walk(repoRoot, func(p string, info os.FileInfo, err error) error {
		if err != nil {
			return nil
		}
		if info.IsDir() {
			if b := info.Name(); b == ".git" || b == "integ" || b == "example" || b == "client" || b == "coredhcp-generator" {
				return filepath.SkipDir
			}
			return nil
		}
		if !strings.HasSuffix(p, ".go") || strings.HasSuffix(p, "_test.go") || strings.HasSuffix(p, "logger/logger.go") {
			return nil
		}
		af, perr := parser.ParseFile(fset, p, nil, 0)
		if perr != nil {
			return nil
		}
		// the local name of the logger package in this file
		lname := ""
		for _, im := range af.Imports {
			if strings.Trim(im.Path.Value, "\"") == "github.com/coredhcp/coredhcp/logger" {
				lname = "logger"
				if im.Name != nil {
					lname = im.Name.Name
				}
			}
		}
		if lname == "" {
			return nil
		}
		if lname == "." || lname == "_" {
			fail("%s: the logger package is imported as %q", p, lname)
		}
		rel, _ := filepath.Rel(repoRoot, p)
		for _, d := range af.Decls {
			switch d := d.(type) {
			case *ast.GenDecl:
				// package-level var initialisers: allowed, but not inside a function literal (that would run later)
				ast.Inspect(d, func(x ast.Node) bool {
					if fl, ok := x.(*ast.FuncLit); ok {
						ast.Inspect(fl, func(y ast.Node) bool {
							if c, ok := y.(*ast.CallExpr); ok && exprStr(fset, c.Fun) == lname+".GetLogger" {
								fail("%s:%d: GetLogger is called inside a function literal", rel, fset.Position(c.Pos()).Line)
							}
							return true
						})
						return false
					}
					if c, ok := x.(*ast.CallExpr); ok && exprStr(fset, c.Fun) == lname+".GetLogger" {
						calls++
					}
					// the function value itself must not escape (`f := logger.GetLogger`)
					return true
				})
			case *ast.FuncDecl:
				isMain := rel == "cmds/coredhcp/main.go" && d.Recv == nil && d.Name.Name == "main"
				var startPos token.Pos
				if d.Body != nil {
					ast.Inspect(d.Body, func(x ast.Node) bool {
						if c, ok := x.(*ast.CallExpr); ok && exprStr(fset, c.Fun) == "server.Start" && startPos == 0 {
							startPos = c.Pos()
						}
						return true
					})
					inLit := 0
					var walk func(n ast.Node)
					walk = func(n ast.Node) {
						ast.Inspect(n, func(x ast.Node) bool {
							switch x := x.(type) {
							case *ast.FuncLit:
								inLit++
								walk(x.Body)
								inLit--
								return false
							case *ast.GoStmt:
								if isMain && (startPos == 0 || x.Pos() < startPos) {
									fail("%s:%d: main starts a goroutine before server.Start", rel, fset.Position(x.Pos()).Line)
								}
							case *ast.SelectorExpr:
								if exprStr(fset, x) == lname+".GetLogger" {
									pos := fset.Position(x.Pos())
									if !isMain {
										fail("%s:%d: GetLogger is used in function %s (only package-level initialisers and main may)", rel, pos.Line, d.Name.Name)
									}
									if inLit > 0 {
										fail("%s:%d: GetLogger is used inside a function literal of main", rel, pos.Line)
									}
									if startPos != 0 && x.Pos() > startPos {
										fail("%s:%d: GetLogger is used after server.Start", rel, pos.Line)
									}
									calls++
								}
							}
							return true
						})
					}
					walk(d.Body)
				}
			}
		}
		return nil
	})
	if calls < 15 {
		fail("only %d GetLogger call sites found", calls)
	}
}
