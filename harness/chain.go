package main

// Engine "chain" (C01, C19): whole chains of real built-in plugins, set up with valid arguments in
// a fresh worker process, fed sequences of well-formed and mutated datagrams through the server
// capture hook under recover + watchdog. No model: the outcome is judged directly (a panic, a hang,
// more than one reply, or a reply that does not parse back is a violation).

import (
	"bufio"
	"bytes"
	"fmt"
	"net"
	"os"
	"os/exec"
	"path/filepath"
	"strings"
	"time"

	"github.com/coredhcp/coredhcp/handler"
	"github.com/coredhcp/coredhcp/plugins/file"
	"github.com/coredhcp/coredhcp/plugins/prefix"
	rangeplugin "github.com/coredhcp/coredhcp/plugins/range"
	"github.com/insomniacslk/dhcp/dhcpv4"
	"github.com/insomniacslk/dhcp/dhcpv6"
	"github.com/insomniacslk/dhcp/iana"
)

func init() {
	engines["chain"] = &engine{gen: genChain, replay: replayChain}
	builtin["range"] = &rangeplugin.Plugin
	builtin["prefix"] = &prefix.Plugin
	builtin["file"] = &file.Plugin
}

func runChainWorker() {
	sc := bufio.NewScanner(os.Stdin)
	sc.Buffer(make([]byte, 1<<20), 1<<26)
	out := bufio.NewWriter(os.Stdout)
	defer out.Flush()
	var h4 []handler.Handler4
	var h6 []handler.Handler6
	wedged := false
	for sc.Scan() {
		f := strings.Fields(sc.Text())
		res := "badop"
		if wedged {
			// a handler is blocked for good: do not spend a watchdog period on every later datagram
			fmt.Fprintln(out, "SKIP after-hang")
			out.Flush()
			continue
		}
		switch f[0] {
		case "ccfg": // ccfg <4|6> <n> { <name> <k> <arghex>... }
			res = guard(func() string {
				i := 3
				for p := 0; p < atoi(f[2]); p++ {
					name, k := f[i], atoi(f[i+1])
					var args []string
					for _, a := range f[i+2 : i+2+k] {
						args = append(args, string(unhx(a)))
					}
					i += 2 + k
					if f[1] == "4" {
						h, err := builtin[name].Setup4(args...)
						if err != nil || h == nil {
							return "err " + name
						}
						h4 = append(h4, h)
					} else {
						h, err := builtin[name].Setup6(args...)
						if err != nil || h == nil {
							return "err " + name
						}
						h6 = append(h6, h)
					}
				}
				return "ok"
			})
		case "cdg4": // cdg4 <bound> <oob> <dg>
			res = watchdog(8*time.Second, func() string {
				return guard(func() string {
					caps := handleOn4(h4, atoi(f[1]), unhx(f[3]), atoi(f[2]), &net.UDPAddr{IP: net.IPv4(192, 0, 2, 1), Port: 68})
					if len(caps) == 0 {
						return "drop"
					}
					if len(caps) > 1 {
						return fmt.Sprintf("send%d", len(caps))
					}
					wire := caps[0].Resp.ToBytes()
					back, err := dhcpv4.FromBytes(wire)
					if err != nil {
						return "send rt-unparsable"
					}
					if !bytes.Equal(back.ToBytes(), wire) || opts4str(back.Options) != opts4str(caps[0].Resp.Options) {
						return "send rt-differs"
					}
					return fmt.Sprintf("send ok %d %s", mt4(back), hx(back.YourIPAddr.To4()))
				})
			})
		case "cdg6": // cdg6 <bound> <oob> <src> <dg>
			res = watchdog(8*time.Second, func() string {
				return guard(func() string {
					caps := handleOn6(h6, atoi(f[1]), unhx(f[4]), atoi(f[2]), &net.UDPAddr{IP: net.IP(unhx(f[3])), Port: 546})
					if len(caps) == 0 {
						return "drop"
					}
					if len(caps) > 1 {
						return fmt.Sprintf("send%d", len(caps))
					}
					wire := caps[0].Resp.ToBytes()
					back, err := dhcpv6.FromBytes(wire)
					if err != nil {
						return "send rt-unparsable"
					}
					if !bytes.Equal(back.ToBytes(), wire) {
						return "send rt-differs"
					}
					return fmt.Sprintf("send ok %d", back.Type())
				})
			})
		}
		if res == "HANG" {
			wedged = true
		}
		fmt.Fprintln(out, res)
		out.Flush()
	}
}

func runChainGroup(c *ctx, ops []string) {
	cmd := exec.Command(os.Args[0], "chainworker")
	cmd.Stdin = strings.NewReader(strings.Join(ops, "\n") + "\n")
	var ob bytes.Buffer
	cmd.Stdout = &ob
	done := make(chan error, 1)
	go func() { done <- cmd.Run() }()
	select {
	case <-done:
	case <-time.After(180 * time.Second):
		cmd.Process.Kill()
	}
	lines := strings.Split(strings.TrimRight(ob.String(), "\n"), "\n")
	for i, op := range ops {
		res := "CRASH"
		if i < len(lines) && lines[i] != "" {
			res = lines[i]
		}
		c.emit(op, res)
	}
}

func replayChain(c *ctx, ops []string) {
	var group []string
	for _, op := range ops {
		if strings.HasPrefix(op, "ccfg ") && len(group) > 0 {
			runChainGroup(c, group)
			group = nil
		}
		group = append(group, op)
	}
	if len(group) > 0 {
		runChainGroup(c, group)
	}
}

func genChain(c *ctx) {
	dir, err := os.MkdirTemp(".", "chain")
	if err != nil {
		panic(err)
	}
	defer os.RemoveAll(dir)
	n := 0
	for c.count < c.n {
		n++
		v6 := c.rng.Intn(2) == 0
		sub := filepath.Join(dir, fmt.Sprint(n))
		os.MkdirAll(sub, 0o755)
		leases := filepath.Join(sub, "leases.txt")
		type pl struct {
			name string
			args []string
		}
		var pool []pl
		macs := [][]byte{{2, 0, 0, 0, 0, 1}, {2, 0, 0, 0, 0, 2}, {2, 0, 0, 0, 0, 3}}
		if v6 {
			os.WriteFile(leases, []byte("02:00:00:00:00:01 2001:db8::10:1\n# c\n02:00:00:00:00:02 2001:db8::10:2\n"), 0o644)
			pool = []pl{{"server_id", []string{"LL", "00:de:ad:be:ef:00"}}, {"prefix", []string{"2001:db8:f000::/60", "62"}}, {"file", []string{leases}},
				{"dns", []string{"2001:db8::53", "2001:db8::54"}}, {"searchdomains", []string{"example.com", "sub.example.org"}},
				{"nbp", []string{"http://[2001:db8::1]/boot.ipxe?params=a%20b"}}, {"sleep", []string{"1ms"}}}
		} else {
			os.WriteFile(leases, []byte("02:00:00:00:00:01 10.9.0.1\n02:00:00:00:00:02 10.9.0.2\n"), 0o644)
			pool = []pl{{"server_id", []string{"10.0.0.1"}}, {"range", []string{filepath.Join(sub, "leases.sqlite3"), "10.0.0.10", "10.0.0.13", "60s"}}, {"file", []string{leases}},
				{"dns", []string{"8.8.8.8", "1.1.1.1"}}, {"router", []string{"10.0.0.1"}}, {"netmask", []string{"255.255.255.0"}}, {"mtu", []string{"1500"}},
				{"lease_time", []string{"3600s"}}, {"searchdomains", []string{"example.com"}}, {"staticroute", []string{"10.20.0.0/16,10.0.0.254"}},
				{"ipv6only", []string{"300s"}}, {"autoconfigure", []string{"DoNotAutoConfigure"}}, {"nbp", []string{"tftp://10.0.0.5/pxelinux.0"}}, {"sleep", []string{"1ms"}}}
		}
		// any order, any subset
		c.rng.Shuffle(len(pool), func(a, b int) { pool[a], pool[b] = pool[b], pool[a] })
		k := c.rng.Intn(len(pool) + 1)
		chain := pool[:k]
		proto := "4"
		if v6 {
			proto = "6"
		}
		op := fmt.Sprintf("ccfg %s %d", proto, len(chain))
		for _, p := range chain {
			op += fmt.Sprintf(" %s %d", p.name, len(p.args))
			for _, a := range p.args {
				op += " " + hx([]byte(a))
			}
		}
		group := []string{op}
		ndg := 10 + c.rng.Intn(30)
		for i := 0; i < ndg; i++ {
			bound := []int{0, 3}[c.rng.Intn(2)]
			oob := []int{4, 5}[c.rng.Intn(2)]
			if v6 {
				m, _ := dhcpv6.NewMessage()
				m.MessageType = []dhcpv6.MessageType{dhcpv6.MessageTypeSolicit, dhcpv6.MessageTypeSolicit, dhcpv6.MessageTypeRequest, dhcpv6.MessageTypeRenew, dhcpv6.MessageTypeRebind,
					dhcpv6.MessageTypeInformationRequest, dhcpv6.MessageTypeRelease, dhcpv6.MessageTypeConfirm, dhcpv6.MessageTypeDecline, dhcpv6.MessageType(c.rng.Intn(256))}[c.rng.Intn(10)]
				mac := macs[c.rng.Intn(len(macs))]
				if c.rng.Intn(8) != 0 {
					m.AddOption(dhcpv6.OptClientID(&dhcpv6.DUIDLL{HWType: iana.HWTypeEthernet, LinkLayerAddr: mac}))
				}
				if c.rng.Intn(3) == 0 {
					m.AddOption(dhcpv6.OptServerID(&dhcpv6.DUIDLL{HWType: iana.HWTypeEthernet, LinkLayerAddr: net.HardwareAddr{0, 0xde, 0xad, 0xbe, 0xef, byte(c.rng.Intn(2))}}))
				}
				if c.rng.Intn(2) == 0 {
					m.AddOption(dhcpv6.OptRequestedOption(dhcpv6.OptionDNSRecursiveNameServer, dhcpv6.OptionDomainSearchList, dhcpv6.OptionBootfileURL, dhcpv6.OptionBootfileParam))
				}
				if c.rng.Intn(2) == 0 {
					m.AddOption(&dhcpv6.OptIANA{IaId: [4]byte{1, 2, 3, byte(i)}})
				}
				for a := c.rng.Intn(3); a > 0; a-- {
					body := []byte{0, 0, 0, byte(a), 0, 0, 0, 0, 0, 0, 0, 0}
					for hn := c.rng.Intn(3); hn > 0; hn-- {
						ob := rawIAPrefix(net.ParseIP("2001:db8:f000::").To16(), []int{0, 62, 64, 200, 1}[c.rng.Intn(5)])
						ob[9+7] = byte(c.rng.Intn(16) << 2)
						body = append(body, 0, byte(dhcpv6.OptionIAPrefix), 0, byte(len(ob)))
						body = append(body, ob...)
					}
					m.AddOption(&dhcpv6.OptionGeneric{OptionCode: dhcpv6.OptionIAPD, OptionData: body})
				}
				var d dhcpv6.DHCPv6 = m
				for r := c.rng.Intn(3); r > 1; r-- {
					rr, err := dhcpv6.EncapsulateRelay(d, dhcpv6.MessageTypeRelayForward, net.ParseIP("2001:db8::1"), net.ParseIP("fe80::1"))
					if err != nil {
						break
					}
					d = rr
				}
				src := net.ParseIP("fe80::99")
				if c.rng.Intn(2) == 0 {
					src = net.ParseIP("2001:db8::99")
				}
				group = append(group, fmt.Sprintf("cdg6 %d %d %s %s", bound, oob, hx(src), hx(c.mutate(d.ToBytes()))))
			} else {
				mt := dhcpv4.MessageTypeDiscover
				if c.rng.Intn(3) == 0 {
					mt = dhcpv4.MessageTypeRequest
				}
				if c.rng.Intn(10) == 0 {
					mt = dhcpv4.MessageType(c.rng.Intn(12))
				}
				mac := macs[c.rng.Intn(len(macs))]
				if c.rng.Intn(3) == 0 {
					mac = make([]byte, []int{0, 1, 5, 6, 6, 8, 16}[c.rng.Intn(7)])
					c.rng.Read(mac)
				}
				d, _ := dhcpv4.New(dhcpv4.WithMessageType(mt), dhcpv4.WithHwAddr(net.HardwareAddr(mac)))
				if c.rng.Intn(3) != 0 {
					d.UpdateOption(dhcpv4.OptParameterRequestList(relevant4[:c.rng.Intn(len(relevant4))]...))
				}
				if c.rng.Intn(4) == 0 {
					d.UpdateOption(dhcpv4.OptAutoConfigure(dhcpv4.AutoConfigure))
				}
				if c.rng.Intn(4) == 0 {
					d.UpdateOption(dhcpv4.OptServerIdentifier(net.IPv4(10, 0, 0, byte(1+c.rng.Intn(2)))))
				}
				if c.rng.Intn(4) == 0 {
					d.GatewayIPAddr = net.IPv4(10, 1, 1, 1).To4()
				}
				if c.rng.Intn(4) == 0 {
					d.SetBroadcast()
				}
				if c.rng.Intn(5) == 0 {
					d.UpdateOption(dhcpv4.OptHostName(strings.Repeat("h", c.rng.Intn(40))))
				}
				group = append(group, fmt.Sprintf("cdg4 %d %d %s", bound, oob, hx(c.mutate(d.ToBytes()))))
			}
		}
		runChainGroup(c, group)
	}
}
