module verifharness

go 1.22.0

require (
	github.com/bits-and-blooms/bitset v1.22.0
	github.com/coredhcp/coredhcp v0.0.0
	github.com/google/gopacket v1.1.19
	github.com/insomniacslk/dhcp v0.0.0-20241203100832-a481575ed0ef
	github.com/sirupsen/logrus v1.9.3
	github.com/spf13/cast v1.7.1
	github.com/spf13/viper v1.20.0
)

require (
	github.com/chappjc/logrus-prefix v0.0.0-20180227015900-3a1d64819adb // indirect
	github.com/fsnotify/fsnotify v1.8.0 // indirect
	github.com/go-viper/mapstructure/v2 v2.2.1 // indirect
	github.com/mattn/go-colorable v0.1.13 // indirect
	github.com/mattn/go-isatty v0.0.20 // indirect
	github.com/mattn/go-sqlite3 v1.14.24 // indirect
	github.com/mgutz/ansi v0.0.0-20200706080929-d51e80ef957d // indirect
	github.com/pelletier/go-toml/v2 v2.2.3 // indirect
	github.com/pierrec/lz4/v4 v4.1.22 // indirect
	github.com/rifflock/lfshook v0.0.0-20180920164130-b9218ef580f5 // indirect
	github.com/sagikazarmark/locafero v0.7.0 // indirect
	github.com/sourcegraph/conc v0.3.0 // indirect
	github.com/spf13/afero v1.12.0 // indirect
	github.com/spf13/pflag v1.0.6 // indirect
	github.com/subosito/gotenv v1.6.0 // indirect
	github.com/u-root/uio v0.0.0-20240224005618-d2acac8f3701 // indirect
	golang.org/x/crypto v0.32.0 // indirect
	golang.org/x/net v0.34.0 // indirect
	golang.org/x/sys v0.29.0 // indirect
	golang.org/x/term v0.28.0 // indirect
	golang.org/x/text v0.21.0 // indirect
	gopkg.in/yaml.v3 v3.0.1 // indirect
)

replace github.com/coredhcp/coredhcp => /repo
