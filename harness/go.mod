module verifharness

go 1.22.0

require github.com/coredhcp/coredhcp v0.0.0

require (
	github.com/bits-and-blooms/bitset v1.22.0 // indirect
	github.com/chappjc/logrus-prefix v0.0.0-20180227015900-3a1d64819adb // indirect
	github.com/mattn/go-colorable v0.1.13 // indirect
	github.com/mattn/go-isatty v0.0.20 // indirect
	github.com/mgutz/ansi v0.0.0-20200706080929-d51e80ef957d // indirect
	github.com/rifflock/lfshook v0.0.0-20180920164130-b9218ef580f5 // indirect
	github.com/sirupsen/logrus v1.9.3 // indirect
	golang.org/x/crypto v0.32.0 // indirect
	golang.org/x/sys v0.29.0 // indirect
	golang.org/x/term v0.28.0 // indirect
)

replace github.com/coredhcp/coredhcp => /repo
