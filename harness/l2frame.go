package main

// Engine "l2frame": the frame `sendEthernet` (server/sendEthernet.go) puts on the wire for a reply that is unicast at
// link level — the one destination clause of C15 the capture hook cannot see. The real function is run (hook
// VerifSendEthernet) on the loopback interface, presented with a hardware address (lo has none and gopacket refuses to
// build a frame without one); the frame is read back from a packet socket on lo.
//
//   l2f <ifmac> <reply datagram>   => args <ifindex> <ifmac> <chaddr> <siaddr> <yiaddr> <wire> ; frame <dstmac> <srcmac> <ethertype> <ipver> <ttl> <df> <proto> <srcip> <dstip> <sport> <dport> <payload> | none <error> | unparsable

import (
	"bytes"
	"encoding/binary"
	"fmt"
	"net"
	"strings"
	"syscall"
	"time"

	"github.com/coredhcp/coredhcp/server"
	"github.com/insomniacslk/dhcp/dhcpv4"
)

func init() {
	engines["l2frame"] = &engine{gen: genL2Frame, replay: replayL2Frame}
}

var l2sniff = -1

func l2open() (int, *net.Interface, string) {
	lo, err := net.InterfaceByName("lo")
	if err != nil {
		return -1, nil, "no-loopback-interface"
	}
	if l2sniff >= 0 {
		return l2sniff, lo, ""
	}
	htons := func(v uint16) uint16 { return v<<8 | v>>8 }
	fd, err := syscall.Socket(syscall.AF_PACKET, syscall.SOCK_RAW, int(htons(syscall.ETH_P_ALL)))
	if err != nil {
		return -1, nil, "no-packet-socket"
	}
	if err := syscall.Bind(fd, &syscall.SockaddrLinklayer{Protocol: htons(syscall.ETH_P_ALL), Ifindex: lo.Index}); err != nil {
		syscall.Close(fd)
		return -1, nil, "no-packet-socket"
	}
	syscall.SetsockoptTimeval(fd, syscall.SOL_SOCKET, syscall.SO_RCVTIMEO, &syscall.Timeval{Usec: 20000})
	l2sniff = fd
	return fd, lo, ""
}

func l2FrameOp(c *ctx, f []string) {
	op := strings.Join(f, " ")
	fd, lo, why := l2open()
	if why != "" {
		c.emit(op, "skip "+why)
		return
	}
	resp, err := dhcpv4.FromBytes(unhx(f[2]))
	if err != nil {
		c.emit(op, "unparsable")
		return
	}
	iface := *lo
	iface.HardwareAddr = net.HardwareAddr(unhx(f[1]))
	wire := resp.ToBytes()
	args := fmt.Sprintf("args %d %s %s %s %s %s", iface.Index, hx(iface.HardwareAddr), hx(resp.ClientHWAddr), hx(resp.ServerIPAddr.To4()), hx(resp.YourIPAddr.To4()), hx(wire))
	// drain what is pending
	buf := make([]byte, 70000)
	for {
		if _, _, err := syscall.Recvfrom(fd, buf, syscall.MSG_DONTWAIT); err != nil {
			break
		}
	}
	res := watchdog(5*time.Second, func() string {
		return guard(func() string {
			if err := server.VerifSendEthernet(iface, resp); err != nil {
				return "none " + hx([]byte(err.Error()))
			}
			deadline := time.Now().Add(2 * time.Second)
			for time.Now().Before(deadline) {
				n, _, err := syscall.Recvfrom(fd, buf, 0)
				if err != nil || n < 14+20+8 {
					continue
				}
				b := buf[:n]
				ihl := int(b[14]&0x0f) * 4
				if n < 14+ihl+8 {
					continue
				}
				payload := b[14+ihl+8:]
				// ours: the transaction id of the reply (a frame on lo is seen by the sniffer once or twice)
				if len(payload) < 8 || !bytes.Equal(payload[4:8], resp.TransactionID[:]) {
					continue
				}
				udp := b[14+ihl:]
				return fmt.Sprintf("frame %s %s %04x %d %d %d %d %s %s %d %d %s", hx(b[0:6]), hx(b[6:12]), binary.BigEndian.Uint16(b[12:14]),
					b[14]>>4, b[14+8], b2i(b[14+6]&0x40 != 0), b[14+9], hx(b[14+12:14+16]), hx(b[14+16:14+20]),
					binary.BigEndian.Uint16(udp[0:2]), binary.BigEndian.Uint16(udp[2:4]), hx(payload))
			}
			return "lost"
		})
	})
	c.emit(op, args+" ; "+res)
}

// l2after: a link-level send that FAILS (an interface index that does not exist), then a plain DISCOVER - no relay, no
// ciaddr, broadcast flag clear - through HandleMsg4: one failed send may not change where later replies go (C15: such a
// reply is unicast at link level to the client's hardware address and the offered address, port 68).
//
//	l2after => <error of the send|sent> ; <peer ip> <port> <l2 flag> | drop
func l2AfterOp(c *ctx) {
	op := "l2after"
	lo, err := net.InterfaceByName("lo")
	if err != nil {
		c.emit(op, "skip no-loopback-interface")
		return
	}
	res := watchdog(5*time.Second, func() string {
		return guard(func() string {
			bad := *lo
			bad.Index = 0x7fff0000 + c.rng.Intn(1000)
			bad.HardwareAddr = net.HardwareAddr{2, 0, 0x5e, 0x10, 0, 1}
			r, _ := dhcpv4.New(dhcpv4.WithHwAddr(net.HardwareAddr{2, 0, 0, 0, 3, 1}))
			r.OpCode = dhcpv4.OpcodeBootReply
			r.UpdateOption(dhcpv4.OptMessageType(dhcpv4.MessageTypeOffer))
			r.YourIPAddr = net.IPv4(192, 0, 2, 9).To4()
			first := "sent"
			if err := server.VerifSendEthernet(bad, r); err != nil {
				first = "failed"
			}
			d, _ := dhcpv4.NewDiscovery(net.HardwareAddr{2, 0, 0, 0, 3, 2})
			d.Flags = 0
			caps := handleOn4(nil, 3, d.ToBytes(), 0, &net.UDPAddr{IP: net.IPv4zero.To4(), Port: 68})
			if len(caps) != 1 {
				return fmt.Sprintf("%s ; drop%d", first, len(caps))
			}
			return fmt.Sprintf("%s ; %s %d %d", first, hx(caps[0].Peer.IP.To4()), caps[0].Peer.Port, b2i(caps[0].L2))
		})
	})
	c.emit(op, res)
}

func replayL2Frame(c *ctx, ops []string) {
	for _, op := range ops {
		if op == "l2after" {
			l2AfterOp(c)
			continue
		}
		l2FrameOp(c, strings.Fields(op))
	}
}

func genL2Frame(c *ctx) {
	for c.count < c.n {
		if c.count%97 == 5 {
			l2AfterOp(c)
			continue
		}
		// a reply as HandleMsg4 would hand it over: OFFER or ACK, any chaddr length, yiaddr zero / a host / a boundary value, siaddr set or not
		hl := []int{6, 6, 6, 6, 6, 6, 6, 6, 6, 6, 6, 6, 0, 1, 5, 7, 8, 16}[c.rng.Intn(18)]
		ch := make([]byte, hl)
		c.rng.Read(ch)
		d, err := dhcpv4.New(dhcpv4.WithHwAddr(net.HardwareAddr(ch)))
		if err != nil {
			continue
		}
		d.OpCode = dhcpv4.OpcodeBootReply
		d.UpdateOption(dhcpv4.OptMessageType([]dhcpv4.MessageType{dhcpv4.MessageTypeOffer, dhcpv4.MessageTypeAck}[c.rng.Intn(2)]))
		d.YourIPAddr = []net.IP{net.IPv4zero.To4(), net.IPv4(192, 0, 2, byte(c.rng.Intn(256))).To4(), net.IPv4(10, 255, 255, 255).To4(), net.IPv4(169, 254, 1, 2).To4(), net.IPv4bcast.To4(), net.IPv4(224, 0, 0, 1).To4()}[c.rng.Intn(6)]
		if c.rng.Intn(2) == 0 {
			d.ServerIPAddr = net.IPv4(10, 0, 0, byte(1+c.rng.Intn(3))).To4()
			d.UpdateOption(dhcpv4.OptServerIdentifier(d.ServerIPAddr))
		}
		if c.rng.Intn(3) == 0 {
			d.UpdateOption(dhcpv4.OptDNS(net.IPv4(8, 8, 8, 8)))
		}
		if c.rng.Intn(4) == 0 {
			d.UpdateOption(dhcpv4.OptGeneric(dhcpv4.GenericOptionCode(250), make([]byte, c.rng.Intn(700))))
		}
		mac := []string{"02005e100001", "02005e100001", "02005e100001", "02005e100001", "0a0b0c0d0e0f", "000000000000", "000000000000", "", "0200", "02005e10000102"}[c.rng.Intn(10)]
		if mac == "" {
			mac = "-"
		}
		l2FrameOp(c, []string{"l2f", mac, hx(d.ToBytes())})
	}
}
