package main

// Listeners that live across datagrams. The real server runs HandleMsg4/6 of ONE listener object for
// every datagram of a socket; VerifHandle4/6 build a fresh listener per call, which cannot show state a
// listener keeps from one datagram to the next (an unbound listener that "learns" the interface of its
// first reply). The sequential engines go through these; the concurrent ones keep a listener per call
// (the capture slot is per listener).

import (
	"net"

	"github.com/coredhcp/coredhcp/handler"
	"github.com/coredhcp/coredhcp/server"
)

var lis4 = map[int]*server.VerifListener4{}
var lis6 = map[int]*server.VerifListener6{}

func handleOn4(hs []handler.Handler4, bound int, dg []byte, oob int, peer net.Addr) []server.Captured4 {
	l, ok := lis4[bound]
	if !ok {
		l = server.VerifNewListener4(bound)
		lis4[bound] = l
	}
	return l.Handle(hs, dg, oob, peer)
}

func handleOn6(hs []handler.Handler6, bound int, dg []byte, oob int, peer *net.UDPAddr) []server.Captured6 {
	l, ok := lis6[bound]
	if !ok {
		l = server.VerifNewListener6(bound)
		lis6[bound] = l
	}
	return l.Handle(hs, dg, oob, peer)
}

// a history starts on fresh listeners
func resetListeners() {
	for k, l := range lis4 {
		l.Close()
		delete(lis4, k)
	}
	for k, l := range lis6 {
		l.Close()
		delete(lis6, k)
	}
}
