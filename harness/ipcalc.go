package main

import (
	"errors"
	"fmt"
	"math/big"
	"net"
	"strings"

	"github.com/coredhcp/coredhcp/plugins/allocators"
)

func init() {
	engines["ipcalc"] = &engine{gen: genIPCalc, replay: replayIPCalc}
}

var two128 = new(big.Int).Lsh(big.NewInt(1), 128)

func bigToIP(v *big.Int) net.IP {
	m := new(big.Int).Mod(v, two128)
	b := m.Bytes()
	ip := make(net.IP, 16)
	copy(ip[16-len(b):], b)
	return ip
}

// interesting 64-bit patterns (carry / borrow across the halves)
func (c *ctx) pat64() uint64 {
	switch c.rng.Intn(10) {
	case 0:
		return 0
	case 1:
		return ^uint64(0)
	case 2:
		return 1
	case 3:
		return ^uint64(0) - 1
	case 4:
		return 1 << uint(c.rng.Intn(64))
	case 5:
		return (1 << uint(c.rng.Intn(64))) - 1
	case 6:
		return uint64(c.rng.Intn(4))
	case 7:
		return 0x20010db800000000 | uint64(c.rng.Intn(1<<16))
	default:
		return c.rng.Uint64()
	}
}

func (c *ctx) pat128() *big.Int {
	hi, lo := c.pat64(), c.pat64()
	v := new(big.Int).SetUint64(hi)
	v.Lsh(v, 64)
	return v.Or(v, new(big.Int).SetUint64(lo))
}

func (c *ctx) plen() int {
	switch c.rng.Intn(4) {
	case 0:
		return []int{0, 1, 8, 48, 56, 63, 64, 65, 72, 96, 120, 127, 128}[c.rng.Intn(13)]
	default:
		return c.rng.Intn(129)
	}
}

func execOffset(a, b net.IP, p int) string {
	return guard(func() string {
		v, err := allocators.Offset(a, b, p)
		if err == nil {
			return fmt.Sprintf("ok %d", v)
		}
		if errors.Is(err, allocators.ErrOverflow) {
			return "err overflow"
		}
		if strings.Contains(err.Error(), "prefix out of range") {
			return "err range"
		}
		return "err other"
	})
}

func execAddPfx(ip net.IP, n, unit uint64) string {
	return guard(func() string {
		cp := append(net.IP(nil), ip...)
		v, err := allocators.AddPrefixes(cp, n, unit)
		if err == nil {
			return "ok " + hx(v)
		}
		if errors.Is(err, allocators.ErrOverflow) {
			return "err overflow"
		}
		if strings.Contains(err.Error(), "128-bit") {
			return "err need128"
		}
		return "err other"
	})
}

func (c *ctx) opOffset(a, b net.IP, p int) {
	c.emit(fmt.Sprintf("offset %s %s %d", hx(a), hx(b), p), execOffset(a, b, p))
}
func (c *ctx) opAddPfx(ip net.IP, n, unit uint64) {
	c.emit(fmt.Sprintf("addpfx %s %d %d", hx(ip), n, unit), execAddPfx(ip, n, unit))
}

func genIPCalc(c *ctx) {
	// corpus first: the D1 witness and the boundary rows
	base := net.ParseIP("2001:db8::")
	c.opAddPfx(base, 256, 8)
	c.opAddPfx(base, 3, 1)
	c.opAddPfx(base, 1, 0)
	c.opAddPfx(base, 0, 0)
	c.opAddPfx(net.ParseIP("ffff:ffff:ffff:ffff:ffff:ffff:ffff:ffff"), 1, 128)
	c.opAddPfx(net.ParseIP("ffff:ffff:ffff:ffff::"), 1, 64)
	c.opOffset(net.ParseIP("ffff:ffff:ffff:ffff:ffff:ffff:ffff:ffff"), net.ParseIP("::"), 128)
	c.opOffset(net.ParseIP("::1:0:0:0:0"), net.ParseIP("::"), 128)
	c.opOffset(net.ParseIP("::ffff:ffff:ffff:ffff"), net.ParseIP("::"), 128)
	for c.count < c.n {
		p := c.plen()
		k := uint(128 - p)
		switch c.rng.Intn(10) {
		case 0, 1, 2, 3: // offset, in domain: base aligned to /p, x >= base
			b := c.pat128()
			b.Rsh(b, k).Lsh(b, k)
			var d *big.Int
			switch c.rng.Intn(6) {
			case 0:
				d = big.NewInt(int64(c.rng.Intn(3)))
			case 1: // a whole number of blocks, near 2^64 of them
				nb := new(big.Int).SetUint64(c.pat64())
				if c.rng.Intn(3) == 0 {
					nb.Add(nb, big.NewInt(int64(c.rng.Intn(3))))
				}
				d = nb.Lsh(nb, k)
				if c.rng.Intn(2) == 0 {
					d.Add(d, new(big.Int).Rand(c.rng, new(big.Int).Lsh(big.NewInt(1), k)))
				}
			case 2: // up to the end of the address space
				d = new(big.Int).Sub(two128, b)
				d.Sub(d, big.NewInt(int64(1+c.rng.Intn(2))))
			default:
				d = c.pat128()
			}
			x := new(big.Int).Add(b, d)
			if x.Cmp(two128) >= 0 {
				x.Sub(two128, big.NewInt(1))
			}
			if c.rng.Intn(2) == 0 {
				c.opOffset(bigToIP(x), bigToIP(b), p)
			} else {
				c.opOffset(bigToIP(b), bigToIP(x), p)
			}
		case 4: // offset, arbitrary operands (outside the theorem's domain when the base is unaligned)
			c.opOffset(bigToIP(c.pat128()), bigToIP(c.pat128()), p)
		case 5: // prefix length out of range
			c.opOffset(bigToIP(c.pat128()), bigToIP(c.pat128()), []int{-1, 129, 200, -128}[c.rng.Intn(4)])
		default: // addPrefixes
			b := c.pat128()
			if c.rng.Intn(4) != 0 {
				b.Rsh(b, k).Lsh(b, k)
			}
			var n uint64
			switch c.rng.Intn(6) {
			case 0:
				n = uint64(c.rng.Intn(4))
			case 1:
				if p < 64 {
					n = (uint64(1) << uint(p)) - uint64(c.rng.Intn(2)) + uint64(c.rng.Intn(2))
				} else {
					n = c.pat64()
				}
			case 2: // just enough to reach the end of the space
				room := new(big.Int).Sub(two128, b)
				room.Rsh(room, k)
				if room.IsUint64() {
					n = room.Uint64() - uint64(c.rng.Intn(2)) + uint64(c.rng.Intn(2))
				} else {
					n = c.pat64()
				}
			default:
				n = c.pat64()
			}
			unit := uint64(p)
			if c.rng.Intn(25) == 0 {
				unit = []uint64{129, 200, 1 << 40, ^uint64(0)}[c.rng.Intn(4)]
			}
			c.opAddPfx(bigToIP(b), n, unit)
		}
	}
}

func replayIPCalc(c *ctx, ops []string) {
	for _, l := range ops {
		f := strings.Fields(l)
		switch f[0] {
		case "offset":
			c.opOffset(unhx(f[1]), unhx(f[2]), atoi(f[3]))
		case "addpfx":
			c.opAddPfx(unhx(f[1]), atou(f[2]), atou(f[3]))
		}
	}
}
