// Conformance harness: generates operation sequences from one seeded PRNG, runs them on the
// real coredhcp code (built from /repo's working tree, -tags verif) and prints one trace line
// per operation:  <op tokens> => <result tokens>
// With -replay FILE the operations are read from FILE (text before " => ") instead of generated.
package main

import (
	"bufio"
	"flag"
	"fmt"
	"io"
	"math/rand"
	"os"
	"strings"

	"github.com/coredhcp/coredhcp/logger"
	"github.com/sirupsen/logrus"
)

type engine struct {
	gen    func(c *ctx)                  // generate + execute
	replay func(c *ctx, ops []string)    // execute given ops
}

type ctx struct {
	rng   *rand.Rand
	n     int
	tier  string
	out   *bufio.Writer
	count int
	sidCell int // pluggen: which server-address x server-identifier combination req4 builds (-1 = random)
}

func (c *ctx) emit(op, res string) {
	fmt.Fprintf(c.out, "%s => %s\n", op, res)
	c.count++
	if flushMode {
		c.out.Flush()
	}
}

// flushMode (VERIF_FLUSH=1): every line is flushed and pre() announces an operation before it runs,
// so that after a crash of the process (e.g. out of memory inside the code under test) the trace
// shows the history and the operation that killed it.
var flushMode = os.Getenv("VERIF_FLUSH") == "1"

func (c *ctx) pre(op string) {
	if flushMode {
		fmt.Fprintf(c.out, "#> %s\n", op)
		c.out.Flush()
	}
}

// batch announces that the next k trace lines are the outcomes of k operations issued concurrently:
// the driver searches a one-at-a-time order that explains them
func (c *ctx) batch(k int) { fmt.Fprintf(c.out, "batch %d\n", k) }

// comment lines are ignored by the driver and by replay
func (c *ctx) note(s string) { fmt.Fprintf(c.out, "# %s\n", s) }

var engines = map[string]*engine{}

func main() {
	if len(os.Args) < 2 {
		fmt.Fprintln(os.Stderr, "usage: harness <engine> [-seed S] [-n N] [-tier quick|thorough] [-replay FILE]")
		os.Exit(2)
	}
	name := os.Args[1]
	if name == "plugworker" {
		lgw := logger.GetLogger("harness")
		lgw.Logger.SetOutput(io.Discard)
		lgw.Logger.SetLevel(logrus.PanicLevel)
		runPlugWorker()
		return
	}
	if name == "chainworker" {
		lgw := logger.GetLogger("harness")
		lgw.Logger.SetOutput(io.Discard)
		lgw.Logger.SetLevel(logrus.PanicLevel)
		runChainWorker()
		return
	}
	if name == "sysworker" {
		lgw := logger.GetLogger("harness")
		lgw.Logger.SetOutput(io.Discard)
		lgw.Logger.SetLevel(logrus.PanicLevel)
		runSysWorker()
		return
	}
	if name == "gen" {
		// regenerate Lean from Go source (translator, gen.go); exits 2 on anything it does not understand
		runGen(os.Args[2:])
		return
	}
	if name == "facts" {
		runFacts(os.Args[2:])
		return
	}
	fs := flag.NewFlagSet(name, flag.ExitOnError)
	seed := fs.Int64("seed", 1, "PRNG seed")
	n := fs.Int("n", 1000, "number of operations")
	tier := fs.String("tier", "quick", "quick|thorough")
	replay := fs.String("replay", "", "ops file to replay")
	fs.Parse(os.Args[2:])
	e, ok := engines[name]
	if !ok {
		fmt.Fprintln(os.Stderr, "unknown engine", name)
		os.Exit(2)
	}
	// the server's log output is not part of the trace
	lg := logger.GetLogger("harness")
	if os.Getenv("VERIF_LOG") == "" { // VERIF_LOG=1: a developer wants to read it
		lg.Logger.SetOutput(io.Discard)
		lg.Logger.SetLevel(logrus.PanicLevel)
	}
	w := bufio.NewWriterSize(os.Stdout, 1<<16)
	defer w.Flush()
	c := &ctx{rng: rand.New(rand.NewSource(*seed)), n: *n, tier: *tier, out: w}
	if *replay != "" {
		f, err := os.Open(*replay)
		if err != nil {
			fmt.Fprintln(os.Stderr, err)
			os.Exit(2)
		}
		var ops []string
		sc := bufio.NewScanner(f)
		sc.Buffer(make([]byte, 1<<20), 1<<26)
		for sc.Scan() {
			l := sc.Text()
			if strings.HasPrefix(l, "#") || strings.HasPrefix(l, "batch ") || strings.TrimSpace(l) == "" {
				continue
			}
			if i := strings.Index(l, " => "); i >= 0 {
				l = l[:i]
			}
			ops = append(ops, l)
		}
		e.replay(c, ops)
		return
	}
	e.gen(c)
}
