package main

import (
	"encoding/binary"
	"bytes"
	"fmt"
	"math/big"
	"net"
	"strconv"
	"strings"
	"time"

	"github.com/coredhcp/coredhcp/handler"
	"github.com/coredhcp/coredhcp/plugins/prefix"
	"github.com/insomniacslk/dhcp/dhcpv6"
	"github.com/insomniacslk/dhcp/iana"
)

func init() {
	engines["prefix"] = &engine{gen: genPrefix, replay: replayPrefix}
}

type prefixState struct {
	h handler.Handler6
}

// rawIAPrefix builds the bytes of an IAPrefix option body with an arbitrary prefix-length byte
func rawIAPrefix(ip net.IP, plen int) []byte {
	b := make([]byte, 25)
	b[8] = byte(plen)
	copy(b[9:], ip.To16())
	// the lifetimes a client may suggest in its hint (RFC 8415 18.2.1): zero, sensible, or preferred above valid. What the
	// server answers does not depend on them (round 9). Chosen from the hint itself, so that a history replays as it was.
	switch (int(b[24]) + int(b[23]) + plen) % 4 {
	case 0:
		binary.BigEndian.PutUint32(b[0:4], 1800)
		binary.BigEndian.PutUint32(b[4:8], 600)
	case 1:
		binary.BigEndian.PutUint32(b[0:4], 600)
		binary.BigEndian.PutUint32(b[4:8], 1200)
	}
	return b
}

// buildMsg6 builds (through the wire) a SOLICIT with the given client id and IA_PDs.
// spec tokens: <client|-> <relayDepth> <k> { iapd <iaid> <h> { hint e | hint p <ip> <len> } }
func buildMsg6(f []string) (dhcpv6.DHCPv6, error) {
	msg, err := dhcpv6.NewMessage()
	if err != nil {
		return nil, err
	}
	msg.MessageType = dhcpv6.MessageTypeSolicit
	if f[0] != "-" {
		msg.AddOption(&dhcpv6.OptionGeneric{OptionCode: dhcpv6.OptionClientID, OptionData: unhx(f[0])})
	}
	depth := atoi(f[1])
	k := atoi(f[2])
	i := 3
	for n := 0; n < k; n++ {
		// f[i] == "iapd"
		iaid := unhx(f[i+1])
		nh := atoi(f[i+2])
		i += 3
		var body []byte
		body = append(body, iaid...)
		body = append(body, 0, 0, 0, 0, 0, 0, 0, 0) // T1, T2
		for j := 0; j < nh; j++ {
			// hint e : IAPrefix of length 0 ; hint p ip len
			var ob []byte
			if f[i+1] == "e" {
				ob = rawIAPrefix(net.IPv6zero, 0)
				i += 2
			} else {
				ob = rawIAPrefix(net.IP(unhx(f[i+2])), atoi(f[i+3]))
				i += 4
			}
			body = append(body, 0, byte(dhcpv6.OptionIAPrefix), 0, byte(len(ob)))
			body = append(body, ob...)
		}
		msg.AddOption(&dhcpv6.OptionGeneric{OptionCode: dhcpv6.OptionIAPD, OptionData: body})
	}
	var d dhcpv6.DHCPv6 = msg
	for r := 0; r < depth; r++ {
		d, err = dhcpv6.EncapsulateRelay(d, dhcpv6.MessageTypeRelayForward, net.ParseIP("2001:db8:ffff::1"), net.ParseIP("fe80::1"))
		if err != nil {
			return nil, err
		}
	}
	return dhcpv6.FromBytes(d.ToBytes())
}

// wireRT6: does the reply survive the wire? Serialised, parsed back and serialised again it must give the same bytes, and
// the IA_PDs read back must be the ones that were built, lifetimes to the second (the wire carries whole seconds)
func wireRT6(out dhcpv6.DHCPv6) string {
	return guard(func() string {
		wire := out.ToBytes()
		back, err := dhcpv6.FromBytes(wire)
		if err != nil {
			return "rt-unparsable"
		}
		if !bytes.Equal(back.ToBytes(), wire) {
			return "rt-differs"
		}
		secs := func(x dhcpv6.DHCPv6) string {
			m, ok := x.(*dhcpv6.Message)
			if !ok {
				return "other"
			}
			var sb strings.Builder
			for _, ia := range m.Options.IAPD() {
				fmt.Fprintf(&sb, "|%x", ia.IaId)
				for _, p := range ia.Options.Prefixes() {
					fmt.Fprintf(&sb, " %v %d %d", p.Prefix, int64(p.PreferredLifetime.Round(time.Second)/time.Second), int64(p.ValidLifetime.Round(time.Second)/time.Second))
				}
			}
			return sb.String()
		}
		if secs(back) != secs(out) {
			return "rt-differs"
		}
		return "rt-ok"
	})
}

func fmtPrefixResp(resp dhcpv6.DHCPv6) string {
	if resp == nil {
		return "drop"
	}
	m, ok := resp.(*dhcpv6.Message)
	if !ok {
		return "other"
	}
	iapds := m.Options.IAPD()
	var sb strings.Builder
	fmt.Fprintf(&sb, "reply %d", len(iapds))
	for _, ia := range iapds {
		pf := ia.Options.Prefixes()
		fmt.Fprintf(&sb, " iapd %s %d", hx(ia.IaId[:]), len(pf))
		for _, p := range pf {
			ones, bits := -1, -1
			var ip net.IP
			if p.Prefix != nil {
				ones, bits = p.Prefix.Mask.Size()
				ip = p.Prefix.IP
			}
			fmt.Fprintf(&sb, " %s %d %d %d %d", hx(ip), ones, bits, int64(p.PreferredLifetime), int64(p.ValidLifetime))
		}
		st := ia.Options.Status()
		if st != nil {
			fmt.Fprintf(&sb, " status %d", st.StatusCode)
		} else {
			sb.WriteString(" status -")
		}
	}
	return sb.String()
}

func (s *prefixState) exec(c *ctx, op string) string {
	c.pre(op)
	f := strings.Fields(op)
	switch f[0] {
	case "psetup":
		poolArg, sizeArg := string(unhx(f[1])), string(unhx(f[2]))
		// oracle answers of the stdlib parsers
		oracle := "cidr:err"
		if _, n, err := net.ParseCIDR(poolArg); err == nil {
			ones, bits := n.Mask.Size()
			oracle = fmt.Sprintf("cidr:%s/%d/%d", hx(n.IP), ones, bits)
		}
		if v, err := strconv.Atoi(sizeArg); err == nil {
			oracle += fmt.Sprintf(" atoi:%d", v)
		} else {
			oracle += " atoi:err"
		}
		res := guard(func() string {
			h, err := prefix.Plugin.Setup6(poolArg, sizeArg)
			if err != nil || h == nil {
				s.h = nil
				return "err"
			}
			s.h = h
			return "ok"
		})
		c.emit(fmt.Sprintf("psetup %s %s", f[1], f[2]), oracle+" "+res)
		return res
	case "page": // page <seconds>: every lease recorded so far becomes that much older
		d := time.Duration(atoi(f[1])) * time.Second
		prefix.VerifAgeLeases(d)
		aged += d
		c.emit(op, "ok")
		return "ok"
	case "prace": // prace <k> <rounds>: again and again, k copies of a new client's first SOLICIT at once
		if s.h == nil {
			return ""
		}
		k, rounds := atoi(f[1]), atoi(f[2])
		res := "ok"
		for r := 0; r < rounds && res == "ok"; r++ {
			msg := strings.Fields(fmt.Sprintf("fc%06x 0 1 iapd 00000001 0", r))
			got := make([]string, k)
			fs := make([]func() string, k)
			for i := range fs {
				i := i
				fs[i] = func() string { got[i] = s.rawMsg(msg); return "done" }
			}
			for _, st := range together(fs) {
				if st == "HANG" {
					res = "HANG"
				}
			}
			// what each copy was told: the prefixes of its one IA_PD (lifetimes differ by nanoseconds: dropped)
			told := func(x string) string {
				w := strings.Fields(x)
				var ps []string
				for i := 0; i+2 < len(w); i++ {
					if len(w[i]) == 32 && w[i+2] == "128" {
						ps = append(ps, w[i]+"/"+w[i+1])
					}
				}
				return strings.Join(ps, ",")
			}
			for i := 1; i < k && res == "ok"; i++ {
				if told(got[i]) != told(got[0]) || told(got[0]) == "" {
					res = fmt.Sprintf("differ round %d: one copy was told [%s], another [%s]", r, told(got[0]), told(got[i]))
				}
			}
			if res == "ok" {
				if again := told(s.rawMsg(msg)); again != told(got[0]) {
					res = fmt.Sprintf("differ round %d: the copies were told [%s], the repeat afterwards [%s]", r, told(got[0]), again)
				}
			}
		}
		c.emit(op, res)
		return res
	case "pmsg":
		if s.h == nil {
			return ""
		}
		t0 := vnow()
		res := s.rawMsg(f[1:])
		t1 := vnow()
		c.emit(op, fmt.Sprintf("%d %d %s", t0, t1, res))
		return res
	}
	panic("bad op " + op)
}

// rawMsg builds the message described by f, runs it through the handler and formats the outcome
func (s *prefixState) rawMsg(f []string) string {
	return watchdog(5*time.Second, func() string {
		return guard(func() string {
			d, err := buildMsg6(f)
			if err != nil {
				return "unbuildable"
			}
			inner, err := d.GetInnerMessage()
			if err != nil {
				return "unbuildable"
			}
			resp, err := dhcpv6.NewAdvertiseFromSolicit(inner)
			if err != nil {
				// no client id: the server would not call the handlers; call with a bare reply
				resp = &dhcpv6.Message{MessageType: dhcpv6.MessageTypeAdvertise}
			}
			out, stop := s.h(d, resp)
			r := fmtPrefixResp(out)
			if out == nil && !stop {
				r = "drop-nostop"
			}
			if out != nil {
				r += " " + wireRT6(out)
			}
			return r
		})
	})
}

func replayPrefix(c *ctx, ops []string) {
	s := &prefixState{}
	for _, op := range ops {
		s.exec(c, op)
	}
}

var _ = iana.StatusNoPrefixAvail

func genPrefix(c *ctx) {
	cfgs := []pool6cfg{{56, 58}, {56, 59}, {48, 51}, {62, 64}, {64, 66}, {60, 66}, {120, 123}, {126, 128}, {56, 56}, {63, 65}, {40, 44}}
	for c.count < c.n {
		s := &prefixState{}
		cfg := cfgs[c.rng.Intn(len(cfgs))]
		base := c.pat128()
		k := uint(128 - cfg.poolLen)
		base.Rsh(base, k).Lsh(base, k)
		if ip := bigToIP(base); ip.To4() != nil {
			base.SetBit(base, 127, 1)
		}
		poolStr := fmt.Sprintf("%s/%d", bigToIP(base).String(), cfg.poolLen)
		if c.rng.Intn(5) == 0 {
			// the pool written with bits set behind its length (an address inside it, as ParseCIDR accepts and normalises):
			// the last block's base, or the base plus one
			nb := new(big.Int).Lsh(big.NewInt(1), uint(cfg.page-cfg.poolLen))
			off := new(big.Int).Lsh(new(big.Int).Sub(nb, big.NewInt(1)), uint(128-cfg.page))
			if c.rng.Intn(2) == 0 || off.Sign() == 0 {
				off = big.NewInt(1)
			}
			poolStr = fmt.Sprintf("%s/%d", bigToIP(new(big.Int).Add(base, off)).String(), cfg.poolLen)
		}
		sizeStr := strconv.Itoa(cfg.page)
		switch c.rng.Intn(30) {
		case 0:
			poolStr = "10.0.0.0/8"
			sizeStr = "16"
		case 1:
			sizeStr = []string{"129", "-1", "abc", "", "64x"}[c.rng.Intn(5)]
		case 2:
			poolStr = []string{"2001:db8::", "garbage", "2001:db8::/129", ""}[c.rng.Intn(4)]
		case 3:
			sizeStr = strconv.Itoa(cfg.poolLen - 1 - c.rng.Intn(3))
		case 4:
			poolStr = "::ffff:10.0.0.0/104"
			sizeStr = "112"
		}
		if s.exec(c, fmt.Sprintf("psetup %s %s", hx([]byte(poolStr)), hx([]byte(sizeStr)))) != "ok" {
			continue
		}
		nblocks := int64(1) << uint(cfg.page-cfg.poolLen)
		unit := new(big.Int).Lsh(big.NewInt(1), uint(128-cfg.page))
		nclients := 1 + c.rng.Intn(4)
		clients := make([]string, nclients)
		for i := range clients {
			b := make([]byte, 4+c.rng.Intn(10))
			c.rng.Read(b)
			clients[i] = hx(b)
		}
		held := map[string][]string{} // client -> "iphex len"
		steps := 5 + c.rng.Intn(int(3*nblocks)+10)
		if steps > 60 {
			steps = 60
		}
		for i := 0; i < steps && c.count < c.n; i++ {
			if c.rng.Intn(12) == 0 {
				// time passes: half a lease, just over a lease (3600 s), a day
				s.exec(c, fmt.Sprintf("page %d", []int{1800, 3601, 3700, 86400}[c.rng.Intn(4)]))
			}
			cl := clients[c.rng.Intn(nclients)]
			if c.rng.Intn(40) == 0 {
				cl = "-"
			}
			depth := 0
			if c.rng.Intn(4) == 0 {
				depth = 1 + c.rng.Intn(2)
			}
			nia := []int{1, 1, 1, 1, 2, 2, 3, 0}[c.rng.Intn(8)]
			var sb strings.Builder
			renewAndMore := false
			if hs := held[cl]; len(hs) > 0 && c.rng.Intn(7) == 0 {
				// a client that holds a prefix asks for ONE MORE in a first IA_PD (no hint, or only a length) and renews what
				// it holds in a second: on a pool that is used up the first cannot be served, the second must be all the same
				// (round 8 of the seeded changes: an allocation error of one IA_PD leaked into the next)
				renewAndMore = true
				nia = 2
			}
			fmt.Fprintf(&sb, "pmsg %s %d %d", cl, depth, nia)
			if renewAndMore {
				hs := held[cl]
				p := strings.Fields(hs[c.rng.Intn(len(hs))])
				if c.rng.Intn(2) == 0 {
					fmt.Fprintf(&sb, " iapd %08x 0", 7)
				} else {
					fmt.Fprintf(&sb, " iapd %08x 1 hint p %s %d", 7, hx(net.IPv6zero), cfg.page)
				}
				fmt.Fprintf(&sb, " iapd %08x 1 hint p %s %s", c.rng.Intn(3)+1, p[0], p[1])
				nia = 0
			}
			for a := 0; a < nia; a++ {
				nh := []int{0, 0, 0, 1, 1, 1, 2, 3}[c.rng.Intn(8)]
				fmt.Fprintf(&sb, " iapd %08x %d", c.rng.Intn(3)+1, nh)
				for h := 0; h < nh; h++ {
					switch c.rng.Intn(11) {
					case 0, 1: // unspecified ::/0
						sb.WriteString(" hint e")
					case 2: // length only
						fmt.Fprintf(&sb, " hint p %s %d", hx(net.IPv6zero), []int{cfg.page, cfg.page + 1, 64, 1, 128}[c.rng.Intn(5)])
					case 3, 4: // one of my prefixes, exactly
						if hs := held[cl]; len(hs) > 0 {
							p := strings.Fields(hs[c.rng.Intn(len(hs))])
							fmt.Fprintf(&sb, " hint p %s %s", p[0], p[1])
						} else {
							sb.WriteString(" hint e")
						}
					case 5: // someone else's prefix
						other := clients[c.rng.Intn(nclients)]
						if hs := held[other]; len(hs) > 0 {
							p := strings.Fields(hs[c.rng.Intn(len(hs))])
							fmt.Fprintf(&sb, " hint p %s %s", p[0], p[1])
						} else {
							sb.WriteString(" hint e")
						}
					case 6, 7: // a block of the pool, maybe with host bits, maybe longer
						bi := new(big.Int).Add(base, new(big.Int).Mul(unit, big.NewInt(c.rng.Int63n(nblocks))))
						if c.rng.Intn(2) == 0 {
							bi.Add(bi, new(big.Int).Rand(c.rng, unit))
						}
						l := cfg.page
						if c.rng.Intn(3) == 0 {
							l = c.hintLen(cfg.page)
							if l == 0 {
								l = cfg.page
							}
						}
						fmt.Fprintf(&sb, " hint p %s %d", hx(bigToIP(bi)), l)
					case 8: // out of the pool
						ip := bigToIP(c.pat128())
						fmt.Fprintf(&sb, " hint p %s %d", hx(ip), 1+c.rng.Intn(128))
					case 9: // prefix-length byte > 128
						fmt.Fprintf(&sb, " hint p %s %d", hx(bigToIP(base)), 129+c.rng.Intn(127))
					default: // v4-mapped
						fmt.Fprintf(&sb, " hint p %s %d", hx(net.ParseIP("10.1.2.3").To16()), 96+c.rng.Intn(33))
					}
				}
			}
			res := s.exec(c, sb.String())
			if strings.Contains(res, "HANG") {
				break // this handler is wedged for good
			}
			// remember what the client was told
			rf := strings.Fields(res)
			if len(rf) > 0 && rf[0] == "reply" && cl != "-" {
				j := 2
				for j < len(rf) {
					if rf[j] == "iapd" {
						m := atoi(rf[j+2])
						j += 3
						for q := 0; q < m; q++ {
							e := rf[j] + " " + rf[j+1]
							dup := false
							for _, x := range held[cl] {
								if x == e {
									dup = true
								}
							}
							if !dup {
								held[cl] = append(held[cl], e)
							}
							j += 5
						}
					} else {
						j++
					}
				}
			}
		}
	}
}
