package main

import (
	"fmt"
	"net"
	"strings"

	"github.com/insomniacslk/dhcp/dhcpv4"
	"github.com/insomniacslk/dhcp/dhcpv6"
	"github.com/insomniacslk/dhcp/iana"
)

type plugSpec struct {
	name  string
	v4    bool
	v6    bool
	args  func(c *ctx) []string
}

func pick(c *ctx, xs []string) string { return xs[c.rng.Intn(len(xs))] }

func someOf(c *ctx, xs []string, lo, hi int) []string {
	n := lo + c.rng.Intn(hi-lo+1)
	var out []string
	for i := 0; i < n; i++ {
		out = append(out, pick(c, xs))
	}
	return out
}

var ip4pool = []string{"10.0.0.1", "192.168.1.254", "8.8.8.8", "255.255.255.255", "0.0.0.0", "169.254.1.1"}
var ipMixed = []string{"10.0.0.1", "8.8.4.4", "1.1.1.1", "2001:db8::53", "fe80::1", "::ffff:10.1.2.3", "::1", "garbage", "", "10.0.0.256", "1.2.3"}

// the edges of what option 26 can carry (an unsigned 16-bit number): -1, 0, 65535, 65536, and 70000 which wraps around to 4464;
// numbers as a configuration file may spell them: decimal (also zero-padded, signed, with blanks),
// and spellings other parsers would take for octal, hexadecimal, digit-grouped or floating point
var mtuPool = []string{"1500", "576", "68", "9000", "65535", "0", "-1", "65536", "70000", "abc", "", "1500 ", "0x5dc",
	"01500", "0576", "0068", "09000", "+1500", "1_500", "0o2734", "0b101", "1500.0", "1e3", " 1500", "００"}

// durations at the edges of what options 51 and 108 can carry (an unsigned 32-bit number of whole seconds): below zero,
// zero, the last value that fits, the first that does not, one that wraps around (1193047h = 2^32 s + 1904 s), parts of a second
var durEdge = []string{"-1s", "-1h", "0s", "4294967295s", "4294967296s", "1193047h", "100ms", "1500ms", "-100ms", "4294967295.5s"}

// (first in the pools: the sweep of genPlug walks a pool from its start)
var leasePool = append(append([]string{}, durEdge...), []string{"3600s", "1h", "1500ms", "0s", "-1h", "garbage", "100000h", "1ns", "24h", "90m", "", "3600", "1h30m", "1.5h", "01h", "+1h", "1H", "1 h", "60", "0", "1d"}...)
var waitPool = append(append([]string{}, durEdge...), []string{"300s", "0s", "1800s", "garbage", "-5s", "1h", "", "0", "+300s", "0300s", "5m0s", "300", "1.5m"}...)

var plugSpecs = []plugSpec{
	{"dns", true, true, func(c *ctx) []string {
		if c.rng.Intn(3) == 0 {
			return someOf(c, ipMixed, 0, 3)
		}
		if c.rng.Intn(2) == 0 {
			return someOf(c, []string{"2001:db8::53", "2001:4860:4860::8888", "fe80::1", "10.0.0.1"}, 1, 3)
		}
		return someOf(c, ip4pool, 1, 3)
	}},
	{"router", true, false, func(c *ctx) []string {
		if c.rng.Intn(3) == 0 {
			return someOf(c, ipMixed, 0, 3)
		}
		return someOf(c, ip4pool, 1, 3)
	}},
	{"mtu", true, false, func(c *ctx) []string {
		return someOf(c, mtuPool, 0, 2)
	}},
	{"netmask", true, false, func(c *ctx) []string {
		return someOf(c, []string{"255.255.255.0", "255.255.0.0", "255.255.255.255", "255.255.255.254", "128.0.0.0", "0.0.0.0", "255.0.255.0", "ffff:ff00::", "garbage", "::ffff:255.255.255.0", "255.255.255.1", ""}, 0, 2)
	}},
	{"lease_time", true, false, func(c *ctx) []string {
		return someOf(c, leasePool, 0, 2)
	}},
	{"searchdomains", true, true, func(c *ctx) []string {
		return someOf(c, []string{"example.com", "a.b.c", "sub.example.org", "x", "", "example.com.", strings.Repeat("y", 63) + ".com", strings.Repeat("z", 64) + ".com", strings.Repeat("w", 200), "..", "a..b", "exämple.com"}, 0, 3)
	}},
	{"staticroute", true, false, func(c *ctx) []string {
		return someOf(c, []string{"10.0.0.0/8,192.168.1.1", "0.0.0.0/0,10.0.0.1", "192.168.7.0/24,192.168.7.1", "10.1.2.3/24,1.2.3.4", "172.16.0.0/12,::ffff:10.0.0.1",
			"2001:db8::/32,2001:db8::1", "10.0.0.0/8,2001:db8::1", "2001:db8::/32,10.0.0.1", "10.0.0.0/8", "10.0.0.0/8,1.2.3.4,5", "garbage,1.2.3.4", "10.0.0.0/33,1.1.1.1", "10.0.0.0/8,garbage", "::ffff:10.0.0.0/104,10.0.0.1", ","}, 0, 3)
	}},
	{"ipv6only", true, false, func(c *ctx) []string {
		return someOf(c, waitPool, 0, 2)
	}},
	{"autoconfigure", true, false, func(c *ctx) []string {
		return someOf(c, []string{"0", "1", "DoNotAutoConfigure", "AutoConfigure", "x", "", "2", "autoconfigure"}, 0, 2)
	}},
	{"nbp", true, true, func(c *ctx) []string {
		return someOf(c, []string{"tftp://10.0.0.1/boot.efi", "tftp://boot.example.com:69/pxelinux.0", "http://[2001:db8::1]/boot.ipxe", "https://host/b?params=a%20b", "http://h/x?params=", "ftp://x/y",
			"/just/path", "host/path", "", "http://%zz", "tftp://h/f?params=p1%20p2", "HTTP://UPPER/case", "tftp://", "bootfile", "http://h/" + strings.Repeat("p", 300),
			// paths whose decoded and escaped forms differ
			"tftp://10.0.0.1/my%20nbp.efi", "tftp://h/boot/nbp^2", "boot%41file", "tftp://h/\u00fc.efi", "http://h/a%20b/c^d", "tftp://h/x%2Fy"}, 0, 2)
	}},
	{"sleep", true, true, func(c *ctx) []string {
		return someOf(c, []string{"1ms", "0s", "2ms", "garbage", "-1ms", "", "1us"}, 0, 2)
	}},
	{"server_id", true, true, nil},
}

func serverIDArgs(c *ctx, v6 bool) []string {
	if !v6 {
		return someOf(c, []string{"10.0.0.1", "192.0.2.7", "::ffff:10.0.0.1", "2001:db8::1", "garbage", "", "0.0.0.0", "255.255.255.255"}, 0, 2)
	}
	t := pick(c, []string{"LL", "ll", "llt", "LLT", "duid-ll", "duid_llt", "DUID-LLT", "en", "uuid", "x", ""})
	m := pick(c, []string{"00:11:22:33:44:55", "0011.2233.4455", "00-11-22-33-44-55-66-77", "de:ad:be:ef:00:01", "garbage", "", "00:11:22:33:44"})
	switch c.rng.Intn(8) {
	case 0:
		return []string{t}
	case 1:
		return nil
	case 2:
		return []string{t, m, "extra"}
	}
	return []string{t, m}
}

// ---- request batteries

// option code, then values an earlier plugin may have set
var preset4 = [][]string{
	{"51", "00000e10", "00000000", "ffffffff", "00000001"},
	{"1", "ffff0000", "00000000", "ffffffff"},
	{"3", "02020202", "00000000"},
	{"6", "01010101", "00000000"},
	{"26", "05dc", "0000", "ffff"},
	{"54", "0a090909", "00000000"},
	{"108", "00000001", "00000000"},
	{"116", "01", "00"},
	{"119", "00", "016100"},
	{"121", "080a0a000001", "00c0a80101"},
	{"66", "78"},
	{"67", "79"},
}

var relevant4 = []dhcpv4.OptionCode{dhcpv4.OptionSubnetMask, dhcpv4.OptionRouter, dhcpv4.OptionDomainNameServer, dhcpv4.OptionInterfaceMTU,
	dhcpv4.OptionIPAddressLeaseTime, dhcpv4.OptionTFTPServerName, dhcpv4.OptionBootfileName, dhcpv4.OptionIPv6OnlyPreferred,
	dhcpv4.OptionAutoConfigure, dhcpv4.OptionDNSDomainSearchList, dhcpv4.OptionClasslessStaticRoute, dhcpv4.OptionDomainName}

func (c *ctx) req4(ownSID net.IP) string {
	mt := dhcpv4.MessageTypeDiscover
	if c.rng.Intn(3) == 0 {
		mt = dhcpv4.MessageTypeRequest
	}
	d, _ := dhcpv4.New(dhcpv4.WithMessageType(mt))
	c.rng.Read(d.ClientHWAddr)
	if c.rng.Intn(15) == 0 {
		d.OpCode = dhcpv4.OpcodeBootReply
	}
	switch c.rng.Intn(8) {
	case 0: // no parameter request list at all
	case 1: // empty list (parses as absent)
		d.UpdateOption(dhcpv4.OptGeneric(dhcpv4.OptionParameterRequestList, []byte{}))
	case 2: // everything relevant
		d.UpdateOption(dhcpv4.OptParameterRequestList(relevant4...))
	case 3: // nothing relevant
		d.UpdateOption(dhcpv4.OptParameterRequestList(dhcpv4.OptionNTPServers, dhcpv4.OptionHostName))
	default: // a random subset
		var sub []dhcpv4.OptionCode
		for _, o := range relevant4 {
			if c.rng.Intn(3) == 0 {
				sub = append(sub, o)
			}
		}
		sub = append(sub, dhcpv4.OptionNTPServers)
		d.UpdateOption(dhcpv4.OptParameterRequestList(sub...))
	}
	if c.rng.Intn(3) == 0 {
		d.UpdateOption(dhcpv4.OptAutoConfigure(dhcpv4.AutoConfiguration(c.rng.Intn(2))))
	}
	other := net.IPv4(10, 9, 9, 9).To4()
	// server-address field x server-identifier option: each of absent / zero / own / other, all 16
	// combinations equally likely (cell picks the combination when the caller enumerates them)
	val := func(k int) net.IP {
		switch k {
		case 1:
			return net.IPv4zero.To4()
		case 2:
			if ownSID != nil {
				return ownSID
			}
			return other
		case 3:
			return other
		}
		return nil
	}
	cell := c.sidCell
	if cell < 0 {
		cell = c.rng.Intn(16)
		if c.rng.Intn(2) == 0 {
			cell = 0 // most clients name no server
		}
	}
	if v := val(cell / 4); v != nil {
		d.ServerIPAddr = v
	}
	if v := val(cell % 4); v != nil {
		d.UpdateOption(dhcpv4.OptServerIdentifier(v))
	}
	if c.rng.Intn(12) == 0 {
		d.UpdateOption(dhcpv4.OptGeneric(dhcpv4.OptionServerIdentifier, []byte{10, 0, 0}))
	}
	// the response the chain has built so far
	rmt := 2
	if mt == dhcpv4.MessageTypeRequest {
		rmt = 5
	}
	if c.rng.Intn(10) == 0 {
		rmt = []int{2, 5, 6}[c.rng.Intn(3)]
	}
	yi := net.IPv4zero.To4()
	if c.rng.Intn(2) == 0 {
		yi = net.IPv4(10, 0, 0, byte(1+c.rng.Intn(200))).To4()
	}
	// what earlier plugins have already put into the response: any subset of the options the
	// built-in plugins own, each with ordinary and boundary values (zero, all-ones)
	ropts := "-"
	switch c.rng.Intn(6) {
	case 0:
		ropts = "51:00000e10"
	case 1:
		ropts = "6:01010101,3:02020202,1:ffff0000,26:05dc"
	case 2:
		ropts = "51:0000003c,54:0a090909,121:080a0a000001,119:00,108:00000001,116:01,66:78,67:79"
	case 3:
		var parts []string
		for _, cv := range preset4 {
			if c.rng.Intn(3) == 0 {
				parts = append(parts, cv[0]+":"+cv[1+c.rng.Intn(len(cv)-1)])
			}
		}
		if len(parts) > 0 {
			ropts = strings.Join(parts, ",")
		}
	}
	return fmt.Sprintf("preq4 %s %d %s %s", hx(d.ToBytes()), rmt, hx(yi), ropts)
}

func duidFor(args []string) dhcpv6.DUID {
	if len(args) < 2 {
		return nil
	}
	hw, err := net.ParseMAC(args[1])
	if err != nil {
		return nil
	}
	switch strings.ToLower(args[0]) {
	case "ll", "duid-ll", "duid_ll":
		return &dhcpv6.DUIDLL{HWType: iana.HWTypeEthernet, LinkLayerAddr: hw}
	case "llt", "duid-llt", "duid_llt":
		return &dhcpv6.DUIDLLT{HWType: iana.HWTypeEthernet, LinkLayerAddr: hw}
	}
	return nil
}

func (c *ctx) req6(own dhcpv6.DUID) string {
	m, _ := dhcpv6.NewMessage()
	m.MessageType = []dhcpv6.MessageType{dhcpv6.MessageTypeSolicit, dhcpv6.MessageTypeSolicit, dhcpv6.MessageTypeRequest, dhcpv6.MessageTypeConfirm, dhcpv6.MessageTypeRenew,
		dhcpv6.MessageTypeRebind, dhcpv6.MessageTypeRelease, dhcpv6.MessageTypeDecline, dhcpv6.MessageTypeInformationRequest, dhcpv6.MessageType(c.rng.Intn(256))}[c.rng.Intn(10)]
	cid := make([]byte, 6)
	c.rng.Read(cid)
	cid[0], cid[1] = 0xfe, 0xfe
	m.AddOption(&dhcpv6.OptionGeneric{OptionCode: dhcpv6.OptionClientID, OptionData: cid})
	switch c.rng.Intn(6) {
	case 0: // no ORO
	case 1:
		m.AddOption(dhcpv6.OptRequestedOption())
	case 2:
		m.AddOption(dhcpv6.OptRequestedOption(dhcpv6.OptionDNSRecursiveNameServer, dhcpv6.OptionDomainSearchList, dhcpv6.OptionBootfileURL, dhcpv6.OptionBootfileParam))
	default:
		var sub []dhcpv6.OptionCode
		for _, o := range []dhcpv6.OptionCode{dhcpv6.OptionDNSRecursiveNameServer, dhcpv6.OptionDomainSearchList, dhcpv6.OptionBootfileURL, dhcpv6.OptionBootfileParam, dhcpv6.OptionNTPServer} {
			if c.rng.Intn(2) == 0 {
				sub = append(sub, o)
			}
		}
		m.AddOption(dhcpv6.OptRequestedOption(sub...))
	}
	switch c.rng.Intn(6) {
	case 0, 1: // no server id
	case 2, 3:
		if own != nil {
			m.AddOption(dhcpv6.OptServerID(own))
		}
	case 4: // differs: other address, other kind, same prefix / other length
		var d dhcpv6.DUID
		switch c.rng.Intn(4) {
		case 0:
			d = &dhcpv6.DUIDLL{HWType: iana.HWTypeEthernet, LinkLayerAddr: net.HardwareAddr{0, 1, 2, 3, 4, 9}}
		case 1:
			d = &dhcpv6.DUIDLLT{HWType: iana.HWTypeEthernet, Time: 7, LinkLayerAddr: net.HardwareAddr{0, 0x11, 0x22, 0x33, 0x44, 0x55}}
		case 2:
			d = &dhcpv6.DUIDEN{EnterpriseNumber: 9, EnterpriseIdentifier: []byte{1, 2, 3}}
		default:
			d = &dhcpv6.DUIDLL{HWType: iana.HWTypeEthernet, LinkLayerAddr: net.HardwareAddr{0, 0x11, 0x22, 0x33, 0x44, 0x55, 0x66}}
		}
		m.AddOption(dhcpv6.OptServerID(d))
	default: // own kind but a different time / hwtype
		if ll, ok := own.(*dhcpv6.DUIDLL); ok {
			m.AddOption(dhcpv6.OptServerID(&dhcpv6.DUIDLLT{HWType: ll.HWType, LinkLayerAddr: ll.LinkLayerAddr}))
		} else if llt, ok := own.(*dhcpv6.DUIDLLT); ok {
			m.AddOption(dhcpv6.OptServerID(&dhcpv6.DUIDLLT{HWType: llt.HWType, Time: 1, LinkLayerAddr: llt.LinkLayerAddr}))
		}
	}
	var d dhcpv6.DHCPv6 = m
	for i := c.rng.Intn(4) / 2 * (1 + c.rng.Intn(2)); i > 0; i-- {
		r, err := dhcpv6.EncapsulateRelay(d, dhcpv6.MessageTypeRelayForward, net.ParseIP("2001:db8::1"), net.ParseIP("fe80::2"))
		if err != nil {
			break
		}
		d = r
	}
	rmt := 7
	if m.MessageType == dhcpv6.MessageTypeSolicit {
		rmt = 2
	}
	return fmt.Sprintf("preq6 %s %d", hx(d.ToBytes()), rmt)
}

var sweepAt = map[string]int{}
var sweepPools = map[string][]string{
	"mtu": mtuPool,
	"lease_time": leasePool,
	"ipv6only":   waitPool,
	"netmask":    {"255.255.255.0", "255.255.0.0", "255.255.255.255", "255.255.255.254", "128.0.0.0", "0.0.0.0", "255.0.255.0", "ffff:ff00::", "garbage", "::ffff:255.255.255.0", "255.255.255.1", "", "255.255.255.00", "0xff.0xff.0xff.0", "255.255.255", "/24"},
	"autoconfigure": {"0", "1", "DoNotAutoConfigure", "AutoConfigure", "x", "", "2", "autoconfigure", "donotautoconfigure", "01", "true"},
	"nbp": {"tftp://10.0.0.1/boot.efi", "tftp://boot.example.com:69/pxelinux.0", "http://[2001:db8::1]/boot.ipxe", "https://host/b?params=a%20b", "http://h/x?params=", "ftp://x/y",
		"/just/path", "host/path", "", "http://%zz", "tftp://h/f?params=p1%20p2", "HTTP://UPPER/case", "tftp://", "bootfile",
		"tftp://10.0.0.1/my%20nbp.efi", "tftp://h/boot/nbp^2", "boot%41file", "tftp://h/\u00fc.efi", "http://h/a%20b/c^d", "tftp://h/x%2Fy", "TFTP://h/f", "tftp://h:69", "http://h"},
	"sleep": {"1ms", "0s", "2ms", "garbage", "-1ms", "", "1us", "1", "01ms"},
}

func genPlug(c *ctx) {
	for c.count < c.n {
		sp := plugSpecs[c.rng.Intn(len(plugSpecs))]
		if c.rng.Intn(10) == 0 {
			sp = plugSpecs[len(plugSpecs)-1] // server_id: the one plugin that drops requests
		}
		v6 := sp.v6 && (!sp.v4 || c.rng.Intn(2) == 0)
		var args []string
		if sp.name == "server_id" {
			args = serverIDArgs(c, v6)
		} else if v, ok := sysValid[sp.name]; ok && c.rng.Intn(3) == 0 && v[b2i(v6)][0] != "-" {
			// one time in three a configuration that is certainly accepted
			args = strings.Fields(v[b2i(v6)][c.rng.Intn(len(v[b2i(v6)]))])
		} else {
			args = sp.args(c)
			// every other time exactly one argument, walking through the plugin's whole pool in turn
			// (sampling 0..2 of 25 values leaves most of them untried in a quick run)
			if pool := sweepPools[sp.name]; pool != nil && c.rng.Intn(2) == 0 {
				args = []string{pool[sweepAt[sp.name]%len(pool)]}
				sweepAt[sp.name]++
			}
		}
		// sometimes ask a plugin for the protocol it does not support
		if c.rng.Intn(40) == 0 {
			v6 = !v6
		}
		proto := "4"
		if v6 {
			proto = "6"
		}
		op := fmt.Sprintf("pcfg %s %s %d", proto, sp.name, len(args))
		for _, a := range args {
			op += " " + hx([]byte(a))
		}
		group := []string{op}
		nreq := 6 + c.rng.Intn(10)
		var ownSID net.IP
		var ownDUID dhcpv6.DUID
		if sp.name == "server_id" && len(args) > 0 {
			if !v6 {
				ownSID = net.ParseIP(args[0]).To4()
			} else {
				ownDUID = duidFor(args)
			}
		}
		c.sidCell = -1
		if sp.name == "server_id" && !v6 {
			// the whole server-address x server-identifier matrix, every time
			nreq = 16 + c.rng.Intn(6)
		}
		for i := 0; i < nreq; i++ {
			if v6 {
				group = append(group, c.req6(ownDUID))
			} else {
				if sp.name == "server_id" && i < 16 {
					c.sidCell = i
				} else {
					c.sidCell = -1
				}
				group = append(group, c.req4(ownSID))
			}
		}
		c.sidCell = -1
		runGroup(c, group)
	}
}
