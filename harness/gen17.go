// gen17.go — `harness gen -unit filesetup`: the set-up of the static-lease plugin regenerated as Lean definitions
// (namespace CoreDhcp.GenFileSetup, file CoreDhcp/Generated/FileSetup.lean) from the go/ast of plugins/file/plugin.go:
//
//	var Plugin = plugins.Plugin{… Setup6: f6, Setup4: f4}      which function is registered for which protocol
//	f6 / f4 (`setup6`, `setup4`)                               ↦ reg6, reg4 : the flag each gives to the set-up function
//	                                                             and which of the pair it passes on
//	the function both call (`setupFile`)                       ↦ setupFile : SetupOut — the argument tests in their order,
//	                                                             the initial load, the autorefresh condition, the watcher,
//	                                                             what is watched, which table each returned handler serves
//	the body of `for ev := range watcher.Events` of its        ↦ onEvent : EvOut — for ONE event: the loads made, whether the
//	goroutine                                                    mapping is replaced, whether the loop goes on, and the
//	                                                             name it watches again (after a removal / rename of the file)
//
// Props/GenFileSetup.lean proves the generated definitions equal to the hand-written model (Model/FileSetup.lean).
// What `loadFromFile`, `handle4`, `handle6` DO is unit `fileplugin` (gen7.go); here they are names whose arguments
// are recorded.
//
// The translator runs the function symbolically, statement by statement, knows ONLY what is listed below and fails
// loudly (source position, exit code 2) on everything else.  Go names never reach the generated text: a local is
// replaced by the value it stands for (`filename := args[0]` ↦ `args.getD 0 ""` wherever `filename` is used).
//
// INPUTS of the generated definitions (out-of-repository calls, and the one call into unit fileplugin):
//
//	load : Bool → String → Bool     `loadFromFile(a, b)` returned nil, as a function of ITS TWO ARGUMENTS
//	newWatcherOk : Bool             `fsnotify.NewWatcher()` returned no error          (at most one call)
//	add : String → Bool             `watcher.Add(p)` returned nil, as a function of p   (at most one call)
//	readd : String → Bool           `watcher.Add(p)` IN THE EVENT LOOP returned nil (another moment than the set-up's call)
//	ev : Event                      the event of this iteration: the source may log it and ask `ev.Has(<operation>)`
//
// VOCABULARY
//
//	Go                                                 Lean
//	-------------------------------------------------  ---------------------------------------------------------
//	len(args) <op> K                                    args.length <op> K       (also remembered: len(args) ≥ …)
//	args[K]                                             args.getD K ""           only where the tests passed on this path
//	                                                                             imply len(args) > K (Go would panic)
//	x := args[K] · x := "lit"                           nothing: x stands for that value
//	"lit" · a package-level string constant             the literal · the VALUE of its declaration
//	s == t · s != t (strings)                           s = t · s ≠ t
//	&& · || · !                                         ∧ · ∨ · ¬
//	var err error                                       nothing: err is nil
//	err = loadFromFile(b, s) · err := … · if err = …; c  a call is recorded; b is `v6`, `!v6`, true, false
//	w, err := fsnotify.NewWatcher()                     a call is recorded; w is THE watcher
//	err = w.Add(s)                                      a call is recorded; on success s is what w watches
//	err != nil · err == nil                             <call> = false · <call> = true    (err: the error of a recorded call,
//	                                                                             not yet tested on this path)
//	if c { … } else { … }                               if c then … else …   (what follows the `if` is copied into every
//	                                                                             branch that does not end)
//	return nil, nil, err                                .loadErr / .watcherErr / .watchErr: by the call err came from, and
//	                                                     only where that call is known to have failed
//	return nil, nil, errors.New("<text>")               .argErr .noFileName / .emptyFileName   (table e17texts)
//	return nil, nil, fmt.Errorf("<text>: %w", …, err)   as `return nil, nil, err`; the text must be the one of that call
//	                                                     (table e17wraps)
//	go func() { for [ev :=] range w.Events { B } }()    from here on the goroutine consumes the events of what w watches:
//	                                                     `watch` of `.ok`.  At most one; w must watch something; B ↦ onEvent
//	go func() { for [e :=] range w.Errors { logs } }()  nothing (it does not take events; see the report)
//	h := func(req, resp T) (T, bool) { return handleN(&<table>, req, resp) }     h serves <table>  (gen7.go: delegate)
//	return a, b, nil                                    .ok <watch> <table of b> <table of a>; a, b: such an h, the function
//	                                                     literal itself, or a package-level function of that shape
//	                                                     (`Handler4`: StaticRecords ↦ .last)
//	log.<Level>(…)                                      nothing — only as a statement, on the package's logger, arguments
//	                                                     free of side effects.  A package-level table mentioned there is
//	                                                     printed as a note (it is read without the lock)
//
//	in B (the body of the event loop):
//	err := loadFromFile(b, s) · if err := …; c          the call is added to `loads`
//	continue · the end of B                             ⟨loads, .replace if a load of this path returned nil else .keep, .continues, rewatch⟩
//	return · break                                      ⟨loads, …, .stops, rewatch⟩
//	ev.Has(fsnotify.<C>)                                ev.has <value of C> = true   C an operation constant; its value is read
//	                                                     from the fsnotify source the file is built with (go.mod above the
//	                                                     source ↦ module cache; -lib overrides), where also `type Op uint32`,
//	                                                     `Op.Has: o&h != 0` and `Event.Has: e.Op.Has(op)` are checked
//	_ = w.Remove(s) · w.Remove(s)                        remembered: the watcher's entry for s is dropped (error discarded:
//	                                                     fsnotify has usually dropped it itself).  Before any load of this event
//	err := w.Add(s) · if err := w.Add(s); c              `rewatch` of this path := some s; only directly after a Remove of the
//	                                                     SAME s in this iteration, once, BEFORE any load of this event; the call
//	                                                     is recorded (`readd s`) and must be tested like every call
//	a path that ends with a Remove and no Add after it: refused
//	anything else that looks at the event (ev.Op, ev.Name in a condition), a second receive from the channel, select,
//	a nested loop, Close: refused
//
// ALSO CHECKED: every recorded call is tested on every path before the function returns (an ignored error is
// refused unless the `if` that tests it does nothing, in which case the generated text shows it); `:=` follows Go's
// scoping (a name declared in a block is gone after it); nothing assigns to the parameters, to a variable that stands
// for a string, or — from inside the goroutine — to a variable of the enclosing function; no local has the name of
// a package, a package-level name or a builtin.
package main

import (
	"fmt"
	"go/ast"
	"go/parser"
	"go/token"
	"os"
	"path/filepath"
	"sort"
	"strconv"
	"strings"
)

var p17pkgs = map[string]string{
	"errors": "errors", "fmt": "fmt",
	"fsnotify": "github.com/fsnotify/fsnotify",
	"handler":  "github.com/coredhcp/coredhcp/handler",
	"plugins":  "github.com/coredhcp/coredhcp/plugins",
}

// errors.New("<text>") ↦ constructor of SetupOut
var e17texts = map[string]string{"need a file name": ".argErr .noFileName", "got empty file name": ".argErr .emptyFileName"}

// fmt.Errorf("<text>", …, err) ↦ the kind of call err must come from
var e17wraps = map[string]string{"failed to create watcher: %w": "neww", "failed to watch %s: %w": "add"}

// the error of a call returned (as it is, or wrapped) ↦ constructor of SetupOut
var e17ctor = map[string]string{"load": ".loadErr", "neww": ".watcherErr", "add": ".watchErr"}

var t17tables = map[string]string{"t4": ".own4", "t6": ".own6", "static": ".last"}

type v17 struct {
	role  string // v6 | args | str | err | watcher | handler | ev
	lean  string // v6, str: the Lean expression of the value
	call  int    // err: index into calls of the call whose error this is; -1 = nil
	table string // handler: constructor of Table
	is6   bool   // handler
	decl  int    // identity of the declaration
	depth int    // depth of the block it is declared in
	inGo  bool   // declared inside the goroutine
}

type c17 struct {
	kind  string // load | neww | add | readd (watcher.Add in the event loop)
	ok    string // Lean Bool: the call returned no error
	lean  string // load: the pair of its arguments; add: the path
	known int    // 0 = not tested on this path, 1 = returned nil, 2 = returned an error
	pos   token.Pos
}

type s17 struct {
	vars   map[string]v17
	lb     int    // len(args) >= lb on this path
	calls  []c17  // the calls made on this path, in order
	added  string // what the watcher watches on this path ("" = nothing)
	watch  string // whose events the goroutine consumes ("" = no goroutine)
	inGo   bool   // inside the goroutine
	inLoop bool   // inside the body of the event loop
	base   int    // inLoop: len(calls) at the top of the body
	rmed   string // inLoop: the path given to watcher.Remove in this iteration ("" = none)
	reAdd  string // inLoop: the path given to watcher.Add in this iteration, after that Remove ("" = none)
}

func (st s17) with(name string, v v17) s17 {
	n := map[string]v17{name: v}
	for k, x := range st.vars {
		if k != name {
			n[k] = x
		}
	}
	st.vars = n
	return st
}

func (st s17) withCall(c c17) (s17, int) {
	st.calls = append(append([]c17{}, st.calls...), c)
	return st, len(st.calls) - 1
}

func (st s17) known(i, k int) s17 {
	cs := append([]c17{}, st.calls...)
	cs[i].known = k
	st.calls = cs
	return st
}

type g17 struct {
	*f7
	consts    map[string]*ast.ValueSpec
	ndecl     int
	loopNode  ast.Node
	loopText  string
	notes     map[string]bool
	setupName string
	fsnRoot   string            // root of the fsnotify source
	fsnOps    map[string]uint64 // its operation constants: name ↦ value (nil = not read yet)
	opsUsed   map[string]uint64
}

func (g *g17) pkg(x ast.Expr, st s17) (pkg, name string, ok bool) {
	s, ok := g.unparen(x).(*ast.SelectorExpr)
	if !ok {
		return "", "", false
	}
	id, ok := s.X.(*ast.Ident)
	if !ok || p17pkgs[id.Name] == "" {
		return "", "", false
	}
	if _, local := st.vars[id.Name]; local {
		return "", "", false
	}
	g.must(g.imports[id.Name] == p17pkgs[id.Name], x, "`%s` is not the package %s here", id.Name, p17pkgs[id.Name])
	return id.Name, s.Sel.Name, true
}

func (g *g17) f7st(st s17) f7st {
	m := map[string]f7local{}
	for k := range st.vars {
		m[k] = f7local{"local17", ""}
	}
	return f7st{vars: m}
}

func (g *g17) variable(x ast.Expr, st s17, role string) (v17, string, bool) {
	id, ok := g.unparen(x).(*ast.Ident)
	if !ok {
		return v17{}, "", false
	}
	v, ok := st.vars[id.Name]
	return v, id.Name, ok && v.role == role
}

// declare: `name` is declared at this depth (`:=`, `var`, a parameter).
func (g *g17) declare(id *ast.Ident, v v17, st s17, depth int) s17 {
	g.must(id.Name != "_", id, "blank identifier unsupported here")
	_, isPkg := g.imports[id.Name]
	g.must(!isPkg && g.pkgVars[id.Name] == nil && g.funcs[id.Name] == nil && !f7builtins[id.Name] && !stBuiltins[id.Name], id,
		"variable name clashes with a name that already has a meaning (package, package-level name, builtin)")
	if old, ok := st.vars[id.Name]; ok {
		g.must(old.role == "err" && (v.role == "err" || v.role == "ev") && (old.depth != depth || v.role == "err"), id,
			"a variable in scope is shadowed or redeclared (only an error variable may be: by another error variable or by the variable of a loop)")
	}
	g.ndecl++
	v.decl, v.depth, v.inGo = g.ndecl, depth, st.inGo
	return st.with(id.Name, v)
}

// leave: the state after a nested block: the names declared inside are gone, what was assigned stays.
func (g *g17) leave(outer, inner s17) s17 {
	vars := map[string]v17{}
	for name, o := range outer.vars {
		if i, ok := inner.vars[name]; ok && i.decl == o.decl {
			vars[name] = i
		} else {
			vars[name] = o
		}
	}
	inner.vars = vars
	inner.inGo, inner.inLoop, inner.base = outer.inGo, outer.inLoop, outer.base
	return inner
}

// ------------------------------------------------------------------ values

func (g *g17) leanString(at ast.Node, s string) string {
	for _, r := range s {
		g.must(r >= 0x20 && r < 0x7f && r != '"' && r != '\\', at, "string with a character outside plain ASCII (or a quote / backslash): not translated")
	}
	return `"` + s + `"`
}

// str: an expression of type string ↦ the Lean expression of its value.
func (g *g17) str(x ast.Expr, st s17) (string, bool) {
	x = g.unparen(x)
	switch x := x.(type) {
	case *ast.BasicLit:
		if s, ok := g.strLit(x); ok {
			return g.leanString(x, s), true
		}
	case *ast.Ident:
		if v, ok := st.vars[x.Name]; ok {
			if v.role == "str" {
				return v.lean, true
			}
			return "", false
		}
		if c := g.consts[x.Name]; c != nil {
			g.must(len(c.Names) == 1 && len(c.Values) == 1 && (c.Type == nil || isIdent(c.Type, "string")), c, "the constant must be declared on its own, as a string literal")
			s, ok := g.strLit(c.Values[0])
			g.must(ok, c.Values[0], "the constant must be a string literal")
			return g.leanString(c.Values[0], s), true
		}
	case *ast.IndexExpr:
		if _, _, ok := g.variable(x.X, st, "args"); ok {
			k, ok := g.intLit(x.Index)
			g.must(ok, x.Index, "the index of an argument must be an integer literal")
			g.must(st.lb > k, x, "argument %d may not exist here: the tests passed on this path only imply %d argument(s); Go would panic, the model has no panic", k, st.lb)
			return "args.getD " + strconv.Itoa(k) + ` ""`, true
		}
	}
	return "", false
}

func atom17(s string) string {
	if strings.ContainsAny(s, " ") && !strings.HasPrefix(s, `"`) {
		return "(" + s + ")"
	}
	return s
}

// flag: the first argument of loadFromFile.
func (g *g17) flag(x ast.Expr, st s17) string {
	x = g.unparen(x)
	if v, _, ok := g.variable(x, st, "v6"); ok {
		return v.lean
	}
	if b, ok := g.boolLit(x, g.f7st(st)); ok {
		return b
	}
	if u, ok := x.(*ast.UnaryExpr); ok && u.Op == token.NOT {
		return "(!" + g.flag(u.X, st) + ")"
	}
	g.fail(x, "the protocol flag of loadFromFile must be the parameter, its negation, true or false")
	return ""
}

// callOf: x is one of the three recorded calls.
func (g *g17) callOf(x ast.Expr, st s17) (c c17, ok bool) {
	call, isCall := g.unparen(x).(*ast.CallExpr)
	if !isCall {
		return c, false
	}
	if id, isID := call.Fun.(*ast.Ident); isID && id.Name == "loadFromFile" {
		_, local := st.vars[id.Name]
		g.must(!local && g.funcs["loadFromFile"] != nil, call.Fun, "loadFromFile is not the package's function here")
		g.must(len(call.Args) == 2 && !call.Ellipsis.IsValid(), call, "loadFromFile takes the protocol flag and the file name")
		b := g.flag(call.Args[0], st)
		s, isStr := g.str(call.Args[1], st)
		g.must(isStr, call.Args[1], "the file name given to loadFromFile must be an argument of the plugin, a variable that stands for one, or a string constant")
		return c17{kind: "load", ok: "load " + b + " " + atom17(s), lean: "(" + b + ", " + s + ")", pos: call.Pos()}, true
	}
	if p, n, isPkg := g.pkg(call.Fun, st); isPkg && p == "fsnotify" {
		g.must(n == "NewWatcher" && len(call.Args) == 0, call, "only fsnotify.NewWatcher() is known (a buffered watcher, or one with options, delivers events differently)")
		return c17{kind: "neww", ok: "newWatcherOk", pos: call.Pos()}, true
	}
	if recv, name, mc, isM := g.method(call); isM {
		if _, _, isW := g.variable(recv, st, "watcher"); isW {
			if name == "Remove" {
				return c, false // only as a statement in the event loop, its error discarded: g.unwatch
			}
			g.must(name == "Add" && len(mc.Args) == 1 && !mc.Ellipsis.IsValid(), call, "the only calls on the watcher that are known are Add(path) and, in the event loop, Remove(path) before Add(path) (Close, AddWith … change what is delivered)")
			s, isStr := g.str(mc.Args[0], st)
			g.must(isStr, mc.Args[0], "the path given to the watcher must be an argument of the plugin as it is (or a variable that stands for one): "+
				"a path computed from it (its directory, its cleaned or resolved form) names another file or a directory, whose events are not the events of the configured file")
			if st.inLoop {
				return c17{kind: "readd", ok: "readd " + atom17(s), lean: s, pos: call.Pos()}, true
			}
			return c17{kind: "add", ok: "add " + atom17(s), lean: s, pos: call.Pos()}, true
		}
	}
	return c, false
}

// watcherOK: the watcher exists on this path (NewWatcher is known to have succeeded).
func (g *g17) watcherOK(at ast.Node, st s17) {
	for _, c := range st.calls {
		if c.kind == "neww" {
			g.must(c.known == 1, at, "the watcher may be nil here: the error of fsnotify.NewWatcher() has not been tested (and returned on) before this use")
			return
		}
	}
	g.fail(at, "no watcher has been made on this path")
}

// record: the call c is made; its error goes to the variable `to` (declared when define).
func (g *g17) record(at ast.Node, c c17, to *ast.Ident, define bool, st s17, depth int) s17 {
	switch c.kind {
	case "load":
		g.must(!st.inGo || st.inLoop, at, "in the goroutine, loadFromFile is expected only in the body of the event loop")
	case "neww", "add":
		g.must(!st.inGo, at, "the watcher is made and told what to watch in the set-up function, not in the goroutine")
	case "readd":
		g.watcherOK(at, st)
		g.must(st.reAdd == "", at, "a second watcher.Add in one iteration")
		g.must(st.rmed != "", at, "watcher.Add in the event loop without `watcher.Remove` of the same path before it: the watcher still has its entry for the old file under this path")
		g.must(st.rmed == c.lean, at, "watcher.Add in the event loop names another path than the watcher.Remove before it")
		for _, old := range st.calls[st.base:] {
			g.must(old.kind != "load", at, "the file is watched again AFTER it was reloaded: a version written between the reload and the new watch would never be noticed; the re-watch must come BEFORE the reload")
		}
		st.reAdd = c.lean
	}
	if c.kind == "add" {
		g.watcherOK(at, st)
		for _, old := range st.calls {
			g.must(old.kind != "add", at, "a second watcher.Add: the model's watcher watches one path")
		}
		g.must(st.watch == "", at, "watcher.Add after the goroutine has started")
	}
	st, idx := st.withCall(c)
	return g.setErr(at, to, define, idx, st, depth)
}

func (g *g17) setErr(at ast.Node, to *ast.Ident, define bool, idx int, st s17, depth int) s17 {
	old, exists := st.vars[to.Name]
	if define && (!exists || old.depth != depth) {
		return g.declare(to, v17{role: "err", call: idx}, st, depth)
	}
	g.must(exists && old.role == "err", to, "the error of the call must go to an error variable")
	g.must(!st.inGo || old.inGo, to, "the goroutine assigns to a variable of the enclosing function: a data race with the set-up function")
	if old.call >= 0 {
		g.must(st.calls[old.call].known != 0, at, "the error of the previous call (%s) is overwritten before it is tested", g.fset.Position(st.calls[old.call].pos))
	}
	old.call = idx
	return st.with(to.Name, old)
}

// simple: the assignments and definitions of the vocabulary.
func (g *g17) simple(s ast.Stmt, st s17, depth int) (s17, bool) {
	switch s := s.(type) {
	case *ast.DeclStmt: // var err error
		d, ok := s.Decl.(*ast.GenDecl)
		if !ok || d.Tok != token.VAR || len(d.Specs) != 1 {
			return st, false
		}
		v := d.Specs[0].(*ast.ValueSpec)
		g.must(len(v.Names) == 1 && len(v.Values) == 0 && v.Type != nil && isIdent(v.Type, "error"), s, "only `var err error` is supported")
		return g.declare(v.Names[0], v17{role: "err", call: -1}, st, depth), true
	case *ast.AssignStmt:
		define := s.Tok == token.DEFINE
		if !define && s.Tok != token.ASSIGN {
			return st, false
		}
		if len(s.Lhs) == 2 && len(s.Rhs) == 1 { // w, err := fsnotify.NewWatcher()
			c, ok := g.callOf(s.Rhs[0], st)
			g.must(ok && c.kind == "neww", s.Rhs[0], "unknown two-valued expression (only fsnotify.NewWatcher())")
			w, ok1 := s.Lhs[0].(*ast.Ident)
			e, ok2 := s.Lhs[1].(*ast.Ident)
			g.must(ok1 && ok2 && define && w.Name != e.Name && e.Name != "_", s, "expected `w, err := fsnotify.NewWatcher()`")
			for _, old := range st.calls {
				g.must(old.kind != "neww", s, "a second watcher: the model has one")
			}
			for _, v := range st.vars {
				g.must(v.role != "watcher", s, "a second watcher: the model has one")
			}
			st = g.declare(w, v17{role: "watcher"}, st, depth)
			return g.record(s, c, e, true, st, depth), true
		}
		if len(s.Lhs) != 1 || len(s.Rhs) != 1 {
			return st, false
		}
		to, ok := s.Lhs[0].(*ast.Ident)
		g.must(ok, s.Lhs[0], "the target of an assignment must be a plain variable")
		if c, ok := g.callOf(s.Rhs[0], st); ok {
			g.must(c.kind != "neww", s, "expected `w, err := fsnotify.NewWatcher()`")
			g.must(to.Name != "_", s, "the error of the call is thrown away")
			return g.record(s, c, to, define, st, depth), true
		}
		if lit, ok := g.unparen(s.Rhs[0]).(*ast.FuncLit); ok && define && !st.inGo { // a handler
			is6, table := g.delegate(lit, lit.Type, lit.Body, g.f7st(st))
			return g.declare(to, v17{role: "handler", is6: is6, table: t17tables[table]}, st, depth), true
		}
		if v, ok := g.str(s.Rhs[0], st); ok && define {
			return g.declare(to, v17{role: "str", lean: v}, st, depth), true
		}
	}
	return st, false
}

// unwatch: `_ = w.Remove(path)` / `w.Remove(path)` in the event loop: the first half of watching the name again.
func (g *g17) unwatch(s ast.Stmt, st s17) (s17, bool) {
	var x ast.Expr
	switch s := s.(type) {
	case *ast.ExprStmt:
		x = s.X
	case *ast.AssignStmt:
		if s.Tok != token.ASSIGN || len(s.Lhs) != 1 || len(s.Rhs) != 1 || !isIdent(s.Lhs[0], "_") {
			return st, false
		}
		x = s.Rhs[0]
	default:
		return st, false
	}
	recv, name, mc, ok := g.method(x)
	if !ok || name != "Remove" {
		return st, false
	}
	if _, _, isW := g.variable(recv, st, "watcher"); !isW {
		return st, false
	}
	g.must(st.inLoop, s, "watcher.Remove is known only in the body of the event loop, directly before the watcher.Add of the same path")
	g.watcherOK(s, st)
	g.must(len(mc.Args) == 1 && !mc.Ellipsis.IsValid(), mc, "watcher.Remove takes the path")
	p, isStr := g.str(mc.Args[0], st)
	g.must(isStr, mc.Args[0], "the path given to watcher.Remove must be an argument of the plugin as it is (or a variable that stands for one)")
	g.must(st.reAdd == "", s, "watcher.Remove AFTER watcher.Add in the same iteration: the watch that was just set is taken away again")
	g.must(st.rmed == "", s, "a second watcher.Remove in one iteration")
	for _, old := range st.calls[st.base:] {
		g.must(old.kind != "load", s, "the file is watched again AFTER it was reloaded: a version written between the reload and the new watch would never be noticed; the re-watch must come BEFORE the reload")
	}
	st.rmed = p
	return st, true
}

const defaultFsnotify = "/root/go/pkg/mod/github.com/fsnotify/fsnotify@v1.8.0"

// fsnotifyRoot: the fsnotify source the translated file is built with: -lib, else the version the go.mod above the
// source requires (in the module cache), else the default.
func fsnotifyRoot(srcPath, lib string) string {
	if lib != "" {
		return lib
	}
	dir, _ := filepath.Abs(filepath.Dir(srcPath))
	for {
		if data, err := os.ReadFile(filepath.Join(dir, "go.mod")); err == nil {
			for _, line := range strings.Split(string(data), "\n") {
				f := strings.Fields(line)
				if len(f) >= 2 && f[0] == "require" {
					f = f[1:]
				}
				if len(f) >= 2 && f[0] == "github.com/fsnotify/fsnotify" {
					cache := os.Getenv("GOMODCACHE")
					if cache == "" {
						gopath := os.Getenv("GOPATH")
						if gopath == "" {
							home, _ := os.UserHomeDir()
							gopath = filepath.Join(home, "go")
						}
						cache = filepath.Join(gopath, "pkg", "mod")
					}
					return filepath.Join(cache, "github.com", "fsnotify", "fsnotify@"+f[1])
				}
			}
			break
		}
		parent := filepath.Dir(dir)
		if parent == dir {
			break
		}
		dir = parent
	}
	return defaultFsnotify
}

// readFsnotify: the operation constants of the fsnotify source (`const ( Create Op = 1 << iota; Write; … )`) and the
// check that `Event.Has` means "this bit is set".
func (g *g17) readFsnotify(at ast.Node) {
	path := filepath.Join(g.fsnRoot, "fsnotify.go")
	file, err := parser.ParseFile(g.fset, path, nil, parser.SkipObjectResolution)
	g.must(err == nil, at, "cannot read the fsnotify source %s (-lib <root of github.com/fsnotify/fsnotify>): %v", path, err)
	g.fsnOps = map[string]uint64{}
	hasOp, hasEv, opType := false, false, false
	for _, d := range file.Decls {
		switch d := d.(type) {
		case *ast.GenDecl:
			if d.Tok == token.TYPE {
				for _, sp := range d.Specs {
					ts := sp.(*ast.TypeSpec)
					if ts.Name.Name == "Op" {
						g.must(isIdent(ts.Type, "uint32") && !ts.Assign.IsValid(), ts, "fsnotify.Op is not `type Op uint32`")
						opType = true
					}
				}
			}
			if d.Tok != token.CONST || len(d.Specs) == 0 {
				continue
			}
			first := d.Specs[0].(*ast.ValueSpec)
			if first.Type == nil || !isIdent(first.Type, "Op") {
				continue
			}
			g.must(len(first.Values) == 1 && g.src(first.Values[0]) == "1 << iota", first, "the operation constants of fsnotify are not declared as `X Op = 1 << iota; Y; …`")
			for i, sp := range d.Specs {
				vs := sp.(*ast.ValueSpec)
				g.must(len(vs.Names) == 1 && (i == 0 || (vs.Type == nil && len(vs.Values) == 0)) && i < 32, vs, "the operation constants of fsnotify are not declared as `X Op = 1 << iota; Y; …`")
				_, dup := g.fsnOps[vs.Names[0].Name]
				g.must(!dup, vs, "declared twice")
				g.fsnOps[vs.Names[0].Name] = 1 << uint(i)
			}
		case *ast.FuncDecl:
			if d.Name.Name != "Has" || d.Recv == nil || len(d.Recv.List) != 1 || d.Body == nil {
				continue
			}
			sig := g.src(d.Recv.List[0].Type) + "|" + g.src(d.Type) + "|" + strings.Join(strings.Fields(g.src(d.Body)), " ")
			switch g.src(d.Recv.List[0].Type) {
			case "Op":
				g.must(sig == "Op|func(h Op) bool|{ return o&h != 0 }" && len(d.Recv.List[0].Names) == 1 && d.Recv.List[0].Names[0].Name == "o", d, "fsnotify's Op.Has is not `func (o Op) Has(h Op) bool { return o&h != 0 }`")
				hasOp = true
			case "Event":
				g.must(sig == "Event|func(op Op) bool|{ return e.Op.Has(op) }" && len(d.Recv.List[0].Names) == 1 && d.Recv.List[0].Names[0].Name == "e", d, "fsnotify's Event.Has is not `func (e Event) Has(op Op) bool { return e.Op.Has(op) }`")
				hasEv = true
			}
		}
	}
	g.must(opType && hasOp && hasEv && len(g.fsnOps) > 0, at, "%s: `type Op uint32`, its constants, Op.Has and Event.Has not all found", path)
}

// opConst: x is `fsnotify.<C>`, C an operation constant of the fsnotify source ↦ its value.
func (g *g17) opConst(x ast.Expr, st s17) uint64 {
	p, n, ok := g.pkg(x, st)
	g.must(ok && p == "fsnotify", x, "the argument of ev.Has must be an operation constant of fsnotify (fsnotify.Remove, fsnotify.Rename, …)")
	if g.fsnOps == nil {
		g.readFsnotify(x)
	}
	v, ok := g.fsnOps[n]
	g.must(ok, x, "not an operation constant of %s/fsnotify.go", g.fsnRoot)
	g.opsUsed[n] = v
	return v
}

// ------------------------------------------------------------------ conditions

func (g *g17) cond(x ast.Expr, st s17) cex {
	x = g.unparen(x)
	switch x := x.(type) {
	case *ast.UnaryExpr:
		g.must(x.Op == token.NOT, x, "unsupported unary operator %s in a condition", x.Op)
		return cex{"¬(" + g.cond(x.X, st).s + ")", hAtom}
	case *ast.BinaryExpr:
		switch x.Op {
		case token.LAND:
			a := g.cond(x.X, st)
			b := g.cond(x.Y, g.after(x.X, st, true))
			return cex{hwrap(a, hAnd+1) + " ∧ " + hwrap(b, hAnd+1), hAnd}
		case token.LOR:
			a := g.cond(x.X, st)
			b := g.cond(x.Y, g.after(x.X, st, false))
			return cex{hwrap(a, hOr+1) + " ∨ " + hwrap(b, hOr+1), hOr}
		case token.EQL, token.NEQ, token.LSS, token.LEQ, token.GTR, token.GEQ:
			if i, ok := g.errTest(x, st); ok {
				c := st.calls[i]
				g.must(c.known == 0, x, "the error of this call has already been tested on this path: the condition is constant")
				return cex{c.ok + " = " + strconv.FormatBool((x.Op == token.EQL)), hCmp}
			}
			if k, ok := g.lenArgs(x, st); ok {
				return cex{"args.length " + cmpOps[x.Op] + " " + strconv.Itoa(k), hCmp}
			}
			a, ok1 := g.str(x.X, st)
			b, ok2 := g.str(x.Y, st)
			if ok1 && ok2 {
				g.must(x.Op == token.EQL || x.Op == token.NEQ, x, "ordered comparison of strings unsupported")
				return cex{a + " " + cmpOps[x.Op] + " " + b, hCmp}
			}
			g.fail(x, "unrecognised comparison (known: len(args) with an integer literal, two strings, an error variable with nil)")
		}
		g.fail(x, "unsupported operator %s in a condition", x.Op)
	case *ast.CallExpr:
		if recv, name, mc, ok := g.method(x); ok && name == "Has" {
			if _, _, isEv := g.variable(recv, st, "ev"); isEv {
				g.must(st.inLoop && len(mc.Args) == 1 && !mc.Ellipsis.IsValid(), x, "ev.Has(<operation>) is known in the body of the event loop")
				return cex{"ev.has " + strconv.FormatUint(g.opConst(mc.Args[0], st), 10) + " = true", hCmp}
			}
		}
	}
	g.fail(x, "unsupported condition")
	return cex{}
}

// errTest: x is `err == nil` / `err != nil`, err holding the error of a recorded call ↦ its index.
func (g *g17) errTest(x *ast.BinaryExpr, st s17) (int, bool) {
	if (x.Op != token.EQL && x.Op != token.NEQ) || !g.isNil(x.Y, g.f7st(st)) {
		return 0, false
	}
	v, _, ok := g.variable(x.X, st, "err")
	if !ok {
		return 0, false
	}
	g.must(v.call >= 0, x, "this error variable is nil here (no call has assigned it): the condition is constant")
	return v.call, true
}

// lenArgs: x is `len(args) <op> K`.
func (g *g17) lenArgs(x *ast.BinaryExpr, st s17) (int, bool) {
	c, ok := g.unparen(x.X).(*ast.CallExpr)
	if !ok || !g.builtin(c.Fun, "len", g.f7st(st)) || len(c.Args) != 1 || c.Ellipsis.IsValid() {
		return 0, false
	}
	if _, _, ok := g.variable(c.Args[0], st, "args"); !ok {
		return 0, false
	}
	k, ok := g.intLit(x.Y)
	g.must(ok, x.Y, "len(args) must be compared with an integer literal")
	return k, true
}

// after: what is known once the condition evaluated to `positive`.
func (g *g17) after(x ast.Expr, st s17, positive bool) s17 {
	switch x := g.unparen(x).(type) {
	case *ast.UnaryExpr:
		if x.Op == token.NOT {
			return g.after(x.X, st, !positive)
		}
	case *ast.BinaryExpr:
		switch {
		case x.Op == token.LAND && positive, x.Op == token.LOR && !positive:
			return g.after(x.Y, g.after(x.X, st, positive), positive)
		case x.Op == token.LAND || x.Op == token.LOR:
			return st
		}
		if i, ok := g.errTest(x, st); ok {
			if (x.Op == token.NEQ) == positive {
				st = st.known(i, 2)
			} else {
				st = st.known(i, 1)
				if st.calls[i].kind == "add" {
					st.added = st.calls[i].lean
				}
			}
			return st
		}
		if k, ok := g.lenArgs(x, st); ok {
			op := x.Op
			if !positive {
				op = map[token.Token]token.Token{token.EQL: token.NEQ, token.NEQ: token.EQL, token.LSS: token.GEQ,
					token.GEQ: token.LSS, token.GTR: token.LEQ, token.LEQ: token.GTR}[op]
			}
			lb := 0
			switch op {
			case token.EQL, token.GEQ:
				lb = k
			case token.GTR:
				lb = k + 1
			case token.NEQ:
				if k == 0 { // a length that is not 0 is at least 1
					lb = 1
				}
			}
			if lb > st.lb {
				st.lb = lb
			}
		}
	}
	return st
}

// ------------------------------------------------------------------ logging

func (g *g17) log(s ast.Stmt, st s17) bool {
	if !g.isLog(s, g.f7st(st)) {
		return false
	}
	ast.Inspect(s, func(n ast.Node) bool {
		if id, ok := n.(*ast.Ident); ok && f7tables[id.Name] != "" {
			if _, local := st.vars[id.Name]; !local {
				g.notes[fmt.Sprintf("%s: %s is read in the argument of a log statement without recLock (it is only logged)", g.fset.Position(id.Pos()), id.Name)] = true
			}
		}
		return true
	})
	return true
}

// ------------------------------------------------------------------ results

func (g *g17) errResult(x ast.Expr, st s17) string {
	failed := func(e ast.Expr, want string) string {
		v, _, ok := g.variable(e, st, "err")
		g.must(ok && v.call >= 0, e, "the error returned must be the error of a call made on this path")
		c := st.calls[v.call]
		g.must(c.known == 2, e, "the error returned is not known to be non-nil here (it must be returned inside the test `err != nil`)")
		g.must(want == "" || c.kind == want, e, "the message does not belong to the call this error comes from")
		return e17ctor[c.kind]
	}
	if _, ok := g.unparen(x).(*ast.Ident); ok {
		return failed(x, "")
	}
	c, ok := g.unparen(x).(*ast.CallExpr)
	g.must(ok && !c.Ellipsis.IsValid() && len(c.Args) >= 1, x, "unknown error value")
	text, ok := g.strLit(c.Args[0])
	g.must(ok, c.Args[0], "the text of an error must be a string literal")
	switch p, n, _ := g.pkg(c.Fun, st); p + "." + n {
	case "errors.New":
		g.must(len(c.Args) == 1 && e17texts[text] != "", c.Args[0], "unknown error text (table e17texts of gen17.go)")
		return e17texts[text]
	case "fmt.Errorf":
		g.must(e17wraps[text] != "", c.Args[0], "unknown error text (table e17wraps of gen17.go)")
		g.must(strings.Count(text, "%") == len(c.Args)-1, c, "the format has %d verbs, %d arguments are given", strings.Count(text, "%"), len(c.Args)-1)
		for _, a := range c.Args[1 : len(c.Args)-1] {
			g.pure(a, g.f7st(st))
		}
		return failed(c.Args[len(c.Args)-1], e17wraps[text])
	}
	g.fail(x, "unknown error value")
	return ""
}

// handlerOf: a result of the set-up function that is a handler ↦ the table it serves.
func (g *g17) handlerOf(x ast.Expr, st s17, want6 bool) string {
	slot := map[bool]string{true: "first (handler.Handler6)", false: "second (handler.Handler4)"}[want6]
	var is6 bool
	var table string
	switch x := g.unparen(x).(type) {
	case *ast.Ident:
		if v, ok := st.vars[x.Name]; ok {
			g.must(v.role == "handler", x, "the %s result must be a handler", slot)
			is6, table = v.is6, v.table
		} else {
			f := g.funcs[x.Name]
			g.must(f != nil && f.Body != nil && f.Recv == nil, x, "the %s result must be a handler (a local `func(req, resp …) … { return handleN(&<table>, req, resp) }` or a package-level function of that shape)", slot)
			v6, t := g.delegate(f.Name, f.Type, f.Body, f7st{})
			is6, table = v6, t17tables[t]
		}
	case *ast.FuncLit:
		v6, t := g.delegate(x, x.Type, x.Body, g.f7st(st))
		is6, table = v6, t17tables[t]
	default:
		g.fail(x, "the %s result must be a handler", slot)
	}
	g.must(is6 == want6, x, "the %s result is a handler of the other protocol", slot)
	return table
}

func (g *g17) tested(at ast.Node, st s17, from int) {
	for _, c := range st.calls[from:] {
		g.must(c.known != 0, at, "the error of the call at %s is never tested on this path", g.fset.Position(c.pos))
	}
}

func (g *g17) ret(r *ast.ReturnStmt, st s17) string {
	if st.inLoop {
		g.must(len(r.Results) == 0, r, "the goroutine returns nothing")
		return g.evEnd(r, st, ".stops")
	}
	g.must(!st.inGo, r, "return in the goroutine outside the event loop")
	g.must(len(r.Results) == 3, r, "the set-up function returns (handler6, handler4, error)")
	fs := g.f7st(st)
	g.tested(r, st, 0)
	if g.isNil(r.Results[2], fs) {
		t6 := g.handlerOf(r.Results[0], st, true)
		t4 := g.handlerOf(r.Results[1], st, false)
		watch := "none"
		if st.watch != "" {
			watch = "(some " + atom17(st.watch) + ")"
		} else {
			g.must(st.added == "", r, "on this path the watcher watches something but nothing takes its events")
		}
		return ".ok " + watch + " " + t4 + " " + t6
	}
	g.must(g.isNil(r.Results[0], fs) && g.isNil(r.Results[1], fs), r, "next to an error both handlers must be nil")
	return g.errResult(r.Results[2], st)
}

// evEnd: one path through the body of the event loop ends.
func (g *g17) evEnd(at ast.Node, st s17, after string) string {
	g.tested(at, st, st.base)
	var loads []string
	refresh := ".keep"
	for _, c := range st.calls[st.base:] {
		if c.kind != "load" {
			continue
		}
		loads = append(loads, c.lean)
		if c.known == 1 {
			refresh = ".replace"
		}
	}
	g.must(st.rmed == "" || st.reAdd != "", at, "on this path the watch on the file was removed (watcher.Remove) and not set again: no later event would arrive")
	rewatch := "none"
	if st.reAdd != "" {
		rewatch = "some " + atom17(st.reAdd)
	}
	return "⟨[" + strings.Join(loads, ", ") + "], " + refresh + ", " + after + ", " + rewatch + "⟩"
}

// ------------------------------------------------------------------ statements

func (g *g17) block(list []ast.Stmt, st s17, depth int, k func(ast.Node, s17) string, end ast.Node) string {
	if len(list) == 0 {
		return k(end, st)
	}
	s, rest := list[0], list[1:]
	next := func(st2 s17) string { return g.block(rest, st2, depth, k, end) }
	switch s := s.(type) {
	case *ast.ReturnStmt:
		g.must(len(rest) == 0, s, "unreachable statement after return")
		return g.ret(s, st)
	case *ast.BranchStmt:
		g.must(st.inLoop && s.Label == nil && (s.Tok == token.CONTINUE || s.Tok == token.BREAK), s, "unsupported branch statement")
		g.must(len(rest) == 0, s, "unreachable statement after %s", s.Tok)
		if s.Tok == token.BREAK {
			return g.evEnd(s, st, ".stops")
		}
		return g.evEnd(s, st, ".continues")
	case *ast.IfStmt:
		st1 := st
		if s.Init != nil {
			var ok bool
			st1, ok = g.simple(s.Init, st, depth+1)
			g.must(ok, s.Init, "unsupported init statement of an if")
		}
		c := g.cond(s.Cond, st1)
		join := func(_ ast.Node, inner s17) string { return next(g.leave(st, inner)) }
		thenS := g.block(s.Body.List, g.after(s.Cond, st1, true), depth+2, join, s.Body)
		neg := g.after(s.Cond, st1, false)
		var elseS string
		switch e := s.Else.(type) {
		case nil:
			elseS = join(s, neg)
		case *ast.BlockStmt:
			elseS = g.block(e.List, neg, depth+2, join, e)
		case *ast.IfStmt:
			elseS = g.block([]ast.Stmt{e}, neg, depth+1, join, e)
		default:
			g.fail(s.Else, "unsupported else")
		}
		return ite(c.s, thenS, elseS)
	case *ast.GoStmt:
		return next(g.goroutine(s, st, depth))
	case *ast.RangeStmt, *ast.ForStmt, *ast.SelectStmt:
		g.must(st.inGo, s, "a loop in the set-up function itself (not in a goroutine): over the watcher's events it never ends, the set-up would not return")
		g.fail(s, "in the goroutine only the one loop over the watcher's Events is known; inside it: no further loop, receive or select (each takes events away from the reload)")
	}
	if g.log(s, st) {
		return next(st)
	}
	if st2, ok := g.unwatch(s, st); ok {
		return next(st2)
	}
	if st2, ok := g.simple(s, st, depth); ok {
		return next(st2)
	}
	g.fail(s, "unsupported statement in unit filesetup")
	return ""
}

// goroutine: `go func() { for range w.Events { … } }()` (or, over w.Errors, a loop that only logs).
func (g *g17) goroutine(s *ast.GoStmt, st s17, depth int) s17 {
	shape := "expected `go func() { for range <watcher>.Events { … } }()`"
	g.must(!st.inGo, s, "a goroutine started by the goroutine")
	lit, ok := g.unparen(s.Call.Fun).(*ast.FuncLit)
	g.must(ok && len(s.Call.Args) == 0 && (lit.Type.Params == nil || len(lit.Type.Params.List) == 0) &&
		(lit.Type.Results == nil || len(lit.Type.Results.List) == 0), s, shape)
	in := st
	in.inGo = true
	var loop *ast.RangeStmt
	for _, b := range lit.Body.List {
		if g.log(b, in) {
			continue
		}
		r, ok := b.(*ast.RangeStmt)
		g.must(ok && loop == nil, b, "%s: the goroutine is that one loop (and log statements)", shape)
		loop = r
	}
	g.must(loop != nil, lit.Body, shape)
	sel, ok := g.unparen(loop.X).(*ast.SelectorExpr)
	g.must(ok, loop.X, shape)
	_, _, isW := g.variable(sel.X, st, "watcher")
	g.must(isW && (sel.Sel.Name == "Events" || sel.Sel.Name == "Errors"), loop.X, shape)
	g.watcherOK(loop.X, st)
	g.must(loop.Value == nil, loop, "a loop over a channel has one variable")
	body := in
	if loop.Key != nil {
		id, ok := loop.Key.(*ast.Ident)
		g.must(ok && loop.Tok == token.DEFINE || isIdent(loop.Key, "_"), loop, "the loop variable must be declared by the loop (`for ev := range …`)")
		if id.Name != "_" {
			body = g.declare(id, v17{role: "ev"}, body, depth+2)
		}
	}
	if sel.Sel.Name == "Errors" {
		for _, b := range loop.Body.List {
			g.must(g.log(b, body), b, "a loop over the watcher's Errors may only log")
		}
		return st
	}
	g.must(st.watch == "", s, "a second goroutine takes events of the watcher: each event reaches only one of them")
	g.must(st.added != "", s, "on this path the watcher watches nothing (no watcher.Add known to have succeeded) when the goroutine starts")
	body.inLoop, body.base = true, len(body.calls)
	text := g.block(loop.Body.List, body, depth+3, func(at ast.Node, st2 s17) string { return g.evEnd(at, st2, ".continues") }, loop.Body)
	g.must(g.loopNode == nil || (g.loopNode == ast.Node(s) && g.loopText == text), s, "a second event loop (or the same one reached with different values)")
	g.loopNode, g.loopText = s, text
	st.watch = st.added
	return st
}

// ------------------------------------------------------------------ the registered functions

// reg: the function registered under `key` of the Plugin literal ↦ (Lean text of its Reg, the function it calls).
func (g *g17) reg(key string, want6 bool) (string, string) {
	pv := g.pkgVars["Plugin"]
	g.must(pv != nil && len(pv.Names) == 1 && len(pv.Values) == 1, g.get("loadFromFile").Name, "`var Plugin = plugins.Plugin{…}` not found")
	cl, ok := pv.Values[0].(*ast.CompositeLit)
	g.must(ok && cl.Type != nil, pv, "`var Plugin = plugins.Plugin{…}` not found")
	p, n, ok := g.pkg(cl.Type, s17{})
	g.must(ok && p == "plugins" && n == "Plugin", cl.Type, "`var Plugin = plugins.Plugin{…}` not found")
	var fn *ast.Ident
	for _, e := range cl.Elts {
		kv, ok := e.(*ast.KeyValueExpr)
		g.must(ok, e, "expected key: value")
		if isIdent(kv.Key, key) {
			id, ok := kv.Value.(*ast.Ident)
			g.must(ok && fn == nil, kv, "%s must be a function of this file, given once", key)
			fn = id
		}
	}
	g.must(fn != nil, cl, "Plugin does not register %s", key)
	f := g.get(fn.Name)
	sfx := map[bool]string{true: "6", false: "4"}[want6]
	shape := "expected `func " + fn.Name + "(args ...string) (handler.Handler" + sfx + ", error) { a, b, err := <set-up>(true|false, args...); return a|b, err }`"
	ps := g.signature(f, f.Type, "handler.Handler"+sfx, "error")
	g.must(len(ps) == 1 && ps[0].typ == "...string" && g.imports["handler"] == p17pkgs["handler"], f.Type, shape)
	st := g.declare(ps[0].id, v17{role: "args"}, s17{}, 0)
	var body []ast.Stmt
	for _, b := range f.Body.List {
		if !g.log(b, st) {
			body = append(body, b)
		}
	}
	g.must(len(body) == 2, f.Body, shape)
	a, ok := body[0].(*ast.AssignStmt)
	g.must(ok && a.Tok == token.DEFINE && len(a.Lhs) == 3 && len(a.Rhs) == 1, body[0], shape)
	c, ok := a.Rhs[0].(*ast.CallExpr)
	g.must(ok && len(c.Args) == 2 && c.Ellipsis.IsValid() && isIdent(c.Args[1], ps[0].id.Name), a.Rhs[0], shape)
	callee, ok := c.Fun.(*ast.Ident)
	g.must(ok && callee.Name != ps[0].id.Name && g.funcs[callee.Name] != nil, c.Fun, shape)
	flag, ok := g.boolLit(c.Args[0], g.f7st(st))
	g.must(ok, c.Args[0], "the protocol flag must be true or false")
	var names [3]string
	for i, l := range a.Lhs {
		id, ok := l.(*ast.Ident)
		g.must(ok, l, shape)
		names[i] = id.Name
		if id.Name != "_" {
			g.must(id.Name != ps[0].id.Name, id, shape)
			st = g.declare(id, v17{role: "res"}, st, 0)
		}
	}
	r, ok := body[1].(*ast.ReturnStmt)
	g.must(ok && len(r.Results) == 2, body[1], shape)
	g.must(names[2] != "_" && isIdent(r.Results[1], names[2]), r.Results[1], "the error returned must be the one of the set-up function")
	h, ok := r.Results[0].(*ast.Ident)
	g.must(ok && h.Name != "_" && h.Name != names[2] && (h.Name == names[0] || h.Name == names[1]), r.Results[0], "the handler returned must be one of the two the set-up function returned")
	side := ".six"
	if h.Name == names[1] {
		side = ".four"
	}
	return "⟨" + flag + ", " + side + "⟩", callee.Name
}

// ------------------------------------------------------------------ the unit

const gen17Header = `-- GENERATED by harness gen -unit filesetup from plugins/file/plugin.go (the set-up of the static-lease plugin) — do not edit
-- Regenerated from the Go source on every run; Props/GenFileSetup.lean proves these definitions
-- equal to the hand-written model in Model/FileSetup.lean.
import CoreDhcp.Model.FileSetup
set_option linter.unusedVariables false
namespace CoreDhcp.GenFileSetup
open FileSetup

/-! Fixed vocabulary (not derived from the source; the table is in the header of gen17.go).  Out-of-repository calls, and
the call into unit fileplugin, are inputs: ` + "`load b s`" + ` = ` + "`loadFromFile(b, s)`" + ` returned nil, as a function of ITS TWO ARGUMENTS;
` + "`newWatcherOk`" + ` = ` + "`fsnotify.NewWatcher()`" + ` returned no error; ` + "`add p`" + ` = ` + "`watcher.Add(p)`" + ` returned nil, as a function of the path;
` + "`readd p`" + ` = the ` + "`watcher.Add(p)`" + ` of the event loop returned nil; ` + "`ev`" + ` = the event of this iteration, ` + "`ev.has b`" + ` = ` + "`ev.Has(c)`" + ` for the
operation constant c of fsnotify whose value (read from the fsnotify source) is b.  The fourth component of what ` + "`onEvent`" + ` yields
is the path watched again: ` + "`watcher.Remove(p)`" + ` then ` + "`watcher.Add(p)`" + `, before any load of this event (` + "`none`" + `: the watcher is not touched).
` + "`args.getD k \"\"`" + ` = ` + "`args[k]`" + `, emitted only where the tests passed imply ` + "`len(args) > k`" + `;
a local that stands for an argument is replaced by it.  ` + "`.ok watch t4 t6`" + `: the goroutine consumes the events of the path
` + "`watch`" + ` (the expression given to the ` + "`Add`" + ` that succeeded); the DHCPv4 / DHCPv6 handler returned serves table t4 / t6
(` + "`.own4`" + ` = DHCPv4Records, ` + "`.own6`" + ` = DHCPv6Records, ` + "`.last`" + ` = StaticRecords).  Log statements ↦ nothing (arguments checked). -/

`

func runGen17(srcPath, outPath, lib string) {
	die := func(a ...interface{}) {
		fmt.Fprintln(os.Stderr, append([]interface{}{"gen:"}, a...)...)
		os.Exit(2)
	}
	if srcPath == "" {
		srcPath = filePluginSrc
	}
	u := &f7{gen: &gen{fset: token.NewFileSet()}, imports: map[string]string{}, pkgVars: map[string]*ast.ValueSpec{},
		funcs: map[string]*ast.FuncDecl{}, errsSeen: map[string]bool{}, loaders: map[string]string{}, used: map[string]int{}}
	g := &g17{f7: u, consts: map[string]*ast.ValueSpec{}, notes: map[string]bool{}, opsUsed: map[string]uint64{}, fsnRoot: fsnotifyRoot(srcPath, lib)}
	file, err := parser.ParseFile(u.fset, srcPath, nil, parser.SkipObjectResolution)
	if err != nil {
		die("parse:", err)
	}
	for _, im := range file.Imports {
		p, _ := strconv.Unquote(im.Path.Value)
		name := filepath.Base(p)
		if im.Name != nil {
			name = im.Name.Name
		}
		u.must(name != "." && name != "_", im, "dot and blank imports unsupported")
		u.imports[name] = p
		for _, tab := range []map[string]string{f7pkgs, p17pkgs} {
			if want, ok := tab[name]; ok {
				u.must(p == want, im, "package name %s stands for %s in the vocabulary", name, want)
			}
		}
	}
	for _, d := range file.Decls {
		switch d := d.(type) {
		case *ast.FuncDecl:
			if d.Recv == nil {
				u.must(u.funcs[d.Name.Name] == nil, d.Name, "function declared twice")
				u.funcs[d.Name.Name] = d
			}
		case *ast.GenDecl:
			if d.Tok != token.VAR && d.Tok != token.CONST {
				continue
			}
			for _, sp := range d.Specs {
				v := sp.(*ast.ValueSpec)
				for _, n := range v.Names {
					u.must(u.pkgVars[n.Name] == nil, n, "declared twice")
					u.pkgVars[n.Name] = v
					if d.Tok == token.CONST {
						g.consts[n.Name] = v
					}
				}
			}
		}
	}
	for t := range f7tables {
		v := u.pkgVars[t]
		u.must(v != nil && v.Type != nil && u.src(v.Type) == "map[string]net.IP" && len(v.Values) == 0 && g.consts[t] == nil, file.Name, "`var %s map[string]net.IP` not found", t)
	}
	for b := range f7builtins {
		u.must(u.pkgVars[b] == nil && u.funcs[b] == nil && u.imports[b] == "", file.Name, "the builtin `%s` is redefined", b)
	}
	for _, n := range []string{"handle4", "handle6"} {
		g.get(n)
	}
	lff := g.get("loadFromFile")
	lps := g.signature(lff, lff.Type, "error")
	g.paramTypes(lff.Type, lps, "bool", "string")

	// the two registered functions, and the function both call
	reg6, callee6 := g.reg("Setup6", true)
	reg4, callee4 := g.reg("Setup4", false)
	g.must(callee6 == callee4, g.get(callee4).Name, "the two registered functions call different set-up functions (%s, %s): the model has one", callee6, callee4)
	g.setupName = callee6
	f := g.get(g.setupName)
	ps := g.signature(f, f.Type, "handler.Handler6", "handler.Handler4", "error")
	g.paramTypes(f.Type, ps, "bool", "...string")
	st := s17{vars: map[string]v17{}}
	st = g.declare(ps[0].id, v17{role: "v6", lean: "v6"}, st, 0)
	st = g.declare(ps[1].id, v17{role: "args"}, st, 0)
	body := g.block(f.Body.List, st, 0, func(ast.Node, s17) string {
		g.fail(f.Name, "control reaches the end of the function without a return")
		return ""
	}, f.Body)
	g.must(g.loopNode != nil, f.Name, "no goroutine over the watcher's Events found: nothing would ever refresh the mapping")

	out := gen17Header
	out += def("the set-up function of plugins/file/plugin.go (the one both registered functions call: `setupFile`), translated from its go/ast",
		"setupFile (v6 : Bool) (args : List String) (load : Bool → String → Bool) (newWatcherOk : Bool) (add : String → Bool) : SetupOut", body)
	out += def("the body of the event loop of the goroutine the set-up function starts, for ONE event, translated from its go/ast",
		"onEvent (v6 : Bool) (args : List String) (load : Bool → String → Bool) (readd : String → Bool) (ev : Event) : EvOut", g.loopText)
	out += def("the function registered as `Setup6`: the flag it gives the set-up function, which of the two results it passes on", "reg6 : Reg", reg6)
	out += def("the function registered as `Setup4`: the flag it gives the set-up function, which of the two results it passes on", "reg4 : Reg", reg4)
	out += "end CoreDhcp.GenFileSetup\n"
	if err := os.WriteFile(outPath, []byte(out), 0o644); err != nil {
		die(err)
	}
	var notes []string
	for n := range g.notes {
		notes = append(notes, n)
	}
	sort.Strings(notes)
	for _, n := range notes {
		fmt.Println("gen: note:", n)
	}
	var ops []string
	for n, v := range g.opsUsed {
		ops = append(ops, fmt.Sprintf("fsnotify.%s = %d", n, v))
	}
	sort.Strings(ops)
	if len(ops) > 0 {
		fmt.Printf("gen: operation constants read from %s/fsnotify.go: %s\n", g.fsnRoot, strings.Join(ops, ", "))
	}
	fmt.Printf("gen: wrote %s (%d bytes) from %s\n", outPath, len(out), srcPath)
}
