package main

// Engine "serve": the real Serve loops (server/handle.go) on real UDP sockets on the loopback
// interface, around a chain of real stateless plugins (server_id, dns). This is the one engine in
// which datagrams travel through ReadFrom, the shared receive-buffer pool, `go l.HandleMsgN(...)`
// and WriteTo, as in production.
//
//   sv6 <k> <q|l> <procs> <seed>   k DHCPv6 datagrams from k client sockets
//   sv4 <k> <q|l> <procs> <seed>   k relayed DHCPv4 datagrams (giaddr 127.0.0.1; replies are read on 127.0.0.1:67)
//
// The implementation is its own oracle, which is what C16 says: first the k datagrams are sent one
// at a time, each reply (or silence) awaited; then the same k datagrams are sent as a burst —
// mode q: queued in the socket before Serve starts; mode l: sent while Serve runs — and the replies
// collected. Every client must get, in the burst, exactly the reply it got when it was alone.
// <procs> is GOMAXPROCS during the burst (1 makes "the next datagram is read before the previous
// handler goroutine has started" the rule rather than the exception).
// Result: ok n=<answered>/<k>  |  differs: <first differences>  |  skip <reason>

import (
	"bytes"
	"fmt"
	"math/rand"
	"net"
	"os"
	"runtime"
	"sort"
	"strings"
	"time"

	"github.com/coredhcp/coredhcp/handler"
	"github.com/coredhcp/coredhcp/plugins/dns"
	"github.com/coredhcp/coredhcp/plugins/serverid"
	"github.com/coredhcp/coredhcp/server"
	"github.com/insomniacslk/dhcp/dhcpv4"
	"github.com/insomniacslk/dhcp/dhcpv6"
	"github.com/insomniacslk/dhcp/iana"
)

func init() {
	engines["serve"] = &engine{gen: genServe, replay: replayServe}
}

// the relay address of this process: all of 127.0.0.0/8 is the loopback interface, so processes
// running at the same time each bind their own <address>:67
func relayAddr() net.IP {
	p := os.Getpid()
	return net.IPv4(127, byte(1+(p>>16)%250), byte(p>>8), byte(p)).To4()
}

var serveChains struct {
	done bool
	h6   []handler.Handler6
	h4   []handler.Handler4
	err  string
}

// one chain per process (the plugins keep their configuration in package globals)
func serveSetup() {
	if serveChains.done {
		return
	}
	serveChains.done = true
	s6, err := serverid.Plugin.Setup6("LL", "00:de:ad:be:ef:00")
	if err != nil {
		serveChains.err = "server_id6"
		return
	}
	d6, err := dns.Plugin.Setup6("2001:db8::53")
	if err != nil {
		serveChains.err = "dns6"
		return
	}
	s4, err := serverid.Plugin.Setup4("127.0.0.9")
	if err != nil {
		serveChains.err = "server_id4"
		return
	}
	d4, err := dns.Plugin.Setup4("8.8.8.8")
	if err != nil {
		serveChains.err = "dns4"
		return
	}
	serveChains.h6 = []handler.Handler6{s6, d6}
	serveChains.h4 = []handler.Handler4{s4, d4}
}

// the k datagrams of an operation, from its seed alone
func serveDatagrams(v6 bool, k int, seed int64) [][]byte {
	rng := rand.New(rand.NewSource(seed))
	var out [][]byte
	for i := 0; i < k; i++ {
		if v6 {
			m, _ := dhcpv6.NewMessage()
			m.MessageType = []dhcpv6.MessageType{dhcpv6.MessageTypeSolicit, dhcpv6.MessageTypeSolicit, dhcpv6.MessageTypeSolicit, dhcpv6.MessageTypeInformationRequest,
				dhcpv6.MessageTypeRebind, dhcpv6.MessageTypeConfirm, dhcpv6.MessageTypeAdvertise}[rng.Intn(7)]
			rng.Read(m.TransactionID[:])
			m.TransactionID[0] = byte(i) // distinct
			mac := net.HardwareAddr{2, 0, byte(rng.Intn(256)), byte(rng.Intn(256)), byte(i >> 8), byte(i)}
			if rng.Intn(10) != 0 {
				m.AddOption(dhcpv6.OptClientID(&dhcpv6.DUIDLL{HWType: iana.HWTypeEthernet, LinkLayerAddr: mac}))
			}
			if rng.Intn(2) == 0 {
				m.AddOption(dhcpv6.OptRequestedOption(dhcpv6.OptionDNSRecursiveNameServer))
			}
			if rng.Intn(5) == 0 {
				m.AddOption(&dhcpv6.OptionGeneric{OptionCode: dhcpv6.OptionRapidCommit})
			}
			// length varies a lot, so that a datagram handled with another's length shows
			if n := rng.Intn(4); n > 0 {
				m.AddOption(&dhcpv6.OptionGeneric{OptionCode: dhcpv6.OptionCode(250), OptionData: bytes.Repeat([]byte{byte(i)}, 4+40*n)})
			}
			var d dhcpv6.DHCPv6 = m
			for r := rng.Intn(3); r > 1; r-- {
				rr, err := dhcpv6.EncapsulateRelay(d, dhcpv6.MessageTypeRelayForward, net.ParseIP("2001:db8::1"), net.ParseIP("2001:db8::2"))
				if err != nil {
					break
				}
				rr.AddOption(dhcpv6.OptInterfaceID([]byte{7, byte(i)}))
				d = rr
			}
			b := d.ToBytes()
			if rng.Intn(12) == 0 {
				b = b[:rng.Intn(len(b))] // a runt
			}
			out = append(out, b)
		} else {
			mt := []dhcpv4.MessageType{dhcpv4.MessageTypeDiscover, dhcpv4.MessageTypeDiscover, dhcpv4.MessageTypeRequest, dhcpv4.MessageTypeInform, dhcpv4.MessageTypeRelease, dhcpv4.MessageTypeDecline}[rng.Intn(6)]
			mac := net.HardwareAddr{2, 0, byte(rng.Intn(256)), byte(rng.Intn(256)), byte(i >> 8), byte(i)}
			d, _ := dhcpv4.New(dhcpv4.WithMessageType(mt), dhcpv4.WithHwAddr(mac))
			rng.Read(d.TransactionID[:])
			d.TransactionID[0] = byte(i)
			d.GatewayIPAddr = relayAddr()
			if rng.Intn(2) == 0 {
				d.UpdateOption(dhcpv4.OptParameterRequestList(dhcpv4.OptionDomainNameServer))
			}
			if rng.Intn(3) == 0 {
				d.UpdateOption(dhcpv4.OptGeneric(dhcpv4.OptionClientIdentifier, []byte{1, 2, 3, byte(i)}))
			}
			if n := rng.Intn(4); n > 0 {
				d.UpdateOption(dhcpv4.OptGeneric(dhcpv4.OptionClassIdentifier, bytes.Repeat([]byte{byte('a' + i%26)}, 10+50*n)))
			}
			b := d.ToBytes()
			if rng.Intn(10) == 0 {
				b = b[:236+rng.Intn(8)] // a runt: BOOTP header and a few bytes
			}
			out = append(out, b)
		}
	}
	return out
}

type serveRun struct {
	v6      bool
	srv     net.PacketConn
	clients []*net.UDPConn
	rx4     *net.UDPConn // 127.0.0.1:67, where relayed DHCPv4 replies go
	done    chan error
}

func (r *serveRun) close() {
	if r.srv != nil {
		r.srv.Close()
	}
	for _, c := range r.clients {
		c.Close()
	}
	if r.rx4 != nil {
		r.rx4.Close()
	}
}

func newServeRun(v6 bool, k int) (*serveRun, string) {
	r := &serveRun{v6: v6, done: make(chan error, 1)}
	netw, addr := "udp6", "[::1]:0"
	if !v6 {
		netw, addr = "udp4", "127.0.0.1:0"
	}
	srv, err := net.ListenPacket(netw, addr)
	if err != nil {
		return nil, "no-loopback-socket"
	}
	r.srv = srv
	if !v6 {
		rx, err := net.ListenUDP("udp4", &net.UDPAddr{IP: relayAddr(), Port: 67})
		if err != nil {
			r.close()
			return nil, "cannot-bind-port-67"
		}
		r.rx4 = rx
	}
	for i := 0; i < k; i++ {
		c, err := net.DialUDP(netw, nil, srv.LocalAddr().(*net.UDPAddr))
		if err != nil {
			r.close()
			return nil, "no-client-socket"
		}
		r.clients = append(r.clients, c)
	}
	return r, ""
}

func (r *serveRun) start() {
	go func() {
		if r.v6 {
			r.done <- server.VerifServe6(r.srv, serveChains.h6)
		} else {
			r.done <- server.VerifServe4(r.srv, serveChains.h4)
		}
	}()
}

// collect reads what arrives until `want` replies are in (then a little longer, for replies that
// should not be there) or until d has passed: per client (DHCPv6: by socket; DHCPv4: by the first
// byte of the transaction id, which is the client's number) the replies as hex strings
func (r *serveRun) collect(k int, want int, d time.Duration) [][]string {
	got := make([][]string, k+1) // got[k]: replies that belong to nobody
	deadline := time.Now().Add(d)
	buf := make([]byte, 70000)
	total := 0
	sweep := func() {
		if r.v6 {
			for i, c := range r.clients {
				for {
					c.SetReadDeadline(time.Now().Add(2 * time.Millisecond))
					n, err := c.Read(buf)
					if err != nil {
						break
					}
					got[i] = append(got[i], hx(buf[:n]))
					total++
				}
			}
			return
		}
		for {
			r.rx4.SetReadDeadline(time.Now().Add(20 * time.Millisecond))
			n, err := r.rx4.Read(buf)
			if err != nil {
				break
			}
			i := k
			if n > 4 && int(buf[4]) < k {
				i = int(buf[4])
			}
			got[i] = append(got[i], hx(buf[:n]))
			total++
		}
	}
	for time.Now().Before(deadline) && total < want {
		sweep()
	}
	time.Sleep(60 * time.Millisecond)
	sweep()
	return got
}

func serveOp(f []string) string {
	serveSetup()
	if serveChains.err != "" {
		return "skip setup-" + serveChains.err
	}
	v6 := f[0] == "sv6"
	k, mode, procs := atoi(f[1]), f[2], atoi(f[3])
	var seed int64
	fmt.Sscan(f[4], &seed)
	dgs := serveDatagrams(v6, k, seed)
	// 1. one at a time
	r, why := newServeRun(v6, k)
	if r == nil {
		return "skip " + why
	}
	r.start()
	alone := make([][]string, k+1)
	for i, dg := range dgs {
		r.clients[i].Write(dg)
		var got [][]string
		if v6 {
			// this client's socket only; 40 ms of silence mean no reply
			r.clients[i].SetReadDeadline(time.Now().Add(40 * time.Millisecond))
			buf := make([]byte, 70000)
			if n, err := r.clients[i].Read(buf); err == nil {
				alone[i] = append(alone[i], hx(buf[:n]))
			}
		} else {
			got = r.collect(k, 1, 40*time.Millisecond)
			for j := range got {
				alone[j] = append(alone[j], got[j]...)
			}
		}
	}
	r.close()
	// 2. as a burst
	r, why = newServeRun(v6, k)
	if r == nil {
		return "skip " + why
	}
	defer r.close()
	old := runtime.GOMAXPROCS(procs)
	defer runtime.GOMAXPROCS(old)
	if mode == "l" {
		r.start()
	}
	for i, dg := range dgs {
		r.clients[i].Write(dg)
	}
	if mode == "q" {
		time.Sleep(5 * time.Millisecond)
		r.start()
	}
	want := 0
	for i := range alone {
		want += len(alone[i])
	}
	burst := r.collect(k, want, 3*time.Second)
	var diffs []string
	answered := 0
	for i := 0; i <= k; i++ {
		a, b := append([]string(nil), alone[i]...), append([]string(nil), burst[i]...)
		sort.Strings(a)
		sort.Strings(b)
		if len(a) > 0 && i < k {
			answered++
		}
		if strings.Join(a, ",") != strings.Join(b, ",") {
			who := fmt.Sprintf("client-%d", i)
			if i == k {
				who = "nobody"
			}
			short := func(xs []string) string {
				var o []string
				for _, x := range xs {
					if len(x) > 24 {
						x = x[:24] + "…"
					}
					o = append(o, x)
				}
				return fmt.Sprintf("%d[%s]", len(xs), strings.Join(o, ","))
			}
			diffs = append(diffs, fmt.Sprintf("%s:alone=%s,burst=%s", who, short(a), short(b)))
		}
	}
	if len(diffs) > 0 {
		if len(diffs) > 4 {
			diffs = append(diffs[:4], fmt.Sprintf("and-%d-more", len(diffs)-4))
		}
		return "differs " + strings.Join(diffs, " ")
	}
	return fmt.Sprintf("ok n=%d/%d", answered, k)
}

// svbig: datagrams of up to the largest size UDP carries, one at a time through the real Serve loop, whose
// right answer is known by construction and depends on an option at the very END of the datagram - so a
// receive path that sees only the first part of a long datagram (C01's quantifier is every datagram of
// 0..65535 bytes) answers wrongly. Chain: server_id, dns.
//   DHCPv6 A: SOLICIT, Client ID, padding options up to a chosen offset, then a Server Identifier  -> no reply (C14)
//   DHCPv6 B: SOLICIT, Client ID, padding, then an option request for the DNS servers              -> ADVERTISE with option 23 (C17)
//   DHCPv4 B: relayed DISCOVER, padding options, then a parameter request list naming option 6     -> OFFER with option 6 (C17)
//   DHCPv4 A: the same ending in option 54 naming another server                                   -> no reply (C14)
func bigOffsets(rng *rand.Rand, max int) []int {
	offs := []int{700, 1024, 1472, 2048, 4096, 8192, 9000, 16384, 32768}
	for i := 0; i < 3; i++ {
		offs = append(offs, 600+rng.Intn(max-600))
	}
	var out []int
	for _, o := range offs {
		if o <= max {
			out = append(out, o)
		}
	}
	out = append(out, max)
	return out
}

func bigOp(f []string) string {
	serveSetup()
	if serveChains.err != "" {
		return "skip setup-" + serveChains.err
	}
	v6 := f[1] == "6"
	var seed int64
	fmt.Sscan(f[2], &seed)
	rng := rand.New(rand.NewSource(seed))
	r, why := newServeRun(v6, 1)
	if r == nil {
		return "skip " + why
	}
	defer r.close()
	r.start()
	var bad []string
	n := 0
	// a reply is awaited for `wait`; one that belongs to another datagram of this operation (a late one) is skipped
	ask := func(dg []byte, wait time.Duration, xid []byte) []byte {
		r.clients[0].Write(dg)
		buf := make([]byte, 70000)
		deadline := time.Now().Add(wait)
		for time.Now().Before(deadline) {
			var k int
			var err error
			if v6 {
				r.clients[0].SetReadDeadline(deadline)
				k, err = r.clients[0].Read(buf)
			} else {
				r.rx4.SetReadDeadline(deadline)
				k, err = r.rx4.Read(buf)
			}
			if err != nil {
				return nil
			}
			rep := append([]byte(nil), buf[:k]...)
			if v6 && k >= 4 && bytes.Equal(rep[1:4], xid) || !v6 && k >= 8 && bytes.Equal(rep[4:8], xid) {
				return rep
			}
		}
		return nil
	}
	const waitNone, waitReply = 150 * time.Millisecond, 3 * time.Second
	if v6 {
		// 4 bytes header, 14 bytes Client ID (DUID-LL), then padding options (4-byte header each, body up to 60000)
		for _, off := range bigOffsets(rng, 65000) {
			for _, kind := range []string{"A", "B"} {
				m, _ := dhcpv6.NewMessage()
				m.MessageType = dhcpv6.MessageTypeSolicit
				rng.Read(m.TransactionID[:])
				m.AddOption(dhcpv6.OptClientID(&dhcpv6.DUIDLL{HWType: iana.HWTypeEthernet, LinkLayerAddr: net.HardwareAddr{2, 0, 0, 0, 9, byte(n)}}))
				rest := off - len(m.ToBytes())
				for rest >= 4 {
					body := rest - 4
					if body > 3000 {
						body = 3000 - rng.Intn(200)
						if rest-4-body < 4 { // never leave a remainder an option header does not fit in
							body = rest - 4
						}
					}
					m.AddOption(&dhcpv6.OptionGeneric{OptionCode: dhcpv6.OptionCode(250), OptionData: bytes.Repeat([]byte{0x5a}, body)})
					rest -= 4 + body
				}
				if kind == "A" {
					m.AddOption(dhcpv6.OptServerID(&dhcpv6.DUIDLL{HWType: iana.HWTypeEthernet, LinkLayerAddr: net.HardwareAddr{0, 0xde, 0xad, 0xbe, 0xef, 0x77}}))
				} else {
					m.AddOption(dhcpv6.OptRequestedOption(dhcpv6.OptionDNSRecursiveNameServer))
				}
				dg := m.ToBytes()
				if len(dg) > 65507 {
					continue
				}
				n++
				rep := ask(dg, map[string]time.Duration{"A": waitNone, "B": waitReply}[kind], m.TransactionID[:])
				if kind == "A" && rep != nil {
					bad = append(bad, fmt.Sprintf("v6A-len%d-tail%d:answered", len(dg), off))
				}
				if kind == "B" {
					ok := false
					if rep != nil {
						if pr, err := dhcpv6.FromBytes(rep); err == nil {
							if im, err := pr.GetInnerMessage(); err == nil && im.MessageType == dhcpv6.MessageTypeAdvertise && len(im.Options.DNS()) == 1 && im.TransactionID == m.TransactionID {
								ok = true
							}
						}
					}
					if !ok {
						bad = append(bad, fmt.Sprintf("v6B-len%d-tail%d:%s", len(dg), off, map[bool]string{true: "no-reply", false: "reply-without-dns"}[rep == nil]))
					}
				}
			}
		}
	} else {
		for _, off := range bigOffsets(rng, 65000) {
			for _, kind := range []string{"A", "B"} {
				d, _ := dhcpv4.New(dhcpv4.WithMessageType(dhcpv4.MessageTypeDiscover), dhcpv4.WithHwAddr(net.HardwareAddr{2, 0, 0, 0, 8, byte(n)}))
				rng.Read(d.TransactionID[:])
				d.GatewayIPAddr = relayAddr()
				b := d.ToBytes()
				// strip the End option and the BOOTP padding the library added: options are appended by hand,
				// in wire order (the library would sort them by code)
				for len(b) > 240 && b[len(b)-1] == 0 {
					b = b[:len(b)-1]
				}
				if b[len(b)-1] == 255 {
					b = b[:len(b)-1]
				}
				code := byte(224)
				for len(b)+2 < off {
					body := off - len(b) - 2
					if body > 255 {
						body = 255 - rng.Intn(20)
						if off-len(b)-2-body < 2 {
							body = off - len(b) - 2 - 2
						}
					}
					b = append(b, code, byte(body))
					b = append(b, bytes.Repeat([]byte{0x5a}, body)...)
					code++
					if code == 255 {
						code = 224
					}
				}
				if kind == "A" {
					b = append(b, 54, 4, 127, 0, 0, 77)
				} else {
					b = append(b, 55, 1, 6)
				}
				b = append(b, 255)
				if len(b) > 65507 {
					continue
				}
				n++
				rep := ask(b, map[string]time.Duration{"A": waitNone, "B": waitReply}[kind], d.TransactionID[:])
				if kind == "A" && rep != nil {
					bad = append(bad, fmt.Sprintf("v4A-len%d-tail%d:answered", len(b), off))
				}
				if kind == "B" {
					ok := false
					if rep != nil {
						if pr, err := dhcpv4.FromBytes(rep); err == nil && pr.MessageType() == dhcpv4.MessageTypeOffer && len(pr.DNS()) == 1 && pr.TransactionID == d.TransactionID {
							ok = true
						}
					}
					if !ok {
						bad = append(bad, fmt.Sprintf("v4B-len%d-tail%d:%s", len(b), off, map[bool]string{true: "no-reply", false: "reply-without-dns"}[rep == nil]))
					}
				}
			}
		}
	}
	if len(bad) > 0 {
		if len(bad) > 5 {
			bad = append(bad[:5], fmt.Sprintf("and-%d-more", len(bad)-5))
		}
		return "wrong " + strings.Join(bad, " ")
	}
	return fmt.Sprintf("ok n=%d", n)
}

func replayServe(c *ctx, ops []string) {
	for _, op := range ops {
		f := strings.Fields(op)
		res := watchdog(30*time.Second, func() string {
			return guard(func() string {
				if f[0] == "svstart" {
					return startOp(f)
				}
				if f[0] == "svl2" {
					return l2Op(f)
				}
				if f[0] == "svbig" {
					return bigOp(f)
				}
				return serveOp(f)
			})
		})
		c.emit(op, res)
	}
}

func genServe(c *ctx) {
	// the whole server through server.Start first: both sections with an empty chain, a chain that is empty after the
	// protocol filter, one pass-through plugin; then one section alone
	for _, op := range []string{fmt.Sprintf("svbig 6 %d", c.rng.Int63n(1<<40)), fmt.Sprintf("svbig 4 %d", c.rng.Int63n(1<<40)), "svstart 4 range2", "svstart 6 probe", "svstart 46 empty", "svstart 46 other", "svstart 46 dns", "svstart 6 empty", "svstart 4 other", "svl2 16"} {
		if c.count < c.n {
			replayServe(c, []string{op})
		}
	}
	for c.count < c.n {
		proto := []string{"sv6", "sv6", "sv4"}[c.rng.Intn(3)]
		k := []int{2, 6, 12, 24}[c.rng.Intn(4)]
		op := fmt.Sprintf("%s %d %s %d %d", proto, k, []string{"q", "l"}[c.rng.Intn(2)], []int{1, 1, 2, 16}[c.rng.Intn(4)], c.rng.Int63n(1<<40))
		replayServe(c, []string{op})
	}
}
